/-
C16 (part B) — the fff routines that write through a view: on the WHOLE parent buffer, inside
the window the result is the definition, outside the window nothing changes.  For every view
geometry (any offset, any `tda ≥ size2`, any stride ≥ 1) and both code paths of the copies.
-/
import NipyVerif.Lemmas.C16B
import Mathlib.Data.Rat.Floor

namespace NipyVerif.C16

/-! ## Index maps of the view constructors -/

/-- `fff_matrix_row(A, i)` addresses `A[i][j]` -/
theorem row_ix (A : MView) (i j : Nat) : (A.row i).ix j = A.ix i j := by
  simp [MView.row, VView.ix, MView.ix]

/-- `fff_matrix_col(A, j)` addresses `A[i][j]` -/
theorem col_ix (A : MView) (i j : Nat) : (A.col j).ix i = A.ix i j := by
  simp [MView.col, VView.ix, MView.ix]; omega

/-- `fff_matrix_diag(A)` addresses `A[i][i]` (stride `tda + 1`) -/
theorem diag_ix (A : MView) (i : Nat) : A.diag.ix i = A.ix i i := by
  simp [MView.diag, VView.ix, MView.ix]; ring

/-- `fff_matrix_block(A, imin, nrows, jmin, ncols)` addresses `A[imin + i][jmin + j]`, same pitch -/
theorem block_ix (A : MView) (imin nrows jmin ncols i j : Nat) :
    (A.block imin nrows jmin ncols).ix i j = A.ix (imin + i) (jmin + j) ∧
    (A.block imin nrows jmin ncols).tda = A.tda := by
  refine ⟨?_, rfl⟩
  simp [MView.block, MView.ix]; ring

/-! ## Vectors -/

/-- element-wise loops of `fff_vector.c` (`add/sub/mul/div`, and with a constant function
    `scale/add_constant/set_all`, `daxpy`): inside the view the definition … -/
theorem vecBin_inside (f : Rat → Rat → Rat) (x y : VView) (bx bs : Buf) (hx : x.Valid bx)
    (i : Nat) (hi : i < x.size) :
    (vecBin f x y bx bs).getD (x.ix i) 0 = f (bx.getD (x.ix i) 0) (vget y bs i) := by
  unfold vecBin
  exact updIdx_inside x.ix _ x.size bx (fun a b _ _ h => vview_inj x hx.1 a b h) (fun a ha => hx.lt a ha) i hi

/-- … and every other item of the parent buffer is untouched. -/
theorem vecBin_outside (f : Rat → Rat → Rat) (x y : VView) (bx bs : Buf) (k : Nat)
    (hk : ∀ i, i < x.size → x.ix i ≠ k) : (vecBin f x y bx bs).getD k 0 = bx.getD k 0 :=
  updIdx_outside _ _ _ _ _ hk

theorem vecMap_inside (f : Rat → Rat) (x : VView) (bx : Buf) (hx : x.Valid bx) (i : Nat) (hi : i < x.size) :
    (vecMap f x bx).getD (x.ix i) 0 = f (bx.getD (x.ix i) 0) := by
  unfold vecMap
  exact updIdx_inside x.ix _ x.size bx (fun a b _ _ h => vview_inj x hx.1 a b h) (fun a ha => hx.lt a ha) i hi

theorem vecMap_outside (f : Rat → Rat) (x : VView) (bx : Buf) (k : Nat)
    (hk : ∀ i, i < x.size → x.ix i ≠ k) : (vecMap f x bx).getD k 0 = bx.getD k 0 :=
  updIdx_outside _ _ _ _ _ hk

/-- `fff_vector_memcpy`, both the `memcpy` path (strides 1) and the loop: `x[i] = y[i]` -/
theorem vecMemcpy_inside (x y : VView) (bx bs : Buf) (hx : x.Valid bx) (i : Nat) (hi : i < x.size) :
    (vecMemcpy x y bx bs).getD (x.ix i) 0 = vget y bs i := by
  unfold vecMemcpy
  split_ifs with h
  · have e1 : x.ix i = x.off + i := by simp [VView.ix, h.1]
    have e2 : vget y bs i = bs.getD (y.off + i) 0 := by simp [vget, VView.ix, h.2]
    rw [e1, e2]
    exact updIdx_inside (fun k => x.off + k) (fun k _ => bs.getD (y.off + k) 0) x.size bx
      (fun a b _ _ hab => by simpa using hab)
      (fun a ha => by have := hx.lt a ha; simpa [VView.ix, h.1] using this) i hi
  · exact updIdx_inside x.ix _ x.size bx (fun a b _ _ hab => vview_inj x hx.1 a b hab) (fun a ha => hx.lt a ha) i hi

theorem vecMemcpy_outside (x y : VView) (bx bs : Buf) (k : Nat)
    (hk : ∀ i, i < x.size → x.ix i ≠ k) : (vecMemcpy x y bx bs).getD k 0 = bx.getD k 0 := by
  unfold vecMemcpy
  split_ifs with h
  · apply updIdx_outside
    intro i hi
    have := hk i hi
    simpa [VView.ix, h.1] using this
  · exact updIdx_outside _ _ _ _ _ hk

/-! ## Matrices -/

/-- element-wise double loops of `fff_matrix.c` (`add/sub/mul_elements/div_elements`) on a window
    of a larger parent: inside the window the definition … -/
theorem matBin_inside (f : Rat → Rat → Rat) (A B : MView) (ba bs : Buf) (hA : A.Valid ba)
    (i j : Nat) (hi : i < A.r) (hj : j < A.c) :
    (matBin f A B ba bs).getD (A.ix i j) 0 = f (ba.getD (A.ix i j) 0) (mget B bs i j) := by
  unfold matBin
  exact updRows_inside A.ix _ A.c A.r ba
    (fun a b a' b' _ hb _ hb' h => mview_inj A hA.1 a b a' b' hb hb' h) (fun a b ha hb => hA.lt a b ha hb) i j hi hj

/-- … outside the window (the gaps between rows, the margins) nothing is written. -/
theorem matBin_outside (f : Rat → Rat → Rat) (A B : MView) (ba bs : Buf) (k : Nat)
    (hk : ∀ i j, i < A.r → j < A.c → A.ix i j ≠ k) : (matBin f A B ba bs).getD k 0 = ba.getD k 0 :=
  updRows_outside _ _ _ _ _ _ hk

/-- `set_all`, `set_scalar`, `scale`, `add_constant` -/
theorem matMap_inside (f : Nat → Nat → Rat → Rat) (A : MView) (ba : Buf) (hA : A.Valid ba)
    (i j : Nat) (hi : i < A.r) (hj : j < A.c) :
    (matMap f A ba).getD (A.ix i j) 0 = f i j (ba.getD (A.ix i j) 0) := by
  unfold matMap
  exact updRows_inside A.ix _ A.c A.r ba
    (fun a b a' b' _ hb _ hb' h => mview_inj A hA.1 a b a' b' hb hb' h) (fun a b ha hb => hA.lt a b ha hb) i j hi hj

theorem matMap_outside (f : Nat → Nat → Rat → Rat) (A : MView) (ba : Buf) (k : Nat)
    (hk : ∀ i j, i < A.r → j < A.c → A.ix i j ≠ k) : (matMap f A ba).getD k 0 = ba.getD k 0 :=
  updRows_outside _ _ _ _ _ _ hk

/-- `fff_matrix_transpose`: `A[i][j] = B[j][i]` -/
theorem matTranspose_inside (A B : MView) (ba bs : Buf) (hA : A.Valid ba)
    (i j : Nat) (hi : i < A.r) (hj : j < A.c) :
    (matTranspose A B ba bs).getD (A.ix i j) 0 = mget B bs j i := by
  unfold matTranspose
  exact updRows_inside A.ix _ A.c A.r ba
    (fun a b a' b' _ hb _ hb' h => mview_inj A hA.1 a b a' b' hb hb' h) (fun a b ha hb => hA.lt a b ha hb) i j hi hj

theorem matTranspose_outside (A B : MView) (ba bs : Buf) (k : Nat)
    (hk : ∀ i j, i < A.r → j < A.c → A.ix i j ≠ k) : (matTranspose A B ba bs).getD k 0 = ba.getD k 0 :=
  updRows_outside _ _ _ _ _ _ hk

/-- `fff_matrix_memcpy(A, B)` copies the window: `A[i][j] = B[i][j]`, by the single `memcpy`
    (both matrices contiguous) as well as by the double loop. -/
theorem matMemcpy_inside (A B : MView) (ba bs : Buf) (hA : A.Valid ba) (hc : B.c = A.c)
    (i j : Nat) (hi : i < A.r) (hj : j < A.c) :
    (matMemcpy A B ba bs).getD (A.ix i j) 0 = mget B bs i j := by
  unfold matMemcpy
  split_ifs with h
  · rw [contig_ix A h.1 i j]
    have e2 : mget B bs i j = bs.getD (B.off + (i * A.c + j)) 0 := by
      unfold mget; rw [contig_ix B h.2 i j, hc]
    rw [e2]
    have hlt := contig_lt A.r A.c i j hi hj
    refine updIdx_inside (fun k => A.off + k) (fun k _ => bs.getD (B.off + k) 0) (A.r * A.c) ba
      (fun a b _ _ hab => by simpa using hab) ?_ (i * A.c + j) hlt
    intro k hk
    have hcpos : 0 < A.c := by
      rcases Nat.eq_zero_or_pos A.c with h0 | h0
      · rw [h0] at hk; simp at hk
      · exact h0
    have hq : k / A.c < A.r := Nat.div_lt_of_lt_mul (by rw [Nat.mul_comm]; exact hk)
    have hm : k % A.c < A.c := Nat.mod_lt _ hcpos
    have := hA.lt (k / A.c) (k % A.c) hq hm
    rw [contig_ix A h.1] at this
    have hs := contig_split A.c k hcpos
    show A.off + k < ba.size
    omega
  · exact updRows_inside A.ix _ A.c A.r ba
      (fun a b a' b' _ hb _ hb' h => mview_inj A hA.1 a b a' b' hb hb' h) (fun a b ha hb => hA.lt a b ha hb) i j hi hj

/-- `fff_matrix_memcpy` writes NOTHING outside the destination window — in particular not into the
    gaps between the rows of a non-contiguous destination (the `memcpy` path is only taken when
    `tda = size2` on both sides, where the span *is* the window). -/
theorem matMemcpy_outside (A B : MView) (ba bs : Buf) (k : Nat)
    (hk : ∀ i j, i < A.r → j < A.c → A.ix i j ≠ k) : (matMemcpy A B ba bs).getD k 0 = ba.getD k 0 := by
  unfold matMemcpy
  split_ifs with h
  · apply updIdx_outside
    intro q hq
    have hcpos : 0 < A.c := by
      rcases Nat.eq_zero_or_pos A.c with h0 | h0
      · rw [h0] at hq; simp at hq
      · exact h0
    have hq1 : q / A.c < A.r := Nat.div_lt_of_lt_mul (by rw [Nat.mul_comm]; exact hq)
    have hm : q % A.c < A.c := Nat.mod_lt _ hcpos
    have := hk (q / A.c) (q % A.c) hq1 hm
    rw [contig_ix A h.1] at this
    have hs := contig_split A.c q hcpos
    intro he
    apply this
    omega
  · exact updRows_outside _ _ _ _ _ _ hk

/-- `fff_matrix_set_row(A, i, x)`: row `i` of the window takes `x`; -/
theorem matSetRow_inside (A : MView) (i : Nat) (x : VView) (ba bs : Buf) (hA : A.Valid ba) (hi : i < A.r)
    (j : Nat) (hj : j < A.c) : (matSetRow A i x ba bs).getD (A.ix i j) 0 = vget x bs j := by
  unfold matSetRow
  rw [← row_ix]
  apply vecMemcpy_inside
  · refine ⟨by simp [MView.row], Or.inr ?_⟩
    have := hA.lt i (A.c - 1) hi (by omega)
    simpa [MView.row, MView.ix] using this
  · exact hj

/-- … the other rows, and everything around the window, are untouched. -/
theorem matSetRow_outside (A : MView) (i : Nat) (x : VView) (ba bs : Buf) (k : Nat)
    (hk : ∀ j, j < A.c → A.ix i j ≠ k) : (matSetRow A i x ba bs).getD k 0 = ba.getD k 0 := by
  unfold matSetRow
  apply vecMemcpy_outside
  intro j hj
  rw [row_ix]
  exact hk j hj

/-- `fff_matrix_set_col(A, j, x)` through the column view of stride `tda` -/
theorem matSetCol_inside (A : MView) (j : Nat) (x : VView) (ba bs : Buf) (hA : A.Valid ba) (hj : j < A.c)
    (ht : 1 ≤ A.tda) (i : Nat) (hi : i < A.r) : (matSetCol A j x ba bs).getD (A.ix i j) 0 = vget x bs i := by
  unfold matSetCol
  rw [← col_ix]
  apply vecMemcpy_inside
  · refine ⟨by simpa [MView.col] using ht, Or.inr ?_⟩
    have := hA.lt (A.r - 1) j (by omega) hj
    simp only [MView.col, MView.ix] at this ⊢
    omega
  · exact hi

theorem matSetCol_outside (A : MView) (j : Nat) (x : VView) (ba bs : Buf) (k : Nat)
    (hk : ∀ i, i < A.r → A.ix i j ≠ k) : (matSetCol A j x ba bs).getD k 0 = ba.getD k 0 := by
  unfold matSetCol
  apply vecMemcpy_outside
  intro i hi
  rw [col_ix]
  exact hk i hi

/-- `fff_matrix_set_diag(A, x)` through the diagonal view of stride `tda + 1` -/
theorem matSetDiag_inside (A : MView) (x : VView) (ba bs : Buf) (hA : A.Valid ba)
    (i : Nat) (hi : i < min A.r A.c) : (matSetDiag A x ba bs).getD (A.ix i i) 0 = vget x bs i := by
  unfold matSetDiag
  rw [← diag_ix]
  apply vecMemcpy_inside
  · refine ⟨by simp [MView.diag], Or.inr ?_⟩
    have hm : min A.r A.c - 1 < A.r ∧ min A.r A.c - 1 < A.c := by omega
    have := hA.lt (min A.r A.c - 1) (min A.r A.c - 1) hm.1 hm.2
    have e := diag_ix A (min A.r A.c - 1)
    simp only [VView.ix] at e
    simp only [MView.diag] at e ⊢
    omega
  · exact hi

/-! ## In-place BLAS updates of a sub-matrix -/

/-- `fff_blas_dger` on a window: `A[i][j] += alpha x[i] y[j]` inside, frame outside -/
theorem matGer_inside (al : Rat) (A : MView) (x y : VView) (ba bx bye : Buf) (hA : A.Valid ba)
    (i j : Nat) (hi : i < A.r) (hj : j < A.c) :
    (matGer al A x y ba bx bye).getD (A.ix i j) 0 = ba.getD (A.ix i j) 0 + al * vget x bx i * vget y bye j := by
  unfold matGer
  exact updRows_inside A.ix _ A.c A.r ba
    (fun a b a' b' _ hb _ hb' h => mview_inj A hA.1 a b a' b' hb hb' h) (fun a b ha hb => hA.lt a b ha hb) i j hi hj

theorem matGer_outside (al : Rat) (A : MView) (x y : VView) (ba bx bye : Buf) (k : Nat)
    (hk : ∀ i j, i < A.r → j < A.c → A.ix i j ≠ k) : (matGer al A x y ba bx bye).getD k 0 = ba.getD k 0 :=
  updRows_outside _ _ _ _ _ _ hk

/-- `fff_blas_dsyr2` on a window: only the caller's triangle is updated -/
theorem matSyr2_inside (lower : Bool) (al : Rat) (A : MView) (x y : VView) (ba bx bye : Buf) (hA : A.Valid ba)
    (i j : Nat) (hi : i < A.r) (hj : j < A.c) :
    (matSyr2 lower al A x y ba bx bye).getD (A.ix i j) 0 =
      if (if lower then decide (j ≤ i) else decide (i ≤ j)) then
        ba.getD (A.ix i j) 0 + al * vget x bx i * vget y bye j + al * vget y bye i * vget x bx j
      else ba.getD (A.ix i j) 0 := by
  unfold matSyr2
  exact updRows_inside A.ix _ A.c A.r ba
    (fun a b a' b' _ hb _ hb' h => mview_inj A hA.1 a b a' b' hb hb' h) (fun a b ha hb => hA.lt a b ha hb) i j hi hj

theorem matSyr2_outside (lower : Bool) (al : Rat) (A : MView) (x y : VView) (ba bx bye : Buf) (k : Nat)
    (hk : ∀ i j, i < A.r → j < A.c → A.ix i j ≠ k) :
    (matSyr2 lower al A x y ba bx bye).getD k 0 = ba.getD k 0 :=
  updRows_outside _ _ _ _ _ _ hk

/-! ## `FFF_ROUND` -/

theorem truncInt_spec (q : Rat) : truncInt q = if q ≥ 0 then ⌊q⌋ else ⌈q⌉ := by
  unfold truncInt
  split_ifs
  · rfl
  · show -⌊-q⌋ = ⌈q⌉
    rw [Int.floor_neg, neg_neg]

/-- the rule as written (macro argument substituted textually) is: round to nearest, ties away
    from zero — `⌊v + 1/2⌋` for `v + 1/2 > 0`, `⌈v − 1/2⌉` otherwise. -/
theorem fffRound_eq (v : Rat) : fffRound v = if v + 1 / 2 > 0 then ⌊v + 1 / 2⌋ else ⌈v - 1 / 2⌉ := by
  unfold fffRound
  simp only
  split_ifs with h1 h2 h2
  · rw [truncInt_spec, if_pos (le_of_lt h1)]
  · -- v + 1/2 ≤ 0 : trunc = ceil(v + 1/2); ceil(v + 1/2) - 1 = ceil(v - 1/2)
    rw [truncInt_spec]
    by_cases h0 : v + 1 / 2 ≥ 0
    · have hz : v + 1 / 2 = 0 := le_antisymm (not_lt.mp h1) h0
      rw [if_pos h0, hz]
      have : v - 1 / 2 = ((-1 : ℤ) : ℚ) := by push_cast; linarith
      rw [this, Int.ceil_intCast, Int.floor_zero] <;> norm_num
    · rw [if_neg h0]
      have : v - 1 / 2 = (v + 1 / 2) - 1 := by ring
      rw [this, Int.ceil_sub_one]
  · exfalso
    apply h2
    rw [truncInt_spec]
    by_cases h0 : v + 1 / 2 ≥ 0
    · have hz : v + 1 / 2 = 0 := le_antisymm (not_lt.mp h1) h0
      rw [if_pos h0, hz]; simp; linarith
    · rw [if_neg h0]
      have := Int.le_ceil (v + 1 / 2)
      intro he
      linarith

/-- `FFF_ROUND` "rounds to the nearest integer (either smaller or bigger)": the stored integer is
    within 1/2 of the value. -/
theorem fffRound_nearest (v : Rat) : |((fffRound v : Int) : Rat) - v| ≤ 1 / 2 := by
  rw [fffRound_eq]
  split_ifs with h
  · have h1 := Int.floor_le (v + 1 / 2)
    have h2 := Int.lt_floor_add_one (v + 1 / 2)
    rw [abs_le]; constructor <;> linarith
  · have h1 := Int.le_ceil (v - 1 / 2)
    have h2 := Int.ceil_lt_add_one (v - 1 / 2)
    rw [abs_le]; constructor <;> linarith

/-- integers are stored unchanged (conversions between integer datatypes are exact in range) -/
theorem fffRound_int (n : Int) : fffRound (n : Rat) = n := by
  rw [fffRound_eq]
  split_ifs with h
  · have : ((n : Rat) + 1 / 2) = ((n : Int) : Rat) + 1 / 2 := rfl
    rw [Int.floor_intCast_add]
    have : ⌊(1 / 2 : Rat)⌋ = 0 := by norm_num
    omega
  · have e : ((n : Rat) - 1 / 2) = ((n : Int) : Rat) + (-(1 / 2)) := by ring
    rw [e, Int.ceil_intCast_add]
    have : ⌈(-(1 / 2) : Rat)⌉ = 0 := by norm_num
    omega

/-! ## Non-vacuity -/

/-- a 2×2 window at offset 1 of a 3-column parent: the gap cell (index 3) survives a copy -/
example : (matMemcpy ⟨1, 2, 2, 3⟩ ⟨0, 2, 2, 3⟩ #[10, 11, 12, 13, 14, 15] #[1, 2, 3, 4, 5, 6]).toList
    = [10, 1, 2, 13, 4, 5] := by decide +kernel
example : (⟨1, 2, 2, 3⟩ : MView).Valid #[10, 11, 12, 13, 14, 15] := by
  refine ⟨by decide, Or.inr (Or.inr ?_)⟩; decide
example : (⟨1, 3, 2⟩ : VView).Valid #[0, 1, 2, 3, 4, 5] := ⟨by decide, Or.inr (by decide)⟩
example : fffRound (-31 / 2) = -16 ∧ fffRound (31 / 2) = 16 ∧ fffRound (-1 / 2) = -1 ∧ fffRound (-61 / 4) = -15 := by
  decide +kernel
example : (matGer 2 ⟨1, 2, 2, 3⟩ ⟨0, 2, 1⟩ ⟨0, 2, 2⟩ #[0, 0, 0, 0, 0, 0] #[1, 2] #[3, 0, 4]).toList
    = [0, 6, 8, 0, 12, 16] := by decide +kernel

end NipyVerif.C16
