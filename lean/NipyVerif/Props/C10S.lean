/-
C10S — term identity over session histories: property theorems about the
object-store machine of `NipyVerif.Model.C10S`.

"a categorical factor yields indicator columns that partition the observations"
and "each column equals the term's algebraic expression evaluated on the
supplied data" — for every *history* of creations (Terms, Factors,
FactorTerms, formula arithmetic, stratify / get_term, with whatever printed
names) before and after.
-/
import NipyVerif.Lemmas.C10S

namespace NipyVerif.C10

/-! ## The source has the identity fix -/

/-- what the translator read off `class FactorTerm` in /repo: objects are not
    taken from the symbol cache, and identity includes factor and level.  All
    theorems below are about this policy; the driver runs the machine with
    `sourcePolicy`. -/
theorem source_policy_is_fixed : sourcePolicy = Policy.fixed := by decide

/-! ## Identity -/

/-- a reference and its canonical variable are objects with the same content -/
theorem canon_same_cell (p : Policy) (hh : p.hashLevel = true) (heap : List Cell) (r : Nat)
    (hr : r < heap.length) : heap[canon p heap r]? = heap[r]? := by
  have hk : ∀ c, p.key c = c := fun c => by simp [Policy.key, hh]
  have hm : heap.map p.key = heap := by
    conv_rhs => rw [← List.map_id heap]
    exact List.map_congr_left (fun c _ => hk c)
  unfold canon
  rw [List.getElem?_eq_getElem hr]
  simp only [hm, hk]
  have hlt : heap.idxOf heap[r] < heap.length :=
    List.idxOf_lt_length_iff.mpr (List.getElem_mem hr)
  rw [List.getElem?_eq_getElem hlt, List.getElem_idxOf hlt]

/-- "term identity": two references stand for the same variable of the term
    algebra exactly when the objects have the same identity (class, printed
    name, factor name, level and level kind) — not merely the same printed name. -/
theorem canon_eq_iff (p : Policy) (hh : p.hashLevel = true) (heap : List Cell) (r1 r2 : Nat)
    (h1 : r1 < heap.length) (h2 : r2 < heap.length) :
    canon p heap r1 = canon p heap r2 ↔ heap[r1]? = heap[r2]? := by
  constructor
  · intro h
    rw [← canon_same_cell p hh heap r1 h1, ← canon_same_cell p hh heap r2 h2, h]
  · intro h
    unfold canon
    rw [List.getElem?_eq_getElem h1, List.getElem?_eq_getElem h2] at *
    simp only [Option.some.injEq] at h
    simp only [h]

/-- printing alike is not being alike: the FactorTerm of `('a', 'b_c')`, that of
    `('a_b', 'c')` and the plain Term `a_b_c` print the same and are three
    different identities; so are the int level 1 and the string level '1'. -/
theorem printed_name_is_not_identity :
    (ftCell "a" (.str "b_c")).name = (ftCell "a_b" (.str "c")).name ∧
    (ftCell "a" (.str "b_c")).name = (plainCell "a_b_c").name ∧
    ftCell "a" (.str "b_c") ≠ ftCell "a_b" (.str "c") ∧
    ftCell "a" (.str "b_c") ≠ plainCell "a_b_c" ∧
    (ftCell "g" (.int 1)).name = (ftCell "g" (.str "1")).name ∧
    ftCell "g" (.int 1) ≠ ftCell "g" (.str "1") := by
  decide +kernel

/-! ## Histories -/

/-- every event keeps the store well formed, whatever the policy -/
theorem history_well_formed (p : Policy) (datas : List Data) (evs : List Event) :
    (runState p datas Sess.init evs).WF :=
  (runState_ok p datas evs Sess.init).wf Sess.init_wf

/-- objects never lose their content: under the source's policy a history only
    appends to the object store -/
theorem history_keeps_cells (p : Policy) (hp : p.viaCache = false) (datas : List Data)
    (s : Sess) (evs : List Event) (r : Nat) (c : Cell) (h : s.heap[r]? = some c) :
    (runState p datas s evs).heap[r]? = some c :=
  (runState_heapExt p hp datas evs s).get h

/-- "whatever else was created before or after": an object created at some
    point of a session is still there after any further history, and its design
    on any data is the design it had when it was created. -/
theorem design_history_independent (p : Policy) (hp : p.viaCache = false) (datas : List Data)
    (s : Sess) (w : s.WF) (i : Nat) (o : Obj) (ho : s.objs[i]? = some o)
    (evs : List Event) (d : Data) :
    (runState p datas s evs).objs[i]? = some o ∧
    sessDesign (runState p datas s evs).heap d o.f = sessDesign s.heap d o.f := by
  constructor
  · obtain ⟨t, ht⟩ := (runState_ok p datas evs s).objs
    rw [ht]
    have hlt : i < s.objs.length := by
      by_contra hge
      rw [List.getElem?_eq_none (by omega)] at ho
      exact absurd ho (by simp)
    rw [List.getElem?_append_left hlt]; exact ho
  · exact sessDesign_ext (runState_heapExt p hp datas evs s) d o.f (WF.obj w ho)

/-! ## Factors -/

/-- the indicator of a level on an observed value (`x == t.level`) -/
def levelInd (l : Level) (v : Option Val) : Rat :=
  match v with
  | some x => if l.matches x then 1 else 0
  | none => 0

/-- an observed value equals at most one level -/
theorem matches_unique (l l' : Level) (x : Val) (h : l.matches x = true) (h' : l'.matches x = true) :
    l = l' := by
  cases l <;> cases l' <;> cases x <;> simp [Level.matches] at h h' ⊢
  · rename_i n n' q
    have : (n : Rat) = (n' : Rat) := by rw [← h, ← h']
    exact_mod_cast this
  · rw [h, h']

/-- `Factor(name, levels)` under the source's policy: one fresh object per level,
    carrying exactly that level, and one term per level referring to it. -/
theorem new_factor_cells (p : Policy) (hp : p.viaCache = false) (hh : p.hashLevel = true)
    (s : Sess) (fname : String) (levels : List Level) :
    (newFactor p s fname levels).1.heap = s.heap ++ levels.map (ftCell fname) ∧
    (newFactor p s fname levels).2.f.isFactor = true ∧
    (newFactor p s fname levels).2.f.terms.length = levels.length ∧
    ∀ (k : Nat) (hk : k < levels.length), ∃ v,
      (newFactor p s fname levels).2.f.terms[k]? = some (varMono v) ∧
      (newFactor p s fname levels).1.heap[v]? = some (ftCell fname levels[k]) := by
  unfold newFactor newFactorTerms
  rw [allocFTs_fresh p hp]
  refine ⟨rfl, rfl, by simp, ?_⟩
  intro k hk
  set heap' := s.heap ++ levels.map (ftCell fname) with hheap
  refine ⟨canon p heap' (s.heap.length + k), ?_, ?_⟩
  · simp [hk]
  · have hlt : s.heap.length + k < heap'.length := by simp [hheap]; omega
    show heap'[canon p heap' (s.heap.length + k)]? = _
    rw [canon_same_cell p hh heap' _ hlt, hheap,
      List.getElem?_append_right (by omega)]
    simp [hk]

/-- the column of a term that refers to a FactorTerm object is the indicator of
    that object's level on that object's factor field -/
theorem factor_term_column (heap : List Cell) (d : Data) (v : Nat) (fname : String) (l : Level)
    (h : heap[v]? = some (ftCell fname l)) :
    sessColumn heap d (varMono v) = d.rows.map (fun row => levelInd l (fieldOf d.fields row fname)) := by
  unfold sessColumn
  apply List.map_congr_left
  intro row _
  simp only [evalMono, varMono, List.map_cons, List.map_nil, prodL, heapVal, h, cellVal, ftCell,
    if_true, levelInd]
  cases fieldOf d.fields row fname <;> simp

/-- "a categorical factor yields indicator columns": after the `Factor(name,
    levels)` event and **any** further history, on any record array, the design
    of the factor is, column by column and row by row, the indicator of "the
    observed value of field `name` equals this level". -/
theorem factor_design_history (p : Policy) (hp : p.viaCache = false) (hh : p.hashLevel = true)
    (datas : List Data) (s : Sess) (fname : String) (levels : List Level)
    (evs : List Event) (d : Data) :
    sessDesign
        (runState p datas (pushObj (newFactor p s fname levels).1 (newFactor p s fname levels).2).1 evs).heap
        d (newFactor p s fname levels).2.f =
      levels.map (fun l => d.rows.map (fun row => levelInd l (fieldOf d.fields row fname))) := by
  obtain ⟨hheap, _, hlen, hterms⟩ := new_factor_cells p hp hh s fname levels
  set a := newFactor p s fname levels with ha
  have hb : VarsBelow a.1.heap.length a.2.f := by
    intro m hm v hv
    obtain ⟨k, hk, hkm⟩ := List.getElem_of_mem hm
    obtain ⟨v', h1, h2⟩ := hterms k (by rw [← hlen]; exact hk)
    rw [List.getElem?_eq_getElem hk, Option.some.injEq] at h1
    rw [hkm] at h1; subst h1
    simp only [varMono, List.mem_singleton] at hv
    subst hv
    by_contra hge
    rw [List.getElem?_eq_none (by omega)] at h2
    exact absurd h2 (by simp)
  have hext : HeapExt a.1.heap (runState p datas (pushObj a.1 a.2).1 evs).heap :=
    runState_heapExt p hp datas evs (pushObj a.1 a.2).1
  rw [sessDesign_ext hext d a.2.f hb]
  unfold sessDesign
  apply List.ext_getElem
  · simp [hlen]
  · intro k h1 h2
    have hk : k < levels.length := by simpa using h2
    obtain ⟨v, hv1, hv2⟩ := hterms k hk
    have hk' : k < a.2.f.terms.length := by rw [hlen]; exact hk
    rw [List.getElem?_eq_getElem hk', Option.some.injEq] at hv1
    simp only [List.getElem_map, hv1]
    exact factor_term_column a.1.heap d v fname _ hv2

/-- the indicators of distinct levels partition: each is 0 or 1, two different
    ones never fire together, they sum to 1 when the observed value is one of
    the levels and are all 0 otherwise -/
theorem level_partition (levels : List Level) (hnd : levels.Nodup) (v : Option Val) :
    (∀ l ∈ levels, levelInd l v = 0 ∨ levelInd l v = 1) ∧
    (∀ l ∈ levels, ∀ l' ∈ levels, l ≠ l' → levelInd l v * levelInd l' v = 0) ∧
    ((∃ l ∈ levels, levelInd l v = 1) → (levels.map (fun l => levelInd l v)).sum = 1) ∧
    ((∀ l ∈ levels, levelInd l v ≠ 1) → (levels.map (fun l => levelInd l v)).sum = 0) := by
  have h01 : ∀ l, levelInd l v = 0 ∨ levelInd l v = 1 := by
    intro l; cases v with
    | none => simp [levelInd]
    | some x => by_cases hm : l.matches x = true <;> simp [levelInd, hm]
  have hex : ∀ l l', l ≠ l' → levelInd l v = 1 → levelInd l' v = 0 := by
    intro l l' hne h1
    cases v with
    | none => simp [levelInd] at h1
    | some x =>
        simp only [levelInd] at h1 ⊢
        by_cases hm : l.matches x = true
        · by_cases hm' : l'.matches x = true
          · exact absurd (matches_unique l l' x hm hm') hne
          · simp [hm']
        · simp [hm] at h1
  have hzero : ∀ ls : List Level, (∀ l ∈ ls, levelInd l v ≠ 1) → (ls.map (fun l => levelInd l v)).sum = 0 := by
    intro ls h
    apply List.sum_eq_zero
    intro y hy
    obtain ⟨l, hl, rfl⟩ := List.mem_map.mp hy
    rcases h01 l with h0 | h1
    · exact h0
    · exact absurd h1 (h l hl)
  refine ⟨fun l _ => h01 l, ?_, ?_, hzero levels⟩
  · intro l _ l' _ hne
    rcases h01 l with h0 | h1
    · rw [h0]; ring
    · rw [hex l l' hne h1]; ring
  · intro hx
    induction levels with
    | nil => obtain ⟨l, hl, _⟩ := hx; simp at hl
    | cons a as ih =>
        have hna : a ∉ as := (List.nodup_cons.mp hnd).1
        have hnd' : as.Nodup := (List.nodup_cons.mp hnd).2
        simp only [List.map_cons, List.sum_cons]
        rcases h01 a with h0 | h1
        · have : ∃ l ∈ as, levelInd l v = 1 := by
            obtain ⟨l, hl, hl1⟩ := hx
            rcases List.mem_cons.mp hl with rfl | hl'
            · rw [h0] at hl1; exact absurd hl1 (by norm_num)
            · exact ⟨l, hl', hl1⟩
          rw [h0, ih hnd' this]; ring
        · have hz : (as.map (fun l => levelInd l v)).sum = 0 := by
            apply hzero
            intro l hl hl1
            have hne : a ≠ l := fun h => hna (h ▸ hl)
            rw [hex a l hne h1] at hl1
            exact absurd hl1 (by norm_num)
          rw [h1, hz]; ring

/-- **factor_partition over session histories**: create a Factor with distinct
    levels at any point of a session; after any further history, on any record
    array, in every observation (row `i`) the factor's design has entries 0/1
    summing to 1 when the observed value is one of the levels, and to 0 when it
    is none of them. -/
theorem factor_partition_history (p : Policy) (hp : p.viaCache = false) (hh : p.hashLevel = true)
    (datas : List Data) (pre post : List Event) (fname : String) (levels : List Level)
    (hnd : levels.Nodup) (d : Data) (i : Nat) (row : List Val) (hrow : d.rows[i]? = some row) :
    let s := runState p datas Sess.init pre
    let F := newFactor p s fname levels
    let D := sessDesign (runState p datas (pushObj F.1 F.2).1 post).heap d F.2.f
    let obs := fieldOf d.fields row fname
    (D.map (fun col => col.getD i 0)) = levels.map (fun l => levelInd l obs) ∧
    ((∃ l ∈ levels, l.matches <$> obs = some true) → (D.map (fun col => col.getD i 0)).sum = 1) ∧
    ((∀ l ∈ levels, l.matches <$> obs ≠ some true) → (D.map (fun col => col.getD i 0)).sum = 0) := by
  intro s F D obs
  have hD : D = levels.map (fun l => d.rows.map (fun row => levelInd l (fieldOf d.fields row fname))) :=
    factor_design_history p hp hh datas s fname levels post d
  have hcols : D.map (fun col => col.getD i 0) = levels.map (fun l => levelInd l obs) := by
    rw [hD, List.map_map]
    apply List.map_congr_left
    intro l _
    simp [Function.comp, List.getD_eq_getElem?_getD, List.getElem?_map, hrow, obs]
  obtain ⟨_, _, h1, h0⟩ := level_partition levels hnd obs
  have hone : ∀ l, (l.matches <$> obs = some true) ↔ levelInd l obs = 1 := by
    intro l
    cases hobs : obs with
    | none => simp [levelInd]
    | some x =>
        by_cases hm : l.matches x = true <;> simp [levelInd, hm]
  refine ⟨hcols, ?_, ?_⟩
  · rintro ⟨l, hl, hm⟩
    rw [hcols]; exact h1 ⟨l, hl, (hone l).mp hm⟩
  · intro hall
    rw [hcols]; exact h0 (fun l hl h => hall l hl ((hone l).mpr h))

/-! ## Factor.fromcol / get_term -/

/-- a value read from a data column is its own level -/
theorem levelOfVal_matches (x : Val) (l : Level) (h : levelOfVal x = some l) : l.matches x = true := by
  cases x with
  | num q =>
      simp only [levelOfVal] at h
      split_ifs at h with hd
      simp only [Option.some.injEq] at h; subst h
      simp [Level.matches, Rat.coe_int_num_of_den_eq_one hd]
  | str s =>
      simp only [levelOfVal, Option.some.injEq] at h; subst h
      simp [Level.matches]

/-- `Factor.fromcol(col, name)`: the levels are distinct and every value of the
    column is one of them — so (with `factor_partition_history`) its indicator
    columns have exactly one 1 in every observation of that column. -/
theorem fromcol_levels_cover (d : Data) (name : String) (ls : List Level)
    (h : fromcolLevels d name = some ls) :
    ls.Nodup ∧ ∀ x ∈ columnOf d name, ∃ l ∈ ls, l.matches x = true := by
  unfold fromcolLevels at h
  obtain ⟨raw, hraw, rfl⟩ := Option.map_eq_some_iff.mp h
  refine ⟨(sortLevels_perm _).nodup_iff.mpr (nodup_dedup raw), ?_⟩
  intro x hx
  obtain ⟨l, hl, hxl⟩ := levelsOfVals_mem _ raw hraw x hx
  exact ⟨l, (sortLevels_perm _).mem_iff.mpr ((mem_dedup l raw).mpr hl), levelOfVal_matches x l hxl⟩

/-- `Factor.get_term(level)` looks the term up by its printed name
    (`Formula.__getitem__`); among the terms of one factor whose levels print
    differently, the term found is the one carrying that level. -/
theorem get_term_finds_level (heap : List Cell) (terms : List Mono) (fname : String)
    (levels : List Level) (lv : Level)
    (hinj : ∀ l ∈ levels, l.text = lv.text → l = lv)
    (hterms : ∀ m ∈ terms, ∃ v, ∃ l ∈ levels, m = varMono v ∧ heap[v]? = some (ftCell fname l))
    (m : Mono)
    (hfind : terms.find? (fun m => match m.vars with
        | [v] => (heap[v]?.map (·.name)) == some (fname ++ "_" ++ lv.text)
        | _ => false) = some m) :
    ∃ v, m = varMono v ∧ heap[v]? = some (ftCell fname lv) := by
  have hmem := List.mem_of_find?_eq_some hfind
  have hp := List.find?_some hfind
  obtain ⟨v, l, hl, rfl, hv⟩ := hterms m hmem
  refine ⟨v, rfl, ?_⟩
  simp only [varMono, hv, Option.map_some, ftCell, beq_iff_eq, Option.some.injEq] at hp
  have htext : l.text = lv.text := (String.append_right_inj _).mp hp
  rw [hv, hinj l hl htext]

/-! ## stratify / main_effect -/

/-- `Factor.stratify(variable)` is a Formula (no longer a Factor) over the same
    term objects: its design is the factor's design. -/
theorem stratify_same_design (p : Policy) (datas : List Data) (s : Sess) (i : Nat) (o : Obj)
    (fc : String × List Level) (ho : s.objs[i]? = some o) (hf : o.fac = some fc) :
    ∃ out, step p datas s (.stratify i) =
        some ({ s with objs := s.objs ++ [⟨⟨o.f.terms, false⟩, none⟩] }, out) ∧
      ∀ heap d, sessDesign heap d ⟨o.f.terms, false⟩ = sessDesign heap d o.f := by
  refine ⟨"o " ++ toString o.f.terms.length ++ " f", ?_, fun heap d => rfl⟩
  simp [step, ho, hf, pushObj]

/-- `Factor.main_effect`: the columns of all levels but the last, minus the
    column of the last (reference) level -/
theorem main_effect_columns (init : List (List Rat)) (ref : List Rat) :
    mainEffectCols (init ++ [ref]) = init.map (fun c => List.zipWith (· - ·) c ref) := by
  simp [mainEffectCols]

/-- sum-to-zero coding: an observation at the reference level has −1 in every
    main-effect column, an observation at another level `l` has 1 in the column
    of `l` and 0 elsewhere (distinct levels) -/
theorem main_effect_entries (l lref : Level) (hne : l ≠ lref) (x : Val) :
    (lref.matches x = true → levelInd l (some x) - levelInd lref (some x) = -1) ∧
    (l.matches x = true → levelInd l (some x) - levelInd lref (some x) = 1) ∧
    (l.matches x = false → lref.matches x = false →
      levelInd l (some x) - levelInd lref (some x) = 0) := by
  refine ⟨?_, ?_, ?_⟩
  · intro h
    have : l.matches x = false := by
      by_contra h'
      exact hne (matches_unique l lref x (by simpa using h') h)
    simp [levelInd, h, this]
  · intro h
    have : lref.matches x = false := by
      by_contra h'
      exact hne (matches_unique l lref x h (by simpa using h'))
    simp [levelInd, h, this]
  · intro h h'; simp [levelInd, h, h']

/-! ## Non-vacuity, and what goes wrong with the symbol cache -/

/-- a history with colliding printed names, under the source's policy: the int
    factor is designed correctly after the str factor of the same name was created -/
example :
    runSession Policy.fixed [⟨["g"], [false], [[.num 1], [.num 2]]⟩] Sess.init
      [.factor "g" [.int 1, .int 2], .factor "g" [.str "1", .str "2"], .design 0 0, .design 1 0] =
    some ["o 2 F", "o 2 F", "1 0 | 0 1", "0 0 | 0 0"] := by decide +kernel

/-- the same history when FactorTerm objects come out of the symbol cache: the
    first factor now carries the levels of the second and its design is all
    zeros — `history_keeps_cells` needs `viaCache = false`. -/
example :
    runSession Policy.cached [⟨["g"], [false], [[.num 1], [.num 2]]⟩] Sess.init
      [.factor "g" [.int 1, .int 2], .factor "g" [.str "1", .str "2"], .design 0 0, .design 1 0] =
    some ["o 2 F", "o 2 F", "0 0 | 0 0", "0 0 | 0 0"] := by decide +kernel

example : ([Level.int 1, .int 2, .str "1"] : List Level).Nodup := by decide +kernel

/-- `Factor.fromcol` on a column with repeated values, and its levels covering the column -/
example : fromcolLevels ⟨["g"], [false], [[.num 2], [.num 1], [.num 2]]⟩ "g" = some [.int 1, .int 2] := by
  decide +kernel
example : fromcolLevels ⟨["g"], [false], [[.num (1/2)]]⟩ "g" = none := by decide +kernel

/-- the hypotheses of `get_term_finds_level` on the store after `Factor('a', ['b_c', 'x'])` -/
example :
    let heap := [ftCell "a" (.str "b_c"), ftCell "a" (.str "x")]
    (∀ l ∈ [Level.str "b_c", .str "x"], l.text = (Level.str "x").text → l = .str "x") ∧
    [varMono 0, varMono 1].find? (fun m => match m.vars with
        | [v] => (heap[v]?.map (·.name)) == some ("a" ++ "_" ++ (Level.str "x").text)
        | _ => false) = some (varMono 1) := by
  decide +kernel

/-- sessions with `get_term`, `stratify`, main effect, a term product and `fromcol` -/
example :
    runSession Policy.fixed [⟨["a", "a_b"], [true, true], [[.str "b_c", .str "c"], [.str "x", .str "c"]]⟩] Sess.init
      [.factor "a" [.str "b_c", .str "x"], .factor "a_b" [.str "c"], .op 2 0 1, .design 2 0,
       .getTerm 0 (.str "x"), .tmul 3 3, .design 4 0, .designMain 0 0, .fromcol "a" 0, .op 2 0 5] =
    some ["o 2 F", "o 1 F", "o 2 f", "1 0 | 0 1", "o 1 f", "o 1 f", "0 1", "1 -1", "o 2 F", "o 2 F"] := by
  decide +kernel
example : Policy.fixed.viaCache = false ∧ Policy.fixed.hashLevel = true := ⟨rfl, rfl⟩

end NipyVerif.C10
