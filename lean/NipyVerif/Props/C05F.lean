/-
C05 (wave 3) — the refined Kalman filter of `lib/fff/fff_glm_kalman.c` (labs `model='ar1'`):
the standard filter embedded in it is the ordinary Kalman filter, the first sweep *is* the ordinary
Kalman (OLS) fit, and a vanishing autocorrelation estimate is a fixed point of the refinement loop.
-/
import NipyVerif.Model.C05E
import NipyVerif.Lemmas.C05B

namespace NipyVerif.C05

/-! ## one iteration -/

theorem rkfStep_kf {p : Nat} (s : RKF p) (nloop : Nat) (cur prev : Vec p × Rat) :
    (rkfStep s nloop cur prev).kf = kfStep s.kf cur.1 cur.2 ∧ (rkfStep s nloop cur prev).t = s.t + 1 := by
  unfold rkfStep
  split
  · exact ⟨rfl, rfl⟩
  · exact ⟨rfl, rfl⟩

/-- after an iteration without refinement (`nloop ≤ 1`) the filter reports the embedded standard
    filter's estimate, covariance and scale -/
theorem rkfStep_plain {p : Nat} (s : RKF p) (nloop : Nat) (h : nloop ≤ 1) (cur prev : Vec p × Rat) :
    (rkfStep s nloop cur prev).b = (rkfStep s nloop cur prev).kf.b ∧
      (rkfStep s nloop cur prev).vb = (rkfStep s nloop cur prev).kf.P ∧
      (rkfStep s nloop cur prev).s2 = (rkfStep s nloop cur prev).kf.s2 := by
  have h0 : nloop - 1 = 0 := by omega
  unfold rkfStep
  split
  · exact ⟨rfl, rfl, rfl⟩
  · simp only [h0, refineN]
    exact ⟨rfl, rfl, rfl⟩

/-! ## the whole fit -/

theorem rkfRun_kf {p : Nat} (nloop : Nat) (rows : List (Vec p × Rat)) :
    ∀ (prev : Vec p × Rat) (s : RKF p),
      (rkfRun nloop rows prev s).kf = rows.foldl (fun k r => kfStep k r.1 r.2) s.kf ∧
        (rkfRun nloop rows prev s).t = s.t + rows.length := by
  induction rows with
  | nil => intro prev s; exact ⟨rfl, rfl⟩
  | cons r rest ih =>
    intro prev s
    cases rest with
    | nil =>
      simp only [rkfRun, List.foldl_cons, List.foldl_nil, List.length_cons, List.length_nil]
      exact rkfStep_kf s nloop r prev
    | cons r' rs =>
      have := ih r (rkfStep s 1 r prev)
      simp only [rkfRun, List.foldl_cons, List.length_cons] at this ⊢
      rw [(rkfStep_kf s 1 r prev).1, (rkfStep_kf s 1 r prev).2] at this
      refine ⟨this.1, ?_⟩
      rw [this.2]; omega

/-- **the standard filter run inside the refined filter is the ordinary Kalman filter**, whatever
    the number of sweeps: `rkfilt.Kfilt` after `fff_glm_RKF_fit` = the state after `fff_glm_KF_fit`. -/
theorem rkf_kfilt {n p : Nat} (nloop : Nat) (X : Mat n p) (y : Vec n) :
    (rkfFit nloop X y).kf = kfFit X y := by
  unfold rkfFit kfFit kfRun
  exact (rkfRun_kf nloop (kfRows X y) _ (rkfInit p)).1

theorem rkfRun_plain {p : Nat} (nloop : Nat) (h : nloop ≤ 1) (rows : List (Vec p × Rat)) (hne : rows ≠ []) :
    ∀ (prev : Vec p × Rat) (s : RKF p),
      (rkfRun nloop rows prev s).b = (rkfRun nloop rows prev s).kf.b ∧
        (rkfRun nloop rows prev s).vb = (rkfRun nloop rows prev s).kf.P ∧
        (rkfRun nloop rows prev s).s2 = (rkfRun nloop rows prev s).kf.s2 := by
  induction rows with
  | nil => exact absurd rfl hne
  | cons r rest ih =>
    intro prev s
    cases rest with
    | nil => simp only [rkfRun]; exact rkfStep_plain s nloop h r prev
    | cons r' rs =>
      simp only [rkfRun]
      exact ih (by simp) r (rkfStep s 1 r prev)

/-- **first sweep = ordinary Kalman filter**: with `niter ≤ 1` (no refinement) the refined filter
    returns exactly the estimate, the covariance and the scale of `fff_glm_KF_fit` (hence the ridge
    least-squares solution of `kalman_is_ridge`). -/
theorem rkf_first_sweep {n p : Nat} (nloop : Nat) (h : nloop ≤ 1) (X : Mat n p) (y : Vec n) (hn : 0 < n) :
    (rkfFit nloop X y).b = (kfFit X y).b ∧ (rkfFit nloop X y).vb = (kfFit X y).P ∧
      (rkfFit nloop X y).s2 = (kfFit X y).s2 := by
  have hne : kfRows X y ≠ [] := by
    intro h0
    have := congrArg List.length h0
    simp [kfRows] at this
    omega
  have hp := rkfRun_plain nloop h (kfRows X y) hne (fun _ => 0, 0) (rkfInit p)
  have hk := rkf_kfilt nloop X y
  unfold rkfFit at hk ⊢
  rw [hk] at hp
  exact hp

/-! ## the refinement loop: a vanishing autocorrelation is a fixed point -/

theorem fffTiny_pos : 0 < fffTiny := by unfold fffTiny; norm_num

theorem ensurePos_pos (x : Rat) : 0 < ensurePos x := by
  unfold ensurePos
  split
  · exact lt_trans fffTiny_pos (by assumption)
  · exact fffTiny_pos

theorem hermit_zero {p : Nat} (A : Mat p p) : hermit A (fun _ => 0) = 0 := by
  simp [hermit, vdot, fsum_eq]

/-- one pass of the loop started at autocorrelation `0`, with no paired-product sum, from the OLS
    estimate: nothing changes -/
theorem refineStep_fixed {p : Nat} (c : RCtx p) (st : RSt p) (ha : st.a = 0) (hspp : c.spp = 0)
    (hb : st.b = c.kf.b) (hv : st.vb = c.kf.P) (hs : st.s2 = c.kf.ssd / (c.t : Rat)) :
    refineStep c st = st := by
  have hdb : (fun i : Fin p => 2 * c.cor * st.a *
      mvec (fun i j => 1 / (1 + st.a * st.a) * c.kf.P i j +
        1 / (1 + st.a * st.a) * (1 / (1 + st.a * st.a)) * (2 * c.cor * st.a) *
          mmul c.kf.P (mmul c.hspp c.kf.P) i j) c.gspp i) = fun _ => 0 := by
    funext i; rw [ha]; simp
  cases st with
  | mk a s2 b vb =>
    simp only at ha hb hv hs hdb
    subst ha
    simp only [refineStep, ofArr2_toArr2, ofArr1_toArr1]
    have hvb : (fun i j => 1 / (1 + (0 : Rat) * 0) * c.kf.P i j +
        1 / (1 + (0 : Rat) * 0) * (1 / (1 + (0 : Rat) * 0)) * (2 * c.cor * 0) *
          mmul c.kf.P (mmul c.hspp c.kf.P) i j) = c.kf.P := by
      funext i j; simp
    have hdb0 : (fun i : Fin p => 2 * c.cor * 0 * mvec c.kf.P c.gspp i) = fun _ => (0 : Rat) := by
      funext i; simp
    simp only [hvb, hdb0, hermit_zero, hspp]
    have hv0 : vdot c.gspp (fun _ => (0 : Rat)) = 0 := by simp [vdot, fsum_eq]
    simp only [hv0]
    congr 1
    · simp
    · rw [hs]; simp
    · rw [hb]; funext i; simp
    · exact hv.symm

theorem refineN_fixed {p : Nat} (c : RCtx p) (st : RSt p) (ha : st.a = 0) (hspp : c.spp = 0)
    (hb : st.b = c.kf.b) (hv : st.vb = c.kf.P) (hs : st.s2 = c.kf.ssd / (c.t : Rat)) (k : Nat) :
    refineN c k st = st := by
  induction k with
  | zero => rfl
  | succ k ih => simp only [refineN]; rw [refineStep_fixed c st ha hspp hb hv hs]; exact ih

theorem kfStep_s2 {p : Nat} (k : KF p) (x : Vec p) (y : Rat) :
    (kfStep k x y).s2 = (kfStep k x y).ssd / ((k.t + 1 : Nat) : Rat) ∧ (kfStep k x y).t = k.t + 1 := ⟨rfl, rfl⟩

/-- one scan: if the autocorrelation estimated before the refinement loop is zero, the loop (any
    number of sweeps) leaves the state of the first sweep -/
theorem rkfStep_fixed {p : Nat} (s : RKF p) (nloop : Nat) (cur prev : Vec p × Rat) (ht : s.t = s.kf.t)
    (h : (rkfStep s 1 cur prev).a = 0) : rkfStep s nloop cur prev = rkfStep s 1 cur prev := by
  unfold rkfStep at h ⊢
  split
  · rfl
  · rename_i hne
    rw [if_neg hne] at h
    simp only [Nat.sub_self, refineN] at h ⊢
    set cs := rkfCtx s cur prev with hcs
    have ha : cs.2.a = 0 := h
    -- the pieces of `rkfCtx`
    have hcor : cs.1.cor = ((s.t + 1 : Nat) : Rat) / (((s.t + 1 : Nat) : Rat) - 1) := rfl
    have hkf : cs.1.kf = kfStep s.kf cur.1 cur.2 := rfl
    have hta : cs.2.a = cs.1.cor * cs.1.spp / ensurePos cs.1.kf.ssd := rfl
    have htt : cs.1.t = s.t + 1 := rfl
    have hb : cs.2.b = cs.1.kf.b := rfl
    have hv : cs.2.vb = cs.1.kf.P := rfl
    have hs2 : cs.2.s2 = cs.1.kf.s2 := rfl
    have ht2 : 2 ≤ s.t + 1 := by omega
    have hcor0 : cs.1.cor ≠ 0 := by
      rw [hcor]
      have h1 : (((s.t + 1 : Nat) : Rat)) ≠ 0 := by exact_mod_cast (by omega : s.t + 1 ≠ 0)
      have h2 : (((s.t + 1 : Nat) : Rat)) - 1 ≠ 0 := by
        have : ((s.t + 1 : Nat) : Rat) = (s.t : Rat) + 1 := by push_cast; ring
        rw [this]
        have : (s.t : Rat) ≠ 0 := by exact_mod_cast (by omega : s.t ≠ 0)
        simpa using this
      exact div_ne_zero h1 h2
    have hspp : cs.1.spp = 0 := by
      rw [hta] at ha
      have hpos := ensurePos_pos cs.1.kf.ssd
      rcases div_eq_zero_iff.mp ha with h1 | h1
      · rcases mul_eq_zero.mp h1 with h2 | h2
        · exact absurd h2 hcor0
        · exact h2
      · exact absurd h1 (ne_of_gt hpos)
    have hs : cs.2.s2 = cs.1.kf.ssd / (cs.1.t : Rat) := by
      rw [hs2, hkf, htt, (kfStep_s2 s.kf cur.1 cur.2).1, ht]
    rw [refineN_fixed cs.1 cs.2 ha hspp hb hv hs]

theorem rkfRun_fixed {p : Nat} (nloop : Nat) (rows : List (Vec p × Rat)) :
    ∀ (prev : Vec p × Rat) (s : RKF p), s.t = s.kf.t → (rkfRun 1 rows prev s).a = 0 →
      rkfRun nloop rows prev s = rkfRun 1 rows prev s := by
  induction rows with
  | nil => intro prev s _ _; rfl
  | cons r rest ih =>
    intro prev s ht h
    cases rest with
    | nil =>
      simp only [rkfRun] at h ⊢
      exact rkfStep_fixed s nloop r prev ht h
    | cons r' rs =>
      simp only [rkfRun] at h ⊢
      apply ih r (rkfStep s 1 r prev) _ h
      rw [(rkfStep_kf s 1 r prev).2, (rkfStep_kf s 1 r prev).1, (kfStep_s2 s.kf r.1 r.2).2, ht]

/-- **fixed point of the refinement**: if the autocorrelation estimated by the first sweep is zero,
    every further sweep leaves the filter where the first sweep put it — the whole state, for any
    `niter` — and by `rkf_first_sweep` that is the ordinary Kalman (OLS) fit with `a = 0`. -/
theorem rkf_fixed_point {n p : Nat} (nloop : Nat) (X : Mat n p) (y : Vec n)
    (h : (rkfFit 1 X y).a = 0) : rkfFit nloop X y = rkfFit 1 X y := by
  unfold rkfFit at h ⊢
  exact rkfRun_fixed nloop (kfRows X y) _ (rkfInit p) rfl h

/-- non-vacuity of the fixed point: a series whose consecutive OLS residuals have zero paired-product
    sum (here the data lie in the column space of the design, all residuals vanish). -/
example : (rkfFit 1 (fun (_ : Fin 2) (_ : Fin 1) => (1 : Rat)) (fun _ => 0)).a = 0 := by
  decide +kernel

end NipyVerif.C05
