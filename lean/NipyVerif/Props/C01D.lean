/-
C01 — property theorems, fourth module: programs on general `CoordinateMap`s.
Only property statements and their non-vacuity examples live here.
-/
import NipyVerif.Lemmas.C01D

namespace NipyVerif.C01

/-- relational meaning of a program run on a general map (the same `Op.den` as for affine maps) -/
def cprogRel : CMap → List Op → Rel → Rel
  | _, [], R => R
  | M, op :: rest, R =>
      match stepC2 M op with
      | .ok (some N) => cprogRel N rest (op.den M.dom M.rng R)
      | _ => R

/-- One operation on a **general** `CoordinateMap` (an arbitrary function with an optional inverse
    function, well-formed in the sense of `CMap.wf`): n-ary compose and product with affine
    partners, reorder / rename of either side, inverse, origin shifts.  Whenever the library returns
    a map, its graph is exactly the relational meaning of the operation (the same `Op.den` as in the
    affine case) applied to the old graph, and well-formedness — in particular "the stored inverse
    function undoes the function" — is preserved. -/
theorem cstep_sound (M N : CMap) (op : Op) (h : stepC2 M op = .ok (some N)) (hM : M.wf)
    (hop : op.exactC = true) : N.wf ∧ N.graph = op.den M.dom M.rng M.graph := by
  cases op with
  | composeN ls rs =>
      simp only [stepC2, stepC] at h
      cases hL : buildAll ls with
      | error e => rw [hL] at h; cases h
      | ok L =>
          rw [hL] at h
          simp only at h
          cases hR : buildAll rs with
          | error e => rw [hR] at h; cases h
          | ok Rs =>
              rw [hR] at h
              simp only at h
              have hc := liftSome_ok h
              simp only [Op.exactC, List.all_append, Bool.and_eq_true] at hop
              obtain ⟨hw, g⟩ := ccomposeList_graph hc (by
                intro X hX
                rcases List.mem_append.mp hX with hX | hX
                · exact toCMap_all_wf hL hop.1 X hX
                · rcases List.mem_cons.mp hX with rfl | hX
                  · exact hM
                  · exact toCMap_all_wf hR hop.2 X hX)
              refine ⟨hw, ?_⟩
              rw [g, List.map_append, List.map_cons, map_toCMap_graph, map_toCMap_graph]
              funext x y
              apply propext
              simp only [Op.den]
              constructor
              · intro hxy
                exact ⟨L, Rs, hL, hR, hxy⟩
              · rintro ⟨L', Rs', hL', hR', hxy⟩
                rw [hL] at hL'
                rw [hR] at hR'
                injection hL' with hL'
                injection hR' with hR'
                subst hL' hR'
                exact hxy
  | prodN ls rs i o =>
      simp only [stepC2, stepC] at h
      cases hL : buildAll ls with
      | error e => rw [hL] at h; cases h
      | ok L =>
          rw [hL] at h
          simp only at h
          cases hR : buildAll rs with
          | error e => rw [hR] at h; cases h
          | ok Rs =>
              rw [hR] at h
              simp only at h
              have hc := liftSome_ok h
              simp only [Op.exactC, List.all_append, Bool.and_eq_true] at hop
              obtain ⟨hw, g⟩ := cproduct_graph hc (by
                intro X hX
                rcases List.mem_append.mp hX with hX | hX
                · exact toCMap_all_wf hL hop.1 X hX
                · rcases List.mem_cons.mp hX with rfl | hX
                  · exact hM
                  · exact toCMap_all_wf hR hop.2 X hX)
              refine ⟨hw, ?_⟩
              rw [g, List.map_append, List.map_cons, map_toCMap_graph, map_toCMap_graph]
              funext x y
              apply propext
              simp only [Op.den]
              constructor
              · intro hxy
                exact ⟨L, Rs, hL, hR, hxy⟩
              · rintro ⟨L', Rs', hL', hR', hxy⟩
                rw [hL] at hL'
                rw [hR] at hR'
                injection hL' with hL'
                injection hR' with hR'
                subst hL' hR'
                exact hxy
  | reordD o =>
      simp only [stepC2, stepC] at h
      obtain ⟨hw, ord, ncs, hcs, g⟩ := creorderedDomain_graph hM (liftSome_ok h)
      refine ⟨hw, ?_⟩
      rw [g]
      funext x y
      apply propext
      simp only [Op.den]
      constructor
      · rintro ⟨x0, h1, h2⟩
        exact ⟨ord, ncs, x0, hcs, h1, h2⟩
      · rintro ⟨ord', ncs', x0, hcs', h1, h2⟩
        rw [hcs] at hcs'
        simp only [Except.ok.injEq, Prod.mk.injEq] at hcs'
        obtain ⟨rfl, _⟩ := hcs'
        exact ⟨x0, h1, h2⟩
  | reordR o =>
      simp only [stepC2, stepC] at h
      obtain ⟨hw, ord, ncs, hcs, g⟩ := creorderedRange_graph hM (liftSome_ok h)
      refine ⟨hw, ?_⟩
      rw [g]
      funext x y
      apply propext
      simp only [Op.den]
      constructor
      · rintro ⟨y0, h1, h2⟩
        exact ⟨ord, ncs, y0, hcs, h1, h2⟩
      · rintro ⟨ord', ncs', y0, hcs', h1, h2⟩
        rw [hcs] at hcs'
        simp only [Except.ok.injEq, Prod.mk.injEq] at hcs'
        obtain ⟨rfl, _⟩ := hcs'
        exact ⟨y0, h1, h2⟩
  | renD kv =>
      simp only [stepC2, stepC] at h
      exact crenamedDomain_graph hM (liftSome_ok h)
  | renR kv =>
      simp only [stepC2, stepC] at h
      exact crenamedRange_graph hM (liftSome_ok h)
  | inv =>
      simp only [stepC2, stepC, Except.ok.injEq] at h
      exact cinverse_graph hM h
  | shiftD diff nm =>
      simp only [stepC2] at h
      obtain ⟨hw, d, hd, g⟩ := cshiftedDomain_graph hM (liftSome_ok h)
      refine ⟨hw, ?_⟩
      rw [g]
      funext x y
      apply propext
      simp only [Op.den]
      constructor
      · rintro ⟨hx, hr⟩
        exact ⟨hx, d, hd, hr⟩
      · rintro ⟨hx, d', hd', hr⟩
        rw [hd] at hd'
        injection hd' with hd'
        subst hd'
        exact ⟨hx, hr⟩
  | shiftR diff nm =>
      simp only [stepC2] at h
      obtain ⟨hw, d, hd, g⟩ := cshiftedRange_graph hM (liftSome_ok h)
      refine ⟨hw, ?_⟩
      rw [g]
      funext x y
      apply propext
      simp only [Op.den]
      constructor
      · rintro ⟨y0, h1, h2⟩
        exact ⟨d, y0, hd, h1, h2⟩
      · rintro ⟨d', y0, hd', h1, h2⟩
        rw [hd] at hd'
        injection hd' with hd'
        subst hd'
        exact ⟨y0, h1, h2⟩
  | append i o start step mdt =>
      simp only [stepC2, stepC] at h
      cases h
  | drop ax fz ornts =>
      simp only [stepC2, stepC] at h
      cases h

/-- **All finite chains of operations on a general `CoordinateMap`** (quantifier: "… for both
    AffineTransform and general CoordinateMap"): by induction over the program, the graph of the
    final map is exactly the relational meaning of the program applied to the graph of the initial
    map, and the final map is well formed again (so if it carries an inverse function, that
    function undoes it). -/
theorem cprog_sound (ops : List Op) : ∀ (M N : CMap) (k : Nat), runOpsC2 M ops k = .ok N →
    M.wf → (ops.all Op.exactC = true) → N.wf ∧ N.graph = cprogRel M ops M.graph := by
  induction ops with
  | nil =>
      intro M N k h hM _
      simp only [runOpsC2, Except.ok.injEq] at h
      subst h
      exact ⟨hM, rfl⟩
  | cons op rest ih =>
      intro M N k h hM hp
      simp only [runOpsC2] at h
      simp only [List.all_cons, Bool.and_eq_true] at hp
      cases hs : stepC2 M op with
      | error e => rw [hs] at h; cases h
      | ok r =>
          cases r with
          | none => rw [hs] at h; cases h
          | some C =>
              rw [hs] at h
              simp only at h
              obtain ⟨hC, g⟩ := cstep_sound M C op hs hM hp.1
              obtain ⟨hN, gN⟩ := ih C N (k + 1) h hC hp.2
              refine ⟨hN, ?_⟩
              rw [gN, g]
              simp only [cprogRel, hs]

/-- the general maps the generator builds — an affine map wrapped by `_as_coordinate_map`, followed
    by a polynomial shear (with its inverse) or by squaring (no inverse) — satisfy the invariant,
    so `cprog_sound` applies to every generated program on general maps -/
theorem mkGeneral_wf (A : Aff) (g : GKind) (hA : A.bottomExact) : (mkGeneral A g).wf := by
  have hT := toCMap_wf hA
  cases g with
  | affine => exact hT
  | shear c =>
      constructor
      · intro x hx
        show (shearFn c ((toCMap A).fn x)).length = _
        rw [shearFn_length]
        exact hT.len x hx
      · intro g hg
        have hg' : ((toCMap A).inv.map fun g => fun y => g (shearFn (-c) y)) = some g := hg
        cases hi : (toCMap A).inv with
        | none => rw [hi] at hg'; cases hg'
        | some g0 =>
            rw [hi] at hg'
            simp only [Option.map_some, Option.some.injEq] at hg'
            subst hg'
            obtain ⟨i1, i2⟩ := hT.inv g0 hi
            constructor
            · intro x hx
              show g0 (shearFn (-c) (shearFn c ((toCMap A).fn x))) = x
              rw [shearFn_inv]
              exact i1 x hx
            · intro y hy
              have hy' : (shearFn (-c) y).length = (toCMap A).nout := by rw [shearFn_length]; exact hy
              obtain ⟨l1, e1⟩ := i2 _ hy'
              refine ⟨l1, ?_⟩
              show shearFn c ((toCMap A).fn (g0 (shearFn (-c) y))) = y
              rw [e1]
              have := shearFn_inv (-c) y
              rwa [neg_neg] at this
  | square =>
      constructor
      · intro x hx
        show (((toCMap A).fn x).map fun v => v * v).length = _
        rw [List.length_map]
        exact hT.len x hx
      · intro g hg
        cases hg

/-! ## Non-vacuity -/

def exG : Aff := ⟨⟨["i", "j"], "d", .f8⟩, ⟨["x", "y"], "r", .f8⟩, [[2, 1, 3], [1, 1, 0], [0, 0, 1]]⟩
def exGops : List Op :=
  [.reordD (.ints [1, 0]), .inv, .shiftR [1, 2] "s",
   .composeN [⟨⟨["j", "i"], "s", .f8⟩, ⟨["u", "v"], "t", .f8⟩, .f8, [[1, 2, 0], [0, 1, 1], [0, 0, 1]]⟩] [],
   .renR [(.nm "u", "w")]]

example : exG.bottomExact := by unfold Aff.bottomExact; decide +kernel
example : exGops.all Op.exactC = true := by decide +kernel
example : (match runOpsC2 (mkGeneral exG (.shear (1/2))) exGops 0 with
    | .ok N => N.rng.names == ["w", "v"] && N.fn [1, 2] == [-7, -9/2] && N.inv.isSome
    | .error _ => false) = true := by decide +kernel

end NipyVerif.C01
