/-
C13 — property theorems about the model in `NipyVerif.Model.C13`.
Only property statements and their non-vacuity examples live here.
-/
import NipyVerif.Lemmas.C13

namespace NipyVerif.C13

/-! ## Alternative implementations of the same quantity agree -/

/-- Clause "the alternative implementations of the same quantity agree":
    the quadratic form of `unweighted_likelihood_` (`(m−x) B` then `·(m−x)`) equals the one of
    `unweighted_likelihood` (`B (x−m)` then `(x−m)·`) for *every* matrix `B` and all data. -/
theorem quadform_impls_agree (d : Nat) (b : Nat → Nat → Rat) (m x : Nat → Rat) :
    quadA d b (fun j => m j - x j) = quadB d b (fun j => x j - m j) := by
  unfold quadA quadB
  simp only [← sumTo_mul_left, ← sumTo_mul_right]
  rw [sumTo_comm]
  apply sumTo_congr; intro i _
  apply sumTo_congr; intro j _
  ring

/-- hence both GMM likelihood exponents coincide for all parameters and samples. -/
theorem loglike_impls_agree (d : Nat) (l2 ld : Rat) (b : Nat → Nat → Rat) (m x : Nat → Rat) :
    logLikeA d l2 ld b m x = logLikeB d l2 ld b m x := by
  unfold logLikeA logLikeB
  rw [quadform_impls_agree]

/-- `normal_eval` (Bayesian helpers) computes the same exponent as the GMM likelihood. -/
theorem normal_eval_agrees_with_gmm (d : Nat) (l2 ld : Rat) (b : Nat → Nat → Rat) (m x : Nat → Rat) :
    logLikeN d l2 ld b m x = logLikeB d l2 ld b m x := by
  unfold logLikeN logLikeB logDens quadN quadB
  have : sumTo d (fun i => (sumTo d (fun j => b i j * (m j - x j))) * (m i - x i))
       = sumTo d (fun i => (x i - m i) * (sumTo d (fun j => b i j * (x j - m j)))) := by
    simp only [← sumTo_mul_left, ← sumTo_mul_right]
    apply sumTo_congr; intro i _
    apply sumTo_congr; intro j _
    ring
  rw [this]; ring

/-- Diagonal and full precision parameterisations agree: the diagonal likelihood is the full one
    at the matrix `diag b`. -/
theorem diag_agrees_with_full (d : Nat) (l2 ld : Rat) (b m x : Nat → Rat) :
    logLikeD d l2 ld b m x = logLikeA d l2 ld (diagMat b) m x := by
  unfold logLikeD logLikeA quadDiag quadA diagMat
  congr 1
  apply sumTo_congr; intro i hi
  have : sumTo d (fun j => (m j - x j) * (if j = i then b j else 0)) = (m i - x i) * b i := by
    rw [sumTo_eq_sum, Finset.sum_eq_single i]
    · simp
    · intro j _ hji; simp [hji]
    · intro h; exact absurd (Finset.mem_range.mpr hi) h
  rw [this]; ring

/-- Clause "translating the data … leaving memberships unchanged", density part: every Gaussian
    likelihood exponent depends on sample and mean only through their difference. -/
theorem loglike_translation_invariant (d : Nat) (l2 ld : Rat) (b : Nat → Nat → Rat)
    (m x t : Nat → Rat) :
    logLikeB d l2 ld b (fun j => m j + t j) (fun j => x j + t j) = logLikeB d l2 ld b m x := by
  unfold logLikeB
  congr 2; funext j; ring

/-! ## Posterior memberships lie on the simplex -/

/-- Clause "posterior membership probabilities of samples under a mixture are non-negative":
    for every non-negative likelihood row — including an all-zero (underflowed, far-away
    outlier) row. -/
theorem posterior_nonneg (tiny : Rat) (K : Nat) (row : Nat → Rat) (ht : 0 < tiny)
    (hrow : ∀ k, k < K → 0 ≤ row k) (k : Nat) (hk : k < K) : 0 ≤ respRow tiny K row k := by
  unfold respRow
  have hs : 0 ≤ sumTo K row := sumTo_nonneg hrow
  have hK : (0 : Rat) < K := by exact_mod_cast (Nat.lt_of_le_of_lt (Nat.zero_le k) hk)
  apply div_nonneg
  · have := hrow k hk
    have : 0 ≤ tiny / K := div_nonneg ht.le hK.le
    linarith
  · linarith

/-- … "and sum to one for every sample": no hypothesis on the size of the likelihoods. -/
theorem posterior_sums_to_one (tiny : Rat) (K : Nat) (row : Nat → Rat) (ht : 0 < tiny) (hK : 0 < K)
    (hrow : ∀ k, k < K → 0 ≤ row k) : sumTo K (respRow tiny K row) = 1 := by
  unfold respRow
  have hs : 0 ≤ sumTo K row := sumTo_nonneg hrow
  have hKq : (K : Rat) ≠ 0 := by exact_mod_cast (Nat.pos_iff_ne_zero.mp hK)
  rw [sumTo_div, sumTo_add, sumTo_const]
  have : (K : Rat) * (tiny / K) = tiny := by field_simp
  rw [this]
  exact div_self (by linarith)

/-- The historical normaliser `like / max(tiny, Σ like)`: memberships sum to `Σ/max(tiny, Σ)`,
    which is one only when the sample's mixture likelihood is at least `tiny` — partial: it is
    *not* one for far-away samples. -/
theorem posterior_clamp_sum_partial (tiny : Rat) (K : Nat) (row : Nat → Rat)
    (hbig : tiny ≤ sumTo K row) (ht : 0 < tiny) : sumTo K (respClamp tiny K row) = 1 := by
  unfold respClamp
  rw [sumTo_div, max_eq_right hbig]
  exact div_self (by linarith)

/-- Each sample contributes total mass one to the populations: `Σ_k pop_k = n`. -/
theorem pop_total (tiny : Rat) (n K : Nat) (like : Nat → Nat → Rat) (ht : 0 < tiny) (hK : 0 < K)
    (hl : ∀ i, i < n → ∀ k, k < K → 0 ≤ like i k) :
    sumTo K (fun k => pop n (fun i => resp tiny K like i k)) = n := by
  unfold pop
  rw [sumTo_comm]
  have : sumTo n (fun i => sumTo K (fun k => resp tiny K like i k)) = sumTo n (fun _ => 1) := by
    apply sumTo_congr; intro i hi
    exact posterior_sums_to_one tiny K (like i) ht hK (hl i hi)
  rw [this, sumTo_const]; ring

/-- Fitted weights are on the simplex (sum to one) whenever the populations are non-negative. -/
theorem weights_sum_to_one (K : Nat) (pops : Nat → Rat) (hK : 0 < K)
    (hp : ∀ k, k < K → 0 ≤ pops k) : sumTo K (mstepWeight K pops) = 1 := by
  unfold mstepWeight
  rw [sumTo_div]
  apply div_self
  have hKq : (0 : Rat) < K := by exact_mod_cast hK
  have h1 : sumTo K (fun k' => 1 / (K : Rat) + pops k') = 1 + sumTo K pops := by
    rw [sumTo_add, sumTo_const]; field_simp
  have h2 : 0 ≤ sumTo K pops := sumTo_nonneg hp
  rw [h1]; linarith

/-! ## Parameter updates are equivariant

`r` is the membership column of one component (fixed), the priors are those that
`guess_regularizing` derives from the data set the update is run on. -/

/-- Clause "translating the data or rescaling each axis translates or rescales the fitted means":
    for the per-axis affine map `x ↦ a·x + t` the fitted mean of every component maps the same way. -/
theorem mstep_mean_affine_equivariant (n : Nat) (r : Nat → Rat) (x : Nat → Nat → Rat)
    (a t : Nat → Rat) (ps : Rat) (j : Nat) (hn : 0 < n) (hps : 0 < ps) (hpop : 0 ≤ pop n r) :
    mstepMean n r (affineData a t x) (dataMean n (affineData a t x)) ps j
      = a j * mstepMean n r x (dataMean n x) ps j + t j := by
  unfold mstepMean
  rw [sx_affine, dataMean_affine n x a t j hn]
  have : pop n r + ps ≠ 0 := by linarith
  field_simp
  ring

/-- … "and covariances accordingly" (full precision): `Σ'[j,l] = a_j a_l Σ[j,l]`; in particular a
    pure translation (`a = 1`) leaves the covariance unchanged. -/
theorem mstep_cov_full_affine_equivariant (tiny c ps pdof : Rat) (n d : Nat) (r : Nat → Rat)
    (x : Nat → Nat → Rat) (a t : Nat → Rat) (j l : Nat) (hn : 0 < n) (ht : 0 < tiny)
    (hpop : tiny ≤ pop n r) :
    mstepCovFull tiny n d r (affineData a t x) (dataMean n (affineData a t x))
        (invPriorScale c n (affineData a t x)) ps pdof j l
      = a j * a l * mstepCovFull tiny n d r x (dataMean n x) (invPriorScale c n x) ps pdof j l := by
  unfold mstepCovFull
  rw [empCovFull_affine tiny n r x a t j l ht hpop, empMean_affine tiny n r x a t j ht hpop,
    empMean_affine tiny n r x a t l ht hpop, dataMean_affine n x a t j hn,
    dataMean_affine n x a t l hn, invPriorScale_affine c n x a t j hn]
  by_cases hjl : j = l
  · subst hjl; simp only [if_true]; ring
  · simp only [if_neg hjl]; ring

/-- … diagonal precision: `σ'²[j] = a_j² σ²[j]`. -/
theorem mstep_cov_diag_affine_equivariant (tiny c ps pdof : Rat) (n d : Nat) (r : Nat → Rat)
    (x : Nat → Nat → Rat) (a t : Nat → Rat) (j : Nat) (hn : 0 < n) (ht : 0 < tiny)
    (hpop : tiny ≤ pop n r) :
    mstepCovDiag tiny n d r (affineData a t x) (dataMean n (affineData a t x))
        (invPriorScale c n (affineData a t x)) ps pdof j
      = a j ^ 2 * mstepCovDiag tiny n d r x (dataMean n x) (invPriorScale c n x) ps pdof j := by
  unfold mstepCovDiag
  rw [empCovDiag_affine tiny n r x a t j ht hpop, empMean_affine tiny n r x a t j ht hpop,
    dataMean_affine n x a t j hn, invPriorScale_affine c n x a t j hn]
  ring

/-- `mstep_translation_equivariant`: translating the data translates the means and leaves the
    covariances unchanged (memberships and hence weights do not involve the data). -/
theorem mstep_translation_equivariant (tiny c ps pdof : Rat) (n d : Nat) (r : Nat → Rat)
    (x : Nat → Nat → Rat) (t : Nat → Rat) (hn : 0 < n) (ht : 0 < tiny) (hps : 0 < ps)
    (hpop : tiny ≤ pop n r) :
    let x' := affineData (fun _ => 1) t x
    (∀ j, mstepMean n r x' (dataMean n x') ps j = mstepMean n r x (dataMean n x) ps j + t j) ∧
    (∀ j l, mstepCovFull tiny n d r x' (dataMean n x') (invPriorScale c n x') ps pdof j l
        = mstepCovFull tiny n d r x (dataMean n x) (invPriorScale c n x) ps pdof j l) ∧
    (∀ j, mstepCovDiag tiny n d r x' (dataMean n x') (invPriorScale c n x') ps pdof j
        = mstepCovDiag tiny n d r x (dataMean n x) (invPriorScale c n x) ps pdof j) := by
  have hp0 : 0 ≤ pop n r := by linarith
  refine ⟨fun j => ?_, fun j l => ?_, fun j => ?_⟩
  · rw [mstep_mean_affine_equivariant n r x _ t ps j hn hps hp0]; ring
  · rw [mstep_cov_full_affine_equivariant tiny c ps pdof n d r x _ t j l hn ht hpop]; ring
  · rw [mstep_cov_diag_affine_equivariant tiny c ps pdof n d r x _ t j hn ht hpop]; ring

/-- `mstep_scale_equivariant`: rescaling each axis by `a_j` (any sign, any size) rescales the
    means by `a_j` and the covariances by `a_j a_l`. -/
theorem mstep_scale_equivariant (tiny c ps pdof : Rat) (n d : Nat) (r : Nat → Rat)
    (x : Nat → Nat → Rat) (a : Nat → Rat) (hn : 0 < n) (ht : 0 < tiny) (hps : 0 < ps)
    (hpop : tiny ≤ pop n r) :
    let x' := affineData a (fun _ => 0) x
    (∀ j, mstepMean n r x' (dataMean n x') ps j = a j * mstepMean n r x (dataMean n x) ps j) ∧
    (∀ j l, mstepCovFull tiny n d r x' (dataMean n x') (invPriorScale c n x') ps pdof j l
        = a j * a l * mstepCovFull tiny n d r x (dataMean n x) (invPriorScale c n x) ps pdof j l) ∧
    (∀ j, mstepCovDiag tiny n d r x' (dataMean n x') (invPriorScale c n x') ps pdof j
        = a j ^ 2 * mstepCovDiag tiny n d r x (dataMean n x) (invPriorScale c n x) ps pdof j) := by
  have hp0 : 0 ≤ pop n r := by linarith
  refine ⟨fun j => ?_, fun j l => ?_, fun j => ?_⟩
  · rw [mstep_mean_affine_equivariant n r x a _ ps j hn hps hp0]; ring
  · exact mstep_cov_full_affine_equivariant tiny c ps pdof n d r x a _ j l hn ht hpop
  · exact mstep_cov_diag_affine_equivariant tiny c ps pdof n d r x a _ j hn ht hpop

/-- Clause "relabelling components permutes the fitted parameters": after relabelling the
    likelihood columns by a permutation `σ` of `0..K-1`, the membership column of component `k`
    is the old column `σ k` — so every per-component quantity of `_Mstep` (population, mean,
    covariance: all functions of that column) is permuted. -/
theorem mstep_label_equivariant (tiny : Rat) (K : Nat) (like : Nat → Nat → Rat) (σ : Nat → Nat)
    (hσ : ∀ k, k < K → σ k < K) (hinj : ∀ a, a < K → ∀ b, b < K → σ a = σ b → a = b)
    (i k : Nat) :
    resp tiny K (relabel σ like) i k = resp tiny K like i (σ k) := by
  unfold resp respRow relabel
  rw [sumTo_perm K σ hσ hinj (like i)]

/-- … and the fitted weights are permuted as well. -/
theorem mstep_weights_label_equivariant (K : Nat) (pops : Nat → Rat) (σ : Nat → Nat)
    (hσ : ∀ k, k < K → σ k < K) (hinj : ∀ a, a < K → ∀ b, b < K → σ a = σ b → a = b) (k : Nat) :
    mstepWeight K (fun k' => pops (σ k')) k = mstepWeight K pops (σ k) := by
  unfold mstepWeight
  rw [sumTo_perm K σ hσ hinj (fun k' => 1 / (K : Rat) + pops k')]

/-! ## `ve_step` (Markov-random-field tissue segmentation) -/

/-- Clause "posterior membership probabilities of voxels … are non-negative": both
    normalisation branches of `ve_step` (including the `TINY` one). -/
theorem ve_normalize_nonneg (tiny : Rat) (p : List Rat) (ht : 0 < tiny)
    (hp : ∀ v ∈ p, 0 ≤ v) : ∀ q ∈ veNormalize tiny p, 0 ≤ q := by
  have hs : 0 ≤ p.sum := list_sum_nonneg hp
  intro q hq
  unfold veNormalize at hq
  split_ifs at hq with h
  · obtain ⟨v, hv, rfl⟩ := List.mem_map.mp hq
    exact div_nonneg (hp v hv) hs
  · obtain ⟨v, hv, rfl⟩ := List.mem_map.mp hq
    apply div_nonneg
    · have : 0 ≤ tiny / (p.length : Rat) := div_nonneg ht.le (by positivity)
      have := hp v hv
      linarith
    · linarith

/-- … "and sum to one for every in-mask voxel": both branches, for every non-empty class set. -/
theorem ve_normalize_sums_to_one (tiny : Rat) (p : List Rat) (ht : 0 < tiny) (hne : p ≠ [])
    (hp : ∀ v ∈ p, 0 ≤ v) : (veNormalize tiny p).sum = 1 := by
  have hs : 0 ≤ p.sum := list_sum_nonneg hp
  unfold veNormalize
  split_ifs with h
  · rw [list_sum_map_div]
    exact div_self (by linarith)
  · rw [list_sum_map_add_div]
    have hl : (p.length : Rat) ≠ 0 := by
      have : p.length ≠ 0 := fun h0 => hne (List.length_eq_zero_iff.mp h0)
      exact_mod_cast this
    have : (p.length : Rat) * (tiny / p.length) = tiny := by field_simp
    rw [this]
    exact div_self (by linarith)

/-- Memory safety of the neighbourhood integration: every neighbour position that passes the
    flat-index test `!(pos < 0 || pos > posmax)` has all its `K` class entries inside the map
    (T3: the test is on the flat index only, so rows may wrap; the property does not forbid it). -/
theorem ve_step_pos_in_bounds (g : Grid) (pos : Int) (h : posOk g pos = true) (kk : Nat)
    (hk : kk < g.K) : pos.toNat + kk < g.size := by
  unfold posOk posMax at h
  simp only [Bool.and_eq_true, decide_eq_true_eq] at h
  omega

/-- After the update of a voxel inside the grid, the `K` entries of that voxel are exactly the
    normalised vector — hence (by the two theorems above) a point of the simplex. -/
theorem ve_step_voxel_row (g : Grid) (tiny : Rat) (U ppm : Array Rat)
    (ngb : List (Int × Int × Int)) (vox : Nat × Nat × Nat) (e ref : List Rat)
    (hsize : ppm.size = g.size) (hx : vox.1 < g.X) (hy : vox.2.1 < g.Y) (hz : vox.2.2 < g.Z)
    (he : e.length = g.K) (hr : ref.length = g.K) :
    readRow (veStepVoxel g tiny U ngb ppm vox e ref).1
        (flatPos g vox.1 vox.2.1 vox.2.2).toNat g.K
      = veNormalize tiny (List.zipWith (· * ·) e ref) := by
  obtain ⟨x, y, z⟩ := vox
  simp only at hx hy hz
  have hlen : (veNormalize tiny (List.zipWith (· * ·) e ref)).length = g.K := by
    unfold veNormalize; split_ifs <;> simp [he, hr]
  have hpos : (flatPos g x y z).toNat = x * (g.Y * g.Z * g.K) + y * (g.Z * g.K) + z * g.K := by
    have : flatPos g x y z = ((x * (g.Y * g.Z * g.K) + y * (g.Z * g.K) + z * g.K : Nat) : Int) := by
      unfold flatPos; push_cast; ring
    rw [this, Int.toNat_natCast]
  have hfit : (flatPos g x y z).toNat + g.K ≤ g.size := by
    rw [hpos]; unfold Grid.size
    have h1 : x * (g.Y * g.Z * g.K) + (g.Y * g.Z * g.K) ≤ g.X * (g.Y * g.Z * g.K) := by
      have := Nat.mul_le_mul_right (g.Y * g.Z * g.K) (Nat.succ_le_of_lt hx)
      rw [Nat.succ_mul] at this; exact this
    have h2 : y * (g.Z * g.K) + (g.Z * g.K) ≤ g.Y * (g.Z * g.K) := by
      have := Nat.mul_le_mul_right (g.Z * g.K) (Nat.succ_le_of_lt hy)
      rw [Nat.succ_mul] at this; exact this
    have h3 : z * g.K + g.K ≤ g.Z * g.K := by
      have := Nat.mul_le_mul_right g.K (Nat.succ_le_of_lt hz)
      rw [Nat.succ_mul] at this; exact this
    have e1 : g.X * g.Y * g.Z * g.K = g.X * (g.Y * g.Z * g.K) := by ring
    have e2 : g.Y * g.Z * g.K = g.Y * (g.Z * g.K) := by ring
    omega
  unfold veStepVoxel readRow
  simp only
  apply List.ext_getElem
  · simp [hlen]
  · intro k h1 h2
    simp only [List.length_map, List.length_range] at h1
    simp only [List.getElem_map, List.getElem_range]
    rw [writeRow_getD _ _ _ (by rw [hlen, hsize]; exact hfit)]
    rw [if_pos (by rw [hlen]; omega)]
    simp only [Nat.add_sub_cancel_left]
    simp [List.getD_eq_getElem?_getD, h2]

/-- The whole sweep: for distinct in-grid voxels (as produced by `np.where(mask)`), after `ve_step`
    the row of *every* listed voxel is the normalised vector computed when that voxel was
    visited — later in-place updates never overwrite it. -/
theorem ve_step_sweep_rows (g : Grid) (tiny : Rat) (U : Array Rat) (ngb) (pts : List Pt) :
    ∀ ppm : Array Rat, ppm.size = g.size → (∀ p ∈ pts, ptOk g p) →
      pts.Pairwise (fun p q => p.1 ≠ q.1) → ∀ p ∈ pts,
      readRow (veStep g tiny U ngb ppm pts).1 (flatPos g p.1.1 p.1.2.1 p.1.2.2).toNat g.K
        = veNormalize tiny (List.zipWith (· * ·) p.2.1 p.2.2) := by
  induction pts with
  | nil => intro _ _ _ _ p hp; simp at hp
  | cons q qs ih =>
      intro ppm hsize hok hpw p hp
      have hq := hok q (List.mem_cons_self ..)
      have hoks : ∀ p ∈ qs, ptOk g p := fun p hp => hok p (List.mem_cons_of_mem _ hp)
      obtain ⟨hqs, hpw'⟩ := List.pairwise_cons.mp hpw
      have hsz : (veStepVoxel g tiny U ngb ppm q.1 q.2.1 q.2.2).1.size = g.size := by
        rw [veStepVoxel_size g tiny U ppm ngb q]; exact hsize
      rcases List.mem_cons.mp hp with rfl | hmem
      · -- the head voxel: later updates leave its row alone
        obtain ⟨v, e, r⟩ := p
        simp only [veStep]
        have hlen : (veNormalize tiny (List.zipWith (· * ·) e r)).length = g.K := by
          rw [veNormalize_length]; simp [hq.2.1, hq.2.2]
        unfold readRow
        rw [flatPos_eq]
        apply List.ext_getElem
        · simp [hlen]
        · intro k h1 h2
          simp only [List.length_map, List.length_range] at h1
          simp only [List.getElem_map, List.getElem_range]
          rw [veStep_frame g tiny U ngb qs _ hsz hoks]
          · rw [veStepVoxel_getD g tiny U ppm ngb (v, e, r) hsize hq]
            rw [if_pos (by simp only; omega)]
            simp only [Nat.add_sub_cancel_left]
            simp [List.getD_eq_getElem?_getD, h2]
          · intro w hw
            have hd := rows_disjoint g v w.1 hq.1 (hoks w hw).1 (hqs w hw)
            omega
      · obtain ⟨v, e, r⟩ := q
        simp only [veStep]
        exact ih _ hsz hoks hpw' p hmem

/-- Clause "posterior membership probabilities of voxels in the MRF segmentation are non-negative
    and sum to one for every in-mask voxel", for the complete in-place sweep. -/
theorem ve_step_sweep_simplex (g : Grid) (tiny : Rat) (U : Array Rat) (ngb) (pts : List Pt)
    (ppm : Array Rat) (hsize : ppm.size = g.size) (hok : ∀ p ∈ pts, ptOk g p)
    (hpw : pts.Pairwise (fun p q => p.1 ≠ q.1)) (ht : 0 < tiny) (hK : 0 < g.K)
    (hpos : ∀ p ∈ pts, (∀ v ∈ p.2.1, 0 ≤ v) ∧ (∀ v ∈ p.2.2, 0 ≤ v)) :
    ∀ p ∈ pts,
      (readRow (veStep g tiny U ngb ppm pts).1 (flatPos g p.1.1 p.1.2.1 p.1.2.2).toNat g.K).sum = 1 ∧
      ∀ q ∈ readRow (veStep g tiny U ngb ppm pts).1 (flatPos g p.1.1 p.1.2.1 p.1.2.2).toNat g.K, 0 ≤ q := by
  intro p hp
  rw [ve_step_sweep_rows g tiny U ngb pts ppm hsize hok hpw p hp]
  have hnn : ∀ v ∈ List.zipWith (· * ·) p.2.1 p.2.2, 0 ≤ v :=
    zipWith_mul_nonneg _ _ (hpos p hp).1 (hpos p hp).2
  have hne : List.zipWith (· * ·) p.2.1 p.2.2 ≠ [] := by
    intro h
    have : (List.zipWith (· * ·) p.2.1 p.2.2).length = g.K := by
      simp [(hok p hp).2.1, (hok p hp).2.2]
    rw [h] at this; simp at this; omega
  exact ⟨ve_normalize_sums_to_one tiny _ ht hne hnn, ve_normalize_nonneg tiny _ ht hnn⟩

/-! ## The most-probable labelling is the arg-max -/

/-- Clause "the most-probable labelling is their arg-max" (`map_label`, `map_from_ppm`):
    the label is a valid class index whose value is maximal, and it is the first such index
    (NumPy's tie rule). -/
theorem map_is_argmax (f : Nat → Rat) (K : Nat) (hK : 0 < K) :
    argmax f K < K ∧ (∀ j, j < K → f j ≤ f (argmax f K)) ∧
      (∀ j, j < argmax f K → f j < f (argmax f K)) :=
  ⟨argmax_lt f K hK, argmax_ge f K, argmax_first f K⟩

/-- segmentation labels: `1 + argmax` inside the mask (so in `1..K`), `0` outside. -/
theorem map_label_range (K : Nat) (row : Nat → Rat) (hK : 0 < K) :
    1 ≤ mapLabel true K row ∧ mapLabel true K row ≤ K ∧ mapLabel false K row = 0 := by
  unfold mapLabel
  have := argmax_lt row K hK
  simp; omega

/-! ## Non-vacuity -/

example : respRow (1/1000) 2 (fun _ => 0) 0 = 1/2 := by
  simp [respRow, sumTo]; norm_num
example : veNormalize (1/1000) [0, 0] = [1/2, 1/2] := by decide +kernel
example : veNormalize (1/1000) [1, 3] = [1/4, 3/4] := by decide +kernel
example : posOk ⟨2, 2, 2, 3⟩ 21 = true ∧ posOk ⟨2, 2, 2, 3⟩ 22 = false := by decide +kernel
example : argmax (fun i => if i = 1 ∨ i = 2 then 5 else 1) 3 = 1 := by decide +kernel
-- hypotheses of the equivariance theorems are satisfiable: two samples, memberships 1/2 each
example : (1 / 1000 : Rat) ≤ pop 2 (fun _ => 1 / 2) := by simp [pop, sumTo]; norm_num
-- a genuine permutation satisfies the relabelling hypotheses
example : (∀ k, k < 2 → (fun k => 1 - k) k < 2) ∧
    (∀ a, a < 2 → ∀ b, b < 2 → (fun k => 1 - k) a = (fun k => 1 - k) b → a = b) := by
  refine ⟨fun k hk => ?_, fun a ha b hb h => ?_⟩ <;> simp only at * <;> omega

end NipyVerif.C13
