/-
C01 — property theorems, third module: `equivalent`, class constructors, dtype lattice.
Only property statements and their non-vacuity examples live here.
-/
import NipyVerif.Lemmas.C01C
import NipyVerif.Props.C01

namespace NipyVerif.C01

/-! ## `equivalent` -/

/-- Clause "every named input tuple still maps to the same named output values" for
    `equivalent(m1, m2)`: if it returns `True` there is a relabelled form `A₂` of `m1` (same named
    values as `m1` at every named input tuple) carrying exactly `m2`'s coordinate names, whose
    matrix entries are all within `np.allclose`'s window of `m2`'s; and whenever the entries are
    in fact equal, `m1` and `m2` send every named input tuple to the same named outputs
    (as a multiset of `(name, value)` pairs — the output order may differ). -/
theorem equivalent_sound (A B : Aff) (hA : A.bottomExact) (hB : B.wellShaped)
    (h : equivalent A B = .ok true) :
    ∃ A2 : Aff, (∀ env, (A2.applyNamed env).Perm (A.applyNamed env)) ∧
      A2.dom.names = B.dom.names ∧ A2.rng.names = B.rng.names ∧
      (∀ i j, i ≤ B.nout → j ≤ B.nin → closeTo (A2.aff.get i j) (B.aff.get i j) = true) ∧
      ((∀ i j, i < B.nout → j ≤ B.nin → A2.aff.get i j = B.aff.get i j) →
        ∀ env, (A.applyNamed env).Perm (B.applyNamed env)) := by
  unfold equivalent at h
  cases h1 : reorderedDomain A (.names B.dom.names) with
  | error e => rw [h1] at h; cases e <;> simp at h
  | ok A1 =>
      rw [h1] at h
      simp only at h
      cases h2 : reorderedRange A1 (.names B.rng.names) with
      | error e => rw [h2] at h; cases e <;> simp at h
      | ok A2 =>
          rw [h2] at h
          simp only at h
          -- first reordering: named values unchanged
          cases hcs1 : reorderCS A.dom (.names B.dom.names) with
          | error e => unfold reorderedDomain at h1; rw [hcs1] at h1; cases h1
          | ok p1 =>
              obtain ⟨ord1, ncs1⟩ := p1
              have hp1 := reorderCS_perm hcs1
              have hn1 := reorderedDomain_named A A1 _ ord1 ncs1 hcs1 hp1 hA h1
              obtain ⟨_, _, hA1, _⟩ := reorderedDomain_apply' A A1 _ ord1 ncs1 hcs1 hp1 hA h1
              cases hcs2 : reorderCS A1.rng (.names B.rng.names) with
              | error e => unfold reorderedRange at h2; rw [hcs2] at h2; cases h2
              | ok p2 =>
                  obtain ⟨ord2, ncs2⟩ := p2
                  have hp2 := reorderCS_perm hcs2
                  have hn2 := fun env => (reorderedRange_named A1 A2 _ ord2 ncs2 hcs2 hp2 hA1 h2 env).2.2
                  have hperm : ∀ env, (A2.applyNamed env).Perm (A.applyNamed env) := by
                    intro env
                    rw [hn2 env, ← hn1 env]
                    apply perm_map_getD _ _ _ hp2
                    simp [Aff.applyNamed, apply_length, Aff.nout]
                  obtain ⟨e1, e2, e3⟩ := affEq_true (reorderedRange_shape h2) hB h
                  have hin : A2.nin = B.nin := by simp [Aff.nin, e1]
                  have hout : A2.nout = B.nout := by simp [Aff.nout, e2]
                  refine ⟨A2, hperm, e1, e2, e3 hin hout, fun heq env => ?_⟩
                  have happ : ∀ x, A2.apply x = B.apply x := fun x =>
                    apply_congr A2 B x x hin hout
                      (fun i j hi hj => heq i j (by omega) (by omega)) (fun _ _ => rfl)
                  have : A2.applyNamed env = B.applyNamed env := by
                    unfold Aff.applyNamed
                    rw [e1, e2, happ]
                  rw [← this]
                  exact (hperm env).symm

/-! ## Class constructors -/

/-- `AffineTransform.from_start_step(innames, outnames, start, step)` is the diagonal map
    `yᵢ = stepᵢ·xᵢ + vᵢ` with the given names, where `v` is `start` **after numpy assigned it into
    an array of the dtype of `np.diag(step)`** (so integer steps truncate a fractional start —
    this is what the code does through `nibabel.affines.from_matvec`; for float steps `v = start`). -/
theorem from_start_step_apply (inn outn : List String) (start step : List Rat) (sdt : DType)
    (dn rn : String) (B : Aff) (h : fromStartStep inn outn start step sdt dn rn = .ok B) :
    ∃ v, bcastInto inn.length sdt start = .ok v ∧ step.length = inn.length ∧
      B.dom.names = inn ∧ B.rng.names = outn ∧ B.dom.name = dn ∧ B.rng.name = rn ∧ B.bottomExact ∧
      ∀ x, B.apply x = (List.range inn.length).map fun i => step.getD i 0 * x.getD i 0 + v.getD i 0 :=
  fromStartStep_apply' h

/-- `AffineTransform.identity(names, name)` is the identity on tuples of the right length, from
    the named system to itself. -/
theorem identity_apply (names : List String) (name : String) (B : Aff)
    (h : identityAff names name = .ok B) :
    B.dom.names = names ∧ B.rng.names = names ∧ B.dom.name = name ∧ B.rng.name = name ∧ B.bottomExact ∧
    ∀ x, x.length = names.length → B.apply x = x := by
  obtain ⟨v, hv, _, h1, h2, h3, h4, h5, h6⟩ := fromStartStep_apply' h
  refine ⟨h1, h2, h3, h4, h5, fun x hx => ?_⟩
  have hv' : v = List.replicate names.length 0 := by
    unfold bcastInto at hv
    simp only [List.length_replicate, if_true, Except.ok.injEq] at hv
    rw [← hv]
    have h0 : (if DType.i8.isInt = true then truncRat 0 else (0 : Rat)) = 0 := by decide +kernel
    simp [h0]
  rw [h6 x]
  apply list_eq_of_getD (by simp [hx])
  intro i hi
  rw [getD_map_range _ (by omega), hv']
  have h1' : (List.replicate names.length (1 : Rat)).getD i 0 = 1 := by
    simp [List.getD_eq_getElem?_getD, show i < names.length by omega]
  have h0' : (List.replicate names.length (0 : Rat)).getD i 0 = 0 := by
    simp [List.getD_eq_getElem?_getD, show i < names.length by omega]
  rw [h1', h0']
  ring

/-! ## dtype lattice (`safe_dtype`, the `can_cast` gate of `_checked_values`) -/

/-- safe casting is reflexive and transitive on all sixteen dtypes -/
theorem canCast_preorder (a b c : DType) :
    a.canCast a = true ∧ (a.canCast b = true → b.canCast c = true → a.canCast c = true) := by
  have key : (DType.all.all fun a => a.canCast a && DType.all.all fun b => DType.all.all fun c =>
      !(a.canCast b) || !(b.canCast c) || a.canCast c) = true := by decide +kernel
  rw [List.all_eq_true] at key
  have ha := key a (DType.mem_all a)
  simp only [Bool.and_eq_true, List.all_eq_true] at ha
  refine ⟨ha.1, fun h1 h2 => ?_⟩
  have := ha.2 b (DType.mem_all b) c (DType.mem_all c)
  simpa [h1, h2] using this

/-- `safe_dtype(a, b, c)` (the dtype an `AffineTransform` stores for matrix, domain and range;
    numpy promotes from left to right and promotion is *not* associative — `(i2 ⊔ u2) ⊔ f4 = f8` but
    `i2 ⊔ (u2 ⊔ f4) = f4`) is one that all three cast to safely, whatever the numeric / object dtypes
    are; and promotion is commutative and idempotent. -/
theorem safe_dtype_upper (a b c : DType) (ha : a ≠ .txt) (hb : b ≠ .txt) (hc : c ≠ .txt) :
    a.canCast ((a.join b).join c) = true ∧ b.canCast ((a.join b).join c) = true ∧
    c.canCast ((a.join b).join c) = true ∧ a.join b = b.join a ∧ a.join a = a := by
  have key : (DType.all.all fun a => DType.all.all fun b => DType.all.all fun c =>
      a == .txt || b == .txt || c == .txt ||
      (a.canCast ((a.join b).join c) && b.canCast ((a.join b).join c) && c.canCast ((a.join b).join c)
        && a.join b == b.join a && a.join a == a)) = true := by decide +kernel
  simp only [List.all_eq_true] at key
  have := key a (DType.mem_all a) b (DType.mem_all b) c (DType.mem_all c)
  simp only [Bool.or_eq_true, beq_iff_eq, Bool.and_eq_true, ha, hb, hc, false_or] at this
  exact ⟨this.1.1.1.1, this.1.1.1.2, this.1.1.2, this.1.2, this.2⟩

/-- `AffineTransform.__init__` gives domain, range (and matrix) one common dtype that the matrix
    dtype and both coordinate dtypes cast to safely. -/
theorem mkAff_dtype (d r : CoordSys) (m : Mat) (mdt : DType) (A : Aff) (h : mkAff d r m mdt = .ok A)
    (h1 : mdt ≠ .txt) (h2 : d.dtype ≠ .txt) (h3 : r.dtype ≠ .txt) :
    A.dom.dtype = A.rng.dtype ∧ mdt.canCast A.dom.dtype = true ∧ d.dtype.canCast A.dom.dtype = true ∧
    r.dtype.canCast A.dom.dtype = true := by
  obtain ⟨m1, m2, _⟩ := mkAff_ok h
  obtain ⟨u1, u2, u3, _⟩ := safe_dtype_upper mdt d.dtype r.dtype h1 h2 h3
  rw [m1, m2]
  exact ⟨rfl, u1, u2, u3⟩

/-- the gate of `_checked_values` on every evaluation: tuples of the wrong width, or of a dtype
    that does not cast safely to the domain's, are refused with `CoordinateSystemError` -/
theorem call_gate (A : Aff) (pdt : DType) (pts : List (List Rat)) :
    (A.call pdt pts = .ok (pts.map A.apply) ∧ (∀ p ∈ pts, p.length = A.nin) ∧ pdt.canCast A.dom.dtype = true) ∨
    (A.call pdt pts = .error .coordSys ∧
      ((∃ p ∈ pts, p.length ≠ A.nin) ∨ pdt.canCast A.dom.dtype = false)) := by
  unfold Aff.call
  by_cases hw : pts.all (fun p => p.length == A.nin) = false
  · right
    rw [if_pos hw]
    refine ⟨rfl, Or.inl ?_⟩
    rw [List.all_eq_false] at hw
    obtain ⟨p, hp, hne⟩ := hw
    exact ⟨p, hp, by simpa using hne⟩
  · rw [if_neg hw]
    simp only [Bool.not_eq_false, List.all_eq_true, beq_iff_eq] at hw
    by_cases hc : pdt.canCast A.dom.dtype = false
    · right
      rw [if_pos hc]
      exact ⟨rfl, Or.inr hc⟩
    · left
      rw [if_neg hc]
      exact ⟨rfl, hw, by simpa using hc⟩

/-! ## Non-vacuity -/

def exP : Aff := ⟨⟨["i", "j"], "d", .f8⟩, ⟨["x", "y"], "r", .f8⟩, [[1, 2, 3], [4, 5, 6], [0, 0, 1]]⟩
def exQ : Aff := ⟨⟨["j", "i"], "d", .f8⟩, ⟨["y", "x"], "r", .f8⟩, [[5, 4, 6], [2, 1, 3], [0, 0, 1]]⟩

example : equivalent exP exQ = .ok true := by decide +kernel
example : exP.bottomExact ∧ exQ.wellShaped := by
  unfold Aff.bottomExact Aff.wellShaped; decide +kernel
example : equivalent exP exA = .ok false := by decide +kernel
example : (match fromStartStep ["i", "j"] ["x", "y"] [1/2, 3/2] [1, 2] .i8 "" "" with
    | .ok B => B.aff == [[1, 0, 0], [0, 2, 1], [0, 0, 1]] | .error _ => false) = true := by decide +kernel
example : (match fromStartStep ["i", "j"] ["x", "y"] [1/2, 3/2] [1, 2] .f8 "" "" with
    | .ok B => B.aff == [[1, 0, 1/2], [0, 2, 3/2], [0, 0, 1]] | .error _ => false) = true := by decide +kernel
example : (match identityAff ["i", "j", "k"] "n" with
    | .ok B => B.aff == idMat 4 && B.dom.dtype == .f8 | .error _ => false) = true := by decide +kernel
example : (DType.join .i2 .u2).join .f4 = .f8 ∧ DType.join .i2 (DType.join .u2 .f4) = .f4 := by decide
example : DType.join .i1 .u1 = .i2 ∧ DType.join .i8 .u8 = .f8 ∧ DType.join .i2 .f2 = .f4 ∧
    DType.join .c8 .i4 = .c16 ∧ joinAll [.i1, .u1, .f2] = .f4 := by decide

end NipyVerif.C01
