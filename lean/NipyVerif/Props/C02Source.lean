/-
C02 — tie (a): what the *text* of /repo says (regenerated into `Gen/C02Source.lean` by
harness/props/c02_translate.py before every build) is what the model implements.

The expressions the property hinges on are regenerated as Lean terms and proved equal, for all
arguments, to the model's definitions: the permutation handed to `np.transpose` and the one
handed to `reordered_domain` (they must be the same function of `order`), the order lists of
`rollimg` / `rollaxis`, the index handed to the data and to the `ArrayCoordMap` in
`Image.__getitem__`, the Ellipsis expansion and padding, the per-axis `(step, start, l, kept)`
of `_slice`, the axis arithmetic of `get_list_data`.  Plumbing whose whole text matters
(`iter_axis`, `synchronized_order`, `ImageList.from_image`, `as_xyz_image`, …) is compared
statement by statement.  An edit of the source that de-synchronises data and coordinate map, or
changes any of these expressions, makes a theorem here stop building: a broken obligation.
-/
import NipyVerif.Gen.C02Source
import NipyVerif.Lemmas.C02C

namespace NipyVerif.C02

variable {α : Type}

/-! ## `Image.reordered_axes` / `reordered_reference` -/

/-- the source transposes the data with the very permutation it reorders the domain of the
    coordinate map with -/
theorem reordered_axes_synchronised (order : List Nat) :
    Gen.reorderedAxesTransposeArg order = Gen.reorderedAxesDomainArg order := rfl

/-- `reorderAxesP` (the model of `reordered_axes` on a checked permutation) moves shape, names
    and columns of the affine with the source's `reordered_domain` argument and reads the data
    through the source's `np.transpose` argument -/
theorem reordered_axes_as_modelled (g : ImgOf α) (order : List Nat) :
    (reorderAxesP g order).cols = permute (fun _ => 0) (Gen.reorderedAxesDomainArg order) g.cols ∧
    (reorderAxesP g order).inNames = permute "" (Gen.reorderedAxesDomainArg order) g.inNames ∧
    (reorderAxesP g order).shape = permute 0 (Gen.reorderedAxesTransposeArg order) g.shape ∧
    (reorderAxesP g order).data = fun j => g.data (unperm (Gen.reorderedAxesTransposeArg order) j) :=
  ⟨rfl, rfl, rfl, rfl⟩

/-- `order=None` is the reversed order in both methods, as `resolveOrder … .rev` has it -/
theorem reordered_default_as_modelled (n nrev : Nat) (names : List String) :
    resolveOrder n nrev names .rev =
      (if isPerm n (Gen.reorderedAxesDefault nrev) then .ok (Gen.reorderedAxesDefault nrev)
       else .error .valueError) ∧
    Gen.reorderedReferenceDefault nrev = Gen.reorderedAxesDefault nrev := ⟨rfl, rfl⟩

/-- `reordered_reference` hands `order` itself to `reordered_range` -/
theorem reordered_reference_as_modelled (order : List Nat) :
    Gen.reorderedReferenceRangeArg order = order := rfl

theorem unperm_range_getD (n : Nat) (j : List Nat) (k : Nat) (hk : k < n) :
    (unperm (List.range n) j).getD k 0 = j.getD k 0 := by
  rw [unperm_getD _ _ _ (by simpa using hk)]
  congr 1
  have := (List.nodup_range (n := n)).idxOf_getElem k (by simpa using hk)
  simpa using this

/-- the source skips `np.transpose` exactly when `order` is the identity; the model transposes
    always — with the identity order it reads every index of the array where it was -/
theorem reordered_axes_skip_is_identity (g : ImgOf α) (order : List Nat)
    (h : Gen.reorderedAxesTransposes g.shape.length order = false) (j : List Nat)
    (hj : j.length = g.shape.length) :
    order = List.range g.shape.length ∧ unperm order j = j := by
  have ho : order = List.range g.shape.length := by
    simpa [Gen.reorderedAxesTransposes] using h
  refine ⟨ho, ?_⟩
  subst ho
  apply List.ext_getElem
  · simp [unperm_length, hj]
  · intro k h1 h2
    have hk : k < g.shape.length := by simpa [unperm_length] using h1
    have := unperm_range_getD g.shape.length j k hk
    simpa [List.getD_eq_getElem?_getD, List.getElem?_eq_getElem h1, List.getElem?_eq_getElem h2] using this

theorem reordered_source_as_modelled :
    Gen.reorderedAxesText =
      ["self.get_fdata()", "new_data = self._data", "type(order[0]) == str",
       "order = [self.axes.index(s) for s in order]",
       "return self.__class__.from_image(self, data=new_data, coordmap=new_cmap)"] ∧
    Gen.reorderedReferenceText =
      ["type(order[0]) == str", "order = [self.reference.index(s) for s in order]",
       "return self.__class__.from_image(self, coordmap=new_cmap)"] := ⟨rfl, rfl⟩

/-! ## `rollimg`, `rollaxis` -/

/-- the order list `rollimg` builds (`list(range(ndim))`, `remove(axis)`, `start -= 1` when
    `axis < start`, `insert(start, axis)`) is the one the model reorders the axes with -/
theorem rollimg_order_as_modelled (g : ImgOf α) (axis start : AxId) (ornts : List (Option Nat))
    (a s : Int) (ha : inputAxisIndex g.inNames g.outNames ornts axis = .ok a)
    (hs : inputAxisIndex g.inNames g.outNames ornts start = .ok s)
    (h0 : 0 ≤ a) (hn : a < (g.shape.length : Int)) :
    rollimg g axis start ornts = reorderAxes g (.nats (Gen.rollimgOrder g.shape.length a s)) := by
  unfold rollimg
  rw [ha, hs]
  have : ¬ (a < 0 ∨ (g.shape.length : Int) ≤ a) := by omega
  simp only [this, if_false]
  by_cases h : a < s <;> simp [Gen.rollimgOrder, h]

/-! ### the order lists the source computes are permutations, for every ndim, axis and start -/

theorem pyInsert_perm (l : List Nat) (pos : Int) (x : Nat) : (pyInsert l pos x).Perm (x :: l) := by
  unfold pyInsert
  apply List.perm_insertIdx
  by_cases h : pos < 0
  · simp only [h, if_true]; omega
  · simp only [h, if_false]; exact Nat.min_le_right _ _

/-- `rollimg`'s order list (as regenerated from the source) is a permutation of `range(ndim)` for
    every input axis number and *every* `start` (Python's `insert` clamps) -/
theorem rollimg_order_is_permutation (n : Nat) (a s : Int) (h0 : 0 ≤ a) (hn : a < (n : Int)) :
    isPerm n (Gen.rollimgOrder n a s) = true := by
  apply isPerm_of_perm
  have hm : a.toNat ∈ List.range n := by simp; omega
  simp only [Gen.rollimgOrder]
  exact (pyInsert_perm _ _ _).trans (List.perm_cons_erase hm).symm

/-- hence `rollimg` as written never refuses a resolved axis and *is* the reordering by that list -/
theorem rollimg_as_written_succeeds (g : ImgOf α) (axis start : AxId) (ornts : List (Option Nat))
    (a s : Int) (ha : inputAxisIndex g.inNames g.outNames ornts axis = .ok a)
    (hs : inputAxisIndex g.inNames g.outNames ornts start = .ok s)
    (h0 : 0 ≤ a) (hn : a < (g.shape.length : Int)) :
    rollimg g axis start ornts = .ok (reorderAxesP g (Gen.rollimgOrder g.shape.length a s)) := by
  rw [rollimg_order_as_modelled g axis start ornts a s ha hs h0 hn]
  exact reorderAxes_nats g _ (rollimg_order_is_permutation _ a s h0 hn)

/-- forward `rollaxis`: a permutation for every axis number in range -/
theorem rollaxis_order_is_permutation (n a : Nat) (ha : a < n) :
    isPerm n (Gen.rollaxisOrder n (a : Int)) = true := by
  apply isPerm_of_perm
  have hm : a ∈ List.range n := by simpa using ha
  have h1 : ¬ ((a : Int) = -1) := by omega
  simp only [Gen.rollaxisOrder, h1, decide_false, Bool.false_eq_true, if_false, Int.toNat_natCast]
  exact (pyInsert_perm _ _ _).trans (List.perm_cons_erase hm).symm

/-- inverse `rollaxis`: a permutation for *every* integer axis (Python's `insert` clamps), for
    images with at least one axis -/
theorem rollaxis_inverse_order_is_permutation (n : Nat) (i : Int) :
    isPerm (n + 1) (Gen.rollaxisInverseOrder (n + 1) i) = true := by
  apply isPerm_of_perm
  simp only [Gen.rollaxisInverseOrder]
  refine (pyInsert_perm _ _ _).trans ?_
  simp [List.range_succ_eq_map]

theorem rollimg_source_as_modelled :
    Gen.rollimgResolve = ["axis = input_axis_index(img.coordmap, axis, fix0)",
                          "start = input_axis_index(img.coordmap, start, fix0)"] ∧
    Gen.rollimgReturn = "return img.reordered_axes(order)" := ⟨rfl, rfl⟩

theorem pyInsert_zero (l : List Nat) (x : Nat) : pyInsert l 0 x = x :: l := by
  simp [pyInsert]

/-- forward `rollaxis`: the order list of the source is `axis :: (the others in order)`, applied
    to the axes and to the reference -/
theorem rollaxis_order_as_modelled (g : ImgOf α) (axis : AxId) (a : Nat)
    (ha : rollaxisAxis g axis = .ok a) :
    rollaxis g axis false = reorderBoth g (Gen.rollaxisOrder g.shape.length (a : Int)) := by
  have h1 : ¬ ((a : Int) = -1) := by omega
  simp [rollaxis, ha, Gen.rollaxisOrder, h1, pyInsert_zero]

/-- inverse `rollaxis` with an integer axis: negative-axis correction and order list as written -/
theorem rollaxis_inverse_order_as_modelled (g : ImgOf α) (i : Int) :
    rollaxis g (.int i) true =
      reorderBoth g (Gen.rollaxisInverseOrder g.shape.length (Gen.rollaxisNegAxis g.shape.length i)) := by
  by_cases h : i < 0 <;> simp [rollaxis, Gen.rollaxisInverseOrder, Gen.rollaxisNegAxis, h]

theorem rollaxis_source_as_modelled :
    Gen.rollaxisReturns = ["return img.reordered_axes(order).reordered_reference(order)",
                           "return img.reordered_axes(order).reordered_reference(order)"] ∧
    Gen.rollaxisInverseGuards =
      ["if type(axis) != int:\n    raise ValueError('If carrying out inverse rolling, axis must be an integer')"] ∧
    Gen.rollaxisResolve =
      ["if axis not in chain(range(img.axes.ndim), img.axes.coord_names, img.reference.coord_names):\n    raise ValueError('axis must be an axis number,an axis name or a reference name')",
       "in_index = out_index = -1",
       "if type(axis) == str:\n    try:\n        in_index = img.axes.index(axis)\n    except:\n        pass\n    try:\n        out_index = img.reference.index(axis)\n    except:\n        pass\n    if in_index > 0 and out_index > 0 and (in_index != out_index):\n        raise ValueError('ambiguous choice of axis -- it exists both in as an axis name and a reference name')\n    if in_index >= 0:\n        axis = in_index\n    else:\n        axis = out_index"] :=
  ⟨rfl, rfl, rfl⟩

/-! ## `Image.__getitem__` -/

/-- data and coordinate map are indexed with the same object -/
theorem getitem_index_synchronised (l : List Idx) :
    Gen.getitemDataIndex l = Gen.getitemCoordIndex l := rfl

/-- the slice of the data (index as the source passes it to the array) carries the coordinate
    map `ArrayCoordMap(self.coordmap, self.shape)[index as the source passes it there]` -/
theorem getitem_as_modelled (g h : ImgOf α) (l : List Idx)
    (hres : getitemX g (Gen.getitemDataIndex l) = .ok (.img h)) :
    acmGetitem g.acm (numpySlicers (Gen.getitemCoordIndex l)) = .ok h.acm :=
  getitem_acm g h _ (getitemX_cases g l _ hres).2

theorem getitem_source_as_modelled :
    Gen.getitemText =
      ["self.get_fdata()", "self.coordmap", "self.shape", "coordmap = g.coordmap",
       "if coordmap.function_domain.ndim > 0:\n    return self.__class__.from_image(self, data=data, coordmap=coordmap)\nelse:\n    return data"] ∧
    Gen.acmGetitemReturn = "return _slice(self.coordmap, self.shape, *slicers)" := ⟨rfl, rfl⟩

/-! ## Ellipsis expansion and padding -/

theorem splitEll_no_ell : ∀ sl : List Slicer, Slicer.ell ∉ sl → splitEll sl = (sl, none)
  | [], _ => rfl
  | s :: r, h => by
      have hr : Slicer.ell ∉ r := fun hm => h (List.mem_cons_of_mem _ hm)
      have hs : s ≠ Slicer.ell := fun e => h (e ▸ List.mem_cons_self ..)
      cases s with
      | ell => exact absurd rfl hs
      | idx i => simp [splitEll, splitEll_no_ell r hr]
      | slc a b c => simp [splitEll, splitEll_no_ell r hr]

theorem splitEll_ell : ∀ sl : List Slicer, Slicer.ell ∈ sl →
    splitEll sl = (sl.take (sl.idxOf Slicer.ell), some (sl.drop (sl.idxOf Slicer.ell + 1)))
  | [], h => by simp at h
  | s :: r, h => by
      cases s with
      | ell => simp [splitEll]
      | idx i =>
          have hr : Slicer.ell ∈ r := by simpa using h
          simp [splitEll, splitEll_ell r hr]
      | slc a b c =>
          have hr : Slicer.ell ∈ r := by simpa using h
          simp [splitEll, splitEll_ell r hr]

/-- `acmExpand` (the index list `_slice` loops over) is the source's Ellipsis expansion followed
    by the source's padding with full slices -/
theorem acm_expand_as_modelled (n : Nat) (sl : List Slicer) :
    acmExpand n sl =
      Gen.slicePad n (if Slicer.ell ∈ sl then Gen.acmEllipsisExpand n sl else sl) := by
  by_cases h : Slicer.ell ∈ sl
  · have hi : sl.idxOf Slicer.ell < sl.length := List.idxOf_lt_length_iff.mpr h
    simp only [h, if_true, acmExpand, splitEll_ell sl h, Gen.acmEllipsisExpand, Gen.slicePad]
    have e1 : Int.toNat ((sl.idxOf Slicer.ell : Nat) : Int) = sl.idxOf Slicer.ell := by simp
    have e2 : Int.toNat (((sl.idxOf Slicer.ell : Nat) : Int) + 1) = sl.idxOf Slicer.ell + 1 := by omega
    have e3 : Int.toNat ((n : Int) - ((sl.idxOf Slicer.ell : Nat) : Int)
        - ((sl.drop (sl.idxOf Slicer.ell + 1)).length : Int))
        = n - (sl.take (sl.idxOf Slicer.ell)).length - (sl.drop (sl.idxOf Slicer.ell + 1)).length := by
      rw [List.length_take]; omega
    rw [e1, e2, e3]
    have hlen : ¬ ((sl.take (sl.idxOf Slicer.ell) ++
        List.replicate (n - (sl.take (sl.idxOf Slicer.ell)).length - (sl.drop (sl.idxOf Slicer.ell + 1)).length)
          fullSlice ++ sl.drop (sl.idxOf Slicer.ell + 1)).length < n) := by
      simp only [List.length_append, List.length_replicate]; omega
    rw [if_neg hlen]
  · simp only [h, if_false, acmExpand, splitEll_no_ell sl h, Gen.slicePad]
    by_cases hl : sl.length < n
    · simp [hl]
    · have : n - sl.length = 0 := by omega
      simp [hl, this]

/-- on every index tuple NumPy accepts for the data, the source's own Ellipsis expansion and
    padding (what the coordinate map is sliced with) is NumPy's expansion (what the data are
    sliced with): data and coordinate map keep / drop the same axes -/
theorem coordmap_expansion_is_numpy_expansion (n : Nat) (sl ex : List Slicer)
    (h : expand n sl = .ok ex) :
    Gen.slicePad n (if Slicer.ell ∈ sl then Gen.acmEllipsisExpand n sl else sl) = ex := by
  rw [← acm_expand_as_modelled]
  exact (expand_acmExpand n sl ex h).1

/-! ## `_slice`: one axis -/

/-- what NumPy hands back for `np.arange(n)[slicer]`, as the model's `AxSel` describes it -/
def pickedOf : AxSel → Gen.Picked
  | .pick i => .scalar i
  | .range s st l => .arr ((List.range l).map (fun (k : Nat) => (s : Int) + (k : Int) * st))

/-- the three branches of `_slice` on one axis give: written step (`effStep`: 0 for an integer
    index and for a length-1 slice, else the step), start, length, and "kept in the output" exactly
    for slices - what `selCols`, `selOff`, `selShape`, `keepNames` are built from -/
theorem slice_axis_as_modelled (sel : AxSel) (hne : sel.isEmpty = false) :
    Gen.sliceAxis (pickedOf sel) =
      match sel with
      | .pick i => (0, (i : Int), 1, false)
      | .range s st l => (effStep st l, (s : Int), l, true) := by
  cases sel with
  | pick i => rfl
  | range s st l =>
    have hl : l ≠ 0 := by simpa [AxSel.isEmpty] using hne
    match l, hl with
    | 1, _ => simp [pickedOf, Gen.sliceAxis, effStep]
    | (m + 2), _ =>
      have g0 : ((List.range (m + 2)).map (fun (k : Nat) => (s : Int) + (k : Int) * st)).getD 0 0 = (s : Int) := by
        simp [List.getD_eq_getElem?_getD]
      have g1 : ((List.range (m + 2)).map (fun (k : Nat) => (s : Int) + (k : Int) * st)).getD 1 0
          = (s : Int) + st := by
        simp [List.getD_eq_getElem?_getD]
      have h1 : ((m : Int) + 2 > 1) := by omega
      simp only [pickedOf, Gen.sliceAxis, g0, g1, List.length_map, List.length_range, effStep]
      have h2 : ((m : Int) + 2).toNat = m + 2 := by omega
      simp [h1, h2]

/-- the per-axis affine maps new index `j` to `step * j + start` (first row), as `selCols`
    (`effStep • column`) and `selOff` (`start • column`) use it -/
theorem slice_matrix_as_modelled (step start : Rat) :
    Gen.sliceAxisMatrix step start = [[step, start], [0, 1]] := rfl

/-- the `-slice` renaming rule of `selNames` is the source's test on the written step -/
theorem slice_names_as_modelled (s : Nat) (st : Int) (l : Nat) (ss : List AxSel) (nm : String)
    (ns : List String) :
    selNames (.range s st l :: ss) (nm :: ns) =
      (if Gen.sliceRenames (effStep st l) then nm ++ Gen.sliceSuffix else nm) :: selNames ss ns := by
  simp [selNames, Gen.sliceRenames, Gen.sliceSuffix]

theorem slice_source_as_modelled :
    Gen.sliceText =
      ["ranges = [np.arange(s) for s in shape]",
       "try:\n    start = ranges[i][0]\nexcept IndexError:\n    try:\n        start = int(ranges[i])\n    except TypeError:\n        raise ValueError('empty slice for dimension %d, coordinate %s' % (i, coordmap.function_domain.coord_names[i]))",
       "if i in keep_in_output:\n    newshape.append(l)",
       "slice_cmap = cmap_product(*cmaps)",
       "slice_cmap = shifted_range_origin(slice_cmap, np.zeros(slice_cmap.ndims[1]), coordmap.function_domain.name)",
       "innames = slice_cmap.function_domain.coord_names",
       "inmat = []",
       "function_domain = CoordinateSystem([innames[i] for i in keep_in_output], 'input-slice', coordmap.function_domain.coord_dtype)",
       "A = np.zeros((coordmap.ndims[0] + 1, len(keep_in_output) + 1))",
       "for j, i in enumerate(keep_in_output):\n    A[:, j] = slice_cmap.affine[:, i]",
       "A[:, -1] = slice_cmap.affine[:, -1]",
       "A = A.astype(function_domain.coord_dtype)",
       "slice_cmap = AffineTransform(function_domain, coordmap.function_domain, A)",
       "return ArrayCoordMap(compose(coordmap, slice_cmap), tuple(newshape))"] := rfl

/-! ## `ImageList.get_list_data` -/

/-- refusal test, negative-axis correction and result shape of `get_list_data` as written -/
theorem list_data_as_modelled (it0 : ImgOf α) (rest : List (ImgOf α)) (ax : Int) :
    let od : Int := (it0.shape.length : Int) + 1
    (Gen.listDataRefuses od ax = true → getListData (it0 :: rest) (some ax) = .error .valueError) ∧
    (Gen.listDataRefuses od ax = false → ∃ r, getListData (it0 :: rest) (some ax) = .ok r ∧
        r.shape = Gen.listDataShape it0.shape (it0 :: rest).length (Gen.listDataAxis od ax)) := by
  intro od
  constructor
  · intro h
    have : od ≤ ax ∨ ax < -od := by
      simpa [Gen.listDataRefuses, ge_iff_le] using h
    simp only [getListData]
    rw [if_pos this]
  · intro h
    have : ¬ (od ≤ ax ∨ ax < -od) := by
      simpa [Gen.listDataRefuses, ge_iff_le, not_or] using h
    simp only [getListData]
    rw [if_neg this]
    refine ⟨_, rfl, ?_⟩
    by_cases hneg : ax < 0 <;> simp [Gen.listDataShape, Gen.listDataAxis, hneg, od]

/-- `np.rollaxis(v, 0, axis + 1)`: the list axis (first in `v`) lands at position `axis` -/
theorem list_data_roll_as_modelled (axis : Int) : Gen.listDataRoll axis = (0, axis + 1) := rfl

theorem list_data_source_as_modelled :
    Gen.listDataFill =
      ["for i, im in enumerate(self.list):\n    v[i] = im.get_fdata()",
       "img_shape = self.list[0].shape", "ilen = len(self.list)",
       "tmp_shape = (ilen,) + img_shape", "v = np.empty(tmp_shape)"] ∧
    Gen.listGetitemText =
      ["if type(index) is int:\n    return self.list[index]",
       "return self.__class__(images=self.list[index])"] := ⟨rfl, rfl⟩

/-- `ImageList.from_image` on a resolved axis: roll the *input* axis `in_ax` to the front with
    the defaults of `rollimg`, one item per index of the first axis, the output axis dropped from
    an item exactly when the source's flag expression says so, by its *name* in the image -/
theorem from_image_as_modelled (g : ImgOf α) (ax : AxId) (d : Bool) (o : List (Option Nat)) (oS : OrntSrc)
    (a : Nat) (oa : Option Nat) (h : ioAxisIndices g.inNames g.outNames o ax = .ok (some a, oa)) :
    fromImage g (some ax) d o oS =
      (match rollimg g (.int (a : Int)) (.int 0) o with
       | .error e => .error e
       | .ok r =>
           mapE (fun k => listItem r k (Gen.fromImageDropout d (some a) oa)
                    (g.outNames.getD (oa.getD 0) "") oS)
             (List.range (r.shape.headD 0))) := by
  simp only [fromImage, h, Gen.fromImageDropout]
  rfl

/-! ## plumbing compared statement by statement -/

/-- `iter_axis` = `rollimg(img, axis)` then `rimg[i]` / `rimg.get_fdata()[i]` for `i` over the
    first axis (`iterAxis`, `iterAxisArr`, `iterAll`) -/
theorem iter_axis_source_as_modelled :
    Gen.iterAxisText =
      ["rimg = rollimg(img, axis)",
       "for i in range(rimg.shape[0]):\n    if asarray:\n        yield rimg.get_fdata()[i]\n    else:\n        yield rimg[i]"] := rfl

/-- `synchronized_order` reorders the axes by the target's axis names, then the reference by the
    names of the target's coordinate-map range (`syncOrder`) -/
theorem synchronized_order_source_as_modelled :
    Gen.synchronizedOrderText =
      ["target_axes = target_img.axes",
       "target_reference = target_img.coordmap.function_range",
       "if axes:\n    img = img.reordered_axes(target_axes.coord_names)",
       "if reference:\n    img = img.reordered_reference(target_reference.coord_names)",
       "return img"] ∧
    Gen.subsampleText.getLast? = some "return img.__getitem__(slice_object)" := ⟨rfl, rfl⟩

/-- `ImageList.from_image` (`fromImage`, `listItem`): `io_axis_indices`, `iter_axis` over the
    input axis, `drop_io_dim(…, fix0=False)` by the *name* of the output axis -/
theorem from_image_source_as_modelled :
    Gen.fromImageText =
      ["if axis is None:\n    raise ValueError('Must specify image axis')",
       "in_ax, out_ax = io_axis_indices(image.coordmap, axis)",
       "if in_ax is None:\n    raise AxisError(f'No corresponding input dimension for {axis}')",
       "dropout = dropout and out_ax is not None",
       "if dropout:\n    out_ax_name = image.reference.coord_names[out_ax]",
       "imlist = []",
       "for img in iter_axis(image, in_ax):\n    if dropout:\n        cmap = drop_io_dim(img.coordmap, out_ax_name, fix0=False)\n        img = Image(img.get_fdata(), cmap, img.metadata)\n    imlist.append(img)",
       "return klass(imlist)"] := rfl

/-- `as_xyz_image` (`asXyz`): reference reordered by `xyz_order`, axes by the argsort of the
    orientation's first column, refusals in the order modelled -/
theorem as_xyz_image_source_as_modelled :
    Gen.asXyzImageText =
      ["try:\n    aff = xyz_affine(img, name2xyz)\nexcept (rsp.AxesError, rsp.AffineError):\n    pass\nelse:\n    return img",
       "cmap = img.coordmap",
       "order = rsp.xyz_order(cmap.function_range, name2xyz)",
       "reo_img = img.reordered_reference(order)",
       "ornt = io_orientation(reo_img.coordmap.affine)",
       "current_in_order = ornt[:, 0]",
       "current_in_order[np.isnan(current_in_order)] = np.inf",
       "if not {0, 1, 2}.issubset(current_in_order):\n    raise rsp.AxesError('One of x, y or z outputs missing a corresponding input axis')",
       "desired_input_order = np.argsort(current_in_order)",
       "reo_img = reo_img.reordered_axes(list(desired_input_order))",
       "try:\n    aff = xyz_affine(reo_img, name2xyz)\nexcept rsp.SpaceError:\n    e = sys.exc_info()[1]\n    raise e.__class__('Could not reorder so xyz coordinates did not depend on the other axis coordinates: ' + str(e))",
       "return reo_img"] ∧
    Gen.isXyzAffableText =
      ["try:\n    xyz_affine(img, name2xyz)\nexcept rsp.SpaceError:\n    return False", "return True"] :=
  ⟨rfl, rfl⟩

/-! ## `Grid.__getitem__` -/

/-- the `(step, start)` the source reads off the points of one axis (`start + k * step`,
    `k < n`, what `np.ogrid` hands over - modelled by `GSpec.np`) are `gridStep` (0 for a single
    point) and the first point: what `gridCols` / `gridOff` are built from -/
theorem grid_axis_as_modelled (n : Nat) (start step : Rat) (hn : 0 < n) :
    Gen.gridAxis ((List.range n).map (fun (k : Nat) => start + (k : Rat) * step)) =
      (gridStep (n, start, step), start) ∧
    Gen.gridAxisMatrix step start = Gen.sliceAxisMatrix step start := by
  refine ⟨?_, rfl⟩
  match n, hn with
  | 1, _ => simp [Gen.gridAxis, gridStep]
  | (m + 2), _ =>
    have g0 : ((List.range (m + 2)).map (fun (k : Nat) => start + (k : Rat) * step)).getD 0 0 = start := by
      simp [List.getD_eq_getElem?_getD]
    have g1 : ((List.range (m + 2)).map (fun (k : Nat) => start + (k : Rat) * step)).getD 1 0
        = start + step := by
      simp [List.getD_eq_getElem?_getD]
    have h1 : ((m : Int) + 2 > 1) := by omega
    simp only [Gen.gridAxis, g0, g1, List.length_map, List.length_range, gridStep]
    simp [h1]

theorem grid_source_as_modelled :
    Gen.gridText =
      ["dtype = self.coordmap.function_domain.coord_dtype",
       "results = [a.ravel().astype(dtype) for a in np.ogrid[index]]",
       "if len(results) != len(self.coordmap.function_domain.coord_names):\n    raise ValueError('the number of slice objects must match the number of input dimensions')",
       "cmaps = []",
       "shape = [result.shape[0] for result in results]",
       "cmap = cmap_product(*cmaps)",
       "cmap = shifted_range_origin(cmap, np.zeros(cmap.ndims[1]), self.coordmap.function_domain.name)",
       "return ArrayCoordMap(compose(self.coordmap, cmap), tuple(shape))",
       "CoordinateSystem(['i%d' % i], coord_dtype=dtype)",
       "CoordinateSystem([self.coordmap.function_domain.coord_names[i]], coord_dtype=dtype)"] := rfl

/-! ## slices.py -/

/-- a list of entries as a world vector, a 3 x 2 matrix as two columns -/
def vecOf (l : List Rat) : Vec := fun r => l.getD r 0
def colOfM (M : List (List Rat)) (k : Nat) : Vec := fun r => (M.getD r []).getD k 0

theorem tick_as_modelled (lo hi : Rat) (no : Nat) (h : no ≠ 1) :
    tick lo hi no = .ok (Gen.xsliceTickA lo hi no) ∧
    Gen.xsliceTickB lo hi no = Gen.xsliceTickA lo hi no ∧
    Gen.ysliceTickA lo hi no = Gen.xsliceTickA lo hi no ∧
    Gen.ysliceTickB lo hi no = Gen.xsliceTickA lo hi no ∧
    Gen.zsliceTickA lo hi no = Gen.xsliceTickA lo hi no ∧
    Gen.zsliceTickB lo hi no = Gen.xsliceTickA lo hi no := by
  refine ⟨?_, rfl, rfl, rfl, rfl, rfl⟩
  simp only [tick, h, if_false, Gen.xsliceTickA]
  congr 2
  push_cast
  ring

/-- `xslice` / `yslice` / `zslice` as written (origin, column vectors, tick expressions, axis names
    regenerated from slices.py) are `planeSlice 0 / 1 / 2`, for all arguments -/
theorem plane_slices_as_modelled (fixed alo ahi blo bhi : Rat) (ano bno : Nat) (world : List String)
    (ha : ano ≠ 1) (hb : bno ≠ 1) :
    planeSlice 0 fixed alo ahi ano blo bhi bno world = .ok
      { shape := [ano, bno], inNames := Gen.xsliceDomain, outNames := world
        cols := [colOfM (Gen.xsliceCols (Gen.xsliceTickA alo ahi ano) (Gen.xsliceTickB blo bhi bno)) 0,
                 colOfM (Gen.xsliceCols (Gen.xsliceTickA alo ahi ano) (Gen.xsliceTickB blo bhi bno)) 1]
        off := vecOf (Gen.xsliceOrigin fixed alo ahi blo bhi), data := fun _ => () } ∧
    planeSlice 1 fixed alo ahi ano blo bhi bno world = .ok
      { shape := [ano, bno], inNames := Gen.ysliceDomain, outNames := world
        cols := [colOfM (Gen.ysliceCols (Gen.ysliceTickA alo ahi ano) (Gen.ysliceTickB blo bhi bno)) 0,
                 colOfM (Gen.ysliceCols (Gen.ysliceTickA alo ahi ano) (Gen.ysliceTickB blo bhi bno)) 1]
        off := vecOf (Gen.ysliceOrigin fixed alo ahi blo bhi), data := fun _ => () } ∧
    planeSlice 2 fixed alo ahi ano blo bhi bno world = .ok
      { shape := [ano, bno], inNames := Gen.zsliceDomain, outNames := world
        cols := [colOfM (Gen.zsliceCols (Gen.zsliceTickA alo ahi ano) (Gen.zsliceTickB blo bhi bno)) 0,
                 colOfM (Gen.zsliceCols (Gen.zsliceTickA alo ahi ano) (Gen.zsliceTickB blo bhi bno)) 1]
        off := vecOf (Gen.zsliceOrigin fixed alo ahi blo bhi), data := fun _ => () } := by
  have ta := (tick_as_modelled alo ahi ano ha).1
  have tb := (tick_as_modelled blo bhi bno hb).1
  refine ⟨?_, ?_, ?_⟩ <;>
  · simp only [planeSlice, ta, tb]
    congr 2
    · congr 1
      · funext r
        rcases r with _ | _ | _ | r <;>
          simp [colOfM, Gen.xsliceCols, Gen.ysliceCols, Gen.zsliceCols, Gen.xsliceTickB, Gen.ysliceTickA,
            Gen.ysliceTickB, Gen.zsliceTickA, Gen.zsliceTickB, Gen.xsliceTickA]
      · congr 1
        funext r
        rcases r with _ | _ | _ | r <;>
          simp [colOfM, Gen.xsliceCols, Gen.ysliceCols, Gen.zsliceCols, Gen.xsliceTickB, Gen.ysliceTickA,
            Gen.ysliceTickB, Gen.zsliceTickA, Gen.zsliceTickB, Gen.xsliceTickA]
    · funext r
      rcases r with _ | _ | _ | r <;>
        simp [vecOf, Gen.xsliceOrigin, Gen.ysliceOrigin, Gen.zsliceOrigin]

theorem plane_slices_source_as_modelled :
    Gen.xsliceText = ["get_world_cs(world)", "from_matvec(colvectors, origin)",
                      "return AffineTransform(affine_domain, affine_range, T)"] ∧
    Gen.ysliceText = Gen.xsliceText ∧ Gen.zsliceText = Gen.xsliceText ∧
    Gen.boundingBoxText = ["e = ArrayCoordMap.from_shape(coordmap, shape)",
                           "return tuple(((r.min(), r.max()) for r in e.transposed_values))"] :=
  ⟨rfl, rfl, rfl, rfl⟩

/-! ## `Image.__init__`, what `ArrayCoordMap.__getitem__` accepts, `from_shape` -/

/-- the axis-count check of `Image(data, coordmap)` (a `ValueError`) is the test `listItem` makes
    on the coordinate map left after `drop_io_dim` -/
theorem image_init_check_as_modelled (r : ImgOf α) (k : Nat) (name : String) (oS : OrntSrc)
    (h h' : ImgOf α) (hg : getitem r [.idx (k : Int)] = .ok (.img h))
    (hd : dropIoDim h (.name name) (oS.get h false) = .ok h') :
    listItem r k true name oS =
      (if Gen.imageInitRefuses h'.inNames.length h'.shape.length then .error .valueError else .ok h') := by
  simp only [listItem, hg, hd, if_true, Gen.imageInitRefuses]
  by_cases e : h'.inNames.length = h'.shape.length <;> simp [e]

theorem acm_validation_source_as_modelled :
    Gen.acmValidateText =
      ["if type(slicers) != type(()):\n    slicers = (slicers,)",
       "have_ellipsis = False",
       "for i in slicers:\n    if isinstance(i, np.ndarray):\n        raise ValueError('Sorry, we do not support ndarrays (fancy indexing)')\n    if i == Ellipsis:\n        if have_ellipsis:\n            raise ValueError('only one Ellipsis (...) allowed in slice')\n        have_ellipsis = True\n        continue\n    try:\n        int(i)\n    except TypeError:\n        if hasattr(i, 'start'):\n            continue\n        raise ValueError('Expecting int, slice or Ellipsis')"] ∧
    Gen.fromShapeText =
      ["slices = tuple((slice(0, s, 1) for s in shape))", "return Grid(coordmap)[slices]"] := ⟨rfl, rfl⟩

/-! ## coordinate_map.py: axis identifiers -/

/-- an integer axis identifier: negative numbers count from the end of the *input* axes, in
    `input_axis_index` and in `io_axis_indices`, as `inputAxisIndex` / `ioAxisIndices` have it -/
theorem axis_index_int_as_modelled (inN outN : List String) (o : List (Option Nat)) (i : Int) :
    inputAxisIndex inN outN o (.int i) = .ok (Gen.inputAxisIndexInt inN.length i) ∧
    ioAxisIndices inN outN o (.int i) =
      (if 0 ≤ Gen.ioAxisIndicesInt inN.length i ∧ Gen.ioAxisIndicesInt inN.length i < (inN.length : Int) then
         .ok (some (Gen.ioAxisIndicesInt inN.length i).toNat,
              o.getD (Gen.ioAxisIndicesInt inN.length i).toNat none)
       else .error .keyError) := by
  constructor
  · by_cases h : i < 0 <;> simp [inputAxisIndex, Gen.inputAxisIndexInt, h]
  · by_cases h : 0 ≤ i <;> simp [ioAxisIndices, Gen.ioAxisIndicesInt, h]

/-- name resolution (`input_axis_index`, `io_axis_indices`, `axmap`) and `drop_io_dim`, statement
    by statement: the text `inputAxisIndex`, `ioAxisIndices`, `out2in`, `dropIoDim` were written from -/
theorem axis_resolution_source_as_modelled :
    Gen.inputAxisIndexText =
      ["in_names = list(coordmap.function_domain.coord_names)",
       "out_names = list(coordmap.function_range.coord_names)",
       "if isinstance(axis_id, int):\n    if axis_id < 0:\n        axis_id = len(in_names) + axis_id\n    return axis_id",
       "in_in = axis_id in in_names",
       "in_out = axis_id in out_names",
       "if not in_in and (not in_out):\n    raise AxisError(f'Name \"{axis_id}\" not in input or output names')",
       "if in_in:\n    in_no = in_names.index(axis_id)\n    if not in_out:\n        return in_no\n    out2in = axmap(coordmap, 'out2in', fix0=fix0)\n    if not out2in[axis_id] == in_no:\n        raise AxisError(f'Name \"{axis_id}\" present in input and output but they do not appear to match')\n    return in_no",
       "in_no = axmap(coordmap, 'out2in', fix0=fix0)[axis_id]",
       "if in_no is None:\n    raise AxisError(f'Name \"{axis_id}\" present in output but this output axis does not have the best match with any input axis')",
       "return in_no"] ∧
    Gen.ioAxisIndicesText =
      ["in_dims = list(coordmap.function_domain.coord_names)",
       "out_dims = list(coordmap.function_range.coord_names)",
       "in_dim, out_dim, is_str = (None, None, False)",
       "if isinstance(axis_id, int):\n    in_dim = axis_id if axis_id >= 0 else len(in_dims) + axis_id\nelse:\n    if axis_id in in_dims:\n        in_dim = in_dims.index(axis_id)\n    elif axis_id in out_dims:\n        out_dim = out_dims.index(axis_id)\n    else:\n        raise AxisError(f'No input or output dimension with name ({axis_id})')\n    is_str = True",
       "if out_dim is None:\n    out_dim = axmap(coordmap, 'in2out', fix0=fix0)[in_dim]\n    if is_str and axis_id in out_dims and (out_dim != out_dims.index(axis_id)):\n        raise AxisError('Input and output axes with the same name but the axes do not appear to correspond')\nelif in_dim is None:\n    in_dim = axmap(coordmap, 'out2in', fix0=fix0)[out_dim]",
       "return (in_dim, out_dim)"] ∧
    Gen.axmapText =
      ["in2out = direction in ('in2out', 'both')",
       "out2in = direction in ('out2in', 'both')",
       "if True not in (in2out, out2in):\n    raise ValueError('Direction must be one of \"in2out\", \"out2in\", \"both\"')",
       "affine = coordmap.affine",
       "affine = _fix0(affine) if fix0 else affine",
       "ornts = io_orientation(affine)",
       "ornts = [None if np.isnan(R) else int(R) for R in ornts[:, 0]]",
       "if in2out:\n    in2out_map = {}\n    for i, name in enumerate(coordmap.function_domain.coord_names):\n        in2out_map[i] = ornts[i]\n        in2out_map[name] = ornts[i]\n    if not out2in:\n        return in2out_map",
       "if out2in:\n    out2in_map = {}\n    for i, name in enumerate(coordmap.function_range.coord_names):\n        in_i = ornts.index(i) if i in ornts else None\n        out2in_map[i] = in_i\n        out2in_map[name] = in_i\n    if not in2out:\n        return out2in_map",
       "return (in2out_map, out2in_map)"] ∧
    Gen.dropIoDimText =
      ["aff = cm.affine.copy()",
       "in_dim, out_dim = io_axis_indices(cm, axis_id, fix0)",
       "if None not in (in_dim, out_dim):\n    if not orth_axes(in_dim, out_dim, aff, allow_zero=fix0):\n        raise AxisError('Input and output dimensions not orthogonal to rest of affine')",
       "M, N = aff.shape",
       "rows = list(range(M))",
       "cols = list(range(N))",
       "in_dims = list(cm.function_domain.coord_names)",
       "out_dims = list(cm.function_range.coord_names)",
       "if in_dim is not None:\n    in_dims.pop(in_dim)\n    cols.pop(in_dim)",
       "if out_dim is not None:\n    out_dims.pop(out_dim)\n    rows.pop(out_dim)",
       "aff = aff[rows]",
       "aff = aff[:, cols]",
       "return AffineTransform.from_params(in_dims, out_dims, aff)"] :=
  ⟨rfl, rfl, rfl, rfl⟩

/-- argument order and defaults the calls above rely on: `iter_axis` calls `rollimg(img, axis)`,
    i.e. `start = 0`, `fix0 = True` (`iterAxis` rolls to `.int 0` with the `_fix0` orientation);
    `from_image` keeps `data` / `coordmap` / copies `metadata` when not given; `dropout` defaults to
    `True`, `asarray` / `inverse` to `False`, both flags of `synchronized_order` to `True` -/
theorem signatures_as_modelled :
    Gen.signatures =
      [("rollimg", "img, axis, start=0, fix0=True"),
       ("rollaxis", "img, axis, inverse=False"),
       ("iter_axis", "img, axis, asarray=False"),
       ("synchronized_order", "img, target_img, axes=True, reference=True"),
       ("subsample", "img, slice_object"),
       ("Image.reordered_axes", "self, order=None"),
       ("Image.reordered_reference", "self, order=None"),
       ("Image.from_image", "klass, img, data=None, coordmap=None, metadata=None"),
       ("ImageList.from_image", "klass, image, axis=None, dropout=True"),
       ("ImageList.get_list_data", "self, axis=None"),
       ("as_xyz_image", "img, name2xyz=None"),
       ("xyz_affine", "img, name2xyz=None"),
       ("is_xyz_affable", "img, name2xyz=None"),
       ("_slice", "coordmap, shape, *slices"),
       ("input_axis_index", "coordmap, axis_id, fix0=True"),
       ("io_axis_indices", "coordmap, axis_id, fix0=True"),
       ("axmap", "coordmap, direction='in2out', fix0=True"),
       ("drop_io_dim", "cm, axis_id, fix0=True")] := rfl

/-- `iter_axis(img, axis)` element `k`, with the defaults above, is `rollimg(img, axis, 0)[k]` -/
theorem iter_axis_as_modelled (g : ImgOf α) (axis : AxId) (k : Nat) (ornts : List (Option Nat)) :
    iterAxis g axis k ornts =
      (match rollimg g axis (.int 0) ornts with
       | .error e => .error e
       | .ok h => getitem h [.idx k]) := rfl

/-! ## frame condition on the text -/

/-- Syntactic frame condition ("the original image is left unchanged", "caller-supplied order lists,
    index tuples and name dictionaries are not modified"), on the text of every manipulation function
    of the anchored files and of the `coordinate_map.py` functions they call (`reordered_domain` /
    `_range`, `renamed_domain` / `_range`, `compose`, `product`, `shifted_range_origin`,
    `drop_io_dim`, `_fix0`, `orth_axes`, axis resolution): no statement assigns to an element or
    attribute of, deletes from, augments in place, or calls a mutating method (`append`, `insert`,
    `remove`, `pop`, `sort`, `update`, `fill`, …) on a parameter (`self`, `img`, `order`,
    `slice_object`, `slicers`, `newnames`, `affine`, …) or on a name that may share memory with one:
    bound to something reached from a parameter through attributes, subscripts, method calls (other
    than `copy` / `astype` / …, which return fresh objects) or NumPy's view-making functions
    (`np.asarray`, `np.transpose`, …).  A name stops counting only after an unconditional top-level
    rebinding to a fresh value (`newnames = dict(newnames)`); control flow is not followed otherwise.
    The four statements listed are the exceptions, none of which touches an image:
    * `axis += …` (twice): rebinds an integer parameter (Python `int`s and NumPy scalars are
      immutable; it would write in place only through a 0-d `ndarray` passed as `axis`, outside the
      property's axis identifiers);
    * `ImageList.__iter__` stores its iterator on the list object (iteration state, not image data;
      it makes nested iteration over one `ImageList` non-reentrant);
    * `_evaluate` reshapes `_range`, the fresh array returned by `self.coordmap(...)` (the scan
      treats the result of calling an attribute of a parameter as possibly aliasing it).
    What this does not cover: writes inside NumPy / nibabel and inside functions not scanned, and
    aliasing through results of other free functions; the oracle's byte digests cover those on the
    generated cases. -/
theorem manipulations_write_through_no_parameter :
    Gen.parameterWrites =
      [("rollaxis", "axis += img.axes.ndim"),
       ("ImageList.get_list_data", "axis += out_dim"),
       ("ImageList.__iter__", "self._iter = iter(self.list)"),
       ("ArrayCoordMap._evaluate", "_range.shape = (_range.shape[0],) + tmp_shape[1:]")] ∧
    Gen.scannedFunctions.length = 46 ∧
    (∀ f ∈ ["Image.reordered_axes", "Image.reordered_reference", "Image.renamed_axes",
            "Image.renamed_reference", "Image.__getitem__", "Image.from_image", "rollimg", "rollaxis",
            "iter_axis", "synchronized_order", "subsample", "ImageList.from_image",
            "ImageList.__getitem__", "ImageList.get_list_data", "as_xyz_image", "xyz_affine",
            "ArrayCoordMap.__getitem__", "_slice", "input_axis_index", "io_axis_indices", "axmap",
            "drop_io_dim", "_fix0", "orth_axes", "reordered_domain", "reordered_range", "renamed_domain",
            "renamed_range", "shifted_range_origin", "compose", "product",
            "AffineTransform.reordered_domain", "AffineTransform.renamed_range"],
       f ∈ Gen.scannedFunctions) := by
  refine ⟨rfl, rfl, ?_⟩
  decide

/-- the only statements that write through `self` are those of the three methods that work in
    place by contract (none of them is an operation of the property) -/
theorem inplace_methods_as_listed :
    Gen.inplaceWrites =
      [("Image.__setitem__", "self._data[index] = value"),
       ("Image._setheader", "self.metadata['header'] = header"),
       ("ImageList.__setitem__", "self.list[index] = value")] := rfl

/-! ## the regenerated terms on concrete arguments (sanity anchors, and the hypotheses of the
    theorems above are satisfiable) -/

example : Gen.rollimgOrder 3 2 0 = [2, 0, 1] := by decide
example : Gen.rollimgOrder 4 0 3 = [1, 2, 0, 3] := by decide          -- `start -= 1` when axis < start
example : Gen.rollimgOrder 4 1 4 = [0, 2, 3, 1] := by decide          -- start = ndim: to the end
example : Gen.rollimgOrder 3 1 1 = [0, 1, 2] := by decide
example : Gen.rollaxisOrder 3 2 = [2, 0, 1] := by decide
example : Gen.rollaxisInverseOrder 3 (Gen.rollaxisNegAxis 3 (-1)) = [1, 2, 0] := by decide
example : Gen.rollaxisInverseOrder 3 7 = [1, 2, 0] := by decide       -- `insert` clamps
example : Gen.reorderedAxesDefault 3 = [2, 1, 0] := by decide
example : Gen.acmEllipsisExpand 4 [.idx 1, .ell, .idx 0] = [.idx 1, fullSlice, fullSlice, .idx 0] := by decide
example : Gen.acmEllipsisExpand 2 [.idx 1, .ell, .idx 0, .idx 0] = [.idx 1, .idx 0, .idx 0] := by decide
example : Gen.slicePad 3 [.idx 1] = [.idx 1, fullSlice, fullSlice] := by decide
example : Gen.sliceAxis (.arr [2, 4, 6]) = (2, 2, 3, true) := by decide
example : Gen.sliceAxis (.arr [5, 3, 1]) = (-2, 5, 3, true) := by decide
example : Gen.sliceAxis (.arr [4]) = (0, 4, 1, true) := by decide
example : Gen.sliceAxis (.scalar 4) = (0, 4, 1, false) := by decide
example : Gen.sliceRenames 2 = true ∧ Gen.sliceRenames 1 = false ∧ Gen.sliceRenames (-2) = false := by decide
example : Gen.listDataRefuses 4 4 = true ∧ Gen.listDataRefuses 4 (-5) = true ∧
    Gen.listDataRefuses 4 (-4) = false ∧ Gen.listDataRefuses 4 3 = false := by decide
example : Gen.listDataShape [2, 3, 4] 5 (Gen.listDataAxis 4 (-1)) = [2, 3, 4, 5] := by decide
example : Gen.listDataShape [2, 3, 4] 5 (Gen.listDataAxis 4 1) = [2, 5, 3, 4] := by decide
example : Gen.inputAxisIndexInt 3 (-1) = 2 ∧ Gen.ioAxisIndicesInt 3 (-3) = 0 := by decide
example : Gen.fromImageDropout true (some 0) none = false ∧ Gen.fromImageDropout true (some 0) (some 2) = true := by
  decide

end NipyVerif.C02
