/-
C12 (part U) — `threshold_bifurcations` builds the component tree of the superlevel sets.

The sweep (`bifSweep rows order`: `llabel`, `parent`, `root`, `q` exactly as the loop of
`Field.threshold_bifurcations` updates them, saddle bookkeeping `root[root == j] = q` included)
is a union-find over the vertices processed so far.  All theorems hold for every undirected
neighbour table `rows`, every duplicate-free order (so for every way `argsort` breaks ties) and,
where a level is involved, every valid descending order.

`Conn rows S u v`: `u` and `v` are joined by a path inside the vertex set `S`.
`labOf st v`: the region index vertex `v` carries.  `truncParent parent k`: the hierarchy with the
links into regions `≥ k` dropped.
-/
import NipyVerif.Lemmas.C12R

namespace NipyVerif.C12

/-! ## The sweep as a union-find -/

/-- **Union-find invariant.**  After the sweep has processed the vertices `pre` (any prefix of the
    order — the vertices with value `≥ t` for a descending order), two processed vertices have the
    same `root` iff they are connected in the subgraph induced by the processed vertices. -/
theorem bif_same_root_iff_connected (rows : Nat → List Nat) (hs : SymmRows rows) (pre : List Nat)
    (hnd : pre.Nodup) (u v : Nat) (hu : u ∈ pre) (hv : v ∈ pre) :
    (bifSweep rows pre).root (labOf (bifSweep rows pre) u) =
        (bifSweep rows pre).root (labOf (bifSweep rows pre) v) ↔
      Conn rows (· ∈ pre) u v :=
  (bifInv_sweep hs pre hnd).conn u hu v hv

/-- Labels are region indices: processed vertices carry a label in `0..q-1`, the others `-1`, and
    every region `0..q-1` is the label of at least one vertex (no empty region). -/
theorem bif_labels_are_regions (rows : Nat → List Nat) (hs : SymmRows rows) (pre : List Nat)
    (hnd : pre.Nodup) :
    (∀ v ∈ pre, 0 ≤ (bifSweep rows pre).llabel v ∧ labOf (bifSweep rows pre) v < (bifSweep rows pre).q) ∧
      (∀ v, v ∉ pre → (bifSweep rows pre).llabel v = -1) ∧
      ∀ c < (bifSweep rows pre).q, ∃ v ∈ pre, (bifSweep rows pre).llabel v = (c : Int) :=
  let inv := bifInv_sweep hs pre hnd
  ⟨inv.lab, inv.unl, inv.occ⟩

/-- **`parent` is a forest** on the regions `0..q-1`: a parent is the region itself (a root of the
    hierarchy) or a *later* region, so parent chains strictly increase and cannot cycle; `q` parent
    steps always end in a root of the hierarchy, and that root is `root c` — the table the sweep
    maintains by `root[root == j] = q` is the top-ancestor map of `parent`. -/
theorem bif_parent_is_forest (rows : Nat → List Nat) (hs : SymmRows rows) (pre : List Nat)
    (hnd : pre.Nodup) (c : Nat) (hc : c < (bifSweep rows pre).q) :
    let st := bifSweep rows pre
    (st.parent c = c ∨ (c < st.parent c ∧ st.parent c < st.q)) ∧
      st.parent (st.parent^[st.q] c) = st.parent^[st.q] c ∧
      st.root c = st.parent^[st.q] c := by
  intro st
  have inv := bifInv_sweep hs pre hnd
  exact ⟨inv.par c hc, parent_iterate_fixed inv c, root_eq_top inv c⟩

/-- **When a region is created.**  Processing vertex `i` after `pre` opens a new region exactly when
    no neighbour of `i` has been processed (a local maximum with respect to the processed set) or
    two processed neighbours lie in different components (a saddle joining ≥ 2 roots); otherwise
    (a regular point) `q` is unchanged and `i` receives the root of a processed neighbour. -/
theorem bif_new_region_iff (rows : Nat → List Nat) (hs : SymmRows rows) (pre : List Nat) (i : Nat)
    (hnd : (pre ++ [i]).Nodup) :
    let st := bifSweep rows pre
    let st' := bifSweep rows (pre ++ [i])
    (st'.q = st.q + 1 ↔
      (∀ a ∈ rows i, a ∉ pre) ∨
        ∃ a b, a ∈ rows i ∧ a ∈ pre ∧ b ∈ rows i ∧ b ∈ pre ∧ ¬ Conn rows (· ∈ pre) a b) ∧
    (st'.q ≠ st.q + 1 → st'.q = st.q ∧
      ∃ a, a ∈ rows i ∧ a ∈ pre ∧ st'.llabel i = (st.root (labOf st a) : Int)) := by
  intro st st'
  have hpre : pre.Nodup := (List.nodup_append.1 hnd).1
  have inv := bifInv_sweep hs pre hpre
  have : st' = bifStep rows st i := by
    show bifSweep rows (pre ++ [i]) = _
    rw [bifSweep_append]; rfl
  rw [this]
  exact new_region_iff inv i

/-- **Earlier hierarchies are cuts of the final one.**  Sweeping on (`suf`) never relabels a vertex,
    only appends regions, and only gives parents — among the appended regions — to regions that had
    none: the hierarchy after `pre` is the final hierarchy with the links into regions born later
    dropped. -/
theorem bif_hierarchy_is_cut_of_final (rows : Nat → List Nat) (hs : SymmRows rows) (pre suf : List Nat)
    (hnd : (pre ++ suf).Nodup) :
    let stp := bifSweep rows pre
    let fin := bifSweep rows (pre ++ suf)
    (∀ v ∈ pre, fin.llabel v = stp.llabel v) ∧ stp.q ≤ fin.q ∧
      ∀ c, stp.parent c = truncParent fin.parent stp.q c := by
  intro stp fin
  have hpre : pre.Nodup := (List.nodup_append.1 hnd).1
  have inv := bifInv_sweep hs pre hpre
  have invf : BifInv rows (pre ++ suf) fin := bifInv_sweep hs (pre ++ suf) hnd
  have hfin : fin = suf.foldl (bifStep rows) stp := bifSweep_append rows pre suf
  obtain ⟨hq, hpar⟩ := sweep_continue hs suf pre stp inv hnd
  refine ⟨fun v hv => ?_, by rw [hfin]; exact hq, fun c => ?_⟩
  · rw [hfin]
    apply foldl_llabel_other
    intro hvs
    exact (List.nodup_append.1 hnd).2.2 v hv v hvs rfl
  · by_cases hc : c < stp.q
    · rw [hfin]; exact hpar c hc
    · have hcq : stp.q ≤ c := Nat.le_of_not_lt hc
      rw [(inv.out c hcq).2]
      unfold truncParent
      split
      · rename_i hlt
        by_cases hcf : c < fin.q
        · rcases invf.par c hcf with h | ⟨h, _⟩
          · exact h.symm
          · omega
        · exact ((invf.out c (Nat.le_of_not_lt hcf)).2).symm
      · rfl

/-- **The trees of the hierarchy are the components of the superlevel sets.**  For a valid
    descending order (`argsort(-field)`, ties in any order) and EVERY level `t`: there is a cut index
    `k` (the number of regions born at levels `≥ t`) such that two vertices of the superlevel set
    `{val ≥ t}` are connected inside it iff their regions have the same top ancestor in the final
    hierarchy cut at `k`.  (`cutIndex`: the value of `q` when the sweep has processed `{val ≥ t}`;
    the driver prints it for every level — `bifk` lines — and the harness recomputes it from the
    values at the returned `idx`.) -/
theorem bif_trees_are_superlevel_components (rows : Nat → List Nat) (hs : SymmRows rows) (n : Nat)
    (val : Nat → Rat) (order : List Nat) (h : validDescOrder n val order = true) (t : Rat) :
    let fin := bifSweep rows order
    let k := cutIndex rows val order t
    k ≤ fin.q ∧ ∀ u < n, ∀ v < n, t ≤ val u → t ≤ val v →
      (Conn rows (fun x => x < n ∧ t ≤ val x) u v ↔
        (truncParent fin.parent k)^[k] (labOf fin u) = (truncParent fin.parent k)^[k] (labOf fin v)) := by
  intro fin k
  obtain ⟨hnd, hmem⟩ := validDescOrder_perm h
  obtain ⟨_, _, hpw⟩ := validDescOrder_unfold h
  obtain ⟨hpre, hsuf⟩ := split_at_level val t order hpw
  obtain ⟨pre, hpreEq⟩ : ∃ pre, pre = order.takeWhile (fun v => decide (t ≤ val v)) := ⟨_, rfl⟩
  obtain ⟨suf, hsufEq⟩ : ∃ suf, suf = order.dropWhile (fun v => decide (t ≤ val v)) := ⟨_, rfl⟩
  have he : order = pre ++ suf := by rw [hpreEq, hsufEq, List.takeWhile_append_dropWhile]
  have hk : k = (bifSweep rows pre).q := by rw [hpreEq]; rfl
  rw [← hpreEq] at hpre
  rw [← hsufEq] at hsuf
  have hnd' : (pre ++ suf).Nodup := he ▸ hnd
  obtain ⟨hlab, hq, hpar⟩ := bif_hierarchy_is_cut_of_final rows hs pre suf hnd'
  have hfin : fin = bifSweep rows (pre ++ suf) := by rw [← he]
  rw [← hfin] at hlab hq hpar
  have hS : (fun x => x ∈ pre) = (fun x => x < n ∧ t ≤ val x) := by
    funext x
    apply propext
    constructor
    · intro hx
      exact ⟨(hmem x).1 (by rw [he]; exact List.mem_append_left _ hx), hpre x hx⟩
    · rintro ⟨hxn, hxt⟩
      have : x ∈ pre ++ suf := he ▸ (hmem x).2 hxn
      rcases List.mem_append.1 this with h1 | h1
      · exact h1
      · exact absurd (hsuf x h1) (not_lt.2 hxt)
  have hpreNd : pre.Nodup := (List.nodup_append.1 hnd').1
  have inv := bifInv_sweep hs pre hpreNd
  rw [hk]
  refine ⟨hq, fun u hu v hv hut hvt => ?_⟩
  have hup : u ∈ pre := (congrFun hS u).mpr ⟨hu, hut⟩
  have hvp : v ∈ pre := (congrFun hS v).mpr ⟨hv, hvt⟩
  have hfun : truncParent fin.parent (bifSweep rows pre).q = (bifSweep rows pre).parent :=
    funext (fun c => (hpar c).symm)
  have hlu : labOf fin u = labOf (bifSweep rows pre) u := by unfold labOf; rw [hlab u hup]
  have hlv : labOf fin v = labOf (bifSweep rows pre) v := by unfold labOf; rw [hlab v hvp]
  rw [← hS, hfun, hlu, hlv, ← root_eq_top inv, ← root_eq_top inv]
  exact (inv.conn u hup v hvp).symm

/-- **Ancestry is inclusion.**  For regions `c`, `c'` of the final hierarchy: `c` is an ancestor of
    (or equal to) `c'` iff every vertex lying in or below `c'` lies in or below `c`; and two regions
    neither of which is an ancestor of the other share no vertex. -/
theorem bif_ancestor_iff_inclusion (rows : Nat → List Nat) (hs : SymmRows rows) (order : List Nat)
    (hnd : order.Nodup) (c c' : Nat) (hc' : c' < (bifSweep rows order).q) :
    let st := bifSweep rows order
    ((∃ k, st.parent^[k] c' = c) ↔ ∀ v ∈ order, Below st c' v → Below st c v) ∧
      ((¬ ∃ k, st.parent^[k] c' = c) → (¬ ∃ k, st.parent^[k] c = c') →
        ∀ v, ¬ (Below st c v ∧ Below st c' v)) := by
  intro st
  have inv := bifInv_sweep hs order hnd
  refine ⟨⟨?_, ?_⟩, ?_⟩
  · rintro ⟨k, hk⟩ v _ ⟨j, hj⟩
    exact ⟨k + j, by rw [Function.iterate_add_apply, hj, hk]⟩
  · intro hall
    obtain ⟨v, hv, hl⟩ := inv.occ c' hc'
    have hlab : labOf st v = c' := labOf_of_llabel hl
    obtain ⟨k, hk⟩ := hall v hv ⟨0, hlab⟩
    refine ⟨k, ?_⟩
    rwa [hlab] at hk
  · rintro h1 h2 v ⟨⟨k1, hk1⟩, ⟨k2, hk2⟩⟩
    rcases Nat.le_total k1 k2 with hle | hle
    · apply h2
      refine ⟨k2 - k1, ?_⟩
      rw [← hk1, ← Function.iterate_add_apply, Nat.sub_add_cancel hle, hk2]
    · apply h1
      refine ⟨k1 - k2, ?_⟩
      rw [← hk2, ← Function.iterate_add_apply, Nat.sub_add_cancel hle, hk1]

/-! ## `threshold_bifurcations` itself: graph, threshold, sub-field renumbering included -/

/-- **Component tree of the superlevel sets**, for the function as called: on a symmetric graph, for
    every valid tie order and every level `t ≥ th`, there is a cut index `k` such that two vertices
    of `{field ≥ t}` are connected inside that set (in the ORIGINAL graph, original numbering) iff
    the regions their `label`s name have the same top ancestor in the returned `parent` array cut at
    `k`.  The thresholding sub-field and its renumbering are part of the statement's model. -/
theorem bifurcations_hierarchy_is_component_tree (g : Graph) (hv : g.Valid) (hsym : g.Symm)
    (col : List Rat) (th : Rat) (order idx par : List Nat) (label : List Int)
    (h : bifurcations g col th order = some (idx, par, label)) (t : Rat) (ht : th ≤ t) :
    ∃ k ≤ par.length,
      ((subgraph g (fun v => decide (th ≤ at_ col v))).V ≠ 0 →
        k = cutIndex (subRows (subgraph g (fun v => decide (th ≤ at_ col v))))
          (at_ (subcol g.V (fun v => decide (th ≤ at_ col v)) col)) order t) ∧
      ∀ u < g.V, ∀ v < g.V, t ≤ at_ col u → t ≤ at_ col v →
      (Conn (graphRows g) (fun x => x < g.V ∧ t ≤ at_ col x) u v ↔
        (truncParent (fun c => par.getD c c) k)^[k] (label.getD u 0).toNat =
          (truncParent (fun c => par.getD c c) k)^[k] (label.getD v 0).toNat) := by
  set valid := fun v => decide (th ≤ at_ col v) with hvalid
  set sg := subgraph g valid with hsg
  have hval : ∀ x, t ≤ at_ col x → valid x = true := fun x hx => by
    simp only [hvalid, decide_eq_true_eq]; exact le_trans ht hx
  by_cases hne : sg.V = 0
  · refine ⟨0, Nat.zero_le _, fun h' => absurd hne h', fun u hu _ _ hut _ => ?_⟩
    have := renumb_lt valid hu (hval u hut)
    have h0 : renumb valid g.V = 0 := hne
    omega
  · obtain ⟨hord, hpar, hlabel, _⟩ := bifurcations_unfold h hne
    change validDescOrder sg.V (at_ (subcol g.V valid col)) order = true at hord
    change par = (List.range (bifSweep (subRows sg) order).q).map (bifSweep (subRows sg) order).parent at hpar
    change label = (List.range g.V).map
      (fun v => if valid v then (bifSweep (subRows sg) order).llabel (renumb valid v) else -1) at hlabel
    have hsr : SymmRows (subRows sg) := subRows_symm sg (subgraph_symm g hv hsym valid)
    obtain ⟨hk, hmain⟩ := bif_trees_are_superlevel_components (subRows sg) hsr sg.V
      (at_ (subcol g.V valid col)) order hord t
    obtain ⟨k, hkEq⟩ : ∃ k, k = cutIndex (subRows sg) (at_ (subcol g.V valid col)) order t := ⟨_, rfl⟩
    rw [← hkEq] at hk hmain
    obtain ⟨hnd, _⟩ := validDescOrder_perm hord
    have inv := bifInv_sweep hsr order hnd
    refine ⟨k, by rw [hpar]; simpa using hk, fun _ => hkEq, fun u hu v hv' hut hvt => ?_⟩
    have hvu := hval u hut
    have hvv := hval v hvt
    have hru : renumb valid u < sg.V := renumb_lt valid hu hvu
    have hrv : renumb valid v < sg.V := renumb_lt valid hv' hvv
    have hm := hmain (renumb valid u) hru (renumb valid v) hrv
      (by rw [at_subcol valid g.V col hu hvu]; exact hut)
      (by rw [at_subcol valid g.V col hv' hvv]; exact hvt)
    -- the parent array as a function
    have hfun : (fun c => par.getD c c) = (bifSweep (subRows sg) order).parent := by
      funext c
      rw [hpar]
      by_cases hc : c < (bifSweep (subRows sg) order).q
      · simp [List.getD_eq_getElem?_getD, hc]
      · rw [List.getD_eq_getElem?_getD, List.getElem?_eq_none (by simpa using hc)]
        exact ((inv.out c (Nat.le_of_not_lt hc)).2).symm
    have hlab : ∀ x < g.V, valid x = true →
        (label.getD x 0).toNat = labOf (bifSweep (subRows sg) order) (renumb valid x) := by
      intro x hx hvx
      rw [hlabel]
      simp only [List.getD_eq_getElem?_getD, List.getElem?_map, List.getElem?_range hx, Option.map_some,
        Option.getD_some, hvx, if_true]
      rfl
    rw [hfun, hlab u hu hvu, hlab v hv' hvv, ← hm,
      conn_subgraph_iff g valid (fun x => x < sg.V ∧ t ≤ at_ (subcol g.V valid col) x) hu hv' hvu hvv]
    have hset : (fun x => x < g.V ∧ valid x = true ∧
        (renumb valid x < sg.V ∧ t ≤ at_ (subcol g.V valid col) (renumb valid x))) =
        (fun x => x < g.V ∧ t ≤ at_ col x) := by
      funext x
      apply propext
      constructor
      · rintro ⟨hx, hvx, _, hxt⟩
        rw [at_subcol valid g.V col hx hvx] at hxt
        exact ⟨hx, hxt⟩
      · rintro ⟨hx, hxt⟩
        have hvx := hval x hxt
        exact ⟨hx, hvx, renumb_lt valid hx hvx, by rw [at_subcol valid g.V col hx hvx]; exact hxt⟩
    rw [hset]

/-- **`idx[c]` is a vertex of region `c` of maximal value**: one entry per region; `idx[c]` carries
    label `c` (no region is empty) and no vertex labelled `c` has a larger field value. -/
theorem bifurcations_idx_is_region_maximum (g : Graph) (hv : g.Valid) (hsym : g.Symm)
    (col : List Rat) (th : Rat) (order idx par : List Nat) (label : List Int)
    (h : bifurcations g col th order = some (idx, par, label)) :
    idx.length = par.length ∧ ∀ c < par.length,
      idx.getD c 0 < g.V ∧ label.getD (idx.getD c 0) 0 = (c : Int) ∧
        ∀ v < g.V, label.getD v 0 = (c : Int) → at_ col v ≤ at_ col (idx.getD c 0) := by
  set valid := fun v => decide (th ≤ at_ col v) with hvalid
  set sg := subgraph g valid with hsg
  by_cases hne : sg.V = 0
  · obtain ⟨h1, h2, _⟩ := bifurcations_empty h hne
    subst h1; subst h2
    exact ⟨rfl, fun c hc => absurd hc (by simp)⟩
  · obtain ⟨hord, hpar, hlabel, hidx⟩ := bifurcations_unfold h hne
    change validDescOrder sg.V (at_ (subcol g.V valid col)) order = true at hord
    change par = (List.range (bifSweep (subRows sg) order).q).map (bifSweep (subRows sg) order).parent at hpar
    change label = (List.range g.V).map
      (fun v => if valid v then (bifSweep (subRows sg) order).llabel (renumb valid v) else -1) at hlabel
    change idx = (List.range (bifSweep (subRows sg) order).q).map (fun (c : Nat) =>
      maskedArgmax g.V (at_ col) (fun v => label.toArray.getD v (-1) == (c : Int))) at hidx
    have hsr : SymmRows (subRows sg) := subRows_symm sg (subgraph_symm g hv hsym valid)
    obtain ⟨hnd, hmem⟩ := validDescOrder_perm hord
    have inv := bifInv_sweep hsr order hnd
    have hlen : label.length = g.V := by rw [hlabel]; simp
    refine ⟨by rw [hidx, hpar]; simp, fun c hc => ?_⟩
    have hcq : c < (bifSweep (subRows sg) order).q := by rw [hpar] at hc; simpa using hc
    -- the region is not empty
    obtain ⟨w, hw, hlw⟩ := inv.occ c hcq
    have hwV : w < renumb valid g.V := (hmem w).1 hw
    obtain ⟨h1, h2, h3⟩ := retained_spec valid g.V hwV
    set v0 := (retained g.V valid).getD w 0 with hv0
    have hget : ∀ x < g.V, label.toArray.getD x (-1) = label.getD x 0 :=
      fun x hx => toArray_getD_eq label (by rw [hlen]; exact hx) _ _
    have hlab : ∀ x < g.V, valid x = true →
        label.getD x 0 = (bifSweep (subRows sg) order).llabel (renumb valid x) := by
      intro x hx hvx
      rw [hlabel]
      simp only [List.getD_eq_getElem?_getD, List.getElem?_map, List.getElem?_range hx, Option.map_some,
        Option.getD_some, hvx, if_true]
    have hex : ∃ x, x < g.V ∧ (label.toArray.getD x (-1) == (c : Int)) = true :=
      ⟨v0, h1, by rw [hget v0 h1, hlab v0 h1 h2, h3, hlw]; simp⟩
    obtain ⟨s1, s2, s3⟩ := maskedArgmax_spec g.V (at_ col)
      (fun x => label.toArray.getD x (-1) == (c : Int)) hex
    have hic : idx.getD c 0 =
        maskedArgmax g.V (at_ col) (fun x => label.toArray.getD x (-1) == (c : Int)) := by
      rw [hidx]
      simp [List.getD_eq_getElem?_getD, hcq]
    rw [hic]
    refine ⟨s1, ?_, fun x hx hxc => s3 x hx (by rw [hget x hx, hxc]; simp)⟩
    have := s2
    rw [hget _ s1] at this
    simpa using this

/-! ## Non-vacuity -/

/-- a path 0 — 1 — 2 with values 2, 1, 3 (two maxima and the saddle that joins them), swept in the
    order 2, 0, 1: the order is valid and the model returns a triple `(idx, parent, label)` -/
example :
    let g : Graph := ⟨3, [⟨0, 1, 1⟩, ⟨1, 0, 1⟩, ⟨1, 2, 1⟩, ⟨2, 1, 1⟩]⟩
    ∃ idx par label, bifurcations g [2, 1, 3] 0 [2, 0, 1] = some (idx, par, label) :=
  bifurcations_some_of_valid _ _ _ _ (by decide +kernel)

example : (⟨3, [⟨0, 1, 1⟩, ⟨1, 0, 1⟩, ⟨1, 2, 1⟩, ⟨2, 1, 1⟩]⟩ : Graph).Valid ∧
    (⟨3, [⟨0, 1, 1⟩, ⟨1, 0, 1⟩, ⟨1, 2, 1⟩, ⟨2, 1, 1⟩]⟩ : Graph).Symm ∧
    SymmRows (subRows ⟨3, [⟨0, 1, 1⟩, ⟨1, 0, 1⟩, ⟨1, 2, 1⟩, ⟨2, 1, 1⟩]⟩) := by
  have hs : (⟨3, [⟨0, 1, 1⟩, ⟨1, 0, 1⟩, ⟨1, 2, 1⟩, ⟨2, 1, 1⟩]⟩ : Graph).Symm := by
    intro i j h
    simp [Graph.adj] at h ⊢
    omega
  refine ⟨?_, hs, subRows_symm _ hs⟩
  intro e he; simp at he; rcases he with rfl | rfl | rfl | rfl <;> simp

end NipyVerif.C12
