/-
C03 (wave 3) — the file level (`Model/C03F.lean`): packed header bytes, the affine nibabel reads
(sform / qform from the stored quaternion / base affine), `files.load` on an incoming header, data
scaling on read, float32 storage as an error bound, the storage dtype along load / save histories.
-/
import NipyVerif.Props.C03
import NipyVerif.Props.C03H
import NipyVerif.Model.C03F
import NipyVerif.Lemmas.C03F
import Mathlib.Tactic.FieldSimp
import Mathlib.Tactic.LinearCombination
import Mathlib.Tactic.Push

namespace NipyVerif.C03

/-! ## Packed bytes -/

/-- a `dim_info` entry: unset or one of the three spatial axes -/
def ValidDim (o : Option Nat) : Prop := o = none ∨ o = some 0 ∨ o = some 1 ∨ o = some 2

/-- **`dim_info` byte**: what `set_dim_info` packs, `get_dim_info` unpacks again, for every
    freq / phase / slice assignment; the byte uses six bits. -/
theorem dim_info_byte_roundtrip (f p s : Option Nat) (hf : ValidDim f) (hp : ValidDim p) (hs : ValidDim s) :
    unpackDimInfo (packDimInfo f p s) = (f, p, s) ∧ packDimInfo f p s < 64 := by
  rcases hf with rfl | rfl | rfl | rfl <;> rcases hp with rfl | rfl | rfl | rfl <;>
    rcases hs with rfl | rfl | rfl | rfl <;> decide

/-- every six-bit byte is the packing of what it unpacks to (no information beside freq / phase / slice) -/
theorem dim_info_byte_unpack_pack : ∀ b, b < 64 →
    packDimInfo (unpackDimInfo b).1 (unpackDimInfo b).2.1 (unpackDimInfo b).2.2 = b := by decide

/-- **`xyzt_units` byte**: space code + time code is decoded to the same pair of units, for every
    pair of units NIfTI has -/
theorem units_byte_roundtrip (su tu : String) (hs : su ∈ ["unknown", "meter", "mm", "micron"])
    (ht : tu ∈ ["unknown", "sec", "msec", "usec", "hz", "ppm", "rads"]) :
    (packUnits su tu).bind unpackUnits = some (su, tu) := by
  simp only [List.mem_cons, List.not_mem_nil, or_false] at hs ht
  rcases hs with rfl | rfl | rfl | rfl <;> rcases ht with rfl | rfl | rfl | rfl | rfl | rfl | rfl <;>
    decide +kernel

/-- the units `nipy2nifti` writes (`mm` and `sec` / the time-like name / nothing) are in the table -/
theorem written_units_packable (tl : String) (h : tl ∈ tlOrdered) :
    (packUnits "mm" (if tl = "t" then "sec" else tl)).isSome ∧ (packUnits "mm" "unknown").isSome := by
  simp only [tlOrdered, List.mem_cons, List.not_mem_nil, or_false] at h
  rcases h with rfl | rfl | rfl | rfl <;> decide +kernel

/-! ## `dim_info` round trip of the first three axis names -/

/-- the names `nifti2nipy` gives the first three axes are `in3Of` of the header it reads -/
theorem nifti2nipy_in3 (h : Hdr) (g' : Img) (hl : nifti2nipy h = .ok g') :
    g'.inNames.take 3 = in3Of h := by
  have h3 := in3Of_length h
  unfold nifti2nipy at hl
  simp only [] at hl
  split_ifs at hl <;> cases hl <;> simp only [in3Of] at h3 ⊢ <;>
    first
      | exact List.take_left' h3
      | (rw [show (3 : Nat) = (setName (setName (setName ["i", "j", "k"] h.freq "freq") h.phase "phase")
            h.slice "slice").length from h3.symm]; exact List.take_length)

/-- the header `nipy2nifti` writes carries the `dim_info` of the image's first three axis names -/
theorem body_in3 {strict fix : Bool} {orient : Mat → List (Option Nat)} {sq : Rat → Rat} {g : Img} {h : Hdr}
    (hb : body strict fix orient sq g = .ok h) :
    in3Of h = setName (setName (setName ["i", "j", "k"] ((g.inNames.take 3).idxOf? "freq") "freq")
      ((g.inNames.take 3).idxOf? "phase") "phase") ((g.inNames.take 3).idxOf? "slice") "slice" := by
  obtain ⟨_, _, xyz, sf, qf, _, _, _, hcase⟩ := body_ok_inv hb
  rcases hcase with ⟨_, hh⟩ | ⟨_, hf⟩
  · subst hh; rfl
  · rcases finish_ok_inv hf with ⟨_, _, hh⟩ | ⟨tl, _, _, hh⟩ <;> subst hh <;> rfl

/-- **`dim_info` round trip**: an image whose first three axes are named `freq` / `phase` / `slice`
    or carry the default name of their position comes back with the same three names
    (`nifti2nipy (nipy2nifti img)`, after `as_xyz_image`). -/
theorem dim_info_roundtrip (strict fix : Bool) (orient : Mat → List (Option Nat)) (sq : Rat → Rat)
    (g g' : Img) (h : Hdr) (a0 a1 a2 : String)
    (hn : g.inNames.take 3 = [a0, a1, a2])
    (h0 : a0 ∈ ["i", "freq", "phase", "slice"]) (h1 : a1 ∈ ["j", "freq", "phase", "slice"])
    (h2 : a2 ∈ ["k", "freq", "phase", "slice"]) (hd : a0 ≠ a1 ∧ a0 ≠ a2 ∧ a1 ≠ a2)
    (hb : body strict fix orient sq g = .ok h) (hl : nifti2nipy h = .ok g') :
    g'.inNames.take 3 = g.inNames.take 3 := by
  rw [nifti2nipy_in3 h g' hl, body_in3 hb, hn]
  simp only [List.mem_cons, List.not_mem_nil, or_false] at h0 h1 h2
  rcases h0 with rfl | rfl | rfl | rfl <;> rcases h1 with rfl | rfl | rfl | rfl <;>
    rcases h2 with rfl | rfl | rfl | rfl <;>
    first
      | (exfalso; simp at hd; done)
      | decide +kernel

/-! ## The affine nibabel reads -/

/-- **`get_best_affine`**: the sform rows when `sform_code ≠ 0`, else the qform affine when
    `qform_code ≠ 0`, else the base affine of shape and zooms -/
theorem best_affine_choice (sq : Rat → Rat) (h : Raw) :
    (h.sformCode ≠ 0 → bestAffineE sq h = .ok (h.srow ++ [[0, 0, 0, 1]])) ∧
    (h.sformCode = 0 → h.qformCode ≠ 0 → bestAffineE sq h = qformAffine sq h) ∧
    (h.sformCode = 0 → h.qformCode = 0 → bestAffineE sq h = .ok h.baseAffine) := by
  refine ⟨fun h1 => ?_, fun h1 h2 => ?_, fun h1 h2 => ?_⟩
  · simp [bestAffineE, h1]
  · simp [bestAffineE, h1, h2]
  · simp [bestAffineE, h1, h2]

/-- the exact qform is an instance of the parameter `qaff` of `Props/C03H`: every theorem there
    (`file_affine`, `stage_image_independent`, `history_independent`, …) holds for the affine nibabel
    really computes from the stored quaternion -/
theorem best_affine_instance (sq : Rat → Rat) (h : Raw) (m : Mat) (hm : bestAffineE sq h = .ok m) :
    bestAffine (qaffOf sq) h = m := by
  unfold bestAffineE at hm
  unfold bestAffine qaffOf
  split_ifs at hm ⊢ with h1 h2
  · cases hm; rfl
  · rw [hm]
  · cases hm; rfl

/-- **a file written by nipy is never read through its quaternion**: `nipy2nifti` writes equal codes
    (`written_codes_equal`), so `get_best_affine` of the header it wrote is the stored sform (named
    spaces) or the base affine (`unknown`) — the same for every quaternion → matrix function `qaff`.
    The polar decomposition / quaternion of `set_qform` (`quatOf`, external) therefore never reaches an
    image loaded back by nipy. -/
theorem written_file_never_reads_quaternion (strict fix : Bool) (orient : Mat → List (Option Nat))
    (sq rnd : Rat → Rat) (quatOf : Mat → List Rat) (qaff : Raw → Mat) (g : Img) (dt : String) (start : Raw)
    (ni : NiImg) (hshape : g.shape.length = g.n) (hn : 3 ≤ g.n)
    (hb : bodyR strict fix orient sq rnd quatOf g dt start = .ok ni) :
    bestAffineE sq ni.hdr = .ok (bestAffine qaff ni.hdr) := by
  have hc := written_codes_equal strict fix orient sq rnd quatOf g dt start ni hshape hn hb
  unfold bestAffineE bestAffine
  by_cases hs : ni.hdr.sformCode = 0
  · have hq : ni.hdr.qformCode = 0 := by rw [← hc]; exact hs
    simp [hs, hq]
  · simp [hs]

/-- **the rotation of a quaternion is orthogonal** (`quat2mat` as written, any non-degenerate
    quaternion, unit or not): `Rᵀ R = I` -/
theorem quat2mat_orthogonal (w x y z : Rat) (hN : floatEps ≤ w * w + x * x + y * y + z * z)
    (i j : Nat) (hi : i < 3) (hj : j < 3) :
    entry (quat2mat w x y z) 0 i * entry (quat2mat w x y z) 0 j +
    entry (quat2mat w x y z) 1 i * entry (quat2mat w x y z) 1 j +
    entry (quat2mat w x y z) 2 i * entry (quat2mat w x y z) 2 j = if i = j then 1 else 0 := by
  have hpos : (0 : Rat) < w * w + x * x + y * y + z * z :=
    lt_of_lt_of_le (by unfold floatEps; norm_num) hN
  obtain ⟨N, hNdef⟩ : ∃ N : Rat, N = w * w + x * x + y * y + z * z := ⟨_, rfl⟩
  have hne : N ≠ 0 := by rw [hNdef]; exact ne_of_gt hpos
  have hq : quat2mat w x y z =
      [[1 - (y * (y * (2 / N)) + z * (z * (2 / N))), x * (y * (2 / N)) - w * (z * (2 / N)),
        x * (z * (2 / N)) + w * (y * (2 / N))],
       [x * (y * (2 / N)) + w * (z * (2 / N)), 1 - (x * (x * (2 / N)) + z * (z * (2 / N))),
        y * (z * (2 / N)) - w * (x * (2 / N))],
       [x * (z * (2 / N)) - w * (y * (2 / N)), y * (z * (2 / N)) + w * (x * (2 / N)),
        1 - (x * (x * (2 / N)) + y * (y * (2 / N)))]] := by
    unfold quat2mat
    rw [if_neg (not_lt.2 hN), hNdef]
  rw [hq]
  interval_cases i <;> interval_cases j <;>
    simp (config := { decide := true }) only [entry, List.getD_eq_getElem?_getD,
      List.getElem?_cons_zero, List.getElem?_cons_succ, Option.getD_some, if_true, if_false] <;>
    (field_simp; rw [hNdef]; ring)

/-! ## Data scaling on read -/

/-- **no scaling**: a NaN or zero slope, or (1, 0), leaves the stored values untouched -/
theorem read_scale_identity (rnd : Rat → Rat) (i : Option Rat) (v : Rat) :
    getSlopeInter none i = .ok none ∧ getSlopeInter (some 0) i = .ok none ∧
    readScale rnd none v = v ∧ readScale rnd (some (1, 0)) v = v := by
  refine ⟨rfl, ?_, rfl, ?_⟩
  · simp [getSlopeInter]
  · simp [readScale]

/-- a valid slope needs a valid intercept; then the pair is used as stored -/
theorem get_slope_inter_rule (s : Rat) (hs : s ≠ 0) (i : Rat) :
    getSlopeInter (some s) (some i) = .ok (some (s, i)) ∧
    getSlopeInter (some s) none = .error "error:HeaderDataError" := by
  simp [getSlopeInter, hs]

/-- **loaded value = stored · slope + inter, exactly**, whenever the product and the sum are
    representable in the float type the scaling runs in (`rnd` fixes them) -/
theorem read_scale_exact (rnd : Rat → Rat) (s i v : Rat) (h1 : rnd (v * s) = v * s)
    (h2 : rnd (v * s + i) = v * s + i) : readScale rnd (some (s, i)) v = v * s + i := by
  unfold readScale
  by_cases hs : s = 1 <;> by_cases hi : i = 0
  · subst hs; subst hi; simp
  · subst hs; simp only [if_true, if_neg hi]; simpa using h2
  · subst hi; simp [hs, h1]
  · simp only [if_neg hs, if_neg hi, h1, h2]

/-- **scaling never reorders the data**: with a monotone rounding and a positive slope the loaded
    values are ordered as the stored ones -/
theorem read_scale_monotone (rnd : Rat → Rat) (hm : ∀ a b, a ≤ b → rnd a ≤ rnd b) (s i : Rat)
    (hs : 0 < s) (v w : Rat) (h : v ≤ w) :
    readScale rnd (some (s, i)) v ≤ readScale rnd (some (s, i)) w := by
  have hmul : v * s ≤ w * s := mul_le_mul_of_nonneg_right h (le_of_lt hs)
  unfold readScale
  by_cases h1 : s = 1 <;> by_cases hi : i = 0 <;> simp only [h1, hi, if_true, if_false]
  · exact h
  · exact hm _ _ (by linarith)
  · exact hm _ _ hmul
  · exact hm _ _ (by linarith [hm _ _ hmul])

example : read_scale_exact rnd64 (1 / 2) 3 5 (by decide +kernel) (by decide +kernel) =
    read_scale_exact rnd64 (1 / 2) 3 5 (by decide +kernel) (by decide +kernel) := rfl
example : (∀ a b : Rat, a ≤ b → id a ≤ id b) := fun _ _ h => h
/-- float32(0.1) as slope on the stored value 7: the binary64 product, not the exact one -/
example : readScale rnd64 (some (13421773 / 134217728, 0)) 7 = 93952411 / 134217728 := by decide +kernel
example : rnd64 (1 / 10) = 3602879701896397 / 36028797018963968 := by decide +kernel

/-! ## The storage dtype along load / save histories -/

/-- **`dtype_from`**: `'header'` takes the dtype of the header the image carries (the data's when it
    carries none), `'data'` the dtype of the array, anything else is the dtype itself -/
theorem save_dtype_rule (df data : String) (hdr : Option String) :
    saveDtype df data hdr =
      if df = "header" then hdr.getD data else if df = "data" then data else df := by
  unfold saveDtype ioDtype
  by_cases h1 : df = "header" <;> by_cases h2 : df = "data" <;> simp [h1, h2]

/-- `save`'s policy is `nipy2nifti`'s dtype rule (`effDtype`, `Props/C03H.dtype_rule`) fed with `io_dtype` -/
theorem save_dtype_is_effDtype (df data : String) (has : Bool) (start : Raw) :
    saveDtype df data (if has then some start.dtype else none) =
      effDtype (ioDtype df data) has data start := by
  unfold saveDtype effDtype
  cases ioDtype df data <;> cases has <;> simp

/-- a refused save writes nothing and leaves the image as it was -/
theorem refused_save_changes_nothing (s : DState) (df ext : String)
    (h : (stepD s (.save df ext)).2 = none) : (stepD s (.save df ext)).1 = s := by
  unfold stepD at h ⊢
  simp only [] at h ⊢
  split_ifs at h ⊢ <;> simp_all

/-- after a load the array is float64 (`get_fdata`) and the image carries the file's dtype -/
theorem load_state (s : DState) (d : String) (h : s.disk = some d) :
    (stepD s .load).1 = { s with data := "float64", hdr := some d } := by
  simp [stepD, h]

/-- **`dtype_from='data'` after a load always writes float64** (whatever the file held), in every
    format (`float64` is a dtype both NIfTI-1 and Analyze hold) -/
theorem data_policy_after_load (s : DState) (d ext : String) (h : s.disk = some d) :
    (stepD (stepD s .load).1 (.save "data" ext)).2 = some "float64" := by
  rw [load_state s d h]
  unfold stepD
  have : saveDtype "data" "float64" (some d) = "float64" := by
    rw [save_dtype_rule, if_neg (by decide), if_pos rfl]
  simp only [this]
  have h1 : analyzeDtypes.contains "float64" = true := by decide +kernel
  have h2 : niftiDtypes.contains "float64" = true := by decide +kernel
  split_ifs <;> simp_all

/-- only `'header'` saves -/
def HeaderOnly : List FileOp → Prop
  | [] => True
  | .save df _ :: rest => df = "header" ∧ HeaderOnly rest
  | .load :: rest => HeaderOnly rest

/-- **`dtype_from='header'` keeps the storage type for ever**: along any history of loads and
    `'header'` saves (any formats, refused saves included) every file written has the dtype `d` of the
    header the image carried at the start, and the image still carries `d` at the end. -/
theorem header_policy_keeps_dtype (d : String) (ops : List FileOp) (hops : HeaderOnly ops) (s : DState)
    (hh : s.hdr = some d) (hdisk : s.disk = none ∨ s.disk = some d) :
    (∀ o ∈ runD s ops, o = none ∨ o = some d) ∧ (finalD s ops).hdr = some d := by
  induction ops generalizing s with
  | nil => exact ⟨by simp [runD], hh⟩
  | cons op rest ih =>
    cases op with
    | load =>
      have hrest : HeaderOnly rest := hops
      rcases hdisk with hd | hd
      · have hs : (stepD s .load).1 = s := by simp [stepD, hd]
        have := ih hrest s hh (Or.inl hd)
        simp only [runD, finalD, hs, List.mem_cons]
        refine ⟨?_, this.2⟩
        rintro o (rfl | ho)
        · left; simp [stepD, hd]
        · exact this.1 o ho
      · have hs := load_state s d hd
        have := ih hrest { s with data := "float64", hdr := some d } rfl (Or.inr hd)
        simp only [runD, finalD, hs, List.mem_cons]
        refine ⟨?_, this.2⟩
        rintro o (rfl | ho)
        · left; simp [stepD, hd]
        · exact this.1 o ho
    | save df ext =>
      obtain ⟨hdf, hrest⟩ : df = "header" ∧ HeaderOnly rest := hops
      subst hdf
      have hsd : saveDtype "header" s.data s.hdr = d := by
        rw [save_dtype_rule, hh]; simp
      by_cases hok : (if typeFromFilename ("im" ++ ext) = some "analyze" then analyzeDtypes.contains d
                      else niftiDtypes.contains d) = true
      · have hs : stepD s (.save "header" ext) = ({ s with disk := some d }, some d) := by
          simp only [stepD, hsd, hok, if_true]
        have := ih hrest { s with disk := some d } hh (Or.inr rfl)
        simp only [runD, finalD, hs, List.mem_cons]
        refine ⟨?_, this.2⟩
        rintro o (rfl | ho)
        · right; rfl
        · exact this.1 o ho
      · have hs : stepD s (.save "header" ext) = (s, none) := by
          simp only [stepD, hsd, hok]; simp
        have := ih hrest s hh hdisk
        simp only [runD, finalD, hs, List.mem_cons]
        refine ⟨?_, this.2⟩
        rintro o (rfl | ho)
        · left; rfl
        · exact this.1 o ho

/-- Analyze holds a subset of what NIfTI-1 holds: a dtype Analyze accepts never makes `.nii` refuse -/
theorem analyze_dtypes_subset : ∀ d ∈ analyzeDtypes, d ∈ niftiDtypes := by decide +kernel

example : HeaderOnly [.load, .save "header" ".img", .load, .save "header" ".nii.gz"] := by
  simp [HeaderOnly]
/-- an int8 file: kept by `.nii`, refused by `.img`, re-typed by `'data'` -/
example : runD { data := "float64", hdr := some "int8", disk := some "int8" }
    [.save "header" ".nii", .load, .save "header" ".img", .save "data" ".img", .load, .save "header" ".hdr"] =
    [some "int8", none, none, some "float64", none, some "float64"] := by decide +kernel


/-! ## The qform affine: its columns have the stored zooms as lengths -/

/-- entries of `R · diag(vox)` -/
theorem entry_qformOf (R : Mat) (vox off : List Rat) (r c : Nat) (hr : r < 3) (hc : c < 3) :
    entry (qformOf R vox off) r c = entry R r c * vox.getD c 0 := by
  have h3 : List.range 3 = [0, 1, 2] := rfl
  interval_cases r <;> interval_cases c <;>
    simp [qformOf, entry, h3, List.getD_eq_getElem?_getD]

/-- **the qform affine has the header's zooms**: whenever `get_qform` answers, column `c` of its
    matrix part has squared length `pixdim[c+1]²` (`qfac = ±1` only flips the third column) — so the
    zooms `nipy2nifti` recomputes from the loaded affine (`zooms3`) are the stored zooms, and a
    qform-only file keeps its voxel sizes through `load`.  `hsq`: the square root used for `w` is
    exact on this header's `1 - (b² + c² + d²)` (only consulted outside the `w = 0` threshold band). -/
theorem qform_column_norms (sq : Rat → Rat) (h : Raw) (m : Mat) (hm : qformAffine sq h = .ok m)
    (hsq : sq (1 - (h.quat.getD 0 0 * h.quat.getD 0 0 + h.quat.getD 1 0 * h.quat.getD 1 0 +
              h.quat.getD 2 0 * h.quat.getD 2 0)) *
           sq (1 - (h.quat.getD 0 0 * h.quat.getD 0 0 + h.quat.getD 1 0 * h.quat.getD 1 0 +
              h.quat.getD 2 0 * h.quat.getD 2 0)) =
           1 - (h.quat.getD 0 0 * h.quat.getD 0 0 + h.quat.getD 1 0 * h.quat.getD 1 0 +
              h.quat.getD 2 0 * h.quat.getD 2 0))
    (c : Nat) (hc : c < 3) :
    entry m 0 c * entry m 0 c + entry m 1 c * entry m 1 c + entry m 2 c * entry m 2 c =
      ((h.pix03.drop 1).take 3).getD c 0 * ((h.pix03.drop 1).take 3).getD c 0 := by
  obtain ⟨b, hb⟩ : ∃ b, b = h.quat.getD 0 0 := ⟨_, rfl⟩
  obtain ⟨cc, hcc⟩ : ∃ cc, cc = h.quat.getD 1 0 := ⟨_, rfl⟩
  obtain ⟨d, hd⟩ : ∃ d, d = h.quat.getD 2 0 := ⟨_, rfl⟩
  rw [← hb, ← hcc, ← hd] at hsq
  unfold qformAffine at hm
  rw [← hb, ← hcc, ← hd] at hm
  -- the quaternion has norm ≥ floatEps in both branches of `fillpositive`
  have hthr : quatThresh < 1 / 2 := by unfold quatThresh; norm_num
  have heps : floatEps ≤ 1 / 2 := by unfold floatEps; norm_num
  cases hw : fillPositive sq b cc d with
  | none => rw [hw] at hm; cases hm
  | some w =>
    rw [hw] at hm
    simp only [] at hm
    have hN : floatEps ≤ w * w + b * b + cc * cc + d * d := by
      unfold fillPositive at hw
      simp only [] at hw
      split_ifs at hw with h1 h2
      · cases hw
        have : rabs (1 - (b * b + cc * cc + d * d)) < quatThresh := h1
        unfold rabs at this
        split_ifs at this <;> linarith
      · cases hw
        rw [hsq]; linarith
    split_ifs at hm with hneg hq
    cases hm
    have hqq : h.pix03.getD 0 0 * h.pix03.getD 0 0 = 1 := by
      have : h.pix03.getD 0 0 = 1 ∨ h.pix03.getD 0 0 = -1 := by
        by_contra hcon
        push Not at hcon
        exact hq ⟨hcon.1, hcon.2⟩
      rcases this with h1 | h1 <;> rw [h1] <;> norm_num
    have horth := quat2mat_orthogonal w b cc d hN c c hc hc
    simp only [if_true] at horth
    rw [entry_qformOf _ _ _ 0 c (by omega) hc, entry_qformOf _ _ _ 1 c (by omega) hc,
        entry_qformOf _ _ _ 2 c (by omega) hc]
    interval_cases c
    · simp only [List.getD_cons_zero] at horth ⊢
      linear_combination (((h.pix03.drop 1).take 3).getD 0 0 * ((h.pix03.drop 1).take 3).getD 0 0) * horth
    · simp only [List.getD_cons_zero, List.getD_cons_succ] at horth ⊢
      linear_combination (((h.pix03.drop 1).take 3).getD 1 0 * ((h.pix03.drop 1).take 3).getD 1 0) * horth
    · simp only [List.getD_cons_zero, List.getD_cons_succ] at horth ⊢
      linear_combination (((h.pix03.drop 1).take 3).getD 2 0 * ((h.pix03.drop 1).take 3).getD 2 0 *
        (h.pix03.getD 0 0 * h.pix03.getD 0 0)) * horth +
        (((h.pix03.drop 1).take 3).getD 2 0 * ((h.pix03.drop 1).take 3).getD 2 0) * hqq

/-- a qform-only header with the quaternion (1/2, 1/2, 1/2) (x → y → z → x), zooms 2, 3, 4, `qfac = -1` -/
def exQ : Raw :=
  let d := defaultRaw []
  { d with shape := [2, 2, 2], pix03 := [-1, 2, 3, 4], qformCode := 1, quat := [1 / 2, 1 / 2, 1 / 2],
           qoffset := [5, 6, 7] }
example : qformAffine ratSqrt exQ = .ok [[0, 0, -4, 5], [2, 0, 0, 6], [0, 3, 0, 7], [0, 0, 0, 1]] := by decide +kernel
example : ratSqrt (1 - ((1 / 2 : Rat) * (1 / 2) + 1 / 2 * (1 / 2) + 1 / 2 * (1 / 2))) *
    ratSqrt (1 - ((1 / 2 : Rat) * (1 / 2) + 1 / 2 * (1 / 2) + 1 / 2 * (1 / 2))) =
    1 - ((1 / 2 : Rat) * (1 / 2) + 1 / 2 * (1 / 2) + 1 / 2 * (1 / 2)) := by decide +kernel
example : floatEps ≤ (1 / 2 : Rat) * (1 / 2) + 1 / 2 * (1 / 2) + 1 / 2 * (1 / 2) + 1 / 2 * (1 / 2) := by decide +kernel

/-! ## `files.load` on an incoming header -/

theorem secView_shape (rnd : Rat → Rat) (h : Hdr) :
    (secView rnd h).shape = h.shape ∧ (secView rnd h).sform = h.sform ∧ (secView rnd h).qform = h.qform := by
  unfold secView
  cases unitsInfo h.tunits with
  | none => exact ⟨rfl, rfl, rfl⟩
  | some p =>
    obtain ⟨nm, s⟩ := p
    simp only []
    split_ifs
    · exact ⟨rfl, rfl, rfl⟩
    · cases h.pixdim <;> exact ⟨rfl, rfl, rfl⟩

/-- with exact arithmetic, reading a `msec` / `usec` header as the `sec` header with the scaled time step
    is what `nifti2nipy` does: the binary32 product of `Model/C03F.secView` is the only difference between
    the file-level model and the header-free model of `Model/C03.lean` -/
theorem secView_exact (h : Hdr) : nifti2nipy (secView id h) = nifti2nipy h := by
  unfold secView
  cases hu : unitsInfo h.tunits with
  | none => rfl
  | some p =>
    obtain ⟨nm, s⟩ := p
    simp only []
    by_cases hs : s = 1
    · rw [if_pos hs]
    · rw [if_neg hs]
      cases hp : h.pixdim with
      | nil => rfl
      | cons z zs =>
        have hnm : nm = "t" := by
          unfold unitsInfo at hu
          split_ifs at hu <;> simp only [Option.some.injEq, Prod.mk.injEq] at hu <;>
            first
              | exact hu.1.symm
              | exact absurd hu.2.symm hs
        subst hnm
        have hsec : unitsInfo "sec" = some ("t", 1) := by decide
        unfold nifti2nipy
        simp only [hu, hp, hsec, id, mul_one, Option.getD_some]
        split_ifs <;> simp_all

/-- `load` refuses MINC names before reading anything -/
theorem load_refuses_minc (sq rnd : Rat → Rat) (name : String) (h : Raw)
    (hn : endsWith name ".mnc" = true) : loadFile sq rnd name h = .error "error:valueError" := by
  simp [loadFile, hn]

/-- **`load` accepts every file of three and more dimensions whose affine nibabel can read** (any
    codes, units, `dim_info`, `toffset`, zooms, dtype, scaling, intent, …) -/
theorem load_total (sq rnd : Rat → Rat) (name : String) (h : Raw) (a : Mat)
    (hn : endsWith name ".mnc" = false) (h3 : 3 ≤ h.shape.length) (ha : bestAffineE sq h = .ok a) :
    ∃ r, loadFile sq rnd name h = .ok r := by
  unfold loadFile loadNi
  simp only [hn, ha]
  have hsh : (secView rnd (view (niOfFile h a))).shape.length = h.shape.length := by
    rw [(secView_shape rnd _).1]; rfl
  obtain ⟨g, hg⟩ := loads_three_dims_and_more _ (by rw [hsh]; exact h3)
  exact ⟨(g, (niOfFile h a).hdr), by simp [hg]⟩

/-- one- and two-dimensional files are refused at the `lt3d` site -/
theorem load_refuses_fewer_than_three_dims (sq rnd : Rat → Rat) (name : String) (h : Raw) (a : Mat)
    (hn : endsWith name ".mnc" = false) (h3 : h.shape.length < 3) (ha : bestAffineE sq h = .ok a) :
    loadFile sq rnd name h = .error (Err.nifti .lt3d).str := by
  unfold loadFile loadNi
  simp only [hn, ha]
  have hsh : (secView rnd (view (niOfFile h a))).shape.length = h.shape.length := by
    rw [(secView_shape rnd _).1]; rfl
  have := refuses_fewer_than_three_dims _ (by rw [hsh]; exact h3)
  simp [this]

/-- **what `load` does not look at**: intent (and every other field nipy does not know), storage
    dtype, scaling and data offset of the incoming header do not influence the image -/
theorem load_ignores_unmodelled_fields (sq rnd : Rat → Rat) (name : String) (h : Raw) (k : List String)
    (d : String) (s i : Option Rat) (v : Rat) :
    (loadFile sq rnd name { h with kept := k, dtype := d, slope := s, inter := i, voxOffset := v }).map (·.1) =
      (loadFile sq rnd name h).map (·.1) := by
  unfold loadFile loadNi
  have hb : bestAffineE sq { h with kept := k, dtype := d, slope := s, inter := i, voxOffset := v } =
      bestAffineE sq h := rfl
  rw [hb]
  by_cases hn : endsWith name ".mnc" = true
  · simp [hn]
  · simp only [hn]
    cases bestAffineE sq h with
    | error e => rfl
    | ok a =>
      have hv : view (niOfFile { h with kept := k, dtype := d, slope := s, inter := i, voxOffset := v } a) =
          view (niOfFile h a) := rfl
      simp only [hv]
      cases nifti2nipy (secView rnd (view (niOfFile h a))) <;> rfl

/-- the world the codes name -/
def worldOfRaw (h : Raw) : String := if h.sformCode ≠ 0 then codeSpace h.sformCode else codeSpace h.qformCode

theorem nifti2nipy_out3 (h : Hdr) (g' : Img) (hl : nifti2nipy h = .ok g') :
    g'.outNames.take 3 = spaceTuple (worldOf h) := by
  unfold nifti2nipy at hl
  simp only [] at hl
  have h3 : ∀ w : String, (spaceTuple w).length = 3 := fun _ => rfl
  split_ifs at hl <;> cases hl <;> simp only [worldOf] <;> split_ifs <;>
    first
      | exact List.take_left' (h3 _)
      | rfl
      | (simp [spaceTuple]; done)

/-- **the space is named by the code whose transform supplies the affine**: `sform_code` when it is
    set (then the affine is the sform rows, `best_affine_choice`), else `qform_code` (affine from the
    quaternion), else `unknown` with the base affine -/
theorem load_space_follows_affine_source (sq rnd : Rat → Rat) (name : String) (h : Raw) (g : Img) (hd : Raw)
    (hl : loadFile sq rnd name h = .ok (g, hd)) : g.outNames.take 3 = spaceTuple (worldOfRaw h) := by
  unfold loadFile loadNi at hl
  split_ifs at hl
  cases ha : bestAffineE sq h with
  | error e => rw [ha] at hl; cases hl
  | ok a =>
    rw [ha] at hl
    simp only [] at hl
    cases hg : nifti2nipy (secView rnd (view (niOfFile h a))) with
    | error e => rw [hg] at hl; cases hl
    | ok g2 =>
      rw [hg] at hl
      cases hl
      rw [nifti2nipy_out3 _ _ hg]
      unfold worldOf worldOfRaw
      rw [(secView_shape rnd _).2.1, (secView_shape rnd _).2.2]
      rfl

/-! ## Float32 storage as an error bound -/

theorem entry_round_xyzBlock (rnd : Rat → Rat) (g : Img) (r c : Nat) (hr : r < 3) (hc : c < 4) :
    entry (((xyzBlock g).take 3).map (fun row => row.map rnd) ++ [[0, 0, 0, 1]]) r c =
      rnd (entry (xyzBlock g) r c) := by
  have h3 : List.range 3 = [0, 1, 2] := rfl
  interval_cases r <;> interval_cases c <;>
    simp [xyzBlock, entry, h3, List.getD_eq_getElem?_getD]

/-- **the affine read back from a NIfTI file differs from the saved one by at most the rounding of the
    header storage**: if storing a number moves it by at most `eps` relative (`eps = 2⁻²⁴` for the
    binary32 fields of NIfTI-1), every entry of the xyz affine of an image in a named space comes back
    within `eps` relative of the entry saved — on any incoming header. -/
theorem file_affine_error_bound (strict fix : Bool) (orient : Mat → List (Option Nat)) (sq rnd : Rat → Rat)
    (quatOf : Mat → List Rat) (qaff : Raw → Mat) (eps : Rat)
    (hrnd : ∀ x, rabs (rnd x - x) ≤ eps * rabs x)
    (g : Img) (dt : String) (start : Raw) (ni : NiImg)
    (hshape : g.shape.length = g.n) (hn : 3 ≤ g.n)
    (hb : bodyR strict fix orient sq rnd quatOf g dt start = .ok ni) (hs : ni.hdr.sformCode ≠ 0)
    (r c : Nat) (hr : r < 3) (hc : c < 4) :
    rabs (entry (fileLoad qaff ni).affine r c - entry (xyzBlock g) r c) ≤ eps * rabs (entry (xyzBlock g) r c) := by
  rw [file_affine strict fix orient sq rnd quatOf qaff g dt start ni hshape hn hb, if_pos hs,
      entry_round_xyzBlock rnd g r c hr hc]
  exact hrnd _

/-- the same bound for what the header keeps of the non-spatial geometry: `pixdim[4:]` and `toffset` -/
theorem stored_header_error_bound (rnd : Rat → Rat) (eps : Rat) (hrnd : ∀ x, rabs (rnd x - x) ≤ eps * rabs x)
    (h : Hdr) :
    rabs ((roundHdr rnd h).toffset - h.toffset) ≤ eps * rabs h.toffset ∧
    ∀ k, rabs ((roundHdr rnd h).pixdim.getD k 0 - h.pixdim.getD k 0) ≤ eps * rabs (h.pixdim.getD k 0) := by
  refine ⟨hrnd _, fun k => ?_⟩
  simp only [roundHdr, List.getD_eq_getElem?_getD, List.getElem?_map]
  cases h.pixdim[k]? with
  | none => simp [rabs]
  | some x => exact hrnd x

example : ∀ x : Rat, rabs (id x - x) ≤ 0 * rabs x := by intro x; simp [rabs]

/-- the entry read back is the stored (rounded) entry -/
theorem file_affine_entry (strict fix : Bool) (orient : Mat → List (Option Nat)) (sq rnd : Rat → Rat)
    (quatOf : Mat → List Rat) (qaff : Raw → Mat) (g : Img) (dt : String) (start : Raw) (ni : NiImg)
    (hshape : g.shape.length = g.n) (hn : 3 ≤ g.n)
    (hb : bodyR strict fix orient sq rnd quatOf g dt start = .ok ni) (hs : ni.hdr.sformCode ≠ 0)
    (r c : Nat) (hr : r < 3) (hc : c < 4) :
    entry (fileLoad qaff ni).affine r c = rnd (entry (xyzBlock g) r c) := by
  rw [file_affine strict fix orient sq rnd quatOf qaff g dt start ni hshape hn hb, if_pos hs,
      entry_round_xyzBlock rnd g r c hr hc]

/-- **the rounding the driver uses is binary32**: `rnd32` is round-to-nearest-even on the 24-bit grid
    (`rndP 24 (-126)`), off by at most half a grid step, i.e. by at most `2⁻²⁴` relative for every
    number in the normal range — `ilog2` is proved to be the binary exponent (`Lemmas/C03F.ilog2_spec`).
    The same for binary64 (`rnd64`, `2⁻⁵³`). -/
theorem rnd32_rel_error (x : Rat) (hnorm : pow2 (-126) ≤ rabs x) :
    rabs (rnd32 x - x) ≤ pow2 (-24) * rabs x := by
  rw [rnd32_eq_rndP]; exact rndP_rel_error 24 (-126) x hnorm

theorem rnd64_rel_error (x : Rat) (hnorm : pow2 (-1022) ≤ rabs x) :
    rabs (rnd64 x - x) ≤ pow2 (-53) * rabs x := rndP_rel_error 53 (-1022) x hnorm

theorem rnd32_abs_error (x : Rat) : rabs (rnd32 x - x) ≤ ulpOf 24 (-126) x / 2 := by
  rw [rnd32_eq_rndP]; exact rndP_abs_error 24 (-126) x

/-- **NIfTI-1 storage, concretely**: with the binary32 rounding, every entry of the xyz affine that is
    zero or of normal size (≥ 2⁻¹²⁶) is read back within `2⁻²⁴` relative of the entry saved -/
theorem file_affine_binary32 (strict fix : Bool) (orient : Mat → List (Option Nat)) (sq : Rat → Rat)
    (quatOf : Mat → List Rat) (qaff : Raw → Mat) (g : Img) (dt : String) (start : Raw) (ni : NiImg)
    (hshape : g.shape.length = g.n) (hn : 3 ≤ g.n)
    (hb : bodyR strict fix orient sq rnd32 quatOf g dt start = .ok ni) (hs : ni.hdr.sformCode ≠ 0)
    (r c : Nat) (hr : r < 3) (hc : c < 4)
    (hsize : entry (xyzBlock g) r c = 0 ∨ pow2 (-126) ≤ rabs (entry (xyzBlock g) r c)) :
    rabs (entry (fileLoad qaff ni).affine r c - entry (xyzBlock g) r c) ≤
      pow2 (-24) * rabs (entry (xyzBlock g) r c) := by
  rw [file_affine_entry strict fix orient sq rnd32 quatOf qaff g dt start ni hshape hn hb hs r c hr hc]
  rcases hsize with h0 | hN
  · rw [h0]
    have : rnd32 0 = 0 := by decide +kernel
    rw [this]; simp [rabs]
  · exact rnd32_rel_error _ hN

/-- loaded value = stored · slope + inter up to two binary64 roundings: the relative error of each
    step is at most `2⁻⁵³` (normal range) -/
theorem read_scale_binary64 (s i v : Rat) (hs : s ≠ 1) (hi : i ≠ 0)
    (h1 : pow2 (-1022) ≤ rabs (v * s)) (h2 : pow2 (-1022) ≤ rabs (rnd64 (v * s) + i)) :
    rabs (rnd64 (v * s) - v * s) ≤ pow2 (-53) * rabs (v * s) ∧
    rabs (readScale rnd64 (some (s, i)) v - (rnd64 (v * s) + i)) ≤ pow2 (-53) * rabs (rnd64 (v * s) + i) := by
  refine ⟨rnd64_rel_error _ h1, ?_⟩
  have : readScale rnd64 (some (s, i)) v = rnd64 (rnd64 (v * s) + i) := by
    simp [readScale, hs, hi]
  rw [this]
  exact rnd64_rel_error _ h2

example : pow2 (-126) ≤ rabs (5 / 2) ∧ rnd32 (1 / 10) = 13421773 / 134217728 := by decide +kernel

/-! ## The source text the file-level model was written against (`Gen/C03Tables.lean`, regenerated) -/

/-- **`files.load` / `files.save` as text**: the `.mnc` guard, the `dtype_from` chain
    (`'header'` → `None`, `'data'` → the array's dtype, else `np.dtype(dtype_from)`) and the file-type
    dispatch are the statements `loadFile`, `ioDtype` / `saveDtype` and `saveAction` model -/
theorem files_source_matches :
    Gen.loadChain = [("str(filename).endswith('.mnc')",
      "raise ValueError(\"Sorry, we can't get the MINC axis names right yet\")")] ∧
    Gen.saveDtypeChain = [("dt_from_is_str and dtype_from == 'header'", "io_dtype = None"),
      ("dt_from_is_str and dtype_from == 'data'", "io_dtype = img.get_fdata().dtype"),
      ("else", "io_dtype = np.dtype(dtype_from)")] ∧
    Gen.saveDispatchChain = [("ftype == 'nifti1pair'", "ni_img = nib.Nifti1Pair.from_image(ni_img)"),
      ("ftype.startswith('nifti1')", "ni_img.to_filename(filename)"),
      ("ftype == 'analyze'", "ana_img.to_filename(filename)"), ("else", "raise ValueError")] := by
  decide +kernel

/-- **`nifti2nipy` as text**: its tests in source order (the squeeze rule
    `shape[3] == 1 and ndim > 4 and units_info is None`, the default to seconds, the scaling test, the
    `t`-only origin) and the four assignments that scale: `affine[:3]` by 1000 either way for
    micron / meter, the time step by the units' scaling, the origin copied unscaled -/
theorem nifti2nipy_source_matches :
    Gen.n2nTests = ["affine is None", "ndim < 3", "intent != 'none'", "world_label == 'unknown'",
      "freq is not None", "phase is not None", "slice is not None", "space_units in ('micron', 'meter')",
      "space_units == 'micron'", "space_units == 'meter'", "ndim == 3",
      "shape[3] == 1 and ndim > 4 and (units_info is None)", "units_info is None",
      "units_info['scaling'] != 1", "time_name == 't'"] ∧
    Gen.n2nScalings = ["affine[:3] /= 1000.0", "affine[:3] *= 1000.0", "ns_zooms[0] *= units_info['scaling']",
      "ns_trans[0] = hdr['toffset']"] := by
  decide +kernel

end NipyVerif.C03
