/-
C16 — property theorems about the model in `NipyVerif.Model.C16`.
-/
import NipyVerif.Lemmas.C16

namespace NipyVerif.C16

/-- BLAS wrappers, gemm: the flag/operand swap handed to the column-major routine
    computes the row-major `alpha * op(A) * op(B) + beta * C`, for all four transpose flags. -/
theorem blas_rowmajor_gemm (ta tb : Trans) (al be : Rat) (A B C : Mat) (i j : Nat) :
    (fffGemm ta tb al A B be C).get i j =
      al * sumTo (match tb with | .N => B.r | .T => B.c)
        (fun l => (op ta A).get i l * (op tb B).get l j) + be * C.get i j := by
  cases ta <;> cases tb <;>
    simp only [fffGemm, gemmF, Mat.T, op] <;>
    (congr 2; apply sumTo_congr; intro l _; ring)

end NipyVerif.C16
