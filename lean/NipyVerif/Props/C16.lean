/-
C16 — property theorems about the model in `NipyVerif.Model.C16`
(compiled numeric kernels equal their definitions).
-/
import NipyVerif.Lemmas.C16

namespace NipyVerif.C16

/-! ## BLAS wrappers: the row-major → column-major flag tables -/

/-- gemm: the flag/operand swap handed to the column-major routine computes the row-major
    `alpha * op(A) * op(B) + beta * C`, for all four transpose-flag combinations. -/
theorem blas_rowmajor_gemm (ta tb : Trans) (al be : Rat) (A B C : Mat) (i j : Nat) :
    (fffGemm ta tb al A B be C).get i j =
      al * sumTo (match tb with | .N => B.r | .T => B.c)
        (fun l => (op ta A).get i l * (op tb B).get l j) + be * C.get i j := by
  cases ta <;> cases tb <;>
    simp only [fffGemm, gemmF, Mat.T, op, swIf, mn, ord2, Gen.gemvSwapTrans, Gen.gemvMIsSize2, Gen.gemvSwapsOperands, Gen.gemmSwapTransA, Gen.gemmSwapTransB, Gen.gemmSwapsOperands, Gen.gemmMIsSize2, Gen.symmSwapSide, Gen.symmSwapUplo, Gen.symmMIsSize2, Gen.trmmSwapSide, Gen.trmmSwapUplo, Gen.trmmSwapTrans, Gen.trmmMIsSize2, Gen.syrkSwapUplo, Gen.syrkSwapTrans, ↓reduceIte, Bool.false_eq_true] <;>
    (congr 2; apply sumTo_congr; intro l _; ring)

/-- gemv: `SWAP_TRANS` with `m = size2, n = size1` computes `alpha * op(A) x + beta * y`. -/
theorem blas_rowmajor_gemv (t : Trans) (al be : Rat) (A : Mat) (x y : Nat → Rat) (i : Nat) :
    fffGemv t al A x be y i =
      al * sumTo (match t with | .N => A.c | .T => A.r) (fun l => (op t A).get i l * x l) + be * y i := by
  cases t <;> simp [fffGemv, gemvF, Trans.swap, Mat.T, op, swIf, mn, ord2, Gen.gemvSwapTrans, Gen.gemvMIsSize2, Gen.gemvSwapsOperands, Gen.gemmSwapTransA, Gen.gemmSwapTransB, Gen.gemmSwapsOperands, Gen.gemmMIsSize2, Gen.symmSwapSide, Gen.symmSwapUplo, Gen.symmMIsSize2, Gen.trmmSwapSide, Gen.trmmSwapUplo, Gen.trmmSwapTrans, Gen.trmmMIsSize2, Gen.syrkSwapUplo, Gen.syrkSwapTrans]

/-- symm: `SWAP_SIDE`, `SWAP_UPLO` compute `alpha * sym(A) * B + beta * C` (Left) or
    `alpha * B * sym(A) + beta * C` (Right) with the triangle named by the caller's `Uplo`. -/
theorem blas_rowmajor_symm (s : Side) (u : Uplo) (al be : Rat) (A B C : Mat) (i j : Nat) :
    (fffSymm s u al A B be C).get i j =
      match s with
      | .L => al * sumTo C.r (fun l => (symOf u A).get i l * B.get l j) + be * C.get i j
      | .R => al * sumTo C.c (fun l => B.get i l * (symOf u A).get l j) + be * C.get i j := by
  cases s <;> cases u <;>
    simp only [fffSymm, symmF, Side.swap, Uplo.swap, Mat.T, symOf, inTri, decide_eq_true_eq, swIf, mn, ord2, Gen.gemvSwapTrans, Gen.gemvMIsSize2, Gen.gemvSwapsOperands, Gen.gemmSwapTransA, Gen.gemmSwapTransB, Gen.gemmSwapsOperands, Gen.gemmMIsSize2, Gen.symmSwapSide, Gen.symmSwapUplo, Gen.symmMIsSize2, Gen.trmmSwapSide, Gen.trmmSwapUplo, Gen.trmmSwapTrans, Gen.trmmMIsSize2, Gen.syrkSwapUplo, Gen.syrkSwapTrans, ↓reduceIte, Bool.false_eq_true] <;>
    (congr 2; apply sumTo_congr; intro l _; split_ifs <;> ring)

/-- trmm: side and uplo swapped, transpose and diag kept: `alpha * op(tri(A)) * B` (Left),
    `alpha * B * op(tri(A))` (Right), for all 16 flag combinations. -/
theorem blas_rowmajor_trmm (s : Side) (u : Uplo) (t : Trans) (d : Diag) (al : Rat) (A B : Mat) (i j : Nat) :
    (fffTrmm s u t d al A B).get i j =
      match s with
      | .L => al * sumTo B.r (fun l => (op t (triOf u d A)).get i l * B.get l j)
      | .R => al * sumTo B.c (fun l => B.get i l * (op t (triOf u d A)).get l j) := by
  cases s <;> cases u <;> cases t <;> cases d <;>
    simp only [fffTrmm, trmmF, Side.swap, Uplo.swap, Mat.T, triOf, inTri, op, decide_eq_true_eq, swIf, mn, ord2, Gen.gemvSwapTrans, Gen.gemvMIsSize2, Gen.gemvSwapsOperands, Gen.gemmSwapTransA, Gen.gemmSwapTransB, Gen.gemmSwapsOperands, Gen.gemmMIsSize2, Gen.symmSwapSide, Gen.symmSwapUplo, Gen.symmMIsSize2, Gen.trmmSwapSide, Gen.trmmSwapUplo, Gen.trmmSwapTrans, Gen.trmmMIsSize2, Gen.syrkSwapUplo, Gen.syrkSwapTrans, ↓reduceIte, Bool.false_eq_true] <;>
    (congr 1; apply sumTo_congr; intro l _; split_ifs <;> first | ring1 | (subst_vars; ring1) | (exfalso; omega))

/-- trsm: if the column-major routine leaves in `B` the solution `X` of *its* triangular system
    (flags and sizes as the source's wrapper builds them — flag table `Gen/C16Tables.lean`: swapped side
    and uplo, transposed operands), then `Xᵀ` — what the caller reads back in
    row-major order — solves the caller's system `op(tri(A)) X = alpha B` (Left) /
    `X op(tri(A)) = alpha B` (Right). -/
theorem blas_rowmajor_trsm (s : Side) (u : Uplo) (t : Trans) (d : Diag) (al : Rat) (A B X : Mat)
    (h : IsTrsmF (swIf Gen.trsmSwapSide Side.swap s) (swIf Gen.trsmSwapUplo Uplo.swap u)
      (swIf Gen.trsmSwapTrans Trans.swap t) d (mn Gen.trsmMIsSize2 B).1 (mn Gen.trsmMIsSize2 B).2 al A.T B.T X) :
    match s with
    | .L => ∀ i j, i < B.r → j < B.c →
        sumTo B.r (fun l => (op t (triOf u d A)).get i l * X.T.get l j) = al * B.get i j
    | .R => ∀ i j, i < B.r → j < B.c →
        sumTo B.c (fun l => X.T.get i l * (op t (triOf u d A)).get l j) = al * B.get i j := by
  cases s <;> cases u <;> cases t <;> cases d <;>
    simp only [IsTrsmF, Side.swap, Uplo.swap, Mat.T, triOf, inTri, op, decide_eq_true_eq, swIf, mn,
      Gen.trsmSwapSide, Gen.trsmSwapUplo, Gen.trsmSwapTrans, Gen.trsmMIsSize2, ↓reduceIte, Bool.false_eq_true] at h ⊢ <;>
    (intro i j hi hj; rw [← h j i hj hi]; apply sumTo_congr; intro l _;
     split_ifs <;> first | ring1 | (subst_vars; ring1) | (exfalso; omega))

/-- syrk on a square `A` (the only shape the wrapper's `k = A->size1 / A->size2` choice and the
    Python binding accept): inside the caller's triangle `alpha * op(A) op(A)ᵀ + beta * C`,
    outside it `C` is untouched. -/
theorem blas_rowmajor_syrk (u : Uplo) (t : Trans) (al be : Rat) (A C : Mat) (i j : Nat)
    (hsq : A.r = A.c) :
    (fffSyrk u t al A be C).get i j =
      if inTri u i j then
        al * sumTo A.c (fun l => (op t A).get i l * (op t A).get j l) + be * C.get i j
      else C.get i j := by
  cases u <;> cases t <;>
    simp only [fffSyrk, syrkF, Uplo.swap, Trans.swap, Mat.T, inTri, op, hsq, decide_eq_true_eq, swIf, mn, ord2, Gen.gemvSwapTrans, Gen.gemvMIsSize2, Gen.gemvSwapsOperands, Gen.gemmSwapTransA, Gen.gemmSwapTransB, Gen.gemmSwapsOperands, Gen.gemmMIsSize2, Gen.symmSwapSide, Gen.symmSwapUplo, Gen.symmMIsSize2, Gen.trmmSwapSide, Gen.trmmSwapUplo, Gen.trmmSwapTrans, Gen.trmmMIsSize2, Gen.syrkSwapUplo, Gen.syrkSwapTrans, ↓reduceIte, Bool.false_eq_true] <;>
    (split_ifs <;> first | rfl | (congr 2; apply sumTo_congr; intro l _; ring))

/-! ## All-but-axis iteration (`PyArray_IterAllButAxis`, `fffpy_multi_iterator`) -/

/-- `iterator_fibres` (1): the fibres the iterator hands out, concatenated, are a rearrangement of
    all multi-indices of the array: every element is visited exactly once, for every shape and axis. -/
theorem iterator_fibres (dims : List Nat) (axis : Nat) (h : axis < dims.length) :
    (visited dims axis).Perm (allIdx dims) := visited_perm dims axis h

/-- `iterator_fibres` (2): the pointer arithmetic of the C code (`ITER_DATA + k * stride[axis]`)
    addresses exactly the element of multi-index `b[axis := k]`, for any (also negative) strides. -/
theorem iterator_fibre_offsets (dims : List Nat) (strides : List Int) (axis : Nat)
    (hs : strides.length = dims.length) (h : axis < dims.length) :
    fibreOffsets dims strides axis =
      (fibreBases dims axis).map (fun b => (fibre dims axis b).map (offsetOf strides)) := by
  unfold fibreOffsets fibre
  apply List.map_congr_left
  intro b hb
  rw [List.map_map]
  apply List.map_congr_left
  intro k _
  have hl : b.length = dims.length := by
    have := mem_allIdx_length _ b hb
    simpa using this
  simp only [Function.comp]
  rw [offsetOf_set strides b axis k (by omega) (by omega) (mem_bases_zero dims axis b h hb)]

/-- `iterator_fibres` (3): for a valid view (every element offset inside the buffer `[0, N)`), every
    offset the fibre views read is inside the buffer. -/
theorem iterator_offsets_in_buffer (dims : List Nat) (strides : List Int) (axis : Nat) (N : Int)
    (hs : strides.length = dims.length) (h : axis < dims.length)
    (hvalid : ∀ idx ∈ allIdx dims, 0 ≤ offsetOf strides idx ∧ offsetOf strides idx < N) :
    ∀ f ∈ fibreOffsets dims strides axis, ∀ o ∈ f, 0 ≤ o ∧ o < N := by
  rw [iterator_fibre_offsets dims strides axis hs h]
  intro f hf o ho
  obtain ⟨b, hb, rfl⟩ := List.mem_map.mp hf
  obtain ⟨idx, hidx, rfl⟩ := List.mem_map.mp ho
  apply hvalid
  apply (iterator_fibres dims axis h).subset
  exact List.mem_flatMap.mpr ⟨b, hb, hidx⟩

/-! ## Cubic B-spline sampling -/

/-- `mirror_index_in_range`: every grid coordinate is reflected into `[0, ddim]`. -/
theorem mirror_index_in_range (x : Int) (ddim : Nat) : mirroredPosition x ddim ≤ ddim := by
  unfold mirroredPosition
  split_ifs with h0
  · omega
  · have hp : (0 : Int) < 2 * (ddim : Int) := by omega
    have h1 := Int.emod_nonneg x (ne_of_gt hp)
    have h2 := Int.emod_lt_of_pos x hp
    simp only
    split_ifs <;> omega

/-- grid points are fixed by the reflection (so the centre tap reads the point's own coefficient). -/
theorem mirror_fixes_grid (i ddim : Nat) (h : i ≤ ddim) : mirroredPosition (i : Int) ddim = i := by
  unfold mirroredPosition
  split_ifs with h0
  · omega
  · have hp : (0 : Int) < 2 * (ddim : Int) := by omega
    have : (i : Int) % (2 * (ddim : Int)) = i := Int.emod_eq_of_lt (by omega) (by omega)
    simp only [this]
    split_ifs <;> omega

/-- the first neighbour outside the grid on either side is the first one inside
    (whole-sample symmetry), whenever the axis has at least two points. -/
theorem mirror_neighbours (ddim : Nat) (h : 1 ≤ ddim) :
    mirroredPosition (-1) ddim = 1 ∧ mirroredPosition ((ddim : Int) + 1) ddim = ddim - 1 := by
  unfold mirroredPosition
  have h0 : ¬ ddim = 0 := by omega
  simp only [h0, if_false]
  constructor
  · have : (-1 : Int) % (2 * (ddim : Int)) = 2 * (ddim : Int) - 1 := by
      rw [Int.emod_def]
      have : (-1 : Int) / (2 * (ddim : Int)) = -1 := by
        apply Int.ediv_eq_neg_one_of_neg_of_le <;> omega
      rw [this]; ring
    rw [this]; split_ifs <;> omega
  · rcases Nat.lt_or_ge 1 ddim with h1 | h1
    · have : ((ddim : Int) + 1) % (2 * (ddim : Int)) = ddim + 1 := Int.emod_eq_of_lt (by omega) (by omega)
      rw [this]; split_ifs <;> omega
    · have hd : ddim = 1 := by omega
      subst hd; decide

/-- `bspline_weights_partition_unity`: strictly between grid points the four taps of the window
    sum to one when the constant is `2/3`; with the constant written in the C source the sum is
    off by twice its error (two taps take the central branch). -/
theorem bspline_weights_partition_unity (c23 t : Rat) (ht : 0 < t) (h1 : t < 1) :
    basis c23 (t + 1) + basis c23 t + basis c23 (t - 1) + basis c23 (t - 2) = 1 + 2 * (c23 - 2 / 3) := by
  have e1 : absR (t + 1) = t + 1 := by unfold absR; rw [if_pos (by linarith)]
  have e3 : absR (t - 1) = 1 - t := by unfold absR; rw [if_neg (by linarith)]; ring
  have e4 : absR (t - 2) = 2 - t := by unfold absR; rw [if_neg (by linarith)]; ring
  have e2 : absR t = t := by unfold absR; rw [if_pos ht]
  simp only [basis, e1, e2, e3, e4]
  rw [if_neg (by linarith), if_neg (by linarith), if_neg (by linarith), if_pos h1,
      if_neg (by linarith), if_pos (by linarith), if_neg (by linarith), if_neg (by linarith)]
  ring

/-- at a grid point one tap takes the central branch: the weights sum to `1 + (c23 - 2/3)`. -/
theorem bspline_weights_sum_at_grid (c23 : Rat) :
    basis c23 1 + basis c23 0 + basis c23 (-1) + basis c23 (-2) = 1 + (c23 - 2 / 3) := by
  simp [basis, absR]; norm_num; ring

/-- at an integer abscissa the window has weights `1/6, 2/3, 1/6, 0`. -/
theorem bspline_weights_at_grid :
    basis (2 / 3) 1 = 1 / 6 ∧ basis (2 / 3) 0 = 2 / 3 ∧ basis (2 / 3) (-1) = 1 / 6 ∧ basis (2 / 3) (-2) = 0 := by
  refine ⟨?_, ?_, ?_, ?_⟩ <;> simp [basis, absR] <;> norm_num

/-! ## Permutations -/

/-- `fff_permutation` returns a permutation of `0 … n-1` for every magic number. -/
theorem permutation_valid (n magic : Nat) : (permutation n magic).Perm (List.range n) :=
  permAux_perm n (List.range n) magic (by simp)

/-! ## Order statistics -/

/-- the selection specification is the ascending rearrangement of the fibre -/
theorem sortLe_spec (x : List Rat) : (sortLe x).Perm x ∧ (sortLe x).Pairwise (· ≤ ·) :=
  ⟨sortLe_perm x, sortLe_sorted x⟩

/-- the quantile depends on the fibre's values only, not on the order in which the strided
    view presents them (layout invariance). -/
theorem quantile_perm_invariant (x y : List Rat) (h : x.Perm y) (hlen : 2 ≤ x.length) (r : Rat) (interp : Bool) :
    quantile x r interp = quantile y r interp := by
  have hl := h.length_eq
  have hs : sortLe x = sortLe y := sortLe_eq_of_perm h
  unfold quantile
  have h1 : ¬ x.length = 0 := by omega
  have h2 : ¬ x.length = 1 := by omega
  have h3 : ¬ y.length = 0 := by omega
  have h4 : ¬ y.length = 1 := by omega
  simp only [h1, h2, h3, h4, if_false, hs, hl]

/-- ratio 0 gives the minimum, with or without interpolation -/
theorem quantile_ratio_zero (x : List Rat) (hlen : 2 ≤ x.length) (interp : Bool) :
    quantile x 0 interp = some (.val (nth (sortLe x) 0)) := by
  have h1 : ¬ x.length = 0 := by omega
  have h2 : ¬ x.length = 1 := by omega
  have h0 : ¬ 0 = x.length := by omega
  cases interp <;> simp [quantile, h1, h2, h0, floorNat, ceilNat]

/-- ratio 1 without interpolation is `+∞` (no sample index `≥ n`) -/
theorem quantile_ratio_one_noninterp (x : List Rat) (hlen : 2 ≤ x.length) :
    quantile x 1 false = some .posInf := by
  have h1 : ¬ x.length = 0 := by omega
  have h2 : ¬ x.length = 1 := by omega
  have hf : floorNat ((x.length : Nat) : Rat) = x.length := by
    simp [floorNat]
  simp [quantile, h1, h2, ceilNat, hf]

/-! ## Non-vacuity -/

example : fibreOffsets [2, 3] [3, -1] 1 = [[0, -1, -2], [3, 2, 1]] := by decide +kernel

example : quantile [3, 1, 2, 5] (1 / 2) true = some (.val (5 / 2)) := by decide +kernel
example : quantile [0, 1] (1 / 2) true = some (.val (1 / 2)) := by decide +kernel
example : permutation 4 5 = [1, 2, 0, 3] := by decide +kernel
example : mirroredPosition 3 1 = 1 ∧ mirroredPosition (-1) 1 = 1 := by decide +kernel
/-- the wrapper's choice of `k` is wrong for a non-square `A` (not reachable from Python):
    `A` is 1×2, `A Aᵀ = [5]`, the wrapper sums one term only. -/
example : (fffSyrk .U .N 1 ⟨1, 2, fun _ j => if j = 0 then 1 else 2⟩ 0 ⟨1, 1, fun _ _ => 0⟩).get 0 0 = 1 := by
  decide +kernel

end NipyVerif.C16
