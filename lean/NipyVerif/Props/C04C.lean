/-
C04 (wave 3) — property theorems about the model parts of `NipyVerif.Model.C04C`:
images `as_xyz_image` re-orders before `registration.resample`, the 4-D realignment with time
interpolation, object histories (`Realign4dAlgorithm`, `ImageInterpolator`), resampling between
spaces of different dimension, `VolumeImg` crops / pads.
-/
import NipyVerif.Lemmas.C04C

namespace NipyVerif.C04

/-! ## `as_xyz_image`: every sample stays at its world position -/

/-- `reordered_reference(wo)` + `reordered_axes(ao)` for *any* permutation `ao` of the array axes
    (whatever `io_orientation` chooses): voxel `p` of the re-ordered image is voxel `p ∘ ao⁻¹` of
    the original, holds its sample, and lies at the same world position — the world coordinates
    merely listed in the order `wo`. -/
theorem reorder_same_world (v : Vol) (wo ao aoInv : Fin 3 → Fin 3)
    (h1 : ∀ j, aoInv (ao j) = j) (h2 : ∀ i, ao (aoInv i) = i) (p : Fin 3 → Int) :
    ((v.reorder wo ao aoInv).g.inside p ↔ v.g.inside (fun i => p (aoInv i))) ∧
    (v.reorder wo ao aoInv).g.val p = v.g.val (fun i => p (aoInv i)) ∧
    ∀ i, (v.reorder wo ao aoInv).aff.apply (castPt p) i
      = v.aff.apply (castPt (fun i => p (aoInv i))) (wo i) := by
  refine ⟨?_, rfl, fun i => ?_⟩
  · constructor
    · intro h i
      have := h (aoInv i)
      simpa [Vol.reorder, h2] using this
    · intro h j
      have := h (ao j)
      simpa [Vol.reorder, h1] using this
  · simp only [Vol.reorder, Aff.apply, castPt, sumFin_eq]
    congr 1
    let e : Fin 3 ≃ Fin 3 := ⟨ao, aoInv, h1, h2⟩
    refine Fintype.sum_equiv e.symm _ _ (fun k => ?_) |>.symm
    show v.aff.A (wo i) k * ((p (aoInv k) : Int) : Rat) = v.aff.A (wo i) (ao (aoInv k)) * ((p (aoInv k) : Int) : Rat)
    rw [h2]

/-- `argsort` of a permutation of three axes is its two-sided inverse -/
theorem invPerm3_spec (f : Fin 3 → Fin 3) (h : isPerm3 f = true) :
    (∀ j, invPerm3 f (f j) = j) ∧ (∀ i, f (invPerm3 f i) = i) :=
  invPerm3_inverse f h

/-- `as_xyz_image` (world names in any order, any axis order chosen from `io_orientation`):
    there is a re-indexing `σ` of the voxels and a re-listing `τ` of the world coordinates such
    that voxel `p` of the result is voxel `σ p` of the input, with the same sample, inside iff
    inside, at the same world position.  When the names are already x, y, z the image is returned
    as it is. -/
theorem as_xyz_same_world (v : Vol) (codes ao : Fin 3 → Fin 3) (hc : isPerm3 codes = true)
    (ha : isPerm3 ao = true) :
    ∃ (σ : (Fin 3 → Int) → (Fin 3 → Int)) (τ : Fin 3 → Fin 3),
      (isIdent3 codes = true → v.asXyz codes ao = v) ∧
      (∀ i, codes (τ i) = i) ∧
      ∀ p, ((v.asXyz codes ao).g.inside p ↔ v.g.inside (σ p)) ∧
        (v.asXyz codes ao).g.val p = v.g.val (σ p) ∧
        ∀ i, (v.asXyz codes ao).aff.apply (castPt p) i = v.aff.apply (castPt (σ p)) (τ i) := by
  by_cases hid : isIdent3 codes = true
  · refine ⟨id, id, fun _ => by simp [Vol.asXyz, hid], ?_, fun p => ?_⟩
    · intro i
      have := (isIdent3_iff codes).1 hid i
      simpa using this
    · simp [Vol.asXyz, hid]
  · obtain ⟨a1, a2⟩ := invPerm3_inverse ao ha
    obtain ⟨_, c2⟩ := invPerm3_inverse codes hc
    refine ⟨fun p i => p (invPerm3 ao i), invPerm3 codes, fun h => absurd h hid, c2, fun p => ?_⟩
    have := reorder_same_world v (invPerm3 codes) ao (invPerm3 ao) a1 a2 p
    simpa [Vol.asXyz, hid] using this

/-- `registration.resample` on re-ordered images, world-to-world transform: the location
    sampled in `as_xyz_image(moving)` for voxel `v` of `as_xyz_image(reference)` lies at the
    world position `T(world position of v)` — both in x, y, z order. -/
theorem registration_reordered_samples_mapped_world (mov ref : Vol) (cm am cr ar : Fin 3 → Fin 3)
    (movInv T : Aff 3 3)
    (hinv : ∀ y, (mov.asXyz cm am).aff.apply (movInv.apply y) = y) (v : Vec 3) :
    (mov.asXyz cm am).aff.apply ((regMapX ref cr ar movInv T false false).apply v)
      = T.apply ((ref.asXyz cr ar).aff.apply v) := by
  unfold regMapX
  rw [registration_spec]
  simp [hinv]

/-- … end to end on the arrays as handed over: when that location is the grid point `p` of the
    re-ordered moving array, the sample read is the one the *original* moving array holds at
    `σ p`, whose world position (coordinates in the listed order, `τ`) is `T` of the world
    position of the original reference voxel. -/
theorem registration_reordered_lookup (I : Interp 3) (mov ref : Vol) (cm am cr ar : Fin 3 → Fin 3)
    (hcm : isPerm3 cm = true) (ham : isPerm3 am = true)
    (movInv T : Aff 3 3) (hinv : ∀ y, (mov.asXyz cm am).aff.apply (movInv.apply y) = y)
    (v p : Fin 3 → Int) (hp : (regMapX ref cr ar movInv T false false).apply (castPt v) = castPt p)
    (hin : (mov.asXyz cm am).g.inside p) :
    ∃ (σ : (Fin 3 → Int) → (Fin 3 → Int)) (τ : Fin 3 → Fin 3),
      resampled I (mov.asXyz cm am).g (regMapX ref cr ar movInv T false false) v = mov.g.val (σ p) ∧
      mov.g.inside (σ p) ∧
      ∀ i, mov.aff.apply (castPt (σ p)) (τ i) = T.apply ((ref.asXyz cr ar).aff.apply (castPt v)) i := by
  obtain ⟨σ, τ, _, _, h⟩ := as_xyz_same_world mov cm am hcm ham
  obtain ⟨hi, hv, hw⟩ := h p
  refine ⟨σ, τ, ?_, hi.1 hin, fun i => ?_⟩
  · unfold resampled
    rw [hp, I.at_lattice _ p hin, hv]
  · rw [← hw i, ← hp, registration_reordered_samples_mapped_world mov ref cm am cr ar movInv T hinv]

/-! ## 4-D realignment with time interpolation -/

/-- `interp_slice_times` at a slice of the stack is that slice's acquisition time -/
theorem interp_slice_times_at_slice (st : Array Rat) (tr : Rat) (z : Nat) (hz : z < st.size) :
    interpSliceTimes st tr ((z : Int) : Rat) = st.getD z 0 := by
  have := interpSliceTimes_between st tr z hz 0 (le_refl 0) (by norm_num)
  simpa using this

/-- … and between two slices it interpolates linearly (the last slice towards the first slice of
    the next scan, `slice_times[0] + tr`) -/
theorem interp_slice_times_linear (st : Array Rat) (tr : Rat) (z : Nat) (hz : z < st.size) (w : Rat)
    (h0 : 0 ≤ w) (h1 : w < 1) :
    interpSliceTimes st tr (((z : Int) : Rat) + w) =
      (1 - w) * st.getD z 0 + w * (if z + 1 < st.size then st.getD (z + 1) 0 else st.getD 0 0 + tr) :=
  interpSliceTimes_between st tr z hz w h0 h1

/-- `scanner_time` for scan `k` (timestamp `tr · k`) at the array's slice coordinate `z`: scan
    index minus the slice's acquisition delay in units of `tr`; the slice is counted from the
    other end when `slice_direction < 0` -/
theorem scanner_time_at_slice (st : Array Rat) (tr : Rat) (htr : tr ≠ 0) (dir : Int) (z : Nat)
    (hz : z < st.size) (k : Nat) :
    scannerTime st tr dir ((z : Int) : Rat) (tr * ((k : Int) : Rat)) =
      ((k : Int) : Rat) - st.getD (if dir < 0 then st.size - 1 - z else z) 0 / tr := by
  unfold scannerTime zToSlice
  by_cases hd : dir < 0
  · simp only [hd, if_true]
    have e : (((st.size : Nat) : Int) : Rat) - 1 - ((z : Int) : Rat) = (((st.size - 1 - z : Nat) : Int) : Rat) := by
      have : ((st.size - 1 - z : Nat) : Int) = (st.size : Int) - 1 - (z : Int) := by omega
      rw [this]; push_cast; ring
    rw [e, interp_slice_times_at_slice st tr _ (by omega)]
    field_simp
  · simp only [hd, if_false]
    rw [interp_slice_times_at_slice st tr z hz]
    field_simp

/-- synchronous slices acquired at the scan's time stamp: the time coordinate is the scan index -/
theorem scanner_time_sync (st : Array Rat) (tr : Rat) (htr : tr ≠ 0) (dir : Int) (z : Nat)
    (hz : z < st.size) (h0 : ∀ i, st.getD i 0 = 0) (k : Nat) :
    scannerTime st tr dir ((z : Int) : Rat) (tr * ((k : Int) : Rat)) = ((k : Int) : Rat) := by
  rw [scanner_time_at_slice st tr htr dir z hz k, h0]
  simp

/-- `cubic_spline_sample4d` at an integer point, for every quadruple of boundary modes: when the
    coefficients are the 4-D B-spline coefficients of the samples `s`, the sampler returns the
    sample each axis' mode designates and `0` as soon as one axis refuses. -/
theorem cs_sample4_lattice_lookup (mx my mz mt dx dy dz dt : Nat) (coef s : Nat → Nat → Nat → Nat → Rat)
    (hc : IsSplineCoef4 dx dy dz dt coef s) (x y z t : Int) :
    csSample4 (2 / 3) mx my mz mt dx dy dz dt coef (x : Rat) (y : Rat) (z : Rat) (t : Rat) =
      optSample4 s (csExtIndex mx dx x) (csExtIndex my dy y) (csExtIndex mz dz z) (csExtIndex mt dt t) := by
  unfold csSample4 csSample3
  have hA : (fun l => csSample1 (2 / 3) mz dz (fun k => csSample1 (2 / 3) my dy (fun j =>
        csSample1 (2 / 3) mx dx (fun i => coef i j k l) (x : Rat)) (y : Rat)) (z : Rat))
      = fun l => optTap dz (fun k => optTap dy (fun j => optTap dx (fun i => coef i j k l)
          (csExtIndex mx dx x)) (csExtIndex my dy y)) (csExtIndex mz dz z) := by
    funext l
    have h1 : (fun k => csSample1 (2 / 3) my dy (fun j => csSample1 (2 / 3) mx dx (fun i => coef i j k l) (x : Rat)) (y : Rat))
        = fun k => optTap dy (fun j => optTap dx (fun i => coef i j k l) (csExtIndex mx dx x)) (csExtIndex my dy y) := by
      funext k
      have h2 : (fun j => csSample1 (2 / 3) mx dx (fun i => coef i j k l) (x : Rat))
          = fun j => optTap dx (fun i => coef i j k l) (csExtIndex mx dx x) := by
        funext j; exact cs_sample1_lattice mx dx _ x
      rw [h2]
      exact cs_sample1_lattice my dy _ y
    rw [h1]
    exact cs_sample1_lattice mz dz _ z
  rw [hA, cs_sample1_lattice mt dt _ t]
  cases hx : csExtIndex mx dx x with
  | none => simp [optTap_none, optTap_zero, optSample4]
  | some i =>
    cases hy : csExtIndex my dy y with
    | none => simp [optTap_none, optTap_zero, optSample4]
    | some j =>
      cases hz : csExtIndex mz dz z with
      | none => simp [optTap_none, optTap_zero, optSample4]
      | some k =>
        cases ht : csExtIndex mt dt t with
        | none => simp [optTap_none, optSample4]
        | some l =>
          simp only [optTap, optSample4]
          exact hc i j k l (csExtIndex_le _ _ _ _ hx) (csExtIndex_le _ _ _ _ hy) (csExtIndex_le _ _ _ _ hz)
            (csExtIndex_le _ _ _ _ ht)

/-- `Realign4dAlgorithm.resample(t)` with time interpolation, identity transform and
    synchronous slices: the working-grid point `v` of scan `k` is sampled at `(v, k)`, whatever
    the slice axis and direction — so the resampling reproduces the input
    (with `cs_sample4_lattice_lookup`). -/
theorem realign4_identity_sync (affInv aff : Aff 3 3) (hinv : ∀ x, affInv.apply (aff.apply x) = x)
    (st : Array Rat) (tr : Rat) (htr : tr ≠ 0) (dir : Int) (ax : Fin 3) (k : Nat) (v : Fin 3 → Nat)
    (hz : v ax < st.size) (h0 : ∀ i, st.getD i 0 = 0) :
    realign4Coords (realignMap affInv (Aff.ident 3) aff) st tr dir ax k (fun i => (v i : Int)) =
      fun i => if h : i.val < 3 then (((v ⟨i.val, h⟩ : Nat) : Int) : Rat) else ((k : Int) : Rat) := by
  funext i
  unfold realign4Coords
  simp only [realign_identity affInv aff hinv]
  by_cases h : i.val < 3
  · simp [h, castPt]
  · simp only [h, dif_neg, not_false_eq_true]
    have : castPt (fun i => (v i : Int)) ax = (((v ax : Nat) : Int) : Rat) := rfl
    rw [this]
    exact scanner_time_sync st tr htr dir (v ax) hz h0 k

/-- … with slice timing: the time coordinate of a grid point on slice `z` of the declared slice
    axis is `k - slice_time / tr`: each voxel is read at the acquisition time of its own slice. -/
theorem realign4_time_of_slice (M : Aff 3 3) (st : Array Rat) (tr : Rat) (htr : tr ≠ 0) (dir : Int)
    (ax : Fin 3) (k : Nat) (v : Fin 3 → Int) (z : Nat) (hz : z < st.size)
    (hM : M.apply (castPt v) ax = ((z : Int) : Rat)) :
    realign4Coords M st tr dir ax k v 3 =
      ((k : Int) : Rat) - st.getD (if dir < 0 then st.size - 1 - z else z) 0 / tr := by
  unfold realign4Coords
  simp only [show ¬ ((3 : Fin 4).val < 3) by decide, dif_neg, not_false_eq_true]
  rw [hM]
  exact scanner_time_at_slice st tr htr dir z hz k

/-! ## `Realign4dAlgorithm`: histories on one object -/

/-- `resample(t)` and `set_transform(t, ·)` rewrite column `t` only; an edit of a transform by
    the caller rewrites no column -/
theorem alg_step_other_columns (s : AlgState) (op : AlgOp) (u : Nat)
    (h : match op with | .resample t => t ≠ u | .setTransform t _ => t ≠ u | .edit _ _ => True) :
    (s.step op).col u = s.col u := by
  cases op with
  | resample t => simp only [AlgState.step]; rw [if_neg (fun e => h e.symm)]
  | setTransform t id => simp only [AlgState.step]; rw [if_neg (fun e => h e.symm)]
  | edit t id => rfl

/-- after `resample(t)` / `set_transform(t, ·)` column `t` reflects the current transform -/
theorem alg_step_fresh (s : AlgState) (t id : Nat) :
    ((s.step (.resample t)).col t = some ((s.step (.resample t)).cur t)) ∧
    ((s.step (.setTransform t id)).col t = some id ∧ (s.step (.setTransform t id)).cur t = id) := by
  simp [AlgState.step]

/-- a scan that was never resampled has a zero column, whatever else happened to the object -/
theorem alg_untouched_column (ops : List AlgOp) (t : Nat)
    (h : ∀ op ∈ ops, match op with | .resample u => u ≠ t | .setTransform u _ => u ≠ t | .edit _ _ => True) :
    (AlgState.init.run ops).col t = none := by
  unfold AlgState.run
  induction ops using List.reverseRecOn with
  | nil => rfl
  | append_singleton l op ih =>
    rw [List.foldl_append]
    simp only [List.foldl_cons, List.foldl_nil]
    rw [alg_step_other_columns _ op t (h op (by simp))]
    exact ih (fun o ho => h o (by simp [ho]))

/-- the column of scan `t` reflects the *current* transform of scan `t` after any history in
    which the last operation on scan `t` other than `resample(t)` was followed by a
    `resample(t)` / was a `set_transform` — i.e. whenever the history ends with `pre ++ [op] ++
    post`, `op` (re)sampling `t` and `post` not editing scan `t`'s transform.  (After a caller's
    edit without `resample` the column is outdated: the model reports that as `!`.) -/
theorem alg_column_current (pre post : List AlgOp) (op : AlgOp) (t : Nat)
    (hop : (∃ id, op = .setTransform t id) ∨ op = .resample t)
    (hpost : ∀ o ∈ post, match o with
      | .resample _ => True | .setTransform u _ => u ≠ t | .edit u _ => u ≠ t) :
    let s := AlgState.init.run (pre ++ [op] ++ post)
    s.col t = some (s.cur t) := by
  intro s
  show (AlgState.init.run (pre ++ [op] ++ post)).col t = some ((AlgState.init.run (pre ++ [op] ++ post)).cur t)
  unfold AlgState.run
  induction post using List.reverseRecOn with
  | nil =>
    simp only [List.append_nil, List.foldl_append, List.foldl_cons, List.foldl_nil]
    rcases hop with ⟨id, rfl⟩ | rfl <;> simp [AlgState.step]
  | append_singleton l o ih =>
    have ih' := ih (fun o' ho' => hpost o' (by simp [ho']))
    have ho := hpost o (by simp)
    rw [← List.append_assoc, List.foldl_append]
    simp only [List.foldl_cons, List.foldl_nil]
    cases o with
    | resample u =>
      by_cases hu : u = t
      · subst hu; simp [AlgState.step]
      · simp only [AlgState.step, if_neg (Ne.symm hu)]
        exact ih'
    | setTransform u id =>
      have hu : ¬ t = u := fun e => ho e.symm
      simp only [AlgState.step, hu, if_false]
      exact ih'
    | edit u id =>
      have hu : ¬ t = u := fun e => ho e.symm
      simp only [AlgState.step, hu, if_false]
      exact ih'

/-! ## `ImageInterpolator`: histories on one object -/

/-- one operation keeps `order` and `mode` (they are read-only), and keeps the fill value baked
    into a `grid-constant` pre-pad equal to the current `cval` -/
theorem interp_step_invariants {n : Nat} (s : IState n) (op : IOp n)
    (hc : s.bakesCval = true → s.padCval = s.cval) :
    let s' := (s.step op).getD s
    s'.order = s.order ∧ s'.mode = s.mode ∧ (s'.bakesCval = true → s'.padCval = s'.cval) := by
  cases op with
  | evaluate pts => exact ⟨rfl, rfl, hc⟩
  | setCval c =>
    simp only [IState.step]
    by_cases hb : (s.bakesCval && decide (c ≠ s.cval)) = true
    · rw [if_pos hb]
      exact ⟨rfl, rfl, fun _ => rfl⟩
    · rw [if_neg hb]
      refine ⟨rfl, rfl, fun hb' => ?_⟩
      have hb'' : s.bakesCval = true := hb'
      have : c = s.cval := by
        by_contra hne
        apply hb
        simp [hb'', hne]
      show s.padCval = c
      rw [this]; exact hc hb''
  | editImage g => exact ⟨rfl, rfl, hc⟩
  | setOrder k => exact ⟨rfl, rfl, hc⟩
  | setMode m => exact ⟨rfl, rfl, hc⟩

/-- after ANY history of `evaluate` / `cval` edits / edits of the image data by the caller /
    attempts to set `order` or `mode`: order and mode are those of the constructor, and a
    pre-pad that depends on the fill value was built with the *current* fill value (the clause
    the plain `cval` attribute violated) -/
theorem interp_history_invariants {n : Nat} (img : Grid n) (order : Nat) (mode : String) (cval : Rat)
    (ops : List (IOp n)) :
    let s := (IState.new img order mode cval).run ops
    s.order = order ∧ s.mode = mode ∧ (s.bakesCval = true → s.padCval = s.cval) := by
  show ((IState.new img order mode cval).run ops).order = order ∧ _
  unfold IState.run
  induction ops using List.reverseRecOn with
  | nil => exact ⟨rfl, rfl, fun _ => rfl⟩
  | append_singleton l op ih =>
    rw [List.foldl_append]
    simp only [List.foldl_cons, List.foldl_nil]
    obtain ⟨h1, h2, h3⟩ := ih
    obtain ⟨g1, g2, g3⟩ := interp_step_invariants _ op h3
    exact ⟨g1.trans h1, g2.trans h2, g3⟩

/-- … hence every knot of the padded array holds what `grid-constant` with the current fill
    value reads there: samples of the snapshot inside, the current `cval` around it -/
theorem interp_history_knots_fill {n : Nat} (img : Grid n) (order : Nat) (cval : Rat) (ops : List (IOp n))
    (q : Fin n → Int) :
    let s := (IState.new img order "grid-constant" cval).run ops
    s.knots.inside q →
      s.knots.val q = extValue .gridConstant s.cval s.snap (fun i => q i - ((nPrepad order "grid-constant" : Nat) : Int)) := by
  intro s hq
  obtain ⟨ho, hm, hc⟩ := interp_history_invariants img order "grid-constant" cval ops
  have ho' : s.order = order := ho
  have hm' : s.mode = "grid-constant" := hm
  have hk : s.knots = padConst s.snap (nPrepad order "grid-constant") s.padCval := by
    simp [IState.knots, knots, ho', hm']
  rw [hk, prepad_const_is_grid_constant]
  by_cases hp : nPrepad order "grid-constant" = 0
  · -- no pre-pad: the knot array is the snapshot itself, `q` lies inside it
    have hq' : s.snap.inside (fun i => q i - ((nPrepad order "grid-constant" : Nat) : Int)) := by
      intro i
      have := hq i
      rw [hk] at this
      simp only [padConst, hp] at this ⊢
      omega
    have hall : (List.finRange n).all (fun i => (extIndex .gridConstant (s.snap.shape i)
        (q i - ((nPrepad order "grid-constant" : Nat) : Int))).isSome) = true := by
      rw [List.all_eq_true]
      intro i _
      rw [extIndex_inside _ _ _ (hq' i).1 (hq' i).2]
      rfl
    simp only [extValue, extPoint, if_pos hall]
  · have hb : s.bakesCval = true := by
      simp [IState.bakesCval, ho', hm', hp]
    have : s.padCval = s.cval := hc hb
    rw [this]

/-- `evaluate` at the world position of a voxel of the snapshot returns the snapshot's sample,
    after any history (order / mode / fill value / pre-pad notwithstanding) -/
theorem interp_history_evaluate_lattice {n : Nat} (I : Interp n) (img : Grid n) (order : Nat)
    (mode : String) (cval : Rat) (ops : List (IOp n)) (src srcInv : Aff n n)
    (hinv : ∀ x, srcInv.apply (src.apply x) = x) (p : Fin n → Int) :
    let s := (IState.new img order mode cval).run ops
    s.snap.inside p →
      I.eval s.knots (evalCoords srcInv s.order s.mode (src.apply (castPt p))) = s.snap.val p := by
  intro s hp
  exact interpolator_lattice I s.snap src srcInv hinv s.order s.mode s.padCval p hp

/-- the snapshot is the image data of the constructor call unless a `cval` edit had to rebuild
    a fill-value-dependent pre-pad (then it is the image data at that moment): in particular for
    every mode other than `grid-constant`, and for orders 0 and 1, edits of the image data made
    after construction are never seen -/
theorem interp_history_snapshot {n : Nat} (img : Grid n) (order : Nat) (mode : String) (cval : Rat)
    (ops : List (IOp n)) (h : mode ≠ "grid-constant" ∨ nPrepad order mode = 0) :
    ((IState.new img order mode cval).run ops).snap = img := by
  have step : ∀ (s : IState n) (op : IOp n), s.bakesCval = false →
      ((s.step op).getD s).snap = s.snap ∧ ((s.step op).getD s).bakesCval = false := by
    intro s op hb
    cases op with
    | evaluate pts => exact ⟨rfl, hb⟩
    | setCval c =>
      have e : s.step (.setCval c) = some { s with cval := c } := by
        simp [IState.step, hb]
      rw [e]
      exact ⟨rfl, hb⟩
    | editImage g => exact ⟨rfl, hb⟩
    | setOrder k => exact ⟨rfl, hb⟩
    | setMode m => exact ⟨rfl, hb⟩
  have hb0 : (IState.new img order mode cval).bakesCval = false := by
    rcases h with h | h
    · simp [IState.bakesCval, IState.new, h]
    · simp [IState.bakesCval, IState.new, h]
  have key : ∀ (l : List (IOp n)), ((IState.new img order mode cval).run l).snap = img ∧
      ((IState.new img order mode cval).run l).bakesCval = false := by
    intro l
    unfold IState.run
    induction l using List.reverseRecOn with
    | nil => exact ⟨rfl, hb0⟩
    | append_singleton l' op ih =>
      rw [List.foldl_append]
      simp only [List.foldl_cons, List.foldl_nil]
      obtain ⟨g1, g2⟩ := step _ op ih.2
      exact ⟨g1.trans ih.1, g2⟩
  exact (key ops).1

/-! ## `algorithms.resample.resample` between spaces of different dimension -/

/-- image with `n` axes, worlds of `n` and `m` coordinates, target grid with `k` axes: the map
    handed to the interpolation is target voxel → target world → (mapping) → image world → image
    voxel, for every combination of dimensions (slices and curves through a volume, a volume
    replicated along an extra axis, …) -/
theorem resample_general_pipeline_spec {n m k : Nat} (srcInv : Aff n n) (mapping : Aff n m) (tgt : Aff m k)
    (v : Vec k) :
    (resampleMapG srcInv mapping tgt).apply v = srcInv.apply (mapping.apply (tgt.apply v)) := by
  unfold resampleMapG
  rw [Aff.apply_comp, Aff.apply_comp]

/-- … so the sampled source location lies at the mapped world position of the target voxel -/
theorem resample_general_samples_mapped_world {n m k : Nat} (src srcInv : Aff n n) (mapping : Aff n m)
    (tgt : Aff m k) (hinv : ∀ y, src.apply (srcInv.apply y) = y) (v : Vec k) :
    src.apply ((resampleMapG srcInv mapping tgt).apply v) = mapping.apply (tgt.apply v) := by
  rw [resample_general_pipeline_spec, hinv]

/-- which routine runs: `ndimage.affine_transform` exactly for an affine mapping onto a grid
    that does not have one axis more than the image -/
theorem resample_general_path_iff (mk : MKind) (n k : Nat) :
    resamplePathG mk n k = .affineTransform ↔ (mk ≠ .callable ∧ k ≠ n + 1) := by
  unfold resamplePathG
  by_cases h1 : mk = .callable <;> by_cases h2 : k = n + 1 <;> simp [h1, h2]

/-- both routines sample the same location: the coordinates the interpolator branch hands to
    `map_coordinates`, less the pre-pad offset, are the voxel map of the other branch -/
theorem resample_general_branches_agree {n m k : Nat} (srcInv : Aff n n) (mapping : Aff n m) (tgt : Aff m k)
    (order : Nat) (mode : String) (v : Fin k → Int) (i : Fin n) :
    resampleInterpCoordsG srcInv mapping tgt order mode v i - ((nPrepad order mode : Nat) : Rat)
      = (resampleMapG srcInv mapping tgt).apply (castPt v) i := by
  rw [resample_general_pipeline_spec]
  simp [resampleInterpCoordsG, evalCoords]

/-- the square case is the old model -/
theorem resample_general_square {n k : Nat} (srcInv mapping : Aff n n) (tgt : Aff n k) :
    resampleMapG srcInv mapping tgt = resampleMap srcInv mapping tgt := rfl

/-- lattice clause in any dimensions: a grid point mapped onto an array index holds the stored
    sample (every interpolation scheme) -/
theorem resample_general_lattice {n m k : Nat} (I : Interp n) (g : Grid n) (srcInv : Aff n n)
    (mapping : Aff n m) (tgt : Aff m k) (v : Fin k → Int) (p : Fin n → Int)
    (hp : srcInv.apply (mapping.apply (tgt.apply (castPt v))) = castPt p) (hin : g.inside p) :
    resampled I g (resampleMapG srcInv mapping tgt) v = g.val p := by
  unfold resampled
  rw [resample_general_pipeline_spec, hp, I.at_lattice g p hin]

/-! ## Non-vacuity -/

example : isPerm3 (permOfList [2, 0, 1]) = true ∧ invPerm3 (permOfList [2, 0, 1]) 0 = 1 := by decide
example : (Vol.asXyz ⟨⟨fun i => i.val + 2, fun p => ((p 0 + 10 * p 2 : Int) : Rat)⟩,
    ⟨fun i j => if i = j then 1 else 0, fun _ => 0⟩⟩ (permOfList [2, 1, 0]) (permOfList [2, 1, 0])).g.shape 0 = 4 := by
  decide

-- slice timing: three slices acquired at 0, 1/2, 1 of a TR of 2, read downwards
example : scannerTime #[0, 1 / 2, 1] 2 (-1) 0 (2 * 3) = 3 - 1 / 2 ∧ scannerTime #[0, 1 / 2, 1] 2 1 (1 / 2) 0 = -1 / 8 := by
  decide +kernel
-- a history: scan 1 re-sampled, then its transform edited by the caller: the column is outdated
example : ((AlgState.init.run [.setTransform 1 3, .resample 0, .edit 1 4]).col 1,
    (AlgState.init.run [.setTransform 1 3, .resample 0, .edit 1 4]).cur 1) = (some 3, 4) := by decide
-- 4-D spline coefficients: a constant array is its own coefficient array
example : IsSplineCoef4 1 0 2 1 (fun _ _ _ _ => 5) (fun _ _ _ _ => 5) := by
  intro i j k l _ _ _ _
  simp [csTap]; norm_num

-- an interpolator history: the fill value edited twice, the image data once in between
def exHist : IState 1 := (IState.new (gridOfFlat 1 [3] #[1, 2, 3]) 3 "grid-constant" 7).run
  [IOp.setCval 5, IOp.editImage (gridOfFlat 1 [3] #[4, 5, 6]), IOp.setOrder 1, IOp.setCval 9]
example : (exHist.cval, exHist.padCval, exHist.order, exHist.snap.val (fun _ => 0)) = (9, 9, 3, 4) := by
  decide +kernel

-- a 3-D image on a 4-D grid goes through the interpolator, a 2-D slice of it does not
example : resamplePathG .matrix 3 4 = .interpolator ∧ resamplePathG .matrix 3 2 = .affineTransform ∧
    resamplePathG .callable 3 3 = .interpolator := by decide

end NipyVerif.C04
