/-
C03 (extension) — header carry-over as state, the tables regenerated from the source, the
`raise NiftiError` sites.

`nipy2nifti` copies the header an image carries from a previous load and overwrites it field by
field (`Model/C03H.lean`).  The theorems below say, for EVERY incoming header `start`
(any earlier NIfTI / Analyze header: toffset, xyzt_units, dim_info, pixdim[0:8], sform/qform and
codes, scaling, intent, dtype, extra dimensions …):

* the conversion refuses exactly when the header-free model (`Model/C03.lean`) refuses, at the
  same `raise` site;
* every geometry-bearing field of the output is a function of the image alone;
* what `nifti2nipy` reads from the output is the header-free model's header (rounded to the
  float32 storage), so the round-trip theorems of `Props/C03.lean` hold for images with a history;
* which fields are carried over from `start`.

Parameters throughout: `orient` (io_orientation), `sq` (np.sqrt), `quatOf` (quaternion of
`set_qform`), `rnd` (rounding to float32 header storage), `qaff` (quaternion → matrix).
-/
import NipyVerif.Lemmas.C03H
import NipyVerif.Gen.C03Tables

namespace NipyVerif.C03

variable (strict fix : Bool) (orient : Mat → List (Option Nat)) (sq rnd : Rat → Rat)
  (quatOf : Mat → List Rat) (qaff : Raw → Mat)

/-! ## The geometry-bearing part of a nibabel image -/

/-- every place geometry is stored in (`srow_*` counts only when `sform_code` says it is used) -/
structure Geo where
  shape : List Nat
  pixdim : List Rat          -- pixdim[0 : ndim+1] (entries beyond the dimensions are unused by NIfTI)
  sformCode : Nat
  qformCode : Nat
  srow : Option Mat
  quat : List Rat
  qoffset : List Rat
  toffset : Rat
  sunits : String
  tunits : String
  dimInfo : Option Nat × Option Nat × Option Nat
  affine : Mat
  axes : List (Option Nat)
deriving DecidableEq

def geoOf (ni : NiImg) : Geo :=
  { shape := ni.hdr.shape, pixdim := ni.hdr.pix03 ++ ni.hdr.pixNs.take (ni.hdr.shape.length - 3),
    sformCode := ni.hdr.sformCode,
    qformCode := ni.hdr.qformCode, srow := if ni.hdr.sformCode = 0 then none else some ni.hdr.srow,
    quat := ni.hdr.quat, qoffset := ni.hdr.qoffset, toffset := ni.hdr.toffset, sunits := ni.hdr.sunits,
    tunits := ni.hdr.tunits, dimInfo := (ni.hdr.freq, ni.hdr.phase, ni.hdr.slice), affine := ni.affine,
    axes := ni.axes }

/-- the geometry `nipy2nifti` writes for the header-free model's header `h` of an image with xyz
    affine `xyz`: no incoming header in sight -/
def geoSpec (xyz : Mat) (h : Hdr) : Geo :=
  { shape := h.shape,
    pixdim := (qfacOf xyz :: (zooms3 sq xyz).map rnd) ++ h.pixdim.map rnd,
    sformCode := h.sform, qformCode := h.qform,
    srow := if h.sform = 0 then none else some ((xyz.take 3).map (fun row => row.map rnd)),
    quat := (quatOf xyz).map rnd, qoffset := (List.range 3).map (fun r => rnd (entry xyz r 3)),
    toffset := rnd h.toffset, sunits := h.sunits, tunits := h.tunits, dimInfo := (h.freq, h.phase, h.slice),
    affine := h.affine, axes := h.axes }

theorem geoOf_assemble (g : Img) (start : Raw) (dt : String) (xyz : Mat) (h : Hdr)
    (hl : h.pixdim.length = h.shape.length - 3) :
    geoOf (assemble sq rnd quatOf g start dt xyz h) = geoSpec sq rnd quatOf xyz h := by
  have : (h.pixdim.map rnd ++ tailOf g start h).take (h.shape.length - 3) = h.pixdim.map rnd := by
    rw [← hl]; exact List.take_left' (by simp)
  by_cases hs : h.sform = 0 <;> simp [geoOf, geoSpec, assemble, assembleHdr, hs, this]

/-- `pixdim[4:]` written by the header-free model has one entry per non-spatial array axis -/
theorem body_pixdim_length (g : Img) (h : Hdr) (hshape : g.shape.length = g.n) (hn : 3 ≤ g.n)
    (hb : body strict fix orient sq g = .ok h) : h.pixdim.length = h.shape.length - 3 := by
  obtain ⟨_, _, xyz, sf, qf, _, _, _, hcase⟩ := body_ok_inv hb
  rcases hcase with ⟨h0, hh⟩ | ⟨_, hf⟩
  · subst hh; simp [header0]; omega
  · rcases finish_ok_inv hf with ⟨_, _, hh⟩ | ⟨tl, _, _, hh⟩
    · subst hh
      simp [noTimeHdr, header0, pixdims_length, List.length_take, List.length_drop]; omega
    · subst hh
      have : (g.shape.take 3).length = 3 := by simp [List.length_take]; omega
      simp [timeHdr, header0, pick_length, this]

/-! ## Direction 1: geometry is a function of the image alone -/

/-- **closed form** (restated from `Lemmas/C03H`): on any incoming header the body of `nipy2nifti`
    refuses exactly when the header-free model refuses, with the same error, and otherwise produces
    `assemble start dt xyz h` where `h` is the header-free model's header. -/
theorem nipy2nifti_on_any_header (g : Img) (dt : String) (start : Raw)
    (hshape : g.shape.length = g.n) (hn : 3 ≤ g.n) :
    bodyR strict fix orient sq rnd quatOf g dt start =
      match body strict fix orient sq g with
      | .ok h => .ok (assemble sq rnd quatOf g start dt (xyzBlock g) h)
      | .error e => .error e :=
  bodyR_closed strict fix orient sq rnd quatOf g dt start hshape hn

/-- **`header_geometry_independent`**: for every pair of incoming headers (and storage dtypes) the
    geometry-bearing fields of the output — sform/qform and codes, pixdim[0:8], toffset, space and
    time units, dim_info, shape, the image affine and the data axes — are equal, and a refusal is the
    same refusal.  (`g` is the image after `as_xyz_image`.) -/
theorem header_geometry_independent (g : Img) (dt₁ dt₂ : String) (start₁ start₂ : Raw)
    (hshape : g.shape.length = g.n) (hn : 3 ≤ g.n) :
    (bodyR strict fix orient sq rnd quatOf g dt₁ start₁).map geoOf =
      (bodyR strict fix orient sq rnd quatOf g dt₂ start₂).map geoOf := by
  rw [bodyR_closed strict fix orient sq rnd quatOf g dt₁ start₁ hshape hn,
      bodyR_closed strict fix orient sq rnd quatOf g dt₂ start₂ hshape hn]
  cases hbody : body strict fix orient sq g with
  | error e => rfl
  | ok h =>
    have hl := body_pixdim_length strict fix orient sq g h hshape hn hbody
    simp [Except.map, geoOf_assemble sq rnd quatOf g _ _ _ h hl]

/-- the geometry written is `geoSpec`, an explicit function of the image -/
theorem written_geometry_spec (g : Img) (dt : String) (start : Raw) (ni : NiImg)
    (hshape : g.shape.length = g.n) (hn : 3 ≤ g.n)
    (hb : bodyR strict fix orient sq rnd quatOf g dt start = .ok ni) :
    ∃ h, body strict fix orient sq g = .ok h ∧ geoOf ni = geoSpec sq rnd quatOf (xyzBlock g) h := by
  rw [bodyR_closed strict fix orient sq rnd quatOf g dt start hshape hn] at hb
  cases hbody : body strict fix orient sq g with
  | error e => rw [hbody] at hb; cases hb
  | ok h =>
    rw [hbody] at hb
    cases hb
    exact ⟨h, rfl, geoOf_assemble sq rnd quatOf g start dt _ h
      (body_pixdim_length strict fix orient sq g h hshape hn hbody)⟩

/-- **refusal does not depend on the header**: same `raise` site whatever the image carries -/
theorem refusal_independent_of_header (g : Img) (dt₁ dt₂ : String) (start₁ start₂ : Raw) (e : Err)
    (hshape : g.shape.length = g.n) (hn : 3 ≤ g.n)
    (h : bodyR strict fix orient sq rnd quatOf g dt₁ start₁ = .error e) :
    bodyR strict fix orient sq rnd quatOf g dt₂ start₂ = .error e := by
  rw [bodyR_closed strict fix orient sq rnd quatOf g dt₁ start₁ hshape hn] at h
  rw [bodyR_closed strict fix orient sq rnd quatOf g dt₂ start₂ hshape hn]
  cases hbody : body strict fix orient sq g with
  | error e' => rw [hbody] at h; exact h
  | ok hh => rw [hbody] at h; cases h

/-- the header-free model's header, as stored (float32 `pixdim` and `toffset`) -/
def roundHdr (h : Hdr) : Hdr := { h with pixdim := h.pixdim.map rnd, toffset := rnd h.toffset }

/-- **refinement**: what `nifti2nipy` reads (`view`) from the image produced on any incoming header
    is the header-free model's header with `pixdim` / `toffset` in storage precision.  Hence
    `roundtrip_3d / roundtrip_no_time / roundtrip_time` of `Props/C03.lean` describe the image loaded
    back whatever header the saved image carried (`rnd := id` gives them verbatim). -/
theorem view_refines_headerfree (g : Img) (dt : String) (start : Raw)
    (hshape : g.shape.length = g.n) (hn : 3 ≤ g.n) :
    (bodyR strict fix orient sq rnd quatOf g dt start).map view =
      (body strict fix orient sq g).map (roundHdr rnd) := by
  rw [bodyR_closed strict fix orient sq rnd quatOf g dt start hshape hn]
  cases hbody : body strict fix orient sq g with
  | error e => rfl
  | ok h =>
    have hl := body_pixdim_length strict fix orient sq g h hshape hn hbody
    have : (h.pixdim.map rnd ++ tailOf g start h).take (h.shape.length - 3) = h.pixdim.map rnd := by
      rw [← hl]; exact List.take_left' (by simp)
    simp [Except.map, view, assemble, assembleHdr, roundHdr, this]

/-- with exact storage the refinement is an equality with the header-free model -/
theorem view_refines_headerfree_exact (g : Img) (dt : String) (start : Raw)
    (hshape : g.shape.length = g.n) (hn : 3 ≤ g.n) :
    (bodyR strict fix orient sq id quatOf g dt start).map view = body strict fix orient sq g := by
  rw [view_refines_headerfree strict fix orient sq id quatOf g dt start hshape hn]
  cases body strict fix orient sq g with
  | error e => rfl
  | ok h => simp [Except.map, roundHdr]

/-- **the time offset is never inherited**: `toffset` of the output is the (stored) offset of the
    image's own `t` axis, and `rnd 0` when the image has no `t` axis with a non-zero offset — whatever
    `toffset` the incoming header held. -/
theorem toffset_from_image_only (g : Img) (dt : String) (start : Raw) (ni : NiImg)
    (hshape : g.shape.length = g.n) (hn : 3 ≤ g.n)
    (hb : bodyR strict fix orient sq rnd quatOf g dt start = .ok ni) :
    (g.n - 3 = 0 → ni.hdr.toffset = rnd 0) ∧
    (findTimeLike orient fix g = .ok none → ni.hdr.toffset = rnd 0) ∧
    (∀ tl, findTimeLike orient fix g = .ok (some tl) → g.n - 3 ≠ 0 →
        ni.hdr.toffset = rnd (toffsetOf g tl)) := by
  rw [bodyR_closed strict fix orient sq rnd quatOf g dt start hshape hn] at hb
  cases hbody : body strict fix orient sq g with
  | error e => rw [hbody] at hb; cases hb
  | ok h =>
    rw [hbody] at hb
    cases hb
    obtain ⟨_, _, xyz, sf, qf, _, _, _, hcase⟩ := body_ok_inv hbody
    refine ⟨?_, ?_, ?_⟩
    · intro h0
      rcases hcase with ⟨_, hh⟩ | ⟨hne, _⟩
      · subst hh; simp [assemble, assembleHdr, header0]
      · exact absurd h0 hne
    · intro ht
      rcases hcase with ⟨_, hh⟩ | ⟨_, hf⟩
      · subst hh; simp [assemble, assembleHdr, header0]
      · rw [ht] at hf
        rcases finish_ok_inv hf with ⟨_, _, hh⟩ | ⟨tl, htl, _⟩
        · subst hh; simp [assemble, assembleHdr, noTimeHdr, header0]
        · cases htl
    · intro tl ht hne
      rcases hcase with ⟨h0, _⟩ | ⟨_, hf⟩
      · exact absurd h0 hne
      · rw [ht] at hf
        rcases finish_ok_inv hf with ⟨h1, _, _⟩ | ⟨tl', htl, _, hh⟩
        · cases h1
        · have : tl' = tl := by cases htl; rfl
          subst this
          subst hh
          simp [assemble, assembleHdr, timeHdr]

/-- **`nipy2nifti` itself** (including `as_xyz_image`): geometry written and refusals do not depend
    on the incoming header, on whether there is one, on the requested or inherited storage dtype. -/
theorem nipy2nifti_header_independent (g : Img) (dd₁ dd₂ : Option String) (has₁ has₂ : Bool)
    (dataDt₁ dataDt₂ : String) (start₁ start₂ : Raw) (hshape : g.shape.length = g.n) (hn : 3 ≤ g.n) :
    (nipy2niftiR strict fix orient sq rnd quatOf g dd₁ has₁ dataDt₁ start₁).map geoOf =
      (nipy2niftiR strict fix orient sq rnd quatOf g dd₂ has₂ dataDt₂ start₂).map geoOf := by
  unfold nipy2niftiR
  cases hx : asXyzImage strict orient g with
  | none => rfl
  | some x =>
    obtain ⟨hs, h3⟩ := asXyzImage_wellformed strict orient hshape hn hx
    exact header_geometry_independent strict fix orient sq rnd quatOf x _ _ start₁ start₂ hs h3

/-- **`nipy2nifti` on any header refines the header-free `nipy2nifti`** of `Model/C03.lean` (exact
    storage): what `nifti2nipy` reads from its output is that model's header, refusals included. -/
theorem nipy2nifti_refines_headerfree (g : Img) (dd : Option String) (has : Bool) (dataDt : String)
    (start : Raw) (hshape : g.shape.length = g.n) (hn : 3 ≤ g.n) :
    (nipy2niftiR strict fix orient sq id quatOf g dd has dataDt start).map view =
      nipy2nifti strict fix orient sq g := by
  unfold nipy2niftiR nipy2nifti
  cases hx : asXyzImage strict orient g with
  | none => rfl
  | some x =>
    obtain ⟨hs, h3⟩ := asXyzImage_wellformed strict orient hshape hn hx
    exact view_refines_headerfree_exact strict fix orient sq quatOf x _ start hs h3

/-! ## Direction 2: what is carried over from the incoming header -/

/-- **`carried_fields`**: the storage dtype is the one decided by `effDtype`; scaling is reset
    (`scl_slope`, `scl_inter` = NaN) and `vox_offset` = 0 by the image constructor; every field nipy
    does not know (`intent_*`, `descrip`, `aux_file`, `cal_*`, `slice_start/end/code/duration`,
    `db_name`, …, extensions) is the incoming header's; and under `sform_code = 0` the unused `srow_*`
    still hold the incoming header's values. -/
theorem carried_fields (g : Img) (dt : String) (start : Raw) (ni : NiImg)
    (hshape : g.shape.length = g.n) (hn : 3 ≤ g.n)
    (hb : bodyR strict fix orient sq rnd quatOf g dt start = .ok ni) :
    ni.hdr.kept = start.kept ∧ ni.hdr.dtype = dt ∧ ni.hdr.slope = none ∧ ni.hdr.inter = none ∧
    ni.hdr.voxOffset = 0 ∧ (ni.hdr.sformCode = 0 → ni.hdr.srow = start.srow) := by
  rw [bodyR_closed strict fix orient sq rnd quatOf g dt start hshape hn] at hb
  cases hbody : body strict fix orient sq g with
  | error e => rw [hbody] at hb; cases hb
  | ok h =>
    rw [hbody] at hb
    cases hb
    refine ⟨rfl, rfl, rfl, rfl, rfl, ?_⟩
    intro hs
    simp only [assemble, assembleHdr] at hs ⊢
    simp [hs]

/-- the only header-dependent numbers left in `pixdim`: the entries beyond the dimensions of the
    output (unused by NIfTI).  `Nifti1Image` resets them to 1 through `set_data_shape` — except when the
    incoming header already had the output's shape; then they are the incoming header's (`tailOf`). -/
theorem unused_pixdim_tail (g : Img) (dt : String) (start : Raw) (ni : NiImg)
    (hshape : g.shape.length = g.n) (hn : 3 ≤ g.n)
    (hb : bodyR strict fix orient sq rnd quatOf g dt start = .ok ni) :
    ∃ h, body strict fix orient sq g = .ok h ∧ ni.hdr.pixNs = h.pixdim.map rnd ++ tailOf g start h ∧
      (start.shape ≠ h.shape → g.shape ≠ h.shape → tailOf g start h = List.replicate (4 - h.pixdim.length) 1) := by
  rw [bodyR_closed strict fix orient sq rnd quatOf g dt start hshape hn] at hb
  cases hbody : body strict fix orient sq g with
  | error e => rw [hbody] at hb; cases hb
  | ok h =>
    rw [hbody] at hb
    cases hb
    refine ⟨h, rfl, rfl, ?_⟩
    intro h1 h2
    unfold tailOf
    by_cases hs : h.sform = 0 <;> simp [hs, h1, h2]

/-- the dtype rule of `nipy2nifti`: an explicit `data_dtype` wins; otherwise the incoming header's
    dtype when there is one, else the dtype of the data -/
theorem dtype_rule (dd : Option String) (hasHdr : Bool) (dataDtype : String) (start : Raw) :
    effDtype dd hasHdr dataDtype start =
      match dd, hasHdr with
      | some d, _ => d
      | none, true => start.dtype
      | none, false => dataDtype := by
  cases dd <;> cases hasHdr <;> rfl

/-! ## Files: the affine read back is the header's best affine -/

/-- codes written by `nipy2nifti` are equal, so the best affine of a written header is the stored
    sform (non-`unknown` spaces) or the base affine (`unknown`) — never the quaternion -/
theorem written_codes_equal (g : Img) (dt : String) (start : Raw) (ni : NiImg)
    (hshape : g.shape.length = g.n) (hn : 3 ≤ g.n)
    (hb : bodyR strict fix orient sq rnd quatOf g dt start = .ok ni) :
    ni.hdr.sformCode = ni.hdr.qformCode := by
  rw [bodyR_closed strict fix orient sq rnd quatOf g dt start hshape hn] at hb
  cases hbody : body strict fix orient sq g with
  | error e => rw [hbody] at hb; cases hb
  | ok h =>
    rw [hbody] at hb
    cases hb
    obtain ⟨_, _, xyz, sf, qf, _, hs, _, hcase⟩ := body_ok_inv hbody
    have hq := spaceCodes_codes strict sq hs
    subst hq
    rcases hcase with ⟨_, hh⟩ | ⟨_, hf⟩
    · subst hh; rfl
    · rcases finish_ok_inv hf with ⟨_, _, hh⟩ | ⟨tl, _, _, hh⟩ <;> subst hh <;> rfl

/-- **float32 storage, stated exactly**: the affine of the image read back from a NIfTI file is
    independent of the incoming header; in a named space it is the xyz affine with every entry
    rounded by `rnd` (and the exact last row), in the `unknown` space the base affine of the stored
    shape and zooms. -/
theorem file_affine (g : Img) (dt : String) (start : Raw) (ni : NiImg)
    (hshape : g.shape.length = g.n) (hn : 3 ≤ g.n)
    (hb : bodyR strict fix orient sq rnd quatOf g dt start = .ok ni) :
    (fileLoad qaff ni).affine =
      if ni.hdr.sformCode ≠ 0 then ((xyzBlock g).take 3).map (fun row => row.map rnd) ++ [[0, 0, 0, 1]]
      else baseAffine ni.hdr.shape ((zooms3 sq (xyzBlock g)).map rnd) := by
  have hc := written_codes_equal strict fix orient sq rnd quatOf g dt start ni hshape hn hb
  rw [bodyR_closed strict fix orient sq rnd quatOf g dt start hshape hn] at hb
  cases hbody : body strict fix orient sq g with
  | error e => rw [hbody] at hb; cases hb
  | ok h =>
    rw [hbody] at hb
    cases hb
    simp only [assemble, assembleHdr] at hc
    by_cases hs : h.sform = 0
    · have hq : h.qform = 0 := by rw [← hc]; exact hs
      simp [fileLoad, bestAffine, assemble, assembleHdr, hs, hq, Raw.baseAffine]
    · simp [fileLoad, bestAffine, assemble, assembleHdr, hs]

/-- storing twice is storing once: with an idempotent `rnd` the header written for an image whose
    numbers are already stored values (`rnd x = x`: an image that came out of a file) equals the
    header exact arithmetic would write, so the second file round trip is exact. -/
theorem second_storage_exact (g : Img) (start : Raw) (dt : String) (xyz : Mat) (h : Hdr)
    (hidem : ∀ x, rnd (rnd x) = rnd x)
    (hxyz : ∀ row ∈ xyz.take 3, ∀ x ∈ row, ∃ y, x = rnd y)
    (hz : ∀ x ∈ zooms3 sq xyz, ∃ y, x = rnd y)
    (hq : ∀ x ∈ quatOf xyz, ∃ y, x = rnd y)
    (hpix : ∀ x ∈ h.pixdim, ∃ y, x = rnd y) (ht : ∃ y, h.toffset = rnd y)
    (hoff : ∀ r, r < 3 → ∃ y, entry xyz r 3 = rnd y) :
    assembleHdr sq rnd quatOf g start dt xyz h = assembleHdr sq id quatOf g start dt xyz h := by
  have fix : ∀ l : List Rat, (∀ x ∈ l, ∃ y, x = rnd y) → l.map rnd = l := by
    intro l hl
    conv_rhs => rw [← List.map_id l]
    apply List.map_congr_left
    intro x hx
    obtain ⟨y, rfl⟩ := hl x hx
    simp [hidem]
  have hrows : (xyz.take 3).map (fun row => row.map rnd) = xyz.take 3 := by
    conv_rhs => rw [← List.map_id (xyz.take 3)]
    apply List.map_congr_left
    intro row hrow
    simpa using fix row (hxyz row hrow)
  obtain ⟨y, hy⟩ := ht
  have hoffs : (List.range 3).map (fun r => rnd (entry xyz r 3)) = (List.range 3).map (fun r => entry xyz r 3) := by
    apply List.map_congr_left
    intro r hr
    obtain ⟨y, hy⟩ := hoff r (List.mem_range.1 hr)
    rw [hy, hidem]
  simp [assembleHdr, fix _ hz, fix _ hq, fix _ hpix, hrows, hoffs, hy, hidem]

/-- what a NIfTI file keeps of the header-free model's header `h` (named space, xyz affine `xyz`):
    the affine entries, `pixdim[4:]` and `toffset` in storage precision, everything else as is -/
def stored (xyz : Mat) (h : Hdr) : Hdr :=
  { h with affine := (xyz.take 3).map (fun row => row.map rnd) ++ [[0, 0, 0, 1]],
           pixdim := h.pixdim.map rnd, toffset := rnd h.toffset }

/-- what `nifti2nipy` reads from the file of an image in a named space, on any incoming header -/
theorem file_view_named (g : Img) (start : Raw) (dt : String) (xyz : Mat) (h : Hdr) (hs : h.sform ≠ 0)
    (hl : h.pixdim.length = h.shape.length - 3) :
    view (fileLoad qaff (assemble sq rnd quatOf g start dt xyz h)) =
      { stored rnd xyz h with axes := h.axes } := by
  have : (h.pixdim.map rnd ++ tailOf g start h).take (h.shape.length - 3) =
      h.pixdim.map rnd := by
    rw [← hl]; exact List.take_left' (by simp)
  simp [view, fileLoad, bestAffine, assemble, assembleHdr, stored, hs, this]

/-- **two successive file round trips, `_partial`**: storing what was read from a file stores the
    same numbers (with `rnd` idempotent the second rounding is the identity on the affine, `pixdim`
    and `toffset`).  Missing for the full statement `load (save (load (save img))) = load (save img)`:
    that the header-free model maps the loaded image (canonical names, block-diagonal affine) back to
    the header it was loaded from — the exact-arithmetic fixpoint; the check demands exact equality of
    the second round trip on the real code instead (`resave` stages). -/
theorem stored_idempotent_partial (hidem : ∀ x, rnd (rnd x) = rnd x) (xyz : Mat) (h : Hdr)
    (h3 : 3 ≤ xyz.length) :
    stored rnd (stored rnd xyz h).affine (stored rnd xyz h) = stored rnd xyz h := by
  have hlen : ((xyz.take 3).map (fun (row : List Rat) => row.map rnd)).length = 3 := by
    simp [List.length_take]; omega
  have hA : ((((xyz.take 3).map (fun (row : List Rat) => row.map rnd)) ++ [[0, 0, 0, 1]]).take 3).map
      (fun (row : List Rat) => row.map rnd) = (xyz.take 3).map (fun (row : List Rat) => row.map rnd) := by
    rw [List.take_left' hlen, List.map_map]
    apply List.map_congr_left
    intro row _
    simp [List.map_map, Function.comp_def, hidem]
  have hP : (h.pixdim.map rnd).map rnd = h.pixdim.map rnd := by
    simp [List.map_map, Function.comp_def, hidem]
  simp only [stored, hA, hP, hidem]

/-! ## Histories: save → load → edit → save → … -/

/-- an image is well formed: one shape entry per array axis, at least 3 axes (`as_xyz_image` keeps
    this: `asXyzImage_wellformed`) -/
def WellFormed (g : Img) : Prop := g.shape.length = g.n ∧ 3 ≤ g.n

/-- one stage (`nipy2nifti` → memory or file → `nifti2nipy`) returns the same image whatever header
    the saved image carried -/
theorem stage_image_independent (s : Stage) (has₁ has₂ : Bool) (start₁ start₂ : Raw)
    (hw : WellFormed s.g) :
    (stageR orient sq rnd quatOf qaff s has₁ start₁).map (·.1) =
      (stageR orient sq rnd quatOf qaff s has₂ start₂).map (·.1) := by
  unfold stageR nipy2niftiR
  cases hx : asXyzImage s.strict orient s.g with
  | none => rfl
  | some x =>
    obtain ⟨hshape, hn⟩ := asXyzImage_wellformed s.strict orient hw.1 hw.2 hx
    simp only []
    rw [bodyR_closed s.strict s.fix orient sq rnd quatOf x _ start₁ hshape hn,
        bodyR_closed s.strict s.fix orient sq rnd quatOf x _ start₂ hshape hn]
    cases hbody : body s.strict s.fix orient sq x with
    | error e => rfl
    | ok h =>
      have hview : ∀ (st : Raw) (d : String),
          view (if s.viaFile then fileLoad qaff (assemble sq rnd quatOf x st d (xyzBlock x) h)
                else assemble sq rnd quatOf x st d (xyzBlock x) h) =
          view (if s.viaFile then fileLoad qaff (assemble sq rnd quatOf x start₂
                  (effDtype s.dd has₂ s.dataDtype start₂) (xyzBlock x) h)
                else assemble sq rnd quatOf x start₂ (effDtype s.dd has₂ s.dataDtype start₂) (xyzBlock x) h) := by
        intro st d
        have hcodes := body_codes_equal s.strict s.fix orient sq hbody
        have hl := body_pixdim_length s.strict s.fix orient sq x h hshape hn hbody
        have htk : ∀ st' : Raw, (h.pixdim.map rnd ++ tailOf x st' h).take (h.shape.length - 3) = h.pixdim.map rnd := by
          intro st'; rw [← hl]; exact List.take_left' (by simp)
        by_cases hv : s.viaFile = true
        · by_cases hsf : h.sform = 0
          · have hq : h.qform = 0 := by rw [← hcodes]; exact hsf
            simp [hv, view, fileLoad, bestAffine, assemble, assembleHdr, hsf, hq, Raw.baseAffine, htk]
          · simp [hv, view, fileLoad, bestAffine, assemble, assembleHdr, hsf, htk]
        · simp [hv, view, assemble, assembleHdr, htk]
      simp only [nifti2nipyR, hview start₁ (effDtype s.dd has₁ s.dataDtype start₁)]
      cases nifti2nipy (view (if s.viaFile then fileLoad qaff (assemble sq rnd quatOf x start₂
          (effDtype s.dd has₂ s.dataDtype start₂) (xyzBlock x) h)
          else assemble sq rnd quatOf x start₂ (effDtype s.dd has₂ s.dataDtype start₂) (xyzBlock x) h)) <;> rfl

/-- **`history_independent`** (induction over the history): along any sequence of
    save / load / edit stages the images loaded back do not depend on the header the first image
    carried — and therefore, stage by stage, not on anything an earlier stage left in the header. -/
theorem history_independent (stages : List Stage) (has₁ has₂ : Bool) (start₁ start₂ : Raw)
    (hw : ∀ s ∈ stages, WellFormed s.g) :
    (historyR orient sq rnd quatOf qaff stages has₁ start₁).map (·.1) =
      (historyR orient sq rnd quatOf qaff stages has₂ start₂).map (·.1) := by
  induction stages generalizing has₁ has₂ start₁ start₂ with
  | nil => rfl
  | cons s rest ih =>
    have hs := stage_image_independent orient sq rnd quatOf qaff s has₁ has₂ start₁ start₂
      (hw s (List.mem_cons_self))
    have ih' := fun a b c d => ih a b c d (fun t ht => hw t (List.mem_cons_of_mem _ ht))
    unfold historyR
    cases h1 : stageR orient sq rnd quatOf qaff s has₁ start₁ with
    | error e =>
      rw [h1] at hs
      cases h2 : stageR orient sq rnd quatOf qaff s has₂ start₂ with
      | error e' => rw [h2] at hs; simp [Except.map] at hs; subst hs; rfl
      | ok p => rw [h2] at hs; simp [Except.map] at hs
    | ok p =>
      rw [h1] at hs
      cases h2 : stageR orient sq rnd quatOf qaff s has₂ start₂ with
      | error e' => rw [h2] at hs; simp [Except.map] at hs
      | ok q =>
        rw [h2] at hs
        obtain ⟨img₁, hd₁⟩ := p
        obtain ⟨img₂, hd₂⟩ := q
        have himg : img₁ = img₂ := by simpa [Except.map] using hs
        subst himg
        have := ih' true true hd₁ hd₂
        simp only []
        cases h3 : historyR orient sq rnd quatOf qaff rest true hd₁ with
        | error e =>
          rw [h3] at this
          cases h4 : historyR orient sq rnd quatOf qaff rest true hd₂ with
          | error e' => rw [h4] at this; simp [Except.map] at this; subst this; rfl
          | ok r => rw [h4] at this; simp [Except.map] at this
        | ok r =>
          rw [h3] at this
          cases h4 : historyR orient sq rnd quatOf qaff rest true hd₂ with
          | error e' => rw [h4] at this; simp [Except.map] at this
          | ok r' =>
            rw [h4] at this
            obtain ⟨l₁, e₁⟩ := r
            obtain ⟨l₂, e₂⟩ := r'
            have : l₁ = l₂ := by simpa [Except.map] using this
            subst this
            rfl

/-! ## Tables and `raise` sites regenerated from the source text (`Gen/C03Tables.lean`) -/

/-- every `raise NiftiError` statement of nifti_ref.py is a modelled `Site` (same function, same
    message literal, same order), and there is no modelled site the source does not have -/
theorem raise_sites_modelled : Gen.raiseSites = Site.all.map (fun s => (s.fn, s.msg)) := by decide +kernel

theorem site_all_complete (s : Site) : s ∈ Site.all := by cases s <;> decide

theorem space_table_matches : Gen.spaceNames = spaceList ∧ Gen.suffixes = suffixes ∧
    Gen.xform2space = xformSpaces.map (·.1) := by decide

theorem time_like_tables_match :
    Gen.timeLikeOrdered = tlOrdered ∧
    (∀ p ∈ Gen.timeLikeAxes, tlCanon p.1 = some p.1 ∧ (∀ a ∈ p.2.1, tlCanon a = some p.1) ∧
      p.2.2 = (if p.1 = "t" then "sec" else p.1)) ∧
    Gen.timeLikeAxes.map (·.1) = tlOrdered := by decide +kernel

theorem time_units_table_matches :
    ∀ p ∈ Gen.timeLikeUnits, unitsInfo p.1 = some (p.2.1, p.2.2) := by decide +kernel

theorem tiny_matches : Gen.tiny = tiny := by decide +kernel

theorem file_type_table_matches : Gen.fileTypes = fileTypeTable ∧
    Gen.compressedTests = ["filename.endswith('.gz')", "filename.endswith('.bz2')"] ∧
    Gen.worldExtras = "tuvw" ∧ Gen.voxelNames = "ijklmnop" := by decide

/-! ## files.py / spaces.py -/

/-- `save` knows what to do with every file type `_type_from_filename` can return, and refuses
    exactly `minc` -/
theorem save_dispatch_total :
    ∀ p ∈ fileTypeTable, (saveAction p.2 = "error:valueError" ↔ p.2 = "minc") ∧
      saveAction p.2 ∈ ["single", "pair", "analyze", "error:valueError"] := by decide +kernel

/-- `io_dtype`: only `dtype_from='header'` leaves the decision to `nipy2nifti` (and then the header
    carried by the image decides: `dtype_rule`) -/
theorem io_dtype_rule (dtypeFrom dataDtype : String) :
    (ioDtype dtypeFrom dataDtype = none ↔ dtypeFrom = "header") ∧
    (dtypeFrom = "data" → ioDtype dtypeFrom dataDtype = some dataDtype) := by
  unfold ioDtype
  constructor
  · constructor
    · intro h; by_contra hne; simp [hne] at h; split at h <;> cases h
    · intro h; simp [h]
  · intro h; subst h; simp

/-- `get_world_cs(name, ndim)` names a coordinate system that `known_space` recognises as the same
    space again, for each of the five spaces and every dimension NIfTI has (exhaustive: the domain is
    the literal table of spaces.py × 3..7) -/
theorem world_cs_known_space (w : String) (hw : w ∈ spaceList) (n : Nat) (h3 : 3 ≤ n) (h7 : n ≤ 7) :
    (getWorldCs w n).bind knownSpace = some w := by
  simp only [spaceList, List.mem_cons, List.not_mem_nil, or_false] at hw
  interval_cases n <;> rcases hw with rfl | rfl | rfl | rfl | rfl <;> decide +kernel

/-- names recognised as x, y, z are exactly the names of the known spaces (plus plain `x y z` when
    not strict): `known_names` of spaces.py is the table the model uses -/
theorem known_names_table (sp : String) (hs : sp ∈ spaceList) (k : Nat) (hk : k < 3) (strict : Bool) :
    name2xyz strict (xyzName sp k) = some k := by
  simp only [spaceList, List.mem_cons, List.not_mem_nil, or_false] at hs
  interval_cases k <;> rcases hs with rfl | rfl | rfl | rfl | rfl <;> cases strict <;> decide +kernel

example : typeFromFilename "im.nii.gz" = some "nifti1single" ∧ typeFromFilename "d.x/im.hdr" = some "nifti1pair" ∧
    typeFromFilename "im.img.bz2" = some "analyze" ∧ typeFromFilename "im.txt" = none ∧
    typeFromFilename ".gz" = some "nifti1single" := by decide +kernel

/-! ## Non-vacuity -/

/-- an incoming header with every geometry field off its default -/
def exStart : Raw :=
  { shape := [4, 4, 4, 9, 2], pix03 := [-1, 3, 3, 3], pixNs := [7, 7, 7, 7], sformCode := 3, qformCode := 2,
    srow := [[0, 2, 0, 5], [3, 0, 0, 6], [0, 0, -4, 7]], quat := [1 / 2, 1 / 2, 1 / 2], qoffset := [5, 6, 7],
    toffset := 42, sunits := "micron", tunits := "msec", freq := some 2, phase := some 0, slice := some 1,
    dtype := "int16", slope := some 2, inter := some 3, voxOffset := 352, kept := ["intent_code=3", "descrip=old"] }

/-- the time origin of `exImg` reset to 0 (TR 5/2 kept) -/
def exImg0 : Img :=
  { exImg with aff := [[2, 0, 0, 0, 10], [0, 3, 0, 0, 0], [0, 0, 4, 0, 0], [0, 0, 0, 5 / 2, 0], [0, 0, 0, 0, 1]] }

example : WellFormed exImg ∧ WellFormed exImg0 := ⟨⟨by decide, by decide⟩, ⟨by decide, by decide⟩⟩
/-- the header as it stands when `_find_time_like` is consulted, for `exStart` -/
def exMid : Raw := midHdr id id noQuat exImg0 (xyzBlock exImg0) (exStart.setDtype "int16") 4 4
/-- the scenario of the defect: loaded with toffset 42 / msec / micron, time origin reset to 0, saved:
    offset 0, units sec / mm, the old `pixdim[5:8]` gone -/
example : (finishR id exImg0 (xyzBlock exImg0) exMid [5 / 2] (.ok (some ⟨3, some 3, "t"⟩))).toOption.map
      (fun ni => (ni.hdr.toffset, ni.hdr.tunits, ni.hdr.sunits, ni.hdr.pixNs)) =
    some (0, "sec", "mm", [5 / 2, 1, 1, 1]) := by decide +kernel
example : (finishR id exImg0 (xyzBlock exImg0) exMid [5 / 2] (.ok (some ⟨3, some 3, "t"⟩))).toOption.map
      (fun ni => (ni.hdr.sformCode, ni.hdr.freq, ni.hdr.kept, ni.hdr.slope)) =
    some (4, none, ["intent_code=3", "descrip=old"], none) := by decide +kernel
example : (finishR id exImg (xyzBlock exImg) exMid [5 / 2] (.ok (some ⟨3, some 3, "t"⟩))).toOption.map
      (·.hdr.toffset) = some 14 := by decide +kernel
example : ∀ x : Rat, id (id x) = id x := fun _ => rfl

end NipyVerif.C03
