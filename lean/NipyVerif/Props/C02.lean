/-
C02 — property theorems about the model in `NipyVerif.Model.C02`:
"image manipulations keep every value at its world position".
Only property statements and their non-vacuity examples live here.

Vocabulary (defined in `Lemmas/C02.lean`): `ValidIdx shape j` — `j` indexes an array of
that shape; `g.world j r` — coordinate `r` of `g.coordmap(j)`; `namedWorld g j` — the list of
(reference name, coordinate); `IndexEmbeds g h σ` — `h` reads `g` through the injective index
map `σ` with equal names, values and world coordinates; `Embeds g h` — the same up to the
order and the renaming of the reference coordinates; `WF g` — shape, axis names and affine
columns agree in number.
-/
import NipyVerif.Lemmas.C02

namespace NipyVerif.C02

/-! ## Python slice semantics -/

/-- `slice_indices_spec`: what `np.arange(n)[a:b:c]` keeps is exactly the arithmetic
    progression Python defines — `k` is a position of the result iff `start + k·step` lies
    before the (clamped) stop, every kept element is an index `0 ≤ · < n`, and the first
    element is the clamped start. -/
theorem slice_indices_spec (n : Nat) (a b c : Option Int) (s : Nat) (st : Int) (l : Nat)
    (h : normAxis n (.slc a b c) = .ok (.range s st l)) :
    st = c.getD 1 ∧ st ≠ 0 ∧
    (0 < st → ∀ k : Nat, k < l ↔ (adjust n a b st).1 + (k : Int) * st < (adjust n a b st).2) ∧
    (st < 0 → ∀ k : Nat, k < l ↔ (adjust n a b st).2 < (adjust n a b st).1 + (k : Int) * st) ∧
    (∀ k : Nat, k < l → 0 ≤ (s : Int) + (k : Int) * st ∧ (s : Int) + (k : Int) * st < (n : Int)) ∧
    (0 < l → (s : Int) = (adjust n a b st).1) := by
  have hv := normAxis_valid n _ _ h
  simp only [normAxis] at h
  split_ifs at h with h0
  simp only [Except.ok.injEq, AxSel.range.injEq] at h
  obtain ⟨hs, hst, hl⟩ := h
  subst hst
  refine ⟨rfl, h0, ?_, ?_, hv.1, ?_⟩
  · intro hp k; rw [← hl]; exact sliceLen_pos_iff _ _ _ hp k
  · intro hn k; rw [← hl]; exact sliceLen_neg_iff _ _ _ hn k
  · intro hpos
    rw [← hs]
    apply Int.toNat_of_nonneg
    rcases lt_or_gt_of_ne h0 with hneg | hp
    · have h1 := (sliceLen_neg_iff (adjust n a b (c.getD 1)).1 (adjust n a b (c.getD 1)).2 _ hneg 0).mp
        (by rw [hl]; exact hpos)
      have := (adjust_bounds_neg n a b _ hneg).2
      simp at h1; omega
    · exact (adjust_bounds_pos n a b _ hp).1

/-- an integer index reads position `i` (or `i + n` when negative) and is refused with
    `IndexError` outside `-n ≤ i < n` -/
theorem int_index_spec (n : Nat) (i : Int) :
    (0 ≤ i ∧ i < (n : Int) → normAxis n (.idx i) = .ok (.pick i.toNat)) ∧
    (-(n : Int) ≤ i ∧ i < 0 → normAxis n (.idx i) = .ok (.pick (i + (n : Int)).toNat)) ∧
    (i < -(n : Int) ∨ (n : Int) ≤ i → normAxis n (.idx i) = .error .indexError) := by
  refine ⟨fun h => by simp [normAxis, h], fun h => ?_, fun h => ?_⟩
  · have : ¬ (0 ≤ i ∧ i < (n : Int)) := by omega
    simp [normAxis, this, h]
  · have h1 : ¬ (0 ≤ i ∧ i < (n : Int)) := by omega
    have h2 : ¬ (-(n : Int) ≤ i ∧ i < 0) := by omega
    simp [normAxis, h1, h2]

/-- ellipsis expansion / padding produces exactly one slicer per axis -/
theorem expand_one_per_axis (n : Nat) (sl ex : List Slicer) (h : expand n sl = .ok ex) :
    ex.length = n := expand_length n sl ex h

/-! ## Slicing -/

/-- `slice_world`: for every slice tuple the code accepts, the result reads the original
    through an injective index map `σ` (integers pick, slices step): every result voxel `j`
    has the value of voxel `σ j`, `σ j` is a voxel of the original, the world coordinates
    `res.coordmap(j)` and `img.coordmap(σ j)` are equal coordinate by coordinate, and the
    reference names are unchanged — nothing is moved, duplicated or invented. -/
theorem slice_world (g h : Img) (sl : List Slicer) (hw : WF g)
    (hres : getitem g sl = .ok (.img h)) :
    ∃ σ : List Nat → List Nat, h.outNames = g.outNames ∧
      (∀ j, ValidIdx h.shape j →
        ValidIdx g.shape (σ j) ∧ h.data j = g.data (σ j) ∧ ∀ r, h.world j r = g.world (σ j) r) ∧
      (∀ j j', ValidIdx h.shape j → ValidIdx h.shape j' → σ j = σ j' → j = j') := by
  obtain ⟨⟨sels, _, hi⟩, _⟩ := getitem_index g h sl hw hres
  exact ⟨selIdx sels, hi⟩

/-- all-integer indexing returns the value stored at a voxel of the original -/
theorem slice_scalar (g : Img) (v : Int) (sl : List Slicer)
    (hres : getitem g sl = .ok (.val v)) : ∃ idx, ValidIdx g.shape idx ∧ v = g.data idx :=
  getitem_val g v sl hres

/-! ## Reordering / renaming axes and reference -/

/-- `reordered_axes` with any accepted order (integers incl. negative, names, default):
    the transposed image reads the original through a *bijection* of the index sets, with
    equal values, equal world coordinates and unchanged reference names. -/
theorem reorder_axes_world (g h : Img) (ord : Order) (hw : WF g)
    (hres : reorderAxes g ord = .ok h) :
    ∃ σ : List Nat → List Nat, IndexEmbeds g h σ ∧
      (∀ i, ValidIdx g.shape i → ∃ j, ValidIdx h.shape j ∧ σ j = i) := by
  unfold reorderAxes at hres
  cases hr : resolveOrder g.shape.length g.shape.length g.inNames ord with
  | error e => simp [hr] at hres
  | ok o =>
    simp only [hr] at hres
    cases hres
    have hp := resolveOrder_isPerm _ _ _ _ _ hr
    refine ⟨unperm o, (reorderAxesP_index g o hw hp).1, fun i hi => ?_⟩
    obtain ⟨a, b⟩ := unperm_surj _ o g.shape i hp rfl hi
    exact ⟨permute 0 o i, a, b⟩

/-- `reordered_reference`: data and shape untouched; the named world coordinates of every
    voxel are the same (name, value) pairs, listed in the new order. -/
theorem reorder_reference_world (g h : Img) (ord : Order)
    (hres : reorderRef g ord = .ok h) :
    h.shape = g.shape ∧ h.data = g.data ∧ h.outNames.Perm g.outNames ∧
    ∀ j, (namedWorld h j).Perm (namedWorld g j) := by
  unfold reorderRef at hres
  cases hr : resolveOrder g.outNames.length g.shape.length g.outNames ord with
  | error e => simp [hr] at hres
  | ok o =>
    simp only [hr] at hres
    cases hres
    have hp := resolveOrder_isPerm _ _ _ _ _ hr
    have hl := ((isPerm_iff _ o).mp hp).1
    have hperm := isPerm_perm hp
    have hnames : (reorderRefP g o).outNames = o.map (fun k => g.outNames.getD k "") := rfl
    refine ⟨rfl, rfl, ?_, fun j => ?_⟩
    · rw [hnames]
      refine (hperm.map _).trans (List.Perm.of_eq ?_)
      apply List.ext_getElem (by simp)
      intro i h1 h2
      have hi : i < g.outNames.length := by simpa using h1
      simp [List.getElem?_eq_getElem hi]
    · unfold namedWorld
      have hlen : (reorderRefP g o).outNames.length = g.outNames.length := by
        simp [reorderRefP, permute_length, hl]
      rw [hlen]
      have hF := map_eq_range_map o g.outNames.length hl
        (fun k => (g.outNames.getD k "", g.world j k))
      have h2 : (List.range g.outNames.length).map
            (fun r => ((reorderRefP g o).outNames.getD r "", (reorderRefP g o).world j r))
          = o.map (fun k => (g.outNames.getD k "", g.world j k)) := by
        rw [hF]
        apply List.map_congr_left
        intro r hr'
        have hr'' : r < o.length := by rw [hl]; exact List.mem_range.mp hr'
        have hw' : (reorderRefP g o).world j r = g.world j (o.getD r 0) := by
          simp only [ImgOf.world, reorderRefP]
          rw [lin_reindex (fun r => o.getD r 0) g.cols j r]
        rw [hw']
        simp only [reorderRefP]
        rw [permute_getD "" o g.outNames r hr'']
      rw [h2]
      exact hperm.map _

/-- `renamed_axes`: only the axis names change -/
theorem rename_axes_keeps_everything (g h : Img) (p : List (String × String))
    (hres : renameAxes g p = .ok h) :
    h.shape = g.shape ∧ h.data = g.data ∧ h.outNames = g.outNames ∧ h.world = g.world ∧
    h.inNames = g.inNames.map (renameFn p) := by
  unfold renameAxes at hres
  cases hr : rename p g.inNames with
  | error e => simp [hr] at hres
  | ok nn =>
    simp only [hr] at hres
    cases hres
    exact ⟨rfl, rfl, rfl, rfl, rename_length _ _ _ hr⟩

/-- `renamed_reference`: values and world coordinates stay, each reference name is replaced
    by its new name (the renaming `ρ` the theorems below carry along) -/
theorem rename_reference_keeps_world (g h : Img) (p : List (String × String))
    (hres : renameRef g p = .ok h) :
    h.shape = g.shape ∧ h.data = g.data ∧ h.world = g.world ∧
    h.outNames = g.outNames.map (renameFn p) ∧ h.outNames.Nodup := by
  unfold renameRef at hres
  cases hr : rename p g.outNames with
  | error e => simp [hr] at hres
  | ok nn =>
    simp only [hr] at hres
    cases hres
    refine ⟨rfl, rfl, rfl, rename_length _ _ _ hr, ?_⟩
    unfold rename at hr
    split_ifs at hr with h1 h2
    cases hr; exact h2

/-! ## Operations built on `input_axis_index` + `reordered_axes` -/

/-- `rollimg` — for every axis / start identifier (int, input name, output name) and every
    value of the `io_orientation` parameter used to resolve output names: when the code
    returns an image, it is a pure transposition of the original. -/
theorem rollimg_sound (g h : Img) (a s : AxId) (o : List (Option Nat)) (hw : WF g)
    (hres : rollimg g a s o = .ok h) : Embeds g h ∧ WF h := rollimg_embeds g h a s o hw hres

/-- `rollaxis` (also with `inverse=True`): axes and reference reordered together — values
    keep their named world coordinates. -/
theorem rollaxis_sound (g h : Img) (a : AxId) (inv : Bool) (hw : WF g)
    (hres : rollaxis g a inv = .ok h) : Embeds g h ∧ WF h := rollaxis_embeds g h a inv hw hres

/-- `synchronized_order` for every combination of the `axes` / `reference` flags -/
theorem synchronized_order_sound (g h : Img) (ti tu : List String) (ax rf : Bool) (hw : WF g)
    (hres : syncOrder g ti tu ax rf = .ok h) : Embeds g h ∧ WF h :=
  syncOrder_embeds g h ti tu ax rf hw hres

/-- `iter_axis`: every yielded image is derived from the original -/
theorem iter_axis_sound (g h : Img) (a : AxId) (k : Nat) (o : List (Option Nat)) (hw : WF g)
    (hres : iterAxis g a k o = .ok (.img h)) : Embeds g h ∧ WF h := iterAxis_img g h a k o hw hres

/-- `iter_axis` yields `rimg[k]` for `k = 0, 1, …`: element `k` reads exactly voxels of the
    original whose leading index is `k`, so two different elements of an iteration never share
    a voxel (no value is yielded twice). -/
theorem iter_axis_disjoint (g h : Img) (k : Nat) (hw : WF g) (hk : k < g.shape.headD 0)
    (hres : getitem g [.idx (k : Int)] = .ok (.img h)) :
    ∃ σ : List Nat → List Nat, IndexEmbeds g h σ ∧ ∀ j, (σ j).head? = some k := by
  obtain ⟨⟨sels, ⟨ex, hE, hN⟩, hi⟩, _⟩ := getitem_index g h _ hw hres
  refine ⟨selIdx sels, hi, fun j => ?_⟩
  cases hsh : g.shape with
  | nil => simp [hsh] at hk
  | cons n ns =>
    rw [hsh] at hk hE hN
    simp only [List.headD_cons] at hk
    simp only [expand, splitEll, List.length_cons, List.length_nil] at hE
    split_ifs at hE with hle
    simp only [Except.ok.injEq] at hE
    subst hE
    have hn : normAxis n (.idx (k : Int)) = .ok (.pick k) := by
      have : (0 : Int) ≤ (k : Int) ∧ (k : Int) < (n : Int) := by omega
      simp [normAxis, this]
    simp only [List.cons_append, List.nil_append, normAll, hn] at hN
    cases hR : normAll ns (List.replicate ns.length fullSlice) with
    | error e => simp [hR] at hN
    | ok rest =>
      have hN' : AxSel.pick k :: rest = sels := by simpa [hR] using hN
      subst hN'
      simp [selIdx]

/-- `as_xyz_image` — PARTIAL in one respect: the SVD inside `io_orientation` (nibabel) is not
    modelled, so *which* order is chosen and whether the result is accepted as "xyz affable" depend
    on the parameter `orient` (the orientation of each of the three affines the code looks at; for
    affines with a monomial linear part the model computes it itself, `XyzSrc.mono` / `monoOrnt`,
    and the loop after the SVD is `ioOrientFrom`, see `io_orientation_injective` in Props/C02B).
    For every value of that parameter, whatever image the code returns is derived from the
    original (a reordering of reference and axes, or the input itself); the order handed to
    `reordered_axes` is always a permutation (`argsort_is_permutation`). -/
theorem as_xyz_sound_partial (g h : Img) (m : List (String × Nat))
    (orient : Img → Nat → List (Option Nat))
    (hw : WF g) (hres : asXyz g m orient = .ok h) : Embeds g h ∧ WF h :=
  asXyz_embeds g h m orient hw hres

/-! ## Every operation, every history -/

/-- `shape_matches_domain`: after any operation the number of array axes equals the input
    dimension of the coordinate map (axis names and affine columns). -/
theorem shape_matches_domain (g h : Img) (op : Op) (hw : WF g) (hres : step g op = .ok (.img h)) :
    h.inNames.length = h.shape.length ∧ h.cols.length = h.shape.length :=
  (step_img g h op hw hres).2

/-- any single operation that returns an image returns one derived from its input -/
theorem step_sound (g h : Img) (op : Op) (hw : WF g) (hres : step g op = .ok (.img h)) :
    Embeds g h := (step_img g h op hw hres).1

/-- `history_sound`: after any finite sequence of operations (induction over the list), the
    final image is derived from the *original* one — an injective index map into the original
    voxels, equal values, the same named world coordinates up to order and the accumulated
    renaming — and its shape matches its coordinate map. -/
theorem history_sound (ops : List Op) (g h : Img) (hw : WF g) (hres : runOps g ops = .ok (.img h)) :
    Embeds g h ∧ WF h := runOps_img ops g h hw hres

/-- a history ending in an all-integer index returns a value stored in the original image -/
theorem history_value_sound (ops : List Op) (g : Img) (v : Int) (hw : WF g)
    (hres : runOps g ops = .ok (.val v)) : ∃ idx, ValidIdx g.shape idx ∧ v = g.data idx :=
  runOps_val ops g v hw hres

/-- nothing invented: every voxel of a derived image carries a value of the original image,
    found there at the same named world coordinates (up to order / renaming `ρ`). -/
theorem no_value_invented (g h : Img) (he : Embeds g h) :
    ∃ ρ : String → String, ∀ j, ValidIdx h.shape j → ∃ i, ValidIdx g.shape i ∧ h.data j = g.data i ∧
      (namedWorld h j).Perm ((namedWorld g i).map (relName ρ)) := by
  obtain ⟨σ, ρ, _, hv, _⟩ := he
  exact ⟨ρ, fun j hj => ⟨σ j, (hv j hj).1, (hv j hj).2.1, (hv j hj).2.2⟩⟩

/-- nothing duplicated: if the voxels of the original hold pairwise different values, so do
    the voxels of every derived image. -/
theorem no_value_duplicated (g h : Img) (he : Embeds g h)
    (hinj : ∀ i i', ValidIdx g.shape i → ValidIdx g.shape i' → g.data i = g.data i' → i = i') :
    ∀ j j', ValidIdx h.shape j → ValidIdx h.shape j' → h.data j = h.data j' → j = j' := by
  obtain ⟨σ, ρ, _, hv, hi⟩ := he
  intro j j' hj hj' hd
  obtain ⟨a, b, _⟩ := hv j hj
  obtain ⟨a', b', _⟩ := hv j' hj'
  exact hi j j' hj hj' (hinj _ _ a a' (by rw [← b, ← b', hd]))

/-- the reference names of a derived image are the original names, renamed and reordered -/
theorem reference_names_tracked (g h : Img) (he : Embeds g h) :
    ∃ ρ : String → String, h.outNames.Perm (g.outNames.map ρ) := by
  obtain ⟨_, ρ, hn, _, _⟩ := he
  exact ⟨ρ, hn⟩

/-! ## Non-vacuity: concrete objects meeting the hypotheses -/

/-- a 2 × 3 image with a non-diagonal, flipped affine -/
def exImg : Img where
  shape := [2, 3]
  inNames := ["i", "j"]
  outNames := ["x", "y"]
  cols := [fun r => if r = 0 then 0 else -2, fun r => if r = 0 then 3 else 1]
  off := fun r => if r = 0 then 1 else 5
  data := fun idx => (idx.getD 0 0 * 3 + idx.getD 1 0 : Nat)

example : WF exImg := ⟨rfl, rfl⟩
example : normAxis 5 (.slc none none (some (-2))) = .ok (.range 4 (-2) 3) := by decide +kernel
example : normAxis 5 (.slc (some (-2)) none none) = .ok (.range 3 1 2) := by decide +kernel
example : normAxis 3 (.idx (-1)) = .ok (.pick 2) := by decide +kernel
example : expand 3 [.ell, .idx 1] = .ok [fullSlice, fullSlice, .idx 1] := by decide +kernel
example : isPerm 3 [2, 0, 1] = true := by decide +kernel
example : resolveOrder 3 3 ["i", "j", "k"] (.ints [-1, 0, 1]) = .ok [2, 0, 1] := by decide +kernel
example : resolveOrder 3 3 ["i", "j", "k"] (.ints [-3, 1, 2]) = .ok [0, 1, 2] := by decide +kernel
example : resolveOrder 3 3 ["i", "j", "k"] (.ints [-5, 0, 2]) = .error .valueError := by decide +kernel
/-- shape of a result, for the examples -/
def shapeOf : Except Err Res → Option (List Nat)
  | .ok (.img h) => some h.shape
  | _ => none

example : shapeOf (getitem exImg [.slc none none (some (-1)), .idx 1]) = some [2] := by decide +kernel
example : shapeOf (liftImg (reorderAxes exImg (.names ["j", "i"]))) = some [3, 2] := by decide +kernel
example : shapeOf (liftImg (rollimg exImg (.name "y") (.int 0) [some 1, some 0])) = some [2, 3] := by
  decide +kernel
example : shapeOf (runOps exImg [.reorderAxes (.ints [-1, 0]), .getitem [.ell, .slc (some 1) none none],
    .renameRef [("x", "u")], .rollaxis (.name "u") false]) = some [3, 1] := by decide +kernel
example : ValidIdx [2, 3] [1, 2] := by unfold ValidIdx; simp
example : ∀ i i', ValidIdx exImg.shape i → ValidIdx exImg.shape i' →
    exImg.data i = exImg.data i' → i = i' := by
  intro i i' hi hi' hd
  obtain ⟨l1, v1⟩ := (validIdx_iff _ _).mp hi
  obtain ⟨l2, v2⟩ := (validIdx_iff _ _).mp hi'
  have a0 := v1 0 (by decide); have a1 := v1 1 (by decide)
  have b0 := v2 0 (by decide); have b1 := v2 1 (by decide)
  simp only [exImg, List.getD_cons_zero, List.getD_cons_succ] at a0 a1 b0 b1 hd l1 l2
  apply List.ext_getElem (by omega)
  intro k h1 h2
  have hk : k < 2 := by simpa [l1] using h1
  rw [← getD_lt i k 0 h1, ← getD_lt i' k 0 h2]
  have hd' : (i.getD 0 0 * 3 + i.getD 1 0 : Int) = (i'.getD 0 0 * 3 + i'.getD 1 0 : Int) := by
    exact_mod_cast hd
  have hk2 : k = 0 ∨ k = 1 := by omega
  rcases hk2 with rfl | rfl <;> omega

end NipyVerif.C02
