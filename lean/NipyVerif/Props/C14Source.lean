/-
C14 (wave 3) — the model implements what the source says *now*: `Gen/C14Source.lean` is regenerated
from the text of nipy/algorithms/clustering/utils.py and hierarchical_clustering.py on every run
(harness/props/c14_translate.py turns the formula-like statements into Lean terms); the theorems
below state, for all arguments, that those terms are the ones the model computes with.  An edit of a
source expression (a sign, an operator, a constant, `<` for `<=`, `max` for `min`, the order of the
wrapper's tests) changes the generated term and breaks the proof here.
-/
import NipyVerif.Props.C14F
import NipyVerif.Gen.C14Source

namespace NipyVerif.C14

/-! ## `_EStep` / `voronoi` -/

/-- `dist = np.sum((x - centers[q]) ** 2, 1)`: the squared distance of the model is the sum over
    the features of the source's term (the difference is squared as written, no expansion) -/
theorem estep_dist_src (p : Nat) (x c : Vec) :
    sqDist p x c = sumTo p (fun d => Gen.estepTermSrc (x d) (c d)) := rfl

/-- `z[dist < mindist] = q`: centre `k` takes an item over exactly when the source's test holds
    against the best distance so far (strict: the first of equally close centres is kept) -/
theorem estep_update_src (cost : Nat → Rat) (k : Nat) :
    argminFirst cost (k + 1) =
      if Gen.estepUpdateSrc (cost k) (cost (argminFirst cost k)) = true then k
      else argminFirst cost k := by
  simp [argminFirst, Gen.estepUpdateSrc]

theorem estep_mindist_src :
    Gen.estepMindistSrc = ["np.inf * np.ones(nbitem)", "np.minimum(dist, mindist)"] := rfl

/-! ## `_kmeans` -/

/-- `np.sum((centers_old - centers) ** 2)` -/
theorem kmeans_moved_src (p k : Nat) (A B : Nat → Vec) :
    moved p k A B = sumTo k (fun q => sumTo p (fun d => Gen.movedTermSrc (A q d) (B q d))) := rfl

/-- the loop of `_kmeans` stops exactly when the source's test
    `np.sum((centers_old - centers) ** 2) < delta * vdata` holds -/
theorem kmeans_stop_src (p k : Nat) (X : List Vec) (delta vd : Rat) (f : Nat) (C : List (List Rat)) :
    runFrom p k X (delta * vd) (f + 1) C =
      if Gen.stopSrc (moved p k (centresOf C) (centresOf (kmStep p k X C).2)) delta vd = true
      then kmStep p k X C else runFrom p k X (delta * vd) f (kmStep p k X C).2 := by
  rw [runFrom_succ]
  simp [Gen.stopSrc]

/-- what is returned: the last centres and labels (the `else` of the outer `for`), `bJ`; the two
    loops run `ninit` and `maxiter` times; `vdata` is the mean of the column variances -/
theorem kmeans_return_src :
    Gen.kmeansElseSrc = ["centers_output = centers", "z_output = z"] ∧
    Gen.kmeansReturnSrc = "return (centers_output, z_output, bJ)" ∧
    Gen.kmeansLoopsSrc = ["range(ninit)", "range(maxiter)"] ∧
    Gen.vdataSrc = "np.mean(np.var(X, 0))" := ⟨rfl, rfl, rfl, rfl⟩

/-! ## `kmeans` (the wrapper) -/

/-- `OK = (Labels.min() > -1) & (Labels.max() < nbclusters + 1)`: every entry passes the source's
    test (an entry is between the minimum and the maximum) -/
theorem labelsOK_src (L : List Int) (k : Nat) :
    labelsOK L k = L.all (fun l => Gen.labelsOKSrc l l (k : Int)) := by
  rw [Bool.eq_iff_iff]
  simp only [labelsOK, Gen.labelsOKSrc, Bool.and_eq_true, List.all_eq_true, decide_eq_true_eq]
  constructor
  · rintro ⟨h1, h2⟩ l hl
    exact ⟨by have := h1 l hl; omega, h2 l hl⟩
  · intro h
    exact ⟨fun l hl => by have := (h l hl).1; omega, fun l hl => (h l hl).2⟩

/-- the substituted values are the source's literals (`0.0001` as the binary64 number it denotes) -/
theorem wrapper_defaults_src : deltaDefault = Gen.deltaDefaultSrc ∧ (300 : Int) = Gen.maxiterDefaultSrc := by
  constructor
  · unfold deltaDefault Gen.deltaDefaultSrc; norm_num
  · rfl

/-- the nest of tests of the wrapper, in the source's order: a labelling is looked at only when given,
    of the right size and `OK`; then `maxiter > 0` decides between rewriting `delta` and rewriting
    `maxiter` -/
theorem wrapArgs_src (n k : Nat) (l : List Int) (mi : Int) (dl : Rat) :
    Gen.wrapperTestsSrc = ["Labels is not None", "np.size(Labels) == nbitems", "OK", "maxiter > 0",
      "delta < 0", "verbose"] ∧
    Gen.clampsSrc = ["nbclusters < 1 ↦ nbclusters = 1", "nbclusters > nbitems ↦ nbclusters = nbitems"] ∧
    wrapArgs n k none mi dl = (mi, dl) ∧
    wrapArgs n k (some l) mi dl =
      if l.length = n ∧ (l.all fun x => Gen.labelsOKSrc x x (k : Int)) = true then
        (if mi > 0 then (mi, if dl < 0 then Gen.deltaDefaultSrc else dl) else (Gen.maxiterDefaultSrc, dl))
      else (mi, dl) := by
  refine ⟨rfl, rfl, rfl, ?_⟩
  rw [← labelsOK_src, ← wrapper_defaults_src.1]
  rfl

/-! ## `_inertia` -/

/-- `np.sum(q - (s ** 2 / n))` on the accumulators `n`, `s`, `q` -/
theorem inertia_src (p n : Nat) (s q : Vec) :
    inertiaF p n s q = sumTo p (fun d => Gen.inertiaTermSrc (n : Rat) (s d) (q d)) := rfl

/-- the accumulators are the sums of the two clusters' features 0, 1, 2 — `Feat.add` -/
theorem inertia_acc_src (a b : Feat) :
    Gen.inertiaAccSrc = [("n", "Features[0][i] + Features[0][j]"), ("s", "Features[1][i] + Features[1][j]"),
      ("q", "Features[2][i] + Features[2][j]")] ∧
    (a.add b).n = a.n + b.n ∧ (a.add b).s = List.zipWith (· + ·) a.s b.s ∧
      (a.add b).q = List.zipWith (· + ·) a.q b.q := ⟨rfl, rfl, rfl, rfl⟩

/-! ## the stored heights -/

/-- `height[k] = max(cost, height[i], height[j])` in `ward` and in `ward_quick` -/
theorem ward_height_src (s : WState) (i j : Nat) (c : Rat) (g : Option Rat) :
    (mergeInto s i j c g).hs = s.hs.push (Gen.wardHeightSrc c (heightAt s i) (heightAt s j)) ∧
    Gen.wardQuickHeightSrc = Gen.wardHeightSrc ∧
    Gen.wardPickSrc = ["K.weights.argmin()"] := ⟨rfl, rfl, rfl⟩

/-- in exact arithmetic the `max` changes nothing once the cost dominates the children's heights
    (`ward_cost_ge_children`); it is there against the rounding of `q - s**2/n` -/
theorem ward_height_src_noop (c hi hj : Rat) (h1 : hi ≤ c) (h2 : hj ≤ c) :
    Gen.wardHeightSrc c hi hj = c := by
  unfold Gen.wardHeightSrc
  rw [max_eq_left (max_le h1 h2)]

/-- `height[k] = min(cost, height[i], height[j])` in `average_link_graph`: no effect once the
    similarity of the merge does not exceed its children's (`avg_step_weights_bounded`); the pick is
    the heaviest edge; afterwards negative similarities become 0 and the items sit one below the
    first merge — `avgHeights` -/
theorem avg_height_src_noop (c hi hj : Rat) (h1 : c ≤ hi) (h2 : c ≤ hj) :
    Gen.avgHeightSrc c hi hj = c ∧ Gen.avgPickSrc = ["K.weights.argmax()"] ∧
    Gen.avgPostSrc = ["height[height < 0] = 0",
      "height[np.isinf(height)] = height[n] + 1 if nbcc < n else 0"] := by
  refine ⟨?_, rfl, rfl⟩
  unfold Gen.avgHeightSrc
  rw [min_eq_left (le_min h1 h2)]

/-! ## `fusion` -/

/-- `fi = float(pop[i]) / pop[k]`, `fj = 1.0 - fi`, `pop[k] = pop[i] + pop[j]` -/
theorem fusion_src (s : AState) (i j : Nat) :
    (s.merge i j).ws = fuseW (s.ws.filter (fun ew => !samePair ew.1 (i, j))) i j s.size
        (Gen.fusionFiSrc (popAt s i : Rat) ((popAt s i + popAt s j : Nat) : Rat))
        (Gen.fusionFjSrc (Gen.fusionFiSrc (popAt s i : Rat) ((popAt s i + popAt s j : Nat) : Rat))) ∧
    (s.merge i j).pop = s.pop.push (popAt s i + popAt s j) ∧
    Gen.avgPopSrc = "pop[i] + pop[j]" := ⟨rfl, rfl, rfl⟩

/-! ## the `*_segment` wrappers -/

/-- the count handed to `split`: the source's `qmax == -1` replacement, then `min(qmax, n)` -/
theorem segArgs_qmax_src (kind n : Nat) (stop : Rat) (qmax : Int) (hk : kind ≤ 2) :
    (segArgs kind n stop qmax).2 = (min (Gen.segQmaxSrc kind (n : Int) qmax) (n : Int)).toNat := by
  have : kind = 0 ∨ kind = 1 ∨ kind = 2 := by omega
  rcases this with rfl | rfl | rfl <;> simp [segArgs, Gen.segQmaxSrc]

/-- the threshold handed to `partition`: `inf` for `stop == -1` where the source has that
    replacement, otherwise `stop` (or `-stop` for average link) when `stop >= 0`, otherwise no call -/
theorem segArgs_stop_src (kind n : Nat) (stop : Rat) (qmax : Int) (hk : kind ≤ 2) :
    (segArgs kind n stop qmax).1 =
      if Gen.segStopInfSrc.lookup kind = some true ∧ stop = -1 then some none
      else if 0 ≤ stop then
        some (some (if Gen.segNegStopSrc.lookup kind = some true then -stop else stop))
      else none := by
  have : kind = 0 ∨ kind = 1 ∨ kind = 2 := by omega
  rcases this with rfl | rfl | rfl
  · by_cases h : stop = -1 <;> simp [segArgs, Gen.segStopInfSrc, Gen.segNegStopSrc, List.lookup, h]
  · by_cases h : stop = -1 <;> simp [segArgs, Gen.segStopInfSrc, Gen.segNegStopSrc, List.lookup, h]
  · simp [segArgs, Gen.segStopInfSrc, Gen.segNegStopSrc, List.lookup]

theorem field_segment_src :
    Gen.fieldSegmentSrc = "u, cost = ward_quick_segment(F, F.field, stop, qmax, verbose)" := rfl

/-! ## `WeightedForest` -/

/-- `check_compatible_height`: `False` as soon as the source's test holds for one node -/
theorem chkHeight_src (par : List Nat) (h : List Rat) :
    checkCompatibleHeight par h =
      !(List.range par.length).any (fun i => Gen.chkHeightBadSrc (h.getD (par.getD i i) 0) (h.getD i 0)) := by
  unfold checkCompatibleHeight Gen.chkHeightBadSrc
  rw [Bool.eq_iff_iff]
  simp [List.all_eq_true]

/-- `partition` keeps the nodes with `height < threshold`; `split` clamps `k` to `V`, answers the
    trees when `k <= nbcc`, clamps to the number of leaves and removes the last `k - nbcc` nodes of the
    stable height order — the statements `partition` / `cutCount` / `splitRemoved` / `split` model -/
theorem cuts_src :
    Gen.partitionSrc = ["valid = self.height < threshold", "f = self.subforest(valid)", "u = f.cc()",
      "return u[f.isleaf()]"] ∧
    Gen.splitSrc = ["k = int(k)", "if k > self.V:\n    k = self.V", "nbcc = self.cc().max() + 1",
      "if k <= nbcc:\n    u = self.cc()\n    return u[self.isleaf()]",
      "k = min(k, int(np.sum(self.isleaf())))", "order = np.argsort(self.height, kind='stable')",
      "valid = np.ones(self.V, dtype=bool)", "valid[order[self.V - (k - nbcc):]] = False",
      "f = self.subforest(valid)", "u = f.cc()", "return u[f.isleaf()]"] := ⟨rfl, rfl⟩

end NipyVerif.C14
