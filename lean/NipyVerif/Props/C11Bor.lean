/- C11 (wave 3) — minimum spanning forests by cut steps, ties included: the argument behind the Borůvka
   rounds of `mst` (every row appended is a lightest edge leaving a component), proved once and for all;
   what remains certificate-based for `mst` is named in `mst_minimal_of_cut_rows_partial`. -/
import NipyVerif.Lemmas.C11Bor3
import NipyVerif.Props.C11

namespace NipyVerif.C11

/-- **the cut step keeps completability, with ties**: let `A` be completable to a minimum spanning forest
of `E` (threshold form `Indep`: for every `t` the edges of `A` heavier than `t` are a forest relative to the
edges of `E` of weight ≤ `t`).  If `e` joins two components of `A` and no edge of `E` leaving the component
of `e.1` is lighter than `e`, then `A ++ [e]` is completable too — whatever other equally light edges exist
and in whatever order such steps are taken. -/
theorem cut_step_keeps_completable (V : Nat) (E A : List Edge) (e : Edge) (hI : Indep V E A)
    (hleave : ¬ Conn ⟨V, A⟩ e.1 e.2.1)
    (hmin : ∀ x y w', Conn ⟨V, A⟩ e.1 x → ¬ Conn ⟨V, A⟩ e.1 y → ((x, y, w') ∈ E ∨ (y, x, w') ∈ E) → e.2.2 ≤ w') :
    Indep V E (A ++ [e]) := indep_snoc V E A e hI hleave hmin

/-- a spanning forest obtained by cut steps satisfies the minimum-weight certificate: the ends of every
edge `e` of `E` are joined inside it by edges no heavier than `e` (so the check `mstCertB` the model runs
on every output of `mst` cannot fail on such an output) -/
theorem cut_steps_certificate (V : Nat) (E T : List Edge) (hE : WFE V E) (hT : SafeBuilt V E T)
    (hspan : ∀ e ∈ E, Conn ⟨V, T⟩ e.1 e.2.1) :
    ∀ e ∈ E, Conn ⟨V, leW e.2.2 T⟩ e.1 e.2.1 := by
  obtain ⟨hf, hsub, hI⟩ := safeBuilt_facts V E T hT
  exact cert_of_indep V E T hE hf hsub hI hspan

/-- **cut steps give a minimum spanning forest** (Borůvka / Prim / Kruskal alike, ties included): a list of
edges built by cut steps that connects whatever `E` connects weighs no more than any forest of edges of `E`
that does. -/
theorem cut_steps_minimum (V : Nat) (E T : List Edge) (hE : WFE V E) (hT : SafeBuilt V E T)
    (hspan : ∀ e ∈ E, Conn ⟨V, T⟩ e.1 e.2.1)
    (T' : List Edge) (hT' : Forest V T') (hT'E : ∀ e ∈ T', e ∈ E ∨ revE e ∈ E)
    (hspan' : ∀ e ∈ E, Conn ⟨V, T'⟩ e.1 e.2.1) : weight T ≤ weight T' := by
  obtain ⟨hf, hsub, _⟩ := safeBuilt_facts V E T hT
  exact mst_certificate_sound' V E T T' hE hf hsub (cut_steps_certificate V E T hE hT hspan) hT' hT'E hspan'

/-- **one Borůvka round is made of cut steps, ties included.**  Let `lab` label the components of the forest
`A0`, let every component propose a lightest edge of `E` leaving it (`Proposals`: ties may be broken
differently by different components, as `np.argmin` over differently masked rows does), and let the proposals
of distinct components be examined in any order, one being appended iff its ends are not connected yet
(`Round`: the `k != j` test of the union-find in `mst`).  Then the forest after the round is built by cut
steps if the one before was.  Invariant: in every current class at most one component has its proposal not
accepted, and that proposal is a lightest one of the class. -/
theorem boruvka_round_cut_steps (V : Nat) (E A0 : List Edge) (lab : Nat → Nat) (lk : Nat → Edge)
    (hE : WFE V E) (hA0 : WFE V A0) (hP : Proposals V E A0 lab lk)
    (srcs : List Nat) (hs : ∀ s ∈ srcs, s < V) (hd : srcs.Pairwise (fun a b => lab a ≠ lab b))
    (R : List Edge) (hR : Round V lk srcs A0 R) (hS : SafeBuilt V E A0) : SafeBuilt V E R :=
  round_safe V E A0 lab lk hE hP srcs A0 [] R hs hd (by simp) hA0 (rinv2_start V E A0 lab lk hP) hS hR

/-- a round only appends proposals, so the rows stay inside `[0, V)` -/
theorem round_wfe (V : Nat) (lk : Nat → Edge) (hlk : ∀ s, s < V → (lk s).1 < V ∧ (lk s).2.1 < V) :
    ∀ (srcs : List Nat) (A R : List Edge), (∀ s ∈ srcs, s < V) → WFE V A → Round V lk srcs A R → WFE V R := by
  intro srcs
  induction srcs with
  | nil => intro A R _ hA hR; cases hR; exact hA
  | cons s ss ih =>
      intro A R hs hA hR
      cases hR with
      | skip _ hR' => exact ih A R (fun t ht => hs t (List.mem_cons_of_mem _ ht)) hA hR'
      | take _ hR' =>
          apply ih (A ++ [lk s]) R (fun t ht => hs t (List.mem_cons_of_mem _ ht)) ?_ hR'
          intro x hx
          rcases List.mem_append.mp hx with h | h
          · exact hA x h
          · simp only [List.mem_singleton] at h; subst h; exact hlk s (hs s (by simp))

/-- any number of such rounds, starting from no edge -/
inductive BoruvkaRounds (V : Nat) (E : List Edge) : List Edge → Prop
  | start : BoruvkaRounds V E []
  | round {A0 R : List Edge} (lab : Nat → Nat) (lk : Nat → Edge) (srcs : List Nat) :
      BoruvkaRounds V E A0 → Proposals V E A0 lab lk → (∀ s ∈ srcs, s < V) →
      srcs.Pairwise (fun a b => lab a ≠ lab b) → Round V lk srcs A0 R → BoruvkaRounds V E R

/-- **Borůvka's algorithm returns a minimum spanning forest, ties included**: whatever is produced by rounds
of the above kind and connects what `E` connects weighs no more than any forest of edges of `E` that does. -/
theorem boruvka_rounds_minimum (V : Nat) (E T : List Edge) (hE : WFE V E) (hT : BoruvkaRounds V E T)
    (hspan : ∀ e ∈ E, Conn ⟨V, T⟩ e.1 e.2.1)
    (T' : List Edge) (hT' : Forest V T') (hT'E : ∀ e ∈ T', e ∈ E ∨ revE e ∈ E)
    (hspan' : ∀ e ∈ E, Conn ⟨V, T'⟩ e.1 e.2.1) : weight T ≤ weight T' := by
  have key : ∀ T, BoruvkaRounds V E T → SafeBuilt V E T ∧ WFE V T := by
    intro T hT
    induction hT with
    | start => exact ⟨SafeBuilt.nil, by intro x hx; simp at hx⟩
    | @round A0 R lab lk srcs _ hP hs hd hR ih =>
        obtain ⟨hS, hA0⟩ := ih
        refine ⟨boruvka_round_cut_steps V E A0 lab lk hE hA0 hP srcs hs hd R hR hS, ?_⟩
        exact round_wfe V lk (fun s hs' => ⟨(hP.src s hs').1, (hP.tgt s hs').1⟩) srcs A0 R hs hA0 hR
  exact cut_steps_minimum V E T hE (key T hT).1 hspan T' hT' hT'E hspan'

/-- **the proposal loop of `mst` as written proposes lightest leaving edges** (first part of the refinement):
after `for n1 in range(n)` with `newdist[label == j] = maxdist`, `np.argmin` and the strict test
`newdist[n2] < mindist[j]`, the link `(a, b)` of a component `j` joins a vertex of `j` to a vertex outside it,
is shorter than `maxdist`, and no pair (inside `j`, outside `j`) is closer — whatever ties there are; a
component left without a link has no outside vertex closer than `maxdist`. -/
theorem mst_links_are_lightest (n : Nat) (sq : List (List Rat)) (maxd : Rat) (label : List Nat) (nbcc : Nat)
    (hn : 0 < n) (hlab : ∀ v, v < n → label.getD v 0 < nbcc) (j : Nat) (hj : j < nbcc) :
    (∀ a b, (mstLinks n sq maxd label nbcc).getD j none = some (a, b) →
        a < n ∧ b < n ∧ label.getD a 0 = j ∧ label.getD b 0 ≠ j ∧ getM sq a b < maxd ∧
        ∀ x y, x < n → y < n → label.getD x 0 = j → label.getD y 0 ≠ j → getM sq a b ≤ getM sq x y) ∧
    ((mstLinks n sq maxd label nbcc).getD j none = none →
        ∀ x y, x < n → y < n → label.getD x 0 = j → label.getD y 0 ≠ j → maxd ≤ getM sq x y) :=
  mstLinks_lightest n sq maxd label nbcc hn hlab j hj

/-- `mst(X)` (Borůvka rounds as written), what is proved and what is not: **if** the rows the merge loop
appends (one per accepted link, `evens (mst n sq)`) are cut steps with respect to the complete graph on
the squared distances and span it, the tree is of minimum total weight among all spanning trees; and
`boruvka_rounds_minimum` proves this for every run of abstract rounds (lightest proposals, examined in any
order, accepted iff the ends are not yet connected), ties included.
*Missing for the unconditional statement about the model `mst`*: the rest of the refinement — the links of
`mst_links_are_lightest` packaged as `Proposals` for the labels `cc` returns (symmetric distances below
`maxdist`), the `ufFind` test of `mstMerge` is the `Round` test "ends not connected by the rows so far", and
the loop ends spanning within its fuel.  Until then minimality of `mst` itself rests on the certificate `mstCertB` evaluated on every
output (`mst_checked_minimal_partial`). -/
theorem mst_minimal_of_cut_rows_partial (n : Nat) (sq : List (List Rat))
    (hE : WFE n (completeEdges n sq))
    (hrows : SafeBuilt n (completeEdges n sq) (evens (mst n sq)))
    (hspan : ∀ e ∈ completeEdges n sq, Conn ⟨n, evens (mst n sq)⟩ e.1 e.2.1)
    (T' : List Edge) (hT' : Forest n T') (hT'E : ∀ e ∈ T', e ∈ completeEdges n sq ∨ revE e ∈ completeEdges n sq)
    (hspan' : ∀ e ∈ completeEdges n sq, Conn ⟨n, T'⟩ e.1 e.2.1) :
    weight (evens (mst n sq)) ≤ weight T' :=
  cut_steps_minimum n _ _ hE hrows hspan T' hT' hT'E hspan'

/-! ## Non-vacuity -/

/-- one edge on two vertices is a cut step from the empty forest -/
example : SafeBuilt 2 [(0, 1, (1 : Rat))] [(0, 1, 1)] := by
  have h := SafeBuilt.snoc (V := 2) (E := [(0, 1, (1 : Rat))]) (A := []) (e := (0, 1, 1)) SafeBuilt.nil
    (Or.inl (by simp))
    (by intro hc; have := conn_nil 2 hc; simp at this)
    (by
      intro x y w' _ _ he
      rcases he with he | he <;> simp only [List.mem_singleton, Prod.mk.injEq] at he
      · rw [← he.2.2]
      · rw [← he.2.2])
  simpa using h

example : Indep 3 [(0, 1, (1 : Rat)), (1, 2, 2)] [] := indep_nil _ _

/-- three points on a line, two components `{0, 1}` and `{2}`: component 0 proposes `(1, 2)` -/
example : mstLinks 3 [[0, 1, 16], [1, 0, 9], [16, 9, 0]] 65 [0, 0, 1] 2 = [some (1, 2), some (2, 1)] := by
  decide +kernel

/-- two points: each proposes the only edge, in its own direction; the second proposal is skipped -/
example : Proposals 2 [(0, 1, (1 : Rat))] [] id (fun x => if x = 0 then (0, 1, 1) else (1, 0, 1)) where
  lab_iff := by
    intro u v _ _
    exact ⟨fun h => by simp only [id] at h; rw [h]; exact Conn.refl _, fun h => conn_nil 2 h⟩
  src := by intro x hx; interval_cases x <;> simp
  tgt := by intro x hx; interval_cases x <;> simp
  same := by intro x y _ _ h; simp only [id] at h; rw [h]
  inE := by intro x hx; interval_cases x <;> simp [revE]
  lightest := by
    intro x y w' hx _ _ he
    have hw : w' = 1 := by
      rcases he with he | he <;> simp only [List.mem_singleton, Prod.mk.injEq] at he <;> exact he.2.2
    rw [hw]
    interval_cases x <;> simp

example : Round 2 (fun x => if x = 0 then ((0, 1, 1) : Edge) else (1, 0, 1)) [0, 1] [] [(0, 1, 1)] := by
  apply Round.take
  · intro hc; have := conn_nil 2 hc; simp at this
  · apply Round.skip
    · exact Conn.step (w := 1) (Conn.refl _) (Or.inr (by simp))
    · have h := Round.nil (V := 2) (lk := fun x => if x = 0 then ((0, 1, 1) : Edge) else (1, 0, 1)) [(0, 1, 1)]
      simpa using h

end NipyVerif.C11
