/-
C02 (third part) — property theorems about `Model/C02C.lean`:

* `prog_sound`: ONE theorem over the whole operation language — programs applying, in any
  interleaving and to any object made so far, every operation of the histories (slicing,
  reorder / rename axes and reference, rollimg, rollaxis, synchronized_order, iter_axis,
  as_xyz_image), indices of every kind, `rollimg(..., fix0)`, `ImageList.from_image(...)[a:b:c]…[i]`,
  re-observation, `get_fdata`, `iter_axis(asarray=True)`, `from_image(...).get_list_data(axis)`:
  every object ever made and everything ever shown is derived from the original image — every
  value at its named world position, nothing duplicated or invented; objects never change.
* every index kind of `Image.__getitem__`; `ArrayCoordMap.__getitem__ / values / transposed_values`,
  `Grid`, `from_shape`; `xyz_affine`; round trips of `rollimg` and of `reordered_axes`.

Vocabulary (Lemmas/C02C.lean): `Derived g h` — like `Embeds g h` (Props/C02) but reference
coordinates may have been dropped (`dropout`): `List.Subperm` instead of `List.Perm`;
`ArrFrom g a` — the array `a` reads `g` through an injective index map; `POut.Sound g out` —
what an instruction shows is derived from `g`; `SameImg g h` — `h` has the shape, names, affine
of `g` and the same value at every voxel; `gridPoint pts j` — the grid point array index `j`
stands for.
-/
import NipyVerif.Lemmas.C02C

namespace NipyVerif.C02

variable {α : Type}

/-! ## programs over the whole operation language -/

/-- **Every finite program of image manipulations** (clause "… and all finite sequences of such
    operations", with operations applied to *any* object made so far and observations in between):
    run on the store `[g0]`, every object of the final store is well formed ("array shape matches
    the input dimension of the coordinate map") and derived from `g0` — an injective index map
    into the voxels of `g0` with equal values, and every named world coordinate the object has is
    a (renamed) named world coordinate of that voxel of `g0`; every outcome shown on the way (image,
    bare value, array, refusal) is sound in the same sense.  By induction over the program. -/
theorem prog_sound (g0 : ImgOf α) (hw : WF g0) (prog : List PInstr) :
    (∀ h ∈ (execP [g0] prog).1, Derived g0 h ∧ WF h) ∧
    (∀ out ∈ (execP [g0] prog).2, POut.Sound g0 out) := by
  apply execP_sound g0 prog [g0]
  intro h hh
  simp only [List.mem_singleton] at hh
  subst hh
  exact ⟨Derived.refl _, hw⟩

/-- "the original image is left unchanged", for programs: every object that was in the store is
    still there, unchanged, at its place, whatever runs afterwards (`obs` shows exactly this on
    the real code) -/
theorem prog_keeps_objects (prog : List PInstr) (store : List (ImgOf α)) :
    store <+: (execP store prog).1 := execP_prefix prog store

/-- re-observing an object shows the object (it is a value, not a view of later state) -/
theorem prog_obs_is_identity (g : ImgOf α) : stepP g .obs = .img g := rfl

/-- pointwise reading of `Derived`: nothing invented, nothing duplicated, every coordinate an
    object has is one the voxel had in the original (up to the renaming `ρ`) -/
theorem derived_pointwise (g h : ImgOf α) (hd : Derived g h) :
    ∃ (σ : List Nat → List Nat) (ρ : String → String),
      (∀ j, ValidIdx h.shape j → ValidIdx g.shape (σ j) ∧ h.data j = g.data (σ j) ∧
        ∀ p ∈ namedWorld h j, ∃ q ∈ namedWorld g (σ j), p = (ρ q.1, q.2)) ∧
      (∀ j j', ValidIdx h.shape j → ValidIdx h.shape j' → σ j = σ j' → j = j') := by
  obtain ⟨σ, ρ, _, hv, hi⟩ := hd
  refine ⟨σ, ρ, fun j hj => ⟨(hv j hj).1, (hv j hj).2.1, fun p hp => ?_⟩, hi⟩
  have := (hv j hj).2.2.subset hp
  obtain ⟨q, hq, rfl⟩ := List.mem_map.mp this
  exact ⟨q, hq, rfl⟩

/-- an `Embeds` (Props/C02: reference coordinates permuted and renamed only) is a `Derived` -/
theorem embeds_is_derived (g h : ImgOf α) (he : Embeds g h) : Derived g h := he.derived

/-- `ImageList.from_image(img, axis, dropout)[a:b:c]…[i]`: whatever item comes out is derived from
    the image (for every axis identifier, both values of `dropout`, every orientation parameter) -/
theorem list_pick_sound (g it : ImgOf α) (ax : Option AxId) (d : Bool) (o : List (Option Nat))
    (oS : OrntSrc) (sls : List (Option Int × Option Int × Option Int)) (i : Int) (hw : WF g)
    (hres : listPick g ax d o oS sls i = .ok it) : Derived g it ∧ WF it :=
  listPick_derived g ax d o oS sls i it hw hres

/-! ## every index kind -/

/-- `img[index]` for an index tuple of any kind: when the code returns an image it is a slice in
    the sense of `slice_world` (Props/C02) of the plain int / slice / Ellipsis tuple -/
theorem getitem_any_index_sound (g h : ImgOf α) (l : List Idx) (hw : WF g)
    (hres : getitemX g l = .ok (.img h)) :
    l.all Idx.isPlain = true ∧ getitem g (numpySlicers l) = .ok (.img h) ∧ Embeds g h ∧ WF h := by
  obtain ⟨h1, h2⟩ := getitemX_cases g l _ hres
  exact ⟨h1, h2, getitem_img g h _ hw h2⟩

/-- `None` (newaxis), lists / arrays (fancy indexing), floats and strings are always refused — no
    image with an axis that has no coordinate, no repeated voxels; a float or string is an
    `IndexError` whatever else the tuple holds -/
theorem getitem_non_basic_refused (g : ImgOf α) (l : List Idx) (h : l.all Idx.isPlain = false) :
    (∃ e, getitemX g l = .error e) ∧ (l.any Idx.isFloat = true → getitemX g l = .error .indexError) := by
  constructor
  · cases hr : getitemX g l with
    | error e => exact ⟨e, rfl⟩
    | ok r => have := (getitemX_cases g l r hr).1; rw [h] at this; cases this
  · intro hf; simp [getitemX, hf]

/-! ## ArrayCoordMap -/

/-- the coordinate map `Image.__getitem__` gives the slice is exactly
    `ArrayCoordMap(img.coordmap, img.shape)[index]` -/
theorem slice_coordmap_is_array_coordmap (g h : ImgOf α) (sl : List Slicer)
    (hres : getitem g sl = .ok (.img h)) : acmGetitem g.acm sl = .ok h.acm := getitem_acm g h sl hres

/-- `ArrayCoordMap.__getitem__` by itself (also all-integer indexing, which gives a map with no
    array axis): array index `j` of the result lies at the world position of array index `σ j` of
    the original, `σ` injective, reference names unchanged -/
theorem array_coordmap_slice_world (c c' : ACM) (sl : List Slicer) (hw : WF c)
    (hres : acmGetitem c sl = .ok c') :
    WF c' ∧ c'.outNames = c.outNames ∧ ∃ σ : List Nat → List Nat,
      (∀ j, ValidIdx c'.shape j → ValidIdx c.shape (σ j) ∧ ∀ r, c'.world j r = c.world (σ j) r) ∧
      (∀ j j', ValidIdx c'.shape j → ValidIdx c'.shape j' → σ j = σ j' → j = j') :=
  acmGetitem_world c c' sl hw hres

/-- a second Ellipsis is a `ValueError` of `ArrayCoordMap.__getitem__` (an `Image` shows NumPy's
    `IndexError` instead: `expand`) -/
theorem array_coordmap_two_ellipses (c : ACM) (sl : List Slicer)
    (h : 1 < (sl.filter (fun s => decide (s = Slicer.ell))).length) :
    acmGetitem c sl = .error .valueError := by simp [acmGetitem, h]

/-- `values` has one row per array index — every index of the shape exactly once — holding the
    world coordinates of that index; `transposed_values` holds the same numbers, one block per
    world coordinate -/
theorem array_coordmap_values_spec (c : ACM) :
    (acmValues c).length = (allIdx c.shape).length ∧
    (allIdx c.shape).Nodup ∧ (∀ j, j ∈ allIdx c.shape ↔ ValidIdx c.shape j) ∧
    (allIdx c.shape).length = c.shape.foldr (· * ·) 1 ∧
    (∀ k (hk : k < (allIdx c.shape).length),
      (acmValues c)[k]'(by simp [acmValues, hk]) =
        (List.range c.outNames.length).map (fun r => c.world ((allIdx c.shape)[k]) r)) ∧
    (∀ r k (hr : r < c.outNames.length) (hk : k < (allIdx c.shape).length),
      ((acmTransposed c)[r]'(by simp [acmTransposed, hr]))[k]'(by simp [acmTransposed, hk]) =
        ((acmValues c)[k]'(by simp [acmValues, hk]))[r]'(by simp [acmValues, hr])) := by
  refine ⟨by simp [acmValues], allIdx_nodup _, fun j => mem_allIdx _ j, allIdx_length _, ?_, ?_⟩
  · intro k hk; simp [acmValues]
  · intro r k hr hk; simp [acmValues, acmTransposed]

/-- without array axes (`acm[0, 0, 0]`) `values` / `transposed_values` raise `TypeError` -/
theorem array_coordmap_values_0d (c : ACM) (h : c.shape = []) : acmValuesE c = .error .typeError := by
  simp [acmValuesE, h]

/-! ## Grid, from_shape -/

/-- `Grid(coordmap)[a:b:s, c:d:nj, …]`: the result has one array axis per slice, of the length
    `np.ogrid` gives it, and array index `j` lies at the coordinate map's value at the grid point
    `(start_k + j_k · step_k)_k` -/
theorem grid_world (c c' : ACM) (specs : List GSpec) (h : gridGetitem c specs = .ok c') :
    ∃ pts, gridNp specs = .ok pts ∧ pts.length = c.inNames.length ∧ (∀ p ∈ pts, 0 < p.1) ∧
      c'.shape = pts.map (·.1) ∧ c'.outNames = c.outNames ∧
      ∀ j, ValidIdx c'.shape j → ∀ r, c'.world j r = c.off r + linQ c.cols (gridPoint pts j) r :=
  gridGetitem_spec c c' specs h

/-- what `np.ogrid` makes of one slice: `a:b:s` has `⌈(b − a)/s⌉` points from `a` in steps of `s`
    (a missing stop is refused, a zero step a `ZeroDivisionError`); `a:b:nj` has `n` points from
    `a` to `b` inclusive -/
theorem ogrid_slice_spec (a b s : Option Rat) (x y : Rat) (n : Nat) :
    (GSpec.step a none s).np = .error .attributeError ∧
    (∀ stop, s.getD 1 = 0 → (GSpec.step a (some stop) s).np = .error .zeroDivision) ∧
    (∀ stop, s.getD 1 ≠ 0 → (GSpec.step a (some stop) s).np =
      .ok ((Rat.ceil ((stop - a.getD 0) / s.getD 1)).toNat, a.getD 0, s.getD 1)) ∧
    (2 ≤ n → ∃ st, (GSpec.num x y n).np = .ok (n, x, st) ∧ x + ((n : Rat) - 1) * st = y) := by
  refine ⟨rfl, fun stop h => by simp [GSpec.np, h], fun stop h => by simp [GSpec.np, h], fun hn => ?_⟩
  have h1 : n ≠ 1 := by omega
  refine ⟨(y - x) / ((n : Rat) - 1), by simp [GSpec.np, h1], ?_⟩
  have : ((n : Rat) - 1) ≠ 0 := by
    have : (2 : Rat) ≤ (n : Rat) := by exact_mod_cast hn
    intro hc; linarith
  field_simp
  ring

/-- `ArrayCoordMap.from_shape(coordmap, shape)` for a shape without empty axes: the same shape, the
    same reference names, and every array index at the world position the coordinate map gives it
    (the affine columns of length-1 axes are written as 0, which no valid index can see) -/
theorem from_shape_world (c : ACM) (shape : List Nat) (hl : shape.length = c.inNames.length)
    (hpos : ∀ s ∈ shape, 0 < s) :
    ∃ c', fromShape c shape = .ok c' ∧ c'.shape = shape ∧ c'.outNames = c.outNames ∧
      ∀ j, ValidIdx shape j → ∀ r, c'.world j r = c.world j r := by
  have hnp := gridNp_fromShape shape
  have hex : ∃ c', fromShape c shape = .ok c' := by
    unfold fromShape gridGetitem
    rw [hnp]
    have h1 : ¬ ((shape.map (fun s => (s, (0 : Rat), (1 : Rat)))).length ≠ c.inNames.length) := by
      simp [hl]
    have h2 : ¬ ((shape.map (fun s => (s, (0 : Rat), (1 : Rat)))).any (fun p => p.1 == 0) = true) := by
      simp only [List.any_map, List.any_eq_true, Function.comp, beq_iff_eq, not_exists, not_and]
      intro s hs hc
      have := hpos s hs
      omega
    simp only [h1, h2, if_false]
    exact ⟨_, rfl⟩
  obtain ⟨c', hc'⟩ := hex
  obtain ⟨pts, e1, _, _, e4, e5, e6⟩ := gridGetitem_spec c c' _ hc'
  rw [hnp] at e1
  cases e1
  have hsh : c'.shape = shape := by rw [e4, List.map_map]; simp [Function.comp_def]
  refine ⟨c', hc', hsh, e5, fun j hj r => ?_⟩
  rw [e6 j (by rw [hsh]; exact hj) r, gridPoint_fromShape shape j hj, linQ_cast]
  rfl

theorem from_shape_refusals (c : ACM) (shape : List Nat) :
    (shape.length ≠ c.inNames.length → fromShape c shape = .error .valueError) ∧
    (shape.length = c.inNames.length → 0 ∈ shape → fromShape c shape = .error .indexError) := by
  have hnp := gridNp_fromShape shape
  constructor
  · intro h
    unfold fromShape gridGetitem
    rw [hnp]
    simp [h]
  · intro h h0
    unfold fromShape gridGetitem
    rw [hnp]
    have h2 : (shape.map (fun s => (s, (0 : Rat), (1 : Rat)))).any (fun p => p.1 == 0) = true := by
      simp only [List.any_map, List.any_eq_true, Function.comp, beq_iff_eq]
      exact ⟨0, h0, rfl⟩
    simp [h, h2]

/-! ## xyz_affine -/

/-- `xyz_affine(img)`: when the code returns a matrix `M`, the first three world coordinates of
    *every* voxel are `M · (j₀, j₁, j₂, 1)` — the indices along further axes do not matter — and
    the last row is `[0, 0, 0, 1]` -/
theorem xyz_affine_world (g : ImgOf α) (m : List (String × Nat)) (o : List (Option Nat))
    (M : List (List Rat)) (h : xyzAffine g m o = .ok M) :
    M.length = 4 ∧ M.getD 3 [] = [0, 0, 0, 1] ∧
    ∀ j r, r < 3 → g.world j r = (M.getD r []).getD 3 0
      + ((j.getD 0 0 : Nat) : Rat) * (M.getD r []).getD 0 0
      + ((j.getD 1 0 : Nat) : Rat) * (M.getD r []).getD 1 0
      + ((j.getD 2 0 : Nat) : Rat) * (M.getD r []).getD 2 0 := by
  unfold xyzAffine at h
  cases he : xyzAffineErr g m o with
  | some e => simp [he] at h
  | none =>
    simp only [he, Except.ok.injEq] at h
    subst h
    have hz : extraColsZero g = true := by
      unfold xyzAffineErr at he
      cases hx : xyzOrder m g.outNames with
      | error e => simp [hx] at he
      | ok ord =>
        simp only [hx] at he
        split_ifs at he with h1 h2 h3
        simpa using h3
    refine ⟨by simp, by simp [List.range_succ], fun j r hr => ?_⟩
    have hzr : ∀ c ∈ g.cols.drop 3, c r = 0 := by
      intro c hc
      have := List.all_eq_true.mp hz c hc
      simp only [Bool.and_eq_true, beq_iff_eq] at this
      have hr3 : r = 0 ∨ r = 1 ∨ r = 2 := by omega
      rcases hr3 with rfl | rfl | rfl
      · exact this.1.1
      · exact this.1.2
      · exact this.2
    simp only [ImgOf.world]
    rw [lin_three g.cols j r hzr]
    have hr3 : r = 0 ∨ r = 1 ∨ r = 2 := by omega
    rcases hr3 with rfl | rfl | rfl <;> simp [List.range_succ] <;> ring

/-- `is_xyz_affable(img)` is "`xyz_affine(img)` does not raise" -/
theorem is_xyz_affable_iff (g : ImgOf α) (m : List (String × Nat)) (o : List (Option Nat)) :
    (xyzAffineErr g m o = none) ↔ ∃ M, xyzAffine g m o = .ok M := by
  unfold xyzAffine
  cases xyzAffineErr g m o with
  | none => simp
  | some e => simp

/-- whatever `as_xyz_image` returns is xyz-affable (for the orientation the code computes of it):
    either the input itself, which was affable, or a reordered image that passed `xyz_affine` -/
theorem as_xyz_result_affable (g h : ImgOf α) (m : List (String × Nat))
    (orient : ImgOf α → Nat → List (Option Nat)) (hres : asXyz g m orient = .ok h) :
    (h = g ∧ xyzAffineErr g m (orient g 0) = none) ∨ xyzAffineErr h m (orient h 2) = none := by
  unfold asXyz at hres
  cases h0 : xyzAffineErr g m (orient g 0) with
  | none => simp only [h0, Except.ok.injEq] at hres; exact Or.inl ⟨hres.symm, rfl⟩
  | some e =>
    simp only [h0] at hres
    cases hx : xyzOrder m g.outNames with
    | error e' => simp [hx] at hres
    | ok order =>
      simp only [hx] at hres
      cases hr : reorderRef g (.nats order) with
      | error e' => simp [hr] at hres
      | ok h1 =>
        simp only [hr] at hres
        split_ifs at hres with hc
        revert hres
        generalize hks : (argsort ((orient h1 1).map (fun o => match o with
            | some k => k
            | none => (orient h1 1).length + g.outNames.length + 8))) = ks
        intro hres
        cases hr2 : reorderAxes h1 (.nats ks) with
        | error e' => simp [hr2] at hres
        | ok h2 =>
          simp only [hr2] at hres
          cases h3 : xyzAffineErr h2 m (orient h2 2) with
          | some e' => simp [h3] at hres
          | none =>
            simp only [h3, Except.ok.injEq] at hres
            subst hres
            exact Or.inr h3

/-- `xyz_affine(make_xyz_image(data, A, world))`, when it succeeds, is `A` again (first three
    rows; last row `[0, 0, 0, 1]`) — for every number of further axes and every zooms -/
theorem make_xyz_then_xyz_affine (shape : List Nat) (data : List Nat → α) (xyz : List (List Rat))
    (zooms : Option (List Rat)) (world : List String) (g : ImgOf α) (m : List (String × Nat))
    (o : List (Option Nat)) (M : List (List Rat))
    (h : makeXyz shape data xyz zooms world = .ok g) (hM : xyzAffine g m o = .ok M) :
    M = (List.range 3).map (fun r => (List.range 4).map (fun k => (xyz.getD r []).getD k 0))
          ++ [[0, 0, 0, 1]] := by
  obtain ⟨hN, _, z, _, _, rfl⟩ := makeXyz_spec shape data xyz zooms world g h
  unfold xyzAffine at hM
  cases he : xyzAffineErr (xyzImg shape data xyz z world) m o with
  | some e => simp [he] at hM
  | none =>
    simp only [he, Except.ok.injEq] at hM
    subst hM
    have hc : ∀ k r, k < 3 → r < 3 →
        ((xyzImg shape data xyz z world).cols.getD k zeroVec) r = (xyz.getD r []).getD k 0 := by
      intro k r hk hr
      have hk' : k < shape.length := by omega
      simp [xyzImg, List.getD_eq_getElem?_getD, hk', hk, hr]
    have ho : ∀ r, r < 3 → (xyzImg shape data xyz z world).off r = (xyz.getD r []).getD 3 0 := by
      intro r hr; simp [xyzImg, hr]
    simp only [List.range_succ, List.range_zero, List.nil_append, List.map_cons, List.map_nil,
      List.cons_append]
    rw [hc 0 0 (by omega) (by omega), hc 1 0 (by omega) (by omega), hc 2 0 (by omega) (by omega),
      hc 0 1 (by omega) (by omega), hc 1 1 (by omega) (by omega), hc 2 1 (by omega) (by omega),
      hc 0 2 (by omega) (by omega), hc 1 2 (by omega) (by omega), hc 2 2 (by omega) (by omega),
      ho 0 (by omega), ho 1 (by omega), ho 2 (by omega)]

/-! ## round trips -/

/-- `rollimg(rollimg(img, a), 0, a + 1)` (the documented way back) never refuses for an axis
    number of the image and gives the image back: shape, axis names, reference, affine and the
    value at every voxel -/
theorem rollimg_roundtrip (g : ImgOf α) (a : Nat) (o o' : List (Option Nat)) (hw : WF g)
    (ha : a < g.shape.length) :
    ∃ r r', rollimg g (.int (a : Int)) (.int 0) o = .ok r ∧
      rollimg r (.int 0) (.int ((a : Int) + 1)) o' = .ok r' ∧ SameImg g r' := by
  have hp1 := isPerm_of_perm (rollOrder_perm g.shape.length a ha)
  have hp2 := isPerm_of_perm (unrollOrder_perm g.shape.length a ha)
  have e1 : rollimg g (.int (a : Int)) (.int 0) o =
      .ok (reorderAxesP g (pyInsert ((List.range g.shape.length).erase a) 0 a)) := by
    have := rollimg_int g a 0 o ha
    simp only [Nat.cast_zero] at this
    have hlt : ¬ ((a : Int) < 0) := by omega
    rw [this, if_neg hlt, reorderAxes_nats g _ hp1]
  have hlen : (reorderAxesP g (pyInsert ((List.range g.shape.length).erase a) 0 a)).shape.length
      = g.shape.length := by
    simp only [reorderAxesP, permute_length]
    exact ((isPerm_iff _ _).mp hp1).1
  have e2 : rollimg (reorderAxesP g (pyInsert ((List.range g.shape.length).erase a) 0 a)) (.int 0)
      (.int ((a : Int) + 1)) o' =
      .ok (reorderAxesP (reorderAxesP g (pyInsert ((List.range g.shape.length).erase a) 0 a))
        (pyInsert ((List.range g.shape.length).erase 0) (a : Int) 0)) := by
    have := rollimg_int (reorderAxesP g (pyInsert ((List.range g.shape.length).erase a) 0 a)) 0 (a + 1) o'
      (by rw [hlen]; omega)
    simp only [Nat.cast_zero, Nat.cast_add, Nat.cast_one] at this
    have hlt : ((0 : Int) < (a : Int) + 1) := by omega
    rw [this, if_pos hlt, hlen, reorderAxes_nats _ _ (by rw [hlen]; simpa using hp2)]
    simp
  refine ⟨_, _, e1, e2, reorderAxesP_roundtrip g _ _ hw hp1 hp2 (fun m hm => ?_)⟩
  rw [unrollOrder_getD _ a m ha hm]
  by_cases h1 : m < a
  · rw [if_pos h1, rollOrder_getD _ a (m + 1) ha (by omega)]; simp [h1]
  · by_cases h2 : m = a
    · rw [if_neg h1, if_pos h2, rollOrder_getD _ a 0 ha (by omega)]; simp [h2]
    · rw [if_neg h1, if_neg h2, rollOrder_getD _ a m ha hm]
      have : m ≠ 0 := by omega
      have : ¬ (m - 1 < a) := by omega
      simp [*]

/-- `img.reordered_axes(o).reordered_axes(o⁻¹)` gives the image back, for every permutation `o`
    (`o⁻¹[k]` is the position of `k` in `o`) -/
theorem reorder_axes_inverse_roundtrip (g : ImgOf α) (o : List Nat) (hw : WF g)
    (hp : isPerm g.shape.length o = true) :
    ∃ r r', reorderAxes g (.nats o) = .ok r ∧
      reorderAxes r (.nats ((List.range g.shape.length).map (fun k => o.idxOf k))) = .ok r' ∧
      SameImg g r' := by
  have hl := ((isPerm_iff _ _).mp hp).1
  have hnd := ((isPerm_iff _ _).mp hp).2.1
  have hp2 : isPerm g.shape.length ((List.range g.shape.length).map (fun k => o.idxOf k)) = true := by
    rw [isPerm_iff]
    refine ⟨by simp, ?_, fun k hk => ?_⟩
    · refine List.Nodup.map_on (fun x hx y hy hxy => ?_) List.nodup_range
      have hx' := isPerm_getD_idxOf hp (List.mem_range.mp hx)
      have hy' := isPerm_getD_idxOf hp (List.mem_range.mp hy)
      rw [hxy, hy'] at hx'
      exact hx'.symm
    · obtain ⟨x, hx, rfl⟩ := List.mem_map.mp hk
      exact isPerm_idxOf_lt hp (List.mem_range.mp hx)
  have hlen : (reorderAxesP g o).shape.length = g.shape.length := by
    simp only [reorderAxesP, permute_length]; exact hl
  refine ⟨_, _, reorderAxes_nats g o hp, ?_, reorderAxesP_roundtrip g o _ hw hp hp2 (fun m hm => ?_)⟩
  · rw [reorderAxes_nats _ _ (by rw [hlen]; exact hp2)]
  · have : ((List.range g.shape.length).map (fun k => o.idxOf k)).getD m 0 = o.idxOf m := by
      simp [List.getD_eq_getElem?_getD, hm]
    rw [this, isPerm_getD_idxOf hp hm]

/-! ## io_orientation without the SVD: affines with mutually orthogonal columns -/

/-- For an affine whose columns are mutually orthogonal, the column-normalised linear part `RS`
    (`zs`: the column norms, 1 for an all-zero column) satisfies `RSᵀ·RS = D`, a diagonal matrix of
    ones (non-zero columns) and zeros — `RS` is a partial isometry, `RS = RS·D` with `D = √(RSᵀRS)`
    symmetric positive semi-definite: the polar factor `R` nibabel computes through the SVD is `RS`
    itself (uniqueness of the polar factor on the range of `D` is standard linear algebra, not
    formalised here; the harness compares `R` with `RS` on every generated case). -/
theorem orth_columns_partial_isometry (cs : List Vec) (nout : Nat) (ho : orthCols cs nout = true)
    (z : Nat → Rat)
    (hz : ∀ k, k < cs.length → 0 < z k ∧
      (dotCols (cs.getD k zeroVec) (cs.getD k zeroVec) nout ≠ 0 →
        z k * z k = dotCols (cs.getD k zeroVec) (cs.getD k zeroVec) nout))
    (i j : Nat) (hi : i < cs.length) (hj : j < cs.length) :
    dotCols (fun r => (cs.getD i zeroVec) r / z i) (fun r => (cs.getD j zeroVec) r / z j) nout =
      if i = j then (if dotCols (cs.getD i zeroVec) (cs.getD i zeroVec) nout = 0 then 0 else 1) else 0 := by
  rw [dotCols_scale]
  by_cases hij : i = j
  · subst hij
    rw [if_pos rfl]
    by_cases hn : dotCols (cs.getD i zeroVec) (cs.getD i zeroVec) nout = 0
    · rw [if_pos hn, hn]; simp
    · rw [if_neg hn, (hz i hi).2 hn]
      exact div_self hn
  · rw [if_neg hij]
    have := List.all_eq_true.mp (List.all_eq_true.mp ho i (List.mem_range.mpr hi)) j (List.mem_range.mpr hj)
    simp only [Bool.or_eq_true, beq_iff_eq] at this
    rcases this with h | h
    · exact absurd h hij
    · rw [h]; simp

/-- `io_orientation` of an affine with mutually orthogonal columns, computed by the model in
    exact rational arithmetic on squared entries (`orthOrntCore`), is the loop of `io_orientation`
    (`ioOrientFrom`: processing order, allclose test, argmax with ties, row zeroing) run on the
    column-normalised matrix `RS` with its own keys — for every list of zooms `zs` that are the
    column norms.  `|R|` and `R²` are ordered alike, so neither the square roots nor the SVD are
    needed: for these affines the orientation is no longer a parameter of the model.
    (Rational `zs` exist when the norms are rational — e.g. 3-4-5 rotations, all monomial affines;
    for irrational norms the same algebra runs in ℝ, the model itself never uses `zs`.) -/
theorem orth_ornt_is_io_orientation_loop (cs : List Vec) (nout : Nat) (zs : List Rat)
    (hz : Zooms cs nout zs) (ho : orthCols cs nout = true) :
    orthOrntCore cs nout = ioOrientFrom (normRows cs nout zs) (sqKeys (normRows cs nout zs) cs.length) := by
  unfold orthOrntCore
  rw [if_pos ho, sqNormRows_eq cs nout zs hz, ioOrientSq_map]

/-- the comparisons the loop makes on `|R|` are the comparisons of the squares -/
theorem abs_order_is_square_order (x y : Rat) :
    (absR x ≤ absR y ↔ x * x ≤ y * y) ∧ absR (ssq x) = x * x ∧
    (absR (ssq x) ≤ absR (ssq y) ↔ absR x ≤ absR y) :=
  ⟨absR_le_iff_sq x y, absR_ssq x, absR_ssq_le x y⟩

/-- hence (with `io_orientation_injective`, Props/C02B) no output axis is paired with two input
    axes -/
theorem orth_ornt_injective (cs : List Vec) (nout : Nat) (zs : List Rat) (hz : Zooms cs nout zs)
    (i j a : Nat) (hij : i ≠ j) (hi : (orthOrntCore cs nout).getD i none = some a) :
    (orthOrntCore cs nout).getD j none ≠ some a := by
  by_cases ho : orthCols cs nout = true
  · rw [orth_ornt_is_io_orientation_loop cs nout zs hz ho] at hi ⊢
    exact ioOrientFrom_injective _ _ i j a hij hi
  · simp [orthOrntCore, ho] at hi

/-! ## Non-vacuity -/

/-- a 2 × 3 × 2 image with a sheared affine (x depends on j) -/
def exImgC : Img where
  shape := [2, 3, 2]
  inNames := ["i", "j", "k"]
  outNames := ["x", "y", "z"]
  cols := [fun r => if r = 0 then 2 else 0, fun r => if r = 0 then 1 else if r = 1 then 3 else 0,
           fun r => if r = 2 then 1/2 else 0]
  off := fun r => if r = 0 then 1 else if r = 1 then 2 else 3
  data := fun idx => (idx.getD 0 0 * 6 + idx.getD 1 0 * 2 + idx.getD 2 0 : Nat)

def outKinds : List (POut Int) → List Nat :=
  List.map (fun o => match o with | .img _ => 0 | .val _ => 1 | .arr _ => 2 | .err _ => 3)

example : WF exImgC := ⟨rfl, rfl⟩
-- a program: roll, slice the result with a NumPy-style tuple, look at the original again, take an
-- item of the ImageList of the rolled image, ask for its data, index with None (refused)
example : outKinds (execP [exImgC] [(0, .rollimgF (.int 2) (.int 0) false .mono),
    (1, .index [.s (.idx 1), .s .ell]), (0, .obs),
    (1, .item (some (.int 1)) false .mono .mono [(none, none, some (-1))] 0), (3, .data),
    (0, .index [.newaxis]), (0, .index [.s (.idx 0), .s (.idx 0), .s (.idx 0)])]).2
    = [0, 0, 0, 0, 2, 3, 1] := by decide +kernel
example : ((execP [exImgC] [(0, .rollimgF (.int 2) (.int 0) false .mono),
    (1, .index [.s (.idx 1), .s .ell]), (0, .obs)]).1).length = 3 := by decide +kernel
example : (acmGetitem exImgC.acm [.idx 1, .ell, .slc none none (some 2)]).toOption.map (·.shape)
    = some [3, 1] := by decide +kernel
example : (acmGetitem exImgC.acm [.idx 1, .idx 0, .idx 1]).toOption.map (·.shape) = some [] := by
  decide +kernel
example : (acmGetitem exImgC.acm [.slc (some 0) (some 0) none, .idx 7]).toOption.map (·.shape) = none := by
  decide +kernel
example : (gridGetitem exImgC.acm [.num 0 1 3, .step (some 2) (some 4) none, .step none (some 2) (some (1/2))]
    ).toOption.map (·.shape) = some [3, 2, 4] := by decide +kernel
example : (fromShape exImgC.acm [2, 1, 4]).toOption.map (·.shape) = some [2, 1, 4] := by decide +kernel
example : isPerm 3 [2, 0, 1] = true := by decide +kernel
example : (xyzAffine exImgC [("x", 0), ("y", 1), ("z", 2)] [some 0, some 1, some 2]).toOption
    = some [[2, 1, 0, 1], [0, 3, 0, 2], [0, 0, 1/2, 3], [0, 0, 0, 1]] := by decide +kernel

-- a 3-4-5 rotation with zooms 5, 5: rational norms
def exRot : List Vec := [fun r => if r = 0 then 3 else 4, fun r => if r = 0 then -4 else 3]
example : Zooms exRot 2 [5, 5] := by
  refine List.Forall₂.cons ⟨by norm_num, fun _ => by norm_num [exRot, dotCols, List.range_succ],
      fun h => by norm_num [exRot, dotCols, List.range_succ] at h⟩
    (List.Forall₂.cons ⟨by norm_num, fun _ => by norm_num [exRot, dotCols, List.range_succ],
      fun h => by norm_num [exRot, dotCols, List.range_succ] at h⟩ List.Forall₂.nil)
example : orthCols exRot 2 = true := by decide +kernel
example : orthOrntCore exRot 2 = [some 1, some 0] := by decide +kernel
-- a zero column and a non-orthogonal pair
example : orthOrnt [fun r => if r = 0 then 2 else 0, fun _ => 0] 2 true = [some 0, some 1] := by
  decide +kernel
example : orthOrnt [fun r => if r = 0 then 2 else 1, fun r => if r = 0 then 1 else 1] 2 false = [] := by
  decide +kernel

end NipyVerif.C02
