/-
C01 — property theorems, seventh module (wave 4): `nipy/core/reference/spaces.py` on coordinate
systems and coordinate maps (XYZSpace, known_space, get_world_cs, xyz_order, xyz_affine).
-/
import NipyVerif.Lemmas.C01W

namespace NipyVerif.C01

/-! ## spaces -/

/-- `obj in space`: exactly when all three of the space's axis names are among the object's output
    coordinate names (any order, any position, extra names allowed). -/
theorem space_contains_iff (sp : String) (names : List String) :
    spaceContains sp names = true ↔ ∀ n ∈ xyzNames sp, n ∈ names := by
  simp [spaceContains, xyzNames]

/-- `known_space(obj, spaces)` returns the **first** space of the list that contains the object, and
    `None` exactly when none does. -/
theorem known_space_spec (names : List String) (sps : List String) :
    (∀ s, knownSpace names sps = some s →
      ∃ pre post, sps = pre ++ s :: post ∧ spaceContains s names = true ∧
        ∀ t ∈ pre, spaceContains t names = false) ∧
    (knownSpace names sps = none ↔ ∀ t ∈ sps, spaceContains t names = false) := by
  induction sps with
  | nil => simp [knownSpace]
  | cons a rest ih =>
      obtain ⟨ih1, ih2⟩ := ih
      by_cases h : spaceContains a names = true
      · refine ⟨fun s hs => ?_, ?_⟩
        · simp only [knownSpace, h, if_true, Option.some.injEq] at hs
          subst hs
          exact ⟨[], rest, rfl, h, by simp⟩
        · simp [knownSpace, h]
      · have h' : spaceContains a names = false := by simpa using h
        refine ⟨fun s hs => ?_, ?_⟩
        · simp only [knownSpace, h', Bool.false_eq_true, if_false] at hs
          obtain ⟨pre, post, e, c, n⟩ := ih1 s hs
          refine ⟨a :: pre, post, by simp [e], c, fun t ht => ?_⟩
          rcases List.mem_cons.mp ht with rfl | ht
          · exact h'
          · exact n t ht
        · simp only [knownSpace, h', Bool.false_eq_true, if_false, ih2, List.mem_cons, forall_eq_or_imp,
            true_and]

/-- `get_world_cs`: whatever it is given, an answer has exactly `ndim` coordinates; a space (or
    its name, which must be one of the known names) gives the first `ndim` of its x, y, z names
    followed by the extras, named after the space, float64; a coordinate system of another dimension
    and an unknown space name are `SpaceError`s, anything else a `ValueError`. -/
theorem get_world_cs_spec (w : WorldId) (ndim : Nat) (extras sps : List String) :
    (∀ c, getWorldCS w ndim extras sps = .ok c → c.names.length = ndim) ∧
    (∀ s c, (w = .space s ∨ w = .str s) → getWorldCS w ndim extras sps = .ok c →
      c.names = (xyzNames s ++ extras).take ndim ∧ c.name = s ∧ c.dtype = .f8) ∧
    (∀ s, w = .str s → s ∉ sps → getWorldCS w ndim extras sps = .error .space) ∧
    (∀ c, w = .cs c → c.names.length ≠ ndim → getWorldCS w ndim extras sps = .error .space) ∧
    (w = .other → getWorldCS w ndim extras sps = .error (.base .valueError)) := by
  have hmk : ∀ (m : Maker) (c : CoordSys),
      (match m.call (ndim : Int) none none with
        | .ok c => (Except.ok c : Except SErr CoordSys)
        | .error e => .error (.base e)) = .ok c →
      c.names.length = ndim ∧ c.names = m.names.take ndim ∧ c.name = m.name ∧ c.dtype = m.dtype := by
    intro m c h
    cases hc : m.call (ndim : Int) none none with
    | error e => rw [hc] at h; cases h
    | ok c' =>
        rw [hc] at h
        injection h with h
        subst h
        unfold Maker.call at hc
        split_ifs at hc with h1
        obtain ⟨rfl, _⟩ := mkCS_ok hc
        have h2 : ndim ≤ m.names.length := by omega
        simp [pyPrefix, h2]
  refine ⟨fun c h => ?_, fun s c hw h => ?_, fun s hw hs => ?_, fun c hw hn => ?_, fun hw => ?_⟩
  · cases w with
    | cs c' =>
        simp only [getWorldCS] at h
        split_ifs at h with h1
        injection h with h
        subst h
        simpa using h1
    | str s =>
        simp only [getWorldCS] at h
        split_ifs at h
        exact (hmk _ c h).1
    | space n => exact (hmk _ c h).1
    | maker m => exact (hmk _ c h).1
    | other => simp [getWorldCS] at h
  · rcases hw with rfl | rfl
    · obtain ⟨_, a, b, c'⟩ := hmk _ c h
      exact ⟨a, b, c'⟩
    · simp only [getWorldCS] at h
      split_ifs at h
      obtain ⟨_, a, b, c'⟩ := hmk _ c h
      exact ⟨a, b, c'⟩
  · subst hw
    simp [getWorldCS, hs]
  · subst hw
    simp [getWorldCS, hn]
  · subst hw
    rfl

/-! ## `xyz_order`, `xyz_affine` -/

/-- `xyz_order` returns a permutation of the axes sorted by the x / y / z rank of their names
    (unrecognised names after them, in their original order: rank `N + i`), and refuses with
    `AxesError` exactly when one of x, y, z is not recognised among the names. -/
theorem xyz_order_spec (names : List String) (d : List (String × Nat)) :
    (∀ ord, xyzOrder names d = .ok ord →
      ord.Perm (List.range names.length) ∧
      ord.Pairwise (fun i j => (axvals names d).getD i 0 ≤ (axvals names d).getD j 0) ∧
      ∀ k ∈ [0, 1, 2], k ∈ axvals names d) ∧
    ((∃ k ∈ [0, 1, 2], k ∉ axvals names d) → xyzOrder names d = .error .axes) := by
  have hlen : (axvals names d).length = names.length := by simp [axvals]
  refine ⟨fun ord h => ?_, fun ⟨k, hk, hn⟩ => ?_⟩
  · unfold xyzOrder at h
    simp only at h
    split_ifs at h with hall
    injection h with h
    subst h
    refine ⟨?_, ?_, ?_⟩
    · unfold argsort
      rw [hlen]
      exact isort_perm _ _
    · unfold argsort
      exact isort_pairwise (fun i => (axvals names d).getD i 0) _
    · intro k hk
      simp only [List.all_eq_true, List.contains_iff_mem] at hall
      exact hall k hk
  · unfold xyzOrder
    simp only
    have : ([0, 1, 2].all fun k => (axvals names d).contains k) = false := by
      rw [List.all_eq_false]
      exact ⟨k, hk, by simpa using hn⟩
    rw [this]
    rfl

/-- **`xyz_affine` agrees with function semantics.**  When `xyz_affine(coordmap)` returns a matrix `M`:
    the first three output axes are the x, y, z axes in this order, `M` is the 3 × 3 block of the map's
    matrix with its translation and the exact bottom row `0 0 0 1`, and — the extra columns being
    exactly zero (the code accepts `|entry| ≤ 1e-8`) — the x, y, z of **every** point of the full map
    are `M` applied to the point's first three coordinates, whatever its other coordinates are. -/
theorem xyz_affine_spec (A : Aff) (d : List (String × Nat)) (ornts : List (Option Nat)) (M : Mat)
    (h : xyzAffine A d ornts = .ok M) :
    (∃ ord, xyzOrder A.rng.names d = .ok ord ∧ ord.take 3 = [0, 1, 2]) ∧
    3 ≤ ornts.length ∧
    (∀ j, j < 4 → M.get 3 j = if j = 3 then 1 else 0) ∧
    (∀ i j, i < 3 → j < 3 → M.get i j = A.aff.get i j) ∧ (∀ i, i < 3 → M.get i 3 = A.aff.get i A.nin) ∧
    (3 ≤ A.nin → 3 ≤ A.nout → (∀ i j, i < 3 → 3 ≤ j → j < A.nin → A.aff.get i j = 0) →
      ∀ x i, i < 3 → (A.apply x).getD i 0 = sumTo 3 (fun j => M.get i j * x.getD j 0) + M.get i 3) := by
  unfold xyzAffine at h
  cases ho : xyzOrder A.rng.names d with
  | error e => rw [ho] at h; cases h
  | ok ord =>
    rw [ho] at h
    simp only at h
    split_ifs at h with h1 h2 h3
    injection h with h
    subst h
    simp only [not_not] at h1 h2
    have hM : ∀ i j, i < 4 → j < 4 → (mkMat 4 4 fun i j =>
        if i = 3 then (if j = 3 then (1 : Rat) else 0)
        else if j = 3 then A.aff.get i A.nin else A.aff.get i j).get i j =
        if i = 3 then (if j = 3 then (1 : Rat) else 0)
        else if j = 3 then A.aff.get i A.nin else A.aff.get i j := fun i j hi hj => get_mkMat _ hi hj
    refine ⟨⟨ord, rfl, h1⟩, ?_, fun j hj => ?_, fun i j hi hj => ?_, fun i hi => ?_, ?_⟩
    · have := h2.1
      have hl : (ornts.take 3).length ≤ ornts.length := by simp
      omega
    · rw [hM 3 j (by omega) hj]
      simp
    · rw [hM i j (by omega) (by omega)]
      have a : ¬ i = 3 := by omega
      have b : ¬ j = 3 := by omega
      simp [a, b]
    · rw [hM i 3 (by omega) (by omega)]
      have a : ¬ i = 3 := by omega
      simp [a]
    · intro hin hout hz x i hi
      rw [apply_getD A x (by omega)]
      obtain ⟨k, hk⟩ : ∃ k, A.nin = 3 + k := ⟨A.nin - 3, by omega⟩
      rw [hM i 3 (by omega) (by omega)]
      have a : ¬ i = 3 := by omega
      simp only [a, if_false, if_true]
      congr 1
      have hs : sumTo A.nin (fun j => A.aff.get i j * x.getD j 0) =
          sumTo (3 + k) (fun j => A.aff.get i j * x.getD j 0) := by rw [hk]
      rw [hs, sumTo_split3]
      have hzero : sumTo k (fun j => A.aff.get i (3 + j) * x.getD (3 + j) 0) = 0 := by
        rw [sumTo_eq_sum]
        apply Finset.sum_eq_zero
        intro j hj
        rw [hz i (3 + j) hi (by omega) (by have := Finset.mem_range.mp hj; omega)]
        ring
      rw [hzero, add_zero]
      apply sumTo_congr
      intro j hj
      rw [hM i j (by omega) (by omega)]
      have b : ¬ j = 3 := by omega
      simp [a, b]

/-- `xyz_affine` refuses (so `is_xyz_affable` is False) when x, y, z are not the first three output
    axes in this order. -/
theorem xyz_affine_refuses (A : Aff) (d : List (String × Nat)) (ornts : List (Option Nat)) (ord : List Nat)
    (ho : xyzOrder A.rng.names d = .ok ord) (hne : ord.take 3 ≠ [0, 1, 2]) :
    xyzAffine A d ornts = .error .axes ∧ isXyzAffable A d ornts = false := by
  have : xyzAffine A d ornts = .error .axes := by
    unfold xyzAffine
    rw [ho]
    simp [hne]
  exact ⟨this, by unfold isXyzAffable; rw [this]⟩

example : xyzOrder ["t", "mni-z=I->S", "mni-y=P->A", "mni-x=L->R"] (registerAll ["mni"]) = .ok [3, 2, 1, 0] := by
  decide +kernel
example : xyzOrder ["t", "mni-y=P->A", "mni-x=L->R"] (registerAll ["mni"]) = .error .axes := by decide +kernel
example : (match xyzAffine ⟨⟨["i", "j", "k", "l"], "", .f8⟩,
      ⟨["mni-x=L->R", "mni-y=P->A", "mni-z=I->S", "t"], "", .f8⟩,
      [[2, 0, 0, 0, 5], [0, 3, 0, 0, 6], [0, 0, 4, 0, 7], [0, 0, 0, 9, 1], [0, 0, 0, 0, 1]]⟩
      (registerAll ["mni"]) [some 0, some 1, some 2, some 3] with
    | .ok M => M == [[2, 0, 0, 5], [0, 3, 0, 6], [0, 0, 4, 7], [0, 0, 0, 1]] | .error _ => false) = true := by
  decide +kernel
example : getWorldCS (.str "mni") 4 ["t", "u"] ["mni"] =
    .ok ⟨["mni-x=L->R", "mni-y=P->A", "mni-z=I->S", "t"], "mni", .f8⟩ := by decide +kernel
example : knownSpace ["mni-x=L->R", "t", "mni-z=I->S", "mni-y=P->A"] ["scanner", "mni"] = some "mni" := by
  decide +kernel

end NipyVerif.C01
