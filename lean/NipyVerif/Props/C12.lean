/-
C12 — property theorems: fields and forests keep their structural invariants.
-/
import NipyVerif.Lemmas.C12

namespace NipyVerif.C12

/-- the running maximum of `_graph.pyx` is the greatest element it has seen -/
theorem foldMax_isGreatest (a : Rat) (l : List Rat) :
    foldMax a l ∈ a :: l ∧ ∀ x ∈ a :: l, x ≤ foldMax a l := by
  refine ⟨?_, ?_⟩
  · rcases foldMax_mem a l with h | h
    · rw [h]; exact List.mem_cons_self
    · exact List.mem_cons_of_mem _ h
  · intro x hx
    rcases List.mem_cons.1 hx with rfl | hx
    · exact foldMax_ge_init _ l
    · exact foldMax_ge_mem a l x hx

end NipyVerif.C12
