/-
C12 — property theorems: fields and forests keep their structural invariants.

Notation: `dilF g` / `eroF g` are the closed-neighbourhood maximum / minimum on
total fields `Nat → Rat`; the list-level operators of the model (`slowDilate`,
`erode`, …: what the driver runs against nipy) are shown equal to them.
A parent array is a function `p : Nat → Nat` on the vertices `0..V-1`.
-/
import NipyVerif.Lemmas.C12

namespace NipyVerif.C12

/-! ## Morphology -/

/-- Clause "dilation computes exactly the neighbourhood maximum" (compiled running
    maximum of `_graph.pyx`): the result is an element seen and dominates all of them. -/
theorem foldMax_isGreatest (a : Rat) (l : List Rat) :
    foldMax a l ∈ a :: l ∧ ∀ x ∈ a :: l, x ≤ foldMax a l := by
  refine ⟨?_, ?_⟩
  · rcases foldMax_mem a l with h | h
    · rw [h]; exact List.mem_cons_self
    · exact List.mem_cons_of_mem _ h
  · intro x hx
    rcases List.mem_cons.1 hx with rfl | hx
    · exact foldMax_ge_init _ l
    · exact foldMax_ge_mem a l x hx

/-- Clause "dilation = neighbourhood maximum", generic sparse-row path, any number of
    iterations: the list the model returns is the `n`-fold closed-neighbourhood maximum. -/
theorem dilation_is_closed_nbhd_max (g : Graph) (n : Nat) (col : List Rat) (hl : col.length = g.V) :
    slowDilate g n col = some ((List.range g.V).map ((dilF g)^[n] (at_ col))) :=
  slowDilate_eq g n col hl

/-- Clause "dilation = neighbourhood maximum", compiled fast path (`_graph.dilation` over the
    `compact_neighb` slices, with the `E == 0` shortcut), any number of iterations. -/
theorem dilation_fast_is_closed_nbhd_max (g : Graph) (hv : g.Valid) (n : Nat) (col : List Rat)
    (hl : col.length = g.V) :
    fastDilate g n col = (List.range g.V).map ((dilF g)^[n] (at_ col)) :=
  fastDilate_eq g hv n col hl

/-- Clause "the compiled fast path and the generic path give identical results". -/
theorem dilation_paths_agree (g : Graph) (hv : g.Valid) (n : Nat) (col : List Rat)
    (hl : col.length = g.V) :
    slowDilate g n col = some (fastDilate g n col) := by
  rw [slowDilate_eq g n col hl, fastDilate_eq g hv n col hl]

/-- `compact_neighb`: the slice `neighb[idx[i]:idx[i+1]]` lists exactly the out-neighbours of `i`. -/
theorem compact_neighb_slices (g : Graph) (hv : g.Valid) (i j : Nat) :
    j ∈ fastRow g i ↔ g.adj i j = true :=
  mem_fastRow g hv i j

/-- `dilF g f i` is attained in the closed neighbourhood of `i` and dominates it. -/
theorem dilF_isGreatest (g : Graph) (f : Nat → Rat) (i : Nat) (hi : i < g.V) :
    (∃ j ∈ closedRow g i, dilF g f i = f j) ∧ ∀ j ∈ closedRow g i, f j ≤ dilF g f i := by
  have hmem : i ∈ closedRow g i := mem_closedRow.2 ⟨hi, Or.inl rfl⟩
  refine ⟨?_, fun j hj => foldMax_ge_mem _ _ _ (List.mem_map_of_mem hj)⟩
  rcases foldMax_mem (f i) ((closedRow g i).map f) with h | h
  · exact ⟨i, hmem, h⟩
  · obtain ⟨j, hj, hfj⟩ := List.mem_map.1 h
    exact ⟨j, hj, hfj.symm⟩

/-- Clause "erosion = neighbourhood minimum" (closed neighbourhood: the corrected
    `Field.erosion`), any number of iterations; never an error, isolated vertices included. -/
theorem erosion_is_closed_nbhd_min (g : Graph) (n : Nat) (col : List Rat) (hl : col.length = g.V) :
    erode g n col = some ((List.range g.V).map ((eroF g)^[n] (at_ col))) :=
  erode_eq g n col hl

/-- `eroF g f i` is attained in the closed neighbourhood of `i` and is below all of it. -/
theorem eroF_isLeast (g : Graph) (f : Nat → Rat) (i : Nat) (hi : i < g.V) :
    (∃ j ∈ closedRow g i, eroF g f i = f j) ∧ ∀ j ∈ closedRow g i, eroF g f i ≤ f j := by
  have hmem : i ∈ closedRow g i := mem_closedRow.2 ⟨hi, Or.inl rfl⟩
  refine ⟨?_, fun j hj => foldMin_le_mem _ _ _ (List.mem_map_of_mem hj)⟩
  rcases foldMin_mem (f i) ((closedRow g i).map f) with h | h
  · exact ⟨i, hmem, h⟩
  · obtain ⟨j, hj, hfj⟩ := List.mem_map.1 h
    exact ⟨j, hj, hfj.symm⟩

/-- Clause "opening never increases the field" (symmetric graph, every `nbiter`). -/
theorem opening_le (g : Graph) (hv : g.Valid) (hs : g.Symm) (n : Nat) (f : Nat → Rat) :
    (dilF g)^[n] ((eroF g)^[n] f) ≤ f :=
  (gc_iterate (gc_dil_ero g hv hs) n).l_u_le f

/-- Clause "closing never decreases the field" (symmetric graph, every `nbiter`). -/
theorem le_closing (g : Graph) (hv : g.Valid) (hs : g.Symm) (n : Nat) (f : Nat → Rat) :
    f ≤ (eroF g)^[n] ((dilF g)^[n] f) :=
  (gc_iterate (gc_dil_ero g hv hs) n).le_u_l f

/-- Clause "opening is idempotent". -/
theorem opening_idem (g : Graph) (hv : g.Valid) (hs : g.Symm) (n : Nat) (f : Nat → Rat) :
    (dilF g)^[n] ((eroF g)^[n] ((dilF g)^[n] ((eroF g)^[n] f))) = (dilF g)^[n] ((eroF g)^[n] f) :=
  (gc_iterate (gc_dil_ero g hv hs) n).l_u_l_eq_l ((eroF g)^[n] f)

/-- Clause "closing is idempotent". -/
theorem closing_idem (g : Graph) (hv : g.Valid) (hs : g.Symm) (n : Nat) (f : Nat → Rat) :
    (eroF g)^[n] ((dilF g)^[n] ((eroF g)^[n] ((dilF g)^[n] f))) = (eroF g)^[n] ((dilF g)^[n] f) :=
  (gc_iterate (gc_dil_ero g hv hs) n).u_l_u_eq_u ((dilF g)^[n] f)

/-- List-level form of `opening_le` for the model of `Field.opening` the driver runs
    (erosion, then the compiled dilation): a result exists, no error, and it is pointwise
    below the input column. -/
theorem opening_le_list (g : Graph) (hv : g.Valid) (hs : g.Symm) (n : Nat) (col : List Rat)
    (hl : col.length = g.V) :
    ∃ out, opening g n col = some out ∧ out.length = g.V ∧
      ∀ i < g.V, at_ out i ≤ at_ col i := by
  refine ⟨_, by rw [opening, erode_eq g n col hl, Option.map_some, fastDilate_eq g hv n _ (by simp)],
    by simp, ?_⟩
  intro i hi
  have hc := iterate_congr (V := g.V) (op := dilF g) (fun _ _ H _ hi => dilF_congr H hi) n
    (at_ ((List.range g.V).map ((eroF g)^[n] (at_ col)))) ((eroF g)^[n] (at_ col))
    (fun j hj => at_map_range _ hj) i hi
  rw [at_map_range _ hi, hc]
  exact opening_le g hv hs n (at_ col) i

/-- The formula of the *unpatched* `Field.erosion` (minimum over the neighbours without the
    vertex itself) violates the clause: on the triangle, field (4,1,4) opens to (4,4,4),
    and a vertex without neighbour makes it fail. -/
theorem open_nbhd_erosion_breaks_opening :
    let tri : Graph := ⟨3, [⟨0, 1, 1⟩, ⟨1, 0, 1⟩, ⟨1, 2, 1⟩, ⟨2, 1, 1⟩, ⟨0, 2, 1⟩, ⟨2, 0, 1⟩]⟩
    (erodeOpen tri 1 [4, 1, 4]).bind (slowDilate tri 1) = some [4, 4, 4] ∧
      (erode tri 1 [4, 1, 4]).bind (slowDilate tri 1) = some [1, 1, 1] ∧
      erodeOpen ⟨2, []⟩ 1 [1, 2] = none := by
  decide +kernel

/-! ## Watershed -/

/-- Steepest ascent (`highest_neighbor`, corrected to read the reference column): the chosen
    vertex lies in the closed neighbourhood and carries its maximum, so the ascent never
    descends. -/
theorem highestNeighbor_spec (g : Graph) (col : List Rat) (i : Nat) (hi : i < g.V) :
    highestNeighbor g col i ∈ closedRow g i ∧
      ∀ j ∈ closedRow g i, at_ col j ≤ at_ col (highestNeighbor g col i) := by
  have hmem : i ∈ closedRow g i := mem_closedRow.2 ⟨hi, Or.inl rfl⟩
  unfold highestNeighbor
  cases hrow : closedRow g i with
  | nil => rw [hrow] at hmem; cases hmem
  | cons a r =>
    simp only [argmaxRow, Option.getD_some]
    obtain ⟨h1, h2, h3⟩ := argmax_fold_spec (at_ col) r a
    refine ⟨h1, ?_⟩
    intro j hj
    rcases List.mem_cons.1 hj with rfl | hj
    · exact h2
    · exact h3 j hj

/-- Clause "each basin has a maximum" (partial: uniqueness of the maximum inside a basin and
    the numbering of basins are validated by correspondence and oracle): the vertex a basin
    is rooted at — a fixed point of steepest ascent — dominates its whole closed neighbourhood. -/
theorem watershed_root_is_local_maximum_partial (g : Graph) (col : List Rat) (r : Nat) (hr : r < g.V)
    (hfix : highestNeighbor g col r = r) : ∀ j ∈ closedRow g r, at_ col j ≤ at_ col r := by
  have := (highestNeighbor_spec g col r hr).2
  rwa [hfix] at this

/-- Clause "every above-threshold vertex is labelled" for `custom_watershed`: the label
    written back is `-1` exactly below the threshold. -/
theorem watershed_labels_exactly_above_threshold (g : Graph) (col : List Rat) (th : Rat)
    (v : Nat) (hv : v < g.V) :
    (watershed g col th).2.getD v 0 = -1 ↔ at_ col v < th := by
  simp only [watershed, List.getD_eq_getElem?_getD, List.getElem?_map, List.getElem?_range hv,
    Option.map_some, Option.getD_some]
  by_cases h : th ≤ at_ col v
  · simp only [h, decide_true, if_true]
    constructor
    · intro h'; omega
    · intro h'; exact absurd h (not_le.2 h')
  · simp only [h, decide_false, Bool.false_eq_true, if_false, true_iff]
    exact not_le.1 h

/-! ## Diffusion -/

/-- Clause "diffusion applies the weighted adjacency once per iteration". -/
theorem diffusion_applies_adjacency_once_per_iteration (g : Graph) (n : Nat) (col : List Rat) :
    diffuse g (n + 1) col = applyAdj g (diffuse g n col) := by
  simp only [diffuse, iter_eq_iterate, Function.iterate_succ_apply']

/-! ## Forests -/

/-- every parent is a vertex -/
def InRange (V : Nat) (p : Nat → Nat) : Prop := ∀ v < V, p v < V

/-- Clause "a forest built from a parent array has no cycles": `Forest.check` accepts
    exactly the parent arrays in which every vertex reaches a root within `V` parent steps. -/
theorem forest_check_iff_acyclic (V : Nat) (p : Nat → Nat) (hr : InRange V p) :
    check V p = true ↔ ∀ v < V, ∃ k ≤ V, p (p^[k] v) = p^[k] v := by
  unfold check
  by_cases h1 : V = 1
  · subst h1
    simp only [if_true, true_iff]
    intro v hv
    have hv0 : v = 0 := by omega
    subst hv0
    exact ⟨0, by omega, by have := hr 0 (by omega); simp; omega⟩
  · simp only [h1, if_false, List.all_eq_true, List.mem_range]
    constructor
    · intro H v hv
      obtain ⟨k, _, hroot, _, hle⟩ := (walk_true_iff V p v (V + 2) v 0 (by omega)).1 (H v hv)
      exact ⟨k, by omega, hroot⟩
    · intro H v hv
      rw [walk_true_iff V p v (V + 2) v 0 (by omega)]
      have hex : ∃ k, p (p^[k] v) = p^[k] v := let ⟨k, _, h⟩ := H v hv; ⟨k, h⟩
      classical
      let k := Nat.find hex
      have hk : p (p^[k] v) = p^[k] v := Nat.find_spec hex
      have hmin : ∀ j < k, p (p^[j] v) ≠ p^[j] v := fun j hj => Nat.find_min hex hj
      have hkV : k ≤ V := by
        obtain ⟨k', hk', h'⟩ := H v hv
        exact le_trans (Nat.find_min' hex h') hk'
      refine ⟨k, by omega, hk, fun j hj => ⟨hmin j hj, fun hper => ?_⟩, by omega⟩
      have hmod := iterate_mod_of_periodic hper k
      have hlt : k % (j + 1) < k := lt_of_lt_of_le (Nat.mod_lt _ (Nat.succ_pos _)) (by omega)
      apply hmin _ hlt
      rw [← hmod]; exact hk

/-- No cycles in an accepted forest: a vertex that comes back to itself along parent links
    is a root (the only cycles are the self-loops that mark roots). -/
theorem forest_no_cycle (V : Nat) (p : Nat → Nat) (hr : InRange V p) (hc : check V p = true)
    (v : Nat) (hv : v < V) (k : Nat) (hk : 0 < k) (hper : p^[k] v = v) : p v = v := by
  obtain ⟨m, _, hroot⟩ := (forest_check_iff_acyclic V p hr).1 hc v hv
  -- the root reached from v is reached again after any multiple of the period, hence is v
  have hfix : ∀ t, p^[t] (p^[m] v) = p^[m] v := fun t => Function.iterate_fixed hroot t
  have h1 : p^[m * k] v = v := by
    rw [Nat.mul_comm, Function.iterate_mul]; exact Function.iterate_fixed hper m
  have hle : m ≤ m * k := Nat.le_mul_of_pos_right m hk
  have h2 : p^[m * k] v = p^[m] v := by
    have : m * k = (m * k - m) + m := by omega
    rw [this, Function.iterate_add_apply]; exact hfix _
  have : p^[m] v = v := by rw [← h2, h1]
  rw [this] at hroot; exact hroot

/-- Clause "parent/children queries are mutually consistent". -/
theorem children_parents_consistent (V : Nat) (p : Nat → Nat) (v c : Nat) :
    c ∈ children V p v ↔ c < V ∧ p c = v ∧ c ≠ v := by
  simp [children, List.mem_filter]

/-- Clause "leaf/children consistent": `isleaf` marks exactly the nodes without children. -/
theorem isLeaf_iff_no_children (V : Nat) (p : Nat → Nat) (v : Nat) :
    isLeaf V p v = true ↔ children V p v = [] := by
  constructor
  · intro h
    rw [List.eq_nil_iff_forall_not_mem]
    intro c hc
    obtain ⟨hcV, hpc, hcv⟩ := (children_parents_consistent V p v c).1 hc
    have hany : (List.range V).any (fun i => p i != i && p i == v) = true := by
      simp only [List.any_eq_true, List.mem_range, Bool.and_eq_true, bne_iff_ne, beq_iff_eq]
      exact ⟨c, hcV, by rw [hpc]; exact fun h => hcv h.symm, hpc⟩
    simp [isLeaf, hany] at h
  · intro h
    by_contra hne
    have hany : (List.range V).any (fun i => p i != i && p i == v) = true := by
      simpa [isLeaf] using hne
    simp only [List.any_eq_true, List.mem_range, Bool.and_eq_true, bne_iff_ne, beq_iff_eq] at hany
    obtain ⟨i, hi, hne', hpi⟩ := hany
    have hmem : i ∈ children V p v :=
      (children_parents_consistent V p v i).2 ⟨hi, hpi, fun h => hne' (by rw [hpi, h])⟩
    rw [h] at hmem; cases hmem

/-- Clause "root/parent consistent": `isroot` marks exactly the fixed points of `parents`;
    every child has its parent as a non-leaf. -/
theorem isRoot_iff_and_parent_not_leaf (V : Nat) (p : Nat → Nat) (v : Nat) (hv : v < V) :
    (isRoot p v = true ↔ p v = v) ∧ (p v ≠ v → isLeaf V p (p v) = false) := by
  refine ⟨by simp [isRoot], fun h => ?_⟩
  simp only [isLeaf, Bool.not_eq_false', List.any_eq_true, List.mem_range, Bool.and_eq_true,
    bne_iff_ne, beq_iff_eq]
  exact ⟨v, hv, h, rfl⟩

/-- Clause "depth increases strictly from leaves to roots": a depth array that a full sweep
    of `depth_from_leaves` leaves unchanged (what the corrected loop returns when it stops)
    is strictly larger at every parent than at the child. -/
theorem depth_strict (V : Nat) (p : Nat → Nat) (hr : InRange V p) (d : List Int)
    (hfix : sweepL V p d = d) (i : Nat) (hi : i < V) (hne : p i ≠ i) :
    lget d i < lget d (p i) := by
  have hpt : sweep V p (lget d) = lget d := by
    funext j
    by_cases hj : j < V
    · have h1 : (sweepL V p d).getD j 0 = sweep V p (lget d) j := by
        simp [sweepL, List.getD_eq_getElem?_getD, hj]
      rw [← h1, hfix]; rfl
    · exact foldl_sweepStep_outside V p hr _ (fun i hi => List.mem_range.1 hi) _ j (by omega)
  have hstep := foldl_sweepStep_fixed p (List.range V) (lget d) hpt i (List.mem_range.2 hi)
  have hval := congrFun hstep (p i)
  simp only [sweepStep, hne, ne_eq, not_false_eq_true, if_true, upd] at hval
  have hmax : max (lget d i + 1) (lget d (p i)) = lget d (p i) := by simpa using hval
  have := le_max_left (lget d i + 1) (lget d (p i))
  rw [hmax] at this
  omega

/-- for an ARBITRARY parent array (cycles included) the corrected loop stops on such an unchanged
    sweep or when its `V` sweeps are used up; on a forest the second alternative never decides —
    `depth_from_leaves_converges` (Props/C12G) -/
theorem depthLoop_fixed_or_exhausted (V : Nat) (p : Nat → Nat) (n : Nat) (d : List Int) :
    sweepL V p (depthLoop V p n d) = depthLoop V p n d ∨
      depthLoop V p n d = (sweepL V p)^[n] d := by
  induction n generalizing d with
  | zero => right; rfl
  | succ n ih =>
    rw [depthLoop]
    by_cases h : (sweepL V p d == d) = true
    · left
      have h' : sweepL V p d = d := by simpa using h
      simp [h']
    · simp only [h, Bool.false_eq_true, if_false]
      rcases ih (sweepL V p d) with h1 | h1
      · left; exact h1
      · right; rw [h1, Function.iterate_succ_apply]

/-- Clause "reordering preserves ancestry": for any order that is injective on the vertices
    (every `argsort` result), the new parent of position `i` is the position of the old parent
    of the vertex placed at `i`: `parents' ∘ order⁻¹ = order⁻¹ ∘ parents`. -/
theorem reorder_preserves_ancestry (V : Nat) (p order : Nat → Nat)
    (hinj : ∀ i < V, ∀ j < V, order i = order j → i = j)
    (i k : Nat) (hi : i < V) (hk : k < V) (hpar : p (order i) = order k) :
    (reorder V p order).getD i 0 = k := by
  simp only [reorder, List.getD_eq_getElem?_getD, List.getElem?_map, List.getElem?_range hi,
    Option.map_some, Option.getD_some, hpar]
  exact inverseOrder_prefix order V hinj k hk

/-- The *unpatched* stopping rule of `depth_from_leaves` (stop when the maximum did not
    change) returns depths that do not increase from node 2 to its parent 0 on parents
    (0,2,0,2,3); the corrected rule gives the heights. -/
theorem depth_max_rule_not_strict :
    let p : Nat → Nat := fnOf [0, 2, 0, 2, 3]
    depthFromLeavesMax 5 p = [2, 0, 2, 1, 0] ∧ depthFromLeaves 5 p = [3, 0, 2, 1, 0] := by
  decide +kernel

/-! ## Non-vacuity -/

/-- a valid symmetric graph with an isolated vertex satisfies the hypotheses -/
example : (⟨4, [⟨0, 1, 1⟩, ⟨1, 0, 2⟩, ⟨1, 2, 1⟩, ⟨2, 1, 1⟩]⟩ : Graph).Valid ∧
    (⟨4, [⟨0, 1, 1⟩, ⟨1, 0, 2⟩, ⟨1, 2, 1⟩, ⟨2, 1, 1⟩]⟩ : Graph).Symm := by
  constructor
  · intro e he; simp at he; rcases he with rfl | rfl | rfl | rfl <;> simp
  · intro i j h
    simp [Graph.adj] at h ⊢
    omega

/-- an accepted forest in range, and a refused cycle -/
example : InRange 4 (fnOf [0, 0, 1, 3]) ∧ check 4 (fnOf [0, 0, 1, 3]) = true ∧
    check 3 (fnOf [1, 2, 0]) = false := by
  refine ⟨?_, by decide +kernel, by decide +kernel⟩
  intro v hv
  have : v = 0 ∨ v = 1 ∨ v = 2 ∨ v = 3 := by omega
  rcases this with rfl | rfl | rfl | rfl <;> decide +kernel

end NipyVerif.C12
