/-
C14 — cutting a dendrogram (`WeightedForest.partition` / `split`): property theorems about the
model in `NipyVerif.Model.C14` for proper dendrograms (`Dendro n par`, `Lemmas/C14Defs`).
Only property statements and their non-vacuity examples live here; proofs are in
`Lemmas/C14Cut`.
-/
import NipyVerif.Lemmas.C14Cut

namespace NipyVerif.C14

/-! ## Shape of a proper dendrogram -/

/-- "a forest with the input items as leaves": the leaves counted by `isleaf().sum()` are exactly
    the `n` items. -/
theorem dendro_leaves {n : Nat} {par : List Nat} (hD : Dendro n par) : nbLeaves par = n :=
  hD.leaves

/-- "one binary merge per non-leaf": counting child slots (every non-root node is a child of
    exactly one merge node, every merge node has two children) gives
    `#nodes + #trees = 2 · #items`, i.e. `n - nbcc` merges. -/
theorem dendro_node_count {n : Nat} {par : List Nat} (hD : Dendro n par) :
    par.length + nbTrees par = 2 * n :=
  hD.node_count

/-! ## Removing a parent-closed set of merge nodes -/

/-- Core of "cutting the dendrogram … yields that many clusters": removing any set of merge nodes
    closed under parents (`valid` = kept; items are kept, children of kept nodes are kept) labels
    each of the `n` items with the highest kept node above it; two items get the same label iff
    both lie below that node — every cluster is the item set of one subtree of the dendrogram —
    and the number of clusters is the number of trees plus the number of removed nodes.
    (`0 < n` is needed: with no item the forest is empty and `cutLabels` refuses.) -/
theorem cut_spec {n : Nat} {par : List Nat} (hD : Dendro n par) (hn : 0 < n)
    (valid : Nat → Bool) (hitems : ∀ v, v < n → valid v = true)
    (hdown : ∀ v, v < par.length → valid (parFn par v) = true → valid v = true) :
    ∃ l, cutLabels par.toArray ((List.range par.length).map valid).toArray = some l ∧
      l.length = n ∧
      (∀ a, a < n → Below par a (l.getD a 0) ∧ valid (l.getD a 0) = true ∧
          l.getD a 0 < par.length ∧
          (parFn par (l.getD a 0) = l.getD a 0 ∨ valid (parFn par (l.getD a 0)) = false)) ∧
      (∀ a b, a < n → b < n → (l.getD a 0 = l.getD b 0 ↔ Below par b (l.getD a 0))) ∧
      nbLabels l = nbTrees par + ((List.range par.length).filter (fun v => !valid v)).length :=
  hD.cut_spec hn valid hitems hdown

/-! ## `split(k)` -/

/-- With non-decreasing heights from children to parents and no item above a merge, the
    `k - nbcc` nodes that `split(k)` removes (the last ones in the stable argsort of the heights)
    are distinct merge nodes and form a parent-closed set: in the stable order every item precedes
    every merge node and every child precedes its parent. -/
theorem split_removed_spec {n : Nat} {par : List Nat} {h : List Rat} (hD : Dendro n par)
    (hM : MonoH par h) (hL : LeafLow n par h) (k : Nat) (hk1 : nbTrees par ≤ k) (hk2 : k ≤ n) :
    (splitRemoved par h k).length = k - nbTrees par ∧ (splitRemoved par h k).Nodup ∧
    (∀ v ∈ splitRemoved par h k, n ≤ v ∧ v < par.length) ∧
    (∀ v ∈ splitRemoved par h k, parFn par v ∈ splitRemoved par h k) :=
  hD.splitRemoved_spec hM hL k hk1 hk2

/-- "cutting the dendrogram into k groups yields that many clusters": for every `k` between the
    number of trees and the number of items, `split(k)` labels the `n` items with exactly `k`
    distinct labels. -/
theorem split_count {n : Nat} {par : List Nat} {h : List Rat} (hD : Dendro n par)
    (hM : MonoH par h) (hL : LeafLow n par h) (hn : 0 < n) (k : Nat)
    (hk1 : nbTrees par ≤ k) (hk2 : k ≤ n) :
    ∃ l, split par h k = some l ∧ l.length = n ∧ nbLabels l = k := by
  obtain ⟨l, h1, h2, h3, _⟩ := hD.split_full hM hL hn k hk1 hk2
  exact ⟨l, h1, h2, h3⟩

/-- `split(k)` with `k` at most the number of trees cuts nothing (`cutCount = 0`): the clusters
    are the trees of the forest, whatever the heights. -/
theorem split_count_small {n : Nat} {par : List Nat} {h : List Rat} (hD : Dendro n par)
    (hn : 0 < n) (k : Nat) (hk : k ≤ nbTrees par) :
    ∃ l, split par h k = some l ∧ l.length = n ∧ nbLabels l = nbTrees par := by
  obtain ⟨l, h1, h2, h3, _⟩ := hD.split_small (h := h) hn k hk
  exact ⟨l, h1, h2, h3⟩

/-- Every cluster of `split(k)` is the set of items below one node of the dendrogram: the label
    of an item is a node above it, and two items share a label iff the second also lies below
    that node. -/
theorem split_clusters_are_subtrees {n : Nat} {par : List Nat} {h : List Rat} (hD : Dendro n par)
    (hM : MonoH par h) (hL : LeafLow n par h) (hn : 0 < n) (k : Nat)
    (hk1 : nbTrees par ≤ k) (hk2 : k ≤ n) :
    ∃ l, split par h k = some l ∧
      (∀ a b, a < n → b < n → (l.getD a 0 = l.getD b 0 ↔ Below par b (l.getD a 0))) ∧
      (∀ a, a < n → Below par a (l.getD a 0)) := by
  obtain ⟨l, h1, _, _, h4, h5⟩ := hD.split_full hM hL hn k hk1 hk2
  exact ⟨l, h1, h4, h5⟩

/-! ## `partition(threshold)` -/

/-- "cutting … at a height yields that many clusters": with non-decreasing heights and all items
    below the threshold, `partition(th)` labels the `n` items with one cluster per tree plus one
    per merge node whose height is not below the threshold. -/
theorem partition_count {n : Nat} {par : List Nat} {h : List Rat} (hD : Dendro n par)
    (hM : MonoH par h) (hn : 0 < n) (th : Rat) (hleaf : ∀ v, v < n → h.getD v 0 < th) :
    ∃ l, partition par h th = some l ∧ l.length = n ∧
      nbLabels l = nbTrees par +
        ((List.range par.length).filter (fun v => decide (¬ h.getD v 0 < th))).length := by
  obtain ⟨l, h1, h2, h3, _⟩ := hD.partition_full hM hn th hleaf
  exact ⟨l, h1, h2, h3⟩

/-- Every cluster of `partition(th)` is the set of items below one node of the dendrogram. -/
theorem partition_clusters_are_subtrees {n : Nat} {par : List Nat} {h : List Rat}
    (hD : Dendro n par) (hM : MonoH par h) (hn : 0 < n) (th : Rat)
    (hleaf : ∀ v, v < n → h.getD v 0 < th) :
    ∃ l, partition par h th = some l ∧
      (∀ a b, a < n → b < n → (l.getD a 0 = l.getD b 0 ↔ Below par b (l.getD a 0))) ∧
      (∀ a, a < n → Below par a (l.getD a 0)) := by
  obtain ⟨l, h1, _, _, h4, h5⟩ := hD.partition_full hM hn th hleaf
  exact ⟨l, h1, h4, h5⟩

/-! ## Non-vacuity: the dendrogram `5={0,1}, 6={2,3}, 7={4,6}, 8={5,7}` over 5 items -/

example : exPar = [5, 5, 6, 6, 7, 8, 7, 8, 8] ∧ exH = [0, 0, 0, 0, 0, 1/2, 1/2, 2, 10] :=
  ⟨rfl, rfl⟩
example : Dendro 5 exPar := exPar_dendro
example : MonoH exPar exH := exH_mono
example : LeafLow 5 exPar exH := exH_leafLow
example : nbLeaves exPar = 5 ∧ nbTrees exPar = 1 ∧ exPar.length + nbTrees exPar = 2 * 5 := by
  decide
/-- theorem 5 at `k = 3` -/
example : ∃ l, split exPar exH 3 = some l ∧ l.length = 5 ∧ nbLabels l = 3 :=
  split_count exPar_dendro exH_mono exH_leafLow (by decide) 3 (by decide) (by decide)
/-- … and what it is: nodes 7 and 8 are removed, the clusters are `{0,1}`, `{2,3}`, `{4}` -/
example : splitRemoved exPar exH 3 = [7, 8] ∧ split exPar exH 3 = some [5, 5, 6, 6, 4] := by
  have h : heightOrder exPar.length exH = List.range 9 := by
    apply List.mergeSort_of_pairwise
    decide +kernel
  have h2 : splitRemoved exPar exH 3 = [7, 8] := by
    rw [splitRemoved, h]; decide
  refine ⟨h2, ?_⟩
  rw [split, h2]; decide
example : ∃ l, split exPar exH 0 = some l ∧ l.length = 5 ∧ nbLabels l = nbTrees exPar :=
  split_count_small exPar_dendro (by decide) 0 (by decide)
/-- theorem 7 at threshold `1`: items and the merges 5, 6 are kept, 7 and 8 are cut -/
example : ∃ l, partition exPar exH 1 = some l ∧ l.length = 5 ∧ nbLabels l = 1 + 2 := by
  obtain ⟨l, h1, h2, h3⟩ :=
    partition_count exPar_dendro exH_mono (by decide) 1 (by decide +kernel)
  exact ⟨l, h1, h2, h3.trans (by decide +kernel)⟩
example : partition exPar exH 1 = some [5, 5, 6, 6, 4] := by decide +kernel
/-- the hypotheses of `cut_spec` for the cut that removes only the root -/
example : (∀ v, v < 5 → (fun v => decide (v ≠ 8)) v = true) ∧
    (∀ v, v < exPar.length →
      (fun v => decide (v ≠ 8)) (parFn exPar v) = true → (fun v => decide (v ≠ 8)) v = true) := by
  decide

end NipyVerif.C14
