/-
C06 (wave 3) — property theorems about `NipyVerif.Model.C06C`: `check_p_values` with NaN,
`gaussian_fdr_threshold`, the exact pieces of `NormalEmpiricalNull` (`learn`, `threshold`, `fdr`),
`smoothed_histogram_from_samples`, the bookkeeping of the mixture fits, `__div__`, `Fcontrast` with a
supplied inverse / explicit dispersion, monotonicity of z in p through the clip, order independence of
the fixed-effects accumulation.  Only property statements and non-vacuity examples live here.
-/
import NipyVerif.Props.C06B
import NipyVerif.Lemmas.C06C

namespace NipyVerif.C06
open Matrix

/-! ## `check_p_values` -/

/-- `check_p_values` accepts exactly the non-empty vectors without NaN whose entries lie in `[0,1]`,
    and hands them back unchanged; everything else is a `ValueError`. -/
theorem checkPN_accepts_iff (l : List (Option Rat)) (p : List Rat) :
    checkPN l = .ok p ↔ (l = p.map some ∧ p ≠ [] ∧ ∀ x ∈ p, 0 ≤ x ∧ x ≤ 1) := by
  unfold checkPN
  by_cases hn : l.any Option.isNone = true
  · simp only [hn, if_true, reduceCtorEq, false_iff]
    rintro ⟨rfl, _, _⟩
    simp at hn
  · have hsome : l = (l.filterMap id).map some := by
      clear p
      induction l with
      | nil => rfl
      | cons a t ih =>
          cases a with
          | none => simp at hn
          | some x =>
              have ht : ¬ t.any Option.isNone = true := by
                intro h; apply hn; simp [h]
              simpa using ih ht
    simp only [hn, Bool.false_eq_true, if_false]
    set r := l.filterMap id with hr
    have hchk : checkP r = .ok () ↔ (r ≠ [] ∧ ∀ x ∈ r, 0 ≤ x ∧ x ≤ 1) := by
      unfold checkP
      by_cases h0 : r = []
      · simp [h0]
      · by_cases h1 : r.any (· < 0) = true
        · simp only [h0, if_false, h1, if_true, reduceCtorEq, false_iff, not_and]
          intro _ hall
          obtain ⟨x, hx, hlt⟩ := List.any_eq_true.mp h1
          have := (hall x hx).1
          simp at hlt; linarith
        · by_cases h2 : r.any (1 < ·) = true
          · simp only [h0, if_false, h1, Bool.false_eq_true, h2, if_true, reduceCtorEq, false_iff, not_and]
            intro _ hall
            obtain ⟨x, hx, hlt⟩ := List.any_eq_true.mp h2
            have := (hall x hx).2
            simp at hlt; linarith
          · simp only [h0, if_false, h1, Bool.false_eq_true, h2, true_iff]
            refine ⟨h0, fun x hx => ⟨?_, ?_⟩⟩
            · by_contra hneg
              exact h1 (List.any_eq_true.mpr ⟨x, hx, by simpa using lt_of_not_ge hneg⟩)
            · by_contra hneg
              exact h2 (List.any_eq_true.mpr ⟨x, hx, by simpa using lt_of_not_ge hneg⟩)
    constructor
    · intro h
      cases hc : checkP r with
      | error e => rw [hc] at h; simp at h
      | ok u =>
          rw [hc] at h
          simp only [Except.ok.injEq] at h
          have := hchk.mp hc
          rw [← h]
          exact ⟨hsome, this.1, this.2⟩
    · rintro ⟨hl, hne, hall⟩
      have hrp : r = p := by rw [hr, hl]; simp
      have := hchk.mpr ⟨by rw [hrp]; exact hne, by rw [hrp]; exact hall⟩
      rw [this, hrp]

/-- a NaN entry is refused before anything else is looked at -/
theorem checkPN_refuses_nan (l : List (Option Rat)) (h : none ∈ l) :
    checkPN l = .error "error:valueError" ∧ fdrN l = .error "error:valueError" ∧
    ∀ a, fdrThresholdN a l = .error "error:valueError" := by
  have : l.any Option.isNone = true := List.any_eq_true.mpr ⟨none, h, rfl⟩
  have hc : checkPN l = .error "error:valueError" := by simp [checkPN, this]
  exact ⟨hc, by simp [fdrN, hc], fun a => by simp [fdrThresholdN, hc]⟩

/-! ## `NormalEmpiricalNull.learn`: masking and the fitted parameters -/

/-- "remove null bins" as written works only when there is nothing to remove (or nothing at all):
    with every bin occupied the counts and the mid-points `medge[:-1]` go on unchanged; with all bins
    empty both come back empty; one empty bin among occupied ones is an `IndexError`. -/
theorem learnMask_cases (counts : List Nat) (medge : List Rat) (hlen : medge.length = counts.length + 1) :
    ((∀ c ∈ counts, 0 < c) → learnMask counts medge = .ok (counts, medge.dropLast)) ∧
    ((∀ c ∈ counts, c = 0) → learnMask counts medge = .ok ([], [])) ∧
    ((∃ c ∈ counts, c = 0) → (∃ c ∈ counts, 0 < c) → learnMask counts medge = .error "error:indexError") := by
  have hdl : medge.dropLast.length = counts.length := by simp [hlen]
  refine ⟨?_, ?_, ?_⟩
  · intro hall
    have hf : counts.filter (0 < ·) = counts := List.filter_eq_self.mpr (fun c hc => by simpa using hall c hc)
    unfold learnMask
    simp only [hf, hdl]
    by_cases h0 : counts = []
    · subst h0
      have : medge.dropLast = [] := List.length_eq_zero_iff.mp (by simpa using hdl)
      simp [this]
    · simp [h0]
  · intro hall
    have hf : counts.filter (0 < ·) = [] := List.filter_eq_nil_iff.mpr (fun c hc => by simp [hall c hc])
    unfold learnMask
    simp [hf]
  · rintro ⟨z, hz, hz0⟩ ⟨c, hc, hcpos⟩
    have hne : counts.filter (0 < ·) ≠ [] := by
      intro h
      have := List.filter_eq_nil_iff.mp h c hc
      simp at this; omega
    have hlt : (counts.filter (0 < ·)).length < counts.length := by
      apply List.length_filter_lt_length_iff_exists.mpr
      exact ⟨z, hz, by simp [hz0]⟩
    unfold learnMask
    simp only [hne, if_false, hdl]
    rw [if_pos (by omega)]

/-- the fitted variance is at least `1e-6` (so `sigma > 0`), the null proportion at most 1, and the
    mean is `c₁ · sqsigma` -/
theorem learnPost_bounds (c1 c2 E : Rat) :
    sqsigmaFloor ≤ (learnPost c1 c2 E).sqsigma ∧ 0 < (learnPost c1 c2 E).sqsigma ∧
    (learnPost c1 c2 E).p0 ≤ 1 ∧ (learnPost c1 c2 E).mu = c1 * (learnPost c1 c2 E).sqsigma := by
  have hf : (0 : Rat) < sqsigmaFloor := by decide +kernel
  refine ⟨le_max_right _ _, lt_of_lt_of_le hf (le_max_right _ _), min_le_left _ _, rfl⟩

/-- for a concave fit (`c₂ < 0`) above the floor, `mu` and `sqsigma` are the mean and variance of the
    Gaussian whose log-density is the fitted parabola: `c₀ + c₁ x + c₂ x² = c₀ + mu²/(2 s) − (x − mu)²/(2 s)`,
    in particular the parabola is largest at `x = mu`. -/
theorem learnPost_is_gaussian_fit (c0 c1 c2 E x : Rat) (hc : c2 < 0) (hfl : sqsigmaFloor ≤ -1 / (2 * c2)) :
    let r := learnPost c1 c2 E
    c0 + c1 * x + c2 * x ^ 2 = c0 + r.mu ^ 2 / (2 * r.sqsigma) - (x - r.mu) ^ 2 / (2 * r.sqsigma) ∧
    c0 + c1 * x + c2 * x ^ 2 ≤ c0 + c1 * r.mu + c2 * r.mu ^ 2 := by
  have hs : (learnPost c1 c2 E).sqsigma = -1 / (2 * c2) := max_eq_left hfl
  have hmu : (learnPost c1 c2 E).mu = c1 * (-1 / (2 * c2)) := by
    show c1 * (learnPost c1 c2 E).sqsigma = _; rw [hs]
  have hne : c2 ≠ 0 := ne_of_lt hc
  simp only
  rw [hs, hmu]
  constructor
  · field_simp
    ring
  · have : c0 + c1 * (c1 * (-1 / (2 * c2))) + c2 * (c1 * (-1 / (2 * c2))) ^ 2 - (c0 + c1 * x + c2 * x ^ 2)
        = -c2 * (x + c1 / (2 * c2)) ^ 2 := by
      field_simp
      ring
    have h2 : 0 ≤ -c2 * (x + c1 / (2 * c2)) ^ 2 := mul_nonneg (by linarith) (sq_nonneg _)
    linarith

/-! ## `smoothed_histogram_from_samples`: widened edges and normalisation -/

/-- widening the automatic edges by `1.2` about their mean keeps them strictly increasing and moves
    the outer edges outwards: the first edge does not increase, the last does not decrease — every
    sample inside the first histogram's range is inside the final one -/
theorem widen_covers (m lo hi : Rat) (hlo : lo ≤ m) (hhi : m ≤ hi) :
    m + widenFactor * (lo - m) ≤ lo ∧ hi ≤ m + widenFactor * (hi - m) ∧
    ∀ a b : Rat, a < b → m + widenFactor * (a - m) < m + widenFactor * (b - m) := by
  have hf : (1 : Rat) ≤ widenFactor := by decide +kernel
  refine ⟨?_, ?_, ?_⟩
  · nlinarith
  · nlinarith
  · intro a b hab
    nlinarith

/-- `widenEdges` applies that map to every edge -/
theorem widenEdges_getD (m f : Rat) (b : List Rat) (k : Nat) (hk : k < b.length) :
    (widenEdges m f b).getD k 0 = m + f * (b.getD k 0 - m) := by
  unfold widenEdges
  simp [hk]

/-- `normalized=True`: the histogram integrates to one (`Σ hᵢ · dc = 1`) whenever a sample was counted -/
theorem normHist_integrates (dc : Rat) (h : List Nat) (hdc : dc ≠ 0) (hs : h.sum ≠ 0) :
    ((normHist dc h).map (· * dc)).sum = 1 := by
  unfold normHist
  have hS : ((h.sum : Nat) : Rat) ≠ 0 := by exact_mod_cast hs
  have key : ∀ l : List Nat, ((l.map fun (c : Nat) => (c : Rat) / (dc * ((h.sum : Nat) : Rat))).map (· * dc)).sum
      = ((l.sum : Nat) : Rat) / ((h.sum : Nat) : Rat) := by
    intro l
    induction l with
    | nil => simp
    | cons a t ih =>
        simp only [List.map_cons, List.sum_cons, ih]
        push_cast
        field_simp
  rw [key h]
  exact div_self hS

/-! ## bookkeeping of the mixture fits -/

/-- each row of the returned posterior array sums to one (when its likelihoods do not sum to zero),
    and lies in `[0,1]` when the likelihoods are non-negative -/
theorem rowNormalise_row (r : List Rat) (hs : r.sum ≠ 0) :
    (r.map (· / r.sum)).sum = 1 ∧
    ((∀ x ∈ r, 0 ≤ x) → ∀ y ∈ r.map (· / r.sum), 0 ≤ y ∧ y ≤ 1) := by
  have key : ∀ l : List Rat, (l.map (· / r.sum)).sum = l.sum / r.sum := by
    intro l
    induction l with
    | nil => simp
    | cons a t ih => simp only [List.map_cons, List.sum_cons, ih]; ring
  refine ⟨by rw [key r]; exact div_self hs, ?_⟩
  intro hpos y hy
  obtain ⟨x, hx, rfl⟩ := List.mem_map.mp hy
  have hsum : 0 ≤ r.sum := List.sum_nonneg hpos
  have hspos : 0 < r.sum := lt_of_le_of_ne hsum (Ne.symm hs)
  have hxle : x ≤ r.sum := List.single_le_sum hpos x hx
  exact ⟨div_nonneg (hpos x hx) hsum, (div_le_one hspos).mpr hxle⟩

/-- `rowNormalise` does this to every row -/
theorem rowNormalise_mem (rows : List (List Rat)) (r' : List Rat) (h : r' ∈ rowNormalise rows) :
    ∃ r ∈ rows, r' = r.map (· / r.sum) := by
  unfold rowNormalise at h
  obtain ⟨r, hr, rfl⟩ := List.mem_map.mp h
  exact ⟨r, hr, rfl⟩

/-- the prior weights `[alpha, 1 - 2 alpha, alpha] * prior_strength` sum to `prior_strength`; three
    classes each for means, dof, weights and shrinkage; the middle (null) class has prior mean `0` -/
theorem gmmPriors_spec (sx : List Rat) (a0 a1 alpha ps varx : Rat) (fs : Bool) :
    let r := gmmPriors sx a0 a1 alpha ps varx fs
    r.weights.sum = ps ∧ r.means.length = 3 ∧ r.means.getD 1 none = some 0 ∧
    r.dof = [ps, ps, ps] ∧ r.shrinkage = [ps, ps, ps] ∧
    r.scale = (if fs then 1 / ps else 1 / (ps * varx)) := by
  refine ⟨?_, rfl, rfl, rfl, rfl, rfl⟩
  simp [gmmPriors]
  ring

/-! ## `__div__` -/

/-- `c.__div__(k)` is `(1/k) * c` (both classes): zero is refused, otherwise effect `e / k`, variance
    `V / k²`; degrees of freedom, type, `tiny` and `dofmax` are kept -/
theorem div_spec {q : Nat} (k : Rat) (c : Obj q) :
    (k = 0 → c.div k (1 / k) = .error "error:zeroDivision") ∧
    (k ≠ 0 → ∃ d, c.div k (1 / k) = .ok d ∧ (∀ i, d.effect i = c.effect i / k) ∧
      (∀ i j, d.variance i j = c.variance i j / k ^ 2) ∧ d.dof = c.dof ∧ d.ctype = c.ctype ∧
      d.tiny = c.tiny ∧ d.dofmax = c.dofmax) := by
  constructor
  · intro h; simp [Obj.div, h]
  · intro h
    refine ⟨c.smul (1 / k), by simp [Obj.div, h], ?_, ?_, rfl, rfl, rfl, rfl⟩
    · intro i; show c.effect i * (1 / k) = _; field_simp
    · intro i j; show c.variance i j * (1 / k) ^ 2 = _; field_simp

/-- dividing a contrast by a positive number leaves its statistic, p-value and z-score unchanged —
    every type, dimension, `tiny`, `dofmax`, baseline (divided alike) — under the hypotheses of
    `rmul_pos_invariant_full` for the factor `1/k` -/
theorem div_pos_invariant {q : Nat} (c : Obj q) (k b : Rat) (hk : 0 < k) (htiny : 0 < c.tiny)
    (s s' : Vec q) (W W' : Mat q q)
    (hs : IsSqrtVec c s) (hs' : IsSqrtVec (c.smul (1 / k)) s')
    (hclamp : ∀ i, c.tiny ≤ c.variance i i ∧ c.tiny ≤ c.variance i i * (1 / k) ^ 2)
    (hW : mmul W c.variance = one q) (hW' : mmul W' (c.smul (1 / k)).variance = one q)
    (sfT : Rat → Rat → Rat) (sfF : Rat → Rat → Rat → Rat) (isf : Rat → Rat) :
    ∃ d, c.div k (1 / k) = .ok d ∧
      d.toCon.stat (1 / k * b) s' W' = c.toCon.stat b s W ∧
      d.pOf sfT sfF (d.toCon.stat (1 / k * b) s' W') = c.pOf sfT sfF (c.toCon.stat b s W) ∧
      d.zOf sfT sfF isf (d.toCon.stat (1 / k * b) s' W') = c.zOf sfT sfF isf (c.toCon.stat b s W) :=
  ⟨c.smul (1 / k), by simp [Obj.div, ne_of_gt hk],
    rmul_pos_invariant_full c (1 / k) b (by positivity) htiny s s' W W' hs hs' hclamp hW hW' sfT sfF isf⟩

/-! ## `Fcontrast(matrix, dispersion, invcov)` -/

/-- the inverse is a parameter of which the value is determined: a supplied `invcov` that is a (left)
    inverse of `M cov Mᵀ` gives the F the code computes without it, whichever inverse that used -/
theorem F_indep_of_inverse {q p : Nat} (M : Mat q p) (cov : Mat p p) (theta : Vec p) (disp : Rat)
    (W W' : Mat q q) (hW : mmul W (vcov M cov 1) = one q) (hW' : mmul W' (vcov M cov 1) = one q) :
    fStatGiven W' M theta disp = fStat W M theta disp := by
  rw [mmul_eq, one_eq] at hW hW'
  have : toM W' = toM W := left_inv_unique _ _ _ hW' hW
  have hWW : W' = W := this
  rw [hWW]; rfl

/-- an explicit dispersion `d > 0` divides F: `F(dispersion = d) · d = F(dispersion = 1)`, and scales
    the reported covariance: `vcov(M, d) = d · vcov(M, 1)` (per response when `d` is an array) -/
theorem F_dispersion_scaling {q p : Nat} (W : Mat q q) (M : Mat q p) (cov : Mat p p) (theta : Vec p)
    (d : Rat) (hd : 0 < d) (hq : 0 < q) :
    fStat W M theta d * d = fStat W M theta 1 ∧
    ∀ i j, vcov M cov d i j = d * vcov M cov 1 i j := by
  have hqq : (0 : Rat) < (q : Rat) := by exact_mod_cast hq
  constructor
  · unfold fStat
    rw [posRecipr_pos (mul_pos hqq hd), posRecipr_pos (by simpa using hqq)]
    have := ne_of_gt hd
    have := ne_of_gt hqq
    field_simp
  · intro i j
    unfold vcov
    ring

/-- the code trusts a supplied `invcov`: `k` times the inverse gives `k` times the F -/
theorem F_scaled_invcov {q p : Nat} (W : Mat q q) (M : Mat q p) (theta : Vec p) (disp k : Rat) :
    fStatGiven (fun i j => k * W i j) M theta disp = k * fStat W M theta disp := by
  unfold fStatGiven fStat
  rw [dotv_eq, dotv_eq, mulVec_eq, mulVec_eq W]
  have : toM (fun i j => k * W i j) = k • toM W := by funext i j; rfl
  rw [this, Matrix.smul_mulVec, smul_dotProduct, smul_eq_mul]
  ring

/-! ## z as a function of p, through the clip -/

/-- z is non-increasing in p on the whole line (`norm.isf` antitone on the clip interval), constant
    below `1e-300` and above `1 - 2⁻⁵³` -/
theorem z_antitone_in_p (isf : Rat → Rat)
    (hisf : ∀ p r, pLo ≤ p → p ≤ r → r ≤ pHi → isf r ≤ isf p) (p r : Rat) (h : p ≤ r) :
    zScore isf r ≤ zScore isf p ∧
    (p ≤ pLo → zScore isf p = isf pLo) ∧ (pHi ≤ r → zScore isf r = isf pHi) := by
  refine ⟨hisf _ _ (clipP_mem _).1 (clipP_mono h) (clipP_mem _).2, ?_, ?_⟩
  · intro hp
    unfold zScore clipP
    rw [max_eq_right hp, min_eq_left pLo_le_pHi]
  · intro hr
    unfold zScore clipP
    have : pHi ≤ max r pLo := le_trans hr (le_max_left _ _)
    rw [min_eq_right this]

/-- the same for the labs helper (clip at `1e-15` on both sides) -/
theorem z2_const_outside (isf : Rat → Rat) (p : Rat) :
    (p ≤ p2Lo → isf (clipP2 p) = isf p2Lo) ∧ (p2Hi ≤ p → isf (clipP2 p) = isf p2Hi) := by
  constructor
  · intro hp
    unfold clipP2
    rw [max_eq_right hp, min_eq_left p2Lo_le_p2Hi]
  · intro hr
    unfold clipP2
    have : p2Hi ≤ max p p2Lo := le_trans hr (le_max_left _ _)
    rw [min_eq_right this]

/-! ## `fdr_threshold` outside `0 < alpha ≤ 1` -/

/-- with `alpha ≤ 0` nothing is critical (p-values are non-negative): the answer is `alpha / n` -/
theorem fdr_threshold_nonpos_alpha (alpha : Rat) (p : List Rat) (ha : alpha ≤ 0) (h : checkP p = .ok ()) :
    fdrThreshold alpha p = .ok (alpha / p.length) := by
  unfold fdrThreshold
  rw [h]
  simp only
  set sp := p.mergeSort (fun a b => decide (a ≤ b)) with hsp
  have hperm : sp.Perm p := List.mergeSort_perm p _
  have hlen : sp.length = p.length := hperm.length_eq
  have hpos : ∀ x ∈ sp, 0 ≤ x := by
    intro x hx
    have hxp : x ∈ p := hperm.mem_iff.mp hx
    have := (checkPN_accepts_iff (p.map some) p).mp (by
      unfold checkPN
      have hn : (p.map some).any Option.isNone = false := by simp
      have hf : (p.map some).filterMap id = p := by simp
      simp [hn, h])
    exact (this.2.2 x hxp).1
  have hcrit : ∀ (l : List Rat) (i : Nat), (∀ x ∈ l, 0 ≤ x) → critical (alpha / sp.length) i l = [] := by
    intro l
    induction l with
    | nil => intro i _; rfl
    | cons x xs ih =>
        intro i hl
        have hx : 0 ≤ x := hl x (by simp)
        have hn : (0 : Rat) ≤ (sp.length : Rat) := by positivity
        have hpc : alpha / sp.length ≤ 0 := div_nonpos_of_nonpos_of_nonneg ha hn
        have hi : (0 : Rat) ≤ (i : Rat) + 1 := by positivity
        have : ¬ x < alpha / sp.length * ((i : Rat) + 1) := by
          have := mul_nonpos_of_nonpos_of_nonneg hpc hi
          linarith
        simp only [critical, this, if_false]
        exact ih (i + 1) (fun y hy => hl y (by simp [hy]))
  have hc := hcrit sp 0 hpos
  rw [hlen] at hc
  unfold fdrThresholdSorted
  simp only [hlen, hc]
  rfl

/-! ## histogram counts -/

/-- `np.histogram` counts for strictly increasing edges: the bins partition `[first edge, last edge]`,
    so the counts add up to the number of samples in that range — used by `learn` (central
    subsample) and by `smoothed_histogram_from_samples` -/
theorem histCounts_total (xs rest : List Rat) (lo hi : Rat) (hs : (lo :: hi :: rest).Pairwise (· < ·)) :
    (histCounts (lo :: hi :: rest) xs).sum
      = xs.countP (fun x => decide (lo ≤ x) && decide (x ≤ (hi :: rest).getLastD 0)) ∧
    (histCounts (lo :: hi :: rest) xs).length = (hi :: rest).length := by
  refine ⟨histCounts_sum xs rest lo hi hs, ?_⟩
  clear hs
  induction rest generalizing lo hi with
  | nil => simp [histCounts]
  | cons r rs ih =>
      have : histCounts (lo :: hi :: r :: rs) xs
          = xs.countP (inBin lo hi false) :: histCounts (hi :: r :: rs) xs := by simp [histCounts]
      rw [this, List.length_cons, ih hi r]
      simp

/-- no sample is lost when every sample lies between the outer edges — which the widening of the
    automatic edges guarantees (`widen_covers`) -/
theorem histCounts_all (xs rest : List Rat) (lo hi : Rat) (hs : (lo :: hi :: rest).Pairwise (· < ·))
    (hin : ∀ x ∈ xs, lo ≤ x ∧ x ≤ (hi :: rest).getLastD 0) :
    (histCounts (lo :: hi :: rest) xs).sum = xs.length := by
  rw [(histCounts_total xs rest lo hi hs).1]
  apply List.countP_eq_length.mpr
  intro x hx
  rw [Bool.and_eq_true, decide_eq_true_eq, decide_eq_true_eq]
  exact hin x hx

/-! ## the central subsample of `learn` -/

/-- for `0 ≤ n·left ≤ n·right ≤ n` (the intended use) the subsample is the run of the sorted sample
    from position `⌊n·left⌋` up to, not including, `⌊n·right⌋` -/
theorem learnSubsample_spec (xs : List Rat) (a b : Rat) (ha : 0 ≤ a) (hab : a ≤ b)
    (hb : b ≤ (xs.length : Rat)) :
    learnSubsample xs a b = (xs.drop a.floor.toNat).take (b.floor.toNat - a.floor.toNat) ∧
    (learnSubsample xs a b).length = b.floor.toNat - a.floor.toNat := by
  have hb0 : 0 ≤ b := le_trans ha hab
  obtain ⟨ea, fa⟩ := pyInt_nonneg a ha
  obtain ⟨eb, fb⟩ := pyInt_nonneg b hb0
  have hmono : a.floor ≤ b.floor := Rat.floor_monotone hab
  have hbn : b.floor ≤ (xs.length : Int) := by
    have h1 : (b.floor : Rat) ≤ (xs.length : Rat) := le_trans (Rat.floor_le b) hb
    exact_mod_cast h1
  have hA : sliceBound xs.length (pyInt a) = a.floor.toNat := by
    rw [ea, sliceBound_nonneg _ _ fa]; omega
  have hB : sliceBound xs.length (pyInt b) = b.floor.toNat := by
    rw [eb, sliceBound_nonneg _ _ fb]; omega
  have hspec : learnSubsample xs a b = (xs.drop a.floor.toNat).take (b.floor.toNat - a.floor.toNat) := by
    unfold learnSubsample pySlice; rw [hA, hB]
  refine ⟨hspec, ?_⟩
  rw [hspec, List.length_take, List.length_drop]
  omega

/-- a negative bound counts from the end, and everything is clipped: the subsample is always a
    contiguous run of the sorted sample -/
theorem learnSubsample_is_run (xs : List Rat) (a b : Rat) :
    ∃ i k, learnSubsample xs a b = (xs.drop i).take k := ⟨_, _, rfl⟩

/-! ## `NormalEmpiricalNull.threshold` -/

/-- **the threshold separates** — for a sorted sample, a non-increasing FDR curve whose last value is
    below `alpha` and some value is not: every sample above the returned threshold has FDR `< alpha`,
    every sample below it has FDR `≥ alpha` (the threshold is the mid-point between the last sample
    with FDR `≥ alpha` and its successor) -/
theorem enThreshold_separates (alpha : Rat) (xs efp : List Rat) (hlen : xs.length = efp.length)
    (hx : xs.Pairwise (· ≤ ·)) (he : efp.Pairwise (· ≥ ·))
    (hlast : efp.getD (efp.length - 1) 0 < alpha) (hsome : ∃ k, k < efp.length ∧ alpha ≤ efp.getD k 0) :
    ∃ thr, enThreshold alpha xs efp = .ok (some thr) ∧
      ∀ k, k < xs.length → (thr < xs.getD k 0 → efp.getD k 0 < alpha) ∧
                           (xs.getD k 0 < thr → alpha ≤ efp.getD k 0) := by
  obtain ⟨k0, hk0, hk0a⟩ := hsome
  set n := efp.length with hn
  have hnpos : 0 < n := by omega
  have her : efp.reverse.Pairwise (· ≤ ·) := by
    rw [List.pairwise_reverse]; exact he
  have hrl : efp.reverse.length = n := by simp [hn]
  set t := leadBelow alpha efp.reverse with ht
  obtain ⟨hbelow, hfirst⟩ := leadBelow_spec alpha efp.reverse
  have ht_le : t ≤ n := by rw [← hrl]; exact leadBelow_le _ _
  -- some value is not below alpha: the run stops before the end
  have ht_lt : t < n := by
    rcases Nat.lt_or_ge t n with h | h
    · exact h
    · exfalso
      have := hbelow (n - 1 - k0) (by omega)
      rw [getD_reverse efp _ (by omega)] at this
      have hidx : efp.length - 1 - (n - 1 - k0) = k0 := by omega
      rw [hidx] at this
      linarith
  -- the last value is below alpha: the run is not empty
  have ht_pos : 0 < t := by
    rcases Nat.eq_zero_or_pos t with h | h
    · exfalso
      have := hfirst (by rw [hrl]; omega)
      rw [← ht, h, getD_reverse efp 0 (by omega)] at this
      exact this (by simpa using hlast)
    · exact h
  have hnot : ¬ efp.reverse.getD t 0 < alpha := hfirst (by rw [hrl]; exact ht_lt)
  -- unfold the definition
  have hrev : ∃ e er, efp.reverse = e :: er := by
    cases hr : efp.reverse with
    | nil => rw [hr] at hrl; simp at hrl; omega
    | cons e er => exact ⟨e, er, rfl⟩
  obtain ⟨e, er, hre⟩ := hrev
  have he0 : e = efp.getD (n - 1) 0 := by
    have := getD_reverse efp 0 (by omega)
    rw [hre] at this
    simpa using this
  have harg : argminBelow alpha (e :: er) = t := by
    unfold argminBelow
    rw [← hre, ← ht, hrl, if_neg (by omega)]
  let i0 := n - 1 - t
  have hxr_t : xs.reverse.getD t 0 = xs.getD i0 0 := by
    rw [getD_reverse xs t (by omega)]; congr 1; omega
  have hxr_t1 : xs.reverse.getD (t - 1) 0 = xs.getD (i0 + 1) 0 := by
    rw [getD_reverse xs (t - 1) (by omega)]; congr 1; omega
  refine ⟨(xs.getD i0 0 + xs.getD (i0 + 1) 0) / 2, ?_, ?_⟩
  · unfold enThreshold
    rw [hre]
    simp only
    rw [if_neg (by rw [he0]; exact not_lt.mpr (le_of_lt hlast)), harg, if_neg (by omega), hxr_t, hxr_t1]
  · intro k hk
    have hmid : xs.getD i0 0 ≤ xs.getD (i0 + 1) 0 := sorted_getD_mono xs hx i0 (i0 + 1) (by omega) (by omega)
    constructor
    · intro hgt
      have hki : i0 < k := by
        by_contra hle
        have := sorted_getD_mono xs hx k i0 (by omega) (by omega)
        linarith
      have := hbelow (n - 1 - k) (by omega)
      rw [getD_reverse efp _ (by omega)] at this
      have hidx : efp.length - 1 - (n - 1 - k) = k := by omega
      rwa [hidx] at this
    · intro hlt
      have hki : k ≤ i0 := by
        by_contra hgt
        have := sorted_getD_mono xs hx (i0 + 1) k (by omega) (by omega)
        linarith
      have h1 : efp.reverse.getD t 0 ≤ efp.reverse.getD (n - 1 - k) 0 :=
        sorted_getD_mono efp.reverse her t (n - 1 - k) (by omega) (by rw [hrl]; omega)
      rw [getD_reverse efp (n - 1 - k) (by omega)] at h1
      have hidx : efp.length - 1 - (n - 1 - k) = k := by omega
      rw [hidx] at h1
      linarith [not_lt.mp hnot]

/-- when no sample has FDR `≤ alpha` the answer is `inf`; when **every** sample has FDR `< alpha` the
    code as written returns the mid-range `(x[-1] + x[0]) / 2` (the index `-j + 1` wraps to `0` for
    `j = 1`) — not a value below the whole sample -/
theorem enThreshold_extremes (alpha : Rat) (xs efp : List Rat) (hlen : xs.length = efp.length) (hne : efp ≠ []) :
    (alpha < efp.getD (efp.length - 1) 0 → enThreshold alpha xs efp = .ok none) ∧
    ((∀ k, k < efp.length → efp.getD k 0 < alpha) →
      enThreshold alpha xs efp = .ok (some ((xs.getD (xs.length - 1) 0 + xs.getD 0 0) / 2))) := by
  have hnpos : 0 < efp.length := List.length_pos_iff.mpr hne
  have hrev : ∃ e er, efp.reverse = e :: er := by
    cases hr : efp.reverse with
    | nil => simp at hr; exact absurd hr hne
    | cons e er => exact ⟨e, er, rfl⟩
  obtain ⟨e, er, hre⟩ := hrev
  have he0 : e = efp.getD (efp.length - 1) 0 := by
    have := getD_reverse efp 0 hnpos
    rw [hre] at this
    simpa using this
  constructor
  · intro h
    unfold enThreshold
    rw [hre]; simp only
    rw [if_pos (by rw [he0]; exact h)]
  · intro hall
    have hlead : leadBelow alpha efp.reverse = efp.reverse.length := by
      obtain ⟨_, hfirst⟩ := leadBelow_spec alpha efp.reverse
      rcases Nat.lt_or_ge (leadBelow alpha efp.reverse) efp.reverse.length with h | h
      · exfalso
        apply hfirst h
        have hl : leadBelow alpha efp.reverse < efp.length := by simpa using h
        rw [getD_reverse efp _ hl]
        exact hall _ (by omega)
      · exact le_antisymm (leadBelow_le _ _) h
    have harg : argminBelow alpha (e :: er) = 0 := by
      unfold argminBelow
      rw [← hre, if_pos hlead]
    unfold enThreshold
    rw [hre]; simp only
    rw [if_neg (by rw [he0]; exact not_lt.mpr (le_of_lt (hall _ (by omega)))), harg, if_pos rfl]
    have : xs.reverse.getD 0 0 = xs.getD (xs.length - 1) 0 := by
      rw [getD_reverse xs 0 (by omega), Nat.sub_zero]
    rw [this]

/-! ## `NormalEmpiricalNull.fdr(theta)` against `fdrcurve` -/

/-- at a sample point (the first position holding that value) `fdr(theta)` **is** the FDR curve there:
    the direct estimate `p0·sf(x_i)·n/(n−i)` never exceeds the running maximum -/
theorem enFdrAt_sample (p0 : Rat) (xs sfx : List Rat) (i : Nat) (hlen : sfx.length = xs.length)
    (hi : i < xs.length) (hx : xs.Pairwise (· ≤ ·)) (hfirst : ∀ k, k < i → xs.getD k 0 < xs.getD i 0) :
    enFdrAt p0 (sfx.getD i 0) (xs.getD i 0) xs (fdrCurve p0 sfx) = (fdrCurve p0 sfx).getD i 0 := by
  obtain ⟨hcnt, hmaj⟩ := sorted_count_ge xs hx (xs.getD i 0) i hi le_rfl hfirst
  have hlast : ¬ xs.getLast?.getD 0 < xs.getD i 0 := by
    have hne : xs ≠ [] := by intro h; rw [h] at hi; simp at hi
    have : xs.getLast?.getD 0 = xs.getD (xs.length - 1) 0 := by
      rw [List.getLast?_eq_some_getLast hne, List.getLast_eq_getElem, getD_eq xs _ (by omega)]
      rfl
    rw [this]
    exact not_lt.mpr (sorted_getD_mono xs hx i (xs.length - 1) (by omega) (by omega))
  unfold enFdrAt
  rw [if_neg hlast]
  simp only [hcnt, hmaj]
  have hi' : i < sfx.length := by omega
  obtain ⟨hlow, j, hij, hj, hatt⟩ := fdrCurve_is_running_max p0 sfx i hi'
  have hraw := hlow i le_rfl hi'
  have hle1 : (fdrCurve p0 sfx).getD i 0 ≤ 1 := by rw [hatt]; exact min_le_right _ _
  have hcast : ((xs.length - i : Nat) : Rat) = (sfx.length : Rat) - (i : Rat) := by
    rw [Nat.cast_sub (by omega), hlen]
  rw [hcast, ← hlen]
  set raw := p0 * sfx.getD i 0 * (sfx.length : Rat) / ((sfx.length : Rat) - (i : Rat)) with hrawdef
  set c := (fdrCurve p0 sfx).getD i 0 with hc
  rcases le_total raw 1 with h | h
  · rw [min_eq_left h] at hraw
    rw [max_eq_left hraw, min_eq_left hle1]
  · rw [min_eq_right h] at hraw
    have hc1 : c = 1 := le_antisymm hle1 hraw
    rw [hc1, max_eq_right h, min_eq_right h]

/-- `fdr(theta)` is `0` above the largest sample and never exceeds `1` -/
theorem enFdrAt_range (p0 sfT theta : Rat) (xs curve : List Rat) :
    enFdrAt p0 sfT theta xs curve ≤ 1 ∧ (xs.getLast?.getD 0 < theta → enFdrAt p0 sfT theta xs curve = 0) := by
  unfold enFdrAt
  constructor
  · split
    · norm_num
    · exact min_le_right _ _
  · intro h; rw [if_pos h]

/-! ## `gaussian_fdr_threshold` -/

/-- `gaussian_fdr_threshold` rejects what `gaussian_fdr` rejects: if some variate has
    `gaussian_fdr < alpha` (`0 < alpha ≤ 1`), then for a strictly decreasing tail `sf` with `isf ∘ sf = id`
    on the sample, `x_i ≥ gaussian_fdr_threshold(x, alpha)  ↔  gaussian_fdr(x)_i < alpha`. -/
theorem gaussian_fdr_threshold_selects (sf isf : Rat → Rat) (alpha : Rat) (x : List Rat)
    (ha0 : 0 < alpha) (ha1 : alpha ≤ 1)
    (hsf : ∀ a b, a < b → sf b < sf a) (hinv : ∀ a ∈ x, isf (sf a) = a)
    (l : List Rat) (h : gaussianFdr sf x = .ok l) (thr : Rat) (ht : gaussianFdrThreshold sf isf alpha x = .ok thr)
    (hrej : ∃ j, j < x.length ∧ l.getD j 0 < alpha) (i : Nat) (hi : i < x.length) :
    thr ≤ x.getD i 0 ↔ l.getD i 0 < alpha := by
  unfold gaussianFdr at h
  unfold gaussianFdrThreshold at ht
  cases hthr : fdrThreshold alpha (x.map sf) with
  | error e => rw [hthr] at ht; simp at ht
  | ok pth =>
      rw [hthr] at ht
      simp only [Except.ok.injEq] at ht
      have hlenm : (x.map sf).length = x.length := by simp
      obtain ⟨hsel, _⟩ := fdr_threshold_selects alpha (x.map sf) ha0 ha1 l h pth hthr
      have hrej' : ∃ j, j < (x.map sf).length ∧ l.getD j 0 < alpha := by
        obtain ⟨j, hj, hjl⟩ := hrej; exact ⟨j, by rw [hlenm]; exact hj, hjl⟩
      have hg : ∀ k, k < x.length → (x.map sf).getD k 0 = sf (x.getD k 0) := by
        intro k hk; simp [hk]
      -- the critical p-value is the tail value of one of the variates
      obtain ⟨j, hj, hjl⟩ := hrej
      have hjsel := (hsel hrej' j (by rw [hlenm]; exact hj)).mpr hjl
      -- pth is attained: it is the largest selected p-value
      have hmem : pth ∈ x.map sf := by
        unfold fdrThreshold at hthr
        cases hc : checkP (x.map sf) with
        | error e => rw [hc] at hthr; simp at hthr
        | ok u =>
            rw [hc] at hthr
            simp only [Except.ok.injEq] at hthr
            set sp := (x.map sf).mergeSort (fun a b => decide (a ≤ b)) with hsp
            have hperm : sp.Perm (x.map sf) := List.mergeSort_perm _ _
            unfold fdrThresholdSorted at hthr
            cases hm : (critical (alpha / sp.length) 0 sp).max? with
            | none =>
                -- empty critical set contradicts a rejection
                exfalso
                have hempty : critical (alpha / sp.length) 0 sp = [] := List.max?_eq_none_iff.mp hm
                have hspne : sp ≠ [] := by
                  intro h0
                  have : sp.length = (x.map sf).length := hperm.length_eq
                  rw [h0] at this; simp at this; omega
                have hA := (fdr_threshold_selects_sorted alpha sp ha0 ha1 (mergeSort_sorted _) hspne).1 hempty
                -- the q-value of j in sorted position is below alpha
                have hspeq : (argsort (x.map sf)).map (fun i => (x.map sf).getD i 0) = sp :=
                  argsort_map_eq_mergeSort _
                unfold fdr at h
                rw [hc] at h
                simp only [Except.ok.injEq] at h
                have hjm : j < (x.map sf).length := by rw [hlenm]; exact hj
                have hmemj : j ∈ argsort (x.map sf) :=
                  (argsort_perm _).mem_iff.mpr (List.mem_range.mpr hjm)
                have hk : (argsort (x.map sf)).idxOf j < (argsort (x.map sf)).length :=
                  List.idxOf_lt_length_iff.mpr hmemj
                have hq : l.getD j 0 = (bhSorted sp).getD ((argsort (x.map sf)).idxOf j) 0 := by
                  rw [← h, ← hspeq]
                  rw [List.getD_eq_getElem?_getD, List.getElem?_map, List.getElem?_range hjm]
                  rfl
                have hklen : (argsort (x.map sf)).idxOf j < sp.length := by
                  rw [← hspeq, List.length_map]; exact hk
                exact hA.2 _ hklen (by rw [← hq]; exact hjl)
            | some m =>
                simp only [hm] at hthr
                have hmc : m ∈ critical (alpha / sp.length) 0 sp := (List.max?_eq_some_iff.mp hm).1
                obtain ⟨k, hk, hkm, _⟩ := (mem_critical _ _ _ _).mp hmc
                have : m ∈ sp := by rw [← hkm]; exact getD_mem_of_lt sp k hk
                rw [← hthr]
                exact hperm.mem_iff.mp this
      obtain ⟨a, ha, hpa⟩ := List.mem_map.mp hmem
      have hthr_a : thr = a := by rw [← ht, ← hpa]; exact hinv a ha
      have hsel_i := hsel hrej' i (by rw [hlenm]; exact hi)
      rw [hg i hi, ← hpa] at hsel_i
      rw [← hsel_i, hthr_a]
      constructor
      · intro hle
        rcases eq_or_lt_of_le hle with he | hlt
        · rw [he]
        · exact le_of_lt (hsf _ _ hlt)
      · intro hle
        by_contra hnot
        have := hsf _ _ (lt_of_not_ge hnot)
        linarith

/-! ## fixed effects: the order of the sessions -/

/-- the fixed-effects accumulation does not depend on the order of the sessions as far as effect,
    variance and degrees of freedom go (type and settings are those of the first session of each order) -/
theorem multisession_order_independent {q : Nat} (c0 d0 : Obj q) (cs ds : List (Obj q))
    (hperm : (c0 :: cs).Perm (d0 :: ds)) (hty : ∀ c ∈ cs, c.ctype = c0.ctype) (hty' : ∀ d ∈ ds, d.ctype = d0.ctype) :
    ∃ r r', multiSession (some c0 :: cs.map some) = some (.ok r) ∧
      multiSession (some d0 :: ds.map some) = some (.ok r') ∧
      r.effect = r'.effect ∧ r.variance = r'.variance ∧ r.dof = r'.dof := by
  obtain ⟨r, hr, he, hv, hd, _⟩ := multisession_is_sum c0 cs hty
  obtain ⟨r', hr', he', hv', hd', _⟩ := multisession_is_sum d0 ds hty'
  refine ⟨r, r', hr, hr', ?_, ?_, ?_⟩
  · funext i
    rw [he i, he' i]
    have := (hperm.map (fun c : Obj q => c.effect i)).sum_eq
    simpa using this
  · funext i j
    rw [hv i j, hv' i j]
    have := (hperm.map (fun c : Obj q => c.variance i j)).sum_eq
    simpa using this
  · rw [hd, hd']
    have := (hperm.map (fun c : Obj q => c.dof)).sum_eq
    simpa using this

/-! ## Non-vacuity -/

example : checkPN [some (1/2), some 0, some 1] = .ok [1/2, 0, 1] ∧
    checkPN [some (1/2), none] = .error "error:valueError" ∧ checkPN [] = .error "error:valueError" := by
  decide +kernel
-- every bin occupied / one empty bin among occupied ones
example : learnMask [1, 2] [1, 2, 3] = .ok ([1, 2], [1, 2]) ∧
    learnMask [1, 0, 2] [1, 2, 3, 4] = .error "error:indexError" := by decide +kernel
-- a concave fit above the floor: c₂ = -1/2 gives variance 1
example : (-1 / 2 : Rat) < 0 ∧ sqsigmaFloor ≤ -1 / (2 * (-1 / 2 : Rat)) := by decide +kernel
example : (learnPost 3 (-1/2) 2).sqsigma = 1 ∧ (learnPost 3 (-1/2) 2).mu = 3 ∧ (learnPost 3 (-1/2) 2).p0 = 1 := by
  decide +kernel
-- strictly increasing edges, samples on and between them
example : ([0, 2, 4] : List Rat).Pairwise (· < ·) ∧ histCounts [0, 2, 4] [1, 2, 3, 4, 5] = [1, 3] := by
  decide +kernel
-- the intended use of the central subsample: n = 10, left = 1/5, right = 4/5
example : learnSubsample [1, 2, 3, 4, 5, 6, 7, 8, 9, 10] 2 8 = [3, 4, 5, 6, 7, 8] ∧
    learnSubsample [1, 2, 3, 4, 5, 6, 7, 8, 9, 10] (-3) 8 = [8] := by decide +kernel
-- a sorted sample with a non-increasing curve crossing alpha = 1/2: threshold between 2 and 3
example : ([1, 2, 3] : List Rat).Pairwise (· ≤ ·) ∧ ([1, 3/4, 1/4] : List Rat).Pairwise (· ≥ ·) ∧
    enThreshold (1/2) [1, 2, 3] [1, 3/4, 1/4] = .ok (some (5/2)) ∧
    enThreshold (1/2) [1, 2, 3] [1/4, 1/4, 1/4] = .ok (some 2) ∧
    enThreshold (1/8) [1, 2, 3] [1, 3/4, 1/4] = .ok none := by decide +kernel
-- fdr(theta) at the sample points of a small sorted sample
example : fdrCurve (1/2) [1/2, 1/4, 1/8] = [1/4, 3/16, 3/16] ∧
    enFdrAt (1/2) (1/4) 2 [1, 2, 3] (fdrCurve (1/2) [1/2, 1/4, 1/8]) = 3/16 := by decide +kernel
-- a strictly decreasing tail with its inverse on the sample, and a rejection at alpha = 1
example : gaussianFdr (fun a => 1 - a) [1/2] = .ok [1/2] ∧
    gaussianFdrThreshold (fun a => 1 - a) (fun p => 1 - p) 1 [1/2] = .ok (1/2) ∧ (1/2 : Rat) < 1 := by
  decide +kernel
example : ∀ a b : Rat, a < b → (fun a => 1 - a) b < (fun a => 1 - a) a := fun _ _ h => by simp only; linarith
-- rows of likelihoods, histogram counts
example : ([1, 1, 2] : List Rat).sum ≠ 0 ∧ rowNormalise [[1, 1, 2]] = [[1/4, 1/4, 1/2]] := by decide +kernel
example : normHist (1/2) [1, 3] = [1/2, 3/2] := by decide +kernel
-- `div_pos_invariant` on the object of `rmul_pos_invariant_full`: k = 2, factor 1/2
example :
    IsSqrtVec (exObj.smul (1 / 2)) (fun i => if i = 0 then 1 else 3 / 2) ∧
    (∀ i, exObj.tiny ≤ exObj.variance i i ∧ exObj.tiny ≤ exObj.variance i i * (1 / 2) ^ 2) ∧
    mmul (fun i j => if i = j then (if i = 0 then 1 else 4 / 9) else 0) (exObj.smul (1 / 2)).variance = one 2 := by
  unfold IsSqrtVec
  decide +kernel
-- an antitone quantile function on the clip interval
example : ∀ p r : Rat, pLo ≤ p → p ≤ r → r ≤ pHi → (fun t => -t) r ≤ (fun t => -t) p :=
  fun _ _ _ h _ => neg_le_neg h
example : checkP [1/2, 0, 1/4] = .ok () := by decide +kernel
-- two orders of the same sessions
example : ([exObj, exObj.smul 2] : List (Obj 2)).Perm [exObj.smul 2, exObj] := List.Perm.swap _ _ _

end NipyVerif.C06
