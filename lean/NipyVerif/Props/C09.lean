/-
C09 — property theorems about the model in `NipyVerif.Model.C09`
(joint histogram kernel, its PRNG, `L1_moments`, similarity measures).
-/
import NipyVerif.Lemmas.C09
import NipyVerif.Lemmas.C09M

namespace NipyVerif.C09

/-! ## Scalar macros and the eight weights -/

/-- the `FLOOR` macro is the mathematical floor (for every rational, negative ones included) -/
theorem floorC_eq_floor (a : Rat) : floorC a = ⌊a⌋ := floorC_eq a

/-- the kernel's hand-derived weight algebra is the trilinear (partial-volume) product form -/
theorem weights_trilinear (wx wy wz : Rat) :
    weights wx wy wz =
      [wx * wy * wz, wx * wy * (1 - wz), wx * (1 - wy) * wz, wx * (1 - wy) * (1 - wz),
       (1 - wx) * wy * wz, (1 - wx) * wy * (1 - wz), (1 - wx) * (1 - wy) * wz,
       (1 - wx) * (1 - wy) * (1 - wz)] := by
  simp only [weights, List.cons.injEq, and_true]
  and_intros <;> first | trivial | ring

/-- the eight weights always sum to one: nothing is lost or created by the weight algebra -/
theorem weights_sum_one (wx wy wz : Rat) : (weights wx wy wz).sum = 1 := by
  simp only [weights, List.sum_cons, List.sum_nil]; ring


/-- every weight of a real voxel is non-negative: the coordinates' fractional parts lie in [0,1] -/
theorem weights_nonneg (V : Vol) (v : Vox) : ∀ p ∈ neighbours V v, 0 ≤ p.2 :=
  neighbours_nonneg V v

/-! ## Who contributes -/

/-- a source voxel with negative (masked) intensity, or whose transformed position fails the inside
    test, contributes nothing — in every interpolation mode -/
theorem not_inside_no_deposit (m : Mode) (V : Vol) (clampJ : Nat) (stale : Int) (v : Vox) (u : Rat)
    (h : ¬ inside V v) : voxDeps m V clampJ stale v u = [] := by
  simp [voxDeps, h]

/-- in particular negative source intensities are ignored -/
theorem negative_intensity_ignored (m : Mode) (V : Vol) (clampJ : Nat) (stale : Int) (v : Vox) (u : Rat)
    (h : v.i < 0) : voxDeps m V clampJ stale v u = [] :=
  not_inside_no_deposit m V clampJ stale v u (fun hi => absurd hi.1 (not_le.mpr h))

/-- padding / masked target voxels (`-1`) never receive or provide mass: every appended neighbour
    has a non-negative intensity read from the padded image and a non-negative weight -/
theorem appended_valid (V : Vol) (v : Vox) : ∀ p ∈ appended V v, 0 ≤ p.1 ∧ 0 ≤ p.2 ∧ ∃ q, p.1 = V.get q :=
  fun _ hp => appended_mem hp

/-! ## Mass per source voxel -/

/-- PV: the mass a voxel adds is the total weight of its unmasked neighbours; it lies in [0,1]
    (never created) -/
theorem pv_mass (V : Vol) (clampJ : Nat) (stale : Int) (v : Vox) (u : Rat) (h : inside V v) :
    mass (voxDeps .pv V clampJ stale v u) = sumW (appended V v) ∧
    0 ≤ mass (voxDeps .pv V clampJ stale v u) ∧ mass (voxDeps .pv V clampJ stale v u) ≤ 1 := by
  have e : mass (voxDeps .pv V clampJ stale v u) = sumW (appended V v) := by
    simp [voxDeps, h, pvDeps, mass, sumW, List.map_map, Function.comp_def]
  rw [e]
  exact ⟨rfl, sumW_nonneg_of (fun p hp => (appended_mem hp).2.1), sumW_appended_le_one V v⟩

/-- PV: when none of the eight neighbours is padding or masked the voxel adds exactly one unit
    (never lost) -/
theorem pv_mass_full (V : Vol) (clampJ : Nat) (stale : Int) (v : Vox) (u : Rat) (h : inside V v)
    (hall : ∀ p ∈ neighbours V v, 0 ≤ V.get p.1) :
    mass (voxDeps .pv V clampJ stale v u) = 1 := by
  rw [(pv_mass V clampJ stale v u h).1]
  have hf : appended V v = (neighbours V v).map (fun p => (V.get p.1, p.2)) := by
    unfold appended
    apply List.filter_eq_self.mpr
    intro p hp
    rw [List.mem_map] at hp
    obtain ⟨a, ha, rfl⟩ := hp
    simpa using hall a ha
  rw [hf]
  unfold sumW
  rw [List.map_map]
  have : ((fun (p : Int × Rat) => p.2) ∘ fun (p : Nat × Rat) => (V.get p.1, p.2)) = (·.2) := rfl
  rw [this, neighbours_weights, weights_sum_one]

/-- TRI: exactly one count when some unmasked neighbour has positive weight, none otherwise -/
theorem tri_mass (V : Vol) (clampJ : Nat) (stale : Int) (v : Vox) (u : Rat) (h : inside V v) :
    mass (voxDeps .tri V clampJ stale v u) = if sumW (appended V v) > 0 then 1 else 0 := by
  simp only [voxDeps, h, if_true, triDeps]
  split <;> simp [mass]

/-- RAND (with the `sumW > 0` guard): exactly one count when some unmasked neighbour has positive
    weight, none otherwise -/
theorem rand_mass (V : Vol) (clampJ : Nat) (stale : Int) (v : Vox) (u : Rat) (h : inside V v) :
    mass (voxDeps .rand V clampJ stale v u) = if sumW (appended V v) > 0 then 1 else 0 := by
  simp only [voxDeps, h, if_true, randDeps]
  split
  · split <;> simp [mass]
  · simp [mass]

/-- RAND: for a draw `u ∈ [0,1)` the count goes to the intensity of an unmasked neighbour of
    positive weight; the stale slot `J[nn]` is never read -/
theorem rand_picks_neighbour (V : Vol) (clampJ : Nat) (stale : Int) (v : Vox) (u : Rat) (h : inside V v)
    (hs : sumW (appended V v) > 0) (hu0 : 0 ≤ u) (hu1 : u < 1) :
    ∃ j w, (j, w) ∈ appended V v ∧ 0 < w ∧
      voxDeps .rand V clampJ stale v u = [(j + clampJ * v.i, 1)] := by
  obtain ⟨j, w, e, m, hw⟩ := pick_valid (appended V v) 0 (sumW (appended V v) * u)
    (mul_nonneg hs.le hu0) (by nlinarith)
  exact ⟨j, w, m, hw, by simp [voxDeps, h, randDeps, hs, e]⟩

/-! ## Nothing is written outside the histogram -/

/-- every deposit of a voxel with intensity `i` lands in row `i` of the histogram, at a column in
    `[0, clampJ)`: `clampJ*i ≤ index < clampJ*(i+1)` (all three modes; RAND for draws in [0,1)),
    provided the padded target only holds values in `[-1, clampJ)` -/
theorem deposit_in_row (m : Mode) (V : Vol) (clampJ : Nat) (stale : Int) (v : Vox) (u : Rat)
    (hJ : ∀ q, V.get q < (clampJ : Int)) (hu0 : 0 ≤ u) (hu1 : u < 1) :
    ∀ d ∈ voxDeps m V clampJ stale v u,
      (clampJ : Int) * v.i ≤ d.1 ∧ d.1 < (clampJ : Int) * (v.i + 1) := by
  intro d hd
  by_cases h : inside V v
  swap
  · simp [voxDeps, h] at hd
  have key : ∀ p ∈ appended V v, 0 ≤ p.1 ∧ p.1 < (clampJ : Int) := by
    intro p hp
    obtain ⟨a, _, q, e⟩ := appended_mem hp
    exact ⟨a, e ▸ hJ q⟩
  cases m with
  | pv =>
      simp only [voxDeps, h, if_true, pvDeps, List.mem_map] at hd
      obtain ⟨p, hp, rfl⟩ := hd
      have := key p hp
      constructor <;> simp only <;> nlinarith [this.1, this.2]
  | tri =>
      simp only [voxDeps, h, if_true, triDeps] at hd
      split at hd
      · rename_i hs
        simp only [List.mem_singleton] at hd
        subst hd
        have hb := wmean_bounds (appended V v) ((clampJ : Rat) - 1) (by
          intro p hp
          have := key p hp
          refine ⟨(appended_mem hp).2.1, by exact_mod_cast this.1, ?_⟩
          have h2 : p.1 ≤ (clampJ : Int) - 1 := by omega
          have : (p.1 : Rat) ≤ ((clampJ : Int) - 1 : Int) := by exact_mod_cast h2
          push_cast at this; exact this)
        have hq0 : 0 ≤ wmean (appended V v) / sumW (appended V v) := div_nonneg hb.1 hs.le
        have hq1 : wmean (appended V v) / sumW (appended V v) ≤ (((clampJ : Int) - 1 : Int) : Rat) := by
          rw [div_le_iff₀ hs]; push_cast; exact hb.2
        obtain ⟨r0, r1⟩ := uround_bounds hq0 hq1
        constructor <;> simp only <;> nlinarith
      · simp at hd
  | rand =>
      by_cases hs : sumW (appended V v) > 0
      · obtain ⟨j, w, mj, _, e⟩ := rand_picks_neighbour V clampJ stale v u h hs hu0 hu1
        rw [e] at hd
        simp only [List.mem_singleton] at hd
        subst hd
        have := key (j, w) mj
        constructor <;> simp only <;> nlinarith [this.1, this.2]
      · simp [voxDeps, h, randDeps, hs] at hd

/-- hence, for source intensities in `[0, clampI)`, every flat index is inside `[0, clampI*clampJ)` -/
theorem deposit_in_histogram (m : Mode) (V : Vol) (clampI clampJ : Nat) (stale : Int) (v : Vox) (u : Rat)
    (hI : v.i < (clampI : Int)) (hJ : ∀ q, V.get q < (clampJ : Int)) (hu0 : 0 ≤ u) (hu1 : u < 1) :
    ∀ d ∈ voxDeps m V clampJ stale v u, 0 ≤ d.1 ∧ d.1 < ((clampI * clampJ : Nat) : Int) := by
  intro d hd
  obtain ⟨a, b⟩ := deposit_in_row m V clampJ stale v u hJ hu0 hu1 d hd
  have hi : 0 ≤ v.i := by
    by_cases h : inside V v
    · exact h.1
    · simp [voxDeps, h] at hd
  have h1 : v.i + 1 ≤ (clampI : Int) := by omega
  push_cast
  constructor
  · nlinarith
  · nlinarith [mul_le_mul_of_nonneg_left h1 (Int.natCast_nonneg clampJ)]

/-- mass is never lost, created or written outside: when every deposit is inside the histogram, the
    histogram's total is exactly the total deposited mass -/
theorem hist_total_mass (n : Nat) (ds : List Dep) (h : ∀ d ∈ ds, 0 ≤ d.1 ∧ d.1 < (n : Int)) :
    (hist n ds).sum = mass ds := hist_sum n ds h

/-! ## Neighbour reads stay inside the padded image; integer coordinates; PRNG -/

/-- the inside test makes all eight neighbour reads land inside the padded target image -/
theorem neighbours_in_bounds (V : Vol) (v : Vox) (h : inside V v) :
    ∀ p ∈ neighbours V v, p.1 < V.size := by
  obtain ⟨_, ⟨x0, x1⟩, ⟨y0, y1⟩, ⟨z0, z1⟩⟩ := h
  obtain ⟨ax0, ax1⟩ := nIdx_range x0 x1
  obtain ⟨ay0, ay1⟩ := nIdx_range y0 y1
  obtain ⟨az0, az1⟩ := nIdx_range z0 z1
  obtain ⟨a, ha⟩ := Int.eq_ofNat_of_zero_le ax0
  obtain ⟨b, hb⟩ := Int.eq_ofNat_of_zero_le ay0
  obtain ⟨c, hc⟩ := Int.eq_ofNat_of_zero_le az0
  have ha' : a ≤ V.dx := by omega
  have hb' : b ≤ V.dy := by omega
  have hc' : c ≤ V.dz := by omega
  intro p hp
  have hm := (List.of_mem_zip (a := p.1) (b := p.2) hp).1
  rw [List.mem_map] at hm
  obtain ⟨o, ho, e⟩ := hm
  have hoff : (offOf V v).toNat = a * V.u4 + b * V.u2 + c := by
    unfold offOf; rw [ha, hb, hc]; norm_cast
  have ho' : o ≤ V.u4 + V.u2 + 1 := by
    simp only [offsets, List.mem_cons, List.not_mem_nil, or_false] at ho
    rcases ho with rfl | rfl | rfl | rfl | rfl | rfl | rfl | rfl <;> omega
  rw [← e, hoff]
  unfold Vol.size
  have hu4 : V.u4 = V.dy * V.u2 + 2 * V.u2 := by unfold Vol.u4 Vol.u2; ring
  have hu2 : V.u2 = V.dz + 2 := rfl
  have h1 : a * V.u4 ≤ V.dx * V.u4 := Nat.mul_le_mul_right _ ha'
  have h2 : b * V.u2 ≤ V.dy * V.u2 := Nat.mul_le_mul_right _ hb'
  have h3 : (V.dx + 2) * ((V.dy + 2) * (V.dz + 2)) = V.dx * V.u4 + 2 * V.u4 := by
    unfold Vol.u4; ring
  rw [h3]
  omega


/-- integer target coordinates put all the weight on the first neighbour (the voxel itself) -/
theorem integer_coords_weights (V : Vol) (i : Int) (x y z : Nat) :
    (neighbours V ⟨i, x, y, z⟩).map (·.2) = [1, 0, 0, 0, 0, 0, 0, 0] ∧
    (neighbours V ⟨i, x, y, z⟩).head?.map (·.1) = some ((x + 1) * V.u4 + (y + 1) * V.u2 + (z + 1)) := by
  have hn : ∀ n : Nat, nIdx (n : Rat) = (n : Int) + 1 := by
    intro n; unfold nIdx; rw [floorC_eq]; simp
  constructor
  · rw [neighbours_weights]
    simp only [hn]
    push_cast
    simp [weights]
  · have hoff : (offOf V ⟨i, x, y, z⟩).toNat = (x + 1) * V.u4 + (y + 1) * V.u2 + (z + 1) := by
      unfold offOf; simp only [hn]; norm_cast
    unfold neighbours
    rw [hoff]
    simp [offsets, weights]


theorem identity_diagonal_pv (V : Vol) (clampJ : Nat) (stale : Int) (i : Int) (x y z : Nat) (u : Rat)
    (hv : V.get ((x + 1) * V.u4 + (y + 1) * V.u2 + (z + 1)) = i) :
    ∀ d ∈ voxDeps .pv V clampJ stale ⟨i, x, y, z⟩ u, d.2 ≠ 0 → d.1 = i + clampJ * i := by
  intro d hd hne
  by_cases h : inside V ⟨i, x, y, z⟩
  swap
  · simp [voxDeps, h] at hd
  simp only [voxDeps, h, if_true, pvDeps, appended, neighbours_integer, List.mem_map, List.mem_filter,
    List.mem_cons, List.not_mem_nil, or_false] at hd
  obtain ⟨p, ⟨⟨a, ha, rfl⟩, _⟩, rfl⟩ := hd
  rcases ha with rfl | rfl | rfl | rfl | rfl | rfl | rfl | rfl
  · simp [hv]
  all_goals exact absurd rfl hne

/-- identity / integer coordinates, TRI and RAND: the single count goes to bin `(i, j)` where `j`
    is the target value under the voxel — the diagonal bin when source and target agree -/
theorem identity_diagonal_tri_rand (V : Vol) (clampJ : Nat) (stale : Int) (i j : Int) (x y z : Nat) (u : Rat)
    (h : inside V ⟨i, x, y, z⟩) (hj : 0 ≤ j)
    (hv : V.get ((x + 1) * V.u4 + (y + 1) * V.u2 + (z + 1)) = j) (hu1 : u < 1) :
    voxDeps .tri V clampJ stale ⟨i, x, y, z⟩ u = [(j + clampJ * i, 1)] ∧
    voxDeps .rand V clampJ stale ⟨i, x, y, z⟩ u = [(j + clampJ * i, 1)] := by
  obtain ⟨rest, e, s0, m0⟩ := appended_integer V i j x y z hj hv
  have hs : sumW ((j, (1 : Rat)) :: rest) = 1 := by
    have : sumW ((j, (1 : Rat)) :: rest) = 1 + sumW rest := by simp [sumW]
    rw [this, s0]; simp
  have hm : wmean ((j, (1 : Rat)) :: rest) = j := by
    have : wmean ((j, (1 : Rat)) :: rest) = 1 * (j : Rat) + wmean rest := by simp [wmean]
    rw [this, m0]; simp
  constructor
  · simp only [voxDeps, h, if_true, triDeps, e, hs, hm]
    have hr : uround (j : Rat) = j := by
      unfold uround
      rw [truncC_nonneg (by have : (0 : Rat) ≤ j := by exact_mod_cast hj
                            linarith)]
      rw [Int.floor_eq_iff]; constructor <;> push_cast <;> linarith
    simp [hr]
  · simp only [voxDeps, h, if_true, randDeps, e, hs]
    have : pick ((j, (1 : Rat)) :: rest) 0 u = some j := by
      simp [pick, hu1]
    simp [this]

theorem prng_value_range (s : Prng) (h : 0 ≤ s.ix ∧ 0 ≤ s.iy ∧ 0 ≤ s.iz ∧ 0 ≤ s.it) :
    0 ≤ prngValue s ∧ prngValue s < 1 := by
  unfold prngValue
  simp only
  have hW : (0 : Rat) ≤ (s.ix : Rat) / 2147483579 + (s.iy : Rat) / 2147483543
      + (s.iz : Rat) / 2147483423 + (s.it : Rat) / 2147483123 := by
    have a : (0 : Rat) ≤ s.ix := by exact_mod_cast h.1
    have b : (0 : Rat) ≤ s.iy := by exact_mod_cast h.2.1
    have c : (0 : Rat) ≤ s.iz := by exact_mod_cast h.2.2.1
    have d : (0 : Rat) ≤ s.it := by exact_mod_cast h.2.2.2
    positivity
  rw [truncC_nonneg hW]
  constructor
  · linarith [Int.floor_le ((s.ix : Rat) / 2147483579 + (s.iy : Rat) / 2147483543
      + (s.iz : Rat) / 2147483423 + (s.it : Rat) / 2147483123)]
  · linarith [Int.lt_floor_add_one ((s.ix : Rat) / 2147483579 + (s.iy : Rat) / 2147483543
      + (s.iz : Rat) / 2147483423 + (s.it : Rat) / 2147483123)]


/-- one Schrage step keeps a state component in `[0, m)` … for the first multiplier -/
theorem schrage_range (x : Int) (h0 : 0 ≤ x) (h1 : x < 2147483579) :
    0 ≤ schrage 11600 185127 10379 2147483579 x ∧ schrage 11600 185127 10379 2147483579 x < 2147483579 := by
  unfold schrage
  simp only
  have := Int.emod_nonneg x (by norm_num : (185127 : Int) ≠ 0)
  have := Int.emod_lt_of_pos x (by norm_num : (0 : Int) < 185127)
  have := Int.ediv_nonneg h0 (by norm_num : (0 : Int) ≤ 185127)
  have : x / 185127 ≤ 11600 := by omega
  split <;> omega

/-! ## `L1_moments`, correlation coefficient, correlation ratio -/

/-- `L1_moments` returns the total mass, the weighted median index (least index whose cumulative
    mass reaches half the total) and the mean absolute deviation about it -/
theorem l1_moments_spec (h : List Rat) (hpos : 0 < h.sum) :
    (l1Moments h).1 = h.sum ∧
    ∃ m : Nat, (l1Moments h).2.1 = (m : Rat) ∧ m < h.length ∧
      h.sum / 2 ≤ (h.take (m + 1)).sum ∧
      (∀ k < m, (h.take (k + 1)).sum < h.sum / 2) ∧
      (l1Moments h).2.2 = isum (fun (k : Nat) => |(k : Rat) - (m : Rat)|) 0 h / h.sum :=
  l1Moments_spec_of_pos h hpos

/-- the correlation-coefficient measure is the squared Pearson correlation of the normalised
    histogram (central moments), whenever the `TINY` clamps are inactive -/
theorem cc_is_squared_pearson (H : List (List Rat)) (hn : tiny ≤ total H) :
    let n := total H
    let mI := esum (fun _ (c : Nat) => (c : Rat)) H / n
    let mJ := esum (fun (r : Nat) _ => (r : Rat)) H / n
    let cov := esum (fun (r c : Nat) => ((c : Rat) - mI) * ((r : Rat) - mJ)) H / n
    let vI := esum (fun _ (c : Nat) => ((c : Rat) - mI) ^ 2) H / n
    let vJ := esum (fun (r : Nat) _ => ((r : Rat) - mJ) ^ 2) H / n
    tiny ^ 2 ≤ vI * vJ → (cc H).1 = cov ^ 2 / (vI * vJ) ∧ (cc H).2 = n :=
  cc_textbook H hn

/-- the correlation-ratio measure is `1 − E[Var(I | J)] / Var(I)` (within-row sum of squares about
    the conditional means over the total variance), whenever the `TINY` clamps are inactive -/
theorem cr_is_correlation_ratio (H : List (List Rat)) (w : Nat)
    (hw : ∀ row ∈ H, row.length = w)
    (hnn : ∀ row ∈ H, ∀ x ∈ row, 0 ≤ x)
    (hrow : ∀ row ∈ H, row.sum = 0 ∨ tiny ≤ row.sum)
    (hn : tiny ≤ total H) :
    let n := total H
    let mI := esum (fun _ (c : Nat) => (c : Rat)) H / n
    let vI := esum (fun _ (c : Nat) => ((c : Rat) - mI) ^ 2) H / n
    tiny ≤ vI → (cr H).1 = 1 - (withinSS H / n) / vI ∧ (cr H).2 = n :=
  cr_textbook H w hw hnn hrow hn

/-! ## Non-vacuity -/

/-- a concrete padded 1×1×1 target (value 5 in the middle) -/
def exV : Vol := ⟨1, 1, 1, #[-1,-1,-1,-1,-1,-1,-1,-1,-1,-1,-1,-1,-1,5,-1,-1,-1,-1,-1,-1,-1,-1,-1,-1,-1,-1,-1]⟩

example : inside exV ⟨1, -1/2, -1/4, 0⟩ := by decide +kernel
example : mass (voxDeps .pv exV 6 0 ⟨1, -1/2, -1/4, 0⟩ 0) = 3 / 8 := by decide +kernel
example : voxDeps .tri exV 6 0 ⟨1, -1/2, -1/4, 0⟩ 0 = [(11, 1)] := by decide +kernel
example : voxDeps .rand exV 6 0 ⟨1, -1/2, -1/4, 0⟩ (1/2) = [(11, 1)] := by decide +kernel
example : ∀ q, exV.get q < ((6 : Nat) : Int) := by
  intro q
  by_cases h : q < 27
  · exact (by decide +kernel : ∀ q < 27, exV.get q < ((6 : Nat) : Int)) q h
  · have : exV.get q = -1 := by
      unfold Vol.get exV
      simp [Array.getD, h]
    rw [this]; decide
example : jointHist .pv exV 2 6 0 [⟨1, 0, 0, 0⟩] [] = [0,0,0,0,0,0, 0,0,0,0,0,1] := by decide +kernel
example : inside exV ⟨5, (0 : Nat), (0 : Nat), (0 : Nat)⟩ := by decide +kernel
example : 0 ≤ prngValue (prngStep ⟨194761, 347190, 237036, 85883⟩) := by decide +kernel
example : l1Moments [1, 0, 2, 1] = (4, 2, 3 / 4) := by decide +kernel
example : cc [[2, 1], [1, 2]] = (1 / 9, 6) := by decide +kernel
example : cr [[2, 1], [1, 2]] = (1 / 9, 6) := by decide +kernel

end NipyVerif.C09
