/-
C09 — property theorems about the model in `NipyVerif.Model.C09`
(joint histogram kernel, its PRNG, `L1_moments`, similarity measures).
-/
import NipyVerif.Lemmas.C09

namespace NipyVerif.C09

/-! ## Scalar macros and the eight weights -/

/-- the `FLOOR` macro is the mathematical floor (for every rational, negative ones included) -/
theorem floorC_eq_floor (a : Rat) : floorC a = ⌊a⌋ := floorC_eq a

/-- the kernel's hand-derived weight algebra is the trilinear (partial-volume) product form -/
theorem weights_trilinear (wx wy wz : Rat) :
    weights wx wy wz =
      [wx * wy * wz, wx * wy * (1 - wz), wx * (1 - wy) * wz, wx * (1 - wy) * (1 - wz),
       (1 - wx) * wy * wz, (1 - wx) * wy * (1 - wz), (1 - wx) * (1 - wy) * wz,
       (1 - wx) * (1 - wy) * (1 - wz)] := by
  simp only [weights, List.cons.injEq, and_true]
  and_intros <;> first | trivial | ring

/-- the eight weights always sum to one: nothing is lost or created by the weight algebra -/
theorem weights_sum_one (wx wy wz : Rat) : (weights wx wy wz).sum = 1 := by
  simp only [weights, List.sum_cons, List.sum_nil]; ring

end NipyVerif.C09
