/-
C12 (part R) — the renumbering of `subfield` / `WeightedGraph.subgraph` used by
`custom_watershed`, `local_maxima` and `threshold_bifurcations`: `renumb` (`cumsum(valid)`) is an
order isomorphism from the retained vertices onto `0..n-1`, the sub-graph is the induced graph, and
the labels computed on the sub-field are written back to the right original vertices.
-/
import NipyVerif.Lemmas.C12R

namespace NipyVerif.C12

/-- **`renumb` is an order isomorphism onto the retained vertices**: strictly increasing on them,
    with inverse `k ↦ retained[k]` (the `k`-th retained vertex), both ways. -/
theorem subfield_renumbering_is_order_isomorphism (valid : Nat → Bool) (V : Nat) :
    (∀ a b, a < b → valid a = true → renumb valid a < renumb valid b) ∧
      (∀ v < V, valid v = true →
        renumb valid v < renumb valid V ∧ (retained V valid).getD (renumb valid v) 0 = v) ∧
      (∀ k < renumb valid V,
        (retained V valid).getD k 0 < V ∧ valid ((retained V valid).getD k 0) = true ∧
          renumb valid ((retained V valid).getD k 0) = k) ∧
      (retained V valid).length = renumb valid V :=
  ⟨fun _ _ h ha => renumb_strict valid h ha,
    fun _ hv hval => ⟨renumb_lt valid hv hval, retained_getD_renumb valid V hv hval⟩,
    fun _ hk => retained_spec valid V hk, retained_length V valid⟩

/-- **The sub-graph is the induced graph** on the retained vertices, renumbered: an edge joins the
    new indices of two retained vertices iff it joined the vertices, and the sub-field column reads
    the old column at the old vertex. -/
theorem subgraph_is_induced_graph (g : Graph) (valid : Nat → Bool) (col : List Rat) (a b : Nat)
    (ha : a < g.V) (hva : valid a = true) (hvb : valid b = true) :
    ((subgraph g valid).adj (renumb valid a) (renumb valid b) = true ↔ g.adj a b = true) ∧
      at_ (subcol g.V valid col) (renumb valid a) = at_ col a :=
  ⟨subgraph_adj_iff g valid hva hvb, at_subcol valid g.V col ha hva⟩

/-- every edge of the sub-graph is the image of an edge between retained vertices; a symmetric graph
    has symmetric sub-graphs -/
theorem subgraph_edges_come_from_retained (g : Graph) (hv : g.Valid) (valid : Nat → Bool) :
    (∀ i j, (subgraph g valid).adj i j = true →
      ∃ a b, a < g.V ∧ b < g.V ∧ valid a = true ∧ valid b = true ∧ renumb valid a = i ∧
        renumb valid b = j ∧ g.adj a b = true) ∧
      (g.Symm → (subgraph g valid).Symm) :=
  ⟨fun _ _ h => subgraph_adj_elim g hv valid h, fun hs => subgraph_symm g hv hs valid⟩

/-- **`custom_watershed` writes back to the right vertices**: the label of an above-threshold vertex
    `v` is the basin label its new index got in the sub-field, below-threshold vertices get `-1`, and
    `idx[c]` is the ORIGINAL vertex whose new index is the root of basin `c`. -/
theorem watershed_written_back (g : Graph) (col : List Rat) (th : Rat) (v : Nat) (hv : v < g.V) :
    let valid := fun u => decide (th ≤ at_ col u)
    let sg := subgraph g valid
    let sc := subcol g.V valid col
    ((watershed g col th).2.getD v 0 =
        if valid v then (basinLabel sg sc (renumb valid v) : Int) else -1) ∧
      (watershed g col th).1 = (basinRoots sg sc).map (fun r => (retained g.V valid).getD r 0) ∧
      ∀ r < sg.V, renumb valid ((retained g.V valid).getD r 0) = r := by
  intro valid sg sc
  refine ⟨?_, rfl, fun r hr => (retained_spec valid g.V hr).2.2⟩
  simp only [watershed, List.getD_eq_getElem?_getD, List.getElem?_map, List.getElem?_range hv,
    Option.map_some, Option.getD_some]
  rfl

/-- **`threshold_bifurcations` writes back to the right vertices** -/
theorem bifurcations_written_back (g : Graph) (col : List Rat) (th : Rat) (order idx par : List Nat)
    (label : List Int) (h : bifurcations g col th order = some (idx, par, label))
    (hne : (subgraph g (fun v => decide (th ≤ at_ col v))).V ≠ 0) (v : Nat) (hv : v < g.V) :
    let valid := fun u => decide (th ≤ at_ col u)
    label.getD v 0 =
      if valid v then (bifSweep (subRows (subgraph g valid)) order).llabel (renumb valid v) else -1 := by
  intro valid
  obtain ⟨_, _, hlabel, _⟩ := bifurcations_unfold h hne
  rw [hlabel]
  simp only [List.getD_eq_getElem?_getD, List.getElem?_map, List.getElem?_range hv, Option.map_some,
    Option.getD_some]
  rfl

/-- **Basins are numbered by their first vertex** (the numbering `lil_cc` / `cc()` gives to the
    components of the ascent graph): the label of `u` is smaller than the label of `v` exactly when
    the smallest vertex of `u`'s basin is smaller than the smallest vertex of `v`'s basin — so label
    `0` is the basin of vertex `0`, label `1` the basin of the first vertex outside it, and so on. -/
theorem basin_labels_ordered_by_first_vertex (g : Graph) (col : List Rat) (u v : Nat) (hu : u < g.V)
    (hv : v < g.V) :
    basinLabel g col u < basinLabel g col v ↔
      basinMin g col (basinRoot g col u) < basinMin g col (basinRoot g col v) := by
  -- F: the first vertices of the basins, in increasing order
  obtain ⟨F, hF⟩ : ∃ F, F = (List.range g.V).filter
      (fun w => basinMin g col (basinRoot g col w) == w) := ⟨_, rfl⟩
  have hroots : basinRoots g col = F.map (basinRoot g col) := by rw [hF]; rfl
  have hsorted : F.Pairwise (· < ·) := by
    rw [hF]; exact List.Pairwise.sublist List.filter_sublist List.pairwise_lt_range
  have hFmem : ∀ w, w ∈ F ↔ w < g.V ∧ basinMin g col (basinRoot g col w) = w := by
    intro w; rw [hF]; simp [List.mem_filter]
  have hinj : ∀ x ∈ F, ∀ y ∈ F, basinRoot g col x = basinRoot g col y → x = y := by
    intro x hx y hy hxy
    rw [← ((hFmem x).1 hx).2, ← ((hFmem y).1 hy).2, hxy]
  have hfirst : ∀ w < g.V, basinMin g col (basinRoot g col w) ∈ F ∧
      basinLabel g col w = F.idxOf (basinMin g col (basinRoot g col w)) := by
    intro w hw
    obtain ⟨h1, h2, _⟩ := basinMin_spec g col w hw
    have hm : basinMin g col (basinRoot g col w) ∈ F := (hFmem _).2 ⟨h1, by rw [h2]⟩
    refine ⟨hm, ?_⟩
    unfold basinLabel
    rw [hroots, ← h2]
    rw [idxOf_map_injOn (basinRoot g col) F _ hm hinj, h2]
  obtain ⟨hmu, hlu⟩ := hfirst u hu
  obtain ⟨hmv, hlv⟩ := hfirst v hv
  rw [hlu, hlv]
  exact idxOf_lt_iff_of_sorted F hsorted _ _ hmu hmv

/-- non-vacuity: keeping vertices 1, 3, 4 of five -/
example :
    let valid := fun v => decide (v = 1 ∨ v = 3 ∨ v = 4)
    (List.range 5).map (renumb valid) = [0, 0, 1, 1, 2] ∧ retained 5 valid = [1, 3, 4] ∧
      renumb valid 5 = 3 := by
  decide +kernel

end NipyVerif.C12
