/-
C09 — property theorems about data preparation in `NipyVerif.Model.C09`:
`clamp` (intensities → bin indices, masked items → −1) and the field-of-view slicer.
-/
import NipyVerif.Lemmas.C09D
import NipyVerif.Model.C09Opt
import Mathlib.Data.List.Sort
import Mathlib.Data.List.Perm.Basic

namespace NipyVerif.C09

/-! ## `clamp` -/

/-- `_clamp` applies one monotone map to every selected intensity; its values lie in
    `[0, b−1]` where `b` is the adjusted number of bins, and `1 ≤ b ≤ bins` — so clamped
    intensities always index a row/column of the `b`-bin histogram (`clamp_range`) and the order of
    intensities is preserved (`clamp_monotone`) -/
theorem clampCore_spec (isInt : Bool) (x : List Rat) (bins : Int) (ys : List Int) (b : Int)
    (hb : 1 ≤ bins) (h : clampCore isInt x bins = .ok (ys, b)) :
    ∃ g : Rat → Int, Monotone g ∧ ys = x.map g ∧ (∀ a ∈ x, 0 ≤ g a ∧ g a ≤ b - 1) ∧
      1 ≤ b ∧ b ≤ bins := by
  unfold clampCore at h
  simp only at h
  split at h
  · cases h
  split at h
  · cases h
  rename_i hne
  obtain ⟨a0, ha0⟩ := List.exists_mem_of_ne_nil x hne
  have hd0 : 0 ≤ lmax x - lmin x := by linarith [lmin_le x a0 ha0, le_lmax x a0 ha0]
  split at h
  · -- integer data whose range fits: shift only
    rename_i hint
    simp only [Except.ok.injEq, Prod.mk.injEq] at h
    obtain ⟨rfl, rfl⟩ := h
    refine ⟨fun a => (a - lmin x).floor, ?_, rfl, ?_, ?_, ?_⟩
    · intro a c hac
      exact rat_floor_mono (by linarith)
    · intro a ha
      constructor
      · have : (0 : Rat).floor ≤ (a - lmin x).floor := rat_floor_mono (by linarith [lmin_le x a ha])
        have h0 : (0 : Rat).floor = 0 := by decide
        show 0 ≤ (a - lmin x).floor
        omega
      · have : (a - lmin x).floor ≤ (lmax x - lmin x).floor := rat_floor_mono (by linarith [le_lmax x a ha])
        show (a - lmin x).floor ≤ (lmax x - lmin x).floor + 1 - 1
        omega
    · have : (0 : Rat).floor ≤ (lmax x - lmin x).floor := rat_floor_mono hd0
      have h0 : (0 : Rat).floor = 0 := by decide
      omega
    · have h1 : (lmax x - lmin x).floor ≤ (((bins - 1 : Int)) : Rat).floor := rat_floor_mono hint.2
      have h2 : (((bins - 1 : Int)) : Rat).floor = bins - 1 := by
        rw [rat_floor_eq]; exact Int.floor_intCast _
      omega
  · split at h
    · cases h
    · rename_i hdz
      simp only [Except.ok.injEq, Prod.mk.injEq] at h
      obtain ⟨rfl, rfl⟩ := h
      have hdpos : 0 < lmax x - lmin x := lt_of_le_of_ne hd0 (Ne.symm hdz)
      have hdm : (0 : Rat) ≤ ((bins - 1 : Int) : Rat) := by exact_mod_cast (by omega : 0 ≤ bins - 1)
      have hfac : 0 ≤ ((bins - 1 : Int) : Rat) / (lmax x - lmin x) := div_nonneg hdm hdpos.le
      refine ⟨fun a => roundHalfEven (((bins - 1 : Int) : Rat) / (lmax x - lmin x) * (a - lmin x)), ?_, rfl, ?_,
        hb, le_refl _⟩
      · intro a c hac
        exact roundHalfEven_mono (mul_le_mul_of_nonneg_left (by linarith) hfac)
      · intro a ha
        have h0 : 0 ≤ ((bins - 1 : Int) : Rat) / (lmax x - lmin x) * (a - lmin x) :=
          mul_nonneg hfac (by linarith [lmin_le x a ha])
        have h1 : ((bins - 1 : Int) : Rat) / (lmax x - lmin x) * (a - lmin x) ≤ ((bins - 1 : Int) : Rat) := by
          have : a - lmin x ≤ lmax x - lmin x := by linarith [le_lmax x a ha]
          calc ((bins - 1 : Int) : Rat) / (lmax x - lmin x) * (a - lmin x)
              ≤ ((bins - 1 : Int) : Rat) / (lmax x - lmin x) * (lmax x - lmin x) :=
                mul_le_mul_of_nonneg_left this hfac
            _ = ((bins - 1 : Int) : Rat) := by field_simp
        constructor
        · have := roundHalfEven_mono h0
          rw [show roundHalfEven 0 = 0 from by decide +kernel] at this
          exact this
        · have := roundHalfEven_mono h1
          rw [roundHalfEven_int] at this
          exact this

/-- `clamp` without a mask -/
theorem clamp_range_monotone (isInt : Bool) (x : List Rat) (bins : Int) (ys : List Int) (b : Int)
    (hb : 1 ≤ bins) (h : clamp isInt x bins none = .ok (ys, b)) :
    ∃ g : Rat → Int, Monotone g ∧ ys = x.map g ∧ (∀ a ∈ x, 0 ≤ g a ∧ g a ≤ b - 1) ∧ 1 ≤ b ∧ b ≤ bins := by
  unfold clamp at h
  split at h
  · cases h
  · exact clampCore_spec isInt x bins ys b hb h

/-- `clamp` with a mask: one output per item, masked-out items are `−1`, every other value is the
    image of a selected intensity under one monotone map into `[0, b−1]`, `1 ≤ b ≤ bins` -/
theorem clamp_masked_spec (isInt : Bool) (x : List Rat) (bins : Int) (mk : List Bool)
    (ys : List Int) (b : Int) (hb : 1 ≤ bins) (h : clamp isInt x bins (some mk) = .ok (ys, b)) :
    ys.length = mk.length ∧ (∀ i : Nat, mk[i]? = some false → ys[i]? = some (-1)) ∧
    (∀ y ∈ ys, -1 ≤ y ∧ y ≤ b - 1) ∧ 1 ≤ b ∧ b ≤ bins ∧
    ∃ g : Rat → Int, Monotone g ∧
      ys = clamp.fill mk ((((List.zip x mk).filter (·.2)).map (·.1)).map g) := by
  unfold clamp at h
  split at h
  · cases h
  simp only at h
  split at h
  · cases h
  · rename_i zs b' hcore
    simp only [Except.ok.injEq, Prod.mk.injEq] at h
    obtain ⟨rfl, rfl⟩ := h
    obtain ⟨g, hg, rfl, hr, h1, h2⟩ := clampCore_spec isInt _ bins zs b' hb hcore
    refine ⟨fill_length _ _, fun i hi => fill_masked _ _ i hi, ?_, h1, h2, g, hg, rfl⟩
    intro y hy
    rcases fill_mem _ _ y hy with rfl | hy
    · omega
    · obtain ⟨a, ha, rfl⟩ := List.mem_map.mp hy
      have := hr a ha
      omega

/-- too many bins for a signed short are refused -/
theorem clamp_refuses_excess_bins (isInt : Bool) (x : List Rat) (bins : Int) (mask : Option (List Bool))
    (h : 32767 < bins) : clamp isInt x bins mask = .error .valueError := by
  unfold clamp
  simp [h]

example : clamp true [3, 5, 4, 9] 16 none = .ok ([0, 2, 1, 6], 7) := by decide +kernel
example : clamp false [0, 1 / 2, 1] 3 (some [true, false, true]) = .ok ([0, -1, 2], 3) := by decide +kernel

/-! ## Field of view: `_slicer(corner, size, spacing)` -/

/-- exactly the in-range indices `corner, corner+spacing, …` below `corner+size` -/
theorem fov_slices_in_bounds (dim corner size spacing k : Nat) :
    k ∈ sliceIdx dim corner size spacing ↔
      k < dim ∧ corner ≤ k ∧ k < size + corner ∧ (k - corner) % spacing = 0 := by
  simp [sliceIdx, List.mem_filter, List.mem_range]

theorem sliceIdx_increasing (dim corner size spacing : Nat) :
    (sliceIdx dim corner size spacing).Pairwise (· < ·) := by
  unfold sliceIdx
  exact List.Pairwise.filter _ List.pairwise_lt_range

/-- number of sampled positions along an axis: `⌈(min(dim, corner+size) − corner) / spacing⌉`, and
    they are `corner + t·spacing` -/
theorem subsample_count (dim corner size spacing : Nat) (hs : 0 < spacing) :
    sliceIdx dim corner size spacing =
      (List.range ((min dim (size + corner) - corner + spacing - 1) / spacing)).map
        (fun t => corner + t * spacing) := by
  refine List.Perm.eq_of_pairwise (le := (· < ·)) (fun a b _ _ h1 h2 => absurd h1 (Nat.lt_asymm h2)) ?_ ?_ ?_
  rotate_left 2
  · apply (List.perm_ext_iff_of_nodup (sliceIdx_increasing dim corner size spacing).nodup ?_).mpr
    · intro k
      rw [fov_slices_in_bounds]
      simp only [List.mem_map, List.mem_range, ceil_div_lt _ _ _ hs]
      constructor
      · rintro ⟨h1, h2, h3, h4⟩
        refine ⟨(k - corner) / spacing, ?_, ?_⟩
        · rw [Nat.div_mul_cancel (Nat.dvd_of_mod_eq_zero h4)]
          omega
        · rw [Nat.div_mul_cancel (Nat.dvd_of_mod_eq_zero h4)]
          omega
      · rintro ⟨t, ht, rfl⟩
        refine ⟨by omega, by omega, by omega, ?_⟩
        simp
    · apply List.Nodup.map_on _ List.nodup_range
      intro a _ c _ hac
      have : a * spacing = c * spacing := by omega
      exact Nat.eq_of_mul_eq_mul_right hs this
  · exact sliceIdx_increasing dim corner size spacing
  · apply List.Pairwise.map (R := (· < ·)) _ _ List.pairwise_lt_range
    intro a c hac
    have : a * spacing < c * spacing := Nat.mul_lt_mul_of_pos_right hac hs
    omega

example : sliceIdx 7 1 5 2 = [1, 3, 5] := by decide

/-! ## `ideal_spacing` -/

theorem idealSpacingLoop_exit (d0 d1 d2 : Nat) (nonneg : Array Bool) (npoints : Int) :
    ∀ (fuel : Nat) (s r : Nat × Nat × Nat), 1 ≤ s.1 ∧ 1 ≤ s.2.1 ∧ 1 ≤ s.2.2 →
      idealSpacingLoop d0 d1 d2 nonneg npoints fuel s = some r →
      (subCount d0 d1 d2 nonneg r.1 r.2.1 r.2.2 : Int) ≤ npoints ∧
        s.1 ≤ r.1 ∧ s.2.1 ≤ r.2.1 ∧ s.2.2 ≤ r.2.2 := by
  intro fuel
  induction fuel with
  | zero => intro s r _ h; simp [idealSpacingLoop] at h
  | succ n ih =>
      intro s r hs h
      obtain ⟨s0, s1, s2⟩ := s
      simp only [idealSpacingLoop] at h
      split at h
      · split at h
        · have := ih (s0 + 1, s1, s2) r ⟨by simp, hs.2.1, hs.2.2⟩ h
          exact ⟨this.1, by have := this.2.1; simp at this ⊢; omega, this.2.2.1, this.2.2.2⟩
        · have := ih (s0, s1 + 1, s2) r ⟨hs.1, by simp, hs.2.2⟩ h
          exact ⟨this.1, this.2.1, by have := this.2.2.1; simp at this ⊢; omega, this.2.2.2⟩
        · have := ih (s0, s1, s2 + 1) r ⟨hs.1, hs.2.1, by simp⟩ h
          exact ⟨this.1, this.2.1, this.2.2.1, by have := this.2.2.2; simp at this ⊢; omega⟩
      · rename_i hle
        simp only [Option.some.injEq] at h
        subst h
        exact ⟨not_lt.mp hle, le_refl _, le_refl _, le_refl _⟩

/-- `subsample_to_npoints` (partial): whenever `ideal_spacing` returns, the sub-sampled block has at
    most `npoints` non-negative voxels and every spacing factor is at least 1.  Missing: that the
    loop always exits within `d0+d1+d2+2` passes when `npoints ≥ 1` (for `npoints < 1` and a
    non-negative corner voxel the Python loop does not terminate at all). -/
theorem ideal_spacing_count_partial (d0 d1 d2 : Nat) (nonneg : Array Bool) (npoints : Int)
    (r : Nat × Nat × Nat) (h : idealSpacing d0 d1 d2 nonneg npoints = some r) :
    (subCount d0 d1 d2 nonneg r.1 r.2.1 r.2.2 : Int) ≤ npoints ∧ 1 ≤ r.1 ∧ 1 ≤ r.2.1 ∧ 1 ≤ r.2.2 := by
  have := idealSpacingLoop_exit d0 d1 d2 nonneg npoints _ (1, 1, 1) r ⟨le_refl _, le_refl _, le_refl _⟩ h
  exact ⟨this.1, this.2.1, this.2.2.1, this.2.2.2⟩

/-- a block that already has at most `npoints` voxels is not subsampled -/
theorem ideal_spacing_noop (d0 d1 d2 : Nat) (nonneg : Array Bool) (npoints : Int)
    (h : (subCount d0 d1 d2 nonneg 1 1 1 : Int) ≤ npoints) :
    idealSpacing d0 d1 d2 nonneg npoints = some (1, 1, 1) := by
  unfold idealSpacing
  simp [idealSpacingLoop, not_lt.mpr h]

example : idealSpacing 2 1 1 #[true, false] 5 = some (1, 1, 1) :=
  ideal_spacing_noop 2 1 1 #[true, false] 5 (by decide +kernel)

end NipyVerif.C09
