/-
C09 — property theorems about the optimisation layer (`NipyVerif.Model.C09Opt`):
"optimisation returns a transform whose similarity is not lower than that of the starting
transform".  The objective, the gradient direction and the 1-D minimiser are arbitrary.
-/
import NipyVerif.Lemmas.C09O
import Mathlib.Tactic.Ring
import Mathlib.Tactic.Linarith
import Mathlib.Tactic.FieldSimp
import Mathlib.Algebra.BigOperators.Group.List.Basic

namespace NipyVerif.C09

/-! ## The stopping rule -/

/-- when the loop goes on after a pass (the relative-decrease test fails, `ftol ≥ 0`), the accepted
    value is strictly below the previous one -/
theorem continue_strict_decrease (ftol fval0 fval : Rat) (hf : 0 ≤ ftol)
    (h : stopTest ftol fval0 fval = false) : fval < fval0 := by
  unfold stopTest at h
  have h' : ¬ (Src.steepFactor * (fval0 - fval) ≤ ftol * (absR fval0 + absR fval) + Src.steepSlack) := by
    simpa using h
  have h1 := mul_nonneg hf (add_nonneg (absR_nonneg fval0) (absR_nonneg fval))
  have h2 := steepSlack_pos
  have h3 := steepFactor_pos
  by_contra hc
  have h4 : Src.steepFactor * (fval0 - fval) ≤ 0 :=
    mul_nonpos_of_nonneg_of_nonpos h3.le (by linarith [not_lt.mp hc])
  exact h' (by linarith)

/-- no progress at all always stops the loop (`fval = fval0`, `ftol ≥ 0`) -/
theorem stop_when_no_progress (ftol fval0 : Rat) (hf : 0 ≤ ftol) : stopTest ftol fval0 fval0 = true := by
  unfold stopTest
  have h1 := mul_nonneg hf (add_nonneg (absR_nonneg fval0) (absR_nonneg fval0))
  have h2 := steepSlack_pos
  simp only [sub_self, mul_zero, decide_eq_true_eq]
  linarith

/-! ## `fmin_steepest` never returns something worse than the start -/

/-- **steepest descent is monotone**: for every objective, gradient routine, `maxiter`, `ftol`
    and every line search with `f(x + α·d) ≤ f(x)`, the point `fmin_steepest` returns is not worse
    than the starting point, and the value it tracked is the objective there -/
theorem steepest_not_worse {X : Type} (E : Env X) (x0 : X) (maxiter : Nat) (ftol : Rat)
    (h : LineSearchOK E) :
    E.f (fminSteepest E x0 maxiter ftol).x ≤ E.f x0 ∧
    (fminSteepest E x0 maxiter ftol).fval = E.f (fminSteepest E x0 maxiter ftol).x := by
  have := steepLoop_invariant E ftol h maxiter ⟨x0, E.f x0, 0, []⟩ rfl
  exact ⟨by unfold fminSteepest; rw [← this.1]; exact this.2, this.1⟩

/-- the tracked value alone: it suffices that the line search never returns a value above the
    tracked one (this is what the recorded floats of a real run can be checked for exactly) -/
theorem steepest_fval_nonincreasing {X : Type} (E : Env X) (ftol : Rat)
    (h : ∀ x d, E.dir x = some d → (E.ls x d).1 ≤ E.f x)
    (hc : ∀ x d, E.dir x = some d → E.f (E.ls x d).2 = (E.ls x d).1)
    (x0 : X) (maxiter : Nat) : (fminSteepest E x0 maxiter ftol).fval ≤ E.f x0 :=
  (steepLoop_invariant E ftol (fun x d hd => ⟨h x d hd, hc x d hd⟩) maxiter ⟨x0, E.f x0, 0, []⟩ rfl).2

/-- the hypothesis is needed: a line search that returns a probe without comparing it with
    `α = 0` (bounded minimisers do that) makes the very first pass from an optimum go uphill -/
def uphillEnv : Env Rat := ⟨fun x => x * x, fun _ => some 1, fun x _ => ((x + 1 / 8) * (x + 1 / 8), x + 1 / 8)⟩

example : ¬ (uphillEnv.f (fminSteepest uphillEnv 0 5 0).x ≤ uphillEnv.f 0) := by decide +kernel
example : ¬ LineSearchOK uphillEnv := fun h => by
  have := (h 0 1 rfl).1
  revert this; decide +kernel

/-! ## Exits and counters -/

/-- at most `maxiter` passes are made, and the callback is called at most once per pass -/
theorem steepest_iterations (E : Env X) (x0 : X) (maxiter : Nat) (ftol : Rat) :
    (fminSteepest E x0 maxiter ftol).it ≤ maxiter ∧
    (fminSteepest E x0 maxiter ftol).calls.length ≤ (fminSteepest E x0 maxiter ftol).it := by
  have := steepLoop_counters E ftol maxiter ⟨x0, E.f x0, 0, []⟩ (by simp)
  exact ⟨by have := this.1; simpa [fminSteepest] using this, this.2⟩

/-- `maxiter = 0`, or a vanishing gradient at the start: the start is returned untouched and the
    callback is never called -/
theorem steepest_returns_start (E : Env X) (x0 : X) (maxiter : Nat) (ftol : Rat)
    (h : maxiter = 0 ∨ E.dir x0 = none) :
    (fminSteepest E x0 maxiter ftol).x = x0 ∧ (fminSteepest E x0 maxiter ftol).calls = [] := by
  unfold fminSteepest
  cases maxiter with
  | zero => exact ⟨rfl, rfl⟩
  | succ n =>
      rcases h with h | h
      · exact absurd h (Nat.succ_ne_zero n)
      · simp [steepLoop, h]

/-- `fmin_steepest` returns either the start (no callback made) or the last callback argument -/
theorem steepest_returns_last_callback (E : Env X) (x0 : X) (maxiter : Nat) (ftol : Rat) :
    ((fminSteepest E x0 maxiter ftol).calls = [] ∧ (fminSteepest E x0 maxiter ftol).x = x0) ∨
    (fminSteepest E x0 maxiter ftol).calls.head? = some (fminSteepest E x0 maxiter ftol).x :=
  steepLoop_last_call E ftol maxiter ⟨x0, E.f x0, 0, []⟩ (Or.inl rfl)

/-! ## `_linesearch_brent` and why unbounded Brent satisfies the hypothesis -/

/-- contract of the 1-D minimiser: it returns `(α, g α)` with `g α ≤ g 0` -/
def BrentOK (brent : (Rat → Rat) → Rat × Rat) : Prop :=
  ∀ g, (brent g).2 = g (brent g).1 ∧ (brent g).2 ≤ g 0

/-- `_linesearch_brent` as written turns that contract into the one the loop needs -/
theorem linesearch_brent_ok (brent : (Rat → Rat) → Rat × Rat) (hb : BrentOK brent)
    (func : List Rat → Rat) (p xi : List Rat) (hl : p.length ≤ xi.length) :
    (linesearchBrent brent func p xi).1 ≤ func p ∧
    func (linesearchBrent brent func p xi).2 = (linesearchBrent brent func p xi).1 := by
  obtain ⟨h1, h2⟩ := hb (fun alpha => func (axpy alpha xi p))
  simp only [axpy_zero xi p hl] at h2
  exact ⟨h2, h1.symm⟩

/-- the `except RuntimeError` branch (no bracket found: stay at `p`) meets the contract trivially -/
theorem linesearch_fallback_ok (func : List Rat → Rat) (p : List Rat) :
    (linesearchFallback func p).1 ≤ func p ∧ func (linesearchFallback func p).2 = (linesearchFallback func p).1 :=
  ⟨le_refl _, rfl⟩

theorem bestProbe_from_zero_ok (probes : (Rat → Rat) → List Rat) :
    BrentOK (fun g => bestProbe g 0 (probes g)) := fun g =>
  ⟨(bestProbe_spec g (probes g) 0).1, (bestProbe_spec g (probes g) 0).2.1⟩

/-- steepest descent over parameter vectors with `_linesearch_brent` as written and any 1-D
    minimiser satisfying the contract (directions have the dimension of the point) -/
def vecEnv (func : List Rat → Rat) (dir : List Rat → Option (List Rat))
    (brent : (Rat → Rat) → Rat × Rat) : Env (List Rat) :=
  ⟨func, dir, fun x d => linesearchBrent brent func x d⟩

theorem steepest_brent_not_worse (func : List Rat → Rat) (dir : List Rat → Option (List Rat))
    (brent : (Rat → Rat) → Rat × Rat) (hb : BrentOK brent)
    (hd : ∀ x d, dir x = some d → d.length = x.length)
    (x0 : List Rat) (maxiter : Nat) (ftol : Rat) :
    func (fminSteepest (vecEnv func dir brent) x0 maxiter ftol).x ≤ func x0 :=
  (steepest_not_worse (vecEnv func dir brent) x0 maxiter ftol (fun x d h =>
    linesearch_brent_ok brent hb func x d (by rw [hd x d h]))).1

/-! ## `HistogramRegistration.optimize` -/

/-- contract assumed of a SciPy optimiser (`fmin_powell`, `fmin`, `fmin_cg`, `fmin_bfgs`): the
    returned point is not worse than the starting point, for the cost function it was given -/
def MonotoneOptimizer {X : Type} (fmin : (X → Rat) → X → X) : Prop :=
  ∀ (cost : X → Rat) (x0 : X), cost (fmin cost x0) ≤ cost x0

/-- the wrapper: the cost is the negated similarity and the transform carrying the returned
    parameters is what comes back, so a monotone optimiser never lowers the similarity -/
theorem optimize_not_worse {X : Type} (similarity : X → Rat) (fmin : (X → Rat) → X → X)
    (h : MonotoneOptimizer fmin) (tc0 : X) :
    similarity tc0 ≤ similarity (optimizeWrapper similarity fmin tc0) := by
  have := h (fun tc => - similarity tc) tc0
  unfold optimizeWrapper
  linarith

/-- contract of a SciPy optimiser when the cost may be `+∞` (non-finite parameter vectors) -/
def MonotoneOptimizerG {X : Type} (fmin : (X → Option Rat) → X → X) : Prop :=
  ∀ (cost : X → Option Rat) (x0 : X), costLe (cost (fmin cost x0)) (cost x0)

/-- the wrapper with its guard against non-finite points: whatever the optimiser does, the returned
    parameter vector is finite (a transform) when the initial guess is; and with a monotone optimiser the
    similarity is not lowered -/
theorem optimize_guarded_returns_transform {X : Type} (finite : X → Bool) (similarity : X → Rat)
    (fmin : (X → Option Rat) → X → X) (tc0 : X) (h0 : finite tc0 = true) :
    finite (optimizeWrapperG finite similarity fmin tc0) = true := by
  unfold optimizeWrapperG
  simp only
  split <;> simp_all

theorem optimize_guarded_not_worse {X : Type} (finite : X → Bool) (similarity : X → Rat)
    (fmin : (X → Option Rat) → X → X) (h : MonotoneOptimizerG fmin) (tc0 : X) (h0 : finite tc0 = true) :
    similarity tc0 ≤ similarity (optimizeWrapperG finite similarity fmin tc0) := by
  have hm := h (fun tc => if finite tc then some (- similarity tc) else none) tc0
  unfold optimizeWrapperG
  simp only
  split
  · rename_i hf
    simp only [hf, h0, if_true, costLe] at hm
    linarith
  · exact le_refl _

/-- with every point finite the guarded wrapper is the plain one -/
theorem optimize_guarded_eq_plain {X : Type} (similarity : X → Rat) (fmin : (X → Rat) → X → X) (tc0 : X) :
    optimizeWrapperG (fun _ => true) similarity (fun cost x0 => fmin (fun x => (cost x).getD 0) x0) tc0 =
      optimizeWrapper similarity fmin tc0 := by
  simp [optimizeWrapperG, optimizeWrapper]

/-- the guard matters: an optimiser that answers a non-finite point on a flat cost (what `fmin_powell`
    does) makes the unguarded wrapper return that point, the guarded one the initial guess -/
example : optimizeWrapperG (fun (x : Option Rat) => x.isSome) (fun _ => 0) (fun _ _ => none) (some 1) = some 1 := by
  decide

/-- `optimizer='steepest'`: no assumption on SciPy's multivariate optimisers is needed, only the
    contract of the 1-D minimiser -/
theorem optimize_steepest_not_worse (similarity : List Rat → Rat)
    (dir : (List Rat → Rat) → List Rat → Option (List Rat))
    (brent : (Rat → Rat) → Rat × Rat) (hb : BrentOK brent)
    (hd : ∀ cost x d, dir cost x = some d → d.length = x.length)
    (maxiter : Nat) (ftol : Rat) (tc0 : List Rat) :
    similarity tc0 ≤ similarity (optimizeWrapper similarity
      (fun cost x0 => (fminSteepest (vecEnv cost (dir cost) brent) x0 maxiter ftol).x) tc0) :=
  optimize_not_worse similarity _ (fun cost x0 =>
    steepest_brent_not_worse cost (dir cost) brent hb (hd cost) x0 maxiter ftol) tc0

/-- the contract is satisfiable: the optimiser that returns its start, and steepest descent with
    a best-of-probes minimiser started at `α = 0` -/
example : MonotoneOptimizer (fun (_ : Rat → Rat) (x0 : Rat) => x0) := fun _ _ => le_refl _
example : BrentOK (fun g => bestProbe g 0 [1, -1, 1 / 2]) := bestProbe_from_zero_ok (fun _ => [1, -1, 1 / 2])

/-! ## The recorded run (what the driver replays) -/

/-- for the loop replayed on a recorded run: if on every pass the line search returned a value not
    above the tracked one, the value at exit is not above the value at the start -/
theorem trace_not_worse (f0 : Rat) (x0 : List Rat) (steps : Array Step) (maxiter : Nat) (ftol : Rat)
    (h : certMono f0 steps = true) : (runTrace f0 x0 steps maxiter ftol).fval ≤ f0 := by
  have := steepest_not_worse (traceEnv f0 steps) (0, x0) maxiter ftol (traceEnv_ok f0 steps h)
  unfold runTrace
  rw [this.2]
  have h0 : (traceEnv f0 steps).f (0, x0) = f0 := by simp [traceEnv, fvAt]
  rw [← h0]
  exact this.1

/-- the probe certificate (first probe is the current point with the tracked value, the returned
    pair is a probe, not above the first probe) implies the monotonicity certificate -/
theorem probes_imply_mono (f0 : Rat) (x0 : List Rat) (steps : Array Step)
    (h : certProbes f0 x0 steps = true) : certMono f0 steps = true := by
  simp only [certProbes, certMono, List.all_eq_true, List.mem_range] at h ⊢
  intro k hk
  have := h k hk
  generalize steps.getD k default = st at this ⊢
  cases hh : st.hasDir with
  | false => simp
  | true =>
      simp only [hh, Bool.not_true, Bool.false_or] at this ⊢
      cases hp : st.probes.head? with
      | none => simp [hp] at this
      | some p =>
          simp only [hp, Bool.and_eq_true, beq_iff_eq, decide_eq_true_eq] at this
          obtain ⟨⟨⟨_, h2⟩, _⟩, h4⟩ := this
          rw [h2] at h4
          simpa using h4

/-! ## Finite differences (`approx_gradient`, `approx_hessian_diag`, `approx_hessian`), `explore` -/

theorem approxGradient_length (f : List Rat → Rat) (x : List Rat) (eps : Rat) :
    (approxGradient f x eps).length = x.length := by simp [approxGradient]

theorem approxHessian_shape (f : List Rat → Rat) (x : List Rat) (eps : Rat) :
    (approxHessian f x eps).length = x.length ∧ ∀ row ∈ approxHessian f x eps, row.length = x.length := by
  constructor
  · simp [approxHessian]
  · intro row hr
    simp only [approxHessian, List.mem_map, List.mem_range] at hr
    obtain ⟨i, _, rfl⟩ := hr
    simp [approxGradient, bump]

/-- central differences are exact on objectives that are quadratic along the coordinate line:
    if `f(x + d·eᵢ) = a·d² + b·d + f(x)` for all `d`, component `i` of `approx_gradient` is `b`
    (the partial derivative), for every step `ε ≠ 0` -/
theorem approxGradient_quadratic (f : List Rat → Rat) (x : List Rat) (eps : Rat) (heps : eps ≠ 0)
    (i : Nat) (hi : i < x.length) (a b : Rat)
    (hq : ∀ d, f (bump x i d) = a * d ^ 2 + b * d + f x) :
    (approxGradient f x eps)[i]? = some b := by
  simp only [approxGradient, List.getElem?_map, List.getElem?_range hi, Option.map_some, hq]
  congr 1
  field_simp
  ring

/-- … and component `i` of `approx_hessian_diag` is `2a` (the second partial derivative) -/
theorem approxHessianDiag_quadratic (f : List Rat → Rat) (x : List Rat) (eps : Rat) (heps : eps ≠ 0)
    (i : Nat) (hi : i < x.length) (a b : Rat)
    (hq : ∀ d, f (bump x i d) = a * d ^ 2 + b * d + f x) :
    (approxHessianDiag f x eps)[i]? = some (2 * a) := by
  simp only [approxHessianDiag, List.getElem?_map, List.getElem?_range hi, Option.map_some, hq]
  congr 1
  field_simp
  ring

/-- `explore` evaluates one transform per point of the Cartesian grid of the deltas -/
theorem gridDeltas_length : ∀ ds : List (List Rat), (gridDeltas ds).length = (ds.map List.length).prod := by
  intro ds
  induction ds with
  | nil => rfl
  | cons d ds ih =>
      simp only [gridDeltas, List.length_flatMap, List.length_map, ih, List.map_cons, List.prod_cons]
      induction d with
      | nil => simp
      | cons a r ihr => simp [List.sum_cons, Nat.succ_mul, Nat.add_comm]

/-- … exactly the tuples that take each coordinate from the corresponding delta list -/
theorem mem_gridDeltas : ∀ (ds : List (List Rat)) (r : List Rat),
    r ∈ gridDeltas ds ↔ List.Forall₂ (fun a d => a ∈ d) r ds := by
  intro ds
  induction ds with
  | nil => intro r; simp [gridDeltas]
  | cons d ds ih =>
      intro r
      simp only [gridDeltas, List.mem_flatMap, List.mem_map]
      constructor
      · rintro ⟨a, ha, t, ht, rfl⟩
        exact List.Forall₂.cons ha ((ih t).mp ht)
      · intro h
        cases h with
        | cons ha ht => exact ⟨_, ha, _, (ih _).mpr ht, rfl⟩

theorem explore_count (param0 : List Rat) (args : List (Int × List Rat)) (ps : List (List Rat))
    (h : exploreParams param0 args = .ok ps) :
    ∃ ds, exploreDeltas param0.length args = .ok ds ∧ ds.length = param0.length ∧
      ps.length = (ds.map List.length).prod := by
  unfold exploreParams at h
  cases e : exploreDeltas param0.length args with
  | error m => rw [e] at h; cases h
  | ok ds =>
      rw [e] at h
      simp only [Except.ok.injEq] at h
      refine ⟨ds, rfl, ?_, ?_⟩
      · have := exploreDeltasGo_length param0.length args _ ds e
        simpa using this
      · rw [← h]; simp [gridDeltas_length]

/-- no axis given: the single trial is the transform itself -/
theorem explore_no_args (param0 : List Rat) : exploreParams param0 [] = .ok [param0] := by
  have hz : ∀ (p : List Rat), List.zipWith (· + ·) p (List.replicate p.length (0 : Rat)) = p := by
    intro p
    induction p with
    | nil => rfl
    | cons a r ih => simp [List.replicate_succ, ih]
  have hg : ∀ n : Nat, gridDeltas (List.replicate n [0]) = [List.replicate n 0] := by
    intro n
    induction n with
    | zero => rfl
    | succ n ih => simp [List.replicate_succ, gridDeltas, ih]
  simp [exploreParams, exploreDeltas, exploreDeltasGo, hg, hz]

/-! ## `interp` / `similarity` properties (tables regenerated from the source text) -/

def okIs {α : Type} [BEq α] (r : Except String α) (v : α) : Bool :=
  match r with | .ok a => a == v | .error _ => false

/-- setting an interpolation name and reading it back returns the name (codes are distinct) -/
theorem interp_roundtrip :
    ∀ e ∈ Src.interpMethods, okIs (setInterp e.1) e.2 = true ∧ okIs (getInterp e.2) e.1 = true := by
  decide +kernel

/-- the kernel's dispatch (`interp == 0` PV, `> 0` TRI, `< 0` RAND) sees three different codes -/
theorem interp_codes_cover_kernel_modes :
    (Src.interpMethods.any (fun e => e.2 == 0) && Src.interpMethods.any (fun e => decide (e.2 > 0))
      && Src.interpMethods.any (fun e => decide (e.2 < 0))) = true := by
  decide +kernel

/-- every measure name other than `'slr'` is accepted as it is; `'slr'` needs a distribution model
    of the histogram's shape -/
theorem setSimilarity_names :
    ∀ n ∈ Src.measureNames, ∀ c d s : Bool,
      okIs (setSimilarity n c d s) n = (!(n == "slr") || (d && s)) := by
  decide +kernel

/-! ## `configure_optimizer` (table regenerated from the source text) -/

def cfgOk (r : Except String (String × Nat × List String)) : Bool :=
  match r with | .ok _ => true | .error _ => false

/-- every optimiser name of the table is configured without `KeyError` from the keyword set that
    `optimize()` guarantees (`kwargs.setdefault`), whatever else the caller passes -/
theorem configure_total :
    ∀ e ∈ Src.optimizerTable, cfgOk (configureOptimizer e.1 Src.optimizeDefaultKeys) = true := by
  decide +kernel

/-- any other name is refused with `ValueError` -/
theorem configure_unknown (name : String) (keys : List String) (hx : keys.contains "xtol" = true)
    (h : ∀ e ∈ Src.optimizerTable, e.1 ≠ name) :
    configureOptimizer name keys = .error "error:valueError" := by
  unfold configureOptimizer
  simp only [hx, Bool.not_true, Bool.false_eq_true, if_false]
  have : Src.optimizerTable.find? (fun e => e.1 == name) = none := by
    rw [List.find?_eq_none]
    intro e he
    simpa using h e he
  rw [this]

/-- the default optimiser is in the table, and exactly the optimisers that are handed `fprime`
    (or positional derivative arguments) are the ones `use_derivatives` reports -/
theorem configure_table_consistent :
    (Src.optimizerTable.any (fun e => e.1 == Src.defaultOptimizer)) = true ∧
    ∀ e ∈ Src.optimizerTable,
      useDerivatives e.1 = (e.2.2.2.contains "fprime" || decide (0 < e.2.2.1)) := by
  decide +kernel

end NipyVerif.C09
