/-
C05 (extension) — property theorems about the results API (`t`, `vcov`, `Tcontrast`, `Fcontrast`,
`conf_int`, residuals, sums of squares, `logL`) on fits with several responses, and about
`pos_recipr` / `recipr0`.  The square root `s`, the Student quantile `tq` and `L = log(2π·)` are
arbitrary functions / numbers: every statement holds whatever they are.
-/
import NipyVerif.Lemmas.C05B
import NipyVerif.Props.C05

namespace NipyVerif.C05
open Finset

/-! ## `nipy.algorithms.utils.matrices` -/

/-- `pos_recipr`: the reciprocal on the positive numbers, `0` elsewhere; never negative. -/
theorem posRecipr_spec (x : Rat) :
    (0 < x → x * posRecipr x = 1) ∧ (x ≤ 0 → posRecipr x = 0) ∧ 0 ≤ posRecipr x := by
  refine ⟨fun h => ?_, posRecipr_nonpos, ?_⟩
  · rw [posRecipr_pos h]; field_simp
  · by_cases h : 0 < x
    · rw [posRecipr_pos h]; positivity
    · rw [posRecipr_nonpos (not_lt.mp h)]

/-- `recipr0`: the reciprocal off zero, `0` at zero; an involution. -/
theorem recipr0_spec (x : Rat) :
    (x ≠ 0 → x * recipr0 x = 1) ∧ recipr0 0 = 0 ∧ recipr0 (recipr0 x) = x := by
  refine ⟨fun h => ?_, by simp [recipr0], ?_⟩
  · simp only [recipr0, h, if_false]; field_simp
  · by_cases h : x = 0
    · simp [recipr0, h]
    · have : (1 : Rat) / x ≠ 0 := by positivity
      simp only [recipr0, h, if_false, this]; field_simp

/-- the two reciprocals agree on the positive numbers (where the code uses `pos_recipr`). -/
theorem posRecipr_eq_recipr0 {x : Rat} (h : 0 < x) : posRecipr x = recipr0 x := by
  simp [posRecipr, recipr0, h, ne_of_gt h]

/-! ## `vcov` -/

/-- `vcov(matrix=M, other=O)` per response `j`: `(M cov Oᵀ)[a,b] · dispersion_j`
    — the `(q, q')` block is *not* broadcast against the responses. -/
theorem vcov_matrix_spec {p v q q' : Nat} (cov : Mat p p) (M : Mat q p) (O : Mat q' p) (d : Vec v)
    (a : Fin q) (b : Fin q') (j : Fin v) :
    vcovMat cov M O d a b j = (∑ l, ∑ m, M a l * cov l m * O b m) * d j := by
  simp only [vcovMat, mmul, tr, fsum_eq, Finset.mul_sum]
  congr 1
  apply Finset.sum_congr rfl; intro l _
  apply Finset.sum_congr rfl; intro m _
  ring

/-- `vcov(column=cols)` is `vcov(matrix=E)` for the selection matrix `E` (rows `e_{cols a}`);
    `vcov(column=c)` is its single entry and `vcov()` is the selection of all columns. -/
theorem vcov_column_eq_matrix {p v k : Nat} (cov : Mat p p) (cols : Fin k → Fin p) (d : Vec v) :
    vcovCols cov cols d = vcovMat cov (selMat cols) (selMat cols) d ∧
    (∀ c j, vcovCol cov c d j = vcovCols cov (fun _ : Fin 1 => c) d 0 0 j) ∧
    vcovFull cov d = vcovCols cov (fun a => a) d := by
  refine ⟨?_, fun _ _ => rfl, rfl⟩
  funext a b j
  simp only [vcovCols, vcovMat, selMat_cov]

/-- the covariance of any contrast set is positive semi-definite wherever the dispersion is
    non-negative: `zᵀ vcov(matrix=M)[:, :, j] z ≥ 0`.  In particular every variance under a square
    root (`sd`, `t`, `conf_int`) is non-negative. -/
theorem vcov_matrix_psd {n p v q : Nat} (wX : Mat n p) (wY : Mat n v) (f : Fit n p v)
    (h : fitW wX wY = some f) (M : Mat q p) (d : Vec v) (j : Fin v) (hd : 0 ≤ d j) (z : Vec q) :
    0 ≤ ∑ a, ∑ b, z a * vcovMat f.cov M M d a b j * z b := by
  have s := (fitW_spec h).choose_spec.2
  have e : ∑ a, ∑ b, z a * vcovMat f.cov M M d a b j * z b
      = (∑ a, ∑ b, z a * mmul M (mmul f.cov (tr M)) a b * z b) * d j := by
    simp only [vcovMat, Finset.sum_mul]
    apply Finset.sum_congr rfl; intro a _
    apply Finset.sum_congr rfl; intro b _
    ring
  rw [e, bilin_mat, s.cov]
  exact mul_nonneg (quad_gram_nonneg f.pinv _) hd

/-- the dispersion of a fit is non-negative (`n > p`), so the previous theorem applies to it. -/
theorem dispersion_nonneg {n p v : Nat} (wX : Mat n p) (wY : Mat n v) (f : Fit n p v)
    (h : fitW wX wY = some f) (hnp : p < n) (j : Fin v) : 0 ≤ f.dispersion j := by
  have s := (fitW_spec h).choose_spec.2
  rw [s.dispersion, s.sse]
  apply div_nonneg
  · simp only [fsum_eq]; exact Finset.sum_nonneg fun i _ => mul_self_nonneg _
  · have : (p : Rat) < (n : Rat) := by exact_mod_cast hnp
    linarith

/-! ## `t` and `Tcontrast` -/

/-- the variance of a t contrast is the `(1,1)` block `vcov(matrix=c)`. -/
theorem tconVar_eq_vcov_matrix {n p v : Nat} (f : Fit n p v) (c : Vec p) (d : Vec v) (j : Fin v) :
    tconVar f c d j = vcovMat f.cov (fun _ : Fin 1 => c) (fun _ : Fin 1 => c) d 0 0 j := by
  simp only [tconVar, vcovMat, vdot, mvec, mmul, tr, fsum_eq]

/-- with the fit's own dispersion `Tcontrast` is the t contrast of the base model (`tVar`). -/
theorem tconVar_self {n p v : Nat} (f : Fit n p v) (c : Vec p) : tconVar f c f.dispersion = tVar f c := rfl

/-- **`t(column=…)` for response `j` equals `Tcontrast(e_c).t` at `j`** — for a list of columns
    (any order, repeats allowed), for a single integer column, and hence for `column=None`
    (all columns).  This is the clause the broadcast of the `(k,k)` block against the responses
    violated. -/
theorem t_column_eq_Tcontrast_unit {n p v k : Nat} (s : Rat → Rat) (f : Fit n p v)
    (cols : Fin k → Fin p) (a : Fin k) (c : Fin p) (j : Fin v) :
    tCols s f cols a j = tconT s f (unitVec (cols a)) f.dispersion j ∧
    tCol s f c j = tconT s f (unitVec c) f.dispersion j := by
  constructor
  · simp only [tCols, tconT, tconVar, vcovCols, tEffect_unit, quad_unit]
  · simp only [tCol, tconT, tconVar, vcovCol, tEffect_unit, quad_unit]

/-- `t(column=cols)` is, row by row, `t(column=cols[a])`: grouping columns changes nothing. -/
theorem t_columns_rowwise {n p v k : Nat} (s : Rat → Rat) (f : Fit n p v) (cols : Fin k → Fin p)
    (a : Fin k) : tCols s f cols a = tCol s f (cols a) := rfl

/-- where the variance is positive and `s` is a square root there, `t · sd = effect`. -/
theorem t_times_sd {n p v : Nat} (s : Rat → Rat) (f : Fit n p v) (c : Vec p) (d : Vec v) (j : Fin v)
    (hs : 0 < s (tconVar f c d j)) :
    tconT s f c d j * s (tconVar f c d j) = tEffect f c j := by
  simp only [tconT, posRecipr_pos hs]; field_simp

/-! ## `Fcontrast` -/

/-- with the default `invcov` and the fit's own (non-negative) dispersion, `Fcontrast.F` is the F
    statistic of the base model. -/
theorem fcon_default_eq_fStat {n p v q : Nat} (f : Fit n p v) (C : Mat q p) (iv : Mat q q)
    (hiv : fconInvcov f C = some iv) (hd : ∀ j, 0 ≤ f.dispersion j) :
    fStat f C = some (fconF f C iv f.dispersion) := by
  unfold fconInvcov at hiv
  unfold fStat fconF
  simp only [ofArr2_toArr2, hiv]
  congr 1
  funext j
  by_cases h0 : (q : Rat) * f.dispersion j = 0
  · rw [h0]; simp [posRecipr]
  · have hpos : 0 < (q : Rat) * f.dispersion j :=
      lt_of_le_of_ne (mul_nonneg (by positivity) (hd j)) (Ne.symm h0)
    rw [posRecipr_pos hpos]; ring

/-- a user-supplied dispersion only rescales `F`: `F(d) · q·d = F(d') · q·d'` numerators agree. -/
theorem fcon_dispersion_rescales {n p v q : Nat} (f : Fit n p v) (C : Mat q p) (iv : Mat q q)
    (d d' : Vec v) (j : Fin v) (hd : 0 < (q : Rat) * d j) (hd' : 0 < (q : Rat) * d' j) :
    fconF f C iv d j * ((q : Rat) * d j) = fconF f C iv d' j * ((q : Rat) * d' j) := by
  have h1 : (q : Rat) * d j ≠ 0 := ne_of_gt hd
  have h2 : (q : Rat) * d' j ≠ 0 := ne_of_gt hd'
  simp only [fconF, ofArr2_toArr2, posRecipr_pos hd, posRecipr_pos hd']
  rw [mul_assoc, mul_assoc, one_div_mul_cancel h1, one_div_mul_cancel h2]

/-! ## `conf_int` -/

/-- the interval of parameter `cols a`, response `j` is centred on `theta` with half width
    `tq · sqrt(cov[c,c] · dispersion_j)` — per response. -/
theorem conf_int_centre_halfwidth {n p v k : Nat} (s : Rat → Rat) (tq : Rat) (f : Fit n p v)
    (cols : Fin k → Fin p) (d : Vec v) (a : Fin k) (j : Fin v) :
    (confInt s tq f cols d a 0 j + confInt s tq f cols d a 1 j) / 2 = f.beta (cols a) j ∧
    (confInt s tq f cols d a 1 j - confInt s tq f cols d a 0 j) / 2
      = tq * s (f.cov (cols a) (cols a) * d j) := by
  simp only [confInt, vcovCol, Fin.val_zero, Fin.val_one, if_true, one_ne_zero, if_false]
  constructor <;> ring

/-! ## residuals and sums of squares -/

/-- `resid + predicted = Y`; for `OLSModel` the residuals are the whitened residuals. -/
theorem resid_add_predicted {n p v : Nat} (X : Mat n p) (Y : Mat n v) (f : Fit n p v)
    (h : fit .ols X Y = some f) :
    (∀ i j, resid X Y f i j + predicted X f i j = Y i j) ∧ resid X Y f = f.wresid := by
  rw [fit_eq] at h
  have s := (fitW_spec h).choose_spec.2
  refine ⟨fun i j => by simp [resid, msub], ?_⟩
  rw [s.wresid]; rfl

/-- `SSR + SSE = SST`, `MSE = dispersion`, `R2 = 1 - SSE/SST` (definitions of the model, stated once
    so that the reader sees them) -/
theorem stats_identities {n p v : Nat} (wX : Mat n p) (wY : Mat n v) (f : Fit n p v)
    (h : fitW wX wY = some f) (j : Fin v) :
    let st := stats wY f (p : Int)
    st.ssr j + st.sse j = st.sst j ∧ st.mse j = f.dispersion j ∧ st.r2 j = 1 - st.sse j / st.sst j ∧
      st.sst j = sst wY j := by
  have s := (fitW_spec h).choose_spec.2
  simp only [stats, ofArr1_toArr1]
  refine ⟨by ring, ?_, trivial, trivial⟩
  rw [s.dispersion]; push_cast; rfl

/-- a model with the constant in its (whitened) column space (`has_intercept`) has `SSE ≤ SST`:
    the fit is at least as good as the mean. -/
theorem sse_le_sst_of_intercept {n p v : Nat} (wX : Mat n p) (wY : Mat n v) (f : Fit n p v)
    (h : fitW wX wY = some f) (a : Vec p) (ha : ∀ i, ∑ l, wX i l * a l = 1) (j : Fin v) :
    f.sse j ≤ sst wY j := by
  have hmin := ols_minimises wX wY f h (fun l _ => a l * colMean wY j) j
  rw [← sse_is_min_rss wX wY f h j] at hmin
  have e : rss wX wY (fun l _ => a l * colMean wY j) j = sst wY j := by
    simp only [rss, sst, mmul, fsum_eq]
    apply Finset.sum_congr rfl; intro i _
    have : ∑ l, wX i l * (a l * colMean wY j) = colMean wY j := by
      have : ∀ l, wX i l * (a l * colMean wY j) = colMean wY j * (wX i l * a l) := fun l => by ring
      simp only [this, ← Finset.mul_sum, ha i, mul_one]
    rw [this]
  rwa [e] at hmin

/-- hence `0 ≤ R2 ≤ 1` for such a model whenever `SST > 0`. -/
theorem r2_in_unit_interval {n p v : Nat} (wX : Mat n p) (wY : Mat n v) (f : Fit n p v)
    (h : fitW wX wY = some f) (a : Vec p) (ha : ∀ i, ∑ l, wX i l * a l = 1) (j : Fin v)
    (hpos : 0 < sst wY j) :
    0 ≤ (stats wY f (p : Int)).r2 j ∧ (stats wY f (p : Int)).r2 j ≤ 1 := by
  have hle := sse_le_sst_of_intercept wX wY f h a ha j
  have s := (fitW_spec h).choose_spec.2
  have hsse : 0 ≤ f.sse j := by
    rw [s.sse]; simp only [fsum_eq]; exact Finset.sum_nonneg fun i _ => mul_self_nonneg _
  simp only [stats, ofArr1_toArr1]
  constructor
  · have : f.sse j / sst wY j ≤ 1 := by rw [div_le_one hpos]; exact hle
    linarith
  · have : 0 ≤ f.sse j / sst wY j := div_nonneg hsse (le_of_lt hpos)
    linarith

/-- the maximised log-likelihood with the plugged-in variance `SSE/n`:
    `logL = -n/2 · log(2π SSE/n) - n/2` whenever `SSE ≠ 0`. -/
theorem logLik_plugged {n p v : Nat} (L : Rat → Rat) (f : Fit n p v) (j : Fin v) (hn : 0 < n)
    (hs : f.sse j ≠ 0) :
    logLik L f j = -((n : Rat) / 2) * L (f.sse j / (n : Rat)) - (n : Rat) / 2 := by
  have : (n : Rat) ≠ 0 := by exact_mod_cast Nat.pos_iff_ne_zero.mp hn
  simp only [logLik]
  congr 1
  field_simp

/-- the library's own gradient of the log-likelihood (`OLSModel.score`) vanishes at the fitted
    coefficients, whatever variance is plugged in: the normal equations once more. -/
theorem score_zero_at_fit {n p v : Nat} (wX : Mat n p) (wY : Mat n v) (f : Fit n p v)
    (h : fitW wX wY = some f) (sigma : Option Rat) : scoreAt wX wY f.beta sigma = fun _ _ => 0 := by
  have s := (fitW_spec h).choose_spec.2
  funext l j
  simp only [scoreAt, ofArr2_toArr2, ← s.wresid, fsum_eq, orth_entry s l j, zero_div]

/-! ## every observable is computed response by response -/

/-- **voxelwise, for the whole results API**: for *any* map `σ` of response indices (a permutation,
    one voxel, a bin of voxels, with repeats) the results object of the selected block returns, for
    every operation, exactly the selected responses of the operation on the full block:
    `t` (list and integer columns), `vcov` (column, columns, matrix/other, full) under the fit's
    dispersion or a user dispersion `d` (selected alike), `Tcontrast`, `Fcontrast` (default and
    user `invcov`), `conf_int`, `resid`, `predicted`, `norm_resid`, the sums of squares /
    `R2` / `R2_adj` / `F_overall`, `logL`, `AIC`, `BIC`. -/
theorem results_voxelwise {n p v v' : Nat} (w : Whitener n) (X : Mat n p) (Y : Mat n v)
    (σ : Fin v' → Fin v) (f : Fit n p v) (h : fit w X Y = some f) :
    ∃ f', fit w X (fun i k => Y i (σ k)) = some f' ∧
      (∀ (s : Rat → Rat) (k : Nat) (cols : Fin k → Fin p) a j, tCols s f' cols a j = tCols s f cols a (σ j)) ∧
      (∀ (s : Rat → Rat) c j, tCol s f' c j = tCol s f c (σ j)) ∧
      (∀ (q q' : Nat) (M : Mat q p) (O : Mat q' p) a b j,
          vcovMat f'.cov M O f'.dispersion a b j = vcovMat f.cov M O f.dispersion a b (σ j)) ∧
      (∀ (q q' : Nat) (M : Mat q p) (O : Mat q' p) (d : Vec v) a b j,
          vcovMat f'.cov M O (fun k => d (σ k)) a b j = vcovMat f.cov M O d a b (σ j)) ∧
      (∀ (k : Nat) (cols : Fin k → Fin p) (d : Vec v) a b j,
          vcovCols f'.cov cols (fun k => d (σ k)) a b j = vcovCols f.cov cols d a b (σ j)) ∧
      (∀ (d : Vec v) a b j, vcovFull f'.cov (fun k => d (σ k)) a b j = vcovFull f.cov d a b (σ j)) ∧
      (∀ (s : Rat → Rat) (c : Vec p) (d : Vec v) j,
          tEffect f' c j = tEffect f c (σ j) ∧
          tconVar f' c (fun k => d (σ k)) j = tconVar f c d (σ j) ∧
          tconT s f' c (fun k => d (σ k)) j = tconT s f c d (σ j) ∧
          tconT s f' c f'.dispersion j = tconT s f c f.dispersion (σ j)) ∧
      (∀ (q : Nat) (C : Mat q p), fconInvcov f' C = fconInvcov f C) ∧
      (∀ (q : Nat) (C : Mat q p) (iv : Mat q q) (d : Vec v) j,
          fconF f' C iv (fun k => d (σ k)) j = fconF f C iv d (σ j) ∧
          fconF f' C iv f'.dispersion j = fconF f C iv f.dispersion (σ j)) ∧
      (∀ (s : Rat → Rat) (tq : Rat) (k : Nat) (cols : Fin k → Fin p) (d : Vec v) a side j,
          confInt s tq f' cols (fun k => d (σ k)) a side j = confInt s tq f cols d a side (σ j)) ∧
      (∀ i j, predicted X f' i j = predicted X f i (σ j) ∧
          resid X (fun i k => Y i (σ k)) f' i j = resid X Y f i (σ j)) ∧
      (∀ (s : Rat → Rat) i j, normResid s X (fun i k => Y i (σ k)) f' i j = normResid s X Y f i (σ j)) ∧
      (∀ (dm : Int) j,
          let st' := stats (w.apply (fun i k => Y i (σ k))) f' dm
          let st := stats (w.apply Y) f dm
          st'.sse j = st.sse (σ j) ∧ st'.sst j = st.sst (σ j) ∧ st'.ssr j = st.ssr (σ j) ∧
          st'.mse j = st.mse (σ j) ∧ st'.msr j = st.msr (σ j) ∧ st'.mst j = st.mst (σ j) ∧
          st'.r2 j = st.r2 (σ j) ∧ st'.r2adj j = st.r2adj (σ j) ∧ st'.fOverall j = st.fOverall (σ j) ∧
          st'.sigmasq j = st.sigmasq (σ j)) ∧
      (∀ (L : Rat → Rat) (ln : Rat) j, logLik L f' j = logLik L f (σ j) ∧ aic L f' j = aic L f (σ j) ∧
          bic L ln f' j = bic L ln f (σ j)) := by
  rw [fit_eq] at h
  obtain ⟨f', h1, hb, hr, hs, hd, hc, hdf⟩ := fitW_select _ _ σ f h
  have hfit : fit w X (fun i k => Y i (σ k)) = some f' := by
    rw [fit_eq, apply_select w σ Y]; exact h1
  have hbeta : ∀ a j, f'.beta a j = f.beta a (σ j) := fun a j => by rw [hb]
  have hdisp : ∀ j, f'.dispersion j = f.dispersion (σ j) := fun j => by rw [hd]
  have hsse : ∀ j, f'.sse j = f.sse (σ j) := fun j => by rw [hs]
  have hte : ∀ (c : Vec p) j, tEffect f' c j = tEffect f c (σ j) := by
    intro c j; simp only [tEffect, hbeta]
  have hpred : ∀ i j, predicted X f' i j = predicted X f i (σ j) := by
    intro i j; simp only [predicted, mmul, hbeta]
  have hres : ∀ i j, resid X (fun i k => Y i (σ k)) f' i j = resid X Y f i (σ j) := by
    intro i j; simp only [resid, msub, hpred]
  have hsst : ∀ j, sst (w.apply (fun i k => Y i (σ k))) j = sst (w.apply Y) (σ j) := by
    intro j; rw [apply_select w σ Y]; rfl
  refine ⟨f', hfit, ?_, ?_, ?_, ?_, ?_, ?_, ?_, ?_, ?_, ?_, ⟨fun i j => ⟨hpred i j, hres i j⟩, ?_, ?_, ?_⟩⟩
  · intro s k cols a j; simp only [tCols, vcovCols, hbeta, hdisp, hc]
  · intro s c j; simp only [tCol, vcovCol, hbeta, hdisp, hc]
  · intro q q' M O a b j; simp only [vcovMat, hc, hdisp]
  · intro q q' M O d a b j; simp only [vcovMat, hc]
  · intro k cols d a b j; simp only [vcovCols, hc]
  · intro d a b j; simp only [vcovFull, hc]
  · intro s c d j
    refine ⟨hte c j, ?_, ?_, ?_⟩
    · simp only [tconVar, hc]
    · simp only [tconT, tconVar, hc, hte]
    · simp only [tconT, tconVar, hc, hte, hdisp]
  · intro q C; simp only [fconInvcov, hc]
  · intro q C iv d j
    have hct : ∀ a, mmul C f'.beta a j = mmul C f.beta a (σ j) := by
      intro a; simp only [mmul, hbeta]
    have hict : ∀ a, mmul iv (mmul C f'.beta) a j = mmul iv (mmul C f.beta) a (σ j) := by
      intro a; simp only [mmul, hbeta]
    constructor
    · simp only [fconF, ofArr2_toArr2, hct, hict]
    · simp only [fconF, ofArr2_toArr2, hct, hict, hdisp]
  · intro s tq k cols d a side j; simp only [confInt, vcovCol, hbeta, hc]
  · intro s i j; simp only [normResid, hres, hdisp]
  · intro dm j
    simp only [stats, ofArr1_toArr1, hsse, hsst]
    exact ⟨trivial, trivial, trivial, trivial, trivial, trivial, trivial, trivial, trivial, trivial⟩
  · intro L ln j
    simp only [logLik, aic, bic, hsse]
    exact ⟨trivial, trivial, trivial⟩

/-! ## Non-vacuity -/

-- the hypotheses of the theorems above are satisfiable on the concrete 3×2 design of `Props/C05`
example : (fitW exX exY).isSome = true := by decide +kernel
-- it has the constant in its column space (first column), so `r2_in_unit_interval` applies
example : ∀ i : Fin 3, ∑ l, exX i l * (fun l : Fin 2 => if l.1 = 0 then (1 : Rat) else 0) l = 1 := by
  intro i; fin_cases i <;> decide +kernel
example : 0 < sst exY 0 := by decide +kernel
-- a default `invcov` exists for the identity contrast
example : ((fit .ols exX exY).bind fun f => fconInvcov f (idm 2)).isSome = true := by decide +kernel

end NipyVerif.C05
