/-
C01 — property theorems, second module: finite programs of operations (`prog_sound`),
n-ary product, function-level `drop_io_dim`, append-then-drop.
Only property statements and their non-vacuity examples live here.
-/
import NipyVerif.Lemmas.C01B

namespace NipyVerif.C01

/-! ## Programs: all finite chains of operations -/

/-- Relational meaning of a program run on the map `A` whose input/output relation is `R`:
    the meanings of the operations (`Op.den`), one after the other.  (The intermediate objects
    are consulted for their coordinate systems only — `Op.den` never sees a matrix of the
    current map.) -/
def progRel : Aff → List Op → Rel → Rel
  | _, [], R => R
  | A, op :: rest, R =>
      match stepAff A op with
      | .ok (some B) => progRel B rest (op.den A.dom A.rng R)
      | _ => R

/-- One operation of the op language — n-ary compose, n-ary product, reorder / rename of either
    side, inverse, origin shifts, append, drop — is sound: whenever the library returns a map, its
    graph (on tuples of the right length) is exactly the relational meaning of the operation
    applied to the graph of the old map, and the exact bottom row is preserved.
    Side conditions (`Op.exactB`, reported by the driver for every generated program): partner
    maps of a composition have the exact bottom row; a dropped input column is zero outside the
    dropped output row (the *orthogonal* axis of the property). -/
theorem step_sound (A B : Aff) (op : Op) (h : stepAff A op = .ok (some B)) (hA : A.bottomExact)
    (hop : op.exactB A = true) : B.bottomExact ∧ B.graph = op.den A.dom A.rng A.graph := by
  cases op with
  | composeN ls rs =>
      simp only [stepAff] at h
      cases hL : buildAll ls with
      | error e => rw [hL] at h; cases h
      | ok L =>
          rw [hL] at h
          simp only at h
          cases hR : buildAll rs with
          | error e => rw [hR] at h; cases h
          | ok Rs =>
              rw [hR] at h
              simp only at h
              have hc := liftSome_ok h
              simp only [Op.exactB, List.all_append, Bool.and_eq_true] at hop
              obtain ⟨g, hb⟩ := composeList_graph hc (by
                intro M hM
                rcases List.mem_append.mp hM with hM | hM
                · exact buildAll_exact hL hop.1 M hM
                · rcases List.mem_cons.mp hM with rfl | hM
                  · exact hA
                  · exact buildAll_exact hR hop.2 M hM)
              refine ⟨hb, ?_⟩
              rw [g]
              funext x y
              apply propext
              simp only [Op.den, List.map_append, List.map_cons]
              constructor
              · intro hxy
                exact ⟨L, Rs, hL, hR, hxy⟩
              · rintro ⟨L', Rs', hL', hR', hxy⟩
                rw [hL] at hL'
                rw [hR] at hR'
                injection hL' with hL'
                injection hR' with hR'
                subst hL' hR'
                exact hxy
  | prodN ls rs i o =>
      simp only [stepAff] at h
      cases hL : buildAll ls with
      | error e => rw [hL] at h; cases h
      | ok L =>
          rw [hL] at h
          simp only at h
          cases hR : buildAll rs with
          | error e => rw [hR] at h; cases h
          | ok Rs =>
              rw [hR] at h
              simp only at h
              have hc := liftSome_ok h
              refine ⟨product_bottom hc, ?_⟩
              rw [product_graph hc]
              funext x y
              apply propext
              simp only [Op.den, List.map_append, List.map_cons]
              constructor
              · intro hxy
                exact ⟨L, Rs, hL, hR, hxy⟩
              · rintro ⟨L', Rs', hL', hR', hxy⟩
                rw [hL] at hL'
                rw [hR] at hR'
                injection hL' with hL'
                injection hR' with hR'
                subst hL' hR'
                exact hxy
  | reordD o =>
      obtain ⟨ord, ncs, hcs, hb, g⟩ := reorderedDomain_graph hA (liftSome_ok h)
      refine ⟨hb, ?_⟩
      rw [g]
      funext x y
      apply propext
      simp only [Op.den]
      constructor
      · rintro ⟨x0, h1, h2⟩
        exact ⟨ord, ncs, x0, hcs, h1, h2⟩
      · rintro ⟨ord', ncs', x0, hcs', h1, h2⟩
        rw [hcs] at hcs'
        simp only [Except.ok.injEq, Prod.mk.injEq] at hcs'
        obtain ⟨rfl, _⟩ := hcs'
        exact ⟨x0, h1, h2⟩
  | reordR o =>
      obtain ⟨ord, ncs, hcs, hb, g⟩ := reorderedRange_graph hA (liftSome_ok h)
      refine ⟨hb, ?_⟩
      rw [g]
      funext x y
      apply propext
      simp only [Op.den]
      constructor
      · rintro ⟨y0, h1, h2⟩
        exact ⟨ord, ncs, y0, hcs, h1, h2⟩
      · rintro ⟨ord', ncs', y0, hcs', h1, h2⟩
        rw [hcs] at hcs'
        simp only [Except.ok.injEq, Prod.mk.injEq] at hcs'
        obtain ⟨rfl, _⟩ := hcs'
        exact ⟨y0, h1, h2⟩
  | renD kv => exact renamedDomain_graph hA (liftSome_ok h)
  | renR kv => exact renamedRange_graph hA (liftSome_ok h)
  | inv => exact inverse_graph hA h
  | shiftD diff nm =>
      obtain ⟨hb, d, hd, g⟩ := shiftedDomain_graph hA (liftSome_ok h)
      refine ⟨hb, ?_⟩
      rw [g]
      funext x y
      apply propext
      simp only [Op.den]
      constructor
      · rintro ⟨hx, hr⟩
        exact ⟨hx, d, hd, hr⟩
      · rintro ⟨hx, d', hd', hr⟩
        have hd'' : bcastInto A.nin A.dom.dtype diff = .ok d' := hd'
        rw [hd] at hd''
        injection hd'' with hd''
        subst hd''
        exact ⟨hx, hr⟩
  | shiftR diff nm =>
      obtain ⟨hb, d, hd, g⟩ := shiftedRange_graph hA (liftSome_ok h)
      refine ⟨hb, ?_⟩
      rw [g]
      funext x y
      apply propext
      simp only [Op.den]
      constructor
      · rintro ⟨y0, h1, h2⟩
        exact ⟨d, y0, hd, h1, h2⟩
      · rintro ⟨d', y0, hd', h1, h2⟩
        have hd'' : bcastInto A.nout A.rng.dtype (diff.map fun q => -q) = .ok d' := hd'
        rw [hd] at hd''
        injection hd'' with hd''
        subst hd''
        exact ⟨y0, h1, h2⟩
  | append i o start step mdt => exact appendIoDim_graph (liftSome_ok h)
  | drop ax fz ornts =>
      have hd := liftSome_ok h
      cases hio : ioAxisIndices A ax ornts with
      | error e => unfold dropIoDim at hd; rw [hio] at hd; cases hd
      | ok p =>
          obtain ⟨i, o⟩ := p
          simp only [Op.exactB, hio] at hop
          refine ⟨dropIoDim_bottom hd hio hA, ?_⟩
          · rw [dropIoDim_graph hd hio hop]
            funext x y
            apply propext
            simp only [Op.den, ioAxisIndices_cs]
            constructor
            · rintro ⟨x0, y0, h1, h2, h3⟩
              exact ⟨i, o, x0, y0, hio, h1, h2, h3⟩
            · rintro ⟨i', o', x0, y0, hio', h1, h2, h3⟩
              rw [hio] at hio'
              simp only [Except.ok.injEq, Prod.mk.injEq] at hio'
              obtain ⟨rfl, rfl⟩ := hio'
              exact ⟨x0, y0, h1, h2, h3⟩

/-- **All finite chains of compose / product / reorder / rename / inverse / shift-origin /
    append / drop operations** (clause "… and all finite chains of … operations" of the
    quantifier): whenever the library carries a program through to a map `B`, the graph of `B` is
    exactly the relational meaning of the program applied to the graph of the initial map — by
    induction over the program, one `step_sound` per operation.  `progExactB` collects the side
    conditions of `step_sound` along the run; the driver evaluates it for every generated program
    (`hyp` field of the correspondence). -/
theorem prog_sound (ops : List Op) : ∀ (A B : Aff) (k : Nat), runOps A ops k = .ok B →
    A.bottomExact → progExactB A ops = true →
    B.bottomExact ∧ B.graph = progRel A ops A.graph := by
  induction ops with
  | nil =>
      intro A B k h hA _
      simp only [runOps, Except.ok.injEq] at h
      subst h
      exact ⟨hA, rfl⟩
  | cons op rest ih =>
      intro A B k h hA hp
      simp only [runOps] at h
      simp only [progExactB, Bool.and_eq_true] at hp
      cases hs : stepAff A op with
      | error e => rw [hs] at h; cases h
      | ok r =>
          cases r with
          | none => rw [hs] at h; cases h
          | some C =>
              rw [hs] at h hp
              simp only at h hp
              obtain ⟨hC, g⟩ := step_sound A C op hs hA hp.1
              obtain ⟨hB, gB⟩ := ih C B (k + 1) h hC hp.2
              refine ⟨hB, ?_⟩
              rw [gB, g]
              simp only [progRel, hs]

/-- Pointwise reading of `prog_sound`: the final map sends `x` to `y` iff the program's meaning
    relates them. -/
theorem prog_sound_apply (ops : List Op) (A B : Aff) (h : runOps A ops 0 = .ok B)
    (hA : A.bottomExact) (hp : progExactB A ops = true) (x : List Rat) (hx : x.length = B.nin) :
    progRel A ops A.graph x (B.apply x) ∧ ∀ y, progRel A ops A.graph x y → y = B.apply x := by
  obtain ⟨_, g⟩ := prog_sound ops A B 0 h hA hp
  rw [← g]
  exact ⟨⟨hx, rfl⟩, fun y hy => hy.2⟩

/-! ## Product with any number of factors -/

/-- Clause "a product map acts independently on each block of coordinates" for
    `product(A₁, …, Aₙ)` with every `n` (induction over the list of factors): the value at `x`
    is the concatenation of `Aₖ` applied to the `k`-th block of `x`; names are concatenated and
    the bottom row is exact. -/
theorem product_apply_blocks_nary (l : List Aff) (C : Aff) (i o : String)
    (h : product l i o = .ok C) (x : List Rat) :
    C.apply x = prodApply l x ∧
    C.dom.names = l.flatMap (fun A => A.dom.names) ∧ C.rng.names = l.flatMap (fun A => A.rng.names) ∧
    C.bottomExact := by
  obtain ⟨p1, p2, _⟩ := product_ok h
  exact ⟨product_apply h x, p1, p2, product_bottom h⟩

/-! ## Dropping an orthogonal axis, at function level -/

/-- Clause "dropping an orthogonal axis leaves the remaining axes' mapping untouched", at
    **function level**: if `drop_io_dim` resolves the axis to the input/output pair `(i, o)` and
    succeeds on a map whose small entries are exact zeros, then for every input tuple `x₀` — with
    *any* value in the dropped coordinate — the new map sends `x₀` without coordinate `i` to the old
    outputs without coordinate `o`; the remaining names are the old ones in the old order.
    Holds for every `ornts` (nibabel's `io_orientation` is not assumed to be anything). -/
theorem drop_keeps_rest (A B : Aff) (ax : Key) (fz : Bool) (ornts : List (Option Nat)) (ii oo : Nat)
    (h : dropIoDim A ax fz ornts = .ok B) (hio : ioAxisIndices A ax ornts = .ok (some ii, some oo))
    (hn : A.noTiny) (x0 : List Rat) (hx : x0.length = A.nin) :
    B.apply (x0.eraseIdx ii) = (A.apply x0).eraseIdx oo ∧
    B.dom.names = A.dom.names.eraseIdx ii ∧ B.rng.names = A.rng.names.eraseIdx oo := by
  have hii : ii < A.nin := ioAxisIndices_lt hio
  have horth : orthAxes A.aff A.nout A.nin ii oo fz = true := by
    by_contra hc
    rw [dropIoDim_refuses' hio (by simpa using hc)] at h
    cases h
  obtain ⟨h1, h2, _, h4⟩ := dropIoDim_apply h hio (orth_colZero hii hn horth)
  exact ⟨h4 x0 hx, h1, h2⟩

/-- The same when only one side is dropped (`io_orientation` pairs the axis with nothing):
    dropping an output axis alone never changes the other outputs; dropping an input axis alone
    keeps them provided its column is zero. -/
theorem drop_keeps_rest_onesided (A B : Aff) (ax : Key) (fz : Bool) (ornts : List (Option Nat))
    (i o : Option Nat) (h : dropIoDim A ax fz ornts = .ok B) (hio : ioAxisIndices A ax ornts = .ok (i, o))
    (hz : dropColZeroB A i o = true) (x0 : List Rat) (hx : x0.length = A.nin) :
    B.apply (dropAt x0 i) = dropAt (A.apply x0) o ∧
    B.dom.names = dropAt A.dom.names i ∧ B.rng.names = dropAt A.rng.names o := by
  obtain ⟨h1, h2, _, h4⟩ := dropIoDim_apply h hio hz
  exact ⟨h4 x0 hx, h1, h2⟩

/-- Clause "appending **or dropping** an orthogonal axis leaves the remaining axes' mapping
    untouched", round trip: appending an axis and dropping it again (by any identifier that
    resolves to the appended pair) gives back a map with the old names, the old values at every
    point and — entry by entry — the old matrix. -/
theorem append_then_drop_id (A B C : Aff) (i o : String) (start step : Rat) (mdt : DType) (ax : Key)
    (fz : Bool) (ornts : List (Option Nat)) (hA : A.bottomExact)
    (ha : appendIoDim A i o start step mdt = .ok B) (hd : dropIoDim B ax fz ornts = .ok C)
    (hio : ioAxisIndices B ax ornts = .ok (some A.nin, some A.nout)) :
    C.dom.names = A.dom.names ∧ C.rng.names = A.rng.names ∧ (∀ x, C.apply x = A.apply x) ∧
    ∀ r c, r ≤ A.nout → c ≤ A.nin → C.aff.get r c = A.aff.get r c := by
  obtain ⟨_, hn1, hn2, hbB⟩ := appendIoDim_apply' ha (List.replicate A.nin 0) 0 (by simp)
  have hBin : B.nin = A.nin + 1 := by rw [Aff.nin, hn1]; simp [Aff.nin]
  have hBout : B.nout = A.nout + 1 := by rw [Aff.nout, hn2]; simp [Aff.nout]
  -- entries of the appended map
  obtain ⟨E, hEin, hEout, hBent⟩ : ∃ E : Aff, E.nin = 1 ∧ E.nout = 1 ∧
      ∀ r c, r ≤ A.nout + 1 → c ≤ A.nin + 1 → B.aff.get r c =
        if r = A.nout + 1 then (if c = A.nin + 1 then 1 else 0)
        else if c = A.nin + 1 then prodOff [A, E] r else prodLin [A, E] r c := by
    unfold appendIoDim at ha
    cases hm : mkAff ⟨[i], "", .f8⟩ ⟨[o], "", .f8⟩ [[step, start], [0, 1]] mdt with
    | error e => rw [hm] at ha; cases ha
    | ok E =>
        rw [hm] at ha
        simp only at ha
        obtain ⟨hEin, hEout⟩ := mkAff_nin hm
        obtain ⟨_, _, _, _, p5⟩ := product_ok ha
        refine ⟨E, hEin, hEout, fun r c hr hc => ?_⟩
        have hEin' : E.nin = 1 := hEin
        have hEout' : E.nout = 1 := hEout
        rw [p5, prodMat]
        simp only [List.map_cons, List.map_nil, sumNat, List.foldr, hEin', hEout', Nat.add_zero]
        rw [get_mkMat _ (by omega) (by omega)]
  have hcolz : dropColZeroB B (some A.nin) (some A.nout) = true := by
    unfold dropColZeroB
    simp only [List.all_eq_true, List.mem_range, Bool.or_eq_true, beq_iff_eq]
    intro r hr
    by_cases hro : A.nout = r
    · left; rw [hro]
    · right
      rw [hBent r A.nin (by omega) (by omega), if_neg (by omega), if_neg (by omega)]
      simp [prodLin, show r < A.nout by omega]
  obtain ⟨d1, d2, d3, d4⟩ := dropIoDim_apply hd hio hcolz
  have hCn1 : C.dom.names = A.dom.names := by
    rw [d1, hn1]
    simp only [dropAt, Aff.nin]
    rw [List.eraseIdx_append_of_length_le le_rfl]
    simp
  have hCn2 : C.rng.names = A.rng.names := by
    rw [d2, hn2]
    simp only [dropAt, Aff.nout]
    rw [List.eraseIdx_append_of_length_le le_rfl]
    simp
  have hCin : C.nin = A.nin := by rw [Aff.nin, hCn1]; rfl
  have hCout : C.nout = A.nout := by rw [Aff.nout, hCn2]; rfl
  -- entries of the dropped map
  have hCent : ∀ r c, r ≤ A.nout → c ≤ A.nin → C.aff.get r c = A.aff.get r c := by
    intro r c hr hc
    obtain ⟨_, _, _, _, _, _, _, hent⟩ := dropIoDim_shape hd hio
    rw [hent r c (by omega) (by omega), skipIdx_some, skipIdx_some]
    by_cases hr' : r < A.nout
    · rw [if_pos hr']
      by_cases hc' : c < A.nin
      · rw [if_pos hc', hBent r c (by omega) (by omega), if_neg (by omega), if_neg (by omega)]
        simp [prodLin, hr', hc']
      · have : c = A.nin := by omega
        subst this
        rw [if_neg (by omega), hBent r _ (by omega) (by omega), if_neg (by omega), if_pos rfl]
        simp [prodOff, hr']
    · have : r = A.nout := by omega
      subst this
      rw [if_neg (by omega)]
      by_cases hc' : c < A.nin
      · rw [if_pos hc', hBent _ c (by omega) (by omega), if_pos rfl, if_neg (by omega)]
        exact (hA.1 c hc').symm
      · have : c = A.nin := by omega
        subst this
        rw [if_neg (by omega), hBent _ _ (by omega) (by omega), if_pos rfl, if_pos rfl]
        exact hA.2.symm
  refine ⟨hCn1, hCn2, fun x => ?_, hCent⟩
  exact apply_congr C A x x hCin hCout
    (fun r c hr hc => hCent r c (by omega) (by omega)) (fun _ _ => rfl)

/-! ## Non-vacuity -/

def exA2 : Aff := ⟨⟨["i", "j", "k"], "d", .f8⟩, ⟨["x", "y", "z"], "r", .f8⟩,
  [[0, 2, 0, 4], [3, 0, 0, -1], [0, 0, 5, 7], [0, 0, 0, 1]]⟩
def exOps : List Op :=
  [.reordD (.ints [2, 0, 1]), .append "t" "w" 5 2 .f8, .inv, .drop (.nm "w") true [some 1, some 2, some 0, some 3],
   .shiftD [1, 2, 3] "s", .renR [(.idx (-1), "q")],
   .composeN [] [⟨⟨["a", "b", "c"], "", .f8⟩, ⟨["x", "y", "z"], "s", .f8⟩, .f8,
      [[1, 1, 0, 0], [0, 1, 0, 0], [0, 0, 1, 0], [0, 0, 0, 1]]⟩]]

example : exA2.bottomExact := by unfold Aff.bottomExact; decide +kernel
example : progExactB exA2 exOps = true := by decide +kernel
example : (match runOps exA2 exOps 0 with
    | .ok B => B.dom.names == ["a", "b", "c"] && B.rng.names == ["k", "i", "q"] | .error _ => false) = true := by
  decide +kernel
example : exA2.noTiny := by
  intro r c hr hc hle
  have hr' : r < 3 := hr
  have hc' : c < 3 := hc
  have key : ∀ r < 3, ∀ c < 3, rabs (exA2.aff.get r c) ≤ (1 : Rat) / 100000 → exA2.aff.get r c = 0 := by
    decide +kernel
  exact key r hr' c hc' hle
example : (match dropIoDim exA2 (.nm "k") false [some 1, some 0, some 2] with
    | .ok B => B.aff == [[0, 2, 4], [3, 0, -1], [0, 0, 1]] | _ => false) = true := by decide +kernel
example : (match appendIoDim exA2 "t" "w" 5 2 with
    | .ok B => (match dropIoDim B (.idx (-1)) true [some 1, some 0, some 2, some 3] with
        | .ok C => C.aff == exA2.aff | _ => false)
    | _ => false) = true := by decide +kernel

end NipyVerif.C01
