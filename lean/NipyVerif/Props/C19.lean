/-
C19 — property theorems about the model in `NipyVerif.Model.C19`.
Only property statements and their non-vacuity examples live here.
-/
import NipyVerif.Lemmas.C19

namespace NipyVerif.C19

/-! ## Slice-timing schedules: every slice count, all eight schedules -/

/-- **one distinct acquisition slot per slice**: for every schedule and every slice
    count the slot vector is a permutation of `0 … n-1` (a bijection slices ↔ slots). -/
theorem st_bijection (s : Sched) (n : Nat) : (slots s n).Perm (List.range n) := by
  cases s <;> simp only [slots]
  · exact List.Perm.refl _
  · exact List.reverse_perm _
  · exact invPerm_perm (eo_perm n)
  · exact invPerm_perm (oe_perm n)
  · exact (List.reverse_perm _).trans (invPerm_perm (eo_perm n))
  · split
    · exact invPerm_perm (oe_perm n)
    · exact invPerm_perm (eo_perm n)
  · exact eo_perm n
  · exact (List.reverse_perm _).trans (eo_perm n)

/-- **within the repetition time**: every slice time lies in `[0, TR)`. -/
theorem st_within_TR (s : Sched) (n : Nat) (tr : Rat) (htr : 0 < tr) :
    ∀ t ∈ times s n tr, 0 ≤ t ∧ t < tr := by
  intro t ht
  obtain ⟨k, hk, rfl⟩ := List.mem_map.1 ht
  have hkn : k < n := List.mem_range.1 ((st_bijection s n).mem_iff.1 hk)
  have hn : (0 : Rat) < n := by exact_mod_cast (by omega : 0 < n)
  have hk' : (k : Rat) < n := by exact_mod_cast hkn
  constructor
  · positivity
  · rw [show (k : Rat) * (tr / n) = tr * (k / n) by ring]
    exact mul_lt_of_lt_one_right htr ((div_lt_one hn).2 hk')

/-- **distinct**: no two slices share an acquisition time. -/
theorem st_times_distinct (s : Sched) (n : Nat) (tr : Rat) (htr : 0 < tr) :
    (times s n tr).Nodup := by
  unfold times
  apply List.Nodup.map_on _ ((st_bijection s n).nodup_iff.2 List.nodup_range)
  intro a ha b _ hab
  have hkn : a < n := List.mem_range.1 ((st_bijection s n).mem_iff.1 ha)
  have hn : (0 : Rat) < n := by exact_mod_cast (by omega : 0 < n)
  have : (tr / (n : Rat)) ≠ 0 := by positivity
  exact_mod_cast mul_right_cancel₀ this hab

/-- the acquisition sequence written from the docstrings: the slice collected at
    slot `k` (`k = 0` first). -/
def docSlice : Sched → Nat → Nat → Nat
  | .s01234, _, k => k
  | .s43210, n, k => n - 1 - k
  | .s02413, n, k => if k < (n + 1) / 2 then 2 * k else 2 * (k - (n + 1) / 2) + 1
  | .s13024, n, k => if k < n / 2 then 2 * k + 1 else 2 * (k - n / 2)
  | .s42031, n, k => n - 1 - (if k < (n + 1) / 2 then 2 * k else 2 * (k - (n + 1) / 2) + 1)
  | .oddEven, n, k =>
      if n % 2 = 0 then (if k < n / 2 then 2 * k + 1 else 2 * (k - n / 2))
      else (if k < (n + 1) / 2 then 2 * k else 2 * (k - (n + 1) / 2) + 1)
  | .s03142, n, k => if k % 2 = 0 then k / 2 else (n + 1) / 2 + k / 2
  | .s41302, n, k => n - 1 - (if k % 2 = 0 then k / 2 else (n + 1) / 2 + k / 2)

/-- **documented order**: for every schedule, every `n` and every slot `k < n`, the
    slice the docstring says is collected `k`-th is a slice of the volume and is
    assigned exactly slot `k` (parity branches of `n` included). -/
theorem st_order (s : Sched) (n k : Nat) (hk : k < n) :
    docSlice s n k < n ∧ (slots s n).getD (docSlice s n k) 0 = k := by
  have hlen_eo : (evens n ++ odds n).length = n := by simpa using (eo_perm n).length_eq
  have hinv_eo : (invPerm (evens n ++ odds n)).length = n := by simp [invPerm, hlen_eo]
  cases s <;> simp only [slots, docSlice]
  · exact ⟨hk, by simp [List.getD_eq_getElem?_getD, List.getElem?_range hk]⟩
  · refine ⟨by omega, ?_⟩
    have := @getD_reverse (List.range n) k (by simpa using hk)
    simp only [List.length_range] at this
    rw [this]; simp [List.getD_eq_getElem?_getD, List.getElem?_range hk]
  · exact ⟨by split <;> omega, slot_eo n k hk⟩
  · exact ⟨by split <;> omega, slot_oe n k hk⟩
  · refine ⟨by split <;> omega, ?_⟩
    have h1 : (if k < (n + 1) / 2 then 2 * k else 2 * (k - (n + 1) / 2) + 1) < n := by split <;> omega
    have := @getD_reverse (invPerm (evens n ++ odds n)) _ (by rw [hinv_eo]; exact h1)
    rw [hinv_eo] at this
    rw [this]; exact slot_eo n k hk
  · split
    · exact ⟨by split <;> omega, slot_oe n k hk⟩
    · exact ⟨by split <;> omega, slot_eo n k hk⟩
  · refine ⟨by split <;> omega, ?_⟩
    rw [List.getD_eq_getElem?_getD]
    split
    · rw [List.getElem?_append_left (by rw [evens_length]; omega),
        evens_getElem? n _ (by omega)]
      simp; omega
    · rw [List.getElem?_append_right (by rw [evens_length]; omega), evens_length,
        show (n + 1) / 2 + k / 2 - (n + 1) / 2 = k / 2 by omega, odds_getElem? n _ (by omega)]
      simp; omega
  · refine ⟨by split <;> omega, ?_⟩
    have h1 : (if k % 2 = 0 then k / 2 else (n + 1) / 2 + k / 2) < n := by split <;> omega
    have := @getD_reverse (evens n ++ odds n) _ (by rw [hlen_eo]; exact h1)
    rw [hlen_eo] at this
    rw [this, List.getD_eq_getElem?_getD]
    split
    · rw [List.getElem?_append_left (by rw [evens_length]; omega),
        evens_getElem? n _ (by omega)]
      simp; omega
    · rw [List.getElem?_append_right (by rw [evens_length]; omega), evens_length,
        show (n + 1) / 2 + k / 2 - (n + 1) / 2 = k / 2 by omega, odds_getElem? n _ (by omega)]
      simp; omega

example : times .s02413 5 1 = [0, 3/5, 1/5, 4/5, 2/5] := by decide +kernel
example : times .s41302 5 1 = [3/5, 1/5, 4/5, 2/5, 0] := by decide +kernel
example : (List.range 6).map (docSlice .oddEven 6) = [1, 3, 5, 0, 2, 4] := by decide

/-! ## Axis conventions: `rollaxis`, `time_slice_diffs`, `pca` -/

/-- every `np.rollaxis` axes list is a permutation of the axes (all `n`, all
    arguments numpy accepts). -/
theorem rollaxis_perm (n : Nat) (axis start : Int) (p : List Nat)
    (h : rollaxisPerm n axis start = .ok p) : p.Perm (List.range n) := by
  unfold rollaxisPerm at h
  cases hax : normAxis n axis with
  | none => simp [hax] at h
  | some ax =>
    have haxn : ax < n := normAxis_lt hax
    simp only [hax] at h
    split_ifs at h
    all_goals first
      | (have := Except.ok.inj h; subst this; exact List.Perm.refl _)
      | (have := Except.ok.inj h; subst this
         refine (List.perm_insertIdx ax _ ?_).trans
           (List.perm_cons_erase (List.mem_range.2 haxn)).symm
         rw [List.length_erase_of_mem (List.mem_range.2 haxn), List.length_range]
         omega)

/-- all valid axis arguments for an `nd`-dimensional array: `-nd … nd-1` -/
def axisRange (nd : Nat) : List Int :=
  (List.range (2 * nd)).map (fun (i : Nat) => (i : Int) - (nd : Int))
/-- the non-negative axis an argument denotes -/
def normI (nd : Nat) (a : Int) : Nat := (if a < 0 then a + (nd : Int) else a).toNat
/-- time axis first, slice axis second, the others in their original order -/
def canonPerm (nd t s : Nat) : List Nat :=
  t :: s :: ((List.range nd).filter (fun i => i ≠ t ∧ i ≠ s))
/-- the slice axis an argument denotes (`None` = last non-time axis) -/
def sliceOf (nd t : Nat) : Option Int → Nat
  | none => if t = nd - 1 then nd - 2 else nd - 1
  | some x => normI nd x

/-- what `time_slice_diffs`' axis bookkeeping must deliver for one table entry:
    refusal exactly when the two axes coincide; otherwise the composite
    transposition is "time first, slice second, rest in order" and the back-roll of
    the volume outputs restores the input's axis order with time removed. -/
def tsdAxisOK (nd : Nat) (ta : Int) (sa : Option Int) : Bool :=
  let t := normI nd ta
  let s := sliceOf nd t sa
  match tsdAxes nd ta sa with
  | .error e => t = s && e = "error:valueError"
  | .ok (p, sa') =>
      t ≠ s && p = canonPerm nd t s &&
      (match rollaxisPerm (nd - 1) 0 sa' with
       | .ok q => q.map (fun i => p.tail.getD i 0) = (List.range nd).erase t
       | .error _ => false)

/-- **axis table of `time_slice_diffs`**: the quantifier "arrays of 2..5 dimensions,
    every time axis and slice axis, negative indices and `None` included" is finite
    at the level of axes lists and is checked completely (244 entries). -/
theorem tsd_axis_table : ∀ nd ∈ [2, 3, 4, 5], ∀ ta ∈ axisRange nd,
    ∀ sa ∈ none :: (axisRange nd).map some, tsdAxisOK nd ta sa = true := by decide +kernel

/-- **same result as on the axis-moved input**: for every array of 2..5 dimensions and
    every valid pair of distinct axes, `time_slice_diffs(arr, ta, sa)` is the loop run on
    the input transposed to (time, slice, rest…), with the volume outputs transposed
    by a `q` that puts their axes back in the input's order. -/
theorem tsd_axis_moved (v : View) (nd : Nat) (hnd : nd ∈ [2, 3, 4, 5]) (hv : v.shape.length = nd)
    (ta : Int) (hta : ta ∈ axisRange nd) (sa : Option Int)
    (hsa : sa ∈ none :: (axisRange nd).map some)
    (hne : normI nd ta ≠ sliceOf nd (normI nd ta) sa) :
    ∃ q, q.map (fun i => (canonPerm nd (normI nd ta) (sliceOf nd (normI nd ta) sa)).tail.getD i 0)
            = (List.range nd).erase (normI nd ta) ∧
         tsd v ta sa = tsdOn v (canonPerm nd (normI nd ta) (sliceOf nd (normI nd ta) sa)) q := by
  have h := tsd_axis_table nd hnd ta hta sa hsa
  unfold tsdAxisOK at h
  unfold tsd
  rw [hv]
  cases h1 : tsdAxes nd ta sa with
  | error e => simp [h1, hne] at h
  | ok ps =>
    obtain ⟨p, sa'⟩ := ps
    simp only [h1] at h
    cases h2 : rollaxisPerm (nd - 1) 0 sa' with
    | error e => simp [h2] at h
    | ok q =>
      simp only [h2, Bool.and_eq_true, decide_eq_true_eq] at h
      obtain ⟨⟨_, hp⟩, hq⟩ := h
      subst hp
      refine ⟨q, hq, ?_⟩
      simp only [h1, h2, bind, Except.bind]

/-- **refusal**: identical time and slice axes raise `ValueError`, for every spelling. -/
theorem tsd_same_axis_refused (v : View) (nd : Nat) (hnd : nd ∈ [2, 3, 4, 5])
    (hv : v.shape.length = nd) (ta : Int) (hta : ta ∈ axisRange nd) (sa : Option Int)
    (hsa : sa ∈ none :: (axisRange nd).map some)
    (heq : normI nd ta = sliceOf nd (normI nd ta) sa) :
    ∃ e, tsd v ta sa = .error e ∧ e = "error:valueError" := by
  have h := tsd_axis_table nd hnd ta hta sa hsa
  unfold tsdAxisOK at h
  unfold tsd
  rw [hv]
  cases h1 : tsdAxes nd ta sa with
  | error e =>
      simp only [h1, Bool.and_eq_true, decide_eq_true_eq] at h
      exact ⟨e, by simp only [h1, bind, Except.bind], h.2⟩
  | ok ps =>
      obtain ⟨p, sa'⟩ := ps
      simp only [h1, Bool.and_eq_true, decide_eq_true_eq] at h
      exact absurd heq h.1.1

/-- table entry for `pca`: the roll puts the PCA axis first keeping the others in
    order, and the back-roll `rollaxis(out, 0, axis+1)` is its inverse. -/
def pcaAxisOK (nd : Nat) (axis : Int) : Bool :=
  let a := normI nd axis
  match rollaxisPerm nd axis 0, rollaxisPerm nd 0 ((a : Int) + 1) with
  | .ok p, .ok q => p = a :: (List.range nd).erase a && composePerm p q = List.range nd
  | _, _ => false

/-- **axis table of `pca`** (2..5 dimensions, every axis, negative included). -/
theorem pca_axis_table : ∀ nd ∈ [2, 3, 4, 5], ∀ ax ∈ axisRange nd, pcaAxisOK nd ax = true := by
  decide +kernel

/-- `pca(data, axis, …)` is the computation on the input with `axis` moved to the
    front, its projections transposed back by the inverse permutation, and the
    reported axis is the non-negative axis. -/
theorem pca_axis_moved (v : View) (nd : Nat) (hnd : nd ∈ [2, 3, 4, 5]) (hv : v.shape.length = nd)
    (axis : Int) (hax : axis ∈ axisRange nd) (ux : Mat) (scale mask : Option Vol)
    (eig : Mat → List Rat × Mat) (ncomp : Nat) :
    ∃ q, composePerm (normI nd axis :: (List.range nd).erase (normI nd axis)) q = List.range nd ∧
      pca v axis ux scale mask eig ncomp =
        pcaOn v (normI nd axis :: (List.range nd).erase (normI nd axis)) q ux scale mask eig ncomp
          (normI nd axis) := by
  have h := pca_axis_table nd hnd axis hax
  unfold pcaAxisOK at h
  unfold pca
  rw [hv]
  cases h1 : rollaxisPerm nd axis 0 with
  | error e => simp [h1] at h
  | ok p =>
    have hn : ((if axis < 0 then axis + (nd : Int) else axis).toNat : Int)
        = (if axis < 0 then axis + (nd : Int) else axis) := by
      have : axis ∈ axisRange nd := hax
      simp only [axisRange, List.mem_map, List.mem_range] at this
      obtain ⟨i, hi, rfl⟩ := this
      split <;> omega
    cases h2 : rollaxisPerm nd 0 (((normI nd axis : Nat) : Int) + 1) with
    | error e => simp [h1, h2] at h
    | ok q =>
      simp only [h1, h2, Bool.and_eq_true, decide_eq_true_eq] at h
      obtain ⟨hp, hq⟩ := h
      subst hp
      refine ⟨q, hq, ?_⟩
      unfold normI at h2
      rw [hn] at h2
      simp only [bind, Except.bind, h1, h2]
      rfl

/-! ## Principal components -/

/-- **explained variance sums to 100 percent** (whenever the total variance is non-zero). -/
theorem pcnt_var_sums_100 (d : List Rat) (h : d.sum ≠ 0) : (pcntVar d).sum = 100 := by
  unfold pcntVar
  rw [sum_map_mul_div, ((orderDesc_perm d).map _).sum_eq, map_getD_range]
  field_simp

/-- **ordered by decreasing explained variance** (positive total variance). -/
theorem pcnt_var_decreasing (d : List Rat) (h : 0 < d.sum) :
    (pcntVar d).Pairwise (fun a b => b ≤ a) := by
  unfold pcntVar
  rw [List.pairwise_map]
  have hs := List.pairwise_mergeSort
    (le := fun i j => decide (d.getD j 0 ≤ d.getD i 0))
    (fun a b c hab hbc => by
      simp only [decide_eq_true_eq] at *; exact le_trans hbc hab)
    (fun a b => by
      simp only [Bool.or_eq_true, decide_eq_true_eq]; exact le_total _ _)
    (List.range d.length)
  refine hs.imp ?_
  intro a b hab
  simp only [decide_eq_true_eq] at hab
  apply div_le_div_of_nonneg_right _ h.le
  linarith

/-- every component has a percentage: as many as eigenvalues. -/
theorem pcnt_var_length (d : List Rat) : (pcntVar d).length = d.length := by
  simp [pcntVar, (orderDesc_perm d).length_eq]

/-- **masked computation equals computation on the extracted voxels** (one block):
    with a 0/1 mask, each covariance entry accumulated over all voxels with weights
    `scale · mask` equals the entry accumulated over the voxels the mask selects. -/
theorem masked_entry_eq_extracted (ux : Mat) (vs : List (List Rat × Rat × Rat))
    (h01 : ∀ v ∈ vs, v.2.2 = 0 ∨ v.2.2 = 1) (i j : Nat) :
    covEntry (vs.map (fun v => projVox ux (v.1, v.2.1 * v.2.2))) i j
      = covEntry ((vs.filter (fun v => v.2.2 = 1)).map (fun v => projVox ux (v.1, v.2.1))) i j := by
  induction vs with
  | nil => rfl
  | cons v vs ih =>
      have ih' := ih (fun w hw => h01 w (List.mem_cons_of_mem _ hw))
      unfold covEntry at ih' ⊢
      rcases h01 v List.mem_cons_self with h | h
      · simp only [List.map_cons, List.sum_cons, List.filter_cons, h, mul_zero, projVox_zero_getD,
          zero_mul, zero_add]
        rw [ih']; simp
      · simp only [List.map_cons, List.sum_cons, List.filter_cons, h, mul_one]
        rw [ih']; simp

/-- **masked computation equals computation on the extracted voxels** (whole
    `_get_covariance`): accumulating `dot(YX, YX.T)` slice by slice with a 0/1 mask gives
    the covariance of the single 2-D block of extracted voxels. -/
theorem masked_eq_extracted (ux : Mat) (slices : List (List (List Rat × Rat × Rat)))
    (h01 : ∀ sl ∈ slices, ∀ v ∈ sl, v.2.2 = 0 ∨ v.2.2 = 1) :
    covariance ux (slices.map (fun sl => sl.map (fun v => (v.1, v.2.1 * v.2.2))))
      = covariance ux [(slices.flatten.filter (fun v => v.2.2 = 1)).map (fun v => (v.1, v.2.1))] := by
  unfold covariance
  apply List.map_congr_left; intro i _
  apply List.map_congr_left; intro j _
  have h := masked_entry_eq_extracted ux slices.flatten
    (fun v hv => by
      obtain ⟨sl, hsl, hvs⟩ := List.mem_flatten.1 hv
      exact h01 sl hsl v hvs) i j
  simp only [List.map_map, List.map_cons, List.map_nil, List.sum_cons, List.sum_nil, add_zero]
  rw [show (List.map ((fun ps => covEntry ps i j) ∘ (fun sl => List.map (projVox ux) sl) ∘
        fun sl => List.map (fun v => (v.1, v.2.1 * v.2.2)) sl) slices)
      = (slices.map (fun sl => sl.map (fun v => projVox ux (v.1, v.2.1 * v.2.2)))).map
          (fun ps => covEntry ps i j) by simp [List.map_map, Function.comp_def]]
  rw [covEntry_flatten, ← List.map_flatten, h]
  rfl

open Matrix in
/-- **orthonormal components** (`_partial`: `svd` and `eigh` are not modelled; their
    contracts are the hypotheses): if the rows of `UX` are orthonormal and the columns of
    `Vs` are orthonormal then the basis vectors `UXᵀ·Vs` are orthonormal. -/
theorem pca_basis_orthonormal_partial {r n : ℕ} (UX : Matrix (Fin r) (Fin n) ℚ)
    (Vs : Matrix (Fin r) (Fin r) ℚ) (hU : UX * UXᵀ = 1) (hV : Vsᵀ * Vs = 1) :
    (UXᵀ * Vs)ᵀ * (UXᵀ * Vs) = 1 := by
  rw [Matrix.transpose_mul, Matrix.transpose_transpose, Matrix.mul_assoc, ← Matrix.mul_assoc UX, hU,
    Matrix.one_mul, hV]

open Matrix in
/-- **equal to the SVD of the projected, standardised data** (`_partial`, `eigh`
    contract as hypothesis): with `C = YX·YXᵀ`, `C·Vs = Vs·diag D` and orthonormal `Vs`, the
    component scores `Vsᵀ·YX` are mutually orthogonal with squared norms `D` — i.e.
    `YX = Vs·diag(√D)·Wᵀ` is a singular value decomposition and `D/ΣD` the explained variance. -/
theorem pca_svd_equivalence_partial {r m : ℕ} (YX : Matrix (Fin r) (Fin m) ℚ)
    (Vs : Matrix (Fin r) (Fin r) ℚ) (D : Fin r → ℚ) (hV : Vsᵀ * Vs = 1)
    (hE : (YX * YXᵀ) * Vs = Vs * Matrix.diagonal D) :
    (Vsᵀ * YX) * (Vsᵀ * YX)ᵀ = Matrix.diagonal D := by
  rw [Matrix.transpose_mul, Matrix.transpose_transpose, Matrix.mul_assoc, ← Matrix.mul_assoc YX, hE,
    ← Matrix.mul_assoc, hV, Matrix.one_mul]

example : (1 : Matrix (Fin 2) (Fin 2) ℚ) * (1 : Matrix (Fin 2) (Fin 2) ℚ).transpose = 1 := by simp
example : (pcntVar [1, 3, 4]).sum = 100 := pcnt_var_sums_100 _ (by norm_num)

/-! ## Mask utilities -/

/-- **threshold semantics of `intersect_masks`**: for 0/1 masks of a common shape a
    voxel is kept iff the number of masks containing it exceeds
    `min(threshold, 1-1e-7) · n_masks`. -/
theorem intersect_threshold_semantics (m : List Rat) (ms : List (List Rat)) (thr cap : Rat)
    (n v : Nat) (hv : v < n) (hlen : ∀ k ∈ m :: ms, k.length = n)
    (h01 : ∀ k ∈ m :: ms, k.getD v 0 = 0 ∨ k.getD v 0 = 1) (h0 : 0 ≤ thr) (h1 : thr ≤ 1) :
    ∃ r, intersectMasks (m :: ms) thr cap = .ok r ∧
      r.getD v false = decide (min thr cap * ((m :: ms).length : Rat)
          < (((m :: ms).filter (fun k => k.getD v 0 = 1)).length : Rat)) := by
  unfold intersectMasks
  rw [if_neg (not_lt.2 h1), if_neg (not_lt.2 h0)]
  refine ⟨_, rfl, ?_⟩
  have hm : m.length = n := hlen m List.mem_cons_self
  have hsum : (maskSum (m :: ms)).getD v 0 = ((m :: ms).map (fun k => k.getD v 0)).sum := by
    unfold maskSum
    rw [foldl_zipWith_add_getD ms _ n v hv (by simp [hm])
      (fun k hk => hlen k (List.mem_cons_of_mem _ hk))]
    have : (m.map truncInt).getD v 0 = m.getD v 0 := by
      have hx := h01 m List.mem_cons_self
      rw [List.getD_eq_getElem?_getD, List.getD_eq_getElem?_getD] at *
      rw [List.getElem?_map, List.getElem?_eq_getElem (by omega : v < m.length)] at *
      simp only [Option.map_some, Option.getD_some] at *
      rcases hx with hx | hx <;> rw [hx] <;> decide +kernel
    rw [this]; simp
  have hlen' : (maskSum (m :: ms)).length = n := by
    have : ∀ (l : List (List Rat)) (acc : List Rat), acc.length = n → (∀ k ∈ l, k.length = n) →
        (l.foldl (fun a k => List.zipWith (· + ·) a k) acc).length = n := by
      intro l
      induction l with
      | nil => intro acc h _; simpa using h
      | cons k l ih =>
          intro acc h hk
          simp only [List.foldl_cons]
          exact ih _ (by simp [h, hk k List.mem_cons_self]) (fun x hx => hk x (List.mem_cons_of_mem _ hx))
    exact this ms _ (by simp [hm]) (fun k hk => hlen k (List.mem_cons_of_mem _ hk))
  rw [List.getD_eq_getElem?_getD, List.getElem?_map,
    List.getElem?_eq_getElem (by omega : v < (maskSum (m :: ms)).length)]
  simp only [Option.map_some, Option.getD_some]
  have hg : (maskSum (m :: ms))[v]'(by omega) = (maskSum (m :: ms)).getD v 0 := by
    rw [List.getD_eq_getElem?_getD, List.getElem?_eq_getElem (by omega : v < (maskSum (m :: ms)).length)]
    rfl
  rw [hg, hsum, sum_getD_eq_count (m :: ms) v h01]

/-- **monotone in the threshold**: raising the threshold never adds voxels. -/
theorem intersect_monotone (masks : List (List Rat)) (t1 t2 cap : Rat) (r1 r2 : List Bool)
    (h12 : t1 ≤ t2) (hk : 0 ≤ ((masks.length : Nat) : Rat))
    (e1 : intersectMasks masks t1 cap = .ok r1) (e2 : intersectMasks masks t2 cap = .ok r2)
    (v : Nat) (hv : r2.getD v false = true) : r1.getD v false = true := by
  unfold intersectMasks at e1 e2
  split_ifs at e1 e2
  have h1 := Except.ok.inj e1; have h2 := Except.ok.inj e2
  subst h1; subst h2
  rw [List.getD_eq_getElem?_getD, List.getElem?_map] at hv ⊢
  cases hs : (maskSum masks)[v]? with
  | none => simp [hs] at hv
  | some x =>
      simp only [hs, Option.map_some, Option.getD_some, decide_eq_true_eq] at hv ⊢
      have : min t1 cap ≤ min t2 cap := min_le_min_right _ h12
      nlinarith [mul_le_mul_of_nonneg_right this hk]

/-- **affine invariance, threshold search**: the position of the widest histogram gap
    is unchanged by `x ↦ a·x + b` with `a > 0` (first-maximum tie rule included). -/
theorem hist_gap_affine_invariant (a b : Rat) (ha : 0 < a) (l : List Rat) :
    argmax (l.map (fun x => a * x + b)) = argmax l := argmax_affine a ha b l

/-- **affine invariance, mask**: thresholding the mapped reference at the mapped
    threshold gives the same mask. -/
theorem threshold_mask_affine_invariant (a b t : Rat) (ha : 0 < a) (ref : List Rat) :
    (ref.map (fun x => a * x + b)).map (fun x => decide (a * t + b ≤ x))
      = ref.map (fun x => decide (t ≤ x)) := by
  rw [List.map_map]
  apply List.map_congr_left
  intro x _
  simp only [Function.comp]
  congr 1
  apply propext
  constructor
  · intro h; nlinarith
  · intro h; nlinarith

/-! ## Generators and difference diagnostics -/

/-- **parcels partition the voxels**: with the default labels (`np.unique(data)`) every
    voxel lies in exactly one parcel. -/
theorem parcels_partition (data : List Rat) (v : Nat) (hv : v < data.length) :
    ((parcels data none []).map (fun p => p.getD v false)).count true = 1 := by
  have h1 : parcels data none [] = (unique data).map (fun x => data.map (fun y => decide (y = x))) := by
    simp [parcels, parcel, List.filter_map, Function.comp_def, List.map_map]
  rw [h1, List.map_map]
  have h2 : ((fun p : List Bool => p.getD v false) ∘ fun x => data.map (fun y => decide (y = x)))
      = fun x => decide (data[v] = x) := by
    funext x
    simp [List.getD_eq_getElem?_getD, List.getElem?_map, List.getElem?_eq_getElem hv]
  rw [h2, count_decide_eq]
  exact List.count_eq_one_of_mem (unique_nodup data) ((mem_unique data _).2 (List.getElem_mem hv))

/-- **difference diagnostics equal their definition**: per-volume means, per-slice
    mean squared differences of successive volumes, and their per-volume means; one
    row per pair of successive time points. -/
theorem tsd_definition (S V : Nat) (x : List Vol) :
    (tsdCore S V x).means = x.map (fun vol => mean vol.flatten) ∧
    (tsdCore S V x).sliceds = (List.zipWith d2 x x.tail).map (fun d => d.map mean) ∧
    (tsdCore S V x).volds = ((List.zipWith d2 x x.tail).map (fun d => d.map mean)).map mean ∧
    (tsdCore S V x).sliceds.length = x.length - 1 := by
  refine ⟨rfl, rfl, rfl, ?_⟩
  simp [tsdCore, diffs]

/-- entry `(s, v)` of the squared-difference volume is `(b[s][v] - a[s][v])²` -/
theorem d2_entry (a b : Vol) (s v : Nat) (hs : s < a.length) (hs' : s < b.length)
    (hv : v < a[s].length) (hv' : v < b[s].length) :
    ((d2 a b).getD s []).getD v 0 = (b[s][v] - a[s][v]) * (b[s][v] - a[s][v]) := by
  simp [d2, sq, List.getD_eq_getElem?_getD, List.getElem?_zipWith, List.getElem?_eq_getElem hs,
    List.getElem?_eq_getElem hs', List.getElem?_eq_getElem hv, List.getElem?_eq_getElem hv']




/-- **slice of largest difference**: for each slice the search returns the running
    maximum of the slice's mean squared differences (never below 0) and, unless all
    are ≤ 0, the squared-difference slice of the *first* time point attaining it. -/
theorem sliceMax_spec (V : Nat) (ds : List (List Rat)) :
    (∀ d ∈ ds, mean d ≤ (sliceMax V ds).1) ∧ 0 ≤ (sliceMax V ds).1 ∧
    (sliceMax V ds = (0, List.replicate V 0) ∨
      ∃ k, ∃ hk : k < ds.length, sliceMax V ds = (mean ds[k], ds[k]) ∧
        ∀ j, ∀ hj : j < k, mean (ds[j]'(by omega)) < mean ds[k]) := by
  unfold sliceMax
  induction ds using List.reverseRecOn with
  | nil => simp
  | append_singleton ds d ih =>
    rw [List.foldl_append]
    simp only [List.foldl_cons, List.foldl_nil]
    obtain ⟨h1, h2, h3⟩ := ih
    generalize ds.foldl maxUpd (0, List.replicate V 0) = r at h1 h2 h3 ⊢
    unfold maxUpd
    by_cases hlt : r.1 < mean d
    · rw [if_pos hlt]
      refine ⟨?_, by simp only; linarith, Or.inr ⟨ds.length, by simp, by simp, ?_⟩⟩
      · intro e he
        rcases List.mem_append.1 he with he | he
        · exact le_of_lt (lt_of_le_of_lt (h1 e he) hlt)
        · simp only [List.mem_singleton] at he; subst he; exact le_refl _
      · intro j hj
        rw [List.getElem_append_left hj]
        simp only [List.getElem_concat_length]
        exact lt_of_le_of_lt (h1 _ (List.getElem_mem _)) hlt
    · rw [if_neg hlt]
      rw [not_lt] at hlt
      refine ⟨?_, h2, ?_⟩
      · intro e he
        rcases List.mem_append.1 he with he | he
        · exact h1 e he
        · simp only [List.mem_singleton] at he; subst he; exact hlt
      · rcases h3 with h3 | ⟨k, hk, hk1, hk2⟩
        · exact Or.inl h3
        · refine Or.inr ⟨k, by simp; omega, ?_, ?_⟩
          · rw [List.getElem_append_left hk]; exact hk1
          · intro j hj
            rw [List.getElem_append_left (by omega), List.getElem_append_left hk]
            exact hk2 j hj

/-- **threshold = 0 is the union** (0/1 masks, `cap > 0`). -/
theorem intersect_union (m : List Rat) (ms : List (List Rat)) (cap : Rat) (hcap : 0 < cap)
    (n v : Nat) (hv : v < n) (hlen : ∀ k ∈ m :: ms, k.length = n)
    (h01 : ∀ k ∈ m :: ms, k.getD v 0 = 0 ∨ k.getD v 0 = 1) :
    ∃ r, intersectMasks (m :: ms) 0 cap = .ok r ∧
      (r.getD v false = true ↔ ∃ k ∈ m :: ms, k.getD v 0 = 1) := by
  obtain ⟨r, hr, hs⟩ := intersect_threshold_semantics m ms 0 cap n v hv hlen h01 (le_refl _) (by norm_num)
  refine ⟨r, hr, ?_⟩
  rw [hs, min_eq_left hcap.le, zero_mul, decide_eq_true_eq]
  constructor
  · intro h
    have : 0 < ((m :: ms).filter (fun k => k.getD v 0 = 1)).length := by exact_mod_cast h
    obtain ⟨k, hk⟩ := List.exists_mem_of_length_pos this
    have := List.mem_filter.1 hk
    exact ⟨k, this.1, by simpa using this.2⟩
  · rintro ⟨k, hk, hk1⟩
    have : k ∈ (m :: ms).filter (fun k => k.getD v 0 = 1) := List.mem_filter.2 ⟨hk, by simpa using hk1⟩
    exact_mod_cast List.length_pos_of_mem this

/-- **threshold = 1 is the intersection** (0/1 masks; `cap = 1 - 1e-7` satisfies the
    hypotheses for fewer than 10⁷ masks). -/
theorem intersect_all (m : List Rat) (ms : List (List Rat)) (cap : Rat) (hcap : cap < 1)
    (hcap2 : (((m :: ms).length : Nat) : Rat) * (1 - cap) < 1)
    (n v : Nat) (hv : v < n) (hlen : ∀ k ∈ m :: ms, k.length = n)
    (h01 : ∀ k ∈ m :: ms, k.getD v 0 = 0 ∨ k.getD v 0 = 1) :
    ∃ r, intersectMasks (m :: ms) 1 cap = .ok r ∧
      (r.getD v false = true ↔ ∀ k ∈ m :: ms, k.getD v 0 = 1) := by
  obtain ⟨r, hr, hs⟩ := intersect_threshold_semantics m ms 1 cap n v hv hlen h01 (by norm_num) (le_refl _)
  refine ⟨r, hr, ?_⟩
  rw [hs, min_eq_right hcap.le, decide_eq_true_eq]
  have hle := List.length_filter_le (fun k : List Rat => decide (k.getD v 0 = 1)) (m :: ms)
  constructor
  · intro h
    have hcount : ((m :: ms).filter (fun k => k.getD v 0 = 1)).length = (m :: ms).length := by
      by_contra hne
      have hlt : ((m :: ms).filter (fun k => k.getD v 0 = 1)).length + 1 ≤ (m :: ms).length := by omega
      have : ((((m :: ms).filter (fun k => k.getD v 0 = 1)).length : Nat) : Rat) + 1
          ≤ (((m :: ms).length : Nat) : Rat) := by exact_mod_cast hlt
      nlinarith
    intro k hk
    have := (List.filter_eq_self.1 ((List.filter_sublist (l := m :: ms)).eq_of_length hcount)) k hk
    simpa using this
  · intro h
    have : (m :: ms).filter (fun k => k.getD v 0 = 1) = m :: ms :=
      List.filter_eq_self.2 (fun k hk => by simpa using h k hk)
    rw [this]
    have hpos : (0 : Rat) < (((m :: ms).length : Nat) : Rat) := by
      simp only [List.length_cons]; positivity
    nlinarith


/-! ## Non-vacuity of the hypotheses -/

example : (1 : Rat) - 1 / 10000000 < 1 ∧ ((([[1, 0], [1, 1], [0, 1]] : List (List Rat)).length : Nat) : Rat)
    * (1 - (1 - 1 / 10000000)) < 1 := by norm_num
example : (-1 : Int) ∈ axisRange 4 ∧ (none : Option Int) ∈ none :: (axisRange 4).map some ∧
    normI 4 (-1) ≠ sliceOf 4 (normI 4 (-1)) none := by decide
example : tsdAxes 4 (-1) none = .ok ([3, 2, 0, 1], 3) := by decide +kernel
example : rollaxisPerm 4 2 0 = .ok [2, 0, 1, 3] := by decide +kernel
example : (0 : Rat) < [1, 3, 4].sum := by norm_num
example : (sliceMax 2 [[1, 1], [4, 2], [3, 3]]) = (3, [4, 2]) := by decide +kernel
example : ((parcels [1, 1, 2, 1] none []).map (fun p => p.getD 2 false)).count true = 1 :=
  parcels_partition [1, 1, 2, 1] 2 (by decide)

end NipyVerif.C19
