/-
C16 (part L) — the level-2 wrappers and `dsyr2k` of `fff_blas.c` compute the row-major
definition under their flag / operand swaps; the LAPACK wrappers' double transposition is neutral.
-/
import NipyVerif.Model.C16L
import NipyVerif.Lemmas.C16

namespace NipyVerif.C16

/-- `fff_blas_dger`: operands swapped, `m = size2`, `n = size1`: `A + alpha x yᵀ` -/
theorem blas_rowmajor_ger (al : Rat) (x y : Nat → Rat) (A : Mat) (i j : Nat) :
    (fffGer al x y A).get i j = A.get i j + al * x i * y j := by
  simp only [fffGer, gerF, Mat.T, swIf, mn, ord2, Gen.gerSwapsOperands, Gen.gerMIsSize2, Gen.syrSwapUplo, Gen.syr2SwapUplo, Gen.syr2SwapsOperands, Gen.symvSwapUplo, Gen.trmvSwapUplo, Gen.trmvSwapTrans, Gen.syr2kSwapUplo, Gen.syr2kSwapTrans, Gen.syr2kSwapsOperands, ↓reduceIte, Bool.false_eq_true]; ring

/-- `fff_blas_dsyr`: `SWAP_UPLO` updates the caller's triangle of `A + alpha x xᵀ`, the other is untouched -/
theorem blas_rowmajor_syr (u : Uplo) (al : Rat) (x : Nat → Rat) (A : Mat) (i j : Nat) :
    (fffSyr u al x A).get i j = if inTri u i j then A.get i j + al * x i * x j else A.get i j := by
  cases u <;> simp only [fffSyr, syrF, Uplo.swap, Mat.T, inTri, decide_eq_true_eq, swIf, mn, ord2, Gen.gerSwapsOperands, Gen.gerMIsSize2, Gen.syrSwapUplo, Gen.syr2SwapUplo, Gen.syr2SwapsOperands, Gen.symvSwapUplo, Gen.trmvSwapUplo, Gen.trmvSwapTrans, Gen.syr2kSwapUplo, Gen.syr2kSwapTrans, Gen.syr2kSwapsOperands, ↓reduceIte, Bool.false_eq_true] <;>
    (split_ifs <;> first | rfl | ring)

/-- `fff_blas_dsyr2`: `SWAP_UPLO` and the two vectors swapped -/
theorem blas_rowmajor_syr2 (u : Uplo) (al : Rat) (x y : Nat → Rat) (A : Mat) (i j : Nat) :
    (fffSyr2 u al x y A).get i j =
      if inTri u i j then A.get i j + al * x i * y j + al * y i * x j else A.get i j := by
  cases u <;> simp only [fffSyr2, syr2F, Uplo.swap, Mat.T, inTri, decide_eq_true_eq, swIf, mn, ord2, Gen.gerSwapsOperands, Gen.gerMIsSize2, Gen.syrSwapUplo, Gen.syr2SwapUplo, Gen.syr2SwapsOperands, Gen.symvSwapUplo, Gen.trmvSwapUplo, Gen.trmvSwapTrans, Gen.syr2kSwapUplo, Gen.syr2kSwapTrans, Gen.syr2kSwapsOperands, ↓reduceIte, Bool.false_eq_true] <;>
    (split_ifs <;> first | rfl | ring)

/-- `fff_blas_dsymv`: `alpha sym(A) x + beta y` with the caller's triangle -/
theorem blas_rowmajor_symv (u : Uplo) (al be : Rat) (A : Mat) (x y : Nat → Rat) (i : Nat) :
    fffSymv u al A x be y i = al * sumTo A.r (fun l => (symOf u A).get i l * x l) + be * y i := by
  cases u <;> simp only [fffSymv, symvF, Uplo.swap, Mat.T, symOf, inTri, decide_eq_true_eq, swIf, mn, ord2, Gen.gerSwapsOperands, Gen.gerMIsSize2, Gen.syrSwapUplo, Gen.syr2SwapUplo, Gen.syr2SwapsOperands, Gen.symvSwapUplo, Gen.trmvSwapUplo, Gen.trmvSwapTrans, Gen.syr2kSwapUplo, Gen.syr2kSwapTrans, Gen.syr2kSwapsOperands, ↓reduceIte, Bool.false_eq_true] <;>
    (congr 2; apply sumTo_congr; intro l _;
     split_ifs <;> first | ring1 | (have hil : l = i := by omega
                                    subst hil; ring1) | (exfalso; omega))

/-- `fff_blas_dtrmv`: `SWAP_UPLO`, `SWAP_TRANS`, diag kept: `op(tri(A)) x`, all 8 flag combinations -/
theorem blas_rowmajor_trmv (u : Uplo) (t : Trans) (d : Diag) (A : Mat) (x : Nat → Rat) (i : Nat) :
    fffTrmv u t d A x i = sumTo A.r (fun l => (op t (triOf u d A)).get i l * x l) := by
  cases u <;> cases t <;> cases d <;>
    simp only [fffTrmv, trmvF, Uplo.swap, Trans.swap, Mat.T, triOf, inTri, op, decide_eq_true_eq, swIf, mn, ord2, Gen.gerSwapsOperands, Gen.gerMIsSize2, Gen.syrSwapUplo, Gen.syr2SwapUplo, Gen.syr2SwapsOperands, Gen.symvSwapUplo, Gen.trmvSwapUplo, Gen.trmvSwapTrans, Gen.syr2kSwapUplo, Gen.syr2kSwapTrans, Gen.syr2kSwapsOperands, ↓reduceIte, Bool.false_eq_true] <;>
    (apply sumTo_congr; intro l _; split_ifs <;> first | ring1 | (subst_vars; ring1) | (exfalso; omega))

/-- `fff_blas_dtrsv`: what the column-major routine leaves (solution of ITS system, swapped flags)
    solves the caller's system `op(tri(A)) X = b` -/
theorem blas_rowmajor_trsv (u : Uplo) (t : Trans) (d : Diag) (A : Mat) (b X : Nat → Rat)
    (h : IsTrsvF (swIf Gen.trsvSwapUplo Uplo.swap u) (swIf Gen.trsvSwapTrans Trans.swap t) d A.r A.T b X) :
    ∀ i, i < A.r → sumTo A.r (fun l => (op t (triOf u d A)).get i l * X l) = b i := by
  cases u <;> cases t <;> cases d <;>
    simp only [IsTrsvF, Uplo.swap, Trans.swap, Mat.T, triOf, inTri, op, decide_eq_true_eq, swIf,
      Gen.trsvSwapUplo, Gen.trsvSwapTrans, ↓reduceIte] at h ⊢ <;>
    (intro i hi; rw [← h i hi]; apply sumTo_congr; intro l _;
     split_ifs <;> first | ring1 | (subst_vars; ring1) | (exfalso; omega))

/-- `fff_blas_dsyr2k` on square operands (the only shape accepted by the wrapper's choice of `k` and by
    the Python binding): the caller's triangle of `alpha (op(A) op(B)ᵀ + op(B) op(A)ᵀ) + beta C` -/
theorem blas_rowmajor_syr2k (u : Uplo) (t : Trans) (al be : Rat) (A B C : Mat) (i j : Nat)
    (hsq : B.r = B.c) :
    (fffSyr2k u t al A B be C).get i j =
      if inTri u i j then
        al * sumTo B.c (fun l => (op t A).get i l * (op t B).get j l + (op t B).get i l * (op t A).get j l)
          + be * C.get i j
      else C.get i j := by
  cases u <;> cases t <;>
    simp only [fffSyr2k, syr2kF, Uplo.swap, Trans.swap, Mat.T, inTri, op, hsq, decide_eq_true_eq, swIf, mn, ord2, Gen.gerSwapsOperands, Gen.gerMIsSize2, Gen.syrSwapUplo, Gen.syr2SwapUplo, Gen.syr2SwapsOperands, Gen.symvSwapUplo, Gen.trmvSwapUplo, Gen.trmvSwapTrans, Gen.syr2kSwapUplo, Gen.syr2kSwapTrans, Gen.syr2kSwapsOperands, ↓reduceIte, Bool.false_eq_true] <;>
    (split_ifs <;> first | rfl | (congr 2; apply sumTo_congr; intro l _; ring))

/-- `fff_lapack_dpotrf / dgetrf / dgeqrf`: transposing into `Aux`, letting the column-major routine
    read that buffer, and transposing back hands the routine `A` itself and returns its result
    unchanged — no flag has to be swapped (`LAPACK_UPLO` is the caller's), `m = size1`, `n = size2`. -/
theorem lapack_via_aux_neutral (F : Mat → Mat) (A : Mat) :
    (lapackViaAux F A).get = (F ⟨A.r, A.c, A.get⟩).get ∧
    (lapackViaAux F A).r = (F ⟨A.r, A.c, A.get⟩).r ∧ (lapackViaAux F A).c = (F ⟨A.r, A.c, A.get⟩).c := by
  refine ⟨rfl, rfl, rfl⟩

/-- `fff_lapack_dgesdd` hands the column-major routine the buffer of `A` itself, i.e. `Aᵀ`, with the
    roles of `U` and `Vt` exchanged.  If the routine returns `Aᵀ = U* diag(s) Vt*`, then the buffers,
    read row-major, are the factors of `A`: `A = (Vt*)ᵀ diag(s) (U*)ᵀ` — nothing is left to transpose. -/
theorem lapack_gesdd_bookkeeping (A Us Vts : Mat) (s : Nat → Rat) (d : Nat)
    (h : ∀ i j, A.T.get i j = sumTo d (fun k => Us.get i k * s k * Vts.get k j)) :
    ∀ i j, A.get i j = sumTo d (fun k => Vts.T.get i k * s k * Us.T.get k j) := by
  intro i j
  have := h j i
  simp only [Mat.T] at this ⊢
  rw [this]
  apply sumTo_congr
  intro k _
  ring

/-- the hypothesis of `blas_rowmajor_trsv` is satisfiable: `A = [[2]]`, `b = [4]`, `X = [2]` -/
example : IsTrsvF (swIf Gen.trsvSwapUplo Uplo.swap .U) (swIf Gen.trsvSwapTrans Trans.swap .N) .N 1
    (⟨1, 1, fun _ _ => 2⟩ : Mat).T (fun _ => 4) (fun _ => 2) := by
  intro i hi
  have : i = 0 := by omega
  subst this
  simp [swIf, Gen.trsvSwapUplo, Gen.trsvSwapTrans, Uplo.swap, Trans.swap, op, triOf, Mat.T, sumTo]
  norm_num

/-- the hypothesis of `lapack_gesdd_bookkeeping` is satisfiable: `A = [[6]] = [1]·6·[1]` -/
example : ∀ i j, (⟨1, 1, fun _ _ => 6⟩ : Mat).T.get i j =
    sumTo 1 (fun k => (⟨1, 1, fun _ _ => 1⟩ : Mat).get i k * (fun _ => (6 : Rat)) k * (⟨1, 1, fun _ _ => 1⟩ : Mat).get k j) := by
  intro i j; simp [Mat.T, sumTo]

example : (fffSyr .L 2 (fun i => (i : Nat) + 1) ⟨2, 2, fun _ _ => 0⟩).get 1 0 = 4 ∧
    (fffSyr .L 2 (fun i => (i : Nat) + 1) ⟨2, 2, fun _ _ => 0⟩).get 0 1 = 0 := by decide +kernel

end NipyVerif.C16
