/-
C15 — whole-loop theorems about `Lips1d` / `Lips2d` / `Lips3d`
(model: `NipyVerif.Model.C15Lips`).  `P : Num` carries libm (`sqrt`, `acos`,
`PI`); every statement holds for all `P`, or under the stated algebraic law of
`P.sq`.  `lipsMu1/2/3 P d n0 n1 n2 M X` are the sums the loops accumulate in
`l1, l2, l3` (`l0` is the Euler characteristic `ec3/ec2/ec1` of Props/C15),
`d` the dimension of the triangulation, `M` the (padded) mask, `X` the
coordinate field.
-/
import NipyVerif.Lemmas.C15Lips
import NipyVerif.Props.C15

namespace NipyVerif.C15

/-- `d` is a dimension the code supports -/
def Dim (d : Nat) : Prop := d = 1 ∨ d = 2 ∨ d = 3

/-- a voxel outside the mask contributes nothing -/
theorem vox_zero (P : Num) (d : Nat) (hd : Dim d) (M : Field) (X : Pt → List Rat) (x : Pt)
    (h : M x.1 x.2.1 x.2.2 = 0) :
    l1Vox P d M X x = 0 ∧ l2Vox P d M X x = 0 ∧ l3Vox P d M X x = 0 := by
  have z : ∀ k, (k = 2 ∨ k = 3 ∨ k = 4) → ∀ f, tsum (table d k) M X x f = 0 := fun k hk f =>
    tsum_zero _ _ _ _ _ (fun s hs => wt_eq_zero_of_head M x s (table_head0 d k hd hk s hs) h)
  simp only [l1Vox, l2Vox, l3Vox, z 2 k234.1, z 3 k234.2.1, z 4 k234.2.2]
  norm_num

/-- **Padding.**  Enlarging the array around the mask (zeros appended on the far
    side of every axis, any coordinates there) changes none of `mu1, mu2, mu3`. -/
theorem lips_padding_invariant (P : Num) (d : Nat) (hd : Dim d) (n0 n1 n2 m0 m1 m2 : Nat) (M : Field)
    (X : Pt → List Rat) (h0 : n0 ≤ m0) (h1 : n1 ≤ m1) (h2 : n2 ≤ m2) (hM : SuppIn n0 n1 n2 M) :
    lipsMu1 P d m0 m1 m2 M X = lipsMu1 P d n0 n1 n2 M X ∧
    lipsMu2 P d m0 m1 m2 M X = lipsMu2 P d n0 n1 n2 M X ∧
    lipsMu3 P d m0 m1 m2 M X = lipsMu3 P d n0 n1 n2 M X := by
  unfold lipsMu1 lipsMu2 lipsMu3
  refine ⟨sum3Q_mono h0 h1 h2 (fun i j k hn => ?_), sum3Q_mono h0 h1 h2 (fun i j k hn => ?_),
    sum3Q_mono h0 h1 h2 (fun i j k hn => ?_)⟩
  · exact (vox_zero P d hd M X (i, j, k) (hM i j k hn)).1
  · exact (vox_zero P d hd M X (i, j, k) (hM i j k hn)).2.1
  · exact (vox_zero P d hd M X (i, j, k) (hM i j k hn)).2.2

/-- **Position in the array.**  Moving the mask by `(t0,t1,t2)` inside a
    correspondingly larger array, the coordinate field moving with it, changes none
    of `mu1, mu2, mu3`. -/
theorem lips_position_invariant (P : Num) (d : Nat) (hd : Dim d) (t0 t1 t2 n0 n1 n2 : Nat) (M : Field)
    (X X' : Pt → List Rat) (hX : ∀ p, X' (padd (t0, t1, t2) p) = X p) :
    lipsMu1 P d (t0 + n0) (t1 + n1) (t2 + n2) (shiftF t0 t1 t2 M) X' = lipsMu1 P d n0 n1 n2 M X ∧
    lipsMu2 P d (t0 + n0) (t1 + n1) (t2 + n2) (shiftF t0 t1 t2 M) X' = lipsMu2 P d n0 n1 n2 M X ∧
    lipsMu3 P d (t0 + n0) (t1 + n1) (t2 + n2) (shiftF t0 t1 t2 M) X' = lipsMu3 P d n0 n1 n2 M X := by
  have hz : ∀ i j k, (i < t0 ∨ j < t1 ∨ k < t2) → shiftF t0 t1 t2 M i j k = 0 := by
    intro i j k h
    unfold shiftF
    rw [if_neg]; omega
  have ts : ∀ (tbl : List (List Pt)) (i j k : Nat) (f : Gram → Rat),
      tsum tbl (shiftF t0 t1 t2 M) X' (t0 + i, t1 + j, t2 + k) f = tsum tbl M X (i, j, k) f := by
    intro tbl i j k f
    have := tsum_congr tbl M (shiftF t0 t1 t2 M) X X' (i, j, k) (t0 + i, t1 + j, t2 + k) f f 1
      (fun s _ => wt_congr _ _ _ _ s (fun v _ => by
        simp only [fat, shiftF]
        rw [if_pos (by omega)]
        congr 1 <;> omega))
      (fun s _ => by
        rw [one_mul]
        congr 1
        funext a b
        simp only [gramAt]
        have e : ∀ v : Pt, padd (t0 + i, t1 + j, t2 + k) v = padd (t0, t1, t2) (padd (i, j, k) v) := by
          intro v; simp only [padd, Nat.add_assoc]
        rw [e, e, hX, hX])
    rw [this, one_mul]
  unfold lipsMu1 lipsMu2 lipsMu3
  refine ⟨?_, ?_, ?_⟩
  · rw [sum3Q_shift (fun i j k h => (vox_zero P d hd _ X' (i, j, k) (hz i j k h)).1)]
    exact sum3Q_congr (fun i j k _ _ _ => by simp only [l1Vox, ts])
  · rw [sum3Q_shift (fun i j k h => (vox_zero P d hd _ X' (i, j, k) (hz i j k h)).2.1)]
    exact sum3Q_congr (fun i j k _ _ _ => by simp only [l2Vox, ts])
  · rw [sum3Q_shift (fun i j k h => (vox_zero P d hd _ X' (i, j, k) (hz i j k h)).2.2)]
    exact sum3Q_congr (fun i j k _ _ _ => by simp only [l3Vox, ts])

/-- the coordinate field `X` translated by the vector `b` -/
def translateX (X : Pt → List Rat) (b : List Rat) : Pt → List Rat :=
  fun p => List.zipWith (· + ·) (X p) b

/-- **Translation of the coordinates.**  Adding a fixed vector to every coordinate
    changes none of `mu1, mu2, mu3` (any number `N` of coordinate components). -/
theorem lips_translation_invariant (P : Num) (d n0 n1 n2 : Nat) (M : Field) (X : Pt → List Rat)
    (b : List Rat) (hlen : ∀ p, (X p).length = b.length) :
    lipsMu1 P d n0 n1 n2 M (translateX X b) = lipsMu1 P d n0 n1 n2 M X ∧
    lipsMu2 P d n0 n1 n2 M (translateX X b) = lipsMu2 P d n0 n1 n2 M X ∧
    lipsMu3 P d n0 n1 n2 M (translateX X b) = lipsMu3 P d n0 n1 n2 M X := by
  have sh : ∀ x s, ShiftOf (gramAt X x s) (gramAt (translateX X b) x s)
      (fun a => dot (X (padd x (s.getD a (0, 0, 0)))) b) (dot b b) := by
    intro x s a c
    simp only [gramAt, translateX, dotv]
    rw [dot_zipWith_add_left _ _ _ (hlen _), dot_comm _ (List.zipWith _ _ _), dot_comm b (List.zipWith _ _ _),
      dot_zipWith_add_left _ _ _ (hlen _), dot_zipWith_add_left _ _ _ (hlen _), dot_comm (X _) (X _),
      dot_comm b (X (padd x (s.getD a (0, 0, 0))))]
    ring
  have ts : ∀ (tbl : List (List Pt)) (x : Pt) (f : Gram → Rat),
      (∀ x s, f (gramAt (translateX X b) x s) = f (gramAt X x s)) →
      tsum tbl M (translateX X b) x f = tsum tbl M X x f := by
    intro tbl x f hf
    have := tsum_congr tbl M M X (translateX X b) x x f f 1 (fun _ _ => rfl)
      (fun s _ => by rw [one_mul]; exact hf x s)
    rw [this, one_mul]
  have t3 := fun tbl x => ts tbl x (tet3 P) (fun x s => tet3_shift P _ _ _ _ (sh x s))
  have t2 := fun tbl x => ts tbl x (tet2 P) (fun x s => tet2_shift P _ _ _ _ (sh x s))
  have t1 := fun tbl x => ts tbl x (tet1 P) (fun x s => tet1_shift P _ _ _ _ (sh x s))
  have r2 := fun tbl x => ts tbl x (tri2 P) (fun x s => tri2_shift P _ _ _ _ (sh x s))
  have r1 := fun tbl x => ts tbl x (tri1 P) (fun x s => tri1_shift P _ _ _ _ (sh x s))
  have e1 := fun tbl x => ts tbl x (edge1 P) (fun x s => edge1_shift P _ _ _ _ (sh x s))
  unfold lipsMu1 lipsMu2 lipsMu3
  simp only [l1Vox, l2Vox, l3Vox, t3, t2, t1, r2, r1, e1, and_self]

/-- the coordinate field `X` rescaled by `l` -/
def scaleX (X : Pt → List Rat) (l : Rat) : Pt → List Rat := fun p => (X p).map (l * ·)

/-- **Rescaling of the coordinates**: `X ↦ l·X` with `l ≠ 0` multiplies
    `mu1, mu2, mu3` by `|l|, l², |l|³`, for every `sqrt` that satisfies
    `sqrt(l² v) = |l| sqrt(v)` (and every `acos`, `PI`: the arguments of `acos`
    do not change). -/
theorem lips_rescale (P : Num) (d n0 n1 n2 : Nat) (M : Field) (X : Pt → List Rat) (l : Rat) (hl : l ≠ 0)
    (hsq : SqHom P l) :
    lipsMu1 P d n0 n1 n2 M (scaleX X l) = |l| * lipsMu1 P d n0 n1 n2 M X ∧
    lipsMu2 P d n0 n1 n2 M (scaleX X l) = l ^ 2 * lipsMu2 P d n0 n1 n2 M X ∧
    lipsMu3 P d n0 n1 n2 M (scaleX X l) = |l| ^ 3 * lipsMu3 P d n0 n1 n2 M X := by
  have sc : ∀ x s, ScaleOf (gramAt X x s) (gramAt (scaleX X l) x s) (l ^ 2) := by
    intro x s a c
    simp only [gramAt, scaleX, dotv, dot_map_mul]
  have ts : ∀ (tbl : List (List Pt)) (x : Pt) (f : Gram → Rat) (c : Rat),
      (∀ x s, f (gramAt (scaleX X l) x s) = c * f (gramAt X x s)) →
      tsum tbl M (scaleX X l) x f = c * tsum tbl M X x f := fun tbl x f c hf =>
    tsum_congr tbl M M X (scaleX X l) x x f f c (fun _ _ => rfl) (fun s _ => hf x s)
  have t3 := fun tbl x => ts tbl x (tet3 P) _ (fun x s => tet3_scale P l hl hsq _ _ (sc x s))
  have t2 := fun tbl x => ts tbl x (tet2 P) _ (fun x s => tet2_scale P l hl hsq _ _ (sc x s))
  have t1 := fun tbl x => ts tbl x (tet1 P) _ (fun x s => tet1_scale P l hl hsq _ _ (sc x s))
  have r2 := fun tbl x => ts tbl x (tri2 P) _ (fun x s => tri2_scale P l hl hsq _ _ (sc x s))
  have r1 := fun tbl x => ts tbl x (tri1 P) _ (fun x s => tri1_scale P l hsq _ _ (sc x s))
  have e1 := fun tbl x => ts tbl x (edge1 P) _ (fun x s => edge1_scale P l hsq _ _ (sc x s))
  unfold lipsMu1 lipsMu2 lipsMu3
  refine ⟨?_, ?_, ?_⟩
  · rw [← sum3Q_mul_left]
    exact sum3Q_congr (fun i j k _ _ _ => by simp only [l1Vox, t1, r1, e1]; ring)
  · rw [← sum3Q_mul_left]
    exact sum3Q_congr (fun i j k _ _ _ => by simp only [l2Vox, t2, r2]; ring)
  · rw [← sum3Q_mul_left]
    exact sum3Q_congr (fun i j k _ _ _ => by simp only [l3Vox, t3])


/-! ## Axis permutations -/

def swap01 (p : Pt) : Pt := (p.2.1, p.1, p.2.2)
def swap12 (p : Pt) : Pt := (p.1, p.2.2, p.2.1)

/-- **Axis permutation (first two axes)**, mask and coordinate field permuted together,
    for the 2-d and the 3-d triangulation: none of `mu1, mu2, mu3` changes. -/
theorem lips_swap01 (P : Num) (d : Nat) (hd : d = 2 ∨ d = 3) (a b c : Nat) (M : Field) (X : Pt → List Rat) :
    lipsMu1 P d b a c (fun j i k => M i j k) (fun p => X (swap01 p)) = lipsMu1 P d a b c M X ∧
    lipsMu2 P d b a c (fun j i k => M i j k) (fun p => X (swap01 p)) = lipsMu2 P d a b c M X ∧
    lipsMu3 P d b a c (fun j i k => M i j k) (fun p => X (swap01 p)) = lipsMu3 P d a b c M X := by
  have hp : ∀ k, (k = 2 ∨ k = 3 ∨ k = 4) → ((table d k).map (List.map swap01)).Perm (table d k) := by
    intro k hk
    rcases hd with rfl | rfl <;> rcases hk with rfl | rfl | rfl <;> decide +kernel
  have ts : ∀ k, (k = 2 ∨ k = 3 ∨ k = 4) → ∀ (i j l : Nat) (f : Gram → Rat),
      tsum (table d k) (fun j i k => M i j k) (fun p => X (swap01 p)) (j, i, l) f
        = tsum (table d k) M X (i, j, l) f := fun k hk i j l f =>
    tsum_perm _ _ _ _ _ _ _ f swap01 rfl (hp k hk) (fun v => rfl) (fun v => rfl)
  unfold lipsMu1 lipsMu2 lipsMu3
  refine ⟨?_, ?_, ?_⟩ <;> rw [sum3Q_swap01 a b c] <;> refine sum3Q_congr (fun j i l _ _ _ => ?_)
  · simp only [l1Vox, ts 2 k234.1, ts 3 k234.2.1, ts 4 k234.2.2]
  · simp only [l2Vox, ts 3 k234.2.1, ts 4 k234.2.2]
  · simp only [l3Vox, ts 4 k234.2.2]

/-- **Axis permutation (last two axes)** of a 3-d mask with its coordinate field; with
    `lips_swap01` this generates all six permutations of the axes. -/
theorem lips_swap12 (P : Num) (a b c : Nat) (M : Field) (X : Pt → List Rat) :
    lipsMu1 P 3 a c b (fun i k j => M i j k) (fun p => X (swap12 p)) = lipsMu1 P 3 a b c M X ∧
    lipsMu2 P 3 a c b (fun i k j => M i j k) (fun p => X (swap12 p)) = lipsMu2 P 3 a b c M X ∧
    lipsMu3 P 3 a c b (fun i k j => M i j k) (fun p => X (swap12 p)) = lipsMu3 P 3 a b c M X := by
  have hp : ∀ k, (k = 2 ∨ k = 3 ∨ k = 4) → ((table 3 k).map (List.map swap12)).Perm (table 3 k) := by
    intro k hk
    rcases hk with rfl | rfl | rfl <;> decide +kernel
  have ts : ∀ k, (k = 2 ∨ k = 3 ∨ k = 4) → ∀ (i j l : Nat) (f : Gram → Rat),
      tsum (table 3 k) (fun i k j => M i j k) (fun p => X (swap12 p)) (i, l, j) f
        = tsum (table 3 k) M X (i, j, l) f := fun k hk i j l f =>
    tsum_perm _ _ _ _ _ _ _ f swap12 rfl (hp k hk) (fun v => rfl) (fun v => rfl)
  unfold lipsMu1 lipsMu2 lipsMu3
  refine ⟨?_, ?_, ?_⟩ <;> rw [sum3Q_swap12 a b c] <;> refine sum3Q_congr (fun i l j _ _ _ => ?_)
  · simp only [l1Vox, ts 2 k234.1, ts 3 k234.2.1, ts 4 k234.2.2]
  · simp only [l2Vox, ts 3 k234.2.1, ts 4 k234.2.2]
  · simp only [l3Vox, ts 4 k234.2.2]

/-! ## Thin slabs -/

/-- **Thin slab.**  A 2-d mask embedded as the slab `k = 0` of a 3-d array: the 3-d
    triangulation gives the `mu1, mu2` of the 2-d triangulation, and `mu3 = 0`. -/
theorem lips3_slab_embedding (P : Num) (a b : Nat) (M : Field) (X : Pt → List Rat)
    (hM : ∀ i j k, 1 ≤ k → M i j k = 0) :
    lipsMu1 P 3 a b 1 M X = lipsMu1 P 2 a b 1 M X ∧ lipsMu2 P 3 a b 1 M X = lipsMu2 P 2 a b 1 M X ∧
    lipsMu3 P 3 a b 1 M X = 0 := by
  have h1 : ∀ i j, M i j (0 + 1) = 0 := fun i j => hM i j 1 (le_refl 1)
  have e4 : ∀ i j f, tsum (table 3 4) M X (i, j, 0) f = 0 := by
    intro i j f
    simp only [tsum, table_3_4, List.map, List.sum_cons, List.sum_nil, wt, prodAt, fat, h1]
    norm_num
  have e3 : ∀ i j f, tsum (table 3 3) M X (i, j, 0) f = tsum (table 2 3) M X (i, j, 0) f := by
    intro i j f
    simp only [tsum, table_3_3, table_2_3, List.map, List.sum_cons, List.sum_nil, wt, prodAt, fat, h1]
    norm_num
    ring
  have e2 : ∀ i j f, tsum (table 3 2) M X (i, j, 0) f = tsum (table 2 2) M X (i, j, 0) f := by
    intro i j f
    simp only [tsum, table_3_2, table_2_2, List.map, List.sum_cons, List.sum_nil, wt, prodAt, fat, h1]
    norm_num
    ring
  have e4' : ∀ i j f, tsum (table 2 4) M X (i, j, 0) f = 0 := by
    intro i j f; simp [tsum, table_2_4]
  unfold lipsMu1 lipsMu2 lipsMu3
  refine ⟨sum3Q_congr (fun i j k _ _ hk => ?_), sum3Q_congr (fun i j k _ _ hk => ?_),
    sum3Q_eq_zero (fun i j k _ _ hk => ?_)⟩ <;> (obtain rfl : k = 0 := by omega)
  · simp only [l1Vox, e4, e3, e2, e4']
  · simp only [l2Vox, e4, e3, e4']
  · simp only [l3Vox, e4]

/-- a 1-d mask embedded as a thin strip `j = 0` of a 2-d array -/
theorem lips2_strip_embedding (P : Num) (a : Nat) (M : Field) (X : Pt → List Rat)
    (hM : ∀ i j k, 1 ≤ j → M i j k = 0) :
    lipsMu1 P 2 a 1 1 M X = lipsMu1 P 1 a 1 1 M X ∧ lipsMu2 P 2 a 1 1 M X = 0 := by
  have h1 : ∀ i k, M i (0 + 1) k = 0 := fun i k => hM i 1 k (le_refl 1)
  have e3 : ∀ i f, tsum (table 2 3) M X (i, 0, 0) f = 0 := by
    intro i f
    simp only [tsum, table_2_3, List.map, List.sum_cons, List.sum_nil, wt, prodAt, fat, h1]
    norm_num
  have e2 : ∀ i f, tsum (table 2 2) M X (i, 0, 0) f = tsum (table 1 2) M X (i, 0, 0) f := by
    intro i f
    simp only [tsum, table_2_2, table_1_2, List.map, List.sum_cons, List.sum_nil, wt, prodAt, fat, h1]
    norm_num
  have e0 : ∀ i k f, (k = 3 ∨ k = 4) → tsum (table 1 k) M X (i, 0, 0) f = 0 := by
    intro i k f hk; rcases hk with rfl | rfl <;> simp [tsum, table_1_3, table_1_4]
  have e4' : ∀ i f, tsum (table 2 4) M X (i, 0, 0) f = 0 := by
    intro i f; simp [tsum, table_2_4]
  unfold lipsMu1 lipsMu2
  refine ⟨sum3Q_congr (fun i j k _ hj hk => ?_), sum3Q_eq_zero (fun i j k _ hj hk => ?_)⟩ <;>
    (obtain rfl : k = 0 := by omega) <;> (obtain rfl : j = 0 := by omega)
  · simp only [l1Vox, e4', e3, e2, e0 _ 3 _ (Or.inl rfl), e0 _ 4 _ (Or.inr rfl)]
  · simp only [l2Vox, e3, e4']; norm_num


/-! ## Exact top-dimensional volume of solid boxes, every affine coordinate field -/

/-- every Kuhn tetrahedron of every cell of an affine field has `v2 = ` the Gram
    determinant of the three step vectors -/
theorem tet_v2_affine (A : List Comp) (x : Pt) (s : List Pt) (hs : s ∈ table 3 4) :
    let G := gramAt (affineX A) x s
    tetV2 (G 0 0) (G 0 1) (G 0 2) (G 0 3) (G 1 1) (G 1 2) (G 1 3) (G 2 2) (G 2 3) (G 3 3) = gram3 A := by
  obtain ⟨i, j, k⟩ := x
  rw [table_3_4] at hs
  simp only [List.mem_cons, List.not_mem_nil, or_false] at hs
  rcases hs with rfl | rfl | rfl | rfl | rfl | rfl <;>
  · simp only [gramAt, List.getD_cons_zero, List.getD_cons_succ, padd, dot_affine, tetV2, gram3]
    push_cast
    ring


/-- **`mu3` of a solid box, every affine coordinate field** (any number of
    coordinate components): the loop of `Lips3d` over the solid `a × b × c` box of
    voxels accumulates `l3 = (a−1)(b−1)(c−1) · sqrt(G)`, `G` the Gram determinant of
    the three step vectors — the volume of the parallelepiped spanned by the box
    (`0` if the steps are linearly dependent; the code's guard `v2 <= 0`). -/
theorem lips3_box_volume (P : Num) (A : List Comp) (a b c : Nat) (ha : 1 ≤ a) (hb : 1 ≤ b) (hc : 1 ≤ c) :
    lipsMu3 P 3 a b c (boxF a b c) (affineX A)
      = ((a : Rat) - 1) * ((b : Rat) - 1) * ((c : Rat) - 1) * (if gram3 A ≤ 0 then 0 else P.sq (gram3 A)) := by
  have vox : ∀ i j k, l3Vox P 3 (boxF a b c) (affineX A) (i, j, k)
      = ((contrib (table 3 4) (boxF a b c) (i, j, k) : Int) : Rat)
        * (if gram3 A ≤ 0 then 0 else P.sq (gram3 A) / 6) := fun i j k =>
    tsum_const _ _ _ _ _ _ (fun s hs => by
      have := tet_v2_affine A (i, j, k) s hs
      simp only [tet3, mu3Tet] at this ⊢
      rw [this])
  unfold lipsMu3
  simp only [vox]
  have := box_tet_count a b c ha hb hc
  have e : sum3Q a b c (fun i j k => ((contrib (table 3 4) (boxF a b c) (i, j, k) : Int) : Rat)
      * (if gram3 A ≤ 0 then 0 else P.sq (gram3 A) / 6))
      = ((sum3 a b c (fun i j k => contrib (table 3 4) (boxF a b c) (i, j, k)) : Int) : Rat)
        * (if gram3 A ≤ 0 then 0 else P.sq (gram3 A) / 6) := by
    rw [sum3_cast]
    unfold sum3Q
    simp only [sumQ_mul_right]
  rw [e, this]
  push_cast
  split_ifs <;> ring

/-- for three coordinate components the Gram determinant is the squared determinant
    of the step matrix -/
theorem gram3_det (r0 r1 r2 : Comp) :
    gram3 [r0, r1, r2] = (r0.u * (r1.v * r2.w - r1.w * r2.v) - r0.v * (r1.u * r2.w - r1.w * r2.u)
      + r0.w * (r1.u * r2.v - r1.v * r2.u)) ^ 2 := by
  simp only [gram3, S, List.map_cons, List.map_nil, List.sum_cons, List.sum_nil]; ring

/-- **`mu3` of a solid box in 3-d coordinates is `|det| · #cells`**, given only that
    `sqrt` returns the non-negative root of the one perfect square `det²`. -/
theorem lips3_box_volume_det (P : Num) (r0 r1 r2 : Comp) (a b c : Nat) (ha : 1 ≤ a) (hb : 1 ≤ b) (hc : 1 ≤ c)
    (det : Rat) (hdet : det = r0.u * (r1.v * r2.w - r1.w * r2.v) - r0.v * (r1.u * r2.w - r1.w * r2.u)
      + r0.w * (r1.u * r2.v - r1.v * r2.u)) (hsq : P.sq (det ^ 2) = |det|) :
    lipsMu3 P 3 a b c (boxF a b c) (affineX [r0, r1, r2])
      = ((a : Rat) - 1) * ((b : Rat) - 1) * ((c : Rat) - 1) * |det| := by
  rw [lips3_box_volume P _ a b c ha hb hc, gram3_det, ← hdet]
  split_ifs with h
  · have : det = 0 := by
      have := sq_nonneg det
      have h2 : det ^ 2 = 0 := le_antisymm h this
      exact pow_eq_zero_iff (by norm_num) |>.mp h2
    rw [this]; simp
  · rw [hsq]

/-- **Axis-aligned voxels `h0 × h1 × h2`**: `mu3` of the solid box is the product
    `abc` of its edge lengths `(n_i − 1) h_i` measured in the supplied coordinates. -/
theorem lips3_box_abc (P : Num) (o0 o1 o2 h0 h1 h2 : Rat) (a b c : Nat) (ha : 1 ≤ a) (hb : 1 ≤ b) (hc : 1 ≤ c)
    (h0p : 0 ≤ h0) (h1p : 0 ≤ h1) (h2p : 0 ≤ h2) (hsq : P.sq ((h0 * h1 * h2) ^ 2) = h0 * h1 * h2) :
    lipsMu3 P 3 a b c (boxF a b c) (affineX [⟨o0, h0, 0, 0⟩, ⟨o1, 0, h1, 0⟩, ⟨o2, 0, 0, h2⟩])
      = (((a : Rat) - 1) * h0) * (((b : Rat) - 1) * h1) * (((c : Rat) - 1) * h2) := by
  have hn : 0 ≤ h0 * h1 * h2 := mul_nonneg (mul_nonneg h0p h1p) h2p
  rw [lips3_box_volume_det P _ _ _ a b c ha hb hc (h0 * h1 * h2) (by simp; ring) (by rw [hsq, abs_of_nonneg hn]),
    abs_of_nonneg hn]
  ring

/-- the number of triangles of a solid `a × b` box passing the mask test of `Lips2d` -/
theorem box_tri_count (a b : Nat) (ha : 1 ≤ a) (hb : 1 ≤ b) :
    sum3 a b 1 (fun i j k => contrib (table 2 3) (boxF a b 1) (i, j, k)) = 2 * ((a : Int) - 1) * ((b : Int) - 1) := by
  have key : ∀ i j k, contrib (table 2 3) (boxF a b 1) (i, j, k)
      = (2 * ind a (i + 1)) * ind b (j + 1) * ind 1 k := by
    intro i j k
    simp only [contrib, table_2_3, List.map, List.sum_cons, List.sum_nil, prodAt, fat, Nat.add_zero, boxF]
    rcases ind_cases a i with ⟨h1, h2, _⟩ | ⟨h1, h2, _⟩ | ⟨h1, h2, _⟩ <;>
    rcases ind_cases b j with ⟨g1, g2, _⟩ | ⟨g1, g2, _⟩ | ⟨g1, g2, _⟩ <;>
    rcases ind01 1 k with f1 | f1 <;>
    simp only [h1, h2, g1, g2, f1] <;> norm_num
  simp only [key]
  rw [sum3_prod, sumN_mul_left, sumN_ind_succ, sumN_ind_succ,
    Nat.min_eq_right (Nat.sub_le a 1), Nat.min_eq_right (Nat.sub_le b 1)]
  push_cast [Nat.cast_sub ha, Nat.cast_sub hb]
  simp [sumN, ind]

theorem tri_L_affine (A : List Comp) (x : Pt) (s : List Pt) (hs : s ∈ table 2 3) :
    let G := gramAt (affineX A) x s
    triL (G 0 0) (G 0 1) (G 0 2) (G 1 1) (G 1 2) (G 2 2) = gram2 A := by
  obtain ⟨i, j, k⟩ := x
  rw [table_2_3] at hs
  simp only [List.mem_cons, List.not_mem_nil, or_false] at hs
  rcases hs with rfl | rfl <;>
  · simp only [gramAt, List.getD_cons_zero, List.getD_cons_succ, padd, dot_affine, triL, gram2]
    push_cast
    ring

/-- **`mu2` (area) of a solid 2-d box, every affine coordinate field**: the loop of
    `Lips2d` accumulates `l2 = (a−1)(b−1) · sqrt(|u|²|v|² − (u·v)²)`, the area of the
    parallelogram spanned by the box. -/
theorem lips2_box_area (P : Num) (A : List Comp) (a b : Nat) (ha : 1 ≤ a) (hb : 1 ≤ b) :
    lipsMu2 P 2 a b 1 (boxF a b 1) (affineX A)
      = ((a : Rat) - 1) * ((b : Rat) - 1) * (if gram2 A < 0 then 0 else P.sq (gram2 A)) := by
  have vox : ∀ i j k, l2Vox P 2 (boxF a b 1) (affineX A) (i, j, k)
      = ((contrib (table 2 3) (boxF a b 1) (i, j, k) : Int) : Rat)
        * (if gram2 A < 0 then 0 else P.sq (gram2 A) * (1 / 2)) := fun i j k => by
    have t4 : tsum (table 2 4) (boxF a b 1) (affineX A) (i, j, k) (tet2 P) = 0 := by simp [tsum, table_2_4]
    rw [l2Vox, t4, sub_zero]
    exact tsum_const _ _ _ _ _ _ (fun s hs => by
      have := tri_L_affine A (i, j, k) s hs
      simp only [tri2, mu2Tri] at this ⊢
      rw [this])
  unfold lipsMu2
  simp only [vox]
  have := box_tri_count a b ha hb
  have e : sum3Q a b 1 (fun i j k => ((contrib (table 2 3) (boxF a b 1) (i, j, k) : Int) : Rat)
      * (if gram2 A < 0 then 0 else P.sq (gram2 A) * (1 / 2)))
      = ((sum3 a b 1 (fun i j k => contrib (table 2 3) (boxF a b 1) (i, j, k)) : Int) : Rat)
        * (if gram2 A < 0 then 0 else P.sq (gram2 A) * (1 / 2)) := by
    rw [sum3_cast]
    unfold sum3Q
    simp only [sumQ_mul_right]
  rw [e, this]
  push_cast
  split_ifs <;> ring

/-- **`mu1` (length) of a solid 1-d box, every affine coordinate field**:
    `l1 = (a−1) · sqrt(|u|²)`. -/
theorem lips1_length (P : Num) (A : List Comp) (a : Nat) (ha : 1 ≤ a) :
    lipsMu1 P 1 a 1 1 (boxF a 1 1) (affineX A) = ((a : Rat) - 1) * P.sq (S A Comp.u Comp.u) := by
  have vox : ∀ i j k, l1Vox P 1 (boxF a 1 1) (affineX A) (i, j, k)
      = ((contrib (table 1 2) (boxF a 1 1) (i, j, k) : Int) : Rat) * P.sq (S A Comp.u Comp.u) := fun i j k => by
    have t3 : tsum (table 1 3) (boxF a 1 1) (affineX A) (i, j, k) (tri1 P) = 0 := by simp [tsum, table_1_3]
    have t4 : tsum (table 1 4) (boxF a 1 1) (affineX A) (i, j, k) (tet1 P) = 0 := by simp [tsum, table_1_4]
    rw [l1Vox, t3, t4, sub_zero, add_zero]
    exact tsum_const _ _ _ _ _ _ (fun s hs => by
      rw [table_1_2] at hs
      simp only [List.mem_cons, List.not_mem_nil, or_false] at hs
      subst hs
      simp only [edge1, mu1Edge, gramAt, List.getD_cons_zero, List.getD_cons_succ, padd, dot_affine, edgeSq]
      congr 1
      push_cast
      ring)
  have cnt : sum3 a 1 1 (fun i j k => contrib (table 1 2) (boxF a 1 1) (i, j, k)) = (a : Int) - 1 := by
    have key : ∀ i j k, contrib (table 1 2) (boxF a 1 1) (i, j, k) = ind a (i + 1) * ind 1 j * ind 1 k := by
      intro i j k
      simp only [contrib, table_1_2, List.map, List.sum_cons, List.sum_nil, prodAt, fat, Nat.add_zero, boxF]
      rcases ind_cases a i with ⟨h1, h2, _⟩ | ⟨h1, h2, _⟩ | ⟨h1, h2, _⟩ <;>
      rcases ind01 1 j with g1 | g1 <;> rcases ind01 1 k with f1 | f1 <;>
      simp only [h1, h2, g1, f1] <;> norm_num
    simp only [key]
    rw [sum3_prod, sumN_ind_succ, Nat.min_eq_right (Nat.sub_le a 1)]
    push_cast [Nat.cast_sub ha]
    simp [sumN, ind]
  unfold lipsMu1
  simp only [vox]
  have e : sum3Q a 1 1 (fun i j k => ((contrib (table 1 2) (boxF a 1 1) (i, j, k) : Int) : Rat)
      * P.sq (S A Comp.u Comp.u))
      = ((sum3 a 1 1 (fun i j k => contrib (table 1 2) (boxF a 1 1) (i, j, k)) : Int) : Rat)
        * P.sq (S A Comp.u Comp.u) := by
    rw [sum3_cast]
    unfold sum3Q
    simp only [sumQ_mul_right]
  rw [e, cnt]
  push_cast
  ring

end NipyVerif.C15
