/-
C10A (wave 4) — property theorems:
* the order of the design's columns as the code produces it (parameter names sorted as strings): the
  ordered design is a permutation of the term-by-term design, so the column *set* and every column's
  values are what the terms denote;
* formula arithmetic as written is a commutative-semiring-like structure *on the denoted columns*;
* the expressions of `_eval_for` / `_conv_fx_gx` / `convolve_functions` / `TimeConvolver` / `events` /
  `step_function` / `blocks` regenerated from the source text are the model's definitions;
* the discrete convolution grid is exactly the set of sums of sample times and covers the sum of the
  supports up to the two half-open ends.
-/
import NipyVerif.Lemmas.C10A
import NipyVerif.Props.C10
import NipyVerif.Props.C10B
import NipyVerif.Props.C10C

namespace NipyVerif.C10

/-! ## Column order of `Formula.design` -/

/-- the tests the order hinges on, read off formulae.py: parameter of term position `i` is named
    `'%s%d' % (char, i)` counting from 0, and `design_expr` lists `diff(mean, p)` for the parameters
    sorted by name -/
theorem design_order_from_source :
    Gen.paramNameFormat = "%s%d" ∧ Gen.paramCounterStart = 0 ∧
    ∀ n, columnOrder n = if Gen.designSortedByParamName then paramOrder n else List.range n :=
  ⟨rfl, rfl, fun _ => rfl⟩

/-- every term position occurs exactly once in the column order -/
theorem paramOrder_perm (n : Nat) : (paramOrder n).Perm (List.range n) :=
  sortBy_perm nameLe (List.range n)

/-- the column order is ascending in the string order of the parameter names -/
theorem paramOrder_sorted (n : Nat) : (paramOrder n).Pairwise (fun i j => nameLe i j = true) :=
  sortBy_sorted nameLe (fun _ _ => lexLe_total _ _) (fun _ _ _ => lexLe_trans _ _ _) (List.range n)

/-- the string order is antisymmetric on digit strings: with `paramOrder_perm` and
    `paramOrder_sorted` the order is determined up to positions with equal digit strings -/
theorem lexLe_antisymm (a b : List Nat) (h1 : lexLe a b = true) (h2 : lexLe b a = true) : a = b :=
  lexLe_antisymm' a b h1 h2

/-- decimal printing is injective (`'%d' % i` determines `i`), so distinct positions have distinct
    parameter names and the string order on them is antisymmetric -/
theorem nameLe_antisymm (i j : Nat) (h1 : nameLe i j = true) (h2 : nameLe j i = true) : i = j :=
  digits_injective i j (lexLe_antisymm' _ _ h1 h2)

/-- the column order is *the* ascending arrangement of the positions by parameter name: any list with
    the two properties above is `paramOrder n` (so `sorted(...)` of the code, whatever its algorithm,
    produces it) -/
theorem paramOrder_unique (n : Nat) (l : List Nat) (hp : l.Perm (List.range n))
    (hs : l.Pairwise (fun i j => nameLe i j = true)) : l = paramOrder n :=
  List.Perm.eq_of_pairwise (fun a b _ _ h1 h2 => nameLe_antisymm a b h1 h2) hs (paramOrder_sorted n)
    (hp.trans (paramOrder_perm n).symm)

/-- under either policy of the source every term position occurs exactly once -/
theorem columnOrder_perm (n : Nat) : (columnOrder n).Perm (List.range n) := by
  unfold columnOrder
  split_ifs
  · exact paramOrder_perm n
  · exact List.Perm.refl _

/-- up to ten terms the columns come in the order of the terms -/
theorem paramOrder_small (n : Nat) (h : n ≤ 10) : paramOrder n = List.range n := by
  interval_cases n <;> decide

/-- from eleven terms on they do not: `b10` sorts before `b2` -/
example : paramOrder 12 = [0, 1, 10, 11, 2, 3, 4, 5, 6, 7, 8, 9] := by decide
example : (paramOrder 102).take 5 = [0, 1, 10, 100, 101] := by decide +kernel

/-- "the design matrix has one column per term and each column equals the term evaluated on the data",
    for the design *as ordered by the code*: it is a permutation of the term-by-term design -/
theorem design_ordered_perm (specs : List VarSpec) (rows : List (List Rat)) (f : Formula) :
    (designOrdered specs rows f).Perm (design specs rows f) := by
  rw [design_eq_map_range]
  exact (columnOrder_perm f.terms.length).map _

/-- the column *set*: a column is in the ordered design iff it is the column of a term; the ordered
    design has one column per term; column `j` is the column of the term at position `paramOrder[j]` -/
theorem design_ordered_columns (specs : List VarSpec) (rows : List (List Rat)) (f : Formula) :
    (∀ c, c ∈ designOrdered specs rows f ↔ ∃ t ∈ f.terms, c = column specs rows t) ∧
    (designOrdered specs rows f).length = f.terms.length ∧
    ∀ j, j < f.terms.length → ∃ i, (columnOrder f.terms.length)[j]? = some i ∧ i < f.terms.length ∧
      ∃ t, f.terms[i]? = some t ∧ (designOrdered specs rows f)[j]? = some (column specs rows t) := by
  refine ⟨fun c => ?_, ?_, fun j hj => ?_⟩
  · rw [(design_ordered_perm specs rows f).mem_iff]
    simp only [design, List.mem_map]
    constructor
    · rintro ⟨t, ht, rfl⟩; exact ⟨t, ht, rfl⟩
    · rintro ⟨t, ht, rfl⟩; exact ⟨t, ht, rfl⟩
  · simpa [design] using (design_ordered_perm specs rows f).length_eq
  · have hlen : (columnOrder f.terms.length).length = f.terms.length := by
      simpa using (columnOrder_perm f.terms.length).length_eq
    have hj' : j < (columnOrder f.terms.length).length := by omega
    refine ⟨(columnOrder f.terms.length)[j], List.getElem?_eq_getElem hj', ?_, ?_⟩
    · have := (columnOrder_perm f.terms.length).mem_iff.mp (List.getElem_mem hj')
      simpa using this
    · have hi : (columnOrder f.terms.length)[j] < f.terms.length := by
        have := (columnOrder_perm f.terms.length).mem_iff.mp (List.getElem_mem hj')
        simpa using this
      refine ⟨f.terms[(columnOrder f.terms.length)[j]], List.getElem?_eq_getElem hi, ?_⟩
      simp [designOrdered, List.getElem?_map, List.getElem?_eq_getElem hj', List.getD_eq_getElem?_getD, hi]

/-- with at most ten terms (either policy), and for any number of terms once the source sorts the
    coefficients by position, the design lists its columns in the order of the terms -/
theorem design_ordered_eq_design (specs : List VarSpec) (rows : List (List Rat)) (f : Formula)
    (h : f.terms.length ≤ 10 ∨ Gen.designSortedByParamName = false) :
    designOrdered specs rows f = design specs rows f := by
  rw [design_eq_map_range]
  unfold designOrdered columnOrder
  rcases h with h | h
  · split_ifs
    · rw [paramOrder_small _ h]
    · rfl
  · rw [h]; rfl

/-! ## Formula arithmetic as written: semiring-like laws on the denoted columns -/

/-- no Factor shortcut: `f` is not a Factor multiplied by a formula with the same term list -/
def Plain (f g : Formula) : Prop := ¬ (f.isFactor = true ∧ f.terms = g.terms)

instance (f g : Formula) : Decidable (Plain f g) := by unfold Plain; infer_instance

theorem mul_terms_of_plain (f g : Formula) (h : Plain f g) :
    (f.mul g).terms = dedup (products f.terms g.terms) := by
  unfold Formula.mul
  rw [if_neg h]

/-- `+` is associative on the term lists themselves -/
theorem formula_add_assoc (f g h : Formula) : (f.add g).add h = f.add (g.add h) := by
  simp [Formula.add]

/-- `+` is commutative up to the order of the columns (multiplicities kept) -/
theorem design_add_comm (specs : List VarSpec) (rows : List (List Rat)) (f g : Formula) :
    (design specs rows (f.add g)).Perm (design specs rows (g.add f)) := by
  rw [design_add, design_add]
  exact List.perm_append_comm

/-- a product formula holds each distinct pairwise product once -/
theorem mul_terms_nodup (f g : Formula) (h : Plain f g) : (f.mul g).terms.Nodup := by
  rw [mul_terms_of_plain f g h]; exact nodup_dedup _

/-- the columns of a product formula are exactly the pointwise products of a column of `f` and a
    column of `g` -/
theorem design_mul_columns (specs : List VarSpec) (rows : List (List Rat)) (f g : Formula) (h : Plain f g)
    (c : List Rat) :
    c ∈ design specs rows (f.mul g) ↔
      ∃ a ∈ f.terms, ∃ b ∈ g.terms,
        c = List.zipWith (· * ·) (column specs rows a) (column specs rows b) := by
  rw [mem_design_iff, mul_terms_of_plain f g h]
  constructor
  · rintro ⟨t, ht, rfl⟩
    obtain ⟨a, ha, b, hb, rfl⟩ := (mem_products _ _ _).mp ((mem_dedup _ _).mp ht)
    exact ⟨a, ha, b, hb, column_mul specs rows a b⟩
  · rintro ⟨a, ha, b, hb, rfl⟩
    exact ⟨a.mul b, (mem_dedup _ _).mpr ((mem_products _ _ _).mpr ⟨a, ha, b, hb, rfl⟩), column_mul specs rows a b⟩

/-- `*` is commutative on the set of columns -/
theorem design_mul_comm (specs : List VarSpec) (rows : List (List Rat)) (f g : Formula)
    (h1 : Plain f g) (h2 : Plain g f) (c : List Rat) :
    c ∈ design specs rows (f.mul g) ↔ c ∈ design specs rows (g.mul f) := by
  rw [design_mul_columns specs rows f g h1, design_mul_columns specs rows g f h2]
  constructor
  · rintro ⟨a, ha, b, hb, rfl⟩; exact ⟨b, hb, a, ha, zipWith_mul_comm _ _⟩
  · rintro ⟨a, ha, b, hb, rfl⟩; exact ⟨b, hb, a, ha, zipWith_mul_comm _ _⟩

/-- `*` is associative on the set of columns -/
theorem design_mul_assoc (specs : List VarSpec) (rows : List (List Rat)) (f g h : Formula)
    (h1 : Plain f g) (h2 : Plain (f.mul g) h) (h3 : Plain g h) (h4 : Plain f (g.mul h)) (c : List Rat) :
    c ∈ design specs rows ((f.mul g).mul h) ↔ c ∈ design specs rows (f.mul (g.mul h)) := by
  rw [design_mul_columns specs rows _ h h2, design_mul_columns specs rows f _ h4]
  constructor
  · rintro ⟨ab, hab, d, hd, rfl⟩
    rw [mul_terms_of_plain f g h1] at hab
    obtain ⟨a, ha, b, hb, rfl⟩ := (mem_products _ _ _).mp ((mem_dedup _ _).mp hab)
    refine ⟨a, ha, b.mul d, ?_, ?_⟩
    · rw [mul_terms_of_plain g h h3]
      exact (mem_dedup _ _).mpr ((mem_products _ _ _).mpr ⟨b, hb, d, hd, rfl⟩)
    · rw [column_mul, column_mul, zipWith_mul_assoc]
  · rintro ⟨a, ha, bd, hbd, rfl⟩
    rw [mul_terms_of_plain g h h3] at hbd
    obtain ⟨b, hb, d, hd, rfl⟩ := (mem_products _ _ _).mp ((mem_dedup _ _).mp hbd)
    refine ⟨a.mul b, ?_, d, hd, ?_⟩
    · rw [mul_terms_of_plain f g h1]
      exact (mem_dedup _ _).mpr ((mem_products _ _ _).mpr ⟨a, ha, b, hb, rfl⟩)
    · rw [column_mul, column_mul, zipWith_mul_assoc]

/-- `*` distributes over `+` on the set of terms (hence of columns): `(f + g) * h` and
    `f * h + g * h` hold the same terms (the latter may hold a shared product twice) -/
theorem mul_add_distrib (f g h : Formula) (hf : Plain f h) (hg : Plain g h) (t : Mono) :
    t ∈ ((f.add g).mul h).terms ↔ t ∈ ((f.mul h).add (g.mul h)).terms := by
  have hp : Plain (f.add g) h := by intro ⟨hfa, _⟩; simp [Formula.add] at hfa
  rw [mul_terms_of_plain _ _ hp]
  simp only [Formula.add, List.mem_append, mul_terms_of_plain f h hf, mul_terms_of_plain g h hg,
    mem_dedup, mem_products]
  constructor
  · rintro ⟨a, ha, b, hb, rfl⟩
    rcases ha with ha | ha
    · exact Or.inl ⟨a, ha, b, hb, rfl⟩
    · exact Or.inr ⟨a, ha, b, hb, rfl⟩
  · rintro (⟨a, ha, b, hb, rfl⟩ | ⟨a, ha, b, hb, rfl⟩)
    · exact ⟨a, Or.inl ha, b, hb, rfl⟩
    · exact ⟨a, Or.inr ha, b, hb, rfl⟩

/-- the intercept formula `I` is a unit of `*` on the set of columns -/
theorem design_mul_one (specs : List VarSpec) (rows : List (List Rat)) (f : Formula)
    (h : Plain f ⟨[⟨1, []⟩], false⟩) (c : List Rat) :
    c ∈ design specs rows (f.mul ⟨[⟨1, []⟩], false⟩) ↔ c ∈ design specs rows f := by
  rw [mem_design_iff, mem_design_iff, mul_terms_of_plain f _ h]
  have hcol : ∀ a : Mono, column specs rows (a.mul ⟨1, []⟩) = column specs rows a := by
    intro a
    unfold column
    apply List.map_congr_left
    intro r _
    rw [evalMono_mul]; simp [evalMono, prodL]
  constructor
  · rintro ⟨t, ht, rfl⟩
    obtain ⟨a, ha, b, hb, rfl⟩ := (mem_products _ _ _).mp ((mem_dedup _ _).mp ht)
    simp only [List.mem_singleton] at hb
    subst hb
    exact ⟨a, ha, (hcol a).symm⟩
  · rintro ⟨a, ha, rfl⟩
    exact ⟨a.mul ⟨1, []⟩, (mem_dedup _ _).mpr ((mem_products _ _ _).mpr ⟨a, ha, _, by simp, rfl⟩), hcol a⟩

/-- `-` after `+`: `(f + g) - g` keeps, in order, the terms of `f` that are not terms of `g`;
    `f - f` is empty -/
theorem add_sub_cancel_terms (f g : Formula) :
    ((f.add g).sub g).terms = f.terms.filter (fun t => decide (t ∉ g.terms)) ∧ (f.sub f).terms = [] := by
  constructor
  · simp only [Formula.sub, Formula.add, List.filter_append]
    have : g.terms.filter (fun t => decide (t ∉ g.terms)) = [] := by
      rw [List.filter_eq_nil_iff]; intro a ha; simp [ha]
    rw [this, List.append_nil]
  · simp only [Formula.sub]
    rw [List.filter_eq_nil_iff]; intro a ha; simp [ha]

/-! ## The order sympy gives the terms of a product -/

/-- `sorted(set(v), key=default_sort_key)`: whatever the sort key, the product formula holds the same
    terms as the unordered model `Formula.mul` - sorting only arranges them -/
theorem mulSorted_perm (info : List VarInfo) (f g : Formula) :
    (f.mulSorted info g).terms.Perm (f.mul g).terms ∧ (f.mulSorted info g).isFactor = (f.mul g).isFactor := by
  unfold Formula.mulSorted Formula.mul
  split_ifs
  · exact ⟨List.Perm.refl _, rfl⟩
  · exact ⟨sortMonos_perm info _, rfl⟩

/-- hence every statement about the column set / multiset of a product (`design_mul_columns`,
    `design_mul_comm`, ...) holds for the product as ordered by the code, and the design as the code
    orders it (terms by sympy's key, columns by parameter name) is a permutation of the term-by-term
    design of the unordered product -/
theorem design_mulSorted_perm (info : List VarInfo) (specs : List VarSpec) (rows : List (List Rat)) (f g : Formula) :
    (designOrdered specs rows (f.mulSorted info g)).Perm (design specs rows (f.mul g)) := by
  refine (design_ordered_perm specs rows _).trans ?_
  unfold design
  exact (mulSorted_perm info f g).1.map _

/-- the sort key separates numbers, powers of one symbol and proper products, in this order -/
example : sortMonos [⟨1, "x"⟩, ⟨1, "y"⟩, ⟨0, "f_a"⟩]
    [⟨1, [0, 1]⟩, ⟨1, [0]⟩, ⟨1, []⟩, ⟨1, [1, 1]⟩, ⟨2, [0]⟩, ⟨1, [2]⟩, ⟨1, [0, 2]⟩, ⟨1, [0, 0]⟩, ⟨-1, [0]⟩] =
    [⟨1, []⟩, ⟨1, [2]⟩, ⟨-1, [0]⟩, ⟨1, [0]⟩, ⟨2, [0]⟩, ⟨1, [0, 0]⟩, ⟨1, [1, 1]⟩, ⟨1, [0, 2]⟩, ⟨1, [0, 1]⟩] := by
  decide +kernel

/-! ## The source expressions are the model's definitions -/

/-- `_eval_for` as regenerated from the source is the model's sampling -/
theorem evalFor_from_source (f : Rat → Rat) (a b dt : Rat) : Gen.evalForSrc f a b dt = evalFor f a b dt := rfl

/-- `_conv_fx_gx` as regenerated from the source (`np.convolve(f_vals, g_vals) * dt`,
    `np.arange(len(vals)) * dt + min_f + min_g`) is the model's -/
theorem convFxGx_from_source (fv gv : List Rat) (dt minF minG : Rat) :
    Gen.convFxGxSrc fv gv dt minF minG = convFxGx fv gv dt minF minG := by
  unfold Gen.convFxGxSrc convFxGx npConvolve
  split_ifs with h
  · rfl
  · simp [Gen.convValSrc, Gen.convTimeSrc, List.map_map, Function.comp_def]

/-- `convolve_functions` as regenerated from the source is the model's -/
theorem convolve_functions_from_source (f g : Rat → Rat) (fa fb ga gb dt fill t : Rat) :
    Gen.convolveFunctionsSrc f g fa fb ga gb dt fill t = convolveFns f g fa fb ga gb dt fill t := by
  unfold Gen.convolveFunctionsSrc convolveFns convolveVal
  dsimp only
  rw [convFxGx_from_source]; rfl

/-- `TimeConvolver(k, support, delta, fill).convolve(g, g_interval)` as regenerated from the source is
    `convolve_functions(k, g, support, g_interval, delta, fill)` -/
theorem time_convolver_from_source (k g : Rat → Rat) (sa sb delta fill ga gb t : Rat) :
    Gen.timeConvolverSrc k g sa sb delta fill ga gb t = convolveFns k g sa sb ga gb delta fill t := by
  unfold Gen.timeConvolverSrc convolveFns convolveVal
  dsimp only
  rw [convFxGx_from_source]; rfl

/-- the loop of `events` as regenerated from the source is the model's superposition -/
theorem events_from_source (f g : Rat → Rat) (evs : List Ev) (t : Rat) :
    eventsVal f g evs t =
      evs.foldl (fun e ev => Gen.eventsStepSrc f g t e ev.time ev.amp) Gen.eventsInitSrc := rfl

/-- the loop of `step_function._imp` as regenerated from the source (`f = zeros + fill`,
    `f[x >= time] = val`) is the model's -/
theorem step_from_source (fill : Rat) (tv : List (Rat × Rat)) (x : Rat) :
    stepVal fill tv x = tv.foldl (fun f p => Gen.stepUpdateSrc x f p.1 p.2) (Gen.stepInitSrc fill) := by
  have : Gen.stepInitSrc fill = fill := by simp [Gen.stepInitSrc]
  rw [this]; rfl

/-- `blocks` as regenerated from the source: intervals laid down by onset, `(start, a)` and
    `(stop, 0)` per interval, the `-inf` knot writes `step_function`'s default fill -/
theorem blocks_from_source (bs : List Block) :
    Gen.blocksByOnset = true ∧
    blockKnots bs = bs.flatMap (fun b => [b.start, b.stop].zip (Gen.blocksKnotValsSrc b.amp)) ∧
    Gen.blocksFirstValSrc = Gen.stepDefaultFill ∧ Gen.blocksLastValSrc = 0 ∧ Gen.stepDefaultFill = 0 := by
  refine ⟨rfl, ?_, rfl, rfl, rfl⟩
  simp [blockKnots, Gen.blocksKnotValsSrc]

/-- the `+`, `-`, `*` statements of formulae.py have the shape the model implements -/
theorem formula_ops_from_source :
    Gen.addIsConcatenation = true ∧ Gen.subFiltersBySet = true ∧
    Gen.mulIsSetOfPairwiseProducts = true ∧ Gen.mulFactorShortcut = true := ⟨rfl, rfl, rfl, rfl⟩

/-! ## The convolution grid covers the sum of the supports -/

/-- `np.arange(lo, hi, dt)` holds exactly the grid points `lo + k·dt` below `hi` -/
theorem arange_index_iff (lo hi dt : Rat) (hdt : 0 < dt) (k : Nat) :
    k < (arange lo hi dt).length ↔ lo + (k : Rat) * dt < hi := by
  rw [arange_length, lt_ceil_toNat_iff, lt_div_iff₀ hdt]
  constructor <;> intro h <;> linarith

/-- the last sample of a non-empty `np.arange(lo, hi, dt)` is within `dt` of `hi` -/
theorem arange_last_close (lo hi dt : Rat) (hdt : 0 < dt) (n : Nat) (hn : (arange lo hi dt).length = n + 1) :
    hi - dt ≤ lo + (n : Rat) * dt ∧ lo + (n : Rat) * dt < hi := by
  have h1 := (arange_index_iff lo hi dt hdt n).mp (by omega)
  have h2 : ¬ (lo + ((n + 1 : Nat) : Rat) * dt < hi) := fun h =>
    absurd ((arange_index_iff lo hi dt hdt (n + 1)).mpr h) (by omega)
  push_cast at h2
  constructor <;> linarith

/-- the time grid `_conv_fx_gx` builds is the set of sums of a sample time of `f` and a sample time
    of `g`: `nf + ng - 1` times; the time of index `i + j` is `(min_f + i·dt) + (min_g + j·dt)`; every
    pair of sample indices lands on the grid and every grid index is such a sum -/
theorem conv_grid_is_sum_of_sample_grids (fv gv : List Rat) (dt minF minG : Rat) (ts ys : List Rat)
    (h : convFxGx fv gv dt minF minG = some (ts, ys)) :
    ts.length = fv.length + gv.length - 1 ∧ ys.length = ts.length ∧
    (∀ i j, i < fv.length → j < gv.length →
      i + j < ts.length ∧ ts.getD (i + j) 0 = (minF + (i : Rat) * dt) + (minG + (j : Rat) * dt)) ∧
    (∀ k, k < ts.length → ∃ i j, i < fv.length ∧ j < gv.length ∧ i + j = k) := by
  unfold convFxGx at h
  split_ifs at h with he
  simp only [Option.some.injEq, Prod.mk.injEq] at h
  obtain ⟨hts, hys⟩ := h
  have hf : 0 < fv.length := by
    rcases fv with _ | ⟨a, l⟩
    · simp at he
    · simp
  have hg : 0 < gv.length := by
    rcases gv with _ | ⟨a, l⟩
    · simp at he
    · simp
  have hlen : ts.length = fv.length + gv.length - 1 := by rw [← hts]; simp
  refine ⟨hlen, by rw [← hys, ← hts]; simp, ?_, ?_⟩
  · intro i j hi hj
    have hij : i + j < fv.length + gv.length - 1 := by omega
    refine ⟨by omega, ?_⟩
    rw [← hts]
    simp only [List.getD_eq_getElem?_getD, List.getElem?_map, List.getElem?_range hij, Option.map_some,
      Option.getD_some]
    push_cast; ring
  · intro k hk
    by_cases hkf : k < fv.length
    · exact ⟨k, 0, hkf, hg, by omega⟩
    · exact ⟨fv.length - 1, k - (fv.length - 1), by omega, by omega, by omega⟩

/-- "the discrete convolution grid as written covers the sum of supports": for
    `convolve_functions(f, g, (fa, fb), (ga, gb), dt)` with non-empty intervals the grid starts at
    `fa + ga`, its last time `T` satisfies `fb + gb - 2·dt ≤ T < fb + gb`, it has one time per step of
    `dt` in between - so every instant of `[fa + ga, fb + gb - 2·dt]` lies between two grid times -/
theorem conv_grid_covers_supports (f g : Rat → Rat) (fa fb ga gb dt : Rat) (hdt : 0 < dt)
    (hf : fa < fb) (hg : ga < gb) :
    ∃ ts ys, convFxGx (evalFor f fa fb dt) (evalFor g ga gb dt) dt (min fa fb) (min ga gb) = some (ts, ys) ∧
      ts.headD 0 = fa + ga ∧
      (∀ k, k < ts.length → ts.getD k 0 = fa + ga + (k : Rat) * dt) ∧
      fb + gb - 2 * dt ≤ ts.getD (ts.length - 1) 0 ∧ ts.getD (ts.length - 1) 0 < fb + gb := by
  have hmf : min fa fb = fa := min_eq_left (le_of_lt hf)
  have hmg : min ga gb = ga := min_eq_left (le_of_lt hg)
  have hMf : max fa fb = fb := max_eq_right (le_of_lt hf)
  have hMg : max ga gb = gb := max_eq_right (le_of_lt hg)
  have hnf0 : 0 < (arange fa fb dt).length := by
    have := (arange_index_iff fa fb dt hdt 0).mpr (by simpa using hf)
    exact this
  have hng0 : 0 < (arange ga gb dt).length := by
    have := (arange_index_iff ga gb dt hdt 0).mpr (by simpa using hg)
    exact this
  obtain ⟨nf, hnf⟩ : ∃ n, (arange fa fb dt).length = n + 1 := ⟨_, (Nat.succ_pred_eq_of_pos hnf0).symm⟩
  obtain ⟨ng, hng⟩ : ∃ n, (arange ga gb dt).length = n + 1 := ⟨_, (Nat.succ_pred_eq_of_pos hng0).symm⟩
  have hlf : (evalFor f fa fb dt).length = nf + 1 := by simp [evalFor, hmf, hMf, hnf]
  have hlg : (evalFor g ga gb dt).length = ng + 1 := by simp [evalFor, hmg, hMg, hng]
  have hne : ¬ ((evalFor f fa fb dt).isEmpty = true ∨ (evalFor g ga gb dt).isEmpty = true) := by
    rw [List.isEmpty_iff_length_eq_zero, List.isEmpty_iff_length_eq_zero, hlf, hlg]; omega
  have hsome : ∃ ts ys, convFxGx (evalFor f fa fb dt) (evalFor g ga gb dt) dt (min fa fb) (min ga gb) = some (ts, ys) := by
    unfold convFxGx; rw [if_neg hne]; exact ⟨_, _, rfl⟩
  obtain ⟨ts, ys, hc⟩ := hsome
  obtain ⟨hlen, _, hsum, _⟩ := conv_grid_is_sum_of_sample_grids _ _ _ _ _ ts ys hc
  rw [hlf, hlg] at hlen
  have hk : ∀ k, k < ts.length → ts.getD k 0 = fa + ga + (k : Rat) * dt := by
    intro k hk
    by_cases hkf : k < nf + 1
    · have := (hsum k 0 (by omega) (by omega)).2
      rw [Nat.add_zero, hmf, hmg] at this
      rw [this]; push_cast; ring
    · have := (hsum nf (k - nf) (by omega) (by omega)).2
      rw [show nf + (k - nf) = k by omega, hmf, hmg] at this
      rw [this]
      have : ((k - nf : Nat) : Rat) = (k : Rat) - (nf : Rat) := by
        rw [Nat.cast_sub (by omega)]
      rw [this]; ring
  refine ⟨ts, ys, hc, ?_, hk, ?_, ?_⟩
  · have h0 := hk 0 (by omega)
    have : ts.headD 0 = ts.getD 0 0 := by cases ts <;> simp
    rw [this, h0]; simp
  · have hl := (hsum nf ng (by omega) (by omega)).2
    rw [show ts.length - 1 = nf + ng by omega, hl, hmf, hmg]
    have h1 := (arange_last_close fa fb dt hdt nf hnf).1
    have h2 := (arange_last_close ga gb dt hdt ng hng).1
    linarith
  · have hl := (hsum nf ng (by omega) (by omega)).2
    rw [show ts.length - 1 = nf + ng by omega, hl, hmf, hmg]
    have h1 := (arange_last_close fa fb dt hdt nf hnf).2
    have h2 := (arange_last_close ga gb dt hdt ng hng).2
    linarith

/-- outside the grid the convolved function is `fill` -/
theorem conv_fill_outside_grid (fv gv : List Rat) (dt minF minG fill t : Rat) (ts ys : List Rat)
    (h : convFxGx fv gv dt minF minG = some (ts, ys))
    (ht : (∀ s ∈ ts, t < s) ∨ (∀ s ∈ ts, s < t)) :
    convolveVal fv gv dt minF minG fill t = some fill := by
  unfold convolveVal
  rw [h]
  simp [interpVal, interpSeg_outside ts ys t ht]

/-- numerical convolution is symmetric in its two functions: the grid and the values of
    `_conv_fx_gx(f, g, dt, min_f, min_g)` and `_conv_fx_gx(g, f, dt, min_g, min_f)` are the same -/
theorem convFxGx_comm (fv gv : List Rat) (dt minF minG : Rat) :
    convFxGx fv gv dt minF minG = convFxGx gv fv dt minG minF := by
  unfold convFxGx
  by_cases h : fv.isEmpty = true ∨ gv.isEmpty = true
  · rw [if_pos h, if_pos (Or.symm h)]
  · rw [if_neg h, if_neg (fun h' => h (Or.symm h'))]
    have hn : fv.length + gv.length - 1 = gv.length + fv.length - 1 := by omega
    simp only [Option.some.injEq, Prod.mk.injEq]
    rw [hn]
    refine ⟨List.map_congr_left (fun k _ => by ring), List.map_congr_left (fun k _ => ?_)⟩
    rw [convAt_comm]

/-- `convolve_functions(f, g, I_f, I_g, dt)` and `convolve_functions(g, f, I_g, I_f, dt)` are the same
    function of `t` -/
theorem convolve_functions_comm (f g : Rat → Rat) (fa fb ga gb dt fill t : Rat) :
    convolveFns f g fa fb ga gb dt fill t = convolveFns g f ga gb fa fb dt fill t := by
  unfold convolveFns convolveVal
  rw [convFxGx_comm]

open Finset in
/-- the value `np.convolve` puts at grid index `k` sums exactly the pairs (sample `i` of f, sample `j`
    of g) with `i + j = k`: at the grid time `t_k` the convolved function is `dt` times the sum of
    `f(s)·g(u)` over all pairs of sample instants with `s + u = t_k` -/
theorem convAt_sum_over_pairs (fv gv : List Rat) (k : Nat) :
    convAt (ofList fv) (ofList gv) k =
      ∑ i ∈ range fv.length, ∑ j ∈ range gv.length, if i + j = k then fv.getD i 0 * gv.getD j 0 else 0 := by
  let F : Nat → Rat := fun i =>
    if i < fv.length ∧ i ≤ k ∧ k - i < gv.length then fv.getD i 0 * gv.getD (k - i) 0 else 0
  have hL : convAt (ofList fv) (ofList gv) k = ∑ i ∈ range (k + 1), F i := by
    unfold convAt
    rw [prefixSum_eq_sum]
    apply Finset.sum_congr rfl
    intro i hi
    have hik : i ≤ k := by have := Finset.mem_range.mp hi; omega
    simp only [F, ofList_eq]
    by_cases h1 : i < fv.length <;> by_cases h2 : k - i < gv.length <;> simp [h1, h2, hik]
  have hR : ∀ i ∈ range fv.length,
      (∑ j ∈ range gv.length, if i + j = k then fv.getD i 0 * gv.getD j 0 else 0) = F i := by
    intro i hi
    have hi' : i < fv.length := Finset.mem_range.mp hi
    simp only [F]
    by_cases h : i ≤ k ∧ k - i < gv.length
    · rw [if_pos ⟨hi', h.1, h.2⟩]
      rw [Finset.sum_eq_single (k - i)]
      · rw [if_pos (by omega)]
      · intro j _ hj; rw [if_neg (by omega)]
      · intro hj; exact absurd (Finset.mem_range.mpr h.2) hj
    · rw [if_neg (fun hh => h ⟨hh.2.1, hh.2.2⟩)]
      apply Finset.sum_eq_zero
      intro j hj
      have hj' : j < gv.length := Finset.mem_range.mp hj
      rw [if_neg]
      intro hij
      apply h
      constructor <;> omega
  rw [hL, Finset.sum_congr rfl hR]
  have hz1 : ∀ i, ¬ i < fv.length → F i = 0 := by
    intro i hi; simp only [F]; rw [if_neg (fun hh => hi hh.1)]
  have hz2 : ∀ i, ¬ i ≤ k → F i = 0 := by
    intro i hi; simp only [F]; rw [if_neg (fun hh => hi hh.2.1)]
  have e1 : ∑ i ∈ range (k + 1), F i = ∑ i ∈ range (max (k + 1) fv.length), F i := by
    apply Finset.sum_subset (Finset.range_subset_range.mpr (le_max_left _ _))
    intro i _ hi
    exact hz2 i (by have := Finset.mem_range.not.mp hi; omega)
  have e2 : ∑ i ∈ range fv.length, F i = ∑ i ∈ range (max (k + 1) fv.length), F i := by
    apply Finset.sum_subset (Finset.range_subset_range.mpr (le_max_right _ _))
    intro i _ hi
    exact hz1 i (by have := Finset.mem_range.not.mp hi; omega)
  rw [e1, e2]

/-! ## Event designs: one regressor per cell -/

/-- `event_design` gives `events` the indicator of a cell (a row of the factor design) as amplitudes:
    the regressor is the kernel superposed over the onsets of that cell alone (an empty cell gives the
    zero function, which the formula drops) -/
theorem events_indicator_cell (f : Rat → Rat) (evs : List Ev) (p : Ev → Bool) (t : Rat) :
    eventsVal f id (evs.map (fun e => ⟨e.time, if p e then 1 else 0⟩)) t =
      ((evs.filter p).map (fun e => f (t - e.time))).sum := by
  rw [events_superposition]
  induction evs with
  | nil => simp
  | cons e es ih =>
      simp only [List.map_cons, List.sum_cons, List.filter_cons]
      rw [ih]
      by_cases h : p e = true
      · simp [h]
      · simp [h]

/-! ## Interpolation between the defining samples -/

/-- `interp` / `linear_interp` (and hence every convolved function) strictly inside a segment of
    increasing knots: the value lies on the chord through the two neighbouring samples (at the knots
    themselves: `interp_at_knots`) -/
theorem interp_between_knots (fill : Rat) (ts ys : List Rat) (hlen : ts.length = ys.length)
    (hinc : ts.Pairwise (· < ·)) (i : Nat) (hi : i + 1 < ts.length) (t : Rat)
    (h1 : ts.getD i 0 < t) (h2 : t ≤ ts.getD (i + 1) 0) :
    interpVal fill ts ys t = ys.getD i 0 + (ys.getD (i + 1) 0 - ys.getD i 0) *
      ((t - ts.getD i 0) / (ts.getD (i + 1) 0 - ts.getD i 0)) := by
  unfold interpVal
  rw [interpSeg_between ts ys hlen hinc i hi t h1 h2]; rfl

example : interpVal 0 [0, 4, 5] [2, 4, 6] 1 = 5 / 2 := by decide +kernel

/-! ## The optional arguments of `interp` / `linear_interp` -/

/-- the guard of `interp` as regenerated from the source, followed by `interp1d`'s reading of
    (`bounds_error`, `fill_value`), is the model's policy -/
theorem interp_guard_from_source (fill : Option Rat) (be : Option Bool) (fv : Option Rat) :
    (Gen.interpGuardSrc fill be fv).map (fun p => outsidePolicy p.1 p.2) = interpPolicy fill be fv := by
  unfold Gen.interpGuardSrc interpPolicy
  cases fill with
  | none => simp [Except.map]
  | some f =>
      by_cases h1 : be = some true
      · simp [h1, Except.map]
      · by_cases h2 : fv = none
        · simp [h1, h2, Except.map, outsidePolicy]
        · by_cases h3 : fv = some f
          · simp [h1, h3, Except.map, outsidePolicy]
          · simp [h1, h2, h3, Except.map]

/-- `linear_interp`'s guard on `kind` as regenerated from the source is the model's -/
theorem linear_kind_guard_from_source (kind : Option String) (fill : Option Rat) (be : Option Bool) (fv : Option Rat) :
    linearInterpPolicy kind fill be fv =
      match Gen.linearKindGuardSrc kind with
      | .ok _ => interpPolicy fill be fv
      | .error _ => .error () := by
  unfold linearInterpPolicy Gen.linearKindGuardSrc
  by_cases h1 : kind = none
  · simp [h1]
  · by_cases h2 : kind = some "linear"
    · simp [h2]
    · simp [h1, h2]

/-- a `fill` that is given always wins: whenever `interp(times, values, fill=f, ...)` is accepted, the
    function is `f` outside the knots and the interpolant inside, whatever the other keywords; it is
    refused exactly for `bounds_error=True` or a different `fill_value` -/
theorem interp_fill_wins (f : Rat) (be : Option Bool) (fv : Option Rat) :
    (interpPolicy (some f) be fv = .ok (.fills f) ∨ interpPolicy (some f) be fv = .error ()) ∧
    (interpPolicy (some f) be fv = .error () ↔ (be = some true ∨ (fv ≠ none ∧ fv ≠ some f))) := by
  unfold interpPolicy
  by_cases h1 : be = some true
  · simp [h1]
  · by_cases h2 : fv ≠ none ∧ fv ≠ some f
    · simp [h1, h2]
    · simp [h1, h2]

/-- with `fill=None` and nothing else the interpolated function refuses times outside its knots;
    inside it is the interpolant -/
theorem interp_no_fill_raises_outside (ts ys q : List Rat) (t : Rat) (ht : t ∈ q)
    (hout : (∀ s ∈ ts, t < s) ∨ (∀ s ∈ ts, s < t)) :
    interpPolicy none none none = .ok .raises ∧ evalOutside .raises ts ys q = none := by
  refine ⟨rfl, ?_⟩
  unfold evalOutside
  simp only
  cases hq : q.mapM (interpSeg ts ys) with
  | none => rfl
  | some l =>
      exfalso
      obtain ⟨v, hv⟩ := mapM_some_all (interpSeg ts ys) q l hq t ht
      rw [interpSeg_outside ts ys t hout] at hv
      cases hv

example : interpPolicy (some 2) (some false) (some 2) = .ok (.fills 2) := by decide +kernel
example : interpPolicy (some 2) none (some 3) = .error () := by decide +kernel
example : interpPolicy none (some false) (some 3) = .ok (.fills 3) := by decide +kernel

/-! ## `lambdify` looks implemented functions up by name -/

/-- `lambdify` accepts an expression exactly when its applied implemented functions are named
    consistently: equal names, equal implementations -/
theorem lambdify_namespace_ok_iff (es : List (Nat × Nat)) :
    (impNamespace es).isSome = true ↔ ∀ a ∈ es, ∀ b ∈ es, a.1 = b.1 → a.2 = b.2 := by
  constructor
  · intro h a ha b hb hab
    obtain ⟨ns', hns⟩ := Option.isSome_iff_exists.mp h
    obtain ⟨_, h2⟩ := impFrom_spec es [] ns' hns
    have := h2 a ha
    rw [hab, h2 b hb] at this
    exact (Option.some.inj this).symm
  · intro h
    exact impFrom_isSome es [] (fun e _ v hv => by simp [nsFind] at hv) h

/-- ... and then the name of every applied function resolves to its own implementation: evaluating the
    generated code is evaluating the functions the expression holds -/
theorem lambdify_namespace_lookup (es ns : List (Nat × Nat)) (h : impNamespace es = some ns) :
    ∀ e ∈ es, nsFind e.1 ns = some e.2 :=
  (impFrom_spec es [] ns h).2

/-- after the renaming `Formula._setup_design` applies (one fresh name per distinct implementation)
    the design of *any* formula is accepted, whatever names its functions were given -/
theorem design_renaming_always_accepted (es : List (Nat × Nat)) :
    (impNamespace (renamedPairs es)).isSome = true := by
  rw [lambdify_namespace_ok_iff]
  intro a ha b hb hab
  simp only [renamedPairs, List.mem_map] at ha hb
  obtain ⟨x, hx, rfl⟩ := ha
  obtain ⟨y, hy, rfl⟩ := hb
  simp only at hab ⊢
  apply firstIndex_inj _ _ _ _ _ hab
  · rw [mem_dedup, List.mem_reverse, List.mem_map]; exact ⟨x, hx, rfl⟩
  · rw [mem_dedup, List.mem_reverse, List.mem_map]; exact ⟨y, hy, rfl⟩

example : impNamespace [(0, 0), (1, 1), (0, 0)] = some [(1, 1), (0, 0)] := by decide
example : impNamespace [(0, 0), (1, 1), (0, 2)] = none := by decide
example : renamedPairs [(0, 0), (1, 1), (0, 2)] = [(2, 0), (1, 1), (0, 2)] := by decide

/-! ## The rank-reduction branch of `contrast_from_cols_or_rows` -/

open Matrix in
/-- when the named columns are dependent (`matrix_rank(Lp) != Lp.shape[1]`) the code replaces
    `Lp = D·Cᵀ` by `B = full_rank(Lp)` and returns `C' = (P·B)ᵀ`.  `full_rank` (an SVD) is a parameter:
    for *every* `B` whose columns are combinations of those of `Lp` (`B = Lp·X`) the returned contrast
    reproduces `B` on the design, `D·C'ᵀ = B`; and if `B` spans the named columns (`Lp = B·Y`) they are
    all recovered from the reduced contrast, `Lp = (D·C'ᵀ)·Y`.  That the SVD's `B` has these two
    certificates (and `r` columns) is checked numerically by the oracle. -/
theorem contrast_rank_reduced {n p q r : Nat} (D : Matrix (Fin n) (Fin p) ℚ) (P : Matrix (Fin p) (Fin n) ℚ)
    (L : Matrix (Fin n) (Fin q) ℚ) (X : Matrix (Fin q) (Fin r) ℚ) (p1 : D * P * D = D) :
    D * (P * (D * (P * L) * X)) = D * (P * L) * X ∧
    ∀ Y : Matrix (Fin r) (Fin q) ℚ, D * (P * L) = D * (P * L) * X * Y →
      D * (P * L) = D * (P * (D * (P * L) * X)) * Y := by
  have h : D * (P * (D * (P * L) * X)) = D * (P * L) * X := by
    have := pinv_reproduces D P (P * L * X) p1
    simpa [Matrix.mul_assoc] using this
  refine ⟨h, fun Y hY => ?_⟩
  rw [h]; exact hY

/-! ## Non-vacuity -/

example : Plain ⟨[⟨1, [0]⟩], false⟩ ⟨[⟨1, [0]⟩], false⟩ := by decide
example : Plain ⟨[⟨1, [0]⟩, ⟨1, [1]⟩], true⟩ ⟨[⟨1, []⟩], false⟩ := by decide
example : ¬ Plain ⟨[⟨1, [0]⟩, ⟨1, [1]⟩], true⟩ ⟨[⟨1, [0]⟩, ⟨1, [1]⟩], true⟩ := by decide
example : convFxGx [1, 2] [1, 1, 1] (1/2) 0 1 =
    some ([1, 3/2, 2, 5/2], [1/2, 3/2, 3/2, 1]) := by decide +kernel
example : (arange 0 (21/10) (1/4)).length = 8 + 1 := by decide +kernel
example : Gen.convolveFunctionsSrc (fun _ => 1) (fun x => x) 0 1 0 1 (1/2) 0 (1/2) = some (1/4) := by
  decide +kernel
example : (paramOrder 11).map (fun i => column [.num 0] [[2]] (((List.range 11).map (fun i => (⟨(i : Rat), [0]⟩ : Mono))).getD i ⟨0, []⟩)) =
    [[0], [2], [20], [4], [6], [8], [10], [12], [14], [16], [18]] := by decide +kernel

end NipyVerif.C10
