/-
C15 — `IntrinsicVolumes.__mul__` (the product `search *= product` of `ECcone.__call__`, used by Hotelling, Roy,
MultilinearForm) is polynomial multiplication of the generating polynomials `Σ mu_i tⁱ`: commutative,
associative, with unit `[1]`; the intrinsic volumes of a product of three intervals are the box formula of the
property, `(1, a+b+c, ab+bc+ca, abc)`.  (Was compared case by case only: `ivmul` lines.)
-/
import NipyVerif.Lemmas.C15Rft
import Mathlib.Algebra.Polynomial.Coeff
import Mathlib.Algebra.BigOperators.NatAntidiagonal
open Polynomial
namespace NipyVerif.C15

/-- coefficients of the polynomial of a list -/
theorem toPoly_coeff (l : Poly) (i : ℕ) : (toPoly l).coeff i = l.getD i 0 := by
  induction l generalizing i with
  | nil => simp [toPoly]
  | cons a p ih =>
      cases i with
      | zero => simp [toPoly]
      | succ n => simp [toPoly, ih, coeff_X_mul]

/-- entry `i` of `IntrinsicVolumes.__mul__` -/
theorem ivMul_getD (a b : List ℚ) (ha : a ≠ []) (hb : b ≠ []) (i : ℕ) :
    (ivMul a b).getD i 0 = ∑ j ∈ Finset.range (i + 1), a.getD j 0 * b.getD (i - j) 0 := by
  have ha' : 1 ≤ a.length := List.length_pos_iff.mpr ha
  have hb' : 1 ≤ b.length := List.length_pos_iff.mpr hb
  have term : ∀ j, (if j < a.length ∧ i - j < b.length then a.getD j 0 * b.getD (i - j) 0 else 0)
      = a.getD j 0 * b.getD (i - j) 0 := by
    intro j
    split_ifs with h
    · rfl
    · rcases not_and_or.mp h with h | h
      · have e0 : a[j]? = none := List.getElem?_eq_none (by omega)
        simp [List.getD_eq_getElem?_getD, e0]
      · have e0 : b[i - j]? = none := List.getElem?_eq_none (by omega)
        simp [List.getD_eq_getElem?_getD, e0]
  by_cases hi : i < a.length + b.length - 1
  · simp only [ivMul, List.getD_eq_getElem?_getD, List.getElem?_map, List.getElem?_range hi, Option.map_some,
      Option.getD_some]
    simp only [← List.getD_eq_getElem?_getD, term]
    rw [← List.sum_toFinset _ (List.nodup_range), List.toFinset_range] 
  · have e0 : (ivMul a b)[i]? = none := List.getElem?_eq_none (by simp [ivMul]; omega)
    rw [List.getD_eq_getElem?_getD, e0]
    symm
    apply Finset.sum_eq_zero
    intro j hj
    have hj' : j < i + 1 := Finset.mem_range.mp hj
    by_cases h1 : j < a.length
    · have e1 : b[i - j]? = none := List.getElem?_eq_none (by omega)
      simp [List.getD_eq_getElem?_getD, e1]
    · have e1 : a[j]? = none := List.getElem?_eq_none (by omega)
      simp [List.getD_eq_getElem?_getD, e1]

/-- **`IntrinsicVolumes.__mul__` is polynomial multiplication** of the generating polynomials `Σ mu_i tⁱ` -/
theorem iv_mul_is_poly_mul (a b : List ℚ) (ha : a ≠ []) (hb : b ≠ []) :
    toPoly (ivMul a b) = toPoly a * toPoly b := by
  ext i
  rw [toPoly_coeff, ivMul_getD a b ha hb, coeff_mul, Finset.Nat.sum_antidiagonal_eq_sum_range_succ_mk]
  simp only [toPoly_coeff]

/-- as values: `Σ (a ⊗ b)_i tⁱ = (Σ a_i tⁱ)(Σ b_i tⁱ)` -/
theorem iv_mul_eval (a b : List ℚ) (ha : a ≠ []) (hb : b ≠ []) (t : ℚ) :
    peval (ivMul a b) t = peval a t * peval b t := by
  rw [← toPoly_eval, iv_mul_is_poly_mul a b ha hb, eval_mul, toPoly_eval, toPoly_eval]

theorem ivMul_length (a b : List ℚ) : (ivMul a b).length = a.length + b.length - 1 := by simp [ivMul]

theorem ivMul_ne_nil (a b : List ℚ) (ha : a ≠ []) (hb : b ≠ []) : ivMul a b ≠ [] := by
  have ha' : 1 ≤ a.length := List.length_pos_iff.mpr ha
  have hb' : 1 ≤ b.length := List.length_pos_iff.mpr hb
  intro h
  have := ivMul_length a b
  rw [h] at this
  simp at this
  omega

theorem list_eq_of_getD (l l' : List ℚ) (hl : l.length = l'.length) (h : ∀ i, l.getD i 0 = l'.getD i 0) : l = l' := by
  apply List.ext_getElem hl
  intro i h1 h2
  have := h i
  simpa [List.getD_eq_getElem?_getD, List.getElem?_eq_getElem h1, List.getElem?_eq_getElem h2] using this

/-- **the product of intrinsic-volume vectors is commutative** (as lists, not only as polynomials) -/
theorem iv_mul_comm (a b : List ℚ) (ha : a ≠ []) (hb : b ≠ []) : ivMul a b = ivMul b a := by
  apply list_eq_of_getD
  · rw [ivMul_length, ivMul_length]; omega
  · intro i
    rw [← toPoly_coeff, ← toPoly_coeff, iv_mul_is_poly_mul a b ha hb, iv_mul_is_poly_mul b a hb ha, mul_comm]

/-- **… associative** -/
theorem iv_mul_assoc (a b c : List ℚ) (ha : a ≠ []) (hb : b ≠ []) (hc : c ≠ []) :
    ivMul (ivMul a b) c = ivMul a (ivMul b c) := by
  have ha' : 1 ≤ a.length := List.length_pos_iff.mpr ha
  have hb' : 1 ≤ b.length := List.length_pos_iff.mpr hb
  have hc' : 1 ≤ c.length := List.length_pos_iff.mpr hc
  apply list_eq_of_getD
  · simp only [ivMul_length]; omega
  · intro i
    rw [← toPoly_coeff, ← toPoly_coeff, iv_mul_is_poly_mul _ c (ivMul_ne_nil a b ha hb) hc,
      iv_mul_is_poly_mul a _ ha (ivMul_ne_nil b c hb hc), iv_mul_is_poly_mul a b ha hb,
      iv_mul_is_poly_mul b c hb hc, mul_assoc]

/-- **… with unit `[1]`** (the default `product` / `search` of `ECcone`) -/
theorem iv_mul_one (a : List ℚ) (ha : a ≠ []) : ivMul a [1] = a := by
  have ha' : 1 ≤ a.length := List.length_pos_iff.mpr ha
  apply list_eq_of_getD
  · rw [ivMul_length]; simp
  · intro i
    rw [← toPoly_coeff, ← toPoly_coeff, iv_mul_is_poly_mul a [1] ha (by simp)]
    simp [toPoly]

/-- **`ECcone.__call__` does not distinguish `search` from `product`** (Hotelling / Roy / MultilinearForm hand
    their sphere as `product`): only `search ⊗ product` enters -/
theorem eccone_search_product_comm (m : Option ℚ) (mu0 : ℚ) (cs search product : List ℚ) (qss : List (List Poly))
    (tp : List ℚ) (x r kern tail : ℚ) (hs : search ≠ []) (hp : product ≠ []) :
    ecconeCall m mu0 cs search product qss tp x r kern tail
      = ecconeCall m mu0 cs product search qss tp x r kern tail := by
  unfold ecconeCall
  rw [iv_mul_comm search product hs hp]

/-- **the box formula of the property at the level of `IntrinsicVolumes`**: the product of three intervals with
    intrinsic volumes `(1, a)`, `(1, b)`, `(1, c)` has intrinsic volumes `(1, a+b+c, ab+bc+ca, abc)` -/
theorem iv_mul_box (a b c : ℚ) :
    ivMul (ivMul [1, a] [1, b]) [1, c] = [1, a + b + c, a * b + b * c + c * a, a * b * c] := by
  apply list_eq_of_getD
  · simp [ivMul_length]
  · intro i
    rw [← toPoly_coeff, ← toPoly_coeff, iv_mul_is_poly_mul _ _ (ivMul_ne_nil _ _ (by simp) (by simp)) (by simp),
      iv_mul_is_poly_mul _ _ (by simp) (by simp)]
    congr 1
    simp only [toPoly]
    simp only [map_add, map_mul, map_one]
    ring

end NipyVerif.C15
