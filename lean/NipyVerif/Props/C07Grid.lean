/-
C07 — property theorems about the high-resolution grid, now part of the model
(`hrGrid`, `trOf`, `computeRegressor` in `NipyVerif.Model.C07`): stated from the
frame times `t0, t0 + TR, …` (any start `t0`, any `TR > 0`, any length ≥ 2, any
oversampling ≥ 1, any `min_onset ≤ 0`), never from a supplied grid.
-/
import NipyVerif.Lemmas.C07Grid
import NipyVerif.Props.C07

namespace NipyVerif.C07

/-! ## The grid -/

/-- `compute_regressor` / `_sample_condition` recover the repetition time of a uniform run
    whatever its first frame time (`max/(n-1)` would only be right for `t0 = 0`). -/
theorem tr_of_uniform_run (m : Nat) (t0 tr : Rat) (htr : 0 ≤ tr) :
    trOf (uniformGrid (m + 2) t0 tr) = tr := trOf_uniform m t0 tr htr

/-- **hr_grid_step.** For every start `t0`, length `m + 2`, `TR > 0`, oversampling and
    `min_onset ≤ 0` the high-resolution grid is the regular grid of step exactly
    `TR / oversampling` with `n_pre + n·oversampling + 1` points starting `n_pre` steps before
    the first frame, `n_pre = ⌈-min_onset / (TR/oversampling)⌉`. -/
theorem hr_grid_step (m os : Nat) (t0 tr mo : Rat) (htr : 0 < tr) (hos : 0 < os) (hmo : mo ≤ 0) :
    hrGrid (uniformGrid (m + 2) t0 tr) os mo = .ok (gridOf m os t0 tr mo) :=
  hrGrid_uniform' m os t0 tr mo htr hos hmo

/-- number of points of the grid -/
theorem hr_grid_length (m os : Nat) (t0 tr mo : Rat) :
    (gridOf m os t0 tr mo).length = ⌈-mo / (tr / (os : Rat))⌉.toNat + (m + 2) * os + 1 :=
  uniformGrid_length _ _ _

/-- **hr_grid_contains_frametimes.** Every frame time is a grid point: frame `i` sits at index
    `n_pre + i·oversampling` (`= i·oversampling − min_onset·oversampling/TR` when that is whole). -/
theorem hr_grid_contains_frametimes (m os : Nat) (t0 tr mo : Rat) (hos : 0 < os) (i : Nat)
    (hi : i < m + 2) :
    (gridOf m os t0 tr mo).getD (⌈-mo / (tr / (os : Rat))⌉.toNat + i * os) 0 = t0 + tr * (i : Rat) := by
  have h := frames_on_grid m os ⌈-mo / (tr / (os : Rat))⌉.toNat t0 tr hos
  have h2 := congrArg (fun l => l.getD i 0) h
  simp only [uniformGrid_getD (m + 2) t0 tr i hi] at h2
  rw [h2, List.map_map]
  simp [List.getD, hi, gridOf]

/-- when `min_onset·oversampling/TR` is a whole number, `n_pre` is exactly that number -/
theorem n_pre_whole (os : Nat) (tr mo : Rat) (q : Nat) (htr : 0 < tr) (hos : 0 < os)
    (hq : -mo * (os : Rat) / tr = (q : Rat)) : ⌈-mo / (tr / (os : Rat))⌉.toNat = q := by
  have hosq : (os : Rat) ≠ 0 := by exact_mod_cast hos.ne'
  have : -mo / (tr / (os : Rat)) = ((q : Int) : Rat) := by
    push_cast
    rw [← hq]; field_simp
  rw [this, Int.ceil_intCast]; simp

/-- the grid starts at or before `t0 + min_onset`, less than one step before it -/
theorem hr_grid_covers_min_onset (os : Nat) (t0 tr mo : Rat) (htr : 0 < tr) (hos : 0 < os)
    (hmo : mo ≤ 0) :
    t0 - (⌈-mo / (tr / (os : Rat))⌉.toNat : Rat) * (tr / (os : Rat)) ≤ t0 + mo ∧
    t0 + mo < t0 - (⌈-mo / (tr / (os : Rat))⌉.toNat : Rat) * (tr / (os : Rat)) + tr / (os : Rat) := by
  have hosq : (0 : Rat) < (os : Rat) := by exact_mod_cast hos
  have hdt : 0 < tr / (os : Rat) := div_pos htr hosq
  set dt := tr / (os : Rat)
  have hz : 0 ≤ ⌈-mo / dt⌉ := Int.ceil_nonneg (div_nonneg (by linarith) hdt.le)
  have hcast : ((⌈-mo / dt⌉.toNat : Nat) : Rat) = ((⌈-mo / dt⌉ : Int) : Rat) := by
    have : ((⌈-mo / dt⌉.toNat : Nat) : Int) = ⌈-mo / dt⌉ := Int.toNat_of_nonneg hz
    exact_mod_cast this
  rw [hcast]
  have h1 : -mo / dt ≤ (⌈-mo / dt⌉ : Rat) := Int.le_ceil _
  have h2 : (⌈-mo / dt⌉ : Rat) < -mo / dt + 1 := Int.ceil_lt_add_one _
  rw [div_le_iff₀ hdt] at h1
  have h3 : (⌈-mo / dt⌉ : Rat) * dt < (-mo / dt + 1) * dt := mul_lt_mul_of_pos_right h2 hdt
  have h4 : (-mo / dt + 1) * dt = -mo + dt := by field_simp
  constructor <;> linarith

/-! ## `_resample_regressor` -/

/-- linear interpolation (scipy `interp1d`) returns the sample itself at a node of a strictly
    increasing grid -/
theorem resample_at_node (ts ys : List Rat) (hlen : ts.length = ys.length)
    (hs : ts.Pairwise (· < ·)) (j : Nat) (hj : j < ts.length) :
    interp1 ts ys (ts.getD j 0) = some (ys.getD j 0) := interp1_node ts ys hlen hs j hj

/-! ## `compute_regressor`, end to end from the frame times -/

/-- row `i` of the regressor built with kernel `h`: the truncated convolution of the
    high-resolution regressor read at the grid index of frame `i` -/
def rowSpec (m os : Nat) (t0 tr mo : Rat) (evs : List Event) (h : List Rat) (i : Nat) : Rat :=
  convAt (regressorAt (gridOf m os t0 tr mo) evs) (ofList h)
    (⌈-mo / (tr / (os : Rat))⌉.toNat + i * os)

/-- The executable pipeline (grid from the frame times → `_sample_condition` → truncated
    convolution → `_resample_regressor` at the frame times) never refuses on a uniform run
    and returns, for each kernel, the rows `rowSpec`: resampling is exact because every frame
    time is a grid point. -/
theorem compute_regressor_rows (m os : Nat) (t0 tr mo : Rat) (htr : 0 < tr) (hos : 0 < os)
    (hmo : mo ≤ 0) (evs : List Event) (kernels : List (List Rat)) :
    computeRegressor (uniformGrid (m + 2) t0 tr) os mo evs kernels false =
      .ok (kernels.map (fun h => (List.range (m + 2)).map (rowSpec m os t0 tr mo evs h))) :=
  computeRegressor_uniform' m os t0 tr mo htr hos hmo evs kernels

/-- **Whole-scan shift, end to end.** Delaying every onset by `k` scans delays every regressor
    row by `k`: for any start, TR, oversampling, `min_onset ≤ 0`, kernel, coincident or not,
    provided no event starts earlier than `t0 + min_onset` and every delayed event ends at
    least one high-resolution step before the end of the grid (one scan after the last frame). -/
theorem regressor_shift_whole_scans (m os k : Nat) (t0 tr mo : Rat) (htr : 0 < tr) (hos : 0 < os)
    (hmo : mo ≤ 0) (evs : List Event) (h : List Rat) (i : Nat)
    (hd : ∀ e ∈ evs, 0 ≤ e.dur)
    (hin : ∀ e ∈ evs, t0 + mo ≤ e.onset)
    (hfit : ∀ e ∈ evs, e.onset + e.dur + (k : Rat) * tr + tr / (os : Rat) ≤ t0 + ((m : Rat) + 2) * tr) :
    rowSpec m os t0 tr mo (shiftEvents ((k : Rat) * tr) evs) h (i + k) =
      rowSpec m os t0 tr mo evs h i := by
  have hosq : (0 : Rat) < (os : Rat) := by exact_mod_cast hos
  have hdt : 0 < tr / (os : Rat) := div_pos htr hosq
  obtain ⟨hc1, hc2⟩ := hr_grid_covers_min_onset os t0 tr mo htr hos hmo
  unfold rowSpec gridOf
  set dt := tr / (os : Rat) with hdt_def
  set z := ⌈-mo / dt⌉.toNat with hz
  set N := z + (m + 2) * os + 1 with hN
  set s := t0 - (z : Rat) * dt with hs
  have hshift : (k : Rat) * tr = ((k * os : Nat) : Rat) * dt := by
    rw [hdt_def]; push_cast; field_simp
  rw [hshift]
  have hfit' : ∀ e ∈ evs, searchsorted (uniformGrid N s dt) (e.onset + e.dur) + k * os + 2 ≤ N := by
    intro e he
    rw [searchsorted_uniform N s dt _ hdt]
    have h5 : (os : Rat) * dt = tr := by rw [hdt_def]; field_simp
    have hf := hfit e he
    have hge : k * os + 1 ≤ z + (m + 2) * os := by
      -- the delayed event (which starts no earlier than the grid) fits
      by_contra hcon
      have hcon' : z + (m + 2) * os < k * os + 1 := by omega
      have h1 : (z : Rat) + ((m : Rat) + 2) * (os : Rat) < (k : Rat) * (os : Rat) + 1 := by
        exact_mod_cast hcon'
      have h2 := hin e he
      have h3 := hd e he
      have h4 : ((z : Rat) + ((m : Rat) + 2) * (os : Rat)) * dt < ((k : Rat) * (os : Rat) + 1) * dt :=
        mul_lt_mul_of_pos_right h1 hdt
      nlinarith
    obtain ⟨w, hw⟩ := Nat.exists_eq_add_of_le hge
    have hwq : (w : Rat) = (z : Rat) + ((m : Rat) + 2) * (os : Rat) - (k : Rat) * (os : Rat) - 1 := by
      have : ((z + (m + 2) * os : Nat) : Rat) = ((k * os + 1 + w : Nat) : Rat) := by rw [hw]
      push_cast at this
      linarith
    have hq : (e.onset + e.dur - s) / dt ≤ ((w : Int) : Rat) := by
      rw [div_le_iff₀ hdt]
      push_cast
      rw [hwq]
      nlinarith
    have hceil : ⌈(e.onset + e.dur - s) / dt⌉ ≤ (w : Int) := Int.ceil_le.mpr hq
    generalize (m + 2) * os = P at hw hN
    generalize k * os = Q at hw
    omega
  have hin' : ∀ e ∈ evs, s - dt < e.onset := by
    intro e he; have := hin e he; linarith
  have hfun : regressorAt (uniformGrid N s dt) (shiftEvents (((k * os : Nat) : Rat) * dt) evs) =
      delay (k * os) (regressorAt (uniformGrid N s dt) evs) := by
    funext j
    exact regressorAt_shift N s dt evs (k * os) hdt hin' hd hfit' j
  rw [hfun]
  have : z + (i + k) * os = (z + i * os) + k * os := by ring
  rw [this]
  unfold convAt
  exact prefixSum_delay _ _ _ _

/-- the same statement about the executable pipeline's output: column `c`, row `i + k` of the
    design built from the delayed paradigm is column `c`, row `i` of the original one. -/
theorem compute_regressor_shift (m os k : Nat) (t0 tr mo : Rat) (htr : 0 < tr) (hos : 0 < os)
    (hmo : mo ≤ 0) (evs : List Event) (kernels : List (List Rat))
    (hd : ∀ e ∈ evs, 0 ≤ e.dur)
    (hin : ∀ e ∈ evs, t0 + mo ≤ e.onset)
    (hfit : ∀ e ∈ evs, e.onset + e.dur + (k : Rat) * tr + tr / (os : Rat) ≤ t0 + ((m : Rat) + 2) * tr) :
    ∃ cols cols',
      computeRegressor (uniformGrid (m + 2) t0 tr) os mo evs kernels false = .ok cols ∧
      computeRegressor (uniformGrid (m + 2) t0 tr) os mo (shiftEvents ((k : Rat) * tr) evs) kernels false
        = .ok cols' ∧
      cols.length = kernels.length ∧ cols'.length = kernels.length ∧
      ∀ c i, c < kernels.length → i + k < m + 2 →
        (cols'.getD c []).getD (i + k) 0 = (cols.getD c []).getD i 0 := by
  refine ⟨_, _, compute_regressor_rows m os t0 tr mo htr hos hmo evs kernels,
    compute_regressor_rows m os t0 tr mo htr hos hmo _ kernels, by simp, by simp, ?_⟩
  intro c i hc hi
  have hi' : i < m + 2 := by omega
  simp only [List.getD, List.getElem?_map, List.getElem?_eq_getElem hc, Option.map_some,
    Option.getD_some, List.getElem?_range hi, List.getElem?_range hi']
  exact regressor_shift_whole_scans m os k t0 tr mo htr hos hmo evs _ i hd hin hfit

/-- **Causality, end to end.** Row `r` of every regressor is zero when every onset is later
    than frame time `r` (any kernel, any start). -/
theorem regressor_rows_causal (m os : Nat) (t0 tr mo : Rat) (htr : 0 < tr) (hos : 0 < os)
    (evs : List Event) (h : List Rat) (r : Nat) (hr : r < m + 2)
    (hd : ∀ e ∈ evs, 0 ≤ e.dur)
    (hlate : ∀ e ∈ evs, t0 + tr * (r : Rat) < e.onset) :
    rowSpec m os t0 tr mo evs h r = 0 := by
  unfold rowSpec
  apply conv_causal
  intro j hj
  apply sample_causal _ _ _ hd
  intro e he
  -- the onset index counts the grid points strictly before the onset: all of 0 … z + r·os are
  have hgr := hr_grid_contains_frametimes m os t0 tr mo hos r hr
  generalize hzdef : ⌈-mo / (tr / (os : Rat))⌉.toNat = z at *
  have hosq : (0 : Rat) < (os : Rat) := by exact_mod_cast hos
  have hdt : 0 < tr / (os : Rat) := div_pos htr hosq
  have hlen : (gridOf m os t0 tr mo).length = z + (m + 2) * os + 1 := by
    rw [← hzdef]; exact hr_grid_length m os t0 tr mo
  have hlt : z + r * os < z + (m + 2) * os := by
    have : r * os < (m + 2) * os := Nat.mul_lt_mul_of_pos_right hr hos
    omega
  have hss : z + r * os + 1 ≤ searchsorted (gridOf m os t0 tr mo) e.onset := by
    unfold gridOf at hgr ⊢
    rw [hzdef] at hgr ⊢
    rw [searchsorted_uniform _ _ _ _ hdt]
    rw [uniformGrid_getD _ _ _ _ (by omega)] at hgr
    have hl := hlate e he
    rw [← hgr] at hl
    have : ((z + r * os : Nat) : Int) < ⌈(e.onset - (t0 - (z : Rat) * (tr / (os : Rat)))) / (tr / (os : Rat))⌉ := by
      rw [Int.lt_ceil, lt_div_iff₀ hdt]
      push_cast at hl ⊢
      linarith
    omega
  unfold onsetIdx
  rw [hlen]
  omega

/-! ## FIR kernels -/

/-- a zero-duration event that does not fall on the last grid sample occupies exactly one sample -/
theorem zero_duration_offset (grid : List Rat) (e : Event) (hd : e.dur = 0)
    (hfit : onsetIdx grid e < grid.length - 1) : offsetIdx grid e = onsetIdx grid e + 1 := by
  unfold offsetIdx
  simp only [hd, add_zero]
  unfold onsetIdx at hfit ⊢
  rw [if_pos ⟨hfit, rfl⟩]

/-- **FIR regressors are exact 0/amplitude blocks.** For a one-sample event the regressor built
    with the `fir` kernel of delay `d` is the event's amplitude on the samples
    `[t_onset + d·os, t_onset + d·os + os)` and zero elsewhere — on any grid, so for any start. -/
theorem fir_event_row (grid : List Rat) (e : Event) (os d i : Nat)
    (hone : offsetIdx grid e = onsetIdx grid e + 1) :
    convAt (regressorAt grid [e]) (ofList (firKernel os d)) i =
      if onsetIdx grid e + d * os ≤ i ∧ i < onsetIdx grid e + d * os + os then e.amp else 0 := by
  have hx : regressorAt grid [e] = fun j =>
      if onsetIdx grid e ≤ j ∧ j < onsetIdx grid e + 1 then e.amp else 0 := by
    funext j
    rw [single_event_block grid e j (by omega), hone]
  rw [hx, convAt_single]
  simp only [ofList_firKernel]
  by_cases h1 : onsetIdx grid e ≤ i
  · rw [if_pos h1]
    by_cases h2 : d * os ≤ i - onsetIdx grid e ∧ i - onsetIdx grid e < d * os + os
    · rw [if_pos h2, if_pos (by omega)]; ring
    · rw [if_neg h2, if_neg (by omega)]; ring
  · rw [if_neg h1, if_neg (by omega)]

/-- **FIR regressors from the frame times.**  For a uniform run starting anywhere, row `r` of the
    `fir` regressor of delay `d` of a one-sample event is the event's amplitude when the event's
    grid index `a` satisfies `a + d·os ≤ n_pre + r·os < a + d·os + os`, and exactly `0` otherwise:
    with the `make_dmtx` setting `os = 1` this is the indicator of the single scan `a − n_pre + d`. -/
theorem fir_rows_from_frametimes (m os d r : Nat) (t0 tr mo : Rat) (e : Event)
    (hone : offsetIdx (gridOf m os t0 tr mo) e = onsetIdx (gridOf m os t0 tr mo) e + 1) :
    rowSpec m os t0 tr mo [e] (firKernel os d) r =
      if onsetIdx (gridOf m os t0 tr mo) e + d * os ≤ ⌈-mo / (tr / (os : Rat))⌉.toNat + r * os ∧
          ⌈-mo / (tr / (os : Rat))⌉.toNat + r * os < onsetIdx (gridOf m os t0 tr mo) e + d * os + os
      then e.amp else 0 := by
  unfold rowSpec
  exact fir_event_row _ e os d _ hone

/-- with oversampling `os`, exactly one frame row sees a one-sample event through the `fir`
    kernel of delay `d`: frame rows read the samples `z + r·os`, and the windows
    `[a + d·os, a + d·os + os)` contain exactly one of them when `a ≥ z`. -/
theorem fir_event_unique_row (z a os d : Nat) (hos : 0 < os) (ha : z ≤ a) :
    ∃ r, (a + d * os ≤ z + r * os ∧ z + r * os < a + d * os + os) ∧
      ∀ r', (a + d * os ≤ z + r' * os ∧ z + r' * os < a + d * os + os) → r' = r := by
  obtain ⟨b, rfl⟩ := Nat.exists_eq_add_of_le ha
  have huniq : ∀ x y : Nat, (b ≤ x * os ∧ x * os < b + os) → (b ≤ y * os ∧ y * os < b + os) → x = y := by
    intro x y hx hy
    rcases Nat.lt_trichotomy x y with h | h | h
    · have := Nat.mul_le_mul_right os (Nat.succ_le_of_lt h)
      rw [Nat.succ_mul] at this; omega
    · exact h
    · have := Nat.mul_le_mul_right os (Nat.succ_le_of_lt h)
      rw [Nat.succ_mul] at this; omega
  have hq : b ≤ ((b + os - 1) / os) * os ∧ ((b + os - 1) / os) * os < b + os := by
    have h1 := Nat.div_add_mod (b + os - 1) os
    have h2 := Nat.mod_lt (b + os - 1) hos
    rw [Nat.mul_comm] at h1
    constructor <;> omega
  refine ⟨(b + os - 1) / os + d, ?_, ?_⟩
  · rw [Nat.add_mul]; constructor <;> omega
  · intro r' ⟨h1, h2⟩
    have hd' : d ≤ r' := by
      by_contra hcon
      have := Nat.mul_le_mul_right os (Nat.succ_le_of_lt (Nat.lt_of_not_le hcon))
      rw [Nat.succ_mul] at this; omega
    obtain ⟨t, rfl⟩ := Nat.exists_eq_add_of_le hd'
    rw [Nat.add_mul] at h1 h2
    have := huniq t ((b + os - 1) / os) ⟨by omega, by omega⟩ hq
    omega

/-! ## Non-vacuity -/

example : hrGrid (uniformGrid 3 (7/2) (5/2)) 2 (-3) =
    .ok (uniformGrid 10 (-1/4) (5/4)) := by decide +kernel
example : (-(-3 : Rat)) * (2 : Nat) / (3/2) = ((4 : Nat) : Rat) := by norm_num
example : (⟨4, 0, 1⟩ : Event).onset + 0 + (1 : Nat) * (5/2 : Rat) + (5/2) / (2 : Nat) ≤ 7/2 + ((1 : Rat) + 2) * (5/2) := by
  norm_num
example : offsetIdx (uniformGrid 10 (-1/4) (5/4)) ⟨4, 0, 1⟩ = onsetIdx (uniformGrid 10 (-1/4) (5/4)) ⟨4, 0, 1⟩ + 1 := by
  decide +kernel

end NipyVerif.C07
