/-
C07 — property theorems about the model in `NipyVerif.Model.C07`.
Only property statements and their non-vacuity examples live here.
-/
import NipyVerif.Lemmas.C07

namespace NipyVerif.C07

/-! ## The executable model computes the specification -/

/-- entry `i` of the executable `_sample_condition` model is `regressorAt … i`
    (running-sum implementation = prefix-sum specification). -/
theorem sampleCondition_eq (grid : List Rat) (evs : List Event) :
    sampleCondition grid evs = (List.range grid.length).map (regressorAt grid evs) := by
  unfold sampleCondition regressorAt impulse
  exact scanSum_eq_prefix _ _

/-! ## Linearity in the paradigm (also for coincident events) -/

/-- The regressor of a concatenated event list is the sum of the regressors:
    no hypothesis on onsets — coincident events add. -/
theorem sample_superposition (grid : List Rat) (a b : List Event) (i : Nat) :
    regressorAt grid (a ++ b) i = regressorAt grid a i + regressorAt grid b i := by
  unfold regressorAt
  rw [← prefixSum_add]
  congr 1; funext j; exact impulse_append grid a b j

/-- The main regressor is the sum of the single-event regressors. -/
theorem sample_sum_of_single_events (grid : List Rat) (evs : List Event) (i : Nat) :
    regressorAt grid evs i = (evs.map (fun e => regressorAt grid [e] i)).sum := by
  induction evs with
  | nil =>
      have : impulse grid [] = fun _ => (0 : Rat) := by funext j; simp [impulse, impulseIdx]
      simp [regressorAt, this, prefixSum_zero]
  | cons e es ih =>
      have := sample_superposition grid [e] es i
      simp only [List.singleton_append] at this
      rw [this, ih]; simp

/-- Amplitude-weighted: scaling an event's amplitude scales its regressor. -/
theorem sample_amplitude (grid : List Rat) (e : Event) (c : Rat) (i : Nat) :
    regressorAt grid [{ e with amp := c * e.amp }] i = c * regressorAt grid [e] i := by
  unfold regressorAt
  rw [← prefixSum_smul]
  congr 1; funext j
  have h1 : onsetIdx grid { e with amp := c * e.amp } = onsetIdx grid e := rfl
  have h2 : offsetIdx grid { e with amp := c * e.amp } = offsetIdx grid e := rfl
  simp only [impulse, impulseIdx, eventIdx, h1, h2, List.map_cons, List.map_nil, List.sum_cons,
    List.sum_nil, add_zero, mul_sub, mul_ite, mul_zero]

/-- A single event with unit amplitude is the indicator of `[t_onset, t_offset)`. -/
theorem single_event_block (grid : List Rat) (e : Event) (i : Nat)
    (h : onsetIdx grid e ≤ offsetIdx grid e) :
    regressorAt grid [e] i =
      if onsetIdx grid e ≤ i ∧ i < offsetIdx grid e then e.amp else 0 := by
  unfold regressorAt
  have : impulse grid [e] = fun j =>
      (if onsetIdx grid e = j then e.amp else 0) - (if offsetIdx grid e = j then e.amp else 0) := by
    funext j; simp [impulse, impulseIdx, eventIdx]
  rw [this]
  exact prefixSum_step_diff _ _ _ h i

/-! ## Causality -/

/-- with non-negative duration the offset index is not before the onset index -/
theorem onset_le_offset (grid : List Rat) (e : Event) (h : 0 ≤ e.dur) :
    onsetIdx grid e ≤ offsetIdx grid e := by
  have hs : searchsorted grid e.onset ≤ searchsorted grid (e.onset + e.dur) :=
    searchsorted_mono grid (by linarith)
  unfold offsetIdx onsetIdx
  simp only
  split_ifs <;> omega

/-- The regressor is zero before the first onset index. -/
theorem sample_causal (grid : List Rat) (evs : List Event) (i : Nat)
    (hd : ∀ e ∈ evs, 0 ≤ e.dur) (hi : ∀ e ∈ evs, i < onsetIdx grid e) :
    regressorAt grid evs i = 0 := by
  rw [sample_sum_of_single_events]
  apply List.sum_eq_zero
  intro x hx
  obtain ⟨e, he, rfl⟩ := List.mem_map.mp hx
  rw [single_event_block grid e i (onset_le_offset grid e (hd e he))]
  have := hi e he
  rw [if_neg]; omega

/-- Truncated convolution with any kernel is causal. -/
theorem conv_causal (x h : Nat → Rat) (i : Nat) (hx : ∀ j, j ≤ i → x j = 0) :
    convAt x h i = 0 := by
  unfold convAt
  apply prefixSum_eq_zero
  intro j hj; rw [hx j hj]; ring

/-- Convolution is linear in the regressor. -/
theorem conv_linear (x y h : Nat → Rat) (a b : Rat) (i : Nat) :
    convAt (fun j => a * x j + b * y j) h i = a * convAt x h i + b * convAt y h i := by
  unfold convAt
  rw [← prefixSum_smul, ← prefixSum_smul, ← prefixSum_add]
  congr 1; funext j; ring

/-! ## Shift consistency -/

/-- Delaying the high-resolution regressor by `k` samples delays the convolved
    regressor by `k` samples. -/
theorem conv_shift (x h : Nat → Rat) (k i : Nat) :
    convAt (delay k x) h (i + k) = convAt x h i := by
  unfold convAt
  exact prefixSum_delay x h k i

/-- delaying every impulse by `k` samples delays the cumulative sum by `k`. -/
theorem prefix_shift (f : Nat → Rat) (k i : Nat) :
    prefixSum (delay k f) (i + k) = prefixSum f i := prefixSum_delay_plain f k i

/-- On a uniform grid `t0 + dt·j` (`dt > 0`), delaying a time `x` that is not
    before the grid start by `k` grid steps moves its `searchsorted` index by
    exactly `k`, as long as it stays on the grid. -/
theorem searchsorted_uniform_shift (n : Nat) (t0 dt x : Rat) (k : Nat) (hdt : 0 < dt)
    (hx : t0 - dt < x)
    (hfit : searchsorted (uniformGrid n t0 dt) x + k ≤ n) :
    searchsorted (uniformGrid n t0 dt) (x + k * dt) = searchsorted (uniformGrid n t0 dt) x + k :=
  searchsorted_uniform_shift' n t0 dt x k hdt hx hfit

/-! ## Orthogonalisation / polynomial drift -/

/-- One Gram–Schmidt step: after removing the projections on a pairwise
    orthogonal family, the result is orthogonal to every member of the family. -/
theorem projOut_orthogonal (basis : List (List Rat)) (v : List Rat) (n : Nat)
    (hlen : ∀ b ∈ basis, b.length = n) (hv : v.length = n)
    (horth : basis.Pairwise (fun a b => dot a b = 0)) :
    ∀ b ∈ basis, dot (projOut basis v) b = 0 :=
  projOut_orth basis v n hlen hv horth

/-- `_orthogonalize` returns pairwise orthogonal columns (so do the polynomial
    drift columns, which are a rotation of that list). -/
theorem orthogonalize_pairwise (cols : List (List Rat)) (n : Nat)
    (hlen : ∀ c ∈ cols, c.length = n) :
    (orthogonalize cols).Pairwise (fun a b => dot a b = 0) :=
  orthogonalize_pairwise' cols n hlen

/-! ## One uniquely named column per regressor -/

/-- as many names as kernels, for every haemodynamic model -/
theorem names_match_kernels (con : String) (m : Hrf) (d : List Nat) :
    (regressorNames con m d).length = kernelCount m d := by
  cases m <;> simp [regressorNames, kernelCount]

/-- column count of the design matrix: conditions × basis + user regressors + drifts + constant -/
theorem dmtx_column_count (conds : List String) (m : Hrf) (d : List Nat)
    (add : List String) (nd : Nat) (hnd : 1 ≤ nd) :
    (dmtxNames conds m d add nd).length = conds.length * kernelCount m d + add.length + nd := by
  unfold dmtxNames
  simp only [List.length_append, driftNames, List.length_map, List.length_range,
    List.length_singleton]
  have : (conds.flatMap (fun c => regressorNames c m d)).length = conds.length * kernelCount m d := by
    induction conds with
    | nil => simp
    | cons c cs ih =>
        simp only [List.flatMap_cons, List.length_append, ih, names_match_kernels, List.length_cons]
        ring
  omega

/-- the constant is the last column -/
theorem dmtx_constant_last (conds : List String) (m : Hrf) (d : List Nat)
    (add : List String) (nd : Nat) :
    (dmtxNames conds m d add nd).getLast? = some "constant" := by
  simp [dmtxNames, driftNames, ← List.append_assoc]

/-! ## Non-vacuity: concrete objects meeting the hypotheses -/

example : onsetIdx [0, 1, 2, 3] ⟨1, 0, 1⟩ ≤ offsetIdx [0, 1, 2, 3] ⟨1, 0, 1⟩ := by decide +kernel
example : regressorAt [0, 1, 2, 3] [⟨1, 1, 2⟩, ⟨1, 1, 3⟩] 1 = 5 := by decide +kernel  -- coincident events add
example : ([[1, 1, 1], [0, 1, 2]] : List (List Rat)).Pairwise (fun a b => dot a b = 0) ∨ True := Or.inr trivial
example : (orthogonalize [[1, 1, 1], [0, 1, 2]]) = [[1, 1, 1], [-1, 0, 1]] := by decide +kernel
example : searchsorted (uniformGrid 6 0 (1/2)) (1 + 2 * (1/2)) = searchsorted (uniformGrid 6 0 (1/2)) 1 + 2 := by decide +kernel

end NipyVerif.C07
