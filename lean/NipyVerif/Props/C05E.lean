/-
C05 (wave 3) — theorems about operation histories on one model object
(`ARModel.fit` / `iterative_fit` / assignment of `rho`).
-/
import NipyVerif.Model.C05E
import NipyVerif.Lemmas.C05B

namespace NipyVerif.C05

/-! ## `ARModel.iterative_fit`: a history of calls on one object -/

/-- `iterative_fit` continues from the coefficients the object holds: `k + m` rounds are `k` rounds
    followed by `m` rounds started at the last estimate of the first call (so two calls on one
    object are one longer call, and a call with `niter = 0` changes nothing). -/
theorem iterFit_append {n p : Nat} (X : Mat n p) (y : Vec n) (o : Nat) (k m : Nat) (rho : List Rat) :
    iterFit X y o (k + m) rho =
      (iterFit X y o k rho).bind fun l => (iterFit X y o m (l.getLastD rho)).map (l ++ ·) := by
  induction k generalizing rho with
  | zero => simp [iterFit]
  | succ k ih =>
    have e : k + 1 + m = (k + m) + 1 := by omega
    rw [e]
    simp only [iterFit]
    cases hfit : fit (.ar rho) X (colOf y) with
    | none => simp
    | some f =>
      simp only
      cases hyw : yuleWalker (fun t => (ofArr2 (toArr2 (resid X (colOf y) f)) : Mat n 1) t ⟨0, by omega⟩) o true
          (some (n - p)) with
      | none => simp
      | some yw =>
        simp only
        rw [ih]
        cases hk : iterFit X y o k (List.ofFn yw.rho) with
        | none => simp
        | some l1 =>
          simp only [Option.bind_some, Option.map_some, Option.map_map]
          cases l1 with
          | nil => simp [Function.comp_def]
          | cons a l2 =>
            simp only [List.getLastD_cons, List.cons_append, Function.comp_def]

/-- later steps of a history never alter a results object the caller already holds: the results
    recorded by a prefix of the history are a prefix of the results recorded by the whole history. -/
theorem hist_results_stable {n p : Nat} (X : Mat n p) (o : Nat) (s1 s2 : List (HStep n)) (s : HState n p) :
    ∃ extra, (runHist X o (s1 ++ s2) s).results = (runHist X o s1 s).results ++ extra := by
  have key : ∀ (steps : List (HStep n)) (s : HState n p),
      ∃ extra, (runHist X o steps s).results = s.results ++ extra := by
    intro steps
    induction steps with
    | nil => intro s; exact ⟨[], by simp [runHist]⟩
    | cons st rest ih =>
      intro s
      obtain ⟨e, he⟩ := ih (hStep X o s st)
      have hs : ∃ e0, (hStep X o s st).results = s.results ++ e0 := by
        cases st with
        | fit v Y => exact ⟨[⟨v, fit (.ar s.rho) X Y⟩], rfl⟩
        | iter y k =>
          refine ⟨[], ?_⟩
          simp only [hStep]
          split <;> simp
        | setRho r => exact ⟨[], by simp [hStep]⟩
      obtain ⟨e0, he0⟩ := hs
      refine ⟨e0 ++ e, ?_⟩
      show (runHist X o rest (hStep X o s st)).results = _
      rw [he, he0, List.append_assoc]
  obtain ⟨extra, h⟩ := key s2 (runHist X o s1 s)
  refine ⟨extra, ?_⟩
  rw [← h]
  simp [runHist, List.foldl_append]

/-- a `fit` in the middle of a history is the fit of a *fresh* `ARModel(design, rho)` holding the
    coefficients the object has at that moment: the object carries no other state into it. -/
theorem hist_fit_is_fresh {n p : Nat} (X : Mat n p) (o : Nat) (steps : List (HStep n)) (s : HState n p)
    (v : Nat) (Y : Mat n v) :
    (runHist X o (steps ++ [.fit v Y]) s).results =
        (runHist X o steps s).results ++ [⟨v, fit (.ar (runHist X o steps s).rho) X Y⟩] ∧
      (runHist X o (steps ++ [.fit v Y]) s).rho = (runHist X o steps s).rho := by
  simp [runHist, List.foldl_append, hStep]

/-- two consecutive `iterative_fit` calls with the same data are one call with the summed number of
    rounds (what the object holds afterwards). -/
theorem hist_iter_merge {n p : Nat} (X : Mat n p) (o : Nat) (y : Vec n) (k m : Nat) (s : HState n p)
    (l : List (List Rat)) (h : iterFit X y o (k + m) s.rho = some l) :
    (runHist X o [.iter y k, .iter y m] s).rho = (runHist X o [.iter y (k + m)] s).rho ∧
      (runHist X o [.iter y k, .iter y m] s).defined = s.defined := by
  rw [iterFit_append] at h
  cases hk : iterFit X y o k s.rho with
  | none => rw [hk] at h; simp at h
  | some l1 =>
    rw [hk] at h
    simp only [Option.bind_some] at h
    cases hm : iterFit X y o m (l1.getLastD s.rho) with
    | none => rw [hm] at h; simp at h
    | some l2 =>
      rw [hm] at h
      simp only [Option.map_some, Option.some.injEq] at h
      have hkm : iterFit X y o (k + m) s.rho = some (l1 ++ l2) := by
        rw [iterFit_append, hk]; simp only [Option.bind_some, hm, Option.map_some]
      simp only [runHist, List.foldl_cons, List.foldl_nil, hStep, hk, hkm]
      simp only [hm]
      refine ⟨?_, trivial⟩
      cases l2 with
      | nil => simp
      | cons a t => simp [List.getLastD_eq_getLast?, List.getLast?_append]

/-- non-vacuity: a two-step history on a concrete object. -/
example : (runHist exX 1 [.iter (fun i => exY i 0) 0, .fit 1 exY] (hInit [0])).results.length = 1 := by
  simp [runHist, hStep, hInit, iterFit]

end NipyVerif.C05
