/-
C14 (wave 3) — the remaining helpers of hierarchical_clustering.py / forest.py on dendrograms:
`_inertia_` (the variance form of the Ward cost) agrees with `_inertia`; `merge_simple_branches`
returns a dendrogram unchanged; `_label` (the numbering `plot` uses) numbers every node of a
dendrogram exactly once, in-order, and is refused exactly when a tree is a single item.
Only property statements and non-vacuity examples live here (helpers: `Lemmas/C14Label`).
-/
import NipyVerif.Props.C14C
import NipyVerif.Props.C14
import NipyVerif.Lemmas.C14Label

namespace NipyVerif.C14

/-! ## `_inertia_` -/

/-- "for Ward, the merged within-cluster sum of squares": the variance form `_inertia_` (variance of
    the stacked point sets, summed over the features) times the number of points is the cost
    `_inertia` computes from the accumulated `(n, Σx, Σx²)` — the two cost routines of the module
    are the same linkage. -/
theorem inertiaVar_is_ward_cost (p : Nat) (A B : List Vec) (hA : A ≠ []) :
    inertiaVar p (A ++ B) * ((A ++ B).length : Rat) = ((featOf p A).add (featOf p B)).inertia p := by
  rw [ward_cost_is_merged_wcss p A B hA]
  exact inertiaVar_mul_length p (A ++ B) (by simp [hA])

/-! ## `merge_simple_branches` -/

/-- keeping every node is the identity (`subforest` with an all-true indicator) -/
theorem subforestParents_of_all_valid (par : List Nat) (valid : Nat → Bool)
    (hpar : ∀ v, v < par.length → par.getD v v < par.length) (h : ∀ v, valid v = true) :
    subforestParents par valid = par :=
  subforestParents_all par valid hpar h

/-- "one binary merge per non-leaf": a dendrogram has no simple branch, so
    `merge_simple_branches()` gives back the same forest (same parents, same numbering). -/
theorem mergeSimpleBranches_dendro {n : Nat} {par : List Nat} (hD : Dendro n par) :
    mergeSimpleBranches par = par :=
  msb_dendro hD

/-! ## `_label` -/

/-- `_label_` on a node of a dendrogram (reached from its parent): it is never refused, lists
    exactly the nodes below the node, each once -/
theorem inorder_dendro {n : Nat} {par : List Nat} (hD : Dendro n par) (f fuel : Nat)
    (hf : f < par.length) (hfuel : f < fuel) :
    ∃ l, inorder par false fuel f = some l ∧ l.Nodup ∧ ∀ v, v ∈ l ↔ Below par v f :=
  inorder_spec hD f fuel hf hfuel

/-- **in-order**: below a merge node `f` with children `a < b`, `_label_` numbers the whole subtree
    of `a`, then `f`, then the whole subtree of `b` -/
theorem inorder_dendro_inorder {n : Nat} {par : List Nat} (hD : Dendro n par) (f fuel : Nat)
    (hn : n ≤ f) (hf : f < par.length) (hfuel : f < fuel) :
    ∃ a b la lb, kidsOf par f = [a, b] ∧ a < b ∧
      inorder par false fuel f = some (la ++ f :: lb) ∧
      (∀ v, v ∈ la ↔ Below par v a) ∧ (∀ v, v ∈ lb ↔ Below par v b) :=
  inorder_split_dendro hD f fuel hn hf hfuel

/-- `_label(parents)` on a dendrogram in which no tree is a single item: it is not refused and the
    numbering order lists every node exactly once — `_label` is a bijection onto `0..V-1`. -/
theorem labelOrder_dendro {n : Nat} {par : List Nat} (hD : Dendro n par)
    (hroot : ∀ v, v < n → parFn par v ≠ v) :
    ∃ ord, labelOrder par = some ord ∧ ord.Perm (List.range par.length) :=
  labelOrder_spec hD hroot

/-- … and it is refused (NumPy's `ValueError` from `parent == i` with an empty `i`) as soon as one
    item is a tree of its own (an isolated vertex of the constraint graph) -/
theorem labelOf_refused_of_single_item_tree {n : Nat} {par : List Nat} (hD : Dendro n par)
    (v : Nat) (hv : v < n) (hroot : parFn par v = v) : labelOf par = none :=
  labelOf_none hD v hv hroot

/-! ## Non-vacuity -/

example : inertiaVar 1 ([vecOf [0]] ++ [vecOf [1], vecOf [5]]) = 14 / 3 := by decide +kernel
example : mergeSimpleBranches exPar = exPar := mergeSimpleBranches_dendro exPar_dendro
/-- on a forest that is not a dendrogram the chain nodes go and their children become roots -/
example : mergeSimpleBranches [2, 2, 3, 4, 4] = [2, 2, 2] := by decide
example : labelOf exPar = some [0, 2, 6, 8, 4, 1, 7, 5, 3] := by decide +kernel
example : ∀ v, v < 5 → parFn exPar v ≠ v := by decide
/-- a forest with a single-item tree (node 3) is refused -/
example : labelOf [4, 4, 5, 3, 5, 5] = none := by decide +kernel

end NipyVerif.C14
