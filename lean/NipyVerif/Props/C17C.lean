/-
C17 (part C) — every flag of `fff_onesample_stat.c` / `fff_twosample_stat.c`:

  * the flag enums / constructor dispatch / `.pyx` id dictionaries regenerated from the sources
    (`Gen/C17Tables.lean`) are consistent and pair every flag with the statistic of its name;
  * each rational statistic equals its textbook formula under the library's normalisation;
  * antisymmetry under a sign flip of the data (group swap for two samples), evenness of Grubb;
  * base shift law: `stat(x, base) = stat(x - base, 0)`;
  * axis independence: entry `(o, k, q)` of `stat(Y, axis, Magics)` is the statistic of fibre
    `(o, q)` relabelled by magic number `k`, and of nothing else.
-/
import NipyVerif.Lemmas.C17S
import NipyVerif.Props.C17

namespace NipyVerif.C17

open NipyVerif.Gen.C17

/-! ## The tables read from the C and Cython sources -/

/-- flag names and flag values are pairwise distinct (one-sample and two-sample enums) -/
theorem flags_distinct :
    (osFlags.map (·.1)).Nodup ∧ (osFlags.map (·.2)).Nodup ∧
    (tsFlags.map (·.1)).Nodup ∧ (tsFlags.map (·.2)).Nodup := by decide +kernel

/-- `fff_onesample_stat_new` installs, for every random-effects flag, the statistic of its name -/
theorem os_dispatch_expected :
    osDispatch = [("FFF_ONESAMPLE_EMPIRICAL_MEAN", "_fff_onesample_mean"),
      ("FFF_ONESAMPLE_EMPIRICAL_MEDIAN", "_fff_onesample_median"),
      ("FFF_ONESAMPLE_STUDENT", "_fff_onesample_student"),
      ("FFF_ONESAMPLE_LAPLACE", "_fff_onesample_laplace"),
      ("FFF_ONESAMPLE_TUKEY", "_fff_onesample_tukey"),
      ("FFF_ONESAMPLE_SIGN_STAT", "_fff_onesample_sign_stat"),
      ("FFF_ONESAMPLE_WILCOXON", "_fff_onesample_wilcoxon"),
      ("FFF_ONESAMPLE_ELR", "_fff_onesample_elr"),
      ("FFF_ONESAMPLE_GRUBB", "_fff_onesample_grubb")] := by decide +kernel

/-- `fff_onesample_stat_mfx_new`: the two Gaussian statistics are flagged non-empirical, the five
    distribution-free ones empirical -/
theorem os_mfx_dispatch_expected :
    osMfxDispatch = [("FFF_ONESAMPLE_STUDENT_MFX", "_fff_onesample_LR_gmfx", false),
      ("FFF_ONESAMPLE_GAUSSIAN_MEAN_MFX", "_fff_onesample_mean_gmfx", false),
      ("FFF_ONESAMPLE_EMPIRICAL_MEAN_MFX", "_fff_onesample_mean_mfx", true),
      ("FFF_ONESAMPLE_EMPIRICAL_MEDIAN_MFX", "_fff_onesample_median_mfx", true),
      ("FFF_ONESAMPLE_SIGN_STAT_MFX", "_fff_onesample_sign_stat_mfx", true),
      ("FFF_ONESAMPLE_WILCOXON_MFX", "_fff_onesample_wilcoxon_mfx", true),
      ("FFF_ONESAMPLE_ELR_MFX", "_fff_onesample_LR_mfx", true)] := by decide +kernel

theorem ts_dispatch_expected :
    tsDispatch = [("FFF_TWOSAMPLE_STUDENT", "_fff_twosample_student"),
      ("FFF_TWOSAMPLE_WILCOXON", "_fff_twosample_wilcoxon")] ∧
    tsMfxDispatch = [("FFF_TWOSAMPLE_STUDENT_MFX", "_fff_twosample_student_mfx")] := by decide +kernel

/-- every flag of the one-sample enum is accepted by exactly one of the two constructors, and the
    constructors accept nothing else -/
theorem os_dispatch_partition :
    (∀ p ∈ osFlags, (osDispatch.lookup p.1).isSome ≠ (osMfxDispatch.lookup p.1).isSome) ∧
    (∀ p ∈ osDispatch, (osFlags.lookup p.1).isSome) ∧
    (∀ p ∈ osMfxDispatch, (osFlags.lookup p.1).isSome) ∧
    (∀ p ∈ tsFlags, (tsDispatch.lookup p.1).isSome ≠ (tsMfxDispatch.lookup p.1).isSome) := by
  decide +kernel

/-- the mixed-effects flag of a statistic is its random-effects flag + 10 -/
theorem mfx_flag_offset :
    ∀ p ∈ osFlags, ∀ q ∈ osFlags, q.1 = p.1 ++ "_MFX" → q.2 = p.2 + 10 := by decide +kernel

/-- the two-sample flags carry the values of the one-sample flags of the same statistic -/
theorem ts_flags_agree :
    tsFlags.lookup "FFF_TWOSAMPLE_STUDENT" = osFlags.lookup "FFF_ONESAMPLE_STUDENT" ∧
    tsFlags.lookup "FFF_TWOSAMPLE_WILCOXON" = osFlags.lookup "FFF_ONESAMPLE_WILCOXON" ∧
    tsFlags.lookup "FFF_TWOSAMPLE_STUDENT_MFX" = osFlags.lookup "FFF_ONESAMPLE_STUDENT_MFX" := by
  decide +kernel

/-- the Python ids: distinct, each naming an existing flag, every flag reachable by an id -/
theorem py_ids_total :
    (pyOsStats.map (·.1)).Nodup ∧ (pyOsStats.map (·.2)).Nodup ∧
    (∀ p ∈ pyOsStats, (osFlags.lookup p.2).isSome) ∧
    (∀ f ∈ osFlags, f.1 ∈ pyOsStats.map (·.2)) ∧
    (pyTsStats.map (·.1)).Nodup ∧ (∀ p ∈ pyTsStats, (tsFlags.lookup p.2).isSome) ∧
    (∀ f ∈ tsFlags, f.1 ∈ pyTsStats.map (·.2)) := by decide +kernel

/-- the ids name the statistic they say -/
theorem py_ids_expected :
    pyOsStats.lookup "mean" = some "FFF_ONESAMPLE_EMPIRICAL_MEAN" ∧
    pyOsStats.lookup "median" = some "FFF_ONESAMPLE_EMPIRICAL_MEDIAN" ∧
    pyOsStats.lookup "student" = some "FFF_ONESAMPLE_STUDENT" ∧
    pyOsStats.lookup "laplace" = some "FFF_ONESAMPLE_LAPLACE" ∧
    pyOsStats.lookup "tukey" = some "FFF_ONESAMPLE_TUKEY" ∧
    pyOsStats.lookup "sign" = some "FFF_ONESAMPLE_SIGN_STAT" ∧
    pyOsStats.lookup "wilcoxon" = some "FFF_ONESAMPLE_WILCOXON" ∧
    pyOsStats.lookup "elr" = some "FFF_ONESAMPLE_ELR" ∧
    pyOsStats.lookup "grubb" = some "FFF_ONESAMPLE_GRUBB" ∧
    pyOsStats.lookup "mean_mfx" = some "FFF_ONESAMPLE_EMPIRICAL_MEAN_MFX" ∧
    pyOsStats.lookup "median_mfx" = some "FFF_ONESAMPLE_EMPIRICAL_MEDIAN_MFX" ∧
    pyOsStats.lookup "mean_gauss_mfx" = some "FFF_ONESAMPLE_GAUSSIAN_MEAN_MFX" ∧
    pyOsStats.lookup "student_mfx" = some "FFF_ONESAMPLE_STUDENT_MFX" ∧
    pyOsStats.lookup "sign_mfx" = some "FFF_ONESAMPLE_SIGN_STAT_MFX" ∧
    pyOsStats.lookup "wilcoxon_mfx" = some "FFF_ONESAMPLE_WILCOXON_MFX" ∧
    pyOsStats.lookup "elr_mfx" = some "FFF_ONESAMPLE_ELR_MFX" ∧
    pyTsStats.lookup "student" = some "FFF_TWOSAMPLE_STUDENT" ∧
    pyTsStats.lookup "wilcoxon" = some "FFF_TWOSAMPLE_WILCOXON" ∧
    pyTsStats.lookup "student_mfx" = some "FFF_TWOSAMPLE_STUDENT_MFX" := by decide +kernel

/-- every statistic a constructor can install has a model: the numeric-flag dispatch of the
    model (`osEvalFlag`, `tsEvalFlag`) never answers `unmodelled` -/
theorem dispatch_modelled (x x2 : List Rat) (b : Rat) :
    (∀ p ∈ osDispatch, (osModel p.2 x b).isSome) ∧ (∀ p ∈ tsDispatch, (tsModel p.2 x x2).isSome) := by
  rw [os_dispatch_expected, ts_dispatch_expected.1]
  constructor
  · intro p hp
    simp only [List.mem_cons, List.not_mem_nil, or_false] at hp
    rcases hp with rfl | rfl | rfl | rfl | rfl | rfl | rfl | rfl | rfl <;> simp [osModel]
  · intro p hp
    simp only [List.mem_cons, List.not_mem_nil, or_false] at hp
    rcases hp with rfl | rfl <;> simp [tsModel]

/-! ## Textbook formulas under the library's normalisation -/

/-- Student: `t² = (mean - base)² / (s² / n)` with `s² = Σ (x - mean)² / (n - 1)`
    (`osStudentSq` returns the sign of `mean - base` and `t²`) -/
theorem osStudentSq_textbook (x : List Rat) (base : Rat) (hn : 2 ≤ x.length)
    (hd : mean x ≠ base) (hv : ssd x ≠ 0) :
    osStudentSq x base =
      (sgn (mean x - base),
       some ((mean x - base) * (mean x - base) /
         ((x.map (fun v => (v - mean x) * (v - mean x))).sum / ((x.length : Rat) - 1) / x.length))) := by
  have hne : x ≠ [] := by intro h; simp [h] at hn
  have hl : ((x.length : Nat) : Rat) ≠ 0 := by
    have : 0 < x.length := by omega
    exact_mod_cast (Nat.pos_iff_ne_zero.mp this)
  have hl1 : ((x.length : Nat) : Rat) - 1 ≠ 0 := by
    have : (2 : Rat) ≤ x.length := by exact_mod_cast hn
    intro h; linarith
  unfold osStudentSq
  have h1 : mean x - base ≠ 0 := sub_ne_zero.mpr hd
  have h2 : ssd x / (x.length : Rat) ≠ 0 := div_ne_zero hv hl
  simp only [h1, h2, if_false]
  rw [← ssd_eq_sum_sq_dev x hne]
  congr 2
  field_simp

/-- sign statistic: `(n₊ - n₋) / n` -/
theorem osSign_textbook (x : List Rat) (base : Rat) :
    osSign x base =
      (((x.countP (fun v => decide (base < v)) : Nat) : Rat) -
        ((x.countP (fun v => decide (v < base)) : Nat) : Rat)) / x.length := by
  unfold osSign; rw [sum_sgn_eq_counts]

/-- the median is the middle of the sorted sample (mean of the two middle values for even `n`) -/
theorem median_textbook (x : List Rat) :
    ∃ s : List Rat, s.Perm x ∧ s.Pairwise (· ≤ ·) ∧
      median x = if s.length % 2 = 1 then s.getD (s.length / 2) 0
                 else (s.getD (s.length / 2 - 1) 0 + s.getD (s.length / 2) 0) / 2 :=
  ⟨sortLe x, sortLe_perm x, sortLe_sorted x, rfl⟩

/-- Laplace: `s` is the mean absolute deviation from the median, `s0` the larger of `s` and the
    mean absolute deviation from the baseline: `0 ≤ s ≤ s0`, so `log(s0/s) ≥ 0` under the root -/
theorem osLaplace_scales (x : List Rat) (base : Rat) :
    (osLaplace x base).2.2 = sad x (median x) / x.length ∧
    0 ≤ (osLaplace x base).2.2 ∧ (osLaplace x base).2.2 ≤ (osLaplace x base).2.1 ∧
    sad x base / x.length ≤ (osLaplace x base).2.1 := by
  unfold osLaplace
  simp only
  refine ⟨trivial, div_nonneg (sad_nonneg _ _) (Nat.cast_nonneg _), ?_, ?_⟩
  · split
    · exact le_refl _
    · rename_i h; exact not_lt.mp h
  · split
    · rename_i h; exact le_of_lt h
    · exact le_refl _

/-- Tukey: the same with medians of absolute deviations -/
theorem osTukey_scales (x : List Rat) (base : Rat) :
    (osTukey x base).2.2 = median (x.map (fun v => rabs (v - median x))) ∧
    0 ≤ (osTukey x base).2.2 ∧ (osTukey x base).2.2 ≤ (osTukey x base).2.1 ∧
    median (x.map (fun v => rabs (v - base))) ≤ (osTukey x base).2.1 := by
  unfold osTukey
  simp only
  refine ⟨trivial, ?_, rmax_ge_right _ _, rmax_ge_left _ _⟩
  apply median_nonneg
  intro a ha
  obtain ⟨v, _, rfl⟩ := List.mem_map.mp ha
  exact rabs_nonneg _

/-- two-sample Student (library normalisation: no `sqrt(1/n1 + 1/n2)` factor):
    `t² = (m1 - m2)² / s_p²`, `s_p² = (Σ (x1 - m1)² + Σ (x2 - m2)²) / (n1 + n2 - 2)` -/
theorem tsStudentSq_textbook (x1 x2 : List Rat) (h1 : x1 ≠ []) (h2 : x2 ≠ [])
    (hn : 3 ≤ x1.length + x2.length) (hv : 0 < ssd x1 + ssd x2) :
    tsStudentSq x1 x2 =
      (sgn (mean x1 - mean x2),
       some ((mean x1 - mean x2) * (mean x1 - mean x2) /
         (((x1.map (fun v => (v - mean x1) * (v - mean x1))).sum +
           (x2.map (fun v => (v - mean x2) * (v - mean x2))).sum) /
             ((x1.length : Rat) + x2.length - 2)))) := by
  unfold tsStudentSq
  have hdf : ¬ (x1.length + x2.length ≤ 2) := by omega
  simp only [if_neg hdf]
  have hc : (((x1.length + x2.length - 2 : Nat) : Nat) : Rat) = (x1.length : Rat) + x2.length - 2 := by
    rw [Nat.cast_sub (by omega)]; push_cast; ring
  have hpos : (0 : Rat) < (x1.length : Rat) + x2.length - 2 := by
    have : (3 : Rat) ≤ (x1.length : Rat) + x2.length := by exact_mod_cast hn
    linarith
  rw [hc]
  have hv' : ¬ (ssd x1 + ssd x2) / ((x1.length : Rat) + x2.length - 2) ≤ 0 := by
    have := div_pos hv hpos; linarith
  simp only [if_neg hv']
  rw [ssd_eq_sum_sq_dev x1 h1, ssd_eq_sum_sq_dev x2 h2]

/-! ## Antisymmetry -/

theorem osMedian_odd (x : List Rat) (base : Rat) :
    osMedian (x.map (fun v => -v)) (-base) = -osMedian x base := by
  unfold osMedian; rw [median_neg]; ring

/-- Laplace: the sign flips, the two scales are unchanged -/
theorem osLaplace_odd (x : List Rat) (base : Rat) :
    osLaplace (x.map (fun v => -v)) (-base) =
      (-(osLaplace x base).1, (osLaplace x base).2.1, (osLaplace x base).2.2) := by
  unfold osLaplace
  simp only [median_neg, sad_neg, List.length_map]
  have : -median x - -base = -(median x - base) := by ring
  rw [this, sgn_neg]

theorem osTukey_odd (x : List Rat) (base : Rat) :
    osTukey (x.map (fun v => -v)) (-base) =
      (-(osTukey x base).1, (osTukey x base).2.1, (osTukey x base).2.2) := by
  unfold osTukey
  simp only [median_neg, absdev_neg]
  have : -median x - -base = -(median x - base) := by ring
  rw [this, sgn_neg]

/-- Grubb's statistic does not see a global sign flip -/
theorem osGrubbSq_even (x : List Rat) : osGrubbSq (x.map (fun v => -v)) = osGrubbSq x := by
  unfold osGrubbSq
  simp only [mean_neg, ssd_neg, List.length_map, List.map_map]
  have : ((fun u => (u - -mean x) * (u - -mean x)) ∘ fun v : Rat => -v) =
      fun u => (u - mean x) * (u - mean x) := by funext u; simp only [Function.comp]; ring
  rw [this]

theorem any_neg_pos (r : List Rat) :
    (r.map (fun v => -v)).any (fun c => decide (0 < c)) = r.any (fun c => decide (c < 0)) := by
  induction r with
  | nil => rfl
  | cons a t ih => simp only [List.map_cons, List.any_cons, ih]; congr 1; simp

theorem any_neg_neg (r : List Rat) :
    (r.map (fun v => -v)).any (fun c => decide (c < 0)) = r.any (fun c => decide (0 < c)) := by
  induction r with
  | nil => rfl
  | cons a t ih => simp only [List.map_cons, List.any_cons, ih]; congr 1; simp

/-- empirical likelihood ratio: the kind (zero / infinite / finite) is unchanged, the sign flips -/
theorem osElr_odd (x : List Rat) (base : Rat) :
    osElr (x.map (fun v => -v)) (-base) = (osElr x base).neg := by
  unfold osElr
  have hr : (x.map (fun v => -v)).map (· - -base) = (x.map (· - base)).map (fun v => -v) := by
    simp only [List.map_map]; apply List.map_congr_left; intro a _; simp only [Function.comp]; ring
  simp only [hr, mean_neg, sgn_neg, any_neg_pos, any_neg_neg]
  by_cases h0 : sgn (mean (x.map (· - base))) = 0
  · simp [h0, ElrKind.neg]
  · have h0' : ¬ -sgn (mean (x.map (· - base))) = 0 := by simpa using h0
    simp only [h0, h0', if_false, Bool.and_comm]
    split <;> simp [ElrKind.neg]

/-- two-sample Student under exchange of the groups: the sign flips, `t²` is unchanged -/
theorem tsStudentSq_swap (x1 x2 : List Rat) :
    tsStudentSq x2 x1 = (-(tsStudentSq x1 x2).1, (tsStudentSq x1 x2).2) := by
  unfold tsStudentSq
  have e1 : x2.length + x1.length = x1.length + x2.length := Nat.add_comm _ _
  have e2 : ssd x2 + ssd x1 = ssd x1 + ssd x2 := add_comm _ _
  have e3 : mean x2 - mean x1 = -(mean x1 - mean x2) := by ring
  simp only [e1, e2, e3, sgn_neg, neg_mul_neg]
  split_ifs <;> simp

/-- two-sample Wilcoxon (`Σ_i (1/n2) Σ_j sign(x1_i - x2_j)`): exchanging the groups negates the
    double sum; with the library's one-sided `1/n2` normalisation that reads
    `n1 · W(x2, x1) = - n2 · W(x1, x2)` -/
theorem tsWilcoxon_swap (x1 x2 : List Rat) (h1 : x1 ≠ []) (h2 : x2 ≠ []) :
    (x1.length : Rat) * tsWilcoxon x2 x1 = -((x2.length : Rat) * tsWilcoxon x1 x2) := by
  have hl1 : ((x1.length : Nat) : Rat) ≠ 0 := by
    have := List.length_pos_iff.mpr h1
    exact_mod_cast (Nat.pos_iff_ne_zero.mp this)
  have hl2 : ((x2.length : Nat) : Rat) ≠ 0 := by
    have := List.length_pos_iff.mpr h2
    exact_mod_cast (Nat.pos_iff_ne_zero.mp this)
  unfold tsWilcoxon
  have a : ∀ (u w : List Rat), (u.map (fun a => (w.map (fun b => sgn (a - b))).sum / (w.length : Rat))).sum =
      (u.map (fun a => (w.map (fun b => sgn (a - b))).sum)).sum / w.length := by
    intro u w
    rw [← sum_map_div_const, List.map_map]; rfl
  rw [a x2 x1, a x1 x2, double_sum_swap x2 x1]
  have neg : (x1.map (fun b => (x2.map (fun a => sgn (a - b))).sum)).sum =
      -(x1.map (fun a => (x2.map (fun b => sgn (a - b))).sum)).sum := by
    rw [← sum_map_neg, List.map_map]
    congr 1
    apply List.map_congr_left
    intro b _
    simp only [Function.comp]
    rw [← sum_map_neg, List.map_map]
    congr 1
    apply List.map_congr_left
    intro a _
    simp only [Function.comp]
    rw [← sgn_neg]; congr 1; ring
  rw [neg]
  field_simp

/-! ## Base shift law: a statistic is a function of the residuals `x - base` -/

theorem osMean_shift (x : List Rat) (base : Rat) (hne : x ≠ []) :
    osMean x base = osMean (x.map (· - base)) 0 := by
  unfold osMean; rw [mean_shift x base hne]; ring

theorem osMedian_shift (x : List Rat) (base : Rat) (hne : x ≠ []) :
    osMedian x base = osMedian (x.map (· - base)) 0 := by
  unfold osMedian; rw [median_shift x base hne]; ring

theorem osSign_shift (x : List Rat) (base : Rat) :
    osSign x base = osSign (x.map (· - base)) 0 := by
  unfold osSign; simp only [List.map_map, List.length_map, sub_zero]; rfl

theorem osWilcoxon_shift (x : List Rat) (base : Rat) :
    osWilcoxon x base = osWilcoxon (x.map (· - base)) 0 := by
  unfold osWilcoxon; simp only [List.map_map, List.length_map, sub_zero]; rfl

theorem osStudentSq_shift (x : List Rat) (base : Rat) (hne : x ≠ []) :
    osStudentSq x base = osStudentSq (x.map (· - base)) 0 := by
  unfold osStudentSq
  simp only [mean_shift x base hne, ssd_shift x base hne, List.length_map, sub_zero]

theorem osLaplace_shift (x : List Rat) (base : Rat) (hne : x ≠ []) :
    osLaplace x base = osLaplace (x.map (· - base)) 0 := by
  unfold osLaplace
  have h0 : sad (x.map (· - base)) 0 = sad x base := by
    have := sad_shift x base base; simpa using this
  simp only [median_shift x base hne, sad_shift, h0, List.length_map, sub_zero]

theorem osTukey_shift (x : List Rat) (base : Rat) (hne : x ≠ []) :
    osTukey x base = osTukey (x.map (· - base)) 0 := by
  unfold osTukey
  have h0 : (x.map (· - base)).map (fun v => rabs (v - 0)) = x.map (fun v => rabs (v - base)) := by
    rw [List.map_map]; apply List.map_congr_left; intro a _; simp only [Function.comp, sub_zero]
  simp only [median_shift x base hne]
  rw [absdev_shift, h0, sub_zero]

theorem osElr_shift (x : List Rat) (base : Rat) : osElr x base = osElr (x.map (· - base)) 0 := by
  unfold osElr; simp only [List.map_map, sub_zero]; rfl

/-- Grubb's statistic ignores the baseline and any common shift of the data -/
theorem osGrubbSq_shift_invariant (x : List Rat) (c : Rat) (hne : x ≠ []) :
    osGrubbSq (x.map (· - c)) = osGrubbSq x := by
  unfold osGrubbSq
  simp only [mean_shift x c hne, ssd_shift x c hne, List.length_map, List.map_map]
  have : ((fun u => (u - (mean x - c)) * (u - (mean x - c))) ∘ fun v : Rat => v - c) =
      fun u => (u - mean x) * (u - mean x) := by funext u; simp only [Function.comp]; ring
  rw [this]

/-- the Gaussian likelihood-ratio statistic is computed on the residuals -/
theorem osLRGmfx_shift (x var : List Rat) (niter : Nat) (base : Rat) :
    osLRGmfx x var niter base = osLRGmfx (x.map (· - base)) var niter 0 := by
  unfold osLRGmfx; simp only [List.map_map, sub_zero]; rfl

/-! ## Axis independence -/

/-- **applied independently along the axis**: entry `(o, k, q)` of the C-contiguous output of
    `stat(Y, id, base, axis, Magics)` is the statistic of the fibre `(o, q)` of `Y`, relabelled by
    the `k`-th magic number — no other entry of `Y`, no other magic number enters -/
theorem axis_independent {β} (stat : List Rat → β) (outer n inner : Nat) (data : Array Rat)
    (magics : List Nat) (o k q : Nat) (ho : o < outer) (hk : k < magics.length) (hq : q < inner) :
    (statAxis stat outer n inner data magics)[(o * magics.length + k) * inner + q]? =
      some (stat (permuteSigns (fibre n inner data o q) magics[k])) := by
  unfold statAxis
  have hinner : ∀ (o' : Nat) (m : Nat), m ∈ magics →
      ((List.range inner).map fun q => stat (permuteSigns (fibre n inner data o' q) m)).length = inner := by
    intro o' m _; simp
  have hmid : ∀ o' ∈ List.range outer, (magics.flatMap fun m =>
      (List.range inner).map fun q => stat (permuteSigns (fibre n inner data o' q) m)).length =
        magics.length * inner := by
    intro o' _
    exact flatMap_length_uniform _ _ _ (hinner o')
  have hidx : (o * magics.length + k) * inner + q = o * (magics.length * inner) + (k * inner + q) := by ring
  have hlt : k * inner + q < magics.length * inner := by
    have : (k + 1) * inner ≤ magics.length * inner := Nat.mul_le_mul_right _ hk
    rw [Nat.add_mul, Nat.one_mul] at this
    omega
  rw [hidx, flatMap_getElem?_uniform _ _ _ hmid o _ (by simpa using ho) hlt]
  simp only [List.getElem_range]
  rw [flatMap_getElem?_uniform _ _ _ (hinner o) k q hk hq]
  simp [hq]

/-- the same for two samples: entry `(o, k, q)` is the two-sample statistic of the fibres `(o, q)`
    of `Y1` and `Y2`, relabelled by the `k`-th magic number -/
theorem axis_independent_twosample {β} (stat : List Rat → List Rat → β) (outer n1 n2 inner : Nat)
    (d1 d2 : Array Rat) (magics : List Nat) (o k q : Nat) (ho : o < outer) (hk : k < magics.length)
    (hq : q < inner) :
    (statAxis2 stat outer n1 n2 inner d1 d2 magics)[(o * magics.length + k) * inner + q]? =
      some (stat ((twosampleRelabel (fibre n1 inner d1 o q) (fibre n2 inner d2 o q) magics[k]).take n1)
                 ((twosampleRelabel (fibre n1 inner d1 o q) (fibre n2 inner d2 o q) magics[k]).drop n1)) := by
  unfold statAxis2
  have hinner : ∀ (o' : Nat) (m : Nat), m ∈ magics →
      ((List.range inner).map fun q =>
        stat ((twosampleRelabel (fibre n1 inner d1 o' q) (fibre n2 inner d2 o' q) m).take n1)
             ((twosampleRelabel (fibre n1 inner d1 o' q) (fibre n2 inner d2 o' q) m).drop n1)).length = inner := by
    intro o' m _; simp
  have hmid : ∀ o' ∈ List.range outer, (magics.flatMap fun m =>
      (List.range inner).map fun q =>
        stat ((twosampleRelabel (fibre n1 inner d1 o' q) (fibre n2 inner d2 o' q) m).take n1)
             ((twosampleRelabel (fibre n1 inner d1 o' q) (fibre n2 inner d2 o' q) m).drop n1)).length =
        magics.length * inner := by
    intro o' _
    exact flatMap_length_uniform _ _ _ (hinner o')
  have hidx : (o * magics.length + k) * inner + q = o * (magics.length * inner) + (k * inner + q) := by ring
  have hlt : k * inner + q < magics.length * inner := by
    have : (k + 1) * inner ≤ magics.length * inner := Nat.mul_le_mul_right _ hk
    rw [Nat.add_mul, Nat.one_mul] at this
    omega
  rw [hidx, flatMap_getElem?_uniform _ _ _ hmid o _ (by simpa using ho) hlt]
  simp only [List.getElem_range]
  rw [flatMap_getElem?_uniform _ _ _ (hinner o) k q hk hq]
  simp [hq]

/-- the output has the shape `(outer, |magics|, inner)` -/
theorem statAxis_length {β} (stat : List Rat → β) (outer n inner : Nat) (data : Array Rat)
    (magics : List Nat) : (statAxis stat outer n inner data magics).length = outer * (magics.length * inner) := by
  unfold statAxis
  have := flatMap_length_uniform (List.range outer)
    (fun o => magics.flatMap fun m => (List.range inner).map fun q => stat (permuteSigns (fibre n inner data o q) m))
    (magics.length * inner) (fun o' _ => flatMap_length_uniform _ _ _ (fun m _ => by simp))
  simpa using this

/-! ## Non-vacuity -/

example : osTukey [1, 2, 4, 8, -3] 0 = (1, 3, 2) := by decide +kernel
example : osGrubbSq [1, 2, 4, 8, -3] = 392 / 163 := by decide +kernel
example : osElr [1, 2, 4, 8, -3] 1 = .fin 1 := by decide +kernel
example : osElr [2, 3] 1 = .inf 1 := by decide +kernel
example : osEvalFlag 4 [1, 2, 4, 8, -3] 0 = "1 3 2" := by decide +kernel
example : osEvalFlag 9 [1, 2] 0 = "error:unrecognized" := by decide +kernel
example : (2 : Rat) * tsWilcoxon [3, 4] [1, 5] = -((2 : Rat) * tsWilcoxon [1, 5] [3, 4]) := by decide +kernel
example : statAxis (fun x => osMean x 0) 2 3 2 #[1, 2, 3, 4, 5, 6, 7, 8, 9, 10, 11, 12] [0, 1] =
    [3, 4, 7/3, 8/3, 9, 10, 13/3, 14/3] := by decide +kernel

end NipyVerif.C17
