/-
C05 — the tables and constants the model uses are those of the *current* source: the translator of
`harness/props/C05.py` regenerates `Gen/C05Tables.lean` from /repo before every build, and these
theorems compare.  (A change of the labs model/method table, of the fMRI model list, of the
`Tcontrast` store names or of the Kalman prior variance breaks the build, hence the check.)
-/
import NipyVerif.Model.C05E
import NipyVerif.Gen.C05Tables

namespace NipyVerif.C05

theorem labs_models_table_current : labsModelsTable = Gen.labsModels := by decide

theorem fmri_models_table_current : fmriModelsTable = Gen.fmriModels := by decide

theorem tcon_store_table_current : tconStoreTable = Gen.tconStore ∧
    storeOk = storeOkT Gen.tconStore := ⟨by decide, rfl⟩

/-- `FFF_GLM_KALMAN_INIT_VAR` -/
theorem kf_init_var_current : kfInitVar = Gen.kfInitVar := by decide +kernel

/-- `FFF_TINY` of `lib/fff/fff_base.h` (the floor of `FFF_ENSURE_POSITIVE` in the refined Kalman filter) -/
theorem fff_tiny_current : fffTiny = Gen.fffTiny := by decide +kernel

/-- the table-driven guard is the guard of the base model on every input -/
theorem guardLabs_table (model method : String) (nY nX : Nat) :
    guardLabsT labsModelsTable model method nY nX = guardLabs model method nY nX := by
  unfold guardLabsT guardLabs labsModelsTable
  by_cases h : nY = nX
  · by_cases h1 : model = "spherical"
    · subst h1
      by_cases m1 : method = "none"
      · simp [h, m1, List.lookup]
      · by_cases m2 : method = "ols"
        · simp [h, m2, List.lookup]
        · by_cases m3 : method = "kalman"
          · simp [h, m3, List.lookup]
          · simp [h, m1, m2, m3, List.lookup]
    · by_cases h2 : model = "ar1"
      · subst h2
        by_cases m1 : method = "none"
        · simp [h, m1, List.lookup]
        · by_cases m3 : method = "kalman"
          · simp [h, m3, List.lookup]
          · simp [h, m1, m3, List.lookup]
      · have e1' : (model == "spherical") = false := by simpa using h1
        have e2' : (model == "ar1") = false := by simpa using h2
        simp [h, h1, h2, List.lookup, e1', e2']
  · simp [h]

end NipyVerif.C05
