/-
C17 (part B) — the seeded relabellings are *bijections*, for every size:

  * `fff_permutation`   : `[0, n!)`            → permutations of `0..n-1`
  * `fff_combination`   : `[0, C(n,k))`        → strictly increasing `k`-subsets of `0..n-1`
  * `fff_twosample_permutation` + `fff_twosample_apply_permutation`
                        : `[0, C(n1+n2, n1))`  → `n1`-subsets of the `n1+n2` subjects
                          (the composition of the first group after relabelling)

each with magic 0 = the identity relabelling, and the literal array loop of `fff_permutation`
(`memmove`) proved equal to the Lehmer-code model.
-/
import NipyVerif.Lemmas.C17Enum
import NipyVerif.Props.C17

namespace NipyVerif.C17

/-! ## `fff_permutation` -/

/-- the literal C loop (`tmp = x[j]; memmove(x+i+1, x+i, ir); x[i] = tmp` on one array)
    computes the factorial-number-system unranking `permutation` -/
theorem permutationArr_eq (n magic : Nat) : permutationArr n magic = permutation n magic := by
  unfold permutationArr permutation
  have := permLoop_eq n [] (List.range n) magic List.length_range
  simpa using this

/-- **bijection**: every permutation of `0..n-1` is `fff_permutation(n, m)` for exactly one
    magic number `m < n!` -/
theorem permutation_bijective (n : Nat) (p : List Nat) (hp : p.Perm (List.range n)) :
    ∃! m, m < n.factorial ∧ permutation n m = p := by
  obtain ⟨m, hm, he⟩ := permAux_surj n (List.range n) p List.length_range List.nodup_range hp
  refine ⟨m, ⟨hm, he⟩, ?_⟩
  rintro m' ⟨hm', he'⟩
  exact permAux_inj n (List.range n) m' m List.length_range List.nodup_range hm' hm
    (by unfold permutation at he'; rw [he', he])

/-- the same for the array-level loop -/
theorem permutationArr_bijective (n : Nat) (p : List Nat) (hp : p.Perm (List.range n)) :
    ∃! m, m < n.factorial ∧ permutationArr n m = p := by
  simp only [permutationArr_eq]; exact permutation_bijective n p hp

/-! ## `fff_combination` -/

/-- **bijection**: every strictly increasing `k`-subset of `0..n-1` is `fff_combination(k, n, m)`
    for exactly one magic number `m < C(n,k)` -/
theorem combination_bijective (k n : Nat) (h : k ≤ n) (l : List Nat) (hl : l.length = k)
    (hs : l.Pairwise (· < ·)) (hb : ∀ x ∈ l, x < n) :
    ∃! m, m < n.choose k ∧ combination k n m = l := by
  obtain ⟨m, hm, he⟩ := combAux_surj n k 0 l hl hs (fun x hx => by have := hb x hx; omega)
  have hc : combination k n m = l := by
    unfold combination; rw [combinations_eq k n h, Nat.mod_eq_of_lt hm, he]
  refine ⟨m, ⟨hm, hc⟩, ?_⟩
  rintro m' ⟨hm', he'⟩
  have : combination k n m' = combination k n m := by rw [he', hc]
  unfold combination at this
  rw [combinations_eq k n h, Nat.mod_eq_of_lt hm, Nat.mod_eq_of_lt hm'] at this
  exact combAux_inj n k 0 m' m h hm' hm this

/-- out-of-range magic numbers wrap around (`m = magic % C(n,k)` in the C code) -/
theorem combination_mod (k n m : Nat) (h : k ≤ n) :
    combination k n m = combination k n (m % n.choose k) := by
  unfold combination; rw [combinations_eq k n h, Nat.mod_mod]

/-! ## Two-sample relabellings -/

/-- magic 0 is the identity relabelling of every pair of samples -/
theorem twosample_identity {α} (x1 x2 : List α) : twosampleRelabel x1 x2 0 = x1 ++ x2 := by
  unfold twosampleRelabel twosamplePerm
  simp [tsSearch, combination, combAux, applyExchange]

/-- every magic number gives a rearrangement of the pooled sample (nothing lost or duplicated) -/
theorem twosample_relabel_perm {α} (x1 x2 : List α) (magic : Nat) :
    (twosampleRelabel x1 x2 magic).Perm (x1 ++ x2) := by
  unfold twosampleRelabel
  split
  · exact List.Perm.refl _
  · exact applyExchange_perm _ _ _ _

theorem twosample_labels_perm (n1 n2 magic : Nat) :
    (twosampleLabels n1 n2 magic).Perm (List.range (n1 + n2)) := by
  unfold twosampleLabels
  have h := twosample_relabel_perm (List.range n1) ((List.range n2).map (· + n1)) magic
  have e : List.range n1 ++ (List.range n2).map (· + n1) = List.range (n1 + n2) := by
    rw [List.range_add]; congr 1; apply List.map_congr_left; intro a _; omega
  rwa [e] at h

/-- relabelling the data = reading the data at the relabelled subject labels
    (the relabelling does not look at the values) -/
theorem twosample_relabel_via_labels (x1 x2 : List Rat) (magic : Nat) :
    twosampleRelabel x1 x2 magic =
      (twosampleLabels x1.length x2.length magic).map (fun i => (x1 ++ x2).getD i 0) := by
  have e : List.range x1.length ++ (List.range x2.length).map (· + x1.length) =
      List.range (x1 ++ x2).length := by
    rw [List.length_append, List.range_add]; congr 1; apply List.map_congr_left; intro a _; omega
  have hid : x1 ++ x2 = (List.range (x1 ++ x2).length).map (fun i => (x1 ++ x2).getD i 0) := by
    apply List.ext_getElem (by simp)
    intro i h1 h2
    simp [List.getD_eq_getElem?_getD, List.getElem?_eq_getElem h1]
  unfold twosampleLabels twosampleRelabel
  simp only [List.length_range, List.length_map]
  split
  · rw [e]; exact hid
  · rw [e, ← applyExchange_map, ← hid]

/-- composition of the first group after relabelling, for an in-range magic number: stratum `j`
    (number of exchanges), the `j`-subset `A` of group 1 that leaves and the `j`-subset `B` of
    group 2 that enters -/
theorem twosample_group1_mem (n1 n2 magic : Nat) (h : magic < (n1 + n2).choose n1) :
    ∃ j, j ≤ min n1 n2 ∧ stratumSum n1 n2 j ≤ magic ∧ magic < stratumSum n1 n2 (j + 1) ∧
      ∀ x, x ∈ twosampleGroup1 n1 n2 magic ↔
        (x < n1 ∧ x ∉ combination j n1 ((magic - stratumSum n1 n2 j) % n1.choose j)) ∨
        (n1 ≤ x ∧ x - n1 ∈ combination j n2 ((magic - stratumSum n1 n2 j) / n1.choose j)) := by
  obtain ⟨j, hj, a, b, e⟩ := twosamplePerm_spec n1 n2 magic h
  refine ⟨j, hj, a, b, ?_⟩
  intro x
  have hj1 : j ≤ n1 := by omega
  have hj2 : j ≤ n2 := by omega
  obtain ⟨l1, b1, s1⟩ := combination_sorted_subset j n1 ((magic - stratumSum n1 n2 j) % n1.choose j) hj1
  obtain ⟨l2, b2, s2⟩ := combination_sorted_subset j n2 ((magic - stratumSum n1 n2 j) / n1.choose j) hj2
  have er : List.range n1 ++ (List.range n2).map (· + n1) = List.range (n1 + n2) := by
    rw [List.range_add]; congr 1; apply List.map_congr_left; intro a _; omega
  unfold twosampleGroup1 twosampleLabels twosampleRelabel
  simp only [List.length_range, List.length_map]
  rw [e]
  simp only [er]
  exact exchange_group1_mem n1 n2 _ _ (s1.imp (fun h => Nat.ne_of_lt h)) (s2.imp (fun h => Nat.ne_of_lt h))
    (by rw [l1, l2]) b1 b2 x

/-- distinct magic numbers in `[0, C(n1+n2, n1))` give distinct first groups (as sets) -/
theorem twosample_injective (n1 n2 m m' : Nat) (h : m < (n1 + n2).choose n1)
    (h' : m' < (n1 + n2).choose n1)
    (he : ∀ x, x ∈ twosampleGroup1 n1 n2 m ↔ x ∈ twosampleGroup1 n1 n2 m') : m = m' := by
  obtain ⟨j, hj, a, b, g⟩ := twosample_group1_mem n1 n2 m h
  obtain ⟨j', hj', a', b', g'⟩ := twosample_group1_mem n1 n2 m' h'
  have hj1 : j ≤ n1 := by omega
  have hj2 : j ≤ n2 := by omega
  have hj1' : j' ≤ n1 := by omega
  have hj2' : j' ≤ n2 := by omega
  -- abbreviations
  generalize hA : combination j n1 ((m - stratumSum n1 n2 j) % n1.choose j) = A at g
  generalize hB : combination j n2 ((m - stratumSum n1 n2 j) / n1.choose j) = B at g
  generalize hA' : combination j' n1 ((m' - stratumSum n1 n2 j') % n1.choose j') = A' at g'
  generalize hB' : combination j' n2 ((m' - stratumSum n1 n2 j') / n1.choose j') = B' at g'
  have sA := combination_sorted_subset j n1 ((m - stratumSum n1 n2 j) % n1.choose j) hj1
  have sB := combination_sorted_subset j n2 ((m - stratumSum n1 n2 j) / n1.choose j) hj2
  have sA' := combination_sorted_subset j' n1 ((m' - stratumSum n1 n2 j') % n1.choose j') hj1'
  have sB' := combination_sorted_subset j' n2 ((m' - stratumSum n1 n2 j') / n1.choose j') hj2'
  rw [hA] at sA; rw [hB] at sB; rw [hA'] at sA'; rw [hB'] at sB'
  have key : ∀ x, ((x < n1 ∧ x ∉ A) ∨ (n1 ≤ x ∧ x - n1 ∈ B)) ↔
      ((x < n1 ∧ x ∉ A') ∨ (n1 ≤ x ∧ x - n1 ∈ B')) := fun x => by rw [← g x, ← g' x]; exact he x
  have eA : A = A' := by
    apply sorted_ext sA.2.2 sA'.2.2
    intro x
    by_cases hx : x < n1
    · have := key x
      constructor
      · intro hm; by_contra hn
        have := this.mpr (Or.inl ⟨hx, hn⟩)
        rcases this with ⟨_, q⟩ | ⟨q, _⟩
        · exact q hm
        · omega
      · intro hm; by_contra hn
        have := this.mp (Or.inl ⟨hx, hn⟩)
        rcases this with ⟨_, q⟩ | ⟨q, _⟩
        · exact q hm
        · omega
    · constructor
      · intro hm; have := sA.2.1 x hm; omega
      · intro hm; have := sA'.2.1 x hm; omega
  have eB : B = B' := by
    apply sorted_ext sB.2.2 sB'.2.2
    intro y
    have := key (n1 + y)
    simp only [Nat.add_sub_cancel_left, Nat.le_add_right, true_and] at this
    constructor
    · intro hm
      rcases this.mp (Or.inr hm) with ⟨q, _⟩ | q
      · omega
      · exact q
    · intro hm
      rcases this.mpr (Or.inr hm) with ⟨q, _⟩ | q
      · omega
      · exact q
  have ej : j = j' := by rw [← sA.1, ← sA'.1, eA]
  subst ej
  -- equal strata, equal combinations => equal residual magic numbers
  have c1pos : 0 < n1.choose j := Nat.choose_pos hj1
  have bnd : ∀ q, stratumSum n1 n2 j ≤ q → q < stratumSum n1 n2 (j + 1) →
      (q - stratumSum n1 n2 j) / n1.choose j < n2.choose j := by
    intro q q1 q2
    rw [stratumSum_succ] at q2
    rw [Nat.div_lt_iff_lt_mul c1pos, Nat.mul_comm]; omega
  have e1 : (m - stratumSum n1 n2 j) % n1.choose j = (m' - stratumSum n1 n2 j) % n1.choose j :=
    combination_injective j n1 _ _ hj1 (Nat.mod_lt _ c1pos) (Nat.mod_lt _ c1pos) (by rw [hA, hA', eA])
  have e2 : (m - stratumSum n1 n2 j) / n1.choose j = (m' - stratumSum n1 n2 j) / n1.choose j :=
    combination_injective j n2 _ _ hj2 (bnd m a b) (bnd m' a' b') (by rw [hB, hB', eB])
  have d := Nat.div_add_mod (m - stratumSum n1 n2 j) (n1.choose j)
  have d' := Nat.div_add_mod (m' - stratumSum n1 n2 j) (n1.choose j)
  rw [e1, e2] at d
  omega

/-- the first group always consists of `n1` distinct subjects among `0 .. n1+n2-1` -/
theorem twosample_group1_valid (n1 n2 magic : Nat) :
    (twosampleGroup1 n1 n2 magic).length = n1 ∧ (twosampleGroup1 n1 n2 magic).Nodup ∧
      ∀ x ∈ twosampleGroup1 n1 n2 magic, x < n1 + n2 := by
  have hp := twosample_labels_perm n1 n2 magic
  have hn : (twosampleLabels n1 n2 magic).Nodup := hp.nodup_iff.mpr List.nodup_range
  unfold twosampleGroup1
  refine ⟨?_, List.Nodup.sublist (List.take_sublist _ _) hn, ?_⟩
  · rw [List.length_take, hp.length_eq, List.length_range]; omega
  · intro x hx
    have := hp.subset (List.mem_of_mem_take hx)
    simpa using this

/-- **the two-sample relabelling enumerates exactly**: the map
    `magic ↦ {subjects of the first group after relabelling}` is a bijection from
    `[0, C(n1+n2, n1))` onto the `n1`-subsets of the `n1+n2` subjects: every two-group split is
    produced by exactly one magic number of the range. -/
theorem twosample_enumerates (n1 n2 : Nat) (S : Finset Nat) (hS : S ⊆ Finset.range (n1 + n2))
    (hc : S.card = n1) :
    ∃! m, m < (n1 + n2).choose n1 ∧ (twosampleGroup1 n1 n2 m).toFinset = S := by
  have hinj : Set.InjOn (fun m => (twosampleGroup1 n1 n2 m).toFinset)
      (Finset.range ((n1 + n2).choose n1) : Set Nat) := by
    intro a ha b hb he
    apply twosample_injective n1 n2 a b (by simpa using ha) (by simpa using hb)
    intro x
    have := Finset.ext_iff.mp he x
    simpa using this
  have himg : (Finset.range ((n1 + n2).choose n1)).image (fun m => (twosampleGroup1 n1 n2 m).toFinset) =
      Finset.powersetCard n1 (Finset.range (n1 + n2)) := by
    apply Finset.eq_of_subset_of_card_le
    · intro T hT
      obtain ⟨m, _, rfl⟩ := Finset.mem_image.mp hT
      obtain ⟨a, b, c⟩ := twosample_group1_valid n1 n2 m
      rw [Finset.mem_powersetCard]
      refine ⟨fun x hx => ?_, ?_⟩
      · simpa using c x (by simpa using hx)
      · rw [List.toFinset_card_of_nodup b, a]
    · rw [Finset.card_image_of_injOn hinj, Finset.card_powersetCard, Finset.card_range, Finset.card_range]
  have hSm : S ∈ Finset.powersetCard n1 (Finset.range (n1 + n2)) :=
    Finset.mem_powersetCard.mpr ⟨hS, hc⟩
  rw [← himg] at hSm
  obtain ⟨m, hm, he⟩ := Finset.mem_image.mp hSm
  refine ⟨m, ⟨by simpa using hm, he⟩, ?_⟩
  rintro m' ⟨hm', he'⟩
  exact hinj (by simpa using hm') hm (by simp only [he', he])

/-- the identity split (`{0..n1-1}` stays the first group) is magic 0 -/
theorem twosample_identity_labels (n1 n2 : Nat) :
    twosampleLabels n1 n2 0 = List.range (n1 + n2) := by
  unfold twosampleLabels
  rw [twosample_identity, List.range_add]; congr 1; apply List.map_congr_left; intro a _; omega

/-- magic numbers at or above the count select no relabelling: the C function overwrites `*magic`
    with the count and reports 0 exchanges (this is also how `count_permutations` works) -/
theorem twosample_out_of_range (n1 n2 magic : Nat) (h : (n1 + n2).choose n1 ≤ magic) :
    twosamplePerm n1 n2 magic = none := by
  have gen : ∀ fuel i c1 c2 cuml, stratumSum n1 n2 (i + fuel + 1) ≤ magic →
      c1 = n1.choose i → c2 = n2.choose i →
      ∃ t, tsSearch n1 n2 magic fuel i c1 c2 cuml (stratumSum n1 n2 (i + 1)) = .inl t := by
    intro fuel
    induction fuel with
    | zero => intro i c1 c2 cuml _ _ _; exact ⟨_, rfl⟩
    | succ fuel ih =>
        intro i c1 c2 cuml hm h1 h2
        have hle : stratumSum n1 n2 (i + 1) ≤ magic :=
          Nat.le_trans (stratumSum_mono n1 n2 (by omega)) hm
        subst h1; subst h2
        simp only [tsSearch, if_neg (Nat.not_lt.mpr hle), choose_step]
        rw [← stratumSum_succ n1 n2 (i + 1)]
        exact ih (i + 1) _ _ _ (by
          have : i + 1 + fuel + 1 = i + (fuel + 1) + 1 := by omega
          rw [this]; exact hm) rfl rfl
  have hm : stratumSum n1 n2 (0 + (min n1 n2 + 1) + 1) ≤ magic := by
    have : 0 + (min n1 n2 + 1) + 1 = min n1 n2 + 1 + 1 := by omega
    rw [this, stratumSum_stable n1 n2 1, stratumSum_total]; exact h
  obtain ⟨t, ht⟩ := gen (min n1 n2 + 1) 0 1 1 0 hm (by simp) (by simp)
  unfold twosamplePerm
  rw [stratumSum_one] at ht
  rw [ht]

/-! ## Non-vacuity -/

example : (∃! m, m < Nat.factorial 3 ∧ permutation 3 m = [1, 2, 0]) :=
  permutation_bijective 3 [1, 2, 0] (by decide)
example : twosampleGroup1 3 2 4 = [4, 1, 2] := by decide
example : twosampleGroup1 3 2 9 = [0, 3, 4] := by decide
example : (∃! m, m < Nat.choose 5 3 ∧ (twosampleGroup1 3 2 m).toFinset = {0, 3, 4}) :=
  twosample_enumerates 3 2 {0, 3, 4} (by decide) (by decide)

end NipyVerif.C17
