/-
C15 — the table-like things the code builds at run time:
`strides_from` (nipy/utils/arrays.py), the maximal simplices of
`cube_with_strides_center` (they tile the unit cube), the `unique` tables of
`decompose2d/3d` (utils.py).
-/
import NipyVerif.Lemmas.C15Tab

namespace NipyVerif.C15

/-! ## `strides_from` -/

/-- **`strides_from` is what it says**: for a non-empty shape and item size `it > 0`,
    order `'C'` gives `strides[i] = it · Π_{j>i} shape[j]` and order `'F'` gives
    `strides[i] = it · Π_{j<i} shape[j]`; item size 0 is refused. -/
theorem strides_from_spec (it a : Nat) (t : List Nat) (hit : it ≠ 0) :
    stridesFrom it (a :: t) false
      = some ((List.range (t.length + 1)).map (fun i => it * ((a :: t).drop (i + 1)).prod)) ∧
    stridesFrom it (a :: t) true
      = some ((List.range (t.length + 1)).map (fun i => it * ((a :: t).take i).prod)) ∧
    stridesFrom 0 (a :: t) false = none ∧ stridesFrom 0 (a :: t) true = none := by
  refine ⟨?_, ?_, by simp [stridesFrom], by simp [stridesFrom]⟩
  · have e : (a :: t).reverse.dropLast = t.reverse := by simp
    simp only [stridesFrom, hit, if_false, Bool.false_eq_true, e, cumprod_reverse, stridesC_eq, List.drop_succ_cons]
  · simp only [stridesFrom, hit, if_false, if_true, cumprod_cons_eq]
    have hl : (a :: t).dropLast.length = t.length := by simp
    rw [hl]
    congr 1
    refine List.map_congr_left (fun i hi => ?_)
    have hi' : i ≤ t.length := by
      have := List.mem_range.mp hi; omega
    rw [List.dropLast_eq_take, List.take_take, Nat.min_eq_left (by simpa using hi')]

/-- the loops' `strides_from(shape, np.bool_)` -/
theorem cStrides_eq (shape : List Nat) : stridesFrom 1 shape false = some (cStrides shape) := by
  simp [stridesFrom, cStrides]

/-! ## The maximal simplices tile the unit cube -/

/-- `Σ wᵢ vᵢ` for cube corners `vᵢ` -/
def bary (w : List Rat) (pts : List Pt) : Rat × Rat × Rat :=
  ((List.zipWith (fun t (p : Pt) => t * (p.1 : Rat)) w pts).sum,
   (List.zipWith (fun t (p : Pt) => t * (p.2.1 : Rat)) w pts).sum,
   (List.zipWith (fun t (p : Pt) => t * (p.2.2 : Rat)) w pts).sum)

/-- six times the signed volume of a tetrahedron with integer vertices -/
def det3 (s : List Pt) : Int :=
  let v := fun (a : Nat) => s.getD a (0, 0, 0)
  let e := fun (a : Nat) => (((v a).1 : Int) - (v 0).1, ((v a).2.1 : Int) - (v 0).2.1, ((v a).2.2 : Int) - (v 0).2.2)
  (e 1).1 * ((e 2).2.1 * (e 3).2.2 - (e 2).2.2 * (e 3).2.1) - (e 1).2.1 * ((e 2).1 * (e 3).2.2 - (e 2).2.2 * (e 3).1)
    + (e 1).2.2 * ((e 2).1 * (e 3).2.1 - (e 2).2.1 * (e 3).1)

def det2 (s : List Pt) : Int :=
  let v := fun (a : Nat) => s.getD a (0, 0, 0)
  (((v 1).1 : Int) - (v 0).1) * (((v 2).2.1 : Int) - (v 0).2.1) - (((v 1).2.1 : Int) - (v 0).2.1) * (((v 2).1 : Int) - (v 0).1)

/-- **The hard-coded tetrahedra tile the unit cube**: there are `3! = 6` of them, each
    of volume `1/6` (`det = ±1`), and every point of the cube is a convex combination of
    the vertices of one of them — so their interiors cannot overlap and nothing of the
    cube is left out.  (The list is regenerated from utils.py on every run.) -/
theorem tables_cover_cube (x y z : Rat) (hx : 0 ≤ x ∧ x ≤ 1) (hy : 0 ≤ y ∧ y ≤ 1) (hz : 0 ≤ z ∧ z ≤ 1) :
    (maximal 3).length = 6 ∧ (∀ s ∈ maximal 3, det3 (s.map cornerPt) ^ 2 = 1) ∧
    ∃ s ∈ maximal 3, ∃ w : List Rat, w.length = 4 ∧ (∀ t ∈ w, 0 ≤ t) ∧ w.sum = 1 ∧
      bary w (s.map cornerPt) = (x, y, z) := by
  refine ⟨by decide +kernel, by decide +kernel, ?_⟩
  obtain ⟨hx0, hx1⟩ := hx
  obtain ⟨hy0, hy1⟩ := hy
  obtain ⟨hz0, hz1⟩ := hz
  have fin : ∀ (s : List Nat) (w : List Rat), s ∈ maximal 3 → w.length = 4 → (∀ t ∈ w, 0 ≤ t) → w.sum = 1 →
      bary w (s.map cornerPt) = (x, y, z) →
      ∃ s ∈ maximal 3, ∃ w : List Rat, w.length = 4 ∧ (∀ t ∈ w, 0 ≤ t) ∧ w.sum = 1 ∧
        bary w (s.map cornerPt) = (x, y, z) := fun s w h1 h2 h3 h4 h5 => ⟨s, h1, w, h2, h3, h4, h5⟩
  rcases le_total x y with hxy | hxy <;> rcases le_total y z with hyz | hyz <;> rcases le_total x z with hxz | hxz
  · -- x ≤ y ≤ z
    refine fin [0, 7, 4, 6] [1 - z, x, z - y, y - x] (by decide +kernel) rfl ?_ ?_ ?_
    · intro t ht; simp only [List.mem_cons, List.not_mem_nil, or_false] at ht
      rcases ht with rfl | rfl | rfl | rfl <;> linarith
    · simp
    · simp [bary, cornerPt]
  · -- x ≤ y ≤ z, x ≥ z  (then x = y = z)
    refine fin [0, 7, 4, 6] [1 - z, x, z - y, y - x] (by decide +kernel) rfl ?_ ?_ ?_
    · intro t ht; simp only [List.mem_cons, List.not_mem_nil, or_false] at ht
      rcases ht with rfl | rfl | rfl | rfl <;> linarith
    · simp
    · simp [bary, cornerPt]
  · -- x ≤ y, z ≤ y, x ≤ z : y ≥ z ≥ x
    refine fin [0, 6, 2, 7] [1 - y, z - x, y - z, x] (by decide +kernel) rfl ?_ ?_ ?_
    · intro t ht; simp only [List.mem_cons, List.not_mem_nil, or_false] at ht
      rcases ht with rfl | rfl | rfl | rfl <;> linarith
    · simp
    · simp [bary, cornerPt]
  · -- y ≥ x ≥ z
    refine fin [0, 3, 2, 7] [1 - y, x - z, y - x, z] (by decide +kernel) rfl ?_ ?_ ?_
    · intro t ht; simp only [List.mem_cons, List.not_mem_nil, or_false] at ht
      rcases ht with rfl | rfl | rfl | rfl <;> linarith
    · simp
    · simp [bary, cornerPt]
  · -- y ≤ x, y ≤ z, x ≤ z : z ≥ x ≥ y
    refine fin [0, 7, 5, 4] [1 - z, y, x - y, z - x] (by decide +kernel) rfl ?_ ?_ ?_
    · intro t ht; simp only [List.mem_cons, List.not_mem_nil, or_false] at ht
      rcases ht with rfl | rfl | rfl | rfl <;> linarith
    · simp
    · simp [bary, cornerPt]
  · -- x ≥ z ≥ y
    refine fin [0, 7, 5, 1] [1 - x, y, z - y, x - z] (by decide +kernel) rfl ?_ ?_ ?_
    · intro t ht; simp only [List.mem_cons, List.not_mem_nil, or_false] at ht
      rcases ht with rfl | rfl | rfl | rfl <;> linarith
    · simp
    · simp [bary, cornerPt]
  · -- y ≤ x, z ≤ y, x ≤ z : all equal
    refine fin [0, 3, 1, 7] [1 - x, y - z, x - y, z] (by decide +kernel) rfl ?_ ?_ ?_
    · intro t ht; simp only [List.mem_cons, List.not_mem_nil, or_false] at ht
      rcases ht with rfl | rfl | rfl | rfl <;> linarith
    · simp
    · simp [bary, cornerPt]
  · -- x ≥ y ≥ z
    refine fin [0, 3, 1, 7] [1 - x, y - z, x - y, z] (by decide +kernel) rfl ?_ ?_ ?_
    · intro t ht; simp only [List.mem_cons, List.not_mem_nil, or_false] at ht
      rcases ht with rfl | rfl | rfl | rfl <;> linarith
    · simp
    · simp [bary, cornerPt]

/-- the two hard-coded triangles tile the unit square -/
theorem tables_cover_square (x y : Rat) (hx : 0 ≤ x ∧ x ≤ 1) (hy : 0 ≤ y ∧ y ≤ 1) :
    (maximal 2).length = 2 ∧ (∀ s ∈ maximal 2, det2 (s.map cornerPt) ^ 2 = 1) ∧
    ∃ s ∈ maximal 2, ∃ w : List Rat, w.length = 3 ∧ (∀ t ∈ w, 0 ≤ t) ∧ w.sum = 1 ∧
      bary w (s.map cornerPt) = (x, y, 0) := by
  refine ⟨by decide +kernel, by decide +kernel, ?_⟩
  obtain ⟨hx0, hx1⟩ := hx
  obtain ⟨hy0, hy1⟩ := hy
  rcases le_total x y with hxy | hxy
  · refine ⟨[0, 2, 3], by decide +kernel, [1 - y, y - x, x], rfl, ?_, ?_, ?_⟩
    · intro t ht; simp only [List.mem_cons, List.not_mem_nil, or_false] at ht
      rcases ht with rfl | rfl | rfl <;> linarith
    · simp
    · simp [bary, cornerPt]
  · refine ⟨[0, 1, 3], by decide +kernel, [1 - x, x - y, y], rfl, ?_, ?_, ?_⟩
    · intro t ht; simp only [List.mem_cons, List.not_mem_nil, or_false] at ht
      rcases ht with rfl | rfl | rfl <;> linarith
    · simp
    · simp [bary, cornerPt]

/-! ## `decompose2d` / `decompose3d` -/

/-- flat index for the strides `(4, 2, 1)` of a `2×2×2` array -/
def flat421 (p : Pt) : Int := ((4 * p.1 + 2 * p.2.1 + p.2.2 : Nat) : Int)

/-- chains of cube corners (any lowest vertex) whose highest vertex is the far corner -/
def chainsToTop (d k : Nat) : List (List Pt) :=
  (subsLen k (cubePts d)).filter (fun s => isChain s && s.getLast? == some (cornerPt (2 ^ d - 1)))

/-- **The `unique` tables of `decompose3d`** (cube at the voxel minus the seven cubes
    behind it, centres regenerated from the source) are the `k`-vertex chains of cube
    corners that end at the far corner `(1,1,1)` — each simplex of the triangulated box is
    produced by the cell of which it contains the far corner, or by a lower-dimensional
    face block. -/
theorem decompose_unique_top_corner (k : Nat) (hk : k = 1 ∨ k = 2 ∨ k = 3 ∨ k = 4) (s : List Int) :
    s ∈ uniqueFlat 3 (toZ Gen.C15.decomp3Neg3) [4, 2, 1] k ↔ s ∈ (chainsToTop 3 k).map (List.map flat421) := by
  rcases hk with rfl | rfl | rfl | rfl <;> exact mem_iff_of_all _ _ (by decide +kernel) s

/-- the same for the 2-d blocks (`decompose2d`, and the three face blocks of `decompose3d`), strides `(2, 1)` -/
theorem decompose_unique_top_corner2 (k : Nat) (hk : k = 1 ∨ k = 2 ∨ k = 3) (s : List Int) :
    (s ∈ uniqueFlat 2 (toZ2 Gen.C15.decomp2Neg2) [2, 1] k ↔
      s ∈ (chainsToTop 2 k).map (List.map (fun p => ((2 * p.1 + p.2.1 : Nat) : Int)))) ∧
    (s ∈ uniqueFlat 2 (toZ2 Gen.C15.decomp3Neg2) [2, 1] k ↔
      s ∈ (chainsToTop 2 k).map (List.map (fun p => ((2 * p.1 + p.2.1 : Nat) : Int)))) := by
  rcases hk with rfl | rfl | rfl <;>
    exact ⟨mem_iff_of_all _ _ (by decide +kernel) s, mem_iff_of_all _ _ (by decide +kernel) s⟩

/-! ## Non-vacuity -/

example : stridesFrom 4 [2, 3, 4] false = some [48, 16, 4] := by decide +kernel
example : stridesFrom 1 [5, 4, 3] true = some [1, 5, 20] := by decide +kernel
example : (sortL (decompose2d [2, 3] 3)) = [[0, 1, 4], [0, 3, 4], [1, 2, 5], [1, 4, 5]] := by decide +kernel

end NipyVerif.C15
