/-
C06 — what the *text* of /repo says is what the model implements.  `Gen/C06Formulas.lean` is
regenerated on every run from the assignment expressions of `fdr`, `fdr_threshold`,
`NormalEmpiricalNull.fdrcurve / learn`, `smoothed_histogram_from_samples`, `three_classes_GMM_fit`,
`Contrast.__add__ / __rmul__ / __div__ / stat` (both GLM modules); each theorem below states, for all
arguments, that the model's function is that expression.  An edit of one of these source expressions
(a dropped factor, `n - i` for `i + 1`, `scalar` for `scalar ** 2`, another literal) makes the
corresponding theorem fail to build.
-/
import NipyVerif.Gen.C06Formulas
import NipyVerif.Lemmas.C06C

namespace NipyVerif.C06

/-- `fdr`: the raw q-value at rank `i + 1` and the critical-set test of `fdr_threshold` -/
theorem bh_from_source (n alpha x : Rat) (i : Nat) (xs : List Rat) :
    bhRaw n i (x :: xs) = Src.fdrQ n x ((i : Rat) + 1) :: bhRaw n (i + 1) xs ∧
    critical (Src.fdrPcorr alpha n) i (x :: xs)
      = (if Src.fdrCritical x (Src.fdrPcorr alpha n) ((i : Rat) + 1) = true
          then x :: critical (Src.fdrPcorr alpha n) (i + 1) xs
          else critical (Src.fdrPcorr alpha n) (i + 1) xs) ∧
    (∀ sp : List Rat, fdrThresholdSorted alpha sp
      = match (critical (Src.fdrPcorr alpha sp.length) 0 sp).max? with
        | some m => m
        | none => Src.fdrPcorr alpha sp.length) := by
  refine ⟨rfl, ?_, fun _ => rfl⟩
  simp [critical, Src.fdrCritical]

/-- `NormalEmpiricalNull.fdrcurve`: the raw curve value at position `i` (`n - i` samples remain) -/
theorem efp_from_source (p0 n s : Rat) (i : Nat) (ss : List Rat) :
    efpRaw p0 n i (s :: ss) = Src.efpClip (Src.efpRawSrc p0 s n (n - (i : Rat))) :: efpRaw p0 n (i + 1) ss := rfl

/-- `NormalEmpiricalNull.learn`: variance (with its floor), mean, null proportion, bin mid-points -/
theorem learn_from_source (c1 c2 E : Rat) (edges : List Rat) (step : Rat) :
    (learnPost c1 c2 E).sqsigma = Src.learnSqsigma (Src.learnSqsigmaRaw c2) ∧
    (learnPost c1 c2 E).mu = Src.learnMu c1 (Src.learnSqsigma (Src.learnSqsigmaRaw c2)) ∧
    (learnPost c1 c2 E).p0 = Src.learnP0 E ∧
    midEdges edges step = edges.map (fun e => Src.learnMedge e step) ∧
    learnLeftDefault = Src.learnLeft ∧ learnRightDefault = Src.learnRight := by
  have hfl : sqsigmaFloor = mkRat 4722366482869645 4722366482869645213696 := by decide +kernel
  have hs : (learnPost c1 c2 E).sqsigma = Src.learnSqsigma (Src.learnSqsigmaRaw c2) := by
    unfold learnPost Src.learnSqsigma Src.learnSqsigmaRaw
    simp only [hfl]
  refine ⟨hs, ?_, rfl, ?_, by decide +kernel, by decide +kernel⟩
  · show c1 * (learnPost c1 c2 E).sqsigma = _
    rw [hs]; rfl
  · unfold midEdges Src.learnMedge
    have : (mkRat 1 2 : Rat) = 1 / 2 := by decide +kernel
    apply List.map_congr_left
    intro e _
    rw [this]; ring

/-- `smoothed_histogram_from_samples`: widened edges, density normalisation, filter width -/
theorem smooth_from_source (m sd dc e : Rat) (b : List Rat) (h : List Nat) :
    widenEdges m widenFactor b = b.map (Src.smoothWidenSrc m) ∧
    normHist dc h = h.map (fun (c : Nat) => (c : Rat) / Src.smoothNormDen dc ((h.sum : Nat) : Rat)) ∧
    smoothSigma sd dc e = Src.smoothSigmaSrc sd dc e := by
  have hw : widenFactor = mkRat 5404319552844595 4503599627370496 := by decide +kernel
  refine ⟨?_, rfl, rfl⟩
  unfold widenEdges Src.smoothWidenSrc
  rw [hw]

/-- `three_classes_GMM_fit`: the prior weights; default significance levels of the thresholds -/
theorem gmm_from_source (sx : List Rat) (a0 a1 alpha ps varx : Rat) (fs : Bool) :
    (gmmPriors sx a0 a1 alpha ps varx fs).weights = Src.gmmWeights alpha ps ∧
    alphaDefault = Src.fdrThresholdAlpha ∧ alphaDefault = Src.gaussianFdrThresholdAlpha :=
  ⟨rfl, by decide +kernel, by decide +kernel⟩

/-- `Contrast.__rmul__ / __add__ / __div__` and labs `contrast.__rmul__ / __add__`: effect, variance and
    degrees of freedom of the result, entry by entry -/
theorem contrast_arith_from_source {q : Nat} (k : Rat) (a b : Obj q) (i j : Fin q) :
    (a.smul k).effect i = Src.fmriRmulEffect (a.effect i) k ∧
    (a.smul k).variance i j = Src.fmriRmulVariance (a.variance i j) k ∧
    (a.smul k).effect i = Src.labsRmulEffect (a.effect i) k ∧
    (a.smul k).variance i j = Src.labsRmulVariance (a.variance i j) k ∧
    (∀ impl c, a.add impl b = .ok c →
      c.effect i = Src.fmriAddEffect (a.effect i) (b.effect i) ∧
      c.variance i j = Src.fmriAddVariance (a.variance i j) (b.variance i j) ∧
      c.dof = Src.fmriAddDof a.dof b.dof ∧
      c.effect i = Src.labsAddEffect (a.effect i) (b.effect i) ∧
      c.variance i j = Src.labsAddVariance (a.variance i j) (b.variance i j) ∧
      c.dof = Src.labsAddDof a.dof b.dof) ∧
    (k ≠ 0 → ∀ d, a.div k (1 / k) = .ok d →
      d.effect i = Src.fmriDivFactor (fun r => (a.smul r).effect i) k) := by
  refine ⟨rfl, rfl, ?_, ?_, ?_, ?_⟩
  · show a.effect i * k = k * a.effect i; ring
  · show a.variance i j * k ^ 2 = k ^ 2 * a.variance i j; ring
  · intro impl c h
    unfold Obj.add at h
    split at h
    · simp at h
    · simp only [Except.ok.injEq] at h
      subst h
      exact ⟨rfl, rfl, rfl, rfl, rfl, rfl⟩
  · intro hk d h
    unfold Obj.div at h
    rw [if_neg hk] at h
    simp only [Except.ok.injEq] at h
    subst h
    rfl

/-- the one-dimensional statistic of both classes: `(effect - baseline) / sqrt(max(variance, tiny))` -/
theorem stat_from_source (sqrt : Rat → Rat) (e b v tiny : Rat) :
    statOne e b (sqrt (clampVar v tiny)) = Src.fmriStatOne sqrt e b v tiny ∧
    statOne e b (sqrt (clampVar v tiny)) = Src.labsStatOne sqrt e b v tiny := ⟨rfl, rfl⟩

end NipyVerif.C06
