/-
C19 (extension) — property theorems about the slice-time registry regenerated from the
source, the use of slice times in realignment, the generators and the difference volumes
(`NipyVerif.Model.C19C`).
-/
import NipyVerif.Lemmas.C19C
import NipyVerif.Props.C19

namespace NipyVerif.C19
open Src

/-! ## Slice-time registry (table regenerated from `timefuncs.py` on every run) -/

/-- **the registry as the source defines it is the schedule family the theorems are about**: every
    key of `SLICETIME_FUNCTIONS` (long name, short name, derived alias) resolves, and the body
    recognised in the *current* source text computes, for every slice count, exactly the slot
    vector `slots` of the schedule that `st_bijection`, `st_order`, `st_within_TR` speak about. -/
theorem registry_sound : ∀ p ∈ registry, ∃ s, schedOfName p.1 = some s ∧ schedOfName p.2 = some s ∧
    ∀ n, bodySlots 4 p.2 n = some (slots s n) := by
  intro p hp
  simp only [registry, List.mem_cons, List.not_mem_nil, or_false] at hp
  rcases hp with rfl | rfl | rfl | rfl | rfl | rfl | rfl | rfl | rfl | rfl | rfl | rfl |
    rfl | rfl | rfl | rfl | rfl | rfl | rfl | rfl | rfl | rfl | rfl | rfl
  all_goals first
    | exact ⟨.s01234, rfl, rfl, fun n => by simp [bodySlots, bodyOf, slots]⟩
    | exact ⟨.s43210, rfl, rfl, fun n => by simp [bodySlots, bodyOf, slots]⟩
    | exact ⟨.s02413, rfl, rfl, fun n => by simp [bodySlots, bodyOf, slots, halfList]⟩
    | exact ⟨.s13024, rfl, rfl, fun n => by simp [bodySlots, bodyOf, slots, halfList]⟩
    | exact ⟨.s42031, rfl, rfl, fun n => by simp [bodySlots, bodyOf, slots, halfList]⟩
    | exact ⟨.oddEven, rfl, rfl, fun n => by
        simp only [bodySlots, bodyOf, slots, halfList]; split <;> rfl⟩
    | exact ⟨.s03142, rfl, rfl, fun n => by simp [bodySlots, bodyOf, slots, halfList]⟩
    | exact ⟨.s41302, rfl, rfl, fun n => by simp [bodySlots, bodyOf, slots, halfList]⟩

/-- every one of the eight schedules is registered under three names -/
theorem registry_complete (s : Sched) :
    ((registry.filter (fun p => schedOfName p.1 = some s)).length = 3) := by
  cases s <;> decide

/-- **every registered function assigns each slice exactly one distinct slot within TR**
    (corollary of `registry_sound` + `st_bijection`): for every key, every slice count. -/
theorem registry_schedules (name : String) (n : Nat) (tr : Rat) (l : List Rat)
    (h : stTimes name n tr = some l) :
    ∃ ks : List Nat, ks.Perm (List.range n) ∧ l = ks.map (fun (k : Nat) => (k : Rat) * (tr / (n : Rat))) := by
  unfold stTimes lookupReg at h
  cases hf : registry.find? (fun p => p.1 == name) with
  | none => simp [hf] at h
  | some p =>
    have hp : p ∈ registry := List.mem_of_find?_eq_some hf
    obtain ⟨s, _, _, hs⟩ := registry_sound p hp
    simp only [hf, Option.map_some, hs n] at h
    exact ⟨slots s n, st_bijection s n, (Option.some.inj h).symm⟩

/-! ## Slice times inside `SpaceTimeRealign` : the time of slice `z` -/

/-- **the time of slice z, direction ±1, exact**: for a stored slice index `z` of the volume the
    scanner-time correction uses `slice_times[z]` when the slice direction is `+1` and
    `slice_times[n-1-z]` when it is `-1` (slices stored in reverse order). -/
theorem scanner_time_of_slice (dir : Int) (times : List Rat) (tr t : Rat) (z : Nat) (hz : z < times.length) :
    scannerTime dir times tr (z : Rat) t
      = (t - times.getD (if dir < 0 then times.length - 1 - z else z) 0) / tr := by
  unfold scannerTime zToSlice
  split
  · have : ((times.length : Nat) : Rat) - 1 - (z : Rat) = ((times.length - 1 - z : Nat) : Rat) := by
      have h1 : z + 1 ≤ times.length := hz
      push_cast [Nat.cast_sub (by omega : z ≤ times.length - 1), Nat.cast_sub (by omega : 1 ≤ times.length)]
      ring
    rw [this, interp_at_integer_slice _ _ _ (by omega)]
  · rw [interp_at_integer_slice _ _ _ hz]

/-! ## `slice_generator` over several axes: every index combination exactly once -/

/-- **the generated (index, value) pairs enumerate each position exactly once**: the index tuples
    `slice_generator(data, axes)` visits — `decode lens n` for `n = 0 … prod lens − 1`, first axis
    fastest — are pairwise distinct, each is a valid index combination, and every valid index
    combination occurs. -/
theorem slice_generator_enumerates (lens : List Nat) (hpos : ∀ l ∈ lens, 0 < l) :
    ((List.range (prod lens)).map (decode lens)).Nodup ∧
    (∀ n, List.Forall₂ (· < ·) (decode lens n) lens) ∧
    (∀ xs, List.Forall₂ (· < ·) xs lens → xs ∈ (List.range (prod lens)).map (decode lens)) := by
  refine ⟨?_, decode_digits lens hpos, ?_⟩
  · apply List.Nodup.map_on _ List.nodup_range
    intro a ha b hb hab
    rw [← encode_decode lens a (List.mem_range.1 ha), ← encode_decode lens b (List.mem_range.1 hb), hab]
  · intro xs hxs
    obtain ⟨h1, h2⟩ := decode_encode lens xs hxs
    exact List.mem_map.2 ⟨encode lens xs, List.mem_range.2 h1, h2⟩

/-! ## `write_data` ∘ `data_generator` -/

/-- **`write_data(output, data_generator(data, order))` reproduces `data`** whenever the order visits
    every row (in any order, repeats allowed): each position is written with its own value. -/
theorem write_data_generator_id (data out : List (List Rat)) (idx : List Nat)
    (hlen : out.length = data.length) (hidx : ∀ i ∈ idx, i < data.length)
    (hall : ∀ i, i < data.length → i ∈ idx) :
    writeData out (dataGenAt data idx) = data := by
  apply List.ext_getElem
  · rw [(writeData_getD data idx out (fun i hi => by rw [hlen]; exact hidx i hi) 0).1, hlen]
  · intro j h1 h2
    have := (writeData_getD data idx out (fun i hi => by rw [hlen]; exact hidx i hi) j).2
    rw [if_pos (hall j h2), getD_eq_getElem' _ _ h1, getD_eq_getElem' _ _ h2] at this
    exact this

/-- the default iteration `data_generator(data)` is the identity order -/
theorem dataGen_eq (data : List (List Rat)) : dataGen data = dataGenAt data (List.range data.length) := rfl

/-! ## `time_slice_diffs` : the mean squared-difference volume -/

/-- **`diff2_mean_vol` equals its definition**: entry `(s, v)` of the mean difference volume is the
    sum over successive time points of the squared differences at that voxel divided by `T − 1`. -/
theorem tsd_diff_mean_spec (S V : Nat) (x : List Vol) (hx : ∀ d ∈ diffs x, Shaped S V d)
    (s v : Nat) (hs : s < S) (hv : v < V) :
    (((tsdCore S V x).diffMean).getD s []).getD v 0
      = ((diffs x).map (fun d => (d.getD s []).getD v 0)).sum / (((x.length - 1 : Nat)) : Rat) := by
  obtain ⟨hsh, hen⟩ := foldl_vadd_entry (diffs x) (zeroVol S V) (zeroVol_shaped S V) hx s v hs hv
  have hs' : s < ((diffs x).foldl vadd (zeroVol S V)).length := by rw [hsh.1]; exact hs
  have hv' : v < (((diffs x).foldl vadd (zeroVol S V))[s]).length := by
    rw [hsh.2 _ (List.getElem_mem _)]; exact hv
  rw [zeroVol_entry, zero_add] at hen
  simp only [tsdCore]
  rw [← hen]
  simp [List.getD_eq_getElem?_getD, List.getElem?_map, List.getElem?_eq_getElem hs',
    List.getElem?_eq_getElem hv']

/-! ## PCA : structure of the accumulated covariance (all inputs, no `eigh` contract needed) -/

/-- **the matrix handed to `eigh` is symmetric** whatever the data, projector rows, scales and mask
    weights: `C[i][j] = C[j][i]` for the covariance accumulated slice by slice. -/
theorem covariance_symmetric (ux : Mat) (slices : List (List Vox)) (i j : Nat)
    (hi : i < ux.length) (hj : j < ux.length) :
    ((covariance ux slices).getD i []).getD j 0 = ((covariance ux slices).getD j []).getD i 0 := by
  unfold covariance
  simp only [List.getD_eq_getElem?_getD, List.getElem?_map, List.getElem?_range hi, List.getElem?_range hj,
    Option.map_some, Option.getD_some]
  congr 1
  apply List.map_congr_left
  intro ps _
  unfold covEntry
  congr 1
  apply List.map_congr_left
  intro p _
  ring

/-- **non-negative variances**: every diagonal entry of the accumulated covariance is a sum of
    squares (so the total variance `D.sum = trace C` that `pcnt_var` divides by is ≥ 0). -/
theorem covariance_diag_nonneg (ux : Mat) (slices : List (List Vox)) (i : Nat) (hi : i < ux.length) :
    0 ≤ ((covariance ux slices).getD i []).getD i 0 := by
  unfold covariance
  simp only [List.getD_eq_getElem?_getD, List.getElem?_map, List.getElem?_range hi,
    Option.map_some, Option.getD_some]
  apply List.sum_nonneg
  intro x hx
  obtain ⟨ps, _, rfl⟩ := List.mem_map.1 hx
  unfold covEntry
  apply List.sum_nonneg
  intro y hy
  obtain ⟨p, _, rfl⟩ := List.mem_map.1 hy
  exact mul_self_nonneg _

/-! ## Non-vacuity -/

example : stTimes "asc_alt_2" 5 1 = some [0, 3/5, 1/5, 4/5, 2/5] := by decide +kernel
example : scannerTime (-1) [3/2, 1, 1/2, 0] 2 (0 : Nat) 0 = 0 := by decide +kernel
example : (List.range (prod [2, 3])).map (decode [2, 3]) = [[0, 0], [1, 0], [0, 1], [1, 1], [0, 2], [1, 2]] := by
  decide
example : writeData [[0], [0], [0]] (dataGenAt [[1], [2], [3]] [2, 0, 1]) = [[1], [2], [3]] := by decide +kernel
example : ∀ d ∈ diffs [[[1, 2]], [[3, 5]], [[0, 0]]], Shaped 1 2 d := by decide +kernel

end NipyVerif.C19
