/-
C20 (memory half) — bounds theorems about the index arithmetic that nipy's
compiled kernels perform.  They show that *the modelled index* is inside the
array for every input; that the compiled code computes that index is the tie
(correspondence + sanitizer runs), see DESIGN.md.
Further bounds theorems live with the kernels' own models and are re-exported
at the end of this file.
-/
import NipyVerif.Model.C20
import NipyVerif.Props.C09
import NipyVerif.Props.C13
import NipyVerif.Props.C16
import Mathlib.Tactic.Ring
import Mathlib.Tactic.Linarith

namespace NipyVerif.C20

/-- A multi-index inside the shape has a flat row-major index inside the buffer. -/
theorem ravel_lt_prod : ∀ (s i : List Nat), InShape s i → ravel s i < s.prod
  | [], [], _ => by simp [ravel]
  | [], _ :: _, h => by simp [InShape] at h
  | _ :: _, [], h => by simp [InShape] at h
  | s :: ss, i :: is, h => by
      obtain ⟨hi, hr⟩ := h
      have ih := ravel_lt_prod ss is hr
      simp only [ravel, List.prod_cons]
      calc i * ss.prod + ravel ss is < i * ss.prod + ss.prod := by omega
        _ = (i + 1) * ss.prod := by ring
        _ ≤ s * ss.prod := Nat.mul_le_mul_right _ hi

/-- Distinct in-shape multi-indices address distinct elements (no aliasing). -/
theorem ravel_injective : ∀ (s i j : List Nat), InShape s i → InShape s j →
    ravel s i = ravel s j → i = j
  | [], [], [], _, _, _ => rfl
  | [], _ :: _, _, h, _, _ => by simp [InShape] at h
  | [], [], _ :: _, _, h, _ => by simp [InShape] at h
  | _ :: _, [], _, h, _, _ => by simp [InShape] at h
  | _ :: _, _ :: _, [], _, h, _ => by simp [InShape] at h
  | s :: ss, i :: is, j :: js, hi, hj, e => by
      obtain ⟨_, hir⟩ := hi
      obtain ⟨_, hjr⟩ := hj
      have bi := ravel_lt_prod ss is hir
      have bj := ravel_lt_prod ss js hjr
      simp only [ravel] at e
      have hij : i = j := by
        by_contra hne
        rcases Nat.lt_or_gt_of_ne hne with h | h
        · have : (i + 1) * ss.prod ≤ j * ss.prod := Nat.mul_le_mul_right _ h
          have e2 : (i + 1) * ss.prod = i * ss.prod + ss.prod := by ring
          omega
        · have : (j + 1) * ss.prod ≤ i * ss.prod := Nat.mul_le_mul_right _ h
          have e2 : (j + 1) * ss.prod = j * ss.prod + ss.prod := by ring
          omega
      subst hij
      have : ravel ss is = ravel ss js := by omega
      rw [ravel_injective ss is js hir hjr this]

/-- Every element a strided view can address (any strides, negative included)
    lies between the view's extreme offsets — the extent NumPy guarantees to be
    inside the owning buffer.  This is the fact the `fffpy` multi-iterator and
    the `.flat` iterators rely on. -/
theorem viewOffset_bounds : ∀ (n : List Nat) (st : List Int) (i : List Nat) (base : Int),
    InShape n i → n.length = st.length →
    viewLo base n st ≤ viewOffset base st i ∧ viewOffset base st i ≤ viewHi base n st
  | [], [], [], base, _, _ => by simp [viewLo, viewHi, viewOffset]
  | [], _, _ :: _, _, h, _ => by simp [InShape] at h
  | _ :: _, _, [], _, h, _ => by simp [InShape] at h
  | _ :: _, [], _ :: _, _, _, hl => by simp at hl
  | [], _ :: _, [], _, _, hl => by simp at hl
  | n :: ns, st :: sts, i :: is, base, h, hl => by
      obtain ⟨hi, hr⟩ := h
      have hl' : ns.length = sts.length := by simpa using hl
      simp only [viewLo, viewHi, viewOffset]
      have key : ∀ (b b' : Int), b ≤ b' →
          viewLo b ns sts ≤ viewLo b' ns sts ∧ viewHi b ns sts ≤ viewHi b' ns sts := by
        intro b b' hb
        exact ⟨viewLo_mono ns sts b b' hb, viewHi_mono ns sts b b' hb⟩
      have ih := viewOffset_bounds ns sts is (base + (i : Int) * st) hr hl'
      have hi' : (i : Int) ≤ (n : Int) - 1 := by omega
      have h0 : (0 : Int) ≤ i := by omega
      have lo : base + min 0 (((n : Int) - 1) * st) ≤ base + (i : Int) * st := by
        rcases le_total 0 st with hs | hs
        · have : 0 ≤ (i : Int) * st := mul_nonneg h0 hs
          have := min_le_left 0 (((n : Int) - 1) * st); linarith
        · have : ((n : Int) - 1) * st ≤ (i : Int) * st := mul_le_mul_of_nonpos_right hi' hs
          have := min_le_right 0 (((n : Int) - 1) * st); linarith
      have hi2 : base + (i : Int) * st ≤ base + max 0 (((n : Int) - 1) * st) := by
        rcases le_total 0 st with hs | hs
        · have : (i : Int) * st ≤ ((n : Int) - 1) * st := mul_le_mul_of_nonneg_right hi' hs
          have := le_max_right 0 (((n : Int) - 1) * st); linarith
        · have : (i : Int) * st ≤ 0 := mul_nonpos_of_nonneg_of_nonpos h0 hs
          have := le_max_left 0 (((n : Int) - 1) * st); linarith
      exact ⟨le_trans (key _ _ lo).1 ih.1, le_trans ih.2 (key _ _ hi2).2⟩
where
  viewLo_mono : ∀ (ns : List Nat) (sts : List Int) (b b' : Int), b ≤ b' →
      viewLo b ns sts ≤ viewLo b' ns sts
    | [], _, b, b', h => by simpa [viewLo] using h
    | _ :: _, [], b, b', h => by simpa [viewLo] using h
    | n :: ns, st :: sts, b, b', h => by
        simp only [viewLo]; exact viewLo_mono ns sts _ _ (by linarith)
  viewHi_mono : ∀ (ns : List Nat) (sts : List Int) (b b' : Int), b ≤ b' →
      viewHi b ns sts ≤ viewHi b' ns sts
    | [], _, b, b', h => by simpa [viewHi] using h
    | _ :: _, [], b, b', h => by simpa [viewHi] using h
    | n :: ns, st :: sts, b, b', h => by
        simp only [viewHi]; exact viewHi_mono ns sts _ _ (by linarith)

/-- With C-order strides and base 0 the view offset *is* the row-major index. -/
theorem viewOffset_cstrides : ∀ (s i : List Nat) (base : Int), s.length = i.length →
    viewOffset base ((cstrides s).map (fun (x : Nat) => (x : Int))) i = base + (ravel s i : Int)
  | [], [], base, _ => by simp [viewOffset, cstrides, ravel]
  | [], _ :: _, _, h => by simp at h
  | _ :: _, [], _, h => by simp at h
  | s :: ss, i :: is, base, h => by
      have h' : ss.length = is.length := by simpa using h
      simp only [cstrides, List.map_cons, viewOffset, ravel]
      rw [viewOffset_cstrides ss is _ h']
      push_cast; ring

/-- intvol.pyx (EC/Lips kernels): every cube corner of every voxel the loops
    visit lies inside the padded flat mask. -/
theorem corner_in_bounds (s0 s1 s2 i j k di dj dk : Nat)
    (hi : i + 1 < s0) (hj : j + 1 < s1) (hk : k + 1 < s2)
    (hdi : di ≤ 1) (hdj : dj ≤ 1) (hdk : dk ≤ 1) :
    cornerIndex s0 s1 s2 i j k di dj dk < s0 * (s1 * s2) := by
  have h := ravel_lt_prod [s0, s1, s2] [i + di, j + dj, k + dk]
    ⟨by omega, by omega, by omega, trivial⟩
  simp only [ravel, List.prod_cons, List.prod_nil, Nat.mul_one, Nat.add_zero] at h
  unfold cornerIndex cornerIndex.ignore
  calc i * (s1 * s2) + j * s2 + k + (di * (s1 * s2) + dj * s2 + dk)
      = (i + di) * (s1 * s2) + ((j + dj) * s2 + (k + dk)) := by ring
    _ < s0 * (s1 * s2) := h

/-- mrf.c: a neighbour position that passes the guard is inside the array. -/
theorem guardedNeighbour_in_bounds (size : Nat) (pos : Int) (p : Nat)
    (h : guardedNeighbour size pos = some p) : p < size := by
  unfold guardedNeighbour at h
  split_ifs at h with hg
  · cases h; omega

/-! ### Bounds theorems of the kernels' own models, restated as C20 obligations
(the statements are those of Props/C09, C13, C16; re-proved here by reference so that
the C20 audit covers them). -/

/-- joint_histogram.c: the inside test makes all eight neighbour reads of the padded
    target image land inside it. -/
theorem joint_histogram_neighbours_in_bounds (V : C09.Vol) (v : C09.Vox) (h : C09.inside V v) :
    ∀ p ∈ C09.neighbours V v, p.1 < V.size := C09.neighbours_in_bounds V v h

/-- joint_histogram.c: every histogram write (PV / TRI / RAND) lands inside
    `[0, clampI*clampJ)`. -/
theorem joint_histogram_writes_in_bounds (m : C09.Mode) (V : C09.Vol) (clampI clampJ : Nat)
    (stale : Int) (v : C09.Vox) (u : Rat)
    (hI : v.i < (clampI : Int)) (hJ : ∀ q, V.get q < (clampJ : Int)) (hu0 : 0 ≤ u) (hu1 : u < 1) :
    ∀ d ∈ C09.voxDeps m V clampJ stale v u, 0 ≤ d.1 ∧ d.1 < ((clampI * clampJ : Nat) : Int) :=
  C09.deposit_in_histogram m V clampI clampJ stale v u hI hJ hu0 hu1

/-- mrf.c `ve_step`: a neighbour position passing the flat-index test has all its `K`
    class entries inside the posterior map. -/
theorem mrf_neighbour_in_bounds (g : C13.Grid) (pos : Int) (h : C13.posOk g pos = true) (kk : Nat)
    (hk : kk < g.K) : pos.toNat + kk < g.size := C13.ve_step_pos_in_bounds g pos h kk hk

/-- cubic_spline.c: every mirrored grid coordinate is inside `[0, ddim]`. -/
theorem cubic_spline_mirror_in_bounds (x : Int) (ddim : Nat) :
    C16.mirroredPosition x ddim ≤ ddim := C16.mirror_index_in_range x ddim

/-! ### non-vacuity -/
example : InShape [2, 3, 4] [1, 2, 3] ∧ ravel [2, 3, 4] [1, 2, 3] = 23 := by decide
example : viewLo 5 [3, 2] [-2, 1] = 1 ∧ viewHi 5 [3, 2] [-2, 1] = 6 := by decide
example : cornerIndex 3 3 3 1 1 1 1 1 1 = 26 := by decide
example : guardedNeighbour 10 7 = some 7 ∧ guardedNeighbour 10 (-1) = none ∧ guardedNeighbour 10 10 = none := by decide

end NipyVerif.C20
