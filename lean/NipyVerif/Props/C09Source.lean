/-
C09 — the function bodies regenerated from similarity_measures.py / histogram_registration.py
(`NipyVerif.Gen.C09Source`, written by harness/props/c09_translate.py from /repo's text) are what the
model implements.  An edit of a source expression changes the generated term and the matching theorem
here stops building (tie broken, widened search).
-/
import NipyVerif.Lemmas.C09D
import NipyVerif.Lemmas.C09S
import NipyVerif.Gen.C09Source
import NipyVerif.Gen.C09Kernel
import NipyVerif.Gen.C09Consts

namespace NipyVerif.C09

/-! ## similarity_measures.py -/

/-- `TINY` of the source is the model's constant -/
theorem tiny_from_source : Src.TINY = tiny := rfl

/-- `nonzero = lambda x: np.maximum(x, TINY)` is the model's `nonzero` -/
theorem nonzero_from_source (x : Rat) : Src.nonzeroSrc x = nonzero x := by
  unfold Src.nonzeroSrc nonzero
  rw [tiny_from_source]
  by_cases h : x < tiny
  · rw [if_pos h]; exact max_eq_right (le_of_lt h)
  · rw [if_neg h]; exact max_eq_left (not_lt.mp h)

/-- `SimilarityMeasure.npoints(H) = H.sum()` -/
theorem npoints_as_modelled (H : List (List Rat)) : Src.npoints H = total H := rfl

/-! ### the generic measure: `SimilarityMeasure.__call__` with `loss = -log(args)` -/

theorem negLog_row (log : Rat → Rat) : ∀ (hr ar : List Rat),
    (List.zipWith (fun h l => h * l) hr (ar.map (fun a => -log a))).sum
      = -(List.zipWith (fun h a => h * log a) hr ar).sum := by
  intro hr
  induction hr with
  | nil => intro ar; simp
  | cons h t ih =>
    intro ar
    cases ar with
    | nil => simp
    | cons a r => simp only [List.map_cons, List.zipWith_cons_cons, List.sum_cons, ih r]; ring

theorem negLog_rows (log : Rat → Rat) : ∀ (H args : List (List Rat)),
    (List.zipWith (fun hr lr => (List.zipWith (fun h l => h * l) hr lr).sum) H
        (args.map (fun r => r.map (fun a => -log a)))).sum
      = -(List.zipWith (fun hr ar => (List.zipWith (fun h a => h * log a) hr ar).sum) H args).sum := by
  intro H
  induction H with
  | nil => intro args; simp
  | cons h t ih =>
    intro args
    cases args with
    | nil => simp
    | cons a r =>
      simp only [List.map_cons, List.zipWith_cons_cons, List.sum_cons, ih r, negLog_row]; ring

/-- `SimilarityMeasure.__call__` as written, applied to the loss array `-log(args)`, is the model's
    `logMeasure` (not renormalised: divided by `nonzero(npoints)`; renormalised: the plain sum) -/
theorem smCall_as_modelled (log : Rat → Rat) (H args : List (List Rat)) :
    Src.smCall false H (args.map (fun r => r.map (fun a => -log a))) = logMeasure log H args ∧
    Src.smCall true H (args.map (fun r => r.map (fun a => -log a)))
      = (List.zipWith (fun hr ar => (List.zipWith (fun h a => h * log a) hr ar).sum) H args).sum := by
  unfold Src.smCall logMeasure Src.npoints
  simp only [negLog_rows]
  constructor
  · simp [neg_div]
  · simp

/-- one row of `q /= nonzero(qI)` (broadcast over the last axis) in the index form of the model -/
theorem divCols_row (v : List Rat) (row : List Rat) (h : row.length ≤ v.length) :
    List.zipWith (· / ·) row (v.map nonzero)
      = row.zipIdx.map (fun p => p.1 / nonzero (v.toArray.getD p.2 0)) := by
  apply List.ext_getElem
  · simp; omega
  · intro i h1 h2
    have hi : i < row.length := by simp at h1; omega
    have hv : i < v.length := by omega
    simp [List.getElem_zipIdx, hv]

/-- `dist2loss(q)` as written (two in-place divisions, the second through the view `q.T`, column sums and
    row sums taken before either) is the model's `lossArgs`, for every array (all rows of the width of
    the column-sum vector) -/
theorem dist2loss_as_modelled (q : List (List Rat)) (hw : ∀ row ∈ q, row.length ≤ (colSums q).length) :
    Src.dist2lossArg q = lossArgs q := by
  rw [lossArgs_eq]
  unfold Src.dist2lossArg Src.divRows Src.divCols rowSums
  simp only [List.zipWith_map, List.zipWith_self, List.map_map]
  apply List.map_congr_left
  intro row hrow
  simp only [Function.comp_def, divCols_row _ row (hw row hrow), List.map_map, lossArg]

/-- a rectangular array satisfies the hypothesis of `dist2loss_as_modelled` -/
example : ∀ row ∈ ([[1, 2], [3, 4]] : List (List Rat)), row.length ≤ (colSums [[1, 2], [3, 4]]).length := by
  simp [colSums, transpose]

/-- `MutualInformation.loss(H) = dist2loss(H / nonzero(npoints(H)))`: the argument of `-log` is the
    model's `miArgs` -/
theorem miLoss_as_modelled (H : List (List Rat))
    (hw : ∀ row ∈ normalise H, row.length ≤ (colSums (normalise H)).length) :
    Src.miLossArg H = miArgs H := by
  unfold Src.miLossArg miArgs
  exact dist2loss_as_modelled _ hw

/-- `NormalizedMutualInformation.__call__`, statement by statement, is the model's `nmi` (for every `log`) -/
theorem nmiCall_as_modelled (log : Rat → Rat) (H : List (List Rat)) : Src.nmiCall log H = nmi log H := rfl

/-- `correlation2loglikelihood(rho2, npts) = -.5 * npts * log(nonzero(1 - rho2))` -/
theorem c2ll_from_source (log : Rat → Rat) (rho2 npts : Rat) :
    Src.correlation2loglikelihood log rho2 npts = -(1 / 2) * npts * log (nonzero (1 - rho2)) := by
  unfold Src.correlation2loglikelihood
  norm_num

theorem nonzero_mono {a b : Rat} (h : a ≤ b) : nonzero a ≤ nonzero b := by
  unfold nonzero
  split_ifs with h1 h2 h2
  · exact le_refl _
  · exact not_lt.mp h2
  · linarith
  · exact h

/-- renormalisation preserves the order of correlation measures: for a monotone `log` and `npts ≥ 0`,
    `correlation2loglikelihood` is monotone in the squared correlation (so an optimiser that does not
    lower the renormalised value did not lower `ρ²` / `η²` past a tie) -/
theorem c2ll_monotone (log : Rat → Rat) (hlog : Monotone log) (npts : Rat) (hn : 0 ≤ npts)
    (r r' : Rat) (h : r ≤ r') :
    Src.correlation2loglikelihood log r npts ≤ Src.correlation2loglikelihood log r' npts := by
  rw [c2ll_from_source, c2ll_from_source]
  have h1 : log (nonzero (1 - r')) ≤ log (nonzero (1 - r)) := hlog (nonzero_mono (by linarith))
  nlinarith [mul_le_mul_of_nonneg_left h1 hn]

/-- the three moments `CorrelationCoefficient.__call__` computes: `(vI, vJ, cIJ)` -/
def ccMoments (H : List (List Rat)) : Rat × Rat × Rat :=
  let npts := nonzero (total H)
  let mI := sumI (fun c => (c : Rat)) H / npts
  let mJ := sumJ (fun r => (r : Rat)) H / npts
  (sumI (fun c => (c : Rat) ^ 2) H / npts - mI ^ 2, sumJ (fun r => (r : Rat) ^ 2) H / npts - mJ ^ 2,
    sumIJ H / npts - mI * mJ)

/-- `(cIJ / nonzero(s))²` with `s = sqrt(p)` is the model's `cIJ² / max(p, TINY²)`: the assumption
    "CC modelled as …" as a theorem about every exact square root -/
theorem cc_sqrt_form (p s c : Rat) (hs : 0 ≤ s) (hss : s * s = p) :
    (c / nonzero s) ^ 2 = c ^ 2 / (if p < tiny ^ 2 then tiny ^ 2 else p) := by
  have ht := tiny_pos
  unfold nonzero
  by_cases h : s < tiny
  · have hp : p < tiny ^ 2 := by rw [← hss]; nlinarith
    rw [if_pos h, if_pos hp, div_pow]
  · have h' : tiny ≤ s := not_lt.mp h
    have hp : ¬ p < tiny ^ 2 := by rw [← hss]; nlinarith
    rw [if_neg h, if_neg hp, div_pow, ← hss, pow_two s]

/-- `CorrelationCoefficient.__call__` as written (with `np.sqrt` a function parameter) returns the model's
    `cc` for every `sqrt` that is an exact non-negative root at `vI*vJ`; with `renormalize` the value is
    `correlation2loglikelihood` of the model's `(ρ², npts)` -/
theorem ccCall_as_modelled (log sqrt : Rat → Rat) (renorm : Bool) (H : List (List Rat))
    (hs : 0 ≤ sqrt ((ccMoments H).1 * (ccMoments H).2.1))
    (hss : sqrt ((ccMoments H).1 * (ccMoments H).2.1) * sqrt ((ccMoments H).1 * (ccMoments H).2.1)
      = (ccMoments H).1 * (ccMoments H).2.1) :
    Src.ccCall log sqrt renorm H =
      if renorm then Src.correlation2loglikelihood log (cc H).1 (cc H).2 else (cc H).1 := by
  have key := cc_sqrt_form _ _ (ccMoments H).2.2 hs hss
  unfold ccMoments at key hs hss
  simp only at key
  unfold Src.ccCall cc Src.npoints
  simp only
  rw [key]

/-- the hypotheses of `ccCall_as_modelled` are satisfiable: a histogram with `vI*vJ = 0` and `sqrt 0 = 0` -/
example : ∃ (sqrt : Rat → Rat) (H : List (List Rat)),
    0 ≤ sqrt ((ccMoments H).1 * (ccMoments H).2.1) ∧
    sqrt ((ccMoments H).1 * (ccMoments H).2.1) * sqrt ((ccMoments H).1 * (ccMoments H).2.1)
      = (ccMoments H).1 * (ccMoments H).2.1 :=
  ⟨fun _ => 0, [], by simp [ccMoments, sumI, sumJ, sumIJ, isum, total]⟩

/-- `CorrelationRatio.__call__` as written is the model's `cr` (value and number of points) -/
theorem crCall_as_modelled (log : Rat → Rat) (renorm : Bool) (H : List (List Rat)) :
    Src.crCall log renorm H =
      if renorm then Src.correlation2loglikelihood log (cr H).1 (cr H).2 else (cr H).1 := by
  have hv : Src.vsub (Src.vdiv (H.map (isum (fun c => (c : Rat) ^ 2) 0)) ((rowSums H).map nonzero))
        (Src.vsq (Src.vdiv (H.map (isum (fun c => (c : Rat)) 0)) ((rowSums H).map nonzero)))
      = H.map (fun row => isum (fun c => (c : Rat) ^ 2) 0 row / nonzero row.sum
          - (isum (fun c => (c : Rat)) 0 row / nonzero row.sum) ^ 2) := by
    unfold Src.vsub Src.vdiv Src.vsq rowSums
    simp [List.zipWith_map, List.zipWith_self, List.map_map, Function.comp_def]
  unfold Src.crCall cr
  simp only
  rw [hv]
  unfold Src.vmul total rowSums
  cases renorm <;> simp

/-- `CorrelationRatioL1.__call__` as written is the model's `crl1` -/
theorem crl1Call_as_modelled (log : Rat → Rat) (renorm : Bool) (H : List (List Rat)) :
    Src.crl1Call log renorm H =
      if renorm then Src.correlation2loglikelihood log (crl1 H).1 (crl1 H).2 else (crl1 H).1 := by
  unfold Src.crl1Call crl1 Src.vmul
  simp only [List.map_map, Function.comp_def]

/-! ## histogram_registration.py -/

/-- the threshold of `_clamp` for `short` output -/
theorem clampDmaxmax_from_source : Src.clampDmaxmax = 32767 := by decide

/-- `_clamp` assembled from its regenerated expressions (threshold, dynamic, shift-only test, the two item
    maps, adjusted bins) is the model's `clampCore` -/
theorem clampCore_from_source (isInt : Bool) (x : List Rat) (bins : Int) :
    clampCore isInt x bins =
      if Src.clampExcess (Src.clampDmax bins) then .error .valueError
      else if x = [] then .error .valueError
      else
        let xmin := lmin x
        let d := Src.clampDyn (lmax x) xmin
        if Src.clampShiftOnly isInt d (Src.clampDmax bins) then
          .ok (x.map (fun a => (Src.clampShift a xmin).floor), Src.clampBinsAdj d)
        else if d = 0 then .error .zeroDivision
        else .ok (x.map (fun a => Src.clampCompress (Src.clampScale (Src.clampDmax bins) d) a xmin), bins) := by
  unfold clampCore Src.clampExcess Src.clampDmax Src.clampDyn Src.clampShiftOnly Src.clampShift
    Src.clampBinsAdj Src.clampScale Src.clampCompress
  rw [clampDmaxmax_from_source]
  simp only
  have hc : ((bins - 1 : Int) : Rat) = (bins : Rat) - 1 := by push_cast; ring
  by_cases h1 : bins - 1 > 32767
  · have h1' : (bins : Rat) - 1 > ((32767 : Int) : Rat) := by rw [← hc]; exact_mod_cast h1
    rw [if_pos h1, decide_eq_true h1', if_pos rfl]
  · have h1' : ¬ (bins : Rat) - 1 > ((32767 : Int) : Rat) := by rw [← hc]; exact_mod_cast h1
    simp only [h1, h1', if_false, decide_false, Bool.false_eq_true]
    by_cases hx : x = []
    · simp [hx]
    · simp only [hx, if_false]
      obtain ⟨a0, ha0⟩ := List.exists_mem_of_ne_nil x hx
      have hd0 : 0 ≤ lmax x - lmin x := by linarith [lmin_le x a0 ha0, le_lmax x a0 ha0]
      have hpy : Src.pyInt (lmax x - lmin x) = (lmax x - lmin x).floor := by
        unfold Src.pyInt; rw [if_pos hd0]
      simp only [hpy, hc, Bool.and_eq_true, decide_eq_true_eq]

/-- the direction tests of `ideal_spacing` (`>=`, `>`, `>=`) are the model's -/
theorem spacingDir_from_source (d0 d1 d2 s0 s1 s2 : Nat) :
    Src.spacingDirSrc d0 d1 d2 s0 s1 s2 = spacingDir d0 d1 d2 s0 s1 s2 := rfl

/-- `ideal_spacing` always subsamples an axis with the largest number of samples left
    (`dims / spacing`), whatever the ties -/
theorem spacingDir_is_argmax (d0 d1 d2 s0 s1 s2 : Nat) :
    let dd : Nat → Rat := fun k => if k = 0 then (d0 : Rat) / s0 else if k = 1 then (d1 : Rat) / s1 else (d2 : Rat) / s2
    spacingDir d0 d1 d2 s0 s1 s2 < 3 ∧ ∀ k, k < 3 → dd k ≤ dd (spacingDir d0 d1 d2 s0 s1 s2) := by
  intro dd
  unfold spacingDir
  simp only
  split_ifs with h1 h2
  · refine ⟨by norm_num, fun k hk => ?_⟩
    (obtain rfl | rfl | rfl : k = 0 ∨ k = 1 ∨ k = 2 := by omega) <;> simp [dd] <;> linarith [h1.1, h1.2]
  · refine ⟨by norm_num, fun k hk => ?_⟩
    (obtain rfl | rfl | rfl : k = 0 ∨ k = 1 ∨ k = 2 := by omega) <;> simp [dd] <;> linarith [h2.1, h2.2]
  · refine ⟨by norm_num, fun k hk => ?_⟩
    rw [not_and_or, not_le, not_le] at h1
    rw [not_and_or, not_lt, not_le] at h2
    (obtain rfl | rfl | rfl : k = 0 ∨ k = 1 ∨ k = 2 := by omega) <;> simp [dd] <;> rcases h1 with h1 | h1 <;> rcases h2 with h2 | h2 <;> linarith

/-- `pyInt` of a natural number -/
theorem pyInt_nat (n : Nat) : Src.pyInt (n : Rat) = n := by
  unfold Src.pyInt
  rw [if_pos (by positivity)]
  exact_mod_cast Rat.floor_intCast (n : Int)

/-- `_slicer` on natural corner / size / spacing selects exactly the model's `sliceIdx` -/
theorem slicer_as_modelled (dim corner size spacing k : Nat) :
    k ∈ sliceIdx dim corner size spacing ↔
      k < dim ∧ (Src.slicer corner size spacing).1 ≤ (k : Int) ∧ (k : Int) < (Src.slicer corner size spacing).2.1
        ∧ ((k : Int) - (Src.slicer corner size spacing).1) % (Src.slicer corner size spacing).2.2 = 0 := by
  unfold Src.slicer sliceIdx
  have h2 : Src.pyInt ((size : Rat) + (corner : Rat)) = ((size + corner : Nat) : Int) := by
    rw [← pyInt_nat]; push_cast; rfl
  simp only [pyInt_nat, h2, List.mem_filter, List.mem_range, decide_eq_true_eq]
  constructor
  · rintro ⟨hd, hc, hs, hm⟩
    refine ⟨hd, by exact_mod_cast hc, by exact_mod_cast hs, ?_⟩
    rw [← Int.ofNat_sub hc]; exact_mod_cast hm
  · rintro ⟨hd, hc, hs, hm⟩
    have hc' : corner ≤ k := by exact_mod_cast hc
    refine ⟨hd, hc', by exact_mod_cast hs, ?_⟩
    rw [← Int.ofNat_sub hc'] at hm; exact_mod_cast hm

/-! ### the interpolation code `_eval` hands to `joint_histogram` -/

/-- `_set_interp` + `_eval`: 'pv' and 'tri' reach the kernel as their table codes and select
    `_pv_interpolation` / `_tri_interpolation` whatever the generator returns -/
theorem evalInterp_pv_tri (draw : Int) :
    Kern.interpolator (Src.evalInterp 0 draw) = "_pv_interpolation" ∧
    Kern.interpolator (Src.evalInterp 1 draw) = "_tri_interpolation" := by
  constructor <;> simp [Src.evalInterp, Kern.interpolator]

/-- 'rand' (code −1): for every value the generator can return (`Src.drawLo ≤ draw`, the range regenerated
    from `_eval`'s call) the kernel runs `_rand_interpolation` with a seed `≥ 1` — never the code 0 of 'pv'
    (which a draw of 0 produced before the lower bound was 1) -/
theorem evalInterp_rand (draw : Int) (hlo : Src.drawLo ≤ draw) :
    Kern.interpolator (Src.evalInterp (-1) draw) = "_rand_interpolation" ∧
    1 ≤ Kern.seedOf (Src.evalInterp (-1) draw) := by
  have hv : Src.evalInterp (-1) draw < 0 := by
    simp only [Src.evalInterp, Src.drawLo] at hlo ⊢
    simp
    omega
  generalize Src.evalInterp (-1) draw = v at hv
  have h0 : ¬ v = 0 := by omega
  have h1 : ¬ v > 0 := by omega
  refine ⟨by simp [Kern.interpolator, h0, h1], by unfold Kern.seedOf; omega⟩

/-- the table `interp_methods` maps the three documented names to the codes used above -/
theorem interp_codes_from_source :
    Src.interpMethods = [("pv", 0), ("tri", 1), ("rand", -1)] := by decide

end NipyVerif.C09
