/-
C05 (wave 3) — `GLSModel` (which covariance matrices are accepted; the fit does not depend on the
square root chosen), `isestimable`, options of `yule_walker` and `ar_bias_correct`.
-/
import NipyVerif.Model.C05E
import NipyVerif.Lemmas.C05B

namespace NipyVerif.C05
open Matrix

/-! ## `yule_walker`: the `df` option -/

/-- `n = df or X.shape[0]`: `df=None`, `df=0` and `df=len(X)` are the same request. -/
theorem yule_walker_df_default {n o : Nat} (x : Vec n) (ub : Bool) :
    yuleWalker x o ub (some 0) = yuleWalker x o ub none ∧ yuleWalker x o ub (some n) = yuleWalker x o ub none := by
  have e0 : ywN (some 0) n = ywN none n := by simp [ywN]
  have en : ywN (some n) n = ywN none n := by simp [ywN]
  constructor
  · unfold yuleWalker; rw [e0]
  · unfold yuleWalker; rw [en]

/-! ## `ar_bias_correct`: results with and without their own `scale` -/

/-- without a `scale` attribute `cov[0]` is the plain sum of squares: the general form reduces to
    `arBiasCorrect` -/
theorem arBiasCorrectG_default {n v o : Nat} (invM : Mat (o + 1) (o + 1)) (r : Mat n v) :
    arBiasCorrectG invM (fun j => lagSum r 0 j) r = arBiasCorrect invM r := by
  funext a j
  have h : ∀ b : Fin (o + 1), (if b.1 = 0 then lagSum r 0 j else lagSum r b.1 j) = lagSum r b.1 j := by
    intro b; split
    · rename_i hb; rw [hb]
    · rfl
  simp only [arBiasCorrectG, arBiasCorrect, h]

/-- the bias-correcting matrix depends on the design only through the residual-forming matrix
    `I − X · calc_beta`: two parametrisations of one column space (same hat matrix) give the same
    correction. -/
theorem ar_bias_corrector_hat {n p p' : Nat} (X : Mat n p) (P : Mat p n) (X' : Mat n p') (P' : Mat p' n)
    (h : mmul X P = mmul X' P') (o : Nat) :
    arBiasM X P o = arBiasM X' P' o ∧ arBiasCorrector X P o = arBiasCorrector X' P' o := by
  have hM : arBiasM X P o = arBiasM X' P' o := by unfold arBiasM; rw [h]
  exact ⟨hM, by unfold arBiasCorrector; rw [hM]⟩

/-! ## `GLSModel`: refusals -/

/-- a covariance the model reports as refused is really not positive semi-definite: the model exhibits
    a vector with `zᵀ S z < 0` (then `pinv(sigma)` has a negative eigenvalue and `cholesky` raises). -/
theorem gls_refused_not_psd {n : Nat} (S : Mat n n) (h : glsVerdict S = .indefinite) :
    ∃ z : Vec n, quad S z < 0 := by
  unfold glsVerdict at h
  split at h
  rename_i m stop _
  split at h
  · rename_i k
    simp only at h
    split at h
    · rename_i hq; exact ⟨_, hq⟩
    · split at h <;> exact absurd h (by simp)
  · simp only at h
    split at h <;> exact absurd h (by simp)

/-- a covariance reported as semi-definite has a non-zero vector with `zᵀ S z = 0`: it is not positive
    definite (NumPy's outcome then depends on rounding: not compared). -/
theorem gls_semidefinite_witness {n : Nat} (S : Mat n n) (h : glsVerdict S = .semidefinite) :
    ∃ z : Vec n, (∃ j, z j ≠ 0) ∧ quad S z = 0 := by
  unfold glsVerdict at h
  split at h
  rename_i m stop _
  split at h
  · rename_i k
    simp only at h
    split at h
    · exact absurd h (by simp)
    · split at h
      · rename_i hq
        obtain ⟨h0, hany⟩ := hq
        refine ⟨_, ?_, h0⟩
        rw [List.any_eq_true] at hany
        obtain ⟨j, _, hj⟩ := hany
        exact ⟨j, by simpa using hj⟩
      · exact absurd h (by simp)
  · simp only at h
    split at h <;> exact absurd h (by simp)

/-- the congruence certificate implies positive definiteness: if `E` is invertible and `E S Eᵀ` is a
    diagonal matrix with positive entries, then `zᵀ S z > 0` for every `z ≠ 0`. -/
theorem pdCert_sound {n : Nat} (S E : Mat n n) (h : pdCert S E = true) (z : Vec n) (hz : ∃ j, z j ≠ 0) :
    0 < quad S z := by
  unfold pdCert at h
  simp only [ofArr2_toArr2, Bool.and_eq_true, List.all_eq_true, List.mem_finRange, forall_const] at h
  obtain ⟨hinv, hD⟩ := h
  obtain ⟨Ei, hEi⟩ := Option.isSome_iff_exists.mp hinv
  have h1 : toM Ei * toM E = 1 := by
    have := congrArg toM (inv?_spec hEi)
    simpa [mmul_toM, idm_toM] using this
  -- w = Eiᵀ z, so that z = Eᵀ w
  obtain ⟨w, hw⟩ : ∃ w : Fin n → ℚ, w = (toM Ei)ᵀ *ᵥ z := ⟨_, rfl⟩
  have hzw : z = (toM E)ᵀ *ᵥ w := by
    rw [hw, Matrix.mulVec_mulVec, ← Matrix.transpose_mul, h1, Matrix.transpose_one, Matrix.one_mulVec]
  have hq : quad S z = w ⬝ᵥ ((toM E * toM S * (toM E)ᵀ) *ᵥ w) := by
    have e1 : quad S z = z ⬝ᵥ (toM S *ᵥ z) := by
      simp [quad, vdot, mvec, fsum_eq, dotProduct, Matrix.mulVec, toM]
    rw [e1]
    have e2 : (toM E * toM S * (toM E)ᵀ) *ᵥ w = toM E *ᵥ (toM S *ᵥ ((toM E)ᵀ *ᵥ w)) := by
      simp only [Matrix.mulVec_mulVec, Matrix.mul_assoc]
    calc z ⬝ᵥ (toM S *ᵥ z) = ((toM E)ᵀ *ᵥ w) ⬝ᵥ (toM S *ᵥ ((toM E)ᵀ *ᵥ w)) := by rw [← hzw]
      _ = (w ᵥ* toM E) ⬝ᵥ (toM S *ᵥ ((toM E)ᵀ *ᵥ w)) := by rw [Matrix.mulVec_transpose]
      _ = w ⬝ᵥ (toM E *ᵥ (toM S *ᵥ ((toM E)ᵀ *ᵥ w))) := (Matrix.dotProduct_mulVec _ _ _).symm
      _ = w ⬝ᵥ ((toM E * toM S * (toM E)ᵀ) *ᵥ w) := by rw [e2]
  have hDm : toM E * toM S * (toM E)ᵀ = Matrix.diagonal fun i => mmul E (mmul S (tr E)) i i := by
    have e : toM (mmul E (mmul S (tr E))) = toM E * toM S * (toM E)ᵀ := by
      rw [mmul_toM, mmul_toM, tr_toM, Matrix.mul_assoc]
    ext i j
    have hij := hD i j
    rw [← e]
    show mmul E (mmul S (tr E)) i j = _
    by_cases hne : i = j
    · subst hne; simp
    · rw [if_neg hne] at hij
      simp only [decide_eq_true_eq] at hij
      rw [Matrix.diagonal_apply_ne _ hne, hij]
  rw [hq, hDm]
  simp only [Matrix.mulVec_diagonal, dotProduct]
  have hwne : ∃ j, w j ≠ 0 := by
    by_contra hall
    simp only [not_exists, not_not] at hall
    have : w = 0 := funext hall
    rw [this, Matrix.mulVec_zero] at hzw
    obtain ⟨j, hj⟩ := hz
    exact hj (by rw [hzw]; rfl)
  obtain ⟨j0, hj0⟩ := hwne
  have hpos : ∀ i, 0 < mmul E (mmul S (tr E)) i i := by
    intro i
    have := hD i i
    simpa using this
  apply Finset.sum_pos'
  · intro i _
    have := hpos i
    nlinarith [mul_self_nonneg (w i)]
  · refine ⟨j0, Finset.mem_univ _, ?_⟩
    have := hpos j0
    have hw2 : 0 < w j0 * w j0 := mul_self_pos.mpr hj0
    nlinarith

/-- **an accepted covariance is positive definite**: whenever the model answers `ok`. -/
theorem gls_accepted_pd {n : Nat} (S : Mat n n) (h : glsVerdict S = .ok) (z : Vec n) (hz : ∃ j, z j ≠ 0) :
    0 < quad S z := by
  unfold glsVerdict at h
  split at h
  rename_i m stop _
  split at h
  · simp only at h
    split at h
    · exact absurd h (by simp)
    · split at h <;> exact absurd h (by simp)
  · simp only at h
    split at h
    · rename_i hc
      exact pdCert_sound S _ hc z hz
    · exact absurd h (by simp)

/-! ## `GLSModel`: the fit depends on `sigma` only, not on the square root taken -/

/-- **any root of the inverse covariance gives the generalised least-squares solution**: if
    `Wᵀ W = S⁻¹` (whatever `W`: the transposed Cholesky factor NumPy computes, a symmetric root, …)
    the fit of `GLSModel` has the coefficients, the whitened sum of squares and the normalised
    covariance of the estimator written with `S⁻¹` directly.  (Discharges the former parameter
    "GLS with the implementation's `cholsigmainv`".) -/
theorem gls_any_root {n p v : Nat} (X : Mat n p) (Y : Mat n v) (S W : Mat n n) (Si : Mat n n)
    (hSi : inv? S = some Si) (hW : mmul (tr W) W = Si) (f : Fit n p v) (h : fit (.gls W) X Y = some f) :
    ∃ b sse G, glsExact X Y S = some (b, sse, G) ∧ f.beta = b ∧ f.sse = sse ∧ f.cov = G := by
  rw [fit_eq] at h
  obtain ⟨G, hG, sp⟩ := fitW_spec h
  simp only [Whitener.apply, whitenGLS] at hG sp
  -- the Gram matrix of the whitened design is Xᵀ S⁻¹ X
  have hgram : mmul (tr (mmul W X)) (mmul W X) = mmul (tr X) (mmul Si X) := by
    rw [tr_mmul, mmul_assoc, ← mmul_assoc (tr W) W X, hW]
  have hG' : inv? (mmul (tr X) (mmul Si X)) = some G := by rw [← hgram]; exact hG
  unfold glsExact
  simp only [hSi, ofArr2_toArr2, hG']
  refine ⟨_, _, _, rfl, ?_, ?_, ?_⟩
  · -- beta
    rw [sp.beta, sp.pinv]
    have : tr (mmul Si X) = mmul (tr X) (tr Si) := tr_mmul _ _
    have hSis : tr Si = Si := by rw [← hW, tr_mmul, tr_tr]
    rw [this, hSis, tr_mmul, mmul_assoc, mmul_assoc, ← mmul_assoc (tr W) W Y, hW, ← mmul_assoc (tr X) Si Y]
  · -- sse
    have hb : f.beta = mmul G (mmul (tr (mmul Si X)) Y) := by
      rw [sp.beta, sp.pinv]
      have : tr (mmul Si X) = mmul (tr X) (tr Si) := tr_mmul _ _
      have hSis : tr Si = Si := by rw [← hW, tr_mmul, tr_tr]
      rw [this, hSis, tr_mmul, mmul_assoc, mmul_assoc, ← mmul_assoc (tr W) W Y, hW, ← mmul_assoc (tr X) Si Y]
    rw [sp.sse, sp.wresid, ← hb]
    funext j
    -- Σ_i (W r)_i² = Σ_i r_i (S⁻¹ r)_i with r = Y − X beta
    have hr : msub (mmul W Y) (mmul (mmul W X) f.beta) = mmul W (msub Y (mmul X f.beta)) := by
      apply toM_inj
      simp only [msub_toM, mmul_toM, Matrix.mul_sub, Matrix.mul_assoc]
    rw [hr]
    set r := msub Y (mmul X f.beta) with hrdef
    have key : toM (tr (mmul W r)) * toM (mmul W r) = toM (tr r) * toM (mmul Si r) := by
      simp only [tr_toM, mmul_toM, Matrix.transpose_mul]
      rw [← hW]
      simp only [mmul_toM, tr_toM, Matrix.mul_assoc]
    have := congrFun (congrFun key j) j
    simp only [Matrix.mul_apply, toM, Matrix.of_apply, tr] at this
    simp only [fsum_eq]
    exact this
  · -- cov = (Xᵀ S⁻¹ X)⁻¹
    have hc := cov_gram_of_spec sp
    -- f.cov * gram = 1 and G * gram = 1 ⇒ f.cov = G
    have h1 : toM f.cov * toM (mmul (tr (mmul W X)) (mmul W X)) = 1 := by
      have := congrArg toM hc
      simpa [mmul_toM, idm_toM] using this
    have h2 : toM G * toM (mmul (tr (mmul W X)) (mmul W X)) = 1 := by
      have := congrArg toM sp.inv
      simpa [mmul_toM, idm_toM] using this
    have h3 : toM (mmul (tr (mmul W X)) (mmul W X)) * toM G = 1 := mul_eq_one_comm.mp h2
    apply toM_inj
    calc toM f.cov = toM f.cov * (toM (mmul (tr (mmul W X)) (mmul W X)) * toM G) := by rw [h3, Matrix.mul_one]
      _ = (toM f.cov * toM (mmul (tr (mmul W X)) (mmul W X))) * toM G := by rw [Matrix.mul_assoc]
      _ = toM G := by rw [h1, Matrix.one_mul]

/-! ## `isestimable` -/

theorem mvec_toM {n p : Nat} (A : Mat n p) (x : Vec p) : mvec A x = toM A *ᵥ x := by
  funext i
  simp [mvec, fsum_eq, Matrix.mulVec, dotProduct, toM]

theorem vstack_top {q n p : Nat} (C : Mat q p) (D : Mat n p) (x : Vec p) (i : Fin q) :
    mvec (vstack C D) x ⟨i.1, by omega⟩ = mvec C x i := by
  simp [mvec, vstack, i.2]

theorem vstack_bot {q n p : Nat} (C : Mat q p) (D : Mat n p) (x : Vec p) (i : Fin n) :
    mvec (vstack C D) x ⟨q + i.1, by omega⟩ = mvec D x i := by
  simp [mvec, vstack]

/-- **what the answer of `isestimable` means**: the ranks of `vstack([C, D])` and `D` agree exactly when
    the contrast vanishes on the null space of the design — i.e. when `C β` takes the same value at any
    two solutions `β` of the normal equations (it is a function of the fitted values only). -/
theorem isestimable_iff {q n p : Nat} (C : Mat q p) (D : Mat n p) (b : Bool) (h : isEstimable C D = some b) :
    b = true ↔ ∀ x : Vec p, mvec D x = (fun _ => 0) → mvec C x = (fun _ => 0) := by
  unfold isEstimable at h
  cases h1 : rankCert (vstack C D) with
  | none => rw [h1] at h; simp at h
  | some a =>
    cases h2 : rankCert D with
    | none => rw [h1, h2] at h; simp at h
    | some r =>
      rw [h1, h2] at h
      simp only [Option.some.injEq] at h
      have ra : (toM (vstack C D)).rank = a := rankCertOf_sound _ _ a h1
      have rr : (toM D).rank = r := rankCertOf_sound _ _ r h2
      set fM := (toM (vstack C D)).mulVecLin with hfM
      set fN := (toM D).mulVecLin with hfN
      have hle : LinearMap.ker fM ≤ LinearMap.ker fN := by
        intro x hx
        rw [LinearMap.mem_ker] at hx ⊢
        funext i
        have := congrFun hx ⟨q + i.1, by omega⟩
        simp only [hfM, Matrix.mulVecLin_apply, ← mvec_toM] at this
        rw [vstack_bot] at this
        simp only [hfN, Matrix.mulVecLin_apply, ← mvec_toM]
        exact this
      have nM := LinearMap.finrank_range_add_finrank_ker fM
      have nN := LinearMap.finrank_range_add_finrank_ker fN
      have eM : Module.finrank ℚ (LinearMap.range fM) = a := ra
      have eN : Module.finrank ℚ (LinearMap.range fN) = r := rr
      constructor
      · intro hb
        have har : a = r := by
          rw [hb] at h
          simpa using h.symm
        have hk : Module.finrank ℚ (LinearMap.ker fM) = Module.finrank ℚ (LinearMap.ker fN) := by omega
        have heq : LinearMap.ker fM = LinearMap.ker fN := Submodule.eq_of_le_of_finrank_eq hle hk
        intro x hx
        have hxN : x ∈ LinearMap.ker fN := by
          rw [LinearMap.mem_ker]
          simp only [hfN, Matrix.mulVecLin_apply, ← mvec_toM]
          exact hx
        rw [← heq, LinearMap.mem_ker] at hxN
        funext i
        have := congrFun hxN ⟨i.1, by omega⟩
        simp only [hfM, Matrix.mulVecLin_apply, ← mvec_toM] at this
        rw [vstack_top] at this
        exact this
      · intro hall
        have hge : LinearMap.ker fN ≤ LinearMap.ker fM := by
          intro x hx
          rw [LinearMap.mem_ker] at hx ⊢
          have hD : mvec D x = fun _ => 0 := by
            simp only [hfN, Matrix.mulVecLin_apply, ← mvec_toM] at hx
            exact hx
          have hC := hall x hD
          funext i
          simp only [hfM, Matrix.mulVecLin_apply, ← mvec_toM]
          by_cases hi : i.1 < q
          · have := vstack_top C D x ⟨i.1, hi⟩
            simp only at this
            rw [this, hC]; rfl
          · have := vstack_bot C D x ⟨i.1 - q, by omega⟩
            have e : (⟨q + (i.1 - q), by omega⟩ : Fin (q + n)) = i := Fin.ext (by simp; omega)
            rw [e] at this
            rw [this, hD]; rfl
        have heq : LinearMap.ker fM = LinearMap.ker fN := le_antisymm hle hge
        have har : a = r := by rw [heq] at nM; omega
        rw [← h]; simp [har]

end NipyVerif.C05
