/-
C13 — clause "the component and mixture likelihoods equal the mathematical density of their current
parameters, so each mixture density integrates to one", diagonal precisions, every dimension:
the expression `GMM.unweighted_likelihood_` evaluates (regenerated from the source into
`Gen/C13Like.lean`) is the product of one-dimensional normal densities with variances `1 / b_j`
(Mathlib's `gaussianPDFReal`), is positive, and integrates to one over `ℝ^d`; a mixture with weights
summing to one integrates to one.  `np.log`, `np.exp` and floating-point sums are the parameters
(numeric oracle in the check: comparison with scipy's multivariate normal density, quadrature).
The full-precision case needs the change of variables `x ↦ L x` and is NOT proved here
(`…_partial`: only dimension one, where `eigvalsh(b) = b`).
-/
import NipyVerif.Lemmas.C13G
import NipyVerif.Gen.C13Like

open MeasureTheory ProbabilityTheory Real
open scoped NNReal BigOperators

namespace NipyVerif.C13

/-- the source computes, for a diagonal precision, `exp((−log(2π)·dim + Σ log b − Σ (m − x)²·b) / 2)`:
    the statements of the loop body are those `diagLike` was written from -/
theorem like_source_as_modelled :
    Gen.C13.likeLoop =
      [("", "w = -np.log(2 * np.pi) * self.dim"),
       ("", "m = np.reshape(self.means[k], (1, self.dim))"),
       ("", "b = self.precisions[k]"),
       ("self.prec_type == 'full'", "w += np.log(eigvalsh(b)).sum()"),
       ("self.prec_type == 'full'", "dx = m - x"),
       ("self.prec_type == 'full'", "q = np.sum(np.dot(dx, b) * dx, 1)"),
       ("not (self.prec_type == 'full')", "w += np.sum(np.log(b))"),
       ("not (self.prec_type == 'full')", "q = np.dot((m - x) ** 2, b)"),
       ("", "w -= q"),
       ("", "w /= 2"),
       ("", "like[:, k] = np.exp(w)")] := by
  decide

/-- the diagonal likelihood is the product of the one-dimensional normal densities with means `m j`
    and variances `1 / b j` -/
theorem diag_likelihood_is_product_of_normal_densities {d : ℕ} (m b x : Fin d → ℝ) (hb : ∀ j, 0 < b j) :
    diagLike m b x = ∏ j, gaussianPDFReal (m j) (Real.toNNReal (1 / b j)) (x j) :=
  diagLike_eq_prod m b x hb

/-- a component density is positive -/
theorem diagLike_pos {d : ℕ} (m b x : Fin d → ℝ) : 0 < diagLike m b x := Real.exp_pos _

/-- **A diagonal-precision component density integrates to one** over `ℝ^d`, for every dimension,
    every mean and every positive precision. -/
theorem diag_component_integrates_to_one {d : ℕ} (m b : Fin d → ℝ) (hb : ∀ j, 0 < b j) :
    ∫ x : Fin d → ℝ, diagLike m b x = 1 := by
  simp_rw [diagLike_eq_prod m b _ hb]
  rw [integral_fintype_prod_volume_eq_prod
    (fun j (t : ℝ) => gaussianPDFReal (m j) (Real.toNNReal (1 / b j)) t)]
  apply Finset.prod_eq_one
  intro j _
  apply integral_gaussianPDFReal_eq_one
  intro h
  have hpos := hb j
  have : (0 : ℝ) < 1 / b j := by positivity
  exact absurd (Real.toNNReal_eq_zero.1 h) (not_le.2 this)

/-- **A mixture of diagonal-precision Gaussians with weights summing to one integrates to one**
    (`mixture_likelihood` = Σ_k w_k · component density), for every dimension and component count. -/
theorem diag_mixture_integrates_to_one {d K : ℕ} (w : Fin K → ℝ) (m b : Fin K → Fin d → ℝ)
    (hb : ∀ k j, 0 < b k j) (hw : ∑ k, w k = 1) :
    ∫ x : Fin d → ℝ, ∑ k, w k * diagLike (m k) (b k) x = 1 := by
  rw [integral_finsetSum _ (fun k _ => (diagLike_integrable (m k) (b k) (hb k)).const_mul (w k))]
  simp_rw [integral_const_mul, diag_component_integrates_to_one _ _ (hb _), mul_one]
  exact hw


/-- full precision, dimension one (`eigvalsh(b) = [b]`, `q = (m − x)·b·(m − x)`): the same density.
    PARTIAL: for `dim ≥ 2` the full-precision formula needs `log det = Σ log eigenvalues` and the change of
    variables by a square root of the precision, neither modelled here. -/
theorem full_component_density_dim_one_partial (m b x : ℝ) (hb : 0 < b) :
    Real.exp ((-(Real.log (2 * π)) * 1 + Real.log b - (m - x) * b * (m - x)) / 2) =
      gaussianPDFReal m (Real.toNNReal (1 / b)) x := by
  rw [← like1_eq_gaussianPDF m b x hb]
  congr 1; ring

/-- non-vacuity: two components in the plane -/
example : ∫ x : Fin 2 → ℝ, ∑ k : Fin 2, (![1 / 4, 3 / 4] k : ℝ) *
    diagLike (![![0, 1], ![2, -1]] k) (![![1, 2], ![1 / 2, 4]] k) x = 1 := by
  apply diag_mixture_integrates_to_one
  · intro k j; fin_cases k <;> fin_cases j <;> norm_num
  · simp [Fin.sum_univ_two]; norm_num

end NipyVerif.C13
