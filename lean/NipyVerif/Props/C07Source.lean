/-
C07 — tie (a): what the *text* of /repo says (regenerated into `Gen/C07Source.lean` on every run) is
what the model implements.  If `_regressor_names`, the name formats, or the expressions that build
the high-resolution grid / the repetition time / the fir kernels / the drift sizes change, these
theorems stop building and the proofs about the model have to be re-examined.
-/
import NipyVerif.Gen.C07Source
import NipyVerif.Model.C07Dm

namespace NipyVerif.C07

/-- every non-fir entry of the source's suffix table is a haemodynamic model of the model, and
    `regressorNames` appends exactly the source's suffixes, in order -/
theorem regressor_names_from_source (c : String) (d : List Nat) :
    ∀ p ∈ Gen.suffixTable, ∃ m, hrfOfName p.1 = some m ∧ m ≠ .fir ∧
      regressorNames c m d = p.2.map (fun s => c ++ s) := by
  intro p hp
  simp only [Gen.suffixTable, List.mem_cons, List.not_mem_nil, or_false] at hp
  rcases hp with rfl | rfl | rfl | rfl | rfl
  · exact ⟨.canonical, rfl, by decide, by simp [regressorNames]⟩
  · exact ⟨.canonicalDeriv, rfl, by decide, by simp [regressorNames]⟩
  · exact ⟨.spm, rfl, by decide, by simp [regressorNames]⟩
  · exact ⟨.spmTime, rfl, by decide, by simp [regressorNames]⟩
  · exact ⟨.spmTimeDisp, rfl, by decide, by simp [regressorNames]⟩

/-- the source names five non-fir models (all those of the model) -/
theorem suffix_table_complete :
    Gen.suffixTable.map (·.1) =
      ["canonical", "canonical with derivative", "spm", "spm_time", "spm_time_dispersion"] := by
  decide

/-- fir columns, drift columns, the constant and the default user names are formatted as modelled
    (`regressorNames … .fir`, `driftNames`, `defaultRegNames`) -/
theorem name_formats_as_modelled :
    Gen.firNameFormat = "_delay_%d" ∧
    Gen.driftNamesExpr = "[f'drift_{k}' for k in range(1, drift.shape[1])]" ∧
    Gen.driftNamesAppended = ["'constant'"] ∧
    Gen.defaultRegNamesExpr = "['reg%d' % k for k in range(n_add_regs)]" := by
  decide

/-- the high-resolution grid, the event indices, the repetition time of `compute_regressor` and the
    fir kernels are computed by the expressions the model (`trOf`, `nPre`, `hrGrid`, `onsetIdx`,
    `offsetIdx`, `firKernel`) was written from -/
theorem grid_source_as_modelled :
    Gen.gridExprs =
      [("n", "frametimes.size"),
       ("tr", "(t_max - t_min) / (n - 1)"),
       ("dt", "tr / oversampling"),
       ("n_pre", "int(np.ceil(-min_onset / dt))"),
       ("hr_frametimes", "np.linspace(t_min - n_pre * dt, t_max + tr, n_pre + n * oversampling + 1)"),
       ("t_onset", "np.minimum(np.searchsorted(hr_frametimes, onsets), tmax - 1)"),
       ("t_offset", "np.minimum(np.searchsorted(hr_frametimes, onsets + durations), tmax - 1)"),
       ("t_min, t_max", "(float(frametimes.min()), float(frametimes.max()))")] ∧
    Gen.computeTrExpr = "float(frametimes.max() - frametimes.min()) / (np.size(frametimes) - 1)" ∧
    Gen.firKernelExpr =
      "[np.hstack((np.zeros(f * oversampling), np.ones(oversampling))) for f in fir_delays]" := by
  decide

/-- sizes of the drift blocks (`driftCols`) and the normalisation of `_poly_drift` (`polyDriftFrames`) -/
theorem drift_source_as_modelled :
    Gen.cosineOrderExpr = "max(int(np.floor(2 * len_tim * hfcut * dt)), 1)" ∧
    Gen.polyTmaxExpr = "float(np.abs(frametimes).max())" := by
  decide

/-- the cosine drift columns are computed by the expressions `Props/C07Drift.lean` is about:
    sample index `t = 0 … len_tim - 1`, column `k - 1` (for `k = 1 … order - 1`) equal to
    `sqrt(2 / len_tim) * cos(pi / len_tim * (t + 0.5) * k)` (`cosDriftCol len_tim k t`), last column `1`
    (`cosDriftEntry`) -/
theorem cosine_source_as_modelled :
    Gen.cosineExprs =
      [("len_tim", "len(frametimes)"),
       ("n_times", "np.arange(len_tim)"),
       ("nfct", "np.sqrt(2.0 / len_tim)"),
       ("cdrift[:, k - 1]", "nfct * np.cos(np.pi / len_tim * (n_times + 0.5) * k)"),
       ("cdrift[:, order - 1]", "1.0"),
       ("for k in", "range(1, order)")] := by
  decide

end NipyVerif.C07
