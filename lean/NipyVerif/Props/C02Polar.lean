/-
C02 — the polar factor nibabel's `io_orientation` takes from the SVD, for a partial isometry.

`io_orientation` normalises the columns of the linear part (`RS`), takes
`P, S, Qs = svd(RS, full_matrices=False)`, keeps the singular values above a tolerance and uses
`R = P[:, keep] @ Qs[keep]`.  For an affine whose columns are mutually orthogonal the normalised
matrix is a partial isometry (`orth_columns_partial_isometry` in `Props/C02C.lean`: `RSᵀ RS` is a
0/1 diagonal, hence idempotent).  This file proves the linear-algebra step that was only compared
numerically before: for *every* decomposition `RS = P · diag(S) · Qs` with orthonormal columns of
`P`, orthonormal rows of `Qs` and `S ≥ 0` (whatever the SVD routine returns, exactly), the singular
values are 0 or 1 and the matrix `R` built from the kept ones is `RS` itself - so the loop the model
runs on the normalised matrix (`orthOrnt`) is the loop nibabel runs on `R`.  What stays numerical
is only that LAPACK's output satisfies these equations up to rounding.
-/
import Mathlib.Data.Matrix.Basic
import Mathlib.Data.Matrix.Mul
import Mathlib.Data.Matrix.Diagonal
import Mathlib.Data.Real.Basic
import Mathlib.LinearAlgebra.Matrix.Notation
import Mathlib.Tactic.Linarith
import Mathlib.Tactic.NormNum

namespace NipyVerif.C02

open Matrix

variable {m k p : Type} [Fintype m] [Fintype k] [Fintype p] [DecidableEq m] [DecidableEq k] [DecidableEq p]

set_option linter.unusedSectionVars false

/-- a non-negative real whose square is idempotent is 0 or 1 -/
theorem sq_idem_zero_or_one (s : ℝ) (h0 : 0 ≤ s) (h : (s * s) * (s * s) = s * s) : s = 0 ∨ s = 1 := by
  by_cases hs : s = 0
  · exact Or.inl hs
  · right
    have hpos : 0 < s := lt_of_le_of_ne h0 (Ne.symm hs)
    have hss : s * s ≠ 0 := mul_ne_zero hs hs
    have h1 : s * s = 1 := by
      have := mul_right_cancel₀ hss (show (s * s) * (s * s) = 1 * (s * s) by rw [one_mul]; exact h)
      exact this
    nlinarith [sq_nonneg (s - 1), sq_nonneg (s + 1)]

/-- `MᵀM` in terms of a singular value decomposition -/
theorem gram_of_svd (M : Matrix m p ℝ) (P : Matrix m k ℝ) (S : k → ℝ) (Q : Matrix k p ℝ)
    (hP : Pᵀ * P = 1) (hM : M = P * diagonal S * Q) :
    Mᵀ * M = Qᵀ * diagonal (fun i => S i * S i) * Q := by
  subst hM
  rw [transpose_mul, transpose_mul, diagonal_transpose]
  calc Qᵀ * (diagonal S * Pᵀ) * (P * diagonal S * Q)
      = Qᵀ * (diagonal S * (Pᵀ * P) * diagonal S) * Q := by simp only [Matrix.mul_assoc]
    _ = Qᵀ * diagonal (fun i => S i * S i) * Q := by
        rw [hP, Matrix.mul_one, diagonal_mul_diagonal]

/-- singular values of a partial isometry are 0 or 1 -/
theorem singular_values_of_partial_isometry (M : Matrix m p ℝ) (P : Matrix m k ℝ) (S : k → ℝ)
    (Q : Matrix k p ℝ) (hP : Pᵀ * P = 1) (hQ : Q * Qᵀ = 1) (hM : M = P * diagonal S * Q)
    (hS : ∀ i, 0 ≤ S i) (hiso : (Mᵀ * M) * (Mᵀ * M) = Mᵀ * M) (i : k) : S i = 0 ∨ S i = 1 := by
  have hg := gram_of_svd M P S Q hP hM
  rw [hg] at hiso
  -- conjugate back with Q … Qᵀ
  have h2 : Q * ((Qᵀ * diagonal (fun i => S i * S i) * Q) * (Qᵀ * diagonal (fun i => S i * S i) * Q)) * Qᵀ
      = Q * (Qᵀ * diagonal (fun i => S i * S i) * Q) * Qᵀ := by rw [hiso]
  have lhs : Q * ((Qᵀ * diagonal (fun i => S i * S i) * Q) * (Qᵀ * diagonal (fun i => S i * S i) * Q)) * Qᵀ
      = (Q * Qᵀ) * diagonal (fun i => S i * S i) * (Q * Qᵀ) * diagonal (fun i => S i * S i) * (Q * Qᵀ) := by
    simp only [Matrix.mul_assoc]
  have rhs : Q * (Qᵀ * diagonal (fun i => S i * S i) * Q) * Qᵀ
      = (Q * Qᵀ) * diagonal (fun i => S i * S i) * (Q * Qᵀ) := by
    simp only [Matrix.mul_assoc]
  rw [lhs, rhs, hQ] at h2
  simp only [Matrix.one_mul, Matrix.mul_one, diagonal_mul_diagonal] at h2
  have h3 := congrFun (diagonal_injective h2) i
  exact sq_idem_zero_or_one (S i) (hS i) h3

/-- nibabel's `R = P[:, keep] @ Qs[keep]` (`keep = S > tol`, `0 < tol < 1`) is the partial isometry
    itself, for every singular value decomposition of it -/
theorem polar_factor_of_partial_isometry (M : Matrix m p ℝ) (P : Matrix m k ℝ) (S : k → ℝ)
    (Q : Matrix k p ℝ) (hP : Pᵀ * P = 1) (hQ : Q * Qᵀ = 1) (hM : M = P * diagonal S * Q)
    (hS : ∀ i, 0 ≤ S i) (hiso : (Mᵀ * M) * (Mᵀ * M) = Mᵀ * M)
    (tol : ℝ) (ht0 : 0 < tol) (ht1 : tol < 1) :
    P * diagonal (fun i => if S i > tol then (1 : ℝ) else 0) * Q = M := by
  have hind : (fun i => if S i > tol then (1 : ℝ) else 0) = S := by
    funext i
    rcases singular_values_of_partial_isometry M P S Q hP hQ hM hS hiso i with h | h
    · have : ¬ (S i > tol) := by rw [h]; linarith
      show (if S i > tol then (1 : ℝ) else 0) = S i
      rw [if_neg this, h]
    · have : S i > tol := by rw [h]; exact ht1
      show (if S i > tol then (1 : ℝ) else 0) = S i
      rw [if_pos this, h]
  rw [hind, hM]

/-- the hypotheses are satisfiable: one unit column and one zero column (a zero-TR time axis),
    `P = 1`, `Q = 1`, `S = (1, 0)`, tolerance 1/2 -/
example : (1 : Matrix (Fin 2) (Fin 2) ℝ) *
      diagonal (fun i => if (![1, 0] : Fin 2 → ℝ) i > 1 / 2 then (1 : ℝ) else 0) * 1
    = 1 * diagonal ![1, 0] * 1 := by
  refine polar_factor_of_partial_isometry _ 1 ![1, 0] 1 (by simp) (by simp) rfl ?_ ?_ (1 / 2)
    (by norm_num) (by norm_num)
  · intro i; fin_cases i <;> simp
  · simp only [Matrix.one_mul, Matrix.mul_one, diagonal_transpose, diagonal_mul_diagonal]
    congr 1
    funext i
    fin_cases i <;> simp

end NipyVerif.C02
