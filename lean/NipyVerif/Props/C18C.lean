/-
C18 (wave 3) — property theorems, part C:

* the FFT circle: the exact length below which a wrapped sample reaches the output window, the
  margin the padding written in `_setup_kernel` leaves above it (for every grid size, kernel size
  and window offset);
* the three normalisations as exact sums over the kernel with `exp` a positive parameter: no
  division by zero, `l1 = l1sum`, gain of a constant / of the total intensity under each of them
  and for every `scale` / `location`, sharpness of the margin of the total-intensity clause;
* the exponent with `cov`: a quadratic form of the world displacement in units of sigma with
  matrix `cov⁻¹`.
-/
import NipyVerif.Props.C18B
import NipyVerif.Lemmas.C18C

namespace NipyVerif.C18

/-! ## The FFT circle -/

/-- **no wrapped sample reaches the output window** as soon as, on every axis, the window
    `[off, off + n)` lies on the circle and the circle has at least `needLen n k off = n + k - 1 - off`
    points: there the circular convolution of the zero-padded arrays is the plain convolution sum. -/
theorem window_no_wrap (n k P off : Sh) (x K : Img) (i0 i1 i2 : Nat)
    (h0 : i0 < n.n0) (h1 : i1 < n.n1) (h2 : i2 < n.n2)
    (w0 : off.n0 + n.n0 ≤ P.n0) (w1 : off.n1 + n.n1 ≤ P.n1) (w2 : off.n2 + n.n2 ≤ P.n2)
    (p0 : needLen n.n0 k.n0 off.n0 ≤ P.n0) (p1 : needLen n.n1 k.n1 off.n1 ≤ P.n1)
    (p2 : needLen n.n2 k.n2 off.n2 ≤ P.n2) :
    circConv P (pad n x) (pad k K) (i0 + off.n0) (i1 + off.n1) (i2 + off.n2) =
      sum3 n fun j0 j1 j2 => x j0 j1 j2 *
        kerZ k K ((i0 : Int) + off.n0 - j0) ((i1 : Int) + off.n1 - j1) ((i2 : Int) + off.n2 - j2) := by
  unfold needLen at p0 p1 p2
  rw [circ_eq_lin_window n k P off x K _ _ _ (by omega) (by omega) (by omega) (by omega) (by omega)
    (by omega) w0 w1 w2 (by omega) (by omega) (by omega)]
  simp only [Nat.cast_add]

/-- hence `smooth` computed on *any* such circle is the direct convolution `smoothLin` -/
theorem smooth_on_sufficient_circle (P : Sh) (F : Filter) (x : Img) (i0 i1 i2 : Nat)
    (h0 : i0 < F.bshape.n0) (h1 : i1 < F.bshape.n1) (h2 : i2 < F.bshape.n2)
    (w0 : F.off.n0 + F.bshape.n0 ≤ P.n0) (w1 : F.off.n1 + F.bshape.n1 ≤ P.n1)
    (w2 : F.off.n2 + F.bshape.n2 ≤ P.n2)
    (p0 : needLen F.bshape.n0 F.kshape.n0 F.off.n0 ≤ P.n0)
    (p1 : needLen F.bshape.n1 F.kshape.n1 F.off.n1 ≤ P.n1)
    (p2 : needLen F.bshape.n2 F.kshape.n2 F.off.n2 ≤ P.n2) :
    smoothCircOn P F x i0 i1 i2 = smoothLin F x i0 i1 i2 := by
  unfold smoothCircOn smoothLin linConv
  rw [window_no_wrap F.bshape F.kshape P F.off x F.ker i0 i1 i2 h0 h1 h2 w0 w1 w2 p0 p1 p2]

/-- the circle `_setup_kernel` chooses is one of them (`smoothCirc` is `smoothCircOn` on it) -/
theorem smoothCirc_is_on_padShape (F : Filter) (x : Img) :
    smoothCirc F x = smoothCircOn (padShape F.bshape F.kshape) F x := rfl

/-- **the bound is exact**: on a circle one point shorter than `needLen` (still long enough to hold
    the window and the kernel) there are an image and a kernel for which a wrapped sample lands on the
    first voxel of the output window — stated on the first axis, the other two of length one. -/
theorem window_wrap_sharp (n k P off : Nat) (hn : 0 < n) (hoff : off < k) (hk : k ≤ P)
    (hw : off + n ≤ P) (hv : P < needLen n k off) :
    ∃ x K : Img, circConv ⟨P, 1, 1⟩ (pad ⟨n, 1, 1⟩ x) (pad ⟨k, 1, 1⟩ K) off 0 0 ≠
      sum3 ⟨n, 1, 1⟩ fun j0 j1 j2 => x j0 j1 j2 *
        kerZ ⟨k, 1, 1⟩ K ((off : Int) - j0) ((0 : Int) - j1) ((0 : Int) - j2) := by
  unfold needLen at hv
  refine ⟨delta (n - 1) 0 0, delta (P + off + 1 - n) 0 0, ?_⟩
  rw [circConv_pad_left ⟨n, 1, 1⟩ ⟨P, 1, 1⟩ _ _ off 0 0 (by simp only; omega) (le_refl _) (le_refl _)]
  rw [sum3_delta ⟨n, 1, 1⟩ (n - 1) 0 0 (by simp only; omega) (by simp) (by simp)
    (fun a b c => pad ⟨k, 1, 1⟩ (delta (P + off + 1 - n) 0 0) (wrap P off a) (wrap 1 0 b) (wrap 1 0 c))]
  rw [sum3_delta ⟨n, 1, 1⟩ (n - 1) 0 0 (by simp only; omega) (by simp) (by simp)
    (fun j0 j1 j2 => kerZ ⟨k, 1, 1⟩ (delta (P + off + 1 - n) 0 0) ((off : Int) - j0) ((0 : Int) - j1)
      ((0 : Int) - j2))]
  have e1 : wrap P off (n - 1) = P + off + 1 - n := by
    unfold wrap
    have : off + P - (n - 1) = P + off + 1 - n := by omega
    rw [this, Nat.mod_eq_of_lt (by omega)]
  have e2 : wrap 1 0 0 = 0 := by decide
  rw [e1, e2]
  have l : pad ⟨k, 1, 1⟩ (delta (P + off + 1 - n) 0 0) (P + off + 1 - n) 0 0 = 1 := by
    unfold pad delta
    rw [if_pos ⟨by simp only; omega, by simp, by simp⟩, if_pos ⟨rfl, rfl, rfl⟩]
  have r : kerZ ⟨k, 1, 1⟩ (delta (P + off + 1 - n) 0 0) ((off : Int) - ((n - 1 : Nat) : Int))
      ((0 : Int) - ((0 : Nat) : Int)) ((0 : Int) - ((0 : Nat) : Int)) = 0 := by
    unfold kerZ delta
    split_ifs with h1 h2
    · exfalso; omega
    · rfl
    · rfl
  rw [l, r]
  exact one_ne_zero

/-- **the exact margin of the padding as written**: `2⌈(n+k)/2⌉+2` exceeds `needLen` by
    `3 + off + ((n + k) mod 2)` points, holds the window and holds the kernel — for every grid
    length, kernel length and window offset inside the kernel. -/
theorem pad_exact_margin (n k off : Nat) (hn : 0 < n) (hoff : off < k) :
    padLen n k = needLen n k off + (3 + off + (n + k) % 2) ∧ off + n ≤ padLen n k ∧ k ≤ padLen n k ∧
      padLen n k % 2 = 0 := by
  unfold padLen needLen; omega

/-- the same in terms of the model's `padSlack`, and the least value it takes -/
theorem padSlack_eq (n k off : Nat) (hn : 0 < n) (hoff : off < k) :
    padSlack n k off = 3 + off + (n + k) % 2 ∧ 3 ≤ padSlack n k off := by
  unfold padSlack padLen needLen; omega

/-! ## Normalisations: `exp` as a positive parameter -/

/-- the kernel is non-negative and at most one (for `E` positive and at most one on `[0, ∞)`) -/
theorem gaussKer_bounds (E : Rat → Rat) (hpos : ∀ q, 0 ≤ q → 0 < E q) (hle : ∀ q, 0 ≤ q → E q ≤ 1)
    (g : Geom) (bx : Box) (a b c : Nat) :
    0 ≤ gaussKer E g bx a b c ∧ gaussKer E g bx a b c ≤ 1 := by
  unfold gaussKer
  have hn := (exponent_centre_zero_nonneg g (bx.lo.n0 + a) (bx.lo.n1 + b) (bx.lo.n2 + c)).2
  simp only
  split_ifs
  · exact ⟨le_of_lt (hpos _ hn), hle _ hn⟩
  · exact ⟨le_refl _, zero_le_one⟩

/-- its value at the centre index `centre − lo` is `E 0` -/
theorem gaussKer_centre (E : Rat → Rat) (g : Geom) (bx : Box)
    (h0 : 0 < g.sh.n0) (h1 : 0 < g.sh.n1) (h2 : 0 < g.sh.n2) (hb : cropBox g.sh g.supp = some bx) :
    gaussKer E g bx (centreOff g.sh bx).n0 (centreOff g.sh bx).n1 (centreOff g.sh bx).n2 = E 0 := by
  obtain ⟨bx', e, a0, a1, a2⟩ := cropBox_contains_centre g h0 h1 h2
  rw [hb] at e; simp only [Option.some.injEq] at e; subst e
  unfold gaussKer centreOff
  have e0 : bx.lo.n0 + (centre g.sh.n0 - bx.lo.n0) = centre g.sh.n0 := by omega
  have e1 : bx.lo.n1 + (centre g.sh.n1 - bx.lo.n1) = centre g.sh.n1 := by omega
  have e2 : bx.lo.n2 + (centre g.sh.n2 - bx.lo.n2) = centre g.sh.n2 := by omega
  simp only [e0, e1, e2, (exponent_centre_zero_nonneg g 0 0 0).1]
  rw [if_pos (by norm_num)]

/-- for a non-negative kernel the `l1` norm is the `l1sum` norm -/
theorem l1_eq_l1sum (k : Sh) (K : Img) (hK : ∀ a b c, a < k.n0 → b < k.n1 → c < k.n2 → 0 ≤ K a b c) :
    l1Norm k K = kerSum k K := by
  unfold l1Norm kerSum
  apply sum3_congr
  intro a b c ha hb hc
  rw [if_neg (not_lt.mpr (hK a b c ha hb hc))]

/-- **none of the three norms can vanish**: with `E 0 = 1`, `0 < E ≤ 1`, the kernel `_setup_kernel`
    builds on a non-empty grid has `1 ≤ l2² ≤ l1sum = l1`. -/
theorem norms_ge_one (E : Rat → Rat) (hpos : ∀ q, 0 ≤ q → 0 < E q) (hle : ∀ q, 0 ≤ q → E q ≤ 1)
    (hE0 : E 0 = 1) (g : Geom) (bx : Box)
    (h0 : 0 < g.sh.n0) (h1 : 0 < g.sh.n1) (h2 : 0 < g.sh.n2) (hb : cropBox g.sh g.supp = some bx) :
    1 ≤ l2sq bx.k (gaussKer E g bx) ∧ l2sq bx.k (gaussKer E g bx) ≤ kerSum bx.k (gaussKer E g bx) ∧
      l1Norm bx.k (gaussKer E g bx) = kerSum bx.k (gaussKer E g bx) := by
  have hB := gaussKer_bounds E hpos hle g bx
  obtain ⟨bx', e, a0, a1, a2⟩ := cropBox_contains_centre g h0 h1 h2
  rw [hb] at e; simp only [Option.some.injEq] at e; subst e
  refine ⟨?_, ?_, l1_eq_l1sum _ _ fun a b c _ _ _ => (hB a b c).1⟩
  · have hc := gaussKer_centre E g bx h0 h1 h2 hb
    have := term_le_sum3 bx.k (fun a b c => gaussKer E g bx a b c * gaussKer E g bx a b c)
      (fun a b c _ _ _ => mul_self_nonneg _)
      (centreOff g.sh bx).n0 (centreOff g.sh bx).n1 (centreOff g.sh bx).n2
      (by simp only [centreOff]; omega) (by simp only [centreOff]; omega) (by simp only [centreOff]; omega)
    simp only [hc, hE0, mul_one] at this
    exact this
  · unfold l2sq kerSum
    apply sum3_le_sum3
    intro a b c _ _ _
    have := hB a b c
    nlinarith [this.1, this.2]

/-- … so `smooth` divides by a number that is at least one under every normalisation key
    (`root` = the square root NumPy returns for `l2`) -/
theorem smooth_norm_ge_one (E : Rat → Rat) (hpos : ∀ q, 0 ≤ q → 0 < E q) (hle : ∀ q, 0 ≤ q → E q ≤ 1)
    (hE0 : E 0 = 1) (g : Geom) (bx : Box)
    (h0 : 0 < g.sh.n0) (h1 : 0 < g.sh.n1) (h2 : 0 < g.sh.n2) (hb : cropBox g.sh g.supp = some bx)
    (root : Rat) (hr : 0 ≤ root) (hroot : root * root = l2sq bx.k (gaussKer E g bx)) (nk : NormKind)
    (hnk : ∀ v, nk = .given v → v = root) :
    1 ≤ normOf bx.k (gaussKer E g bx) nk := by
  obtain ⟨a, b, c⟩ := norms_ge_one E hpos hle hE0 g bx h0 h1 h2 hb
  cases nk with
  | l1sum => exact le_trans a b
  | l1 =>
    show 1 ≤ sum3 bx.k _
    have : l1Norm bx.k (gaussKer E g bx) = sum3 bx.k fun a b c =>
        if gaussKer E g bx a b c < 0 then -gaussKer E g bx a b c else gaussKer E g bx a b c := rfl
    rw [← this, c]; exact le_trans a b
  | given v =>
    rw [hnk v rfl]
    show 1 ≤ root
    by_contra hlt
    push Not at hlt
    have : root * root < 1 := by nlinarith
    rw [hroot] at this
    exact absurd a (not_le.mpr this)

/-! ### what each normalisation does to constants and to the total intensity -/

/-- at every voxel whose kernel footprint lies inside the grid a constant image `v` comes out as
    `scale · v · (l1sum / norm) + location`, whatever the normalisation -/
theorem smooth_constant_any_norm (F : Filter) (v : Rat) (hS0 : F.norm ≠ 0) (i0 i1 i2 : Nat)
    (hin : interior F i0 i1 i2) :
    smoothLin F (fun _ _ _ => v) i0 i1 i2 =
      F.scale * (v * (kerSum F.kshape F.ker / F.norm)) + F.loc := by
  obtain ⟨⟨a0, b0⟩, ⟨a1, b1⟩, ⟨a2, b2⟩⟩ := hin
  simp only [marginLo, marginHi] at a0 b0 a1 b1 a2 b2
  unfold smoothLin linConv
  rw [sum3_smul, sum3_kerZ F.bshape F.kshape F.ker
    (fun j => (i0 : Int) + F.off.n0 - j) (fun j => (i1 : Int) + F.off.n1 - j)
    (fun j => (i2 : Int) + F.off.n2 - j)
    (fun j j' h => by omega) (fun j j' h => by omega)
    (fun j j' h => by omega)
    (fun b hb => ⟨i0 + F.off.n0 - b, by omega, by omega⟩)
    (fun b hb => ⟨i1 + F.off.n1 - b, by omega, by omega⟩)
    (fun b hb => ⟨i2 + F.off.n2 - b, by omega, by omega⟩)]
  field_simp

/-- `l1` behaves as `l1sum` on the (non-negative) Gaussian kernel: constants stay constant -/
theorem smooth_constant_l1 (F : Filter) (v : Rat)
    (hK : ∀ a b c, a < F.kshape.n0 → b < F.kshape.n1 → c < F.kshape.n2 → 0 ≤ F.ker a b c)
    (hS : F.norm = l1Norm F.kshape F.ker) (hS0 : F.norm ≠ 0) (i0 i1 i2 : Nat)
    (hin : interior F i0 i1 i2) :
    smoothLin F (fun _ _ _ => v) i0 i1 i2 = F.scale * v + F.loc := by
  rw [smooth_constant_any_norm F v hS0 i0 i1 i2 hin]
  rw [l1_eq_l1sum F.kshape F.ker hK] at hS
  rw [← hS, div_self hS0, mul_one]

/-- under `l2` a constant is multiplied by `l1sum / l2 ≥ 1` instead (as built: the `l2` key does not
    preserve constants unless the kernel is a single voxel) -/
theorem smooth_constant_l2_gain (F : Filter) (v : Rat)
    (hK : ∀ a b c, a < F.kshape.n0 → b < F.kshape.n1 → c < F.kshape.n2 → 0 ≤ F.ker a b c ∧ F.ker a b c ≤ 1)
    (hr : 0 < F.norm) (hroot : F.norm * F.norm = l2sq F.kshape F.ker) (h1 : 1 ≤ F.norm)
    (i0 i1 i2 : Nat) (hin : interior F i0 i1 i2) :
    smoothLin F (fun _ _ _ => v) i0 i1 i2 = F.scale * (v * (kerSum F.kshape F.ker / F.norm)) + F.loc ∧
      1 ≤ kerSum F.kshape F.ker / F.norm := by
  refine ⟨smooth_constant_any_norm F v (ne_of_gt hr) i0 i1 i2 hin, ?_⟩
  rw [le_div_iff₀ hr, one_mul]
  have : l2sq F.kshape F.ker ≤ kerSum F.kshape F.ker := by
    unfold l2sq kerSum
    apply sum3_le_sum3
    intro a b c ha hb hc
    have := hK a b c ha hb hc
    nlinarith [this.1, this.2]
  nlinarith

/-- **total intensity, every setting**: for content away from the borders (`contentInterior`) the sum
    of the result is `scale · (l1sum / norm) · Σ input + location · (number of voxels)`. -/
theorem smooth_mass_general (F : Filter) (x : Img) (hS0 : F.norm ≠ 0)
    (hint : ∀ j0 j1 j2, j0 < F.bshape.n0 → j1 < F.bshape.n1 → j2 < F.bshape.n2 → x j0 j1 j2 ≠ 0 →
      contentInterior F j0 j1 j2) :
    sum3 F.bshape (smoothLin F x) =
      F.scale * (kerSum F.kshape F.ker / F.norm) * sum3 F.bshape x + F.loc * (F.bshape.size : Rat) := by
  have e2 : sum3 F.bshape (linConv F x) = kerSum F.kshape F.ker * sum3 F.bshape x := by
    unfold linConv
    rw [sum3_comm, ← sum3_smul]
    apply sum3_congr
    intro j0 j1 j2 h0 h1 h2
    rw [sum3_smul]
    by_cases hx : x j0 j1 j2 = 0
    · rw [hx]; ring
    · obtain ⟨⟨a0, b0⟩, ⟨a1, b1⟩, ⟨a2, b2⟩⟩ := hint j0 j1 j2 h0 h1 h2 hx
      simp only [marginLo, marginHi] at a0 b0 a1 b1 a2 b2
      rw [sum3_kerZ F.bshape F.kshape F.ker
        (fun i => (i : Int) + F.off.n0 - j0) (fun i => (i : Int) + F.off.n1 - j1)
        (fun i => (i : Int) + F.off.n2 - j2)
        (fun j j' h => by omega) (fun j j' h => by omega)
        (fun j j' h => by omega)
        (fun b hb => ⟨j0 + b - F.off.n0, by omega, by omega⟩)
        (fun b hb => ⟨j1 + b - F.off.n1, by omega, by omega⟩)
        (fun b hb => ⟨j2 + b - F.off.n2, by omega, by omega⟩)]
      ring
  have e1 : sum3 F.bshape (smoothLin F x) =
      F.scale / F.norm * sum3 F.bshape (linConv F x) + F.loc * (F.bshape.size : Rat) := by
    have : smoothLin F x = fun a b c => (F.scale / F.norm) * linConv F x a b c + F.loc * 1 := by
      funext a b c; unfold smoothLin; ring
    rw [this, sum3_add, sum3_smul, sum3_smul]
    congr 2
    simp [sum3_eq, Sh.size, Nat.cast_mul]
    ring
  rw [e1, e2]
  field_simp

/-- **the margin of the total-intensity clause is sharp**: for a non-negative kernel with a positive
    entry on each of its six faces (`crop_box_tight`), a unit impulse at a voxel that is *not* at
    least the margins away from the borders loses intensity (`l1sum`, `scale = 1`, `location = 0`):
    there the clause does not apply, and that is no violation. -/
theorem mass_margin_sharp (F : Filter)
    (hS : F.norm = kerSum F.kshape F.ker) (hS0 : 0 < F.norm) (hsc : F.scale = 1) (hloc : F.loc = 0)
    (hK : ∀ a b c, a < F.kshape.n0 → b < F.kshape.n1 → c < F.kshape.n2 → 0 ≤ F.ker a b c)
    (ho : F.off.n0 < F.kshape.n0 ∧ F.off.n1 < F.kshape.n1 ∧ F.off.n2 < F.kshape.n2)
    (f0 : ∃ b c, b < F.kshape.n1 ∧ c < F.kshape.n2 ∧ 0 < F.ker 0 b c)
    (g0 : ∃ b c, b < F.kshape.n1 ∧ c < F.kshape.n2 ∧ 0 < F.ker (F.kshape.n0 - 1) b c)
    (f1 : ∃ a c, a < F.kshape.n0 ∧ c < F.kshape.n2 ∧ 0 < F.ker a 0 c)
    (g1 : ∃ a c, a < F.kshape.n0 ∧ c < F.kshape.n2 ∧ 0 < F.ker a (F.kshape.n1 - 1) c)
    (f2 : ∃ a b, a < F.kshape.n0 ∧ b < F.kshape.n1 ∧ 0 < F.ker a b 0)
    (g2 : ∃ a b, a < F.kshape.n0 ∧ b < F.kshape.n1 ∧ 0 < F.ker a b (F.kshape.n2 - 1))
    (j0 j1 j2 : Nat) (hj0 : j0 < F.bshape.n0) (hj1 : j1 < F.bshape.n1) (hj2 : j2 < F.bshape.n2)
    (hnot : ¬ contentInterior F j0 j1 j2) :
    sum3 F.bshape (smoothLin F (delta j0 j1 j2)) < 1 := by
  -- Σ_i out[i] = (Σ_i kerZ (i + off − j)) / norm; reflect `i` to bring it to the masked form
  have e1 : sum3 F.bshape (smoothLin F (delta j0 j1 j2)) =
      sum3 F.bshape (fun (i0 i1 i2 : Nat) => kerZ F.kshape F.ker ((i0 : Int) + F.off.n0 - j0)
        ((i1 : Int) + F.off.n1 - j1) ((i2 : Int) + F.off.n2 - j2)) / F.norm := by
    have : smoothLin F (delta j0 j1 j2) = fun (i0 i1 i2 : Nat) => (1 / F.norm) *
        kerZ F.kshape F.ker ((i0 : Int) + F.off.n0 - j0) ((i1 : Int) + F.off.n1 - j1)
          ((i2 : Int) + F.off.n2 - j2) := by
      funext i0 i1 i2
      rw [impulse_response F j0 j1 j2 hj0 hj1 hj2, hsc, hloc]; ring
    rw [this, sum3_smul]; ring
  have e2 : sum3 F.bshape (fun (i0 i1 i2 : Nat) => kerZ F.kshape F.ker ((i0 : Int) + F.off.n0 - j0)
        ((i1 : Int) + F.off.n1 - j1) ((i2 : Int) + F.off.n2 - j2)) =
      sum3 F.bshape (fun (a b c : Nat) => kerZ F.kshape F.ker
        (((F.bshape.n0 - 1 + F.off.n0 - j0 : Nat) : Int) - a)
        (((F.bshape.n1 - 1 + F.off.n1 - j1 : Nat) : Int) - b)
        (((F.bshape.n2 - 1 + F.off.n2 - j2 : Nat) : Int) - c)) := by
    rw [sum3_reflect]
    apply sum3_congr
    intro a b c ha hb hc
    congr 1 <;> omega
  have key : sum3 F.bshape (fun (i0 i1 i2 : Nat) => kerZ F.kshape F.ker ((i0 : Int) + F.off.n0 - j0)
        ((i1 : Int) + F.off.n1 - j1) ((i2 : Int) + F.off.n2 - j2)) < F.norm := by
    rw [e2, sum3_kerZ_masked, hS]
    unfold kerSum
    simp only [contentInterior, marginLo, marginHi, not_and_or, not_le, not_lt] at hnot
    rcases hnot with (h | h) | (h | h) | (h | h)
    · obtain ⟨b, c, hb, hc, hp⟩ := f0
      exact sum3_masked_lt _ _ _ hK 0 b c (by omega) hb hc
        (fun hc' => by have := hc'.1; unfold covered at this; omega) hp
    · obtain ⟨b, c, hb, hc, hp⟩ := g0
      exact sum3_masked_lt _ _ _ hK (F.kshape.n0 - 1) b c (by omega) hb hc
        (fun hc' => by have := hc'.1; unfold covered at this; omega) hp
    · obtain ⟨a, c, ha, hc, hp⟩ := f1
      exact sum3_masked_lt _ _ _ hK a 0 c ha (by omega) hc
        (fun hc' => by have := hc'.2.1; unfold covered at this; omega) hp
    · obtain ⟨a, c, ha, hc, hp⟩ := g1
      exact sum3_masked_lt _ _ _ hK a (F.kshape.n1 - 1) c ha (by omega) hc
        (fun hc' => by have := hc'.2.1; unfold covered at this; omega) hp
    · obtain ⟨a, b, ha, hb, hp⟩ := f2
      exact sum3_masked_lt _ _ _ hK a b 0 ha hb (by omega)
        (fun hc' => by have := hc'.2.2; unfold covered at this; omega) hp
    · obtain ⟨a, b, ha, hb, hp⟩ := g2
      exact sum3_masked_lt _ _ _ hK a b (F.kshape.n2 - 1) ha hb (by omega)
        (fun hc' => by have := hc'.2.2; unfold covered at this; omega) hp
  rw [e1, div_lt_one hS0]
  exact key

/-! ## The impulse response is the world-unit Gaussian, end to end -/

/-- **the property's central clause for the filter `_setup_kernel` builds**: for any affine (anisotropic,
    flipped, oblique), any per-axis sigma, any whitening, the response to a unit impulse at voxel `p`,
    read at voxel `i = p + d`, is `scale · G(A·d) / norm + location`, where `A·d` is the *world*
    displacement and `G(w) = E(½ |W·(w/σ)|²)` inside the cut-off (`E q = exp(−q)`), zero beyond — for every
    displacement `d` that the cropped kernel holds.  No spatial offset: `d = 0` gives the peak `E 0`. -/
theorem impulse_response_world_gaussian (E : Rat → Rat) (g : Geom) (bx : Box) (nk : NormKind) (sc lo : Rat)
    (h0 : 0 < g.sh.n0) (h1 : 0 < g.sh.n1) (h2 : 0 < g.sh.n2) (hb : cropBox g.sh g.supp = some bx)
    (p0 p1 p2 i0 i1 i2 : Nat) (hp0 : p0 < g.sh.n0) (hp1 : p1 < g.sh.n1) (hp2 : p2 < g.sh.n2)
    (d0 d1 d2 : Int) (e0 : (i0 : Int) = p0 + d0) (e1 : (i1 : Int) = p1 + d1) (e2 : (i2 : Int) = p2 + d2)
    (a0 a1 a2 : Nat) (ha0 : (a0 : Int) = (centreOff g.sh bx).n0 + d0) (ha1 : (a1 : Int) = (centreOff g.sh bx).n1 + d1)
    (ha2 : (a2 : Int) = (centreOff g.sh bx).n2 + d2) (l0 : a0 < bx.k.n0) (l1 : a1 < bx.k.n1) (l2 : a2 < bx.k.n2) :
    smoothLin (mkFilter g bx (gaussKer E g bx) nk sc lo) (delta p0 p1 p2) i0 i1 i2 =
      sc * ((if worldExp g.sig g.wh (g.lin.mulVec (voxI d0 d1 d2)) ≤ 15
              then E (worldExp g.sig g.wh (g.lin.mulVec (voxI d0 d1 d2))) else 0) /
            normOf bx.k (gaussKer E g bx) nk) + lo := by
  obtain ⟨bx', e, c0, c1, c2⟩ := cropBox_contains_centre g h0 h1 h2
  rw [hb] at e; simp only [Option.some.injEq] at e; subst e
  have hF := impulse_response_centred (mkFilter g bx (gaussKer E g bx) nk sc lo) (centreOff g.sh bx) rfl
    p0 p1 p2 hp0 hp1 hp2 i0 i1 i2 d0 d1 d2 e0 e1 e2
  rw [hF]
  show sc * (kerZ bx.k (gaussKer E g bx) _ _ _ / normOf bx.k (gaussKer E g bx) nk) + lo = _
  rw [← ha0, ← ha1, ← ha2, kerZ_cast bx.k _ a0 a1 a2 l0 l1 l2]
  have hx : g.e (bx.lo.n0 + a0) (bx.lo.n1 + a1) (bx.lo.n2 + a2) =
      worldExp g.sig g.wh (g.lin.mulVec (voxI d0 d1 d2)) := by
    rw [exponent_is_world_function]
    congr 2
    simp only [centreOff] at ha0 ha1 ha2
    have q0 : ((bx.lo.n0 + a0 : Nat) : Int) = (centre g.sh.n0 : Int) + d0 := by omega
    have q1 : ((bx.lo.n1 + a1 : Nat) : Int) = (centre g.sh.n1 : Int) + d1 := by omega
    have q2 : ((bx.lo.n2 + a2 : Nat) : Int) = (centre g.sh.n2 : Int) + d2 := by omega
    have r0 := congrArg (Int.cast : Int → Rat) q0
    have r1 := congrArg (Int.cast : Int → Rat) q1
    have r2 := congrArg (Int.cast : Int → Rat) q2
    simp only [Int.cast_add, Int.cast_natCast] at r0 r1 r2
    simp only [vox, voxI, V3.sub, V3.mk.injEq]
    refine ⟨by linarith, by linarith, by linarith⟩
  unfold gaussKer
  simp only [hx]

/-! ## `cov`: the exponent is a quadratic form in world units -/

/-- `uᵀ M u` -/
def quadForm (M : M3) (u : V3) : Rat := u.dot (M.mulVec u)

/-- with whitening `W` the exponent is `½ uᵀ (WᵀW) u` for `u` = world displacement in units of
    sigma, along each world axis -/
theorem exponent_cov_quadratic (sig : V3) (W : M3) (X : V3) :
    halfNormSq sig W X =
      quadForm (W.transpose.mul W) ⟨X.x / sig.x, X.y / sig.y, X.z / sig.z⟩ / 2 := by
  simp only [halfNormSq, quadForm, M3.mul, M3.transpose, M3.mulVec, V3.dot]
  ring

/-- and `WᵀW` is the inverse of `cov` whenever `W` is the two-sided inverse of a factor `L` with
    `L Lᵀ = cov` (the contract of `inv(cholesky(cov))`): the kernel is the Gaussian with covariance
    `diag(σ) · cov · diag(σ)` in world units. -/
theorem whitening_is_inverse_cov (W L cov : M3) (hWL : W.mul L = M3.one) (hLW : L.mul W = M3.one)
    (hL : L.mul L.transpose = cov) :
    (W.transpose.mul W).mul cov = M3.one ∧ cov.mul (W.transpose.mul W) = M3.one := by
  have t1 : L.transpose.mul W.transpose = M3.one := by
    rw [← M3.transpose_mul, hWL, M3.transpose_one]
  have t2 : W.transpose.mul L.transpose = M3.one := by
    rw [← M3.transpose_mul, hLW, M3.transpose_one]
  subst hL
  constructor
  · rw [M3.mul_assoc, ← M3.mul_assoc W L, hWL, M3.one_mul, t2]
  · rw [M3.mul_assoc, ← M3.mul_assoc L.transpose, t1, M3.one_mul, hLW]

/-- `cov = 1` (identity whitening) gives back the plain kernel -/
theorem exponent_cov_identity (sig X : V3) :
    halfNormSq sig M3.one X = ((X.x / sig.x) ^ 2 + (X.y / sig.y) ^ 2 + (X.z / sig.z) ^ 2) / 2 := by
  simp only [halfNormSq, M3.one, M3.mulVec, V3.dot]; ring

/-- scaling `cov` by `t²` (its Cholesky inverse by `1/t`) is scaling every sigma by `t`:
    `cov` acts as a further width in world units -/
theorem cov_scale_is_sigma_scale (sig : V3) (W : M3) (X : V3) (t : Rat) (ht : t ≠ 0) :
    halfNormSq sig ⟨⟨W.r0.x / t, W.r0.y / t, W.r0.z / t⟩, ⟨W.r1.x / t, W.r1.y / t, W.r1.z / t⟩,
        ⟨W.r2.x / t, W.r2.y / t, W.r2.z / t⟩⟩ X =
      halfNormSq ⟨t * sig.x, t * sig.y, t * sig.z⟩ W X := by
  simp only [halfNormSq, M3.mulVec, V3.dot]
  by_cases hx : sig.x = 0 <;> by_cases hy : sig.y = 0 <;> by_cases hz : sig.z = 0 <;>
    simp [hx, hy, hz] <;> field_simp

/-! ## Non-vacuity -/

-- `window_no_wrap` / `window_wrap_sharp`: grid 4, kernel 3, centre index 1 → `needLen = 5`;
-- on a circle of 5 the window is clean, on a circle of 4 the first window voxel is polluted
example : needLen 4 3 1 = 5 ∧ padLen 4 3 = 10 ∧ padSlack 4 3 1 = 5 := by decide
example : circConv ⟨4, 1, 1⟩ (pad ⟨4, 1, 1⟩ (delta 3 0 0)) (pad ⟨3, 1, 1⟩ (delta 2 0 0)) 1 0 0 = 1 ∧
    circConv ⟨5, 1, 1⟩ (pad ⟨4, 1, 1⟩ (delta 3 0 0)) (pad ⟨3, 1, 1⟩ (delta 2 0 0)) 1 0 0 = 0 := by
  decide +kernel
-- hypotheses of `norms_ge_one`: `E q = 1 / (1 + q)` is positive, at most one, and one at zero
example : (fun q : Rat => 1 / (1 + q)) 0 = 1 ∧ ∀ q : Rat, 0 ≤ q → 0 < 1 / (1 + q) ∧ 1 / (1 + q) ≤ 1 := by
  refine ⟨by norm_num, fun q hq => ⟨by positivity, ?_⟩⟩
  rw [div_le_one (by linarith)]; linarith
-- hypotheses of `mass_margin_sharp` / `smooth_mass_general` on the one-axis filter of Props/C18:
-- content voxel 2 is not `marginHi = 3` away from the low border
example : ¬ contentInterior exFixed 2 0 0 ∧ contentInterior exFixed 3 0 0 := by
  simp [contentInterior, marginLo, marginHi, exFixed, exFound, centre]
example : sum3 exFixed.bshape (smoothLin exFixed (delta 2 0 0)) = 43/45 ∧
    sum3 exFixed.bshape (smoothLin exFixed (delta 3 0 0)) = 1 := by decide +kernel
-- hypotheses of `impulse_response_world_gaussian`: 4×4×1 grid, unit voxels, σ = 1 (crop box = the whole grid,
-- centre index (1,1,0)); impulse at (1,1,0) read one voxel to the right: world displacement (1,0,0), exponent 1/2
example := impulse_response_world_gaussian (fun q => 1 / (1 + q)) (Geom.mk ⟨4, 4, 1⟩ M3.one ⟨0, 0, 0⟩ ⟨1, 1, 1⟩ M3.one)
    ⟨⟨0, 0, 0⟩, ⟨4, 4, 1⟩⟩ .l1sum 1 0 (by decide) (by decide) (by decide) (by decide +kernel)
    1 1 0 2 1 0 (by decide) (by decide) (by decide) 1 0 0 (by decide) (by decide) (by decide)
    2 1 0 (by decide) (by decide) (by decide) (by decide) (by decide) (by decide)
example : worldExp ⟨1, 1, 1⟩ M3.one (M3.one.mulVec (voxI 1 0 0)) = 1 / 2 := by decide +kernel
-- hypotheses of `whitening_is_inverse_cov`: cov = [[4,2,0],[2,2,0],[0,0,1]] = L Lᵀ, L = [[2,0,0],[1,1,0],[0,0,1]]
example : (⟨⟨1/2, 0, 0⟩, ⟨-1/2, 1, 0⟩, ⟨0, 0, 1⟩⟩ : M3).mul ⟨⟨2, 0, 0⟩, ⟨1, 1, 0⟩, ⟨0, 0, 1⟩⟩ = M3.one ∧
    (⟨⟨2, 0, 0⟩, ⟨1, 1, 0⟩, ⟨0, 0, 1⟩⟩ : M3).mul (M3.transpose ⟨⟨2, 0, 0⟩, ⟨1, 1, 0⟩, ⟨0, 0, 1⟩⟩) =
      ⟨⟨4, 2, 0⟩, ⟨2, 2, 0⟩, ⟨0, 0, 1⟩⟩ := by
  unfold M3.mul M3.one M3.transpose; norm_num

end NipyVerif.C18
