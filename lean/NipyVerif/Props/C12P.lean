/-
C12 (part P) — clause "upward propagation follows its documented rule":
`propagate_upward_and` and `propagate_upward` on every forest, whatever the numbering of the nodes.
-/
import NipyVerif.Lemmas.C12P

namespace NipyVerif.C12

/-- **`propagate_upward_and`**: after the `tree_depth()` passes the method makes, a node is `False`
    exactly when some leaf at or below it has a `False` property — so a leaf keeps its own value and
    every other node is the logical and of its children (`prop[parents] = logical_and(prop[children])`),
    whatever the numbering of the nodes (the passes run in index order, not leaves first). -/
theorem propagate_upward_and_rule (V : Nat) (p : Nat → Nat) (hr : InRange V p) (hc : check V p = true)
    (prop : List Bool) (v : Nat) (hv : v < V) :
    let out := fun w => (propagateAnd V p prop).getD w true
    (out v = false ↔ FalseLeafBelow V p (fun u => prop.getD u false) v) ∧
      (isLeaf V p v = true → out v = prop.getD v false) ∧
      (isLeaf V p v = false → out v = (children V p v).all out) := by
  intro out
  have hchar : ∀ w < V, (out w = false ↔ FalseLeafBelow V p (fun u => prop.getD u false) w) := by
    intro w hw
    show (propagateAnd V p prop).getD w true = false ↔ _
    rw [propagateAnd_eq V p hr prop w]
    exact andPass_char V p hr hc _ w hw
  -- a false leaf strictly below `w` passes through a child of `w`
  have hchild : ∀ w < V, ∀ u < V, ∀ k, p^[k] u = w → u ≠ w →
      ∃ c ∈ children V p w, ∃ m, p^[m] u = c := by
    intro w _ u hu k hk hne
    obtain ⟨m, _, hm, hprop⟩ := first_hit p u w k hk
    cases m with
    | zero => exact absurd hm hne
    | succ m =>
      have hin : ∀ j, p^[j] u < V := by
        intro j; induction j with
        | zero => exact hu
        | succ j ih => rw [Function.iterate_succ_apply']; exact hr _ ih
      refine ⟨p^[m] u, ?_, m, rfl⟩
      rw [children_parents_consistent]
      refine ⟨hin m, by rw [← hm, Function.iterate_succ_apply'], ?_⟩
      have := hprop m (Nat.lt_succ_self _)
      rw [hm] at this
      exact fun e => this e.symm
  refine ⟨hchar v hv, fun hl => ?_, fun hl => ?_⟩
  · -- a leaf: only itself is at or below it
    have hiff : out v = false ↔ prop.getD v false = false := by
      rw [hchar v hv]
      constructor
      · rintro ⟨u, hu, _, hp, k, hk⟩
        by_cases huv : u = v
        · rw [← huv]; exact hp
        · obtain ⟨c, hcm, _⟩ := hchild v hv u hu k hk huv
          rw [(isLeaf_iff_no_children V p v).1 hl] at hcm; cases hcm
      · intro hp; exact ⟨v, hv, hl, hp, 0, rfl⟩
    cases h1 : out v <;> cases h2 : prop.getD v false <;> simp_all
  · have hiff : out v = false ↔ ∃ c ∈ children V p v, out c = false := by
      rw [hchar v hv]
      constructor
      · rintro ⟨u, hu, hlu, hp, k, hk⟩
        have huv : u ≠ v := by rintro rfl; rw [hl] at hlu; cases hlu
        obtain ⟨c, hcm, m, hm⟩ := hchild v hv u hu k hk huv
        have hcV := ((children_parents_consistent V p v c).1 hcm).1
        exact ⟨c, hcm, (hchar c hcV).2 ⟨u, hu, hlu, hp, m, hm⟩⟩
      · rintro ⟨c, hcm, hc'⟩
        obtain ⟨hcV, hpc, _⟩ := (children_parents_consistent V p v c).1 hcm
        obtain ⟨u, hu, hlu, hp, k, hk⟩ := (hchar c hcV).1 hc'
        exact ⟨u, hu, hlu, hp, k + 1, by rw [Function.iterate_succ_apply', hk, hpc]⟩
    cases h1 : out v
    · obtain ⟨c, hcm, hc'⟩ := hiff.1 h1
      symm
      rw [List.all_eq_false]
      exact ⟨c, hcm, by simp [hc']⟩
    · symm
      rw [List.all_eq_true]
      intro c hcm
      by_contra hne
      have : out c = false := by simpa using hne
      have := hiff.2 ⟨c, hcm, this⟩
      rw [h1] at this; cases this

/-- the result has one flag per node -/
theorem propagate_upward_and_length (V : Nat) (p : Nat → Nat) (prop : List Bool) :
    (propagateAnd V p prop).length = V := by
  have hsz : ∀ (l : List Nat) (q : Array Bool),
      (l.foldl (fun q i => if q.getD i true == false then q.setIfInBounds (p i) false else q) q).size =
        q.size := by
    intro l
    induction l with
    | nil => intro q; rfl
    | cons a t ih =>
      intro q
      rw [List.foldl_cons, ih]
      split
      · exact Array.size_setIfInBounds
      · rfl
  unfold propagateAnd
  simp only [Array.length_toList, iter_eq_iterate]
  generalize (lmax (depthFromLeaves V p) + 1).toNat = n
  induction n with
  | zero => simp
  | succ n ih => rw [Function.iterate_succ_apply', hsz, ih]

/-- **`propagate_upward`**: on every forest, in the array returned every node carries the common
    label of its children when the children (in the RESULT) agree on one label, and its own input
    label otherwise — leaves, having no child, keep theirs.  The method walks the levels
    `1..depth.max()` of `depth_from_leaves`; that these are the heights (`depth_from_leaves_is_height`)
    is what makes every child final before its parent is visited. -/
theorem propagate_upward_rule (V : Nat) (p : Nat → Nat) (hr : InRange V p) (hc : check V p = true)
    (label : List Int) (hl : label.length = V) (v : Nat) (hv : v < V) :
    let out := fun w => (propagateUp V p label).getD w 0
    out v = (match dedup ((children V p v).map out) with
      | [x] => x
      | _ => label.getD v 0) :=
  propagateUp_rule V p hr hc label hl v hv

/-- **`tree_depth()`** on every object a history can reach (a forest): one more than the greatest
    height — the number of levels, and the number of passes `propagate_upward_and` makes. -/
theorem tree_depth_is_max_height_plus_one {s : FState} (hc : Coherent s)
    (hf : check s.V (fnOf s.parents) = true) (hV : 0 < s.V) :
    ∃ v < s.V, (stepF false s .treeDepth).2 = .nat (height s.V (fnOf s.parents) v + 1) ∧
      ∀ w < s.V, height s.V (fnOf s.parents) w ≤ height s.V (fnOf s.parents) v := by
  have hd := depth_from_leaves_is_height s.V (fnOf s.parents) hc.inRange hf
  have hne : depthFromLeaves s.V (fnOf s.parents) ≠ [] := by
    rw [hd]; intro e
    have := congrArg List.length e
    simp at this; omega
  have hmem := lmax_mem _ hne
  rw [hd] at hmem
  obtain ⟨v, hv, hveq⟩ := List.mem_map.1 hmem
  have hv := List.mem_range.1 hv
  refine ⟨v, hv, ?_, fun w hw => ?_⟩
  · rw [step_answers_current_parents hc]
    show Obs.nat ((lmax (depthFromLeaves s.V (fnOf s.parents)) + 1).toNat) = _
    rw [hd, ← hveq]
    congr 1
  · have := lmax_ge (depthFromLeaves s.V (fnOf s.parents)) (height s.V (fnOf s.parents) w : Int) (by
      rw [hd]; exact List.mem_map.2 ⟨w, List.mem_range.2 hw, rfl⟩)
    rw [hd, ← hveq] at this
    exact_mod_cast this

/-- non-vacuity: two leaves with the same label below node 1, a third with another label below the
    root -/
example : propagateUp 4 (fnOf [0, 0, 1, 1]) [5, 6, 7, 7] = [7, 7, 7, 7] ∧
    propagateUp 4 (fnOf [0, 0, 1, 0]) [5, 6, 7, 8] = [5, 7, 7, 8] := by
  decide +kernel

/-- non-vacuity: the chain `2 → 1 → 0` with a branch `3 → 1`, leaves 2 (true) and 3 (false) -/
example : propagateAnd 4 (fnOf [0, 0, 1, 1]) [true, true, true, false] = [false, false, true, false] := by
  decide +kernel

end NipyVerif.C12
