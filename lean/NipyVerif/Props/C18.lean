/-
C18 — property theorems about the model in `NipyVerif.Model.C18`
(`LinearFilter._setup_kernel`, `LinearFilter.smooth`, `fwhm2sigma`/`sigma2fwhm`).
Only property statements and their non-vacuity examples live here.
-/
import NipyVerif.Lemmas.C18

namespace NipyVerif.C18

/-! ## `smooth` is a direct convolution: the padded FFT grid is long enough -/

/-- On a circle with at least `n + k` points the circular convolution of the zero-padded
    image (`n` points per axis) and kernel (`k` points per axis) is the plain convolution
    sum: nothing wraps around.  (3D, all three axes at once.) -/
theorem circular_eq_linear (n k P : Sh) (x K : Img) (t0 t1 t2 : Nat)
    (hP0 : n.n0 + k.n0 ≤ P.n0) (hP1 : n.n1 + k.n1 ≤ P.n1) (hP2 : n.n2 + k.n2 ≤ P.n2)
    (ht0 : t0 < P.n0) (ht1 : t1 < P.n1) (ht2 : t2 < P.n2) :
    circConv P (pad n x) (pad k K) t0 t1 t2 =
      sum3 n fun j0 j1 j2 => x j0 j1 j2 *
        kerZ k K ((t0 : Int) - j0) ((t1 : Int) - j1) ((t2 : Int) - j2) :=
  circ_eq_lin n k P x K t0 t1 t2 hP0 hP1 hP2 ht0 ht1 ht2

/-- the FFT shape `2⌈(n+k)/2⌉+2` chosen by `_setup_kernel` is long enough -/
theorem padded_shape_sufficient (n k : Nat) : n + k + 2 ≤ padLen n k := padLen_ge n k

/-- `smooth` (pad, FFT product, normalise, scale, locate, cut the window at `off`) equals direct
    convolution with the kernel: `out[i] = scale · (Σ_j in[j]·K[i − j + off]) / norm + location`,
    for every voxel of the grid and every window offset inside the kernel. -/
theorem smooth_is_convolution (F : Filter) (x : Img) (i0 i1 i2 : Nat)
    (h0 : i0 < F.bshape.n0) (h1 : i1 < F.bshape.n1) (h2 : i2 < F.bshape.n2)
    (o0 : F.off.n0 ≤ F.kshape.n0) (o1 : F.off.n1 ≤ F.kshape.n1) (o2 : F.off.n2 ≤ F.kshape.n2) :
    smoothCirc F x i0 i1 i2 = smoothLin F x i0 i1 i2 := by
  have p0 := padLen_ge F.bshape.n0 F.kshape.n0
  have p1 := padLen_ge F.bshape.n1 F.kshape.n1
  have p2 := padLen_ge F.bshape.n2 F.kshape.n2
  unfold smoothCirc smoothLin linConv
  rw [circ_eq_lin F.bshape F.kshape (padShape F.bshape F.kshape) x F.ker _ _ _
    (by show _ ≤ padLen _ _; omega) (by show _ ≤ padLen _ _; omega) (by show _ ≤ padLen _ _; omega)
    (by show _ < padLen _ _; omega) (by show _ < padLen _ _; omega) (by show _ < padLen _ _; omega)]
  simp only [Nat.cast_add]

/-! ## Linearity, scale and location -/

/-- `smooth` is linear in the image (affine when `location ≠ 0`), at every voxel of the
    padded buffer — no hypothesis. -/
theorem smooth_linear (F : Filter) (x y : Img) (a b : Rat) (i0 i1 i2 : Nat) :
    smoothCirc F (fun u v w => a * x u v w + b * y u v w) i0 i1 i2 =
      a * (smoothCirc F x i0 i1 i2 - F.loc) + b * (smoothCirc F y i0 i1 i2 - F.loc) + F.loc := by
  unfold smoothCirc circConv
  have key : ∀ (P : Sh) (k : Img) (t0 t1 t2 : Nat),
      sum3 P (fun a' b' c' => pad F.bshape (fun u v w => a * x u v w + b * y u v w) a' b' c' *
          k (wrap P.n0 t0 a') (wrap P.n1 t1 b') (wrap P.n2 t2 c')) =
        a * sum3 P (fun a' b' c' => pad F.bshape x a' b' c' *
          k (wrap P.n0 t0 a') (wrap P.n1 t1 b') (wrap P.n2 t2 c')) +
        b * sum3 P (fun a' b' c' => pad F.bshape y a' b' c' *
          k (wrap P.n0 t0 a') (wrap P.n1 t1 b') (wrap P.n2 t2 c')) := by
    intro P k t0 t1 t2
    rw [← sum3_smul, ← sum3_smul, ← sum3_add]
    apply sum3_congr
    intro a' b' c' _ _ _
    unfold pad
    split_ifs <;> ring
  rw [key]
  ring

/-- the `scale` and `location` options act as an affine change of the output values -/
theorem scale_location_affine (F : Filter) (x : Img) (i0 i1 i2 : Nat) :
    smoothCirc F x i0 i1 i2 =
      F.scale * smoothCirc { F with scale := 1, loc := 0 } x i0 i1 i2 + F.loc := by
  unfold smoothCirc
  simp

/-! ## Impulse response, centring -/

/-- the response to a unit impulse at `p` is the (zero-extended, normalised) kernel:
    `out[i] = scale · K[i − p + off] / norm + location`. -/
theorem impulse_response (F : Filter) (p0 p1 p2 : Nat)
    (hp0 : p0 < F.bshape.n0) (hp1 : p1 < F.bshape.n1) (hp2 : p2 < F.bshape.n2) (i0 i1 i2 : Nat) :
    smoothLin F (delta p0 p1 p2) i0 i1 i2 =
      F.scale * (kerZ F.kshape F.ker ((i0 : Int) + F.off.n0 - p0) ((i1 : Int) + F.off.n1 - p1)
        ((i2 : Int) + F.off.n2 - p2) / F.norm) + F.loc := by
  unfold smoothLin linConv
  rw [sum3_delta F.bshape p0 p1 p2 hp0 hp1 hp2 (fun j0 j1 j2 =>
    kerZ F.kshape F.ker ((i0 : Int) + F.off.n0 - j0) ((i1 : Int) + F.off.n1 - j1)
      ((i2 : Int) + F.off.n2 - j2))]

/-- With the window offset equal to the index `cc` of the kernel centre inside the cropped
    kernel, the response at displacement `d` from the impulse is the kernel value at
    displacement `d` from its centre — no spatial offset. -/
theorem impulse_response_centred (F : Filter) (cc : Sh) (hoff : F.off = cc) (p0 p1 p2 : Nat)
    (hp0 : p0 < F.bshape.n0) (hp1 : p1 < F.bshape.n1) (hp2 : p2 < F.bshape.n2)
    (i0 i1 i2 : Nat) (d0 d1 d2 : Int)
    (e0 : (i0 : Int) = p0 + d0) (e1 : (i1 : Int) = p1 + d1) (e2 : (i2 : Int) = p2 + d2) :
    smoothLin F (delta p0 p1 p2) i0 i1 i2 =
      F.scale * (kerZ F.kshape F.ker (cc.n0 + d0) (cc.n1 + d1) (cc.n2 + d2) / F.norm) + F.loc := by
  rw [impulse_response F p0 p1 p2 hp0 hp1 hp2, hoff]
  have a0 : (i0 : Int) + cc.n0 - p0 = cc.n0 + d0 := by rw [e0]; ring
  have a1 : (i1 : Int) + cc.n1 - p1 = cc.n1 + d1 := by rw [e1]; ring
  have a2 : (i2 : Int) + cc.n2 - p2 = cc.n2 + d2 := by rw [e2]; ring
  rw [a0, a1, a2]

/-- For a kernel with a strict maximum at `cc`: the neighbourhood of the window offset looks
    like the neighbourhood of the kernel centre **iff** the window offset is the centre index.
    (So the response is centred on the impulse exactly when `off = cc`.) -/
theorem centred_iff (k : Sh) (K : Img) (off cc : Sh)
    (hcc : cc.n0 < k.n0 ∧ cc.n1 < k.n1 ∧ cc.n2 < k.n2)
    (hmax : ∀ z0 z1 z2 : Int, (z0 ≠ cc.n0 ∨ z1 ≠ cc.n1 ∨ z2 ≠ cc.n2) →
      kerZ k K z0 z1 z2 < K cc.n0 cc.n1 cc.n2) :
    (∀ d0 d1 d2 : Int, kerZ k K (off.n0 + d0) (off.n1 + d1) (off.n2 + d2) =
        kerZ k K (cc.n0 + d0) (cc.n1 + d1) (cc.n2 + d2)) ↔ off = cc := by
  constructor
  · intro h
    have h0 := h 0 0 0
    simp only [add_zero] at h0
    rw [kerZ_cast k K cc.n0 cc.n1 cc.n2 hcc.1 hcc.2.1 hcc.2.2] at h0
    by_contra hne
    have : (off.n0 : Int) ≠ cc.n0 ∨ (off.n1 : Int) ≠ cc.n1 ∨ (off.n2 : Int) ≠ cc.n2 := by
      by_contra hh
      push Not at hh
      apply hne
      cases off; cases cc
      simp only [Sh.mk.injEq]
      simp only at hh
      omega
    have := hmax _ _ _ this
    rw [h0] at this
    exact lt_irrefl _ this
  · intro h; subst h; intro _ _ _; rfl

/-- Where the peak of the impulse response is: at the voxel `i` with `i + off − p = cc`; its value
    is `scale · K[cc] / norm + location` … -/
theorem impulse_peak_value (F : Filter) (cc : Sh)
    (hcc : cc.n0 < F.kshape.n0 ∧ cc.n1 < F.kshape.n1 ∧ cc.n2 < F.kshape.n2) (p0 p1 p2 : Nat)
    (hp0 : p0 < F.bshape.n0) (hp1 : p1 < F.bshape.n1) (hp2 : p2 < F.bshape.n2) (i0 i1 i2 : Nat)
    (e0 : (i0 : Int) + F.off.n0 - p0 = cc.n0) (e1 : (i1 : Int) + F.off.n1 - p1 = cc.n1)
    (e2 : (i2 : Int) + F.off.n2 - p2 = cc.n2) :
    smoothLin F (delta p0 p1 p2) i0 i1 i2 = F.scale * (F.ker cc.n0 cc.n1 cc.n2 / F.norm) + F.loc := by
  rw [impulse_response F p0 p1 p2 hp0 hp1 hp2, e0, e1, e2,
    kerZ_cast F.kshape F.ker cc.n0 cc.n1 cc.n2 hcc.1 hcc.2.1 hcc.2.2]

/-- … and every other voxel is strictly below it (positive scale and norm): the peak is displaced
    from the impulse by exactly `cc − off` voxels. -/
theorem impulse_below_peak (F : Filter) (cc : Sh)
    (hmax : ∀ z0 z1 z2 : Int, (z0 ≠ cc.n0 ∨ z1 ≠ cc.n1 ∨ z2 ≠ cc.n2) →
      kerZ F.kshape F.ker z0 z1 z2 < F.ker cc.n0 cc.n1 cc.n2)
    (hs : 0 < F.scale) (hn : 0 < F.norm) (p0 p1 p2 : Nat)
    (hp0 : p0 < F.bshape.n0) (hp1 : p1 < F.bshape.n1) (hp2 : p2 < F.bshape.n2) (i0 i1 i2 : Nat)
    (hne : (i0 : Int) + F.off.n0 - p0 ≠ cc.n0 ∨ (i1 : Int) + F.off.n1 - p1 ≠ cc.n1 ∨
      (i2 : Int) + F.off.n2 - p2 ≠ cc.n2) :
    smoothLin F (delta p0 p1 p2) i0 i1 i2 < F.scale * (F.ker cc.n0 cc.n1 cc.n2 / F.norm) + F.loc := by
  rw [impulse_response F p0 p1 p2 hp0 hp1 hp2]
  have h := hmax _ _ _ hne
  have h2 := div_lt_div_of_pos_right h hn
  have h3 := mul_lt_mul_of_pos_left h2 hs
  linarith

/-! ### the window offset written in the code, `kernel.shape // 2`, vs the centre index -/

/-- crop symmetric about the centre (kernel inside the grid): `k // 2` is the centre index -/
theorem foundOff_symmetric (m M c : Nat) (h1 : m ≤ c) (h2 : c ≤ M) (hs : c - m = M - c) :
    (M - m + 1) / 2 = c - m := by omega

/-- odd axis, kernel cropped by the whole grid: `k // 2` is the centre index -/
theorem foundOff_odd_full (n : Nat) (hn : n % 2 = 1) : (n - 1 - 0 + 1) / 2 = centre n - 0 := by
  unfold centre; omega

/-- **even axis, kernel cropped by the whole grid: `k // 2` is one more than the centre index**,
    so the code as found answers one voxel too low (`impulse_peak_value`). -/
theorem foundOff_even_full (n : Nat) (hn : n % 2 = 0) (h : 0 < n) :
    (n - 1 - 0 + 1) / 2 = (centre n - 0) + 1 := by
  unfold centre; omega

/-- partial (axis level, odd length `2c+1`): if the set of hit slices is symmetric about `c`
    the bounding box is symmetric, hence `k // 2` is the centre index.  Missing: the derivation
    of the symmetric-hit hypothesis from the 3D support for all-odd grids. -/
theorem crop_axis_symmetric_partial (p : Nat → Bool) (c m M : Nat)
    (hsym : ∀ a, a ≤ 2 * c → p a = p (2 * c - a))
    (hm : loHit p (2 * c + 1) = some m) (hM : hiHit p (2 * c + 1) = some M) :
    m + M = 2 * c ∧ (M - m + 1) / 2 = c - m := by
  obtain ⟨m1, m2, m3⟩ := loHit_spec p _ m hm
  obtain ⟨M1, M2, M3⟩ := hiHit_spec p _ M hM
  have a1 : p (2 * c - m) = true := by rw [← hsym m (by omega)]; exact m2
  have a2 : p (2 * c - M) = true := by rw [← hsym M (by omega)]; exact M2
  have b1 : 2 * c - m ≤ M := by
    by_contra h
    have := M3 (2 * c - m) (by omega) (by omega)
    rw [a1] at this; exact Bool.noConfusion this
  have b2 : m ≤ 2 * c - M := by
    by_contra h
    have := m3 (2 * c - M) (by omega)
    rw [a2] at this; exact Bool.noConfusion this
  omega

/-! ## Normalisation: constants and total intensity away from the borders -/

/-- a constant image stays constant (times `scale`, plus `location`) at every voxel whose
    kernel footprint lies inside the grid, with the `l1sum` normalisation -/
theorem smooth_constant_interior (F : Filter) (v : Rat)
    (hS : F.norm = kerSum F.kshape F.ker) (hS0 : F.norm ≠ 0) (i0 i1 i2 : Nat)
    (b0 : F.kshape.n0 ≤ i0 + F.off.n0 + 1 ∧ i0 + F.off.n0 < F.bshape.n0)
    (b1 : F.kshape.n1 ≤ i1 + F.off.n1 + 1 ∧ i1 + F.off.n1 < F.bshape.n1)
    (b2 : F.kshape.n2 ≤ i2 + F.off.n2 + 1 ∧ i2 + F.off.n2 < F.bshape.n2) :
    smoothLin F (fun _ _ _ => v) i0 i1 i2 = F.scale * v + F.loc := by
  unfold smoothLin linConv
  rw [sum3_smul, sum3_kerZ F.bshape F.kshape F.ker
    (fun j => (i0 : Int) + F.off.n0 - j) (fun j => (i1 : Int) + F.off.n1 - j)
    (fun j => (i2 : Int) + F.off.n2 - j)
    (fun j j' h => by omega) (fun j j' h => by omega)
    (fun j j' h => by omega)
    (fun b hb => ⟨i0 + F.off.n0 - b, by omega, by omega⟩)
    (fun b hb => ⟨i1 + F.off.n1 - b, by omega, by omega⟩)
    (fun b hb => ⟨i2 + F.off.n2 - b, by omega, by omega⟩), ← hS]
  field_simp

/-- total intensity is preserved (`scale = 1`, `location = 0`, `l1sum` normalisation) when the
    image content is far enough from the borders for every kernel footprint to fit -/
theorem smooth_mass_preserved (F : Filter) (x : Img)
    (hS : F.norm = kerSum F.kshape F.ker) (hS0 : F.norm ≠ 0) (hsc : F.scale = 1) (hloc : F.loc = 0)
    (hint : ∀ j0 j1 j2, j0 < F.bshape.n0 → j1 < F.bshape.n1 → j2 < F.bshape.n2 → x j0 j1 j2 ≠ 0 →
      (F.off.n0 ≤ j0 ∧ j0 + F.kshape.n0 ≤ F.bshape.n0 + F.off.n0) ∧
      (F.off.n1 ≤ j1 ∧ j1 + F.kshape.n1 ≤ F.bshape.n1 + F.off.n1) ∧
      (F.off.n2 ≤ j2 ∧ j2 + F.kshape.n2 ≤ F.bshape.n2 + F.off.n2)) :
    sum3 F.bshape (smoothLin F x) = sum3 F.bshape x := by
  have e1 : sum3 F.bshape (smoothLin F x) = sum3 F.bshape (linConv F x) / F.norm := by
    have : smoothLin F x = fun a b c => (1 / F.norm) * linConv F x a b c := by
      funext a b c; unfold smoothLin; rw [hsc, hloc]; ring
    rw [this, sum3_smul]; ring
  have e2 : sum3 F.bshape (linConv F x) = sum3 F.bshape (fun j0 j1 j2 => x j0 j1 j2 * F.norm) := by
    unfold linConv
    rw [sum3_comm]
    apply sum3_congr
    intro j0 j1 j2 h0 h1 h2
    rw [sum3_smul]
    by_cases hx : x j0 j1 j2 = 0
    · rw [hx]; ring
    · obtain ⟨c0, c1, c2⟩ := hint j0 j1 j2 h0 h1 h2 hx
      rw [sum3_kerZ F.bshape F.kshape F.ker
        (fun i => (i : Int) + F.off.n0 - j0) (fun i => (i : Int) + F.off.n1 - j1)
        (fun i => (i : Int) + F.off.n2 - j2)
        (fun j j' h => by omega) (fun j j' h => by omega)
        (fun j j' h => by omega)
        (fun b hb => ⟨j0 + b - F.off.n0, by omega, by omega⟩)
        (fun b hb => ⟨j1 + b - F.off.n1, by omega, by omega⟩)
        (fun b hb => ⟨j2 + b - F.off.n2, by omega, by omega⟩), ← hS]
  rw [e1, e2]
  have : ∀ a b c, x a b c * F.norm = F.norm * x a b c := fun a b c => mul_comm _ _
  simp only [this]
  rw [sum3_smul]
  field_simp

/-! ## Shift equivariance -/

/-- moving the image content by `s` voxels (nothing leaves the grid) moves the result by `s` voxels -/
theorem smooth_shift_equivariant (F : Filter) (x : Img) (s : Sh)
    (hs0 : s.n0 ≤ F.bshape.n0) (hs1 : s.n1 ≤ F.bshape.n1) (hs2 : s.n2 ≤ F.bshape.n2)
    (hfit : ∀ a b c, a < F.bshape.n0 → b < F.bshape.n1 → c < F.bshape.n2 →
      (F.bshape.n0 ≤ a + s.n0 ∨ F.bshape.n1 ≤ b + s.n1 ∨ F.bshape.n2 ≤ c + s.n2) → x a b c = 0)
    (i0 i1 i2 : Nat) :
    smoothLin F (shiftImg s x) (i0 + s.n0) (i1 + s.n1) (i2 + s.n2) = smoothLin F x i0 i1 i2 := by
  unfold smoothLin linConv
  congr 3
  simp only [sum3_eq]
  apply sum_shift _ s.n0 _ _ hs0
  · intro a ha
    apply Finset.sum_eq_zero; intro b _; apply Finset.sum_eq_zero; intro c _
    unfold shiftImg; rw [if_neg (by omega), zero_mul]
  · intro a ha
    apply sum_shift _ s.n1 _ _ hs1
    · intro b hb
      apply Finset.sum_eq_zero; intro c _
      unfold shiftImg; rw [if_neg (by omega), zero_mul]
    · intro b hb
      apply sum_shift _ s.n2 _ _ hs2
      · intro c hc
        unfold shiftImg; rw [if_neg (by omega), zero_mul]
      · intro c hc
        unfold shiftImg
        rw [if_pos (by omega)]
        simp only [Nat.add_sub_cancel, Nat.cast_add]
        congr 2 <;> ring
      · intro c hc1 hc2
        rw [hfit a b c (by omega) (by omega) hc1 (by omega), zero_mul]
    · intro b hb1 hb2
      apply Finset.sum_eq_zero; intro c hc
      rw [hfit a b c (by omega) hb1 (Finset.mem_range.mp hc) (by omega), zero_mul]
  · intro a ha1 ha2
    apply Finset.sum_eq_zero; intro b hb; apply Finset.sum_eq_zero; intro c hc
    rw [hfit a b c ha1 (Finset.mem_range.mp hb) (Finset.mem_range.mp hc) (by omega), zero_mul]

/-! ## The kernel is a function of the world displacement -/

/-- the translation of the affine does not enter: `X = A · (voxel − centre voxel)` -/
theorem world_offset_translation_free (g : Geom) (a b c : Nat) :
    g.X a b c = g.lin.mulVec
      ((vox a b c).sub (vox (centre g.sh.n0) (centre g.sh.n1) (centre g.sh.n2))) := by
  simp only [Geom.X, Geom.apply, V3.add, V3.sub, M3.mulVec, V3.dot, vox, V3.mk.injEq]
  refine ⟨?_, ?_, ?_⟩ <;> ring

/-- without whitening the exponent is `½ Σ (wᵢ / σᵢ)²` of the world displacement `w = X`:
    the width is measured in world units along each world axis -/
theorem exponent_world_units (g : Geom) (hw : g.wh = M3.one) (a b c : Nat) :
    g.e a b c = (((g.X a b c).x / g.sig.x) ^ 2 + ((g.X a b c).y / g.sig.y) ^ 2 +
      ((g.X a b c).z / g.sig.z) ^ 2) / 2 := by
  simp only [Geom.e, halfNormSq, hw, M3.one, M3.mulVec, V3.dot]
  ring

/-- anisotropic voxels get anisotropic voxel kernels: for an axis-aligned affine with steps
    `s` and an isotropic width `σ`, the voxel-unit standard deviation along axis `i` is `σ / |sᵢ|`
    (flipped axes included: only `sᵢ²` enters). -/
theorem anisotropic_voxel_kernel (sh : Sh) (s0 s1 s2 σ : Rat) (t : V3) (a b c : Nat)
    (h0 : s0 ≠ 0) (h1 : s1 ≠ 0) (h2 : s2 ≠ 0) (hσ : σ ≠ 0) :
    (Geom.mk sh ⟨⟨s0, 0, 0⟩, ⟨0, s1, 0⟩, ⟨0, 0, s2⟩⟩ t ⟨σ, σ, σ⟩ M3.one).e a b c =
      ((((a : Rat) - centre sh.n0) / (σ / s0)) ^ 2 + (((b : Rat) - centre sh.n1) / (σ / s1)) ^ 2 +
        (((c : Rat) - centre sh.n2) / (σ / s2)) ^ 2) / 2 := by
  simp only [Geom.e, halfNormSq, Geom.X, Geom.apply, V3.add, V3.sub, M3.mulVec, V3.dot, vox, M3.one]
  field_simp
  ring

/-- the kernel is symmetric about the centre voxel: mirror voxels have the same exponent -/
theorem kernel_symmetric (g : Geom) (a b c a' b' c' : Nat)
    (ha : a + a' = 2 * centre g.sh.n0) (hb : b + b' = 2 * centre g.sh.n1)
    (hc : c + c' = 2 * centre g.sh.n2) : g.e a b c = g.e a' b' c' := by
  have ea : (a' : Rat) = 2 * (centre g.sh.n0 : Rat) - a := by
    have := congrArg (Nat.cast : Nat → Rat) ha; push_cast at this; linarith
  have eb : (b' : Rat) = 2 * (centre g.sh.n1 : Rat) - b := by
    have := congrArg (Nat.cast : Nat → Rat) hb; push_cast at this; linarith
  have ec : (c' : Rat) = 2 * (centre g.sh.n2 : Rat) - c := by
    have := congrArg (Nat.cast : Nat → Rat) hc; push_cast at this; linarith
  simp only [Geom.e, halfNormSq, Geom.X, Geom.apply, V3.add, V3.sub, M3.mulVec, V3.dot, vox, ea, eb, ec]
  ring

/-- the exponent is `0` at the centre voxel (kernel value `exp 0 = 1`, inside the cut-off)
    and non-negative everywhere: the kernel peaks at the centre voxel -/
theorem exponent_centre_zero_nonneg (g : Geom) (a b c : Nat) :
    g.e (centre g.sh.n0) (centre g.sh.n1) (centre g.sh.n2) = 0 ∧ 0 ≤ g.e a b c := by
  constructor
  · simp [Geom.e, halfNormSq, Geom.X, V3.sub, M3.mulVec, V3.dot]
  · simp only [Geom.e, halfNormSq, V3.dot]
    apply div_nonneg _ (by norm_num)
    nlinarith [mul_self_nonneg ((g.wh.mulVec ⟨(g.X a b c).x / g.sig.x, (g.X a b c).y / g.sig.y,
        (g.X a b c).z / g.sig.z⟩).x),
      mul_self_nonneg ((g.wh.mulVec ⟨(g.X a b c).x / g.sig.x, (g.X a b c).y / g.sig.y,
        (g.X a b c).z / g.sig.z⟩).y),
      mul_self_nonneg ((g.wh.mulVec ⟨(g.X a b c).x / g.sig.x, (g.X a b c).y / g.sig.y,
        (g.X a b c).z / g.sig.z⟩).z)]

/-! ## The crop box contains the centre; the filter `_setup_kernel` builds meets the hypotheses -/

/-- on a non-empty grid `_crop` finds a box, and the centre voxel lies inside it, so the centre
    index `centre − lo` is a valid index of the cropped kernel on every axis -/
theorem cropBox_contains_centre (g : Geom)
    (h0 : 0 < g.sh.n0) (h1 : 0 < g.sh.n1) (h2 : 0 < g.sh.n2) :
    ∃ bx, cropBox g.sh g.supp = some bx ∧
      (bx.lo.n0 ≤ centre g.sh.n0 ∧ centre g.sh.n0 < bx.lo.n0 + bx.k.n0) ∧
      (bx.lo.n1 ≤ centre g.sh.n1 ∧ centre g.sh.n1 < bx.lo.n1 + bx.k.n1) ∧
      (bx.lo.n2 ≤ centre g.sh.n2 ∧ centre g.sh.n2 < bx.lo.n2 + bx.k.n2) := by
  have c0 : centre g.sh.n0 < g.sh.n0 := by unfold centre; omega
  have c1 : centre g.sh.n1 < g.sh.n1 := by unfold centre; omega
  have c2 : centre g.sh.n2 < g.sh.n2 := by unfold centre; omega
  have hs : g.supp (centre g.sh.n0) (centre g.sh.n1) (centre g.sh.n2) = true := by
    unfold Geom.supp
    rw [(exponent_centre_zero_nonneg g 0 0 0).1]
    decide
  have t0 : hit0 g.sh g.supp (centre g.sh.n0) = true := by
    unfold hit0
    rw [anyTo_true]; refine ⟨_, c1, ?_⟩
    rw [anyTo_true]; exact ⟨_, c2, hs⟩
  have t1 : hit1 g.sh g.supp (centre g.sh.n1) = true := by
    unfold hit1
    rw [anyTo_true]; refine ⟨_, c0, ?_⟩
    rw [anyTo_true]; exact ⟨_, c2, hs⟩
  have t2 : hit2 g.sh g.supp (centre g.sh.n2) = true := by
    unfold hit2
    rw [anyTo_true]; refine ⟨_, c0, ?_⟩
    rw [anyTo_true]; exact ⟨_, c1, hs⟩
  obtain ⟨m0, em0, lm0⟩ := loHit_isSome _ _ _ c0 t0
  obtain ⟨M0, eM0, lM0⟩ := hiHit_isSome _ _ _ c0 t0
  obtain ⟨m1, em1, lm1⟩ := loHit_isSome _ _ _ c1 t1
  obtain ⟨M1, eM1, lM1⟩ := hiHit_isSome _ _ _ c1 t1
  obtain ⟨m2, em2, lm2⟩ := loHit_isSome _ _ _ c2 t2
  obtain ⟨M2, eM2, lM2⟩ := hiHit_isSome _ _ _ c2 t2
  refine ⟨⟨⟨m0, m1, m2⟩, ⟨M0 - m0 + 1, M1 - m1 + 1, M2 - m2 + 1⟩⟩, ?_, ?_, ?_, ?_⟩
  · unfold cropBox; rw [em0, eM0, em1, eM1, em2, eM2]
  · constructor <;> simp only <;> omega
  · constructor <;> simp only <;> omega
  · constructor <;> simp only <;> omega

/-- hence the filter built by `_setup_kernel` (window offset = centre index) satisfies the
    hypothesis of `smooth_is_convolution` -/
theorem mkFilter_window_inside (g : Geom) (bx : Box) (K : Img) (nk : NormKind) (sc lo : Rat)
    (h0 : 0 < g.sh.n0) (h1 : 0 < g.sh.n1) (h2 : 0 < g.sh.n2)
    (hb : cropBox g.sh g.supp = some bx) :
    (mkFilter g bx K nk sc lo).off.n0 < (mkFilter g bx K nk sc lo).kshape.n0 ∧
    (mkFilter g bx K nk sc lo).off.n1 < (mkFilter g bx K nk sc lo).kshape.n1 ∧
    (mkFilter g bx K nk sc lo).off.n2 < (mkFilter g bx K nk sc lo).kshape.n2 := by
  obtain ⟨bx', e, a0, a1, a2⟩ := cropBox_contains_centre g h0 h1 h2
  rw [hb] at e
  simp only [Option.some.injEq] at e
  subst e
  simp only [mkFilter, centreOff]
  omega

/-! ## Shape; width conversions -/

/-- the result has as many values as the grid has voxels -/
theorem output_shape (s : Sh) (x : Img) : (toList s x).length = s.size := by
  simp [toList, Sh.size, List.length_flatMap, Nat.mul_assoc]

/-- width/standard-deviation conversions are mutually inverse (`c = sqrt(8 log 2) ≠ 0`). -/
theorem fwhm_sigma_inverse (c x : Rat) (hc : c ≠ 0) :
    sigma2fwhm c (fwhm2sigma c x) = x ∧ fwhm2sigma c (sigma2fwhm c x) = x := by
  unfold sigma2fwhm fwhm2sigma
  constructor <;> field_simp

/-! ## Non-vacuity and the counter-example for the offset found in the code -/

/-- a 1D-like kernel on an even axis of 8 voxels cropped by the whole grid: centre index 3 -/
def exK : Img := fun a _ _ => [1, 2, 4, 8, 4, 2, 1, 1/2].getD a 0
def exFound : Filter := ⟨⟨8, 1, 1⟩, ⟨8, 1, 1⟩, exK, foundOff ⟨8, 1, 1⟩, 45/2, 1, 0⟩
def exFixed : Filter := { exFound with off := ⟨centre 8 - 0, 0, 0⟩ }

-- the offset found in the code puts the peak of the response to an impulse at 4 on voxel 3 …
example : smoothLin exFound (delta 4 0 0) 3 0 0 = 16/45 ∧ smoothLin exFound (delta 4 0 0) 4 0 0 = 8/45 := by
  decide +kernel
-- … the centre index puts it on the impulse
example : smoothLin exFixed (delta 4 0 0) 4 0 0 = 16/45 ∧ smoothLin exFixed (delta 4 0 0) 3 0 0 = 8/45 := by
  decide +kernel
example : foundOff ⟨8, 1, 1⟩ = ⟨4, 0, 0⟩ ∧ centre 8 = 3 := by decide
-- literal (circular) and direct forms agree on a concrete voxel
example : smoothCirc exFixed (delta 4 0 0) 5 0 0 = smoothLin exFixed (delta 4 0 0) 5 0 0 := by
  decide +kernel
example : exFixed.norm = kerSum exFixed.kshape exFixed.ker ∧ exFixed.norm ≠ 0 := by decide +kernel
-- hypotheses of `centred_iff`/`impulse_below_peak`: a strict maximum at the centre index
example : exK 3 0 0 = 8 ∧ exK 4 0 0 < exK 3 0 0 ∧ exK 2 0 0 < exK 3 0 0 := by decide +kernel
-- hypothesis of `crop_axis_symmetric_partial`
example : loHit (fun a => decide (1 ≤ a ∧ a ≤ 3)) 5 = some 1 ∧ hiHit (fun a => decide (1 ≤ a ∧ a ≤ 3)) 5 = some 3 := by
  decide
-- a geometry whose crop box is computed: 4×4×1 grid, unit voxels, σ = 1 → whole grid, centre (1,1,0)
example : cropBox ⟨4, 4, 1⟩ (Geom.mk ⟨4, 4, 1⟩ M3.one ⟨0, 0, 0⟩ ⟨1, 1, 1⟩ M3.one).supp =
    some ⟨⟨0, 0, 0⟩, ⟨4, 4, 1⟩⟩ := by decide +kernel
example : fwhm2sigma (5/2) 5 = 2 ∧ sigma2fwhm (5/2) 2 = 5 := by decide +kernel

end NipyVerif.C18
