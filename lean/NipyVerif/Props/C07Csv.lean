/-
C07 — "writing a design matrix to CSV and reading it back reproduces names": the reader of
`NipyVerif.Model.C07Csv` (Python's `csv.reader` state machine) undoes the writer
(`csv.writer`, QUOTE_MINIMAL) for **every** list of names over **all** characters — commas,
quotes, blanks, semicolons, tabs, line breaks, non-ASCII, the empty name, the empty list —
for every dialect whose delimiter and quote character differ and are not line breaks and which
keeps leading blanks; `doublequote` may be off (what `csv.Sniffer` reports for a file without
any quote character) when no name contains the quote character.
(For names containing line breaks the record spans several physical lines; the reader joins
them because an end of line inside quotes is a no-op — that part is tied by the correspondence.)
-/
import NipyVerif.Lemmas.C07Csv

namespace NipyVerif.C07

/-- `parse (format fields) = fields`, general form -/
theorem csv_parse_format (d : Dialect) (hd : d.Good) (fields : List (List Char))
    (hq : ∀ f ∈ fields, d.doublequote = true ∨ ∀ c ∈ f, (c == d.quote) = false) :
    parseRecord d (fmtRow d fields) = .ok fields :=
  parse_format' d hd fields hq

/-- the header `DesignMatrix.write_csv` writes is read back exactly by the `excel` dialect:
    all names, all characters -/
theorem csv_names_roundtrip (names : List (List Char)) :
    parseRecord excel (fmtRow excel names) = .ok names :=
  parse_format' excel excel_good names (fun _ _ => Or.inl rfl)

/-- … and by the dialect the sniffer reports when the file has no quote character
    (`doublequote = False`), provided no name contains `"` -/
theorem csv_names_roundtrip_no_doublequote (names : List (List Char))
    (h : ∀ f ∈ names, ∀ c ∈ f, (c == '"') = false) :
    parseRecord ⟨',', '"', false, false⟩ (fmtRow excel names) = .ok names := by
  have hg : (⟨',', '"', false, false⟩ : Dialect).Good := ⟨by decide, by decide, by decide, rfl⟩
  have : fmtRow excel names = fmtRow ⟨',', '"', false, false⟩ names := fmtRow_congr excel ⟨',', '"', false, false⟩ rfl rfl names
  rw [this]
  exact parse_format' _ hg names (fun f hf => Or.inr (h f hf))

/-- the paradigm files (`csv.writer(fid, delimiter=' ')`): rows of fields are read back exactly
    by the space-delimited dialect -/
theorem csv_space_rows_roundtrip (fields : List (List Char)) :
    parseRecord ⟨' ', '"', true, false⟩ (fmtRow ⟨' ', '"', true, false⟩ fields) = .ok fields :=
  parse_format' _ ⟨by decide, by decide, by decide, rfl⟩ fields (fun _ _ => Or.inl rfl)

/-- a dialect that drops leading blanks (`skipinitialspace`) does *not* round-trip: the
    hypothesis `Good.skip` is needed -/
example : parseRecord ⟨',', '"', true, true⟩ (fmtRow excel [" a".toList]) = .ok ["a".toList] := by
  decide

example : parseRecord excel (fmtRow excel ["a,b".toList, "say \"x\"".toList, [], "x\ny".toList]) =
    .ok ["a,b".toList, "say \"x\"".toList, [], "x\ny".toList] := by decide

end NipyVerif.C07
