/-
C12 (part F) — property theorems: watershed basins have exactly one maximum and agree with
steepest ascent; `threshold_bifurcations` labels every above-threshold vertex; diffusion is the
n-fold (linear) application of the weighted adjacency; histories on one Field object compose
the modelled operators and leave the graph alone.
-/
import NipyVerif.Lemmas.C12F

namespace NipyVerif.C12

/-! ## Watershed: steepest ascent, basins, maxima -/

/-- Steepest ascent (`highest_neighbor` iterated) ends in a fixed point within `V` steps on EVERY
    field — plateaus and ties included: each move goes strictly up in (value, then smaller index),
    so no vertex is visited twice. -/
theorem steepest_ascent_reaches_maximum (g : Graph) (col : List Rat) (v : Nat) (hv : v < g.V) :
    highestNeighbor g col (basinRoot g col v) = basinRoot g col v := by
  rw [basinRoot_eq_iterate]
  exact iterate_fixed_of_strict (highestNeighbor g col) (ascLt col) (ascLt_irrefl col) (ascLt_trans col)
    (highestNeighbor_lt g col) (fun x hx hne => highestNeighbor_strict g col x hx hne) v hv

/-- The vertex a basin is rooted at is a local maximum: it dominates its closed neighbourhood.
    (Full form of `watershed_root_is_local_maximum_partial`.) -/
theorem basin_root_is_local_maximum (g : Graph) (col : List Rat) (v : Nat) (hv : v < g.V) :
    ∀ j ∈ closedRow g (basinRoot g col v), at_ col j ≤ at_ col (basinRoot g col v) :=
  watershed_root_is_local_maximum_partial g col _
    (by rw [basinRoot_eq_iterate]; exact iterate_highestNeighbor_lt g col _ v hv)
    (steepest_ascent_reaches_maximum g col v hv)

/-- Clause "each basin has exactly one maximum": inside the basin of `v` (the vertices whose
    ascent ends where `v`'s does) the root is a fixed point of steepest ascent, it belongs to its
    own basin, and it is the only such vertex. -/
theorem basin_has_exactly_one_maximum (g : Graph) (col : List Rat) (v : Nat) (hv : v < g.V) :
    let r := basinRoot g col v
    (highestNeighbor g col r = r ∧ basinRoot g col r = r) ∧
      ∀ m, highestNeighbor g col m = m → basinRoot g col m = r → m = r := by
  intro r
  have hfix := steepest_ascent_reaches_maximum g col v hv
  refine ⟨⟨hfix, ?_⟩, ?_⟩
  · show basinRoot g col (basinRoot g col v) = basinRoot g col v
    conv_lhs => rw [basinRoot_eq_iterate]
    exact Function.iterate_fixed hfix _
  · intro m hm hmr
    have : basinRoot g col m = m := by
      rw [basinRoot_eq_iterate]; exact Function.iterate_fixed hm _
    rw [← this]; exact hmr

/-- the root of every vertex is listed among the basins -/
theorem basinRoot_mem_basinRoots (g : Graph) (col : List Rat) (v : Nat) (hv : v < g.V) :
    basinRoot g col v ∈ basinRoots g col := by
  unfold basinRoots
  rw [List.mem_map]
  -- the first vertex whose ascent ends at the same root
  have hex : ∃ u, (List.range g.V).find? (fun u => basinRoot g col u == basinRoot g col v) = some u := by
    cases h : (List.range g.V).find? (fun u => basinRoot g col u == basinRoot g col v) with
    | some u => exact ⟨u, rfl⟩
    | none =>
      rw [List.find?_eq_none] at h
      exact absurd (h v (List.mem_range.2 hv)) (by simp)
  obtain ⟨u, hu⟩ := hex
  have hur : basinRoot g col u = basinRoot g col v := by
    have := List.find?_some hu; simpa using this
  refine ⟨u, ?_, hur⟩
  rw [List.mem_filter]
  refine ⟨List.mem_of_find?_eq_some hu, ?_⟩
  simp only [basinMin, hur, hu, Option.getD_some, beq_self_eq_true]

/-- Clause "basins agree with the direct definition": two vertices get the same watershed label
    exactly when their steepest-ascent chains end in the same vertex; labels are `< number of basins`. -/
theorem watershed_labels_agree_with_ascent (g : Graph) (col : List Rat) (u v : Nat)
    (hu : u < g.V) (hv : v < g.V) :
    (basinLabel g col u = basinLabel g col v ↔ basinRoot g col u = basinRoot g col v) ∧
      basinLabel g col v < (basinRoots g col).length := by
  unfold basinLabel
  exact ⟨List.idxOf_inj (basinRoot_mem_basinRoots g col u hu),
    List.idxOf_lt_length_iff.2 (basinRoot_mem_basinRoots g col v hv)⟩

/-- the label of a vertex names its root: `idx[label[v]]` is where the ascent from `v` ends -/
theorem watershed_idx_of_label_is_root (g : Graph) (col : List Rat) (v : Nat) (hv : v < g.V) :
    (basinRoots g col)[basinLabel g col v]? = some (basinRoot g col v) := by
  unfold basinLabel
  exact List.getElem?_idxOf (basinRoot_mem_basinRoots g col v hv)

/-- `custom_watershed` computes `idx[c]` as the first arg-max of the field inside basin `c`
    (`_argmax_within(field, label == c)`, formerly a masked arg-max): that vertex IS the root of the basin —
    the root carries the largest value of its basin and, among equal values, the smallest index. -/
theorem basin_argmax_is_root (g : Graph) (col : List Rat) (v : Nat) (hv : v < g.V) :
    maskedArgmax g.V (at_ col) (fun u => basinRoot g col u == basinRoot g col v) =
      basinRoot g col v := by
  set r := basinRoot g col v with hr
  have hrV : r < g.V := by rw [hr, basinRoot_eq_iterate]; exact iterate_highestNeighbor_lt g col _ v hv
  have hrr : basinRoot g col r = r := (basin_has_exactly_one_maximum g col v hv).1.2
  have hmem : r ∈ (List.range g.V).filter (fun u => basinRoot g col u == r) := by
    simp [List.mem_filter, hrV, hrr]
  unfold maskedArgmax
  cases hM : (List.range g.V).filter (fun u => basinRoot g col u == r) with
  | nil => rw [hM] at hmem; cases hmem
  | cons a t =>
    simp only [argmaxRow, Option.getD_some]
    set b := t.foldl (fun b x => if at_ col x > at_ col b then x else b) a with hb
    obtain ⟨h1, h2, h3⟩ := argmax_fold_spec (at_ col) t a
    have hsorted : (a :: t).Pairwise (· < ·) := by
      rw [← hM]; exact List.Pairwise.sublist List.filter_sublist List.pairwise_lt_range
    have hbM : b ∈ (List.range g.V).filter (fun u => basinRoot g col u == r) := by rw [hM]; exact h1
    obtain ⟨hbV, hbr⟩ : b < g.V ∧ basinRoot g col b = r := by
      simpa [List.mem_filter] using hbM
    -- r is in the list, so its value is below b's; b ascends to r, so its value is below r's
    have hrb : at_ col r ≤ at_ col b := by
      rw [hM] at hmem
      rcases List.mem_cons.1 hmem with h | h
      · rw [h]; exact h2
      · exact h3 r h
    have hasc := ascent_monotone g col g.V b hbV
    rw [← basinRoot_eq_iterate, hbr] at hasc
    have heq : at_ col b = at_ col r := le_antisymm hasc.1 hrb
    have hle1 : r ≤ b := hasc.2 heq
    have hle2 : b ≤ r := by
      rw [hM] at hmem
      exact argmax_fold_first (at_ col) t a hsorted r hmem heq.symm
    omega

/-! ## local_maxima -/

/-- Clause "local maxima agree with a direct definition" (which vertices): the dilation loop of
    `local_maxima` gives a positive depth to exactly the vertices that dominate their closed
    neighbourhood — ties, plateaus, isolated vertices and early/late termination included. -/
theorem local_maxima_loop_marks_local_maxima (g : Graph) (hv : g.Valid) (col : List Rat)
    (hl : col.length = g.V) (i : Nat) (hi : i < g.V) :
    0 < (lmaxLoop g col g.V 0 col (List.replicate g.V g.V)).getD i 0 ↔ IsLocMax g col i := by
  refine lmaxLoop_spec g hv col hl g.V 0 col _ (by omega) hl (fun _ _ => le_refl _)
    (fun h => by omega) (fun _ => rfl) ?_ (fun h => by omega) i hi
  intro j hj _
  simp [List.getD_eq_getElem?_getD, hj]
  omega

/-- `local_maxima(refdim, th)` on the whole graph: depth `0` below the threshold; at or above it,
    positive exactly at the local maxima of the thresholded subfield.  (WHICH positive value — the
    radius of the largest ball in which the vertex is maximal, capped — is
    `local_maxima_loop_depth_is_ball_radius` in Props/C12L.) -/
theorem local_maxima_depth_positive_iff (g : Graph) (hv : g.Valid) (col : List Rat) (th : Rat)
    (v : Nat) (hvV : v < g.V) :
    let valid := fun u => decide (th ≤ at_ col u)
    (at_ col v < th → (localMaxima g col th).getD v 0 = 0) ∧
      (th ≤ at_ col v → (0 < (localMaxima g col th).getD v 0 ↔
        IsLocMax (subgraph g valid) (subcol g.V valid col) (renumb valid v))) := by
  intro valid
  have hget : (localMaxima g col th).getD v 0 =
      if valid v then (lmaxLoop (subgraph g valid) (subcol g.V valid col) (subgraph g valid).V 0
        (subcol g.V valid col) (List.replicate (subgraph g valid).V (subgraph g valid).V)).getD
          (renumb valid v) 0 else 0 := by
    simp only [localMaxima, List.getD_eq_getElem?_getD, List.getElem?_map, List.getElem?_range hvV,
      Option.map_some, Option.getD_some]
    rfl
  constructor
  · intro hlt
    have : valid v = false := by simp [valid, not_le.2 hlt]
    rw [hget, this]; rfl
  · intro hth
    have hval : valid v = true := by simp [valid, hth]
    rw [hget, hval, if_pos rfl]
    apply local_maxima_loop_marks_local_maxima _ (subgraph_valid g hv valid)
    · simp only [subcol, List.length_map, subgraph]
      exact (renumb_eq_length valid g.V).symm
    · exact renumb_lt valid hvV hval

/-! ## threshold_bifurcations -/

/-- Clause "threshold bifurcations label every above-threshold vertex": whatever the (valid) order
    in which `argsort` presents tied vertices, the sweep gives a label `≥ 0` to every vertex at or
    above the threshold, `-1` to every vertex below it, and nothing else. -/
theorem bifurcations_label_exactly_above_threshold (g : Graph) (col : List Rat) (th : Rat)
    (order idx par : List Nat) (label : List Int)
    (h : bifurcations g col th order = some (idx, par, label)) :
    label.length = g.V ∧ ∀ v < g.V,
      (at_ col v < th → label.getD v 0 = -1) ∧ (th ≤ at_ col v → 0 ≤ label.getD v 0) := by
  unfold bifurcations at h
  simp only at h
  split at h
  · -- nothing above threshold
    rename_i h0
    cases h
    refine ⟨by simp, fun v hv => ⟨fun _ => by simp [List.getD_eq_getElem?_getD, hv], fun hth => ?_⟩⟩
    have := renumb_lt (fun v => decide (th ≤ at_ col v)) hv (by simpa using hth)
    simp only [subgraph] at h0
    omega
  · split at h
    · cases h
    · rename_i hord
      cases h
      have hord : validDescOrder (subgraph g fun v => decide (th ≤ at_ col v)).V
          (at_ (subcol g.V (fun v => decide (th ≤ at_ col v)) col)) order = true := by simpa using hord
      simp only [validDescOrder, Bool.and_eq_true, decide_eq_true_eq, List.all_eq_true, List.mem_range,
        beq_iff_eq] at hord
      obtain ⟨⟨_, hcount⟩, _⟩ := hord
      refine ⟨by simp, fun v hv => ?_⟩
      simp only [List.getD_eq_getElem?_getD, List.getElem?_map, List.getElem?_range hv, Option.map_some,
        Option.getD_some]
      constructor
      · intro hlt
        have : ¬ th ≤ at_ col v := not_le.2 hlt
        simp [this]
      · intro hth
        simp only [hth, decide_true, if_true]
        have hlt := renumb_lt (fun v => decide (th ≤ at_ col v)) hv (by simpa using hth)
        have hmem : renumb (fun v => decide (th ≤ at_ col v)) v ∈ order :=
          List.count_pos_iff.1 (by rw [hcount _ (by simpa [subgraph] using hlt)]; exact Nat.one_pos)
        unfold bifSweep
        exact bifSweep_labelled _ order bifInit [] (by simp) _ (by simpa using hmem)

/-! ## Diffusion -/

/-- Clause "diffusion applies the weighted adjacency once per iteration": `diffusion(n)` is the
    `n`-fold application of one sparse product … -/
theorem diffusion_iter (g : Graph) (n : Nat) (col : List Rat) :
    diffuse g n col = (applyAdj g)^[n] col := iter_eq_iterate _ _ _

/-- … which, on the list the object holds, is the `n`-th iterate of the adjacency operator on
    total fields … -/
theorem diffusion_is_adjacency_power (g : Graph) (hv : g.Valid) (n : Nat) (col : List Rat)
    (hl : col.length = g.V) :
    diffuse g n col = (List.range g.V).map ((adjF g)^[n] (at_ col)) := diffuse_eq g hv n col hl

/-- … where one application is the dense matrix–vector product with the weighted adjacency
    matrix (`adjW`: parallel edges add up, as in the COO product) … -/
theorem adjacency_is_matrix_product (g : Graph) (hv : g.Valid) (f : Nat → Rat) (i : Nat) :
    adjF g f i = ((List.range g.V).map (fun j => adjW g i j * f j)).sum := adjF_eq_matrix g hv f i

/-- … and every iterate is linear in the field. -/
theorem diffusion_linear (g : Graph) (n : Nat) (a b : Rat) (x y : Nat → Rat) :
    (adjF g)^[n] (fun j => a * x j + b * y j) =
      fun i => a * (adjF g)^[n] x i + b * (adjF g)^[n] y i := by
  induction n generalizing x y with
  | zero => rfl
  | succ n ih =>
    rw [Function.iterate_succ_apply, Function.iterate_succ_apply, Function.iterate_succ_apply]
    have : adjF g (fun j => a * x j + b * y j) = fun i => a * adjF g x i + b * adjF g y i :=
      funext (adjF_linear g a b x y)
    rw [this, ih]

/-! ## Histories on one Field object -/

/-- the composition of the operators of a history, on total fields (graph fixed) -/
def histFn (g : Graph) (ops : List FieldOp) (f : Nat → Rat) : Nat → Rat :=
  ops.foldl (fun h op => opFnD g op h) f

theorem local_histFn (g : Graph) (hv : g.Valid) (ops : List FieldOp) : Local g.V (histFn g ops) := by
  induction ops with
  | nil => exact fun f f' H i hi => H i hi
  | cons op t ih =>
    intro f f' H
    simp only [histFn, List.foldl_cons]
    exact ih _ _ (local_opFnD g hv op f f' H)

/-- One in-place call (`dilation`, `erosion`, `opening`, `closing`, `diffusion`, either dilation
    path, any dtype) replaces every column of the field by the operator applied to it, leaves the
    graph alone, and sets the dtype flag as the operator does (`diffusion` yields float64). -/
theorem field_step_is_operator (s : FieldSt) (hv : s.g.Valid) (hl : ∀ c ∈ s.cols, c.length = s.g.V)
    (op : FieldOp) (hop : isInPlace op = true) :
    stepField s op =
      (⟨s.g, s.cols.map (fun c => (List.range s.g.V).map (opFnD s.g op (at_ c))), is64After s.is64 op⟩,
        "none") := by
  obtain ⟨F, hF, _⟩ := colOp_spec s.g hv s.is64 op hop (List.replicate s.g.V 0) (by simp)
  have hm : s.cols.mapM F = some (s.cols.map (fun c => (List.range s.g.V).map (opFnD s.g op (at_ c)))) := by
    apply mapM_some
    intro c hc
    obtain ⟨F', hF', hspec⟩ := colOp_spec s.g hv s.is64 op hop c (hl c hc)
    rw [hF] at hF'; cases hF'
    exact hspec
  unfold stepField
  rw [hF]
  simp only [hm]

/-- **Which dilation path runs, and why the result does not depend on it.**  The compiled path is
    taken exactly when the call asks for it and the field is float64 (`fast and dtype == float64`;
    `opening`/`closing` always ask).  On every valid graph the object left behind is the same
    whichever flag the call passes and whichever dtype the field has — so the history theorems
    cover integer and float32 fields exactly as they cover float64 ones. -/
theorem dilation_path_depends_on_dtype_result_does_not (s : FieldSt) (hv : s.g.Valid)
    (hl : ∀ c ∈ s.cols, c.length = s.g.V) (n : Nat) (fast : Bool) :
    colOp s.g s.is64 (.dilation n fast) = some (dilate s.g n (fast && s.is64)) ∧
      colOp s.g s.is64 (.opening n) = some (fun c => (erode s.g n c).bind (dilate s.g n s.is64)) ∧
      (stepField s (.dilation n fast)).1 = (stepField s (.dilation n (!fast))).1 ∧
      (stepField ⟨s.g, s.cols, true⟩ (.dilation n fast)).1.cols =
        (stepField ⟨s.g, s.cols, false⟩ (.dilation n fast)).1.cols := by
  refine ⟨rfl, rfl, ?_, ?_⟩
  · rw [field_step_is_operator s hv hl _ rfl, field_step_is_operator s hv hl _ rfl]
    rfl
  · rw [field_step_is_operator ⟨s.g, s.cols, true⟩ hv hl _ rfl,
      field_step_is_operator ⟨s.g, s.cols, false⟩ hv hl _ rfl]

/-- **Field histories** (graph untouched): after any sequence of in-place operators on one object,
    every column is the composition of the modelled operators applied to the initial column, and
    the graph (vertices, edges, weights) is the one the object started with. -/
theorem field_history_is_composition (s : FieldSt) (hv : s.g.Valid)
    (hl : ∀ c ∈ s.cols, c.length = s.g.V) (ops : List FieldOp) (hops : ∀ op ∈ ops, isInPlace op = true) :
    finalField s ops =
      ⟨s.g, s.cols.map (fun c => (List.range s.g.V).map (histFn s.g ops (at_ c))), flagFrom s.is64 ops⟩ := by
  induction ops generalizing s with
  | nil =>
    obtain ⟨g, cols, b⟩ := s
    simp only [finalField, List.foldl_nil, histFn, flagFrom]
    congr 1
    have : cols.map (fun c => (List.range g.V).map (at_ c)) = cols.map id :=
      List.map_congr_left (fun c hc => map_at_range (hl c hc))
    rw [this, List.map_id]
  | cons op t ih =>
    have hstep := field_step_is_operator s hv hl op (hops op List.mem_cons_self)
    simp only [finalField, List.foldl_cons] at ih ⊢
    rw [hstep]
    have := ih ⟨s.g, s.cols.map (fun c => (List.range s.g.V).map (opFnD s.g op (at_ c))),
      is64After s.is64 op⟩ hv
      (by intro c hc; obtain ⟨c0, _, rfl⟩ := List.mem_map.1 hc; simp)
      (fun o ho => hops o (List.mem_cons_of_mem _ ho))
    rw [this]
    simp only [List.map_map, flagFrom, List.foldl_cons]
    congr 1
    apply List.map_congr_left
    intro c _
    apply List.map_congr_left
    intro i hi
    simp only [histFn, List.foldl_cons, Function.comp]
    exact local_histFn s.g hv t _ _ (fun j hj => at_map_range _ hj) i (List.mem_range.1 hi)

/-- one call that is an in-place operator or a graph edit (`set_edges`, edge assignment,
    `set_weights`; a refused edit changes nothing): the new graph, columns and dtype flag -/
theorem field_step_with_graph_edit (s : FieldSt) (hv : s.g.Valid) (hl : ∀ c ∈ s.cols, c.length = s.g.V)
    (op : FieldOp) (hop : isInPlace op = true ∨ isGraphEdit op = true) :
    (stepField s op).1 =
      ⟨graphAfter s.g op, s.cols.map (fun c => (List.range s.g.V).map (opFnD s.g op (at_ c))),
        is64After s.is64 op⟩ := by
  rcases hop with hop | hop
  · rw [field_step_is_operator s hv hl op hop, graphAfter_inPlace s.g op hop]
  · have hcols : s.cols.map (fun c => (List.range s.g.V).map (at_ c)) = s.cols := by
      have : s.cols.map (fun c => (List.range s.g.V).map (at_ c)) = s.cols.map id :=
        List.map_congr_left (fun c hc => map_at_range (hl c hc))
      rw [this, List.map_id]
    obtain ⟨g, cols, b⟩ := s
    cases op <;> simp only [isGraphEdit] at hop <;> try exact absurd hop (by decide)
    case setEdges es =>
      simp only [stepField, colOp, opFnD, is64After, id] at hcols ⊢
      by_cases hok : edgesOk g es = true
      · rw [if_pos hok, hcols]
      · rw [if_neg hok]
        simp only [graphAfter, hok, Bool.false_eq_true, if_false]
        rw [hcols]
    case setWeights ws =>
      simp only [stepField, colOp, opFnD, is64After, id] at hcols ⊢
      by_cases hok : ws.length = g.edges.length
      · rw [if_pos hok, hcols]
      · rw [if_neg hok]
        simp only [graphAfter, hok, if_false]
        rw [hcols]

/-- **Field histories with the graph replaced in place**: in-place operators interleaved with
    `set_edges` / edge assignment / `set_weights`.  The object ends with the graph the edits
    produce, and every column is the composition of the operators, EACH TAKEN ON THE GRAPH THE
    OBJECT HAD WHEN IT RAN — nothing is remembered from a replaced graph. -/
theorem field_history_with_graph_edits (s : FieldSt) (hv : s.g.Valid)
    (hl : ∀ c ∈ s.cols, c.length = s.g.V) (ops : List FieldOp)
    (hops : ∀ op ∈ ops, isInPlace op = true ∨ isGraphEdit op = true) :
    finalField s ops =
      ⟨graphFrom s.g ops, s.cols.map (fun c => (List.range s.g.V).map (histFrom s.g ops (at_ c))),
        flagFrom s.is64 ops⟩ := by
  induction ops generalizing s with
  | nil =>
    obtain ⟨g, cols, b⟩ := s
    simp only [finalField, List.foldl_nil, histFrom, graphFrom, flagFrom]
    congr 1
    have : cols.map (fun c => (List.range g.V).map (at_ c)) = cols.map id :=
      List.map_congr_left (fun c hc => map_at_range (hl c hc))
    rw [this, List.map_id]
  | cons op t ih =>
    have hstep := field_step_with_graph_edit s hv hl op (hops op List.mem_cons_self)
    simp only [finalField, List.foldl_cons] at ih ⊢
    rw [hstep]
    have hv' := graphAfter_valid s.g hv op
    have hV' := graphAfter_V s.g op
    have := ih ⟨graphAfter s.g op, s.cols.map (fun c => (List.range s.g.V).map (opFnD s.g op (at_ c))),
      is64After s.is64 op⟩ hv'
      (by intro c hc; obtain ⟨c0, _, rfl⟩ := List.mem_map.1 hc; simp [hV'])
      (fun o ho => hops o (List.mem_cons_of_mem _ ho))
    rw [this]
    simp only [List.map_map, flagFrom, graphFrom, List.foldl_cons, hV']
    congr 1
    apply List.map_congr_left
    intro c _
    apply List.map_congr_left
    intro i hi
    simp only [histFrom, Function.comp]
    have hloc := local_histFrom t (graphAfter s.g op) hv'
    rw [hV'] at hloc
    exact hloc _ _ (fun j hj => at_map_range _ hj) i (List.mem_range.1 hi)

/-- Frame: every query (`local_maxima`, `get_local_maxima`, `custom_watershed`, `highest_neighbor`,
    `copy`, `subfield` whose result is not adopted, and the opaque queries) leaves the object as it
    was; only `subfield`-and-continue changes the graph. -/
theorem field_queries_leave_object (s : FieldSt) (op : FieldOp) :
    (match op with
      | .frame | .lmax _ _ | .glmax _ _ | .ws _ _ | .hn _ | .copy _ | .subfield _ false => True
      | _ => False) →
    (stepField s op).1 = s := by
  intro h
  cases op <;> simp only at h <;> simp only [stepField, colOp]
  case subfield valid r =>
    cases r
    · split
      · rfl
      · split <;> simp
    · exact absurd h (by simp)
  case lmax d th => split <;> rfl
  case glmax d th => split <;> rfl
  case ws d th => split <;> rfl
  case hn d => split <;> rfl

/-! ## Non-vacuity -/

/-- a field with a plateau and two basins: roots, labels, arg-max -/
example :
    let g : Graph := ⟨5, [⟨0, 1, 1⟩, ⟨1, 0, 1⟩, ⟨1, 2, 1⟩, ⟨2, 1, 1⟩, ⟨2, 3, 1⟩, ⟨3, 2, 1⟩, ⟨3, 4, 1⟩, ⟨4, 3, 1⟩]⟩
    (List.range 5).map (basinRoot g [2, 2, 0, 1, 3]) = [0, 0, 0, 4, 4] ∧
      basinRoots g [2, 2, 0, 1, 3] = [0, 4] := by
  decide +kernel

end NipyVerif.C12
