/-
C20 (part Q) — memory safety of the data-dependent partition scans of `_pth_element` / `_pth_interval`
(quantile.c, fff_vector.c): the C loops have no end-of-buffer test and rely on sentinels.  Under the
invariant `PInv` of a partition pass (established by the preamble, `preamble_spec`, and preserved from
pass to pass, `partLoop_spec`, both in Lemmas/C16H) every cell the raw loops dereference lies in the
current window `[il, jr] ⊆ [0, size)`, the loops stop on the data test, and they compute what the
guarded C16 model computes — so the guard of that model is dead code on every reachable pass.
-/
import NipyVerif.Lemmas.C16H
import NipyVerif.Model.C20Q
import NipyVerif.Gen.C20Kernels

namespace NipyVerif.C20
open NipyVerif.C16 Pth

/-- a sentinel at or above `i` (a cell that fails `< a`) keeps the raw upward scan inside the buffer and
    makes it agree with the guarded scan of the C16 model -/
theorem scanUpRaw_of_sentinel (x : Array Rat) (a : Rat) (f i : Nat)
    (h : ∃ k, i ≤ k ∧ k < x.size ∧ ¬ (gv x k < a) ∧ k ≤ i + f) :
    scanUpRaw x a f i = (scanUp x a f i, true) := by
  induction f generalizing i with
  | zero => simp [scanUpRaw, scanUp]
  | succ f ih =>
      obtain ⟨k, hk1, hk2, hk3, hk4⟩ := h
      have hin : i < x.size := by omega
      simp only [scanUpRaw, scanUp, if_pos hin]
      by_cases hc : x.getD i a < a
      · rw [if_pos hc, if_pos ⟨hin, hc⟩]
        apply ih
        rcases Nat.eq_or_lt_of_le hk1 with he | hl
        · subst he
          exfalso; apply hk3
          rw [← getD_any x i a hin]; exact hc
        · exact ⟨k, by omega, hk2, hk3, by omega⟩
      · rw [if_neg hc, if_neg (fun h => hc h.2)]

/-- a sentinel at or below `j` (a cell that fails `> a`) keeps the raw downward scan from stepping
    before the buffer and makes it agree with the guarded scan -/
theorem scanDownRaw_of_sentinel (x : Array Rat) (a : Rat) (f j : Nat) (hj : j < x.size)
    (h : ∃ k, k ≤ j ∧ ¬ (gv x k > a) ∧ j ≤ k + f) :
    scanDownRaw x a f j = (scanDown x a f j, true) := by
  induction f generalizing j with
  | zero => simp [scanDownRaw, scanDown]
  | succ f ih =>
      obtain ⟨k, hk1, hk3, hk4⟩ := h
      simp only [scanDownRaw, scanDown, if_pos hj]
      by_cases hc : x.getD j a > a
      · have hne : k ≠ j := by
          intro he; subst he
          apply hk3; rw [← getD_any x k a hj]; exact hc
        have hpos : 0 < j := by omega
        rw [if_pos hc, if_neg (by omega), if_pos ⟨hpos, hc⟩]
        exact ih (j - 1) (by omega) ⟨k, by omega, hk3, by omega⟩
      · rw [if_neg hc, if_neg (fun h => hc h.2)]

/-- **every pass of the partition loop scans inside its window.**  At the head of any pass of the inner
    loop of `_pth_element` / `_pth_interval` (state satisfying `PInv`, i.e. every state the code reaches),
    the two sentinel scans *as written in C, without bounds tests* dereference only cells of the window:
    they are defined (`true`), agree with the guarded model, the upward one stops at an index `≤ jr`, the
    downward one at an index `≥ il`, and `jr < size`. -/
theorem pth_pass_scans_in_window (a : Rat) (il jr : Nat) (same : Bool) (x0 x : Array Rat) (i j : Nat)
    (inv : PInv a il jr same x0 x i j) :
    scanUpRaw x a x.size i = (scanUp x a x.size i, true) ∧
    scanDownRaw x a x.size j = (scanDown x a x.size j, true) ∧
    il < i ∧ scanUp x a x.size i ≤ jr ∧ il ≤ scanDown x a x.size j ∧ scanDown x a x.size j ≤ jr ∧
    jr < x.size := by
  have hjr := inv.hjr
  have hlt := inv.hlt
  have hi1 := inv.hi1
  have hij := inv.hij
  have hj := inv.hj
  have hile : i ≤ jr := by
    by_contra hc
    have hjj : j = jr := by omega
    have := inv.hfirst hjj
    omega
  have hsU : ¬ (gv x jr < a) := not_lt.mpr inv.hsent
  have hsD : ¬ (gv x il > a) := by rw [inv.hil]; exact lt_irrefl _
  have hjs : j < x.size := by omega
  obtain ⟨_, _, hu3⟩ := scanUp_spec x a x.size i
  obtain ⟨hd1, _, hd3⟩ := scanDown_spec x a x.size j
  refine ⟨scanUpRaw_of_sentinel x a x.size i ⟨jr, hile, hjr, hsU, by omega⟩,
    scanDownRaw_of_sentinel x a x.size j hjs ⟨il, by omega, hsD, by omega⟩, hi1,
    hu3 jr hile hjr hsU (by omega), hd3 il (by omega) hjs hsD (by omega), by omega, hjr⟩

/-- **the first pass starts from the invariant**: whatever the buffer, after the preamble of the outer loop
    (order the two ends, pivot `x[il]`) the raw scans of the first pass stay inside `[il, jr]`. -/
theorem pth_first_pass_scans_in_window (x : Array Rat) (il jr : Nat) (hlt : il < jr) (hjr : jr < x.size) :
    let x1 := if x.getD il 0 > x.getD jr 0 then swapA x il jr else x
    (scanUpRaw x1 (gv x1 il) x1.size (il + 1)).2 = true ∧
    (scanDownRaw x1 (gv x1 il) x1.size jr).2 = true ∧
    (scanUpRaw x1 (gv x1 il) x1.size (il + 1)).1 ≤ jr ∧ il ≤ (scanDownRaw x1 (gv x1 il) x1.size jr).1 := by
  intro x1
  obtain ⟨_, inv⟩ := preamble_spec x il jr hlt hjr x1 rfl
  obtain ⟨h1, h2, _, h4, h5, _, _⟩ := pth_pass_scans_in_window _ il jr _ x1 x1 (il + 1) jr inv
  rw [h1, h2]
  exact ⟨rfl, rfl, h4, h5⟩

/-- **the raw scans are the loops of the current C text**: one unfolding of `scanUpRaw` / `scanDownRaw` runs the
    test and the index step regenerated from `quantile.c` (`Gen/C20Kernels.lean`, `_pth_element` and
    `_pth_interval`: `while (*bufl < a) i++`, `while (*bufr > a) j--`).  A change of either comparison (say
    `<=`, which walks past a sentinel equal to the pivot) or of a step changes the generated definitions and
    this theorem no longer checks. -/
theorem pth_scans_as_written (x : Array Rat) (a : Rat) (f i j : Nat) :
    scanUpRaw x a (f + 1) i =
      (if i < x.size then
        (if Kern.Quantile.scanUpTestEl (x.getD i a) a then scanUpRaw x a f (i + Kern.Quantile.scanUpStepEl.toNat)
         else (i, true))
       else (i, false)) ∧
    scanDownRaw x a (f + 1) j =
      (if j < x.size then
        (if Kern.Quantile.scanDownTestEl (x.getD j a) a then
          (if j = 0 then (j, false) else scanDownRaw x a f (j - (-Kern.Quantile.scanDownStepEl).toNat))
         else (j, true))
       else (j, false)) ∧
    Kern.Quantile.scanUpTestIv = Kern.Quantile.scanUpTestEl ∧
    Kern.Quantile.scanDownTestIv = Kern.Quantile.scanDownTestEl ∧
    Kern.Quantile.scanUpStepIv = Kern.Quantile.scanUpStepEl ∧
    Kern.Quantile.scanDownStepIv = Kern.Quantile.scanDownStepEl := by
  refine ⟨?_, ?_, rfl, rfl, rfl, rfl⟩
  · simp [scanUpRaw, Kern.Quantile.scanUpTestEl, Kern.Quantile.scanUpStepEl]
  · simp [scanDownRaw, Kern.Quantile.scanDownTestEl, Kern.Quantile.scanDownStepEl]

/-- **`lib/fff/fff_vector.c` carries the same scans**: the tests and steps regenerated from `_fff_pth_element` /
    `_fff_pth_interval` are those of quantile.c, so `pth_scans_as_written` and the in-window theorems speak about
    the fff copy as well (its partition protocol around the scans is compared with the C16 model, not translated). -/
theorem fff_pth_scans_same_as_quantile :
    Kern.FffVec.scanUpTestEl = Kern.Quantile.scanUpTestEl ∧ Kern.FffVec.scanDownTestEl = Kern.Quantile.scanDownTestEl ∧
    Kern.FffVec.scanUpTestIv = Kern.Quantile.scanUpTestEl ∧ Kern.FffVec.scanDownTestIv = Kern.Quantile.scanDownTestEl ∧
    Kern.FffVec.scanUpStepEl = Kern.Quantile.scanUpStepEl ∧ Kern.FffVec.scanDownStepEl = Kern.Quantile.scanDownStepEl ∧
    Kern.FffVec.scanUpStepIv = Kern.Quantile.scanUpStepEl ∧ Kern.FffVec.scanDownStepIv = Kern.Quantile.scanDownStepEl :=
  ⟨rfl, rfl, rfl, rfl, rfl, rfl, rfl, rfl⟩

/-- **the stores of a pass are inside the window too**: `SWAP(*bufl, *bufr)` after the scans (taken when
    `i < j`) touches two cells of `[il, jr]`, and the same-extremities escape swaps `x[il]` with `x[jr - 1]`,
    both inside the window — so a pass neither reads nor writes outside `[il, jr] ⊆ [0, size)`. -/
theorem pth_pass_swaps_in_window (a : Rat) (il jr : Nat) (same : Bool) (x0 x : Array Rat) (i j : Nat)
    (inv : PInv a il jr same x0 x i j) :
    (scanUp x a x.size i < scanDown x a x.size j →
      il < scanUp x a x.size i ∧ scanUp x a x.size i ≤ jr ∧
      il ≤ scanDown x a x.size j ∧ scanDown x a x.size j ≤ jr) ∧
    il ≤ jr - 1 ∧ jr - 1 < x.size := by
  obtain ⟨_, _, h3, h4, h5, h6, h7⟩ := pth_pass_scans_in_window a il jr same x0 x i j inv
  obtain ⟨hu1, _, _⟩ := scanUp_spec x a x.size i
  have hlt := inv.hlt
  refine ⟨fun _ => ⟨by omega, h4, h5, h6⟩, by omega, by omega⟩

/-- the hypotheses are satisfiable and the sentinel matters: on `[3, 1, 2]` with pivot `x[0]` the raw
    upward scan from 1 without a sentinel would run off the end (`false`), with the window ordered it does not -/
example : (scanUpRaw #[3, 1, 2] 3 3 1).2 = false ∧ (scanUpRaw #[2, 1, 3] 2 3 1) = (2, true) := by
  decide +kernel

end NipyVerif.C20
