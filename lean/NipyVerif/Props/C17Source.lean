/-
C17 (source tie) — the terms regenerated from the *text* of `permutation_test.py`, `labs/utils/zscore.py`,
`mixed_effects_stat.py`, `fff_base.h`, `fff_onesample_stat.c`, `fff_twosample_stat.c`
(`Gen/C17Source.lean`, written by `harness/props/c17_source.py` before every build) are what the model
implements.  An edit of a source expression (a comparison operator, a divisor, an operand, the order of
two statements) changes the generated term and breaks the matching `*_from_source` proof.
-/
import NipyVerif.Gen.C17Source
import NipyVerif.Model.C17Src
import NipyVerif.Lemmas.C17P
import NipyVerif.Lemmas.C17M
import NipyVerif.Props.C17D

namespace NipyVerif.C17
open NipyVerif.C17.Src

/-! ## permutation_test.py -/

/-- `pvalue()` as written is the model's clamped pseudo p-value -/
theorem pvalue_from_source (draws : List Rat) (t : Rat) : pvalueSrc draws t = pvalueClamped draws t := rfl

/-- the pseudo p-values inside the cluster / region Fisher statistics are the same expression -/
theorem cluster_pseudo_p_from_source (draws : List Rat) (t : Rat) :
    clusterPseudoPSrc draws t = pvalueClamped draws t := rfl

theorem region_pseudo_p_from_source (draws : List Rat) (t : Rat) :
    regionPseudoPSrc draws t = pvalueClamped draws t := rfl

/-- so each of them lies in (0, 1] for every statistic value (through `pvalue_p_in_unit`) -/
theorem pvalue_source_in_unit (draws : List Rat) (t : Rat) (hne : draws ≠ []) :
    0 < pvalueSrc draws t ∧ pvalueSrc draws t ≤ 1 ∧
    0 < clusterPseudoPSrc draws t ∧ clusterPseudoPSrc draws t ≤ 1 ∧
    0 < regionPseudoPSrc draws t ∧ regionPseudoPSrc draws t ≤ 1 := by
  have h := pvalue_p_in_unit draws t hne
  exact ⟨h.1, h.2, h.1, h.2, h.1, h.2⟩

/-- `p_values += perm_Tvalues >= self.Tvalues`, then `/ float(nmagic)`: the model's `voxelP` -/
theorem voxelP_from_source (permT : List (List Rat)) (T : List Rat) :
    voxelP permT T = (List.range T.length).map fun j =>
      voxelPSrc ((permT.filter (fun row => voxelHitSrc (row.getD j 0) (T.getD j 0))).length : Rat)
        ((permT.length : Nat) : Rat) := by
  unfold voxelP voxelPSrc voxelHitSrc
  rfl

/-- `Corr_p_values += max(perm_Tvalues) >= self.Tvalues`, then `/ float(nmagic)`: `voxelCorrP` -/
theorem voxelCorrP_from_source (permT : List (List Rat)) (T : List Rat) :
    voxelCorrP permT T = T.map fun tj =>
      voxelCorrPSrc ((permT.filter (fun row => voxelCorrHitSrc (maxList row) tj)).length : Rat)
        ((permT.length : Nat) : Rat) := by
  unfold voxelCorrP voxelCorrPSrc voxelCorrHitSrc
  rfl

/-- cluster-level p-values (size and Fisher): pooled null values -/
theorem poolP_from_source (perm : List (List Rat)) (obs : List Rat) :
    poolP perm obs = obs.map (sizePSrc perm.flatten) ∧ poolP perm obs = obs.map (fisherPSrc perm.flatten) :=
  ⟨rfl, rfl⟩

/-- family-wise corrected cluster p-values: per-relabelling maxima, divided by `nmagic` -/
theorem maxP_from_source (perm : List (List Rat)) (obs : List Rat) :
    maxP perm obs = obs.map (sizeCorrPSrc (perm.map maxList) ((perm.length : Nat) : Rat)) ∧
    maxP perm obs = obs.map (fisherCorrPSrc (perm.map maxList) ((perm.length : Nat) : Rat)) := by
  unfold maxP sizeCorrPSrc fisherCorrPSrc pvalue
  simp

/-- region-level `Fisher_p_values[j]`, when every row holds `nmagic` values -/
theorem regionP_from_source (permF : List (List Rat)) (F : List Rat) (nmagic : Nat)
    (hrow : ∀ row ∈ permF, row.length = nmagic) :
    regionP permF F = List.zipWith (fun row f => regionPSrc row (nmagic : Rat) f) permF F := by
  unfold regionP
  induction permF generalizing F with
  | nil => simp
  | cons r rs ih =>
    cases F with
    | nil => simp
    | cons f fs =>
      simp only [List.zipWith_cons_cons]
      rw [ih fs (fun row h => hrow row (List.mem_cons_of_mem _ h))]
      congr 1
      unfold pvalue regionPSrc
      rw [hrow r List.mem_cons_self]

/-- `perm_Fisher_p_values[j][I] = 1 - arange(nmagic)/nmagic` -/
theorem rankP_from_source (row : List Rat) (m : Nat) :
    rankP row m = rankPSrc ((stableRank row m : Nat) : Rat) ((row.length : Nat) : Rat) := rfl

/-- the clip of `zscore`: for `tiny ≤ 1/2` the value handed to `norm.isf` lies in
    `[tiny, 1 - tiny]` whatever the p-value -/
theorem zClip_in_range (tiny p : Rat) (h1 : tiny ≤ 1 / 2) :
    tiny ≤ zClipSrc tiny p ∧ zClipSrc tiny p ≤ 1 - tiny := by
  unfold zClipSrc Src.rmin rmax
  split <;> split <;> constructor <;> linarith

theorem zTiny_ok : 0 < zTiny ∧ zTiny ≤ 1 / 2 := by
  unfold zTiny; constructor <;> norm_num

/-- the clip leaves a p-value of `[tiny, 1 - tiny]` unchanged -/
theorem zClip_id (tiny p : Rat) (h0 : tiny ≤ p) (h1 : p ≤ 1 - tiny) : zClipSrc tiny p = p := by
  unfold zClipSrc Src.rmin rmax
  split <;> split <;> linarith

/-! ## mixed_effects_stat.py -/

/-- the E step of `MixedEffectsModel._one_step` as written is the model's `eStepMem` -/
theorem eStepMem_from_source (y v1 yhat : List Rat) (v2 : Rat) :
    eStepMem y v1 yhat v2 = zipWith3' (fun yi vi zi => oneStepESrc v2 yi vi zi) y v1 yhat := by
  unfold eStepMem
  induction y generalizing v1 yhat with
  | nil => simp [zipWith3']
  | cons a as ih =>
    cases v1 with
    | nil => simp [zipWith3']
    | cons b bs =>
      cases yhat with
      | nil => simp [zipWith3']
      | cons c cs =>
        simp only [zipWith3']
        rw [ih bs cs]
        congr 1
        unfold oneStepESrc
        simp only [Prod.mk.injEq]
        constructor <;> ring

/-- `self.V2 = mean((Y_ - X beta)²) + mean(cvar)` is the variance update of the model's M step with
    divisor `n` -/
theorem oneStepV2_from_source (X P : List (List Rat)) (zv : List (Rat × Rat))
    (hlen : (List.zipWith (fun a c => (a - c) * (a - c)) (zv.map (·.1))
      (matVec X (matVec P (zv.map (·.1))))).length = zv.length) :
    (mStep X P (zv.length : Rat) zv).2 =
      oneStepV2Src (zv.map (·.1)) (matVec X (matVec P (zv.map (·.1)))) (zv.map (·.2)) := by
  unfold mStep oneStepV2Src meanL
  simp only [hlen, List.length_map]
  rw [add_div]

/-- the initial `V2` of `fit` is the one `memFitX` starts from -/
theorem fitInitV2_from_source (y yfit : List Rat)
    (hlen : (List.zipWith (fun a c => (a - c) * (a - c)) y yfit).length = y.length) :
    fitInitV2Src y yfit = (List.zipWith (fun a c => (a - c) * (a - c)) y yfit).sum / (y.length : Rat) := by
  unfold fitInitV2Src meanL
  rw [hlen]

/-- `X0 = X * contrast_mask`: the tested column is zeroed, every other entry is unchanged -/
theorem x0Row_from_source (column : Nat) (row : List Rat) (j : Nat) (hj : j < row.length) :
    (x0RowSrc column row).getD j 0 = if j = column then 0 else row.getD j 0 := by
  unfold x0RowSrc contrastMaskSrc
  simp only [List.getD_eq_getElem?_getD, List.getElem?_map, List.getElem?_range hj, Option.map_some,
    Option.getD_some]
  split <;> simp

/-- the generalised F statistic of `mfx_stat` is never negative, and equals twice the log-likelihood
    difference whenever that is non-negative -/
theorem fstat_from_source (ll1 ll0 : Rat) :
    0 ≤ fstatSrc ll1 ll0 ∧ (ll0 ≤ ll1 → fstatSrc ll1 ll0 = 2 * (ll1 - ll0)) := by
  simp only [fstatSrc, rmax]
  constructor
  · split <;> linarith
  · intro h; split <;> linarith

/-- the t output of `mfx_stat` has the sign of the effect (for a `sqrt` leaf that is non-negative) and is
    odd in the effect -/
theorem tFromF_from_source (sqrt : Rat → Rat) (f beta : Rat) :
    tFromFSrc sqrt f (-beta) = -tFromFSrc sqrt f beta ∧
    tFromFSrc sqrt f beta * tFromFSrc sqrt f beta = sgn beta * sgn beta * (sqrt f * sqrt f) := by
  unfold tFromFSrc
  constructor
  · rw [sgn_neg]; ring
  · ring

/-- `t_stat(Y)` squared is `(n - 1) m² / sd²` for every `sqrt` leaf with `sqrt a * sqrt a = a` on `a ≥ 0` -/
theorem tStat_from_source (sqrt : Rat → Rat) (hs : ∀ a, 0 ≤ a → sqrt a * sqrt a = a) (m sd n : Rat)
    (hn : 1 ≤ n) : tStatSrc sqrt m sd n * tStatSrc sqrt m sd n = (n - 1) * (m * m) / (sd * sd) := by
  unfold tStatSrc
  have := hs (n - 1) (by linarith)
  calc m / sd * sqrt (n - 1) * (m / sd * sqrt (n - 1))
      = (m / sd) * (m / sd) * (sqrt (n - 1) * sqrt (n - 1)) := by ring
    _ = (m / sd) * (m / sd) * (n - 1) := by rw [this]
    _ = (n - 1) * (m * m) / (sd * sd) := by rw [div_mul_div_comm]; ring

/-! ## lib/fff -/

/-- the macros of `fff_base.h` as the model reads them -/
theorem fff_macros_from_source (a b : Rat) :
    FFF_SQR a = a * a ∧ FFF_ABS a = rabs a ∧ FFF_MAX a b = rmax a b ∧ FFF_SIGN a = sgn a := by
  refine ⟨rfl, ?_, ?_, ?_⟩
  · unfold FFF_ABS rabs
    by_cases h : a > 0
    · have h' : ¬ a < 0 := not_lt.mpr (le_of_lt h)
      simp [h, h']
    · by_cases h2 : a < 0
      · simp [h, h2]
      · have : a = 0 := le_antisymm (not_lt.mp h) (not_lt.mp h2)
        simp [this]
  · unfold FFF_MAX rmax
    rfl
  · unfold FFF_SIGN sgn
    split
    · simp
    · split <;> simp

/-- `_fff_onesample_mean` as written is the model's `osMean` -/
theorem osMean_from_source (x : List Rat) (base : Rat) :
    osMeanSrc x.sum (x.length : Int) base = osMean x base := by
  unfold osMeanSrc osMean mean
  simp

/-- accumulation lemma: the sample loop of `_fff_onesample_gmfx_EM` computes the two sums the model writes
    as `List.sum`s -/
theorem gmfxBody_foldl (c : Bool) (m0 v0 : Rat) (l : List (Rat × Rat)) (acc : Rat × Rat) :
    l.foldl (gmfxBodySrc c m0 v0) acc =
      (if c then acc.1 else acc.1 + (l.map fun p => (v0 * p.1 + p.2 * m0) / (p.2 + v0)).sum,
       acc.2 + (l.map fun p => p.2 * v0 / (p.2 + v0) +
          (v0 * p.1 + p.2 * m0) / (p.2 + v0) * ((v0 * p.1 + p.2 * m0) / (p.2 + v0))).sum) := by
  induction l generalizing acc with
  | nil => cases c <;> simp
  | cons p ps ih =>
    rw [List.foldl_cons, ih]
    cases c
    · simp only [gmfxBodySrc, FFF_SQR, Bool.false_eq_true, if_false, List.map_cons, List.sum_cons, Prod.mk.injEq]
      constructor <;> ring
    · simp only [gmfxBodySrc, FFF_SQR, if_true, List.map_cons, List.sum_cons, Prod.mk.injEq]
      constructor
      · trivial
      · ring

theorem map_zip_eq_zipWith {β} (f : Rat × Rat → β) (x var : List Rat) :
    (x.zip var).map f = List.zipWith (fun a b => f (a, b)) x var := by
  rw [List.zip, List.map_zipWith]

/-- one pass of the `while` loop of `_fff_onesample_gmfx_EM` as written (unconstrained) is the model's
    `gmfxStep` -/
theorem gmfxStep_from_source (x var : List Rat) (mv : Rat × Rat) :
    gmfxStepSrc false x var mv = gmfxStep x var mv := by
  obtain ⟨m0, v0⟩ := mv
  unfold gmfxStepSrc gmfxStep gmfxNormSrc
  simp only [gmfxBody_foldl, Bool.false_eq_true, if_false, FFF_SQR, zero_add]
  rw [map_zip_eq_zipWith, map_zip_eq_zipWith, List.map_zipWith, List.map_zipWith]

/-- constrained mode (`constraint = 1`): the mean is left where it was, as in `gmfxStepC` -/
theorem gmfxStepC_from_source (x var : List Rat) (mv : Rat × Rat) :
    gmfxStepSrc true x var mv = gmfxStepC x var mv := by
  obtain ⟨m0, v0⟩ := mv
  unfold gmfxStepSrc gmfxStepC gmfxNormSrc
  simp only [gmfxBody_foldl, if_true, FFF_SQR, zero_add]
  rw [map_zip_eq_zipWith, List.map_zipWith]

/-- `_fff_onesample_student` as written: for every `sqrt` leaf with `sqrt a * sqrt a = a` on `a ≥ 0` the
    square of the returned value is the model's `(n-1)(m-base)²/(ssd/n)`, on samples with spread and
    a non-zero effect (the branch where the C code reaches `aux / std`) -/
theorem osStudent_sq_from_source (sqrt : Rat → Rat) (hs : ∀ a, 0 ≤ a → sqrt a * sqrt a = a)
    (x : List Rat) (base : Rat) (hn : 1 ≤ x.length) (hv : 0 < ssd x / (x.length : Rat))
    (hd : mean x - base ≠ 0) :
    (osStudentSq x base).2 =
      some ((osStudentSrc sqrt (ssd x) (mean x) (x.length : Int) base).2 *
            (osStudentSrc sqrt (ssd x) (mean x) (x.length : Int) base).2) := by
  unfold osStudentSq osStudentSrc
  simp only [hd, if_false, ne_of_gt hv]
  have h1 : sqrt (ssd x / (x.length : Rat)) * sqrt (ssd x / (x.length : Rat)) = ssd x / (x.length : Rat) :=
    hs _ (le_of_lt hv)
  have hn' : (0 : Rat) ≤ (x.length : Rat) - 1 := by
    have : (1 : Rat) ≤ (x.length : Rat) := by exact_mod_cast hn
    linarith
  have h2 := hs _ hn'
  congr 1
  push_cast
  rw [div_mul_div_comm, h1]
  congr 1
  calc ((x.length : Rat) - 1) * ((mean x - base) * (mean x - base))
      = (sqrt ((x.length : Rat) - 1) * sqrt ((x.length : Rat) - 1)) * ((mean x - base) * (mean x - base)) := by
        rw [h2]
    _ = _ := by ring

/-- the F / sign tail of `_fff_twosample_student_mfx`: `F ≥ 0`, and the returned value is odd in the
    group effect `b[1]` -/
theorem tsMfxTail_from_source (sqrt : Rat → Rat) (ll ll0 b1 : Rat) :
    0 ≤ (tsMfxTailSrc sqrt ll ll0 b1).1 ∧
    (tsMfxTailSrc sqrt ll ll0 (-b1)).2 = -(tsMfxTailSrc sqrt ll ll0 b1).2 := by
  unfold tsMfxTailSrc
  simp only [(fff_macros_from_source _ _).2.2.1, (fff_macros_from_source _ 0).2.2.2]
  constructor
  · unfold rmax; split <;> linarith
  · rw [sgn_neg]; ring

/-! ## whole bodies -/

theorem natOf_natCast (m : Nat) : natOf ((m : Nat) : Rat) = m := by
  unfold natOf
  have := Rat.floor_intCast (m : Int)
  rw [Int.cast_natCast] at this
  rw [this, Int.toNat_natCast]

/-- `height_threshold(pval)` as written, statement by statement (the `ceil`, the two `idx >= ndraws` tests, the
    `tvals[max(0, idx-1)] < candidate` test, `searchsorted(..., 'right')`), is the model's `heightThreshold` for
    every level `pval ≤ 1` (a level above 1 makes the Python index negative: outside the model) -/
theorem heightThreshold_from_source (draws : List Rat) (pval : Rat) (hp : pval ≤ 1) :
    heightThresholdSrc draws pval = heightThreshold draws pval := by
  have hx : (0 : Rat) ≤ ((draws.length : Nat) : Rat) * (1 - pval) :=
    mul_nonneg (by exact_mod_cast Nat.zero_le _) (by linarith)
  have hk : 0 ≤ Rat.ceil (((draws.length : Nat) : Rat) * (1 - pval)) := by
    have : (-1 : Int) < Rat.ceil (((draws.length : Nat) : Rat) * (1 - pval)) := by
      rw [Rat.lt_ceil_iff]; push_cast; linarith
    omega
  obtain ⟨m, hm⟩ := Int.eq_ofNat_of_zero_le hk
  unfold heightThresholdSrc heightThreshold searchsortedRight
  simp only [hm, Int.toNat_natCast, Int.cast_natCast, ge_iff_le, Nat.cast_le, natOf_natCast]
  have h1 : natOf (rmax (0 : Rat) ((m : Rat) - 1)) = m - 1 := by
    cases m with
    | zero =>
      have : rmax (0 : Rat) (((0 : Nat) : Rat) - 1) = ((0 : Nat) : Rat) := by unfold rmax; norm_num
      rw [this, natOf_natCast]
    | succ k =>
      have : rmax (0 : Rat) (((k + 1 : Nat) : Rat) - 1) = ((k : Nat) : Rat) := by
        unfold rmax
        push_cast
        have : ¬ ((k : Rat) + 1 - 1 < 0) := by
          have : (0 : Rat) ≤ (k : Rat) := by exact_mod_cast Nat.zero_le k
          linarith
        simp
      rw [this, natOf_natCast]; rfl
  rw [h1]

example : heightThresholdSrc [0, 1, 2, 3] (1 / 4) = some 3 := by decide +kernel

theorem iter_congr {α} (f g : α → α) (h : ∀ a, f a = g a) : ∀ (n : Nat) (a : α), iter f n a = iter g n a := by
  intro n
  induction n with
  | zero => intro a; rfl
  | succ k ih => intro a; simp only [iter]; rw [h a, ih]

/-- the whole EM loop with the body taken from the C text is the model's `gmfxEM` -/
theorem gmfxEM_from_source (x var : List Rat) (niter : Nat) (c : Bool) :
    gmfxEMSrc x var niter c = gmfxEM x var niter c := by
  unfold gmfxEMSrc gmfxEM
  cases c
  · simp only [Bool.false_eq_true, if_false]
    exact iter_congr _ _ (gmfxStep_from_source x var) _ _
  · simp only [if_true]
    exact iter_congr _ _ (gmfxStepC_from_source x var) _ _

theorem zipWith_map_const_right {β} (f : Rat → Rat → β) (b : Rat) (z : List Rat) :
    List.zipWith f z (z.map fun _ => b) = z.map fun u => f u b := by
  induction z with
  | nil => rfl
  | cons a as ih => simp only [List.map_cons, List.zipWith_cons_cons, ih]

/-- `MixedEffectsModel._one_step` with the statements taken from the Python text (design `X = 1`) is the
    model's `memStep`, for as many first-level variances as observations -/
theorem memStep_from_source (y v1 : List Rat) (bv : Rat × Rat) (hlen : y.length = v1.length) :
    memStepSrc y v1 bv = memStep y v1 bv := by
  obtain ⟨b0, v2⟩ := bv
  have hz : (List.zipWith (fun yi vi => oneStepESrc v2 yi vi b0) y v1).map (·.1) =
      List.zipWith (fun yi si => (v2 * yi + si * b0) / (v2 + si)) y v1 := by
    rw [List.map_zipWith]
    congr 1; funext yi si; simp only [oneStepESrc]; ring
  have hc : (List.zipWith (fun yi vi => oneStepESrc v2 yi vi b0) y v1).map (·.2) =
      List.zipWith (fun (_ : Rat) si => si * v2 / (v2 + si)) y v1 := by
    rw [List.map_zipWith]
    congr 1; funext yi si; simp only [oneStepESrc]; ring
  have hl : (List.zipWith (fun yi si => (v2 * yi + si * b0) / (v2 + si)) y v1).length = y.length := by
    simp [hlen]
  have hl2 : (List.zipWith (fun (_ : Rat) si => si * v2 / (v2 + si)) y v1).length = y.length := by
    simp [hlen]
  unfold memStepSrc memStep oneStepV2Src meanL
  simp only [hz, hc, zipWith_map_const_right, List.length_map, hl, hl2]

/-- … and so is the whole `fit` (initial `V2`, then `n_iter` steps) -/
theorem memFit_from_source (y v1 : List Rat) (niter : Nat) (hlen : y.length = v1.length) :
    memFitSrc y v1 niter = memFit y v1 niter := by
  unfold memFitSrc memFit fitInitV2Src meanL
  rw [zipWith_map_const_right, List.length_map]
  exact iter_congr _ _ (fun a => memStep_from_source y v1 a hlen) _ _

/-! ## Fisher statistics of clusters and regions -/

/-- `Fisher_values[i] = -np.sum(np.log(pseudo_p_values[I]))` as written, on the pseudo p-values as written:
    never negative, for every `log` leaf that is `≤ 0` on (0, 1] and every non-empty null sample — whatever the
    statistic values and the voxels of the cluster / region (an empty one has Fisher value 0) -/
theorem fisher_nonneg_from_source (log : Rat → Rat) (hlog : ∀ p, 0 < p → p ≤ 1 → log p ≤ 0)
    (draws : List Rat) (hne : draws ≠ []) (ts : List Rat) :
    0 ≤ clusterFisherSrc log (ts.map (clusterPseudoPSrc draws)) ∧
    0 ≤ regionFisherSrc log (ts.map (regionPseudoPSrc draws)) ∧
    clusterFisherSrc log [] = 0 ∧ regionFisherSrc log [] = 0 := by
  have key : ((ts.map (pvalueClamped draws)).map log).sum ≤ 0 := by
    induction ts with
    | nil => simp
    | cons t ts ih =>
      have h := pvalue_p_in_unit draws t hne
      have := hlog _ h.1 h.2
      simp only [List.map_cons, List.sum_cons]; linarith
  have e1 : clusterPseudoPSrc draws = pvalueClamped draws := funext fun t => rfl
  have e2 : regionPseudoPSrc draws = pvalueClamped draws := funext fun t => rfl
  unfold clusterFisherSrc regionFisherSrc
  rw [e1, e2]
  refine ⟨by linarith, by linarith, by simp, by simp⟩

/-- a cluster / region that gains a voxel does not lose Fisher mass -/
theorem fisher_mono_from_source (log : Rat → Rat) (hlog : ∀ p, 0 < p → p ≤ 1 → log p ≤ 0)
    (draws : List Rat) (hne : draws ≠ []) (t : Rat) (ts : List Rat) :
    clusterFisherSrc log (ts.map (clusterPseudoPSrc draws)) ≤
      clusterFisherSrc log ((t :: ts).map (clusterPseudoPSrc draws)) ∧
    regionFisherSrc log (ts.map (regionPseudoPSrc draws)) ≤
      regionFisherSrc log ((t :: ts).map (regionPseudoPSrc draws)) := by
  have h := pvalue_p_in_unit draws t hne
  have h' := hlog _ h.1 h.2
  have e1 : clusterPseudoPSrc draws t = pvalueClamped draws t := rfl
  have e2 : regionPseudoPSrc draws t = pvalueClamped draws t := rfl
  unfold clusterFisherSrc regionFisherSrc
  simp only [List.map_cons, List.sum_cons, e1, e2]
  constructor <;> linarith

/-- the hypothesis on the `log` leaf is satisfiable -/
example : ∀ p : Rat, 0 < p → p ≤ 1 → (fun q : Rat => q - 1) p ≤ 0 := by
  intro p _ h
  show p - 1 ≤ 0
  linarith

/-! ## algorithms/statistics/onesample.py -/

/-- the body of the EM loop of `estimate_varatio` as written (seven statements) is the model's `varatioStep` -/
theorem varatioStep_from_source (y sm : List Rat) (sigma2 : Rat) :
    varatioStepSrc y sm sigma2 = varatioStep y sm sigma2 := by
  simp only [varatioStepSrc, varatioStep, List.map_map, List.zipWith_map_right, List.map_zipWith,
    Function.comp_def]

/-- `estimate_varatio` as written — the statements before the loop, `niter` passes, the statements after it — is
    the model's `estimateVaratio` with `Sreduction` as the source spells it: no iterate is outside the model -/
theorem estimateVaratio_from_source (y sd df : List Rat) (niter : Nat) (mn : Rat) :
    estimateVaratioSrc y sd df niter mn = estimateVaratio y sd df niter (99 / 100) mn := by
  simp only [estimateVaratioSrc, estimateVaratio, fixedVar, List.map_map, Function.comp_def]
  rw [iter_congr _ _ (varatioStep_from_source y _)]

theorem posRecipr_nonneg (x : Rat) : 0 ≤ posRecipr x := by
  unfold posRecipr
  split
  · exact le_of_lt (one_div_pos.mpr ‹_›)
  · exact le_refl _

/-- `estimate_mean` as written (`resid = (Y - effect) * sqrt(W)`, `scale = Σ resid² / (n - 1)`) is the model's
    `estimateMean`, for every `sqrt` leaf with `sqrt a * sqrt a = a` on `a ≥ 0` -/
theorem estimateMean_from_source (sqrt : Rat → Rat) (hs : ∀ a, 0 ≤ a → sqrt a * sqrt a = a) (y sd : List Rat) :
    estimateMeanSrc sqrt y sd = estimateMean y sd := by
  simp only [estimateMeanSrc, estimateMean, List.map_map, List.zipWith_map_right, List.zipWith_map_left,
    List.map_zipWith, Function.comp_def]
  have key : ∀ (e : Rat), (fun (a b : Rat) => (a - e) * sqrt (posRecipr (b * b)) * ((a - e) * sqrt (posRecipr (b * b)))) =
      fun a b => (a - e) * (a - e) * posRecipr (b * b) := by
    intro e; funext a b
    have := hs _ (posRecipr_nonneg (b * b))
    calc (a - e) * sqrt (posRecipr (b * b)) * ((a - e) * sqrt (posRecipr (b * b)))
        = (a - e) * (a - e) * (sqrt (posRecipr (b * b)) * sqrt (posRecipr (b * b))) := by ring
      _ = _ := by rw [this]
  rw [key]

/-! ## more statistic bodies of lib/fff -/

theorem osSignBody_step (base : Rat) (acc : Rat × Rat) (xi : Rat) :
    (osSignBodySrc base acc xi).1 - (osSignBodySrc base acc xi).2 = acc.1 - acc.2 + sgn (xi - base) := by
  unfold osSignBodySrc sgn
  by_cases h1 : xi - base > 0
  · have h1' : 0 < xi - base := h1
    simp only [h1, if_true]; ring
  · have h1' : ¬ 0 < xi - base := h1
    by_cases h2 : xi - base < 0
    · simp only [h1, h2, if_true, if_false]; ring
    · simp only [h1, h2, if_false]; ring

theorem osSignBody_foldl (base : Rat) (l : List Rat) (acc : Rat × Rat) :
    (l.foldl (osSignBodySrc base) acc).1 - (l.foldl (osSignBodySrc base) acc).2 =
      acc.1 - acc.2 + (l.map (fun v => sgn (v - base))).sum := by
  induction l generalizing acc with
  | nil => simp
  | cons a as ih =>
    rw [List.foldl_cons, ih, osSignBody_step]
    simp only [List.map_cons, List.sum_cons]; ring

/-- `_fff_onesample_sign_stat` as written (the three-way test with its half counts, `(rp - rm)/n`) is the model's
    `osSign` -/
theorem osSign_from_source (x : List Rat) (base : Rat) : osSignSrc x base = osSign x base := by
  unfold osSignSrc osSign
  simp only [osSignBody_foldl, sub_self, zero_add]
  simp

theorem ite_lt_swap (a b : Rat) : (if b < a then a else b) = (if a < b then b else a) := by
  by_cases h1 : b < a
  · have : ¬ a < b := not_lt.mpr (le_of_lt h1)
    simp [h1, this]
  · by_cases h2 : a < b
    · simp [h1, h2]
    · have : a = b := le_antisymm (not_lt.mp h1) (not_lt.mp h2)
      simp [this]

/-- `_fff_onesample_laplace` as written: sign, `s0` (after `FFF_MAX`) and `s` are the model's `osLaplace` -/
theorem osLaplace_from_source (sqrt log : Rat → Rat) (x : List Rat) (base : Rat) :
    let r := osLaplaceSrc sqrt log (sad x (median x)) (sad x base) (median x) (x.length : Int) base
    (r.1, r.2.1, r.2.2.1) = osLaplace x base := by
  simp only [osLaplaceSrc, osLaplace, (fff_macros_from_source _ _).2.2.1, (fff_macros_from_source _ 0).2.2.2, rmax,
    Int.cast_natCast]
  rw [ite_lt_swap]

/-- `_fff_onesample_tukey` as written: sign, `s0` (after `FFF_MAX`) and `s` are the model's `osTukey` -/
theorem osTukey_from_source (sqrt log : Rat → Rat) (x : List Rat) (base : Rat) :
    let r := osTukeySrc sqrt log (median (x.map (fun v => rabs (v - median x))))
      (median (x.map (fun v => rabs (v - base)))) (median x) (x.length : Int) base
    (r.1, r.2.1, r.2.2.1) = osTukey x base := by
  simp only [osTukeySrc, osTukey, (fff_macros_from_source _ _).2.2.1, (fff_macros_from_source _ 0).2.2.2]

theorem tsWilcoxonInner_step (a aux b : Rat) : tsWilcoxonInnerSrc a aux b = aux + sgn (a - b) := by
  unfold tsWilcoxonInnerSrc sgn
  by_cases h1 : a > b
  · have : 0 < a - b := by linarith
    simp only [h1, this, if_true]
  · by_cases h2 : b > a
    · have h3 : ¬ 0 < a - b := by linarith
      have h4 : a - b < 0 := by linarith
      simp only [h1, h2, h3, h4, if_true, if_false]; ring
    · have h3 : ¬ 0 < a - b := by linarith
      have h4 : ¬ a - b < 0 := by linarith
      simp only [h1, h2, h3, h4, if_false]; ring

theorem tsWilcoxonInner_foldl (a : Rat) (l : List Rat) (aux : Rat) :
    l.foldl (tsWilcoxonInnerSrc a) aux = aux + (l.map (fun b => sgn (a - b))).sum := by
  induction l generalizing aux with
  | nil => simp
  | cons b bs ih => rw [List.foldl_cons, ih, tsWilcoxonInner_step]; simp only [List.map_cons, List.sum_cons]; ring

theorem foldl_add_map (f : Rat → Rat) (l : List Rat) (w : Rat) :
    l.foldl (fun w a => w + f a) w = w + (l.map f).sum := by
  induction l generalizing w with
  | nil => simp
  | cons a as ih => rw [List.foldl_cons, ih]; simp only [List.map_cons, List.sum_cons]; ring

/-- `_fff_twosample_wilcoxon` as written (loop nest, the two strict comparisons, `aux /= n2`, `w += aux`) is the
    model's `tsWilcoxon` -/
theorem tsWilcoxon_from_source (x1 x2 : List Rat) : tsWilcoxonSrc x1 x2 = tsWilcoxon x1 x2 := by
  unfold tsWilcoxonSrc tsWilcoxon
  simp only [tsWilcoxonInner_foldl, zero_add, Int.cast_natCast]
  rw [foldl_add_map (fun a => (x2.map (fun b => sgn (a - b))).sum / (x2.length : Rat)) x1 0, zero_add]

end NipyVerif.C17
