/-
C12 (wave 4) — the model implements what the source says *now*: `Gen/C12Source.lean` is regenerated from the
text of nipy/algorithms/graph/field.py, forest.py and `_graph.pyx` (`dilation`) on every run
(harness/props/c12_translate.py turns the tests and update expressions into Lean terms); the theorems below
state, for all arguments, that those terms are the ones the model computes with.  Flipping a comparison
(`>` for `>=`), a reducer (`max` for `min`, `argmax` for `argmin`), the self-inclusion of a vertex in its
neighbourhood, an index, the order of two calls or a statement of a sweep changes the generated term and breaks
the proof here.
-/
import NipyVerif.Props.C12B
import NipyVerif.Props.C12F
import NipyVerif.Lemmas.C12G
import NipyVerif.Gen.C12Source

namespace NipyVerif.C12

/-! ## how the generated terms are read -/

theorem beq_dec {α} [BEq α] [LawfulBEq α] [DecidableEq α] (a b : α) : (a == b) = decide (a = b) := by
  rw [Bool.eq_iff_iff]; simp

/-- running reduction: `x` replaces the value kept so far when `take x kept` -/
def pickFold (take : Rat → Rat → Bool) (a : Rat) (l : List Rat) : Rat :=
  l.foldl (fun m x => if take x m then x else m) a

def pickList (take : Rat → Rat → Bool) : List Rat → Option Rat
  | [] => none
  | a :: l => some (pickFold take a l)

/-- arg-reduction over a list of vertices: a later vertex replaces the best so far when `take` says so -/
def pickArg (take : Rat → Rat → Bool) (f : Nat → Rat) : List Nat → Option Nat
  | [] => none
  | j :: r => some (r.foldl (fun b x => if take (f x) (f b) then x else b) j)

/-- row `i` of the adjacency, with the diagonal added or not -/
def rowSrc (diag : Bool) (g : Graph) (i : Nat) : List Nat :=
  (List.range g.V).filter (fun j => (diag && j == i) || g.adj i j)

theorem rowSrc_true (g : Graph) (i : Nat) : rowSrc true g i = closedRow g i := by
  simp [rowSrc, closedRow]

theorem rowSrc_false (g : Graph) (i : Nat) : rowSrc false g i = openRow g i := by
  simp [rowSrc, openRow]

/-! ## `_graph.pyx` `dilation` and `Field.dilation` -/

theorem foldMax_pyx : foldMax = pickFold Gen.pyxTakeSrc := by
  funext a l; simp [foldMax, pickFold, Gen.pyxTakeSrc]

theorem foldMax_generic : foldMax = pickFold Gen.dilTakeSrc := by
  funext a l; simp [foldMax, pickFold, Gen.dilTakeSrc]

theorem foldMin_erosion : foldMin = pickFold Gen.eroTakeSrc := by
  funext a l; simp [foldMin, pickFold, Gen.eroTakeSrc]

/-- **compiled path**: one pass of the model is the loop nest of `_graph.pyx`: start from the vertex's own value,
    run over `neighb[idx[i] : idx[i + 1]]`, take a neighbour's value over by the source's test -/
theorem pyx_dilation_as_modelled (g : Graph) (col : List Rat) :
    fastDilateCol g col = (List.range g.V).map (fun i => pickFold Gen.pyxTakeSrc (at_ col i)
      ((((neighb g).drop (Gen.pyxLoSrc (idxAt g) i)).take
        (Gen.pyxHiSrc (idxAt g) i - Gen.pyxLoSrc (idxAt g) i)).map (at_ col))) := by
  rw [← foldMax_pyx]; rfl

theorem pyx_statements_as_modelled :
    Gen.pyxStartSrc = "fmax = field[i, d]" ∧
    Gen.pyxWriteBackSrc = ["res[i] = fmax", "field[i, d] = res[i]"] ∧
    Gen.pyxRangesSrc = ["range(dim)", "range(size_max)", "range(idx[i], idx[i + 1])", "range(size_max)"] :=
  ⟨rfl, rfl, rfl⟩

/-- which path runs: the call's flag, switched off by the dtype test as written -/
theorem dilation_path_as_modelled (g : Graph) (is64 : Bool) (n : Nat) (fast : Bool) :
    colOp g is64 (.dilation n fast) = some (dilate g n (Gen.dilFastSrc fast is64)) := by
  cases fast <;> cases is64 <;> rfl

/-- the `if self.E > 0` guard of the compiled branch -/
theorem dilation_guard_as_modelled (g : Graph) (n : Nat) (col : List Rat) :
    fastDilate g n col = if Gen.dilGuardSrc g.edges.length then iter (fastDilateCol g) n col else col := by
  unfold fastDilate Gen.dilGuardSrc
  cases h : g.edges <;> simp

theorem listMax_generic : listMax = pickList Gen.dilTakeSrc := by
  funext l; cases l <;> simp [listMax, pickList, foldMax_generic]

theorem listMin_erosion : listMin = pickList Gen.eroTakeSrc := by
  funext l; cases l <;> simp [listMin, pickList, foldMin_erosion]

/-- **generic path**: rows of `adj + I` as the source builds them, reduced by the source's reducer -/
theorem generic_dilation_as_modelled (g : Graph) (col : List Rat) :
    slowDilateCol g col = (List.range g.V).mapM (fun i =>
      pickList Gen.dilTakeSrc ((rowSrc Gen.dilDiagSrc g i).map (at_ col))) := by
  simp only [Gen.dilDiagSrc, rowSrc_true, ← listMax_generic]; rfl

/-- **erosion**: the neighbourhood (vertex included or not) and the reducer are the source's -/
theorem erosion_as_modelled (g : Graph) (col : List Rat) :
    erodeCol g col = (List.range g.V).mapM (fun i =>
      pickList Gen.eroTakeSrc ((rowSrc Gen.eroDiagSrc g i).map (at_ col))) := by
  simp only [Gen.eroDiagSrc, rowSrc_true, ← listMin_erosion]; rfl

theorem argmaxRow_hn (f : Nat → Rat) : argmaxRow f = pickArg Gen.hnTakeSrc f := by
  funext l; cases l <;> simp [argmaxRow, pickArg, Gen.hnTakeSrc]

theorem argmaxRow_within (f : Nat → Rat) : argmaxRow f = pickArg Gen.argmaxWithinTakeSrc f := by
  funext l; cases l <;> simp [argmaxRow, pickArg, Gen.argmaxWithinTakeSrc]

/-- **highest_neighbor**: first arg-max over the row of `adj + I` -/
theorem highest_neighbor_as_modelled (g : Graph) (col : List Rat) (i : Nat) :
    highestNeighbor g col i = (pickArg Gen.hnTakeSrc (at_ col) (rowSrc Gen.hnDiagSrc g i)).getD i := by
  simp only [Gen.hnDiagSrc, rowSrc_true, ← argmaxRow_hn]; rfl

/-- **`_argmax_within`** (the `idx` of `custom_watershed` and `threshold_bifurcations`) -/
theorem argmax_within_as_modelled (V : Nat) (val : Nat → Rat) (mask : Nat → Bool) :
    maskedArgmax V val mask = (pickArg Gen.argmaxWithinTakeSrc val ((List.range V).filter mask)).getD 0 := by
  rw [← argmaxRow_within]; rfl

/-- a sequence of in-place calls, by name -/
def seqOp (g : Graph) (n : Nat) (is64 : Bool) : List String → List Rat → Option (List Rat)
  | [], c => some c
  | s :: r, c =>
    if s == "erosion" then (erode g n c).bind (seqOp g n is64 r)
    else if s == "dilation" then (dilate g n is64 c).bind (seqOp g n is64 r)
    else none

/-- **opening / closing**: the two calls in the source's order -/
theorem opening_closing_as_modelled (g : Graph) (n : Nat) (is64 : Bool) :
    colOp g is64 (.opening n) = some (seqOp g n is64 Gen.openingSeqSrc) ∧
    colOp g is64 (.closing n) = some (seqOp g n is64 Gen.closingSeqSrc) := by
  constructor <;>
  · simp only [colOp, Gen.openingSeqSrc, Gen.closingSeqSrc, Option.some.injEq]
    funext c
    simp [seqOp]

/-- **diffusion**: the adjacency without diagonal, applied from the left -/
theorem diffusion_as_modelled :
    Gen.diffDiagSrc = false ∧ Gen.diffStepSrc = ["self.field = adj * self.field"] ∧
    Gen.eroStmtsSrc = ["nf = np.zeros_like(self.field)", "self.field = nf"] := ⟨rfl, rfl, rfl⟩

/-- **subfield / copy / set_field**: the statements the history model (`subState`, `copy`, `setField`) stands for -/
theorem subfield_copy_statements_as_modelled :
    Gen.subfieldSrc = ["G = self.subgraph(valid)", "if G is None:", "field = self.field[valid]",
      "if len(G.edges) == 0:", "return Field(G.V, edges, G.weights, field)"] ∧
    Gen.copySrc = ["return Field(self.V, self.edges.copy(), self.weights.copy(), self.field.copy())"] ∧
    Gen.setFieldSrc = ["if np.size(field) == self.V:", "if field.shape[0] != self.V:"] := ⟨rfl, rfl, rfl⟩

/-! ## `local_maxima` -/

/-- one round of the loop of `local_maxima`, with the source's tests and updates -/
theorem lmaxLoop_as_modelled (g : Graph) (init : List Rat) (fuel k : Nat) (cur : List Rat) (ld : List Nat) :
    lmaxLoop g init (fuel + 1) k cur ld =
      (let nxt := fastDilate g 1 cur
       let nonMax := (List.range g.V).map (fun i => Gen.lmaxNonMaxSrc (at_ nxt i) (at_ cur i))
       let ld1 := (List.range g.V).map (fun i =>
         if nonMax.getD i false then Gen.lmaxUpdSrc k (ld.getD i 0) else ld.getD i 0)
       if nonMax.all (· == false) then
         (List.range g.V).map (fun i =>
           if Gen.lmaxFinalTestSrc (at_ nxt i) (at_ init i) then Gen.lmaxFinalValSrc k else ld1.getD i 0)
       else lmaxLoop g init fuel (k + 1) nxt ld1) := by
  rw [lmaxLoop]
  simp [Gen.lmaxNonMaxSrc, Gen.lmaxUpdSrc, Gen.lmaxFinalTestSrc, Gen.lmaxFinalValSrc]

/-- `local_maxima`: threshold test (selection and write-back) and the start value of `ldepth` -/
theorem local_maxima_as_modelled (g : Graph) (col : List Rat) (th : Rat) :
    localMaxima g col th =
      (let valid := fun v => Gen.lmaxThreshSrc (at_ col v) th
       let sg := subgraph g valid
       let sc := subcol g.V valid col
       let ld := lmaxLoop sg sc sg.V 0 sc (List.replicate sg.V (Gen.lmaxStartSrc sg.V))
       (List.range g.V).map (fun v => if Gen.lmaxWriteSrc (at_ col v) th then ld.getD (renumb valid v) 0 else 0)) := by
  simp only [localMaxima, Gen.lmaxThreshSrc, Gen.lmaxWriteSrc, Gen.lmaxStartSrc, Nat.mul_one, ge_iff_le]

theorem local_maxima_statements_as_modelled :
    Gen.lmaxStopSrc = "(non_max == False).all()" ∧
    Gen.lmaxLoopSrc = ["dilated_field_old = sf.field.ravel().copy()", "sf.dilation(1)", "sf.field.T[refdim]"] ∧
    Gen.glmaxSrc = ["depth_all = self.local_maxima(refdim, th)", "idx = np.ravel(np.where(depth_all))",
      "depth = depth_all[idx]", "return (idx, depth)"] := ⟨rfl, rfl, rfl⟩

/-! ## `custom_watershed`, `threshold_bifurcations` -/

theorem watershed_as_modelled (g : Graph) (col : List Rat) (th : Rat) :
    watershed g col th =
      (let valid := fun v => Gen.wsThreshSrc (at_ col v) th
       let sg := subgraph g valid
       let sc := subcol g.V valid col
       let old := retained g.V valid
       ((basinRoots sg sc).map (fun r => old.getD r 0),
        (List.range g.V).map (fun v =>
          if Gen.wsWriteSrc (at_ col v) th then (basinLabel sg sc (renumb valid v) : Int) else Gen.wsStartSrc))) := by
  simp only [watershed, Gen.wsThreshSrc, Gen.wsWriteSrc, Gen.wsStartSrc, ge_iff_le]

theorem watershed_statements_as_modelled :
    Gen.wsIdxSrc = "np.array([_argmax_within(self.field[:, refdim], label == c) for c in range(n_bassins)])" ∧
    Gen.wsBasinsSrc = ["sf.highest_neighbor(refdim)", "Graph(sf.V, edges.shape[0], edges)", "aux.cc()",
      "len(np.unique(llabel))", "np.vstack((hneighb, np.arange(sf.V))).T",
      "np.vstack((edges, np.vstack((np.arange(sf.V), hneighb)).T))"] := ⟨rfl, rfl⟩

/-- the threshold of `threshold_bifurcations` (selection and write-back) is the model's -/
theorem bifurcations_threshold_as_modelled (col : List Rat) (th : Rat) :
    (fun v => decide (th ≤ at_ col v)) = (fun v => Gen.bifThreshSrc (at_ col v) th) ∧
    Gen.bifWriteSrc = Gen.bifThreshSrc := by
  constructor
  · funext v; simp [Gen.bifThreshSrc]
  · rfl

/-- a legal order for the model is an increasing sort of the source's key -/
theorem bifurcations_order_as_modelled (n : Nat) (val : Nat → Rat) (order : List Nat) :
    validDescOrder n val order =
      (decide (order.length = n) && (List.range n).all (fun v => order.count v == 1) &&
        (List.range (n - 1)).all (fun i =>
          decide (Gen.bifOrderKeySrc (val (order.getD i 0)) ≤ Gen.bifOrderKeySrc (val (order.getD (i + 1) 0))))) := by
  simp [validDescOrder, Gen.bifOrderKeySrc]

/-- on labels (all `≥ -1`) the entry `np.unique` puts first and the code drops is exactly the unlabelled one -/
theorem bifurcations_drop_as_modelled (l : Int) (h : -1 ≤ l) : Gen.bifLabelledSrc l = !Gen.bifDropSrc l := by
  simp only [Gen.bifLabelledSrc, Gen.bifDropSrc]
  by_cases h1 : l = -1
  · simp [h1]
  · have : l > -1 := by omega
    simp [h1, this]

/-- **one vertex of the sweep**, with the tests of the source: unlabelled neighbourhood = new component;
    one root = regular point; otherwise a saddle (`parent`, `root` updated, `root[root == j] = q`) -/
theorem bifStep_as_modelled (rows : Nat → List Nat) (st : BifSt) (i : Nat) :
    bifStep rows st i =
      (let labs := ((rows i).map st.llabel).filter Gen.bifLabelledSrc
       if labs.isEmpty then { st with llabel := upd st.llabel i (st.q : Int), q := st.q + 1 }
       else
         let nl := sortedUnique ((sortedUnique (labs.map Int.toNat)).map st.root)
         if Gen.bifRegularSrc nl.length then { st with llabel := upd st.llabel i ((nl.headD 0 : Nat) : Int) }
         else
           { llabel := upd st.llabel i (st.q : Int)
             parent := fun k => if nl.contains k then st.q else st.parent k
             root := nl.foldl (fun (rt : Nat → Nat) j => fun k => if Gen.bifRerootSrc (rt k) j then st.q else rt k)
               (fun k => if nl.contains k then st.q else st.root k)
             q := st.q + 1 }) := by
  have hl : (fun l : Int => decide (-1 < l)) = Gen.bifLabelledSrc := rfl
  unfold bifStep
  simp only [hl]
  split
  · rfl
  · generalize sortedUnique ((sortedUnique ((((rows i).map st.llabel).filter Gen.bifLabelledSrc).map Int.toNat)).map
      st.root) = nl
    rcases nl with _ | ⟨a, _ | ⟨b, t⟩⟩ <;> simp [Gen.bifRegularSrc, Gen.bifRerootSrc]

theorem rowSrc_false_fun : rowSrc false = openRow := by
  funext g i; exact rowSrc_false g i

/-- **threshold_bifurcations as a whole**: the source's threshold (selection and write-back), rows without the
    diagonal, the sweep, and `_argmax_within` for `idx` -/
theorem bifurcations_as_modelled (g : Graph) (col : List Rat) (th : Rat) (order : List Nat) :
    bifurcations g col th order =
      (let valid := fun v => Gen.bifThreshSrc (at_ col v) th
       let sg := subgraph g valid
       let sc := subcol g.V valid col
       if sg.V = 0 then some ([], [], List.replicate g.V (-1)) else
       if !validDescOrder sg.V (at_ sc) order then none else
       let rowsA := ((List.range sg.V).map (rowSrc false sg)).toArray
       let st := bifSweep (fun i => rowsA.getD i []) order
       let label := (List.range g.V).map (fun v =>
         if Gen.bifWriteSrc (at_ col v) th then st.llabel (renumb valid v) else -1)
       let labelA := label.toArray
       let idx := (List.range st.q).map (fun (c : Nat) =>
         (pickArg Gen.argmaxWithinTakeSrc (at_ col)
           ((List.range g.V).filter (fun v => labelA.getD v (-1) == (c : Int)))).getD 0)
       some (idx, (List.range st.q).map st.parent, label)) := by
  simp only [bifurcations, argmax_within_as_modelled, rowSrc_false_fun, Gen.bifThreshSrc, Gen.bifWriteSrc, ge_iff_le]

/-- `custom_watershed`: `idx` through `_argmax_within` inside each basin -/
theorem watershedC_as_modelled (g : Graph) (col : List Rat) (th : Rat) :
    watershedC g col th =
      (let label := (watershed g col th).2
       let labelA := label.toArray
       let nb := (watershed g col th).1.length
       ((List.range nb).map (fun (c : Nat) =>
          (pickArg Gen.argmaxWithinTakeSrc (at_ col)
            ((List.range g.V).filter (fun v => labelA.getD v (-1) == (c : Int)))).getD 0), label)) := by
  simp only [watershedC, argmax_within_as_modelled]

theorem bifurcations_statements_as_modelled :
    Gen.bifRowsSrc = "sf.to_coo_matrix().tolil().rows" ∧
    Gen.bifTablesSrc = ["-np.ones(sf.V, np.int_)", "(np.arange(2 * self.V), np.arange(2 * self.V))", "0",
      "parent[:q]"] ∧
    Gen.bifNlabelSrc = ["np.unique(llabel[rows[i]])", "np.unique(root[nlabel])"] ∧
    Gen.bifRegularStmtsSrc = ["llabel[i] = nlabel[0]"] ∧
    Gen.bifSaddleStmtsSrc = ["llabel[i] = q", "parent[nlabel] = q", "root[nlabel] = q",
      "for j in nlabel:\n    root[root == j] = q", "q += 1"] ∧
    Gen.bifNewStmtsSrc = ["llabel[i] = q", "q += 1"] ∧
    Gen.bifIdxSrc = "np.array([_argmax_within(self.field[:, refdim], label == c) for c in range(q)])" :=
  ⟨rfl, rfl, rfl, rfl, rfl, rfl, rfl⟩

/-! ## `constrained_voronoi`, `geodesic_kmeans` -/

/-- the squared edge length the geodesic labelling runs on is a symmetric, non-negative term that vanishes exactly
    on equal features (so the `sqrt` the code applies is defined and monotone on it) -/
theorem voronoi_term_as_modelled (a b : Rat) :
    Gen.vorTermSrc a b = Gen.vorTermSrc b a ∧ 0 ≤ Gen.vorTermSrc a b ∧ (Gen.vorTermSrc a b = 0 ↔ a = b) := by
  unfold Gen.vorTermSrc
  refine ⟨by ring, sq_nonneg _, ?_⟩
  rw [sq_eq_zero_iff, sub_eq_zero]

theorem gkm_term_as_modelled (c x : Rat) : Gen.gkmTermSrc c x = Gen.vorTermSrc c x ∧
    (∀ best, Gen.gkmPickSrc x best = decide (x < best)) := ⟨rfl, fun _ => rfl⟩

/-- the stop test of `geodesic_kmeans` compares the absolute change of inertia with `eps` -/
theorem gkm_stop_as_modelled (old new eps : Rat) : Gen.gkmStopSrc old new eps = decide (|old - new| < eps) := by
  unfold Gen.gkmStopSrc
  by_cases h : old - new < 0
  · simp [h, abs_of_neg h]
  · simp [h, abs_of_nonneg (not_lt.1 h)]

theorem voronoi_statements_as_modelled :
    Gen.vorSrc = ["np.asarray(self.field, dtype=np.float64)", "WeightedGraph(self.V, self.edges, weights)",
      "g.voronoi_labelling(seed)"] ∧
    Gen.gkmSrc = ["self.constrained_voronoi(seeds)", "np.mean(self.field[lj], 0)", "lj[tj]"] := ⟨rfl, rfl⟩

/-! ## `Forest` -/

/-- **constructor**: the guards as written (no vertex, size, range on the extreme entries, `check`) -/
theorem forest_ctor_as_modelled (V : Nat) (ps : List Int) :
    forestOkI V ps =
      (!Gen.ctorNoVertexSrc V && !Gen.ctorSizeBadSrc ps.length V &&
        ps.all (fun x => !Gen.ctorRangeBadSrc x x V) && check V (fun v => (ps.map Int.toNat).getD v v)) := by
  rw [Bool.eq_iff_iff]
  simp only [forestOkI, forestOk, Gen.ctorNoVertexSrc, Gen.ctorSizeBadSrc, Gen.ctorRangeBadSrc, Bool.and_eq_true,
    List.all_eq_true, decide_eq_true_eq, Bool.not_eq_true', decide_eq_false_iff_not, Bool.or_eq_false_iff,
    List.length_map, not_lt, not_not, ge_iff_le, not_le]
  constructor
  · rintro ⟨hr, ⟨⟨h1, h2⟩, _⟩, h4⟩
    exact ⟨⟨⟨by omega, by omega⟩, fun x hx => ⟨(hr x hx).1, (hr x hx).2⟩⟩, h4⟩
  · rintro ⟨⟨⟨h1, h2⟩, hr⟩, h4⟩
    refine ⟨fun x hx => ⟨(hr x hx).1, (hr x hx).2⟩, ⟨⟨by omega, by omega⟩, ?_⟩, h4⟩
    apply foldl_max_le
    intro y hy
    obtain ⟨x, hx, rfl⟩ := List.mem_map.1 hy
    have := hr x hx
    omega

/-- **check**: one round of the inner `while`, with the source's three tests in the source's order -/
theorem walk_as_modelled (V : Nat) (p : Nat → Nat) (v fuel w q : Nat) :
    walk V p v (fuel + 1) w q =
      if Gen.checkGoOnSrc (p w) w then
        (if Gen.checkCycleSrc (p w) v then false
         else if Gen.checkOverrunSrc (q + 1) V then false
         else walk V p v fuel (p w) (q + 1))
      else true := by
  by_cases h : p w = w <;> simp [walk, Gen.checkGoOnSrc, Gen.checkCycleSrc, Gen.checkOverrunSrc, h]

theorem check_as_modelled (V : Nat) (p : Nat → Nat) :
    check V p = if Gen.checkTrivialSrc V then true else (List.range V).all (fun v => walk V p v (V + 2) v 0) := by
  simp [check, Gen.checkTrivialSrc]

/-- **define_graph_attributes**: the selected vertices and the three stacked arrays -/
theorem nonRoots_as_modelled (V : Nat) (p : Nat → Nat) :
    nonRoots V p = (List.range V).filter (fun i => Gen.nonRootSrc (p i) i) := by
  unfold nonRoots Gen.nonRootSrc
  congr 1; funext i; simp [bne, beq_dec]

theorem defEdges_as_modelled (V : Nat) (p : Nat → Nat) :
    (defEdges V p).map (·.src) = Gen.edgeE1Src (nonRoots V p) ((nonRoots V p).map p) ∧
    (defEdges V p).map (·.dst) = Gen.edgeE2Src (nonRoots V p) ((nonRoots V p).map p) ∧
    (defEdges V p).map (·.w) = Gen.edgeWeightsSrc (nonRoots V p).length := by
  refine ⟨?_, ?_, ?_⟩ <;>
    simp [defEdges, Gen.edgeE1Src, Gen.edgeE2Src, Gen.edgeWeightsSrc, List.map_append, List.map_map,
      Function.comp_def, List.map_const']

/-- **compute_children / isleaf / isroot**: which edges are read, and which end -/
theorem children_leaf_root_as_modelled (V : Nat) (edges : List FEdge) (p : Nat → Nat) (v : Nat) :
    childrenE V edges v = (List.range V).filter (fun c =>
      edges.any (fun e => Gen.childEdgeSrc e.w && e.src == v && e.dst == c)) ∧
    isLeafE edges v = !(edges.any (fun e =>
      Gen.leafEdgeSrc e.w && (if Gen.leafColSrc = 1 then e.dst else e.src) == v)) ∧
    isRoot p v = Gen.isRootSrc (p v) v := by
  refine ⟨rfl, rfl, ?_⟩
  simp [isRoot, Gen.isRootSrc, beq_dec]

/-- **get_children / get_descendants**: the index guards -/
theorem index_guards_as_modelled (vw : View) (v : Int) (e : Bool) :
    fills vw (.getChildren v) = !Gen.childIndexHighSrc v vw.V ∧
    fills vw (.getDescendants v e) = !(Gen.descIndexLowSrc v || Gen.descIndexHighSrc v vw.V) ∧
    (Gen.childIndexHighSrc v vw.V = true → answer vw (.getChildren v) = .err "valueError") ∧
    (Gen.descIndexLowSrc v = true ∨ Gen.descIndexHighSrc v vw.V = true →
      answer vw (.getDescendants v e) = .err "valueError") := by
  refine ⟨rfl, rfl, ?_, ?_⟩
  · intro h
    simp only [Gen.childIndexHighSrc, decide_eq_true_eq, gt_iff_lt] at h
    simp [answer, h]
  · intro h
    simp only [Gen.descIndexLowSrc, Gen.descIndexHighSrc, decide_eq_true_eq, gt_iff_lt] at h
    rcases h with h | h
    · simp [answer, h]
    · by_cases h0 : v < 0 <;> simp [answer, h, h0]

/-- **subforest**: a node whose parent is dropped becomes its own parent, then the renumbering -/
theorem subforest_as_modelled (V : Nat) (p : Nat → Nat) (valid : Nat → Bool) :
    subforestParents V p valid = ((List.range V).filter valid).map (fun v =>
      renumb valid (if Gen.subDetachSrc (valid (p v)) then v else p v)) := by
  unfold subforestParents
  congr 1; funext v
  cases valid (p v) <;> simp [Gen.subDetachSrc]

theorem merge_as_modelled (V : Nat) (p : Nat → Nat) (v : Nat) :
    mergeValid V p v = !Gen.mergeDropSrc (children V p v).length := by
  simp [mergeValid, Gen.mergeDropSrc, bne, beq_dec]

/-- **depth_from_leaves**: start value, guarded update, and the stop rule -/
theorem depthInit_as_modelled (V : Nat) (p : Nat → Nat) :
    depthInit V p = (List.range V).map (fun v => Gen.depthStartSrc (isLeaf V p v)) := by
  unfold depthInit Gen.depthStartSrc
  congr 1; funext v
  cases isLeaf V p v <;> simp

theorem sweepStep_as_modelled (p : Nat → Nat) (d : Nat → Int) (i : Nat) :
    sweepStep p d i =
      if Gen.depthGuardSrc (p i) i then upd d (p i) (Gen.depthUpdSrc (d i) (d (p i))) else d := by
  simp [sweepStep, Gen.depthGuardSrc, Gen.depthUpdSrc]

theorem depthLoop_as_modelled (V : Nat) (p : Nat → Nat) (n : Nat) (d : List Int) :
    depthLoop V p (n + 1) d = (if sweepL V p d == d then sweepL V p d else depthLoop V p n (sweepL V p d)) ∧
    Gen.depthStopSrc = ["depth.copy()", "(dc == depth).all()", "break"] := ⟨rfl, rfl⟩

/-- **tree_depth** -/
theorem tree_depth_as_modelled (vw : View) :
    answer vw .treeDepth = .nat (Gen.treeDepthSrc (lmax (depthL vw))).toNat := rfl

/-- **propagate_upward_and**: start, number of passes, test -/
theorem propagate_and_as_modelled (V : Nat) (p : Nat → Nat) (prop : List Bool) :
    propagateAnd V p prop =
      (iter (fun (q : Array Bool) => (List.range V).foldl
          (fun q i => if Gen.pandTestSrc (q.getD i true) then q.setIfInBounds (p i) false else q) q)
        (Gen.treeDepthSrc (lmax (depthFromLeaves V p))).toNat
        ((List.range V).map (fun v => Gen.pandStartSrc (isLeaf V p v) (prop.getD v false))).toArray).toList := by
  have h : (fun v => if isLeaf V p v then prop.getD v false else true) =
      (fun v => Gen.pandStartSrc (isLeaf V p v) (prop.getD v false)) := by
    funext v; cases isLeaf V p v <;> simp [Gen.pandStartSrc]
  unfold propagateAnd
  simp only [h]
  rfl

/-- **propagate_upward**: the level test and the "one label among the children" test -/
theorem propagate_up_tests_as_modelled (di : Int) (j0 : Nat) (u : List Int) (lab : Array Int) (i : Nat) :
    (di == ((j0 + 1 : Nat) : Int)) = Gen.pupLevelSrc di ((j0 + 1 : Nat) : Int) ∧
    (match u with
      | [x] => lab.setIfInBounds i x
      | _ => lab) = (if Gen.pupSingleSrc u.length then lab.setIfInBounds i (u.headD 0) else lab) := by
  constructor
  · simp [Gen.pupLevelSrc, beq_dec]
  · rcases u with _ | ⟨a, _ | ⟨b, t⟩⟩ <;> simp [Gen.pupSingleSrc]

/-- **propagate_upward** as a whole: levels `1..depth.max()` in turn, at each node of the level the source's
    "one label among the children" test -/
theorem propagate_up_as_modelled (V : Nat) (p : Nat → Nat) (label : List Int) :
    propagateUp V p label =
      (let depth := (depthFromLeaves V p).toArray
       let md := (lmax depth.toList).toNat
       let kids := ((List.range V).map (children V p)).toArray
       ((List.range md).foldl (fun (lab : Array Int) j0 =>
          (List.range V).foldl (fun (lab : Array Int) i =>
            if Gen.pupLevelSrc (depth.getD i 0) ((j0 + 1 : Nat) : Int) then
              (if Gen.pupSingleSrc (dedup ((kids.getD i []).map (fun c => lab.getD c 0))).length then
                lab.setIfInBounds i ((dedup ((kids.getD i []).map (fun c => lab.getD c 0))).headD 0) else lab)
            else lab) lab) label.toArray).toList) := by
  unfold propagateUp
  simp only [(propagate_up_tests_as_modelled _ _ [] #[] 0).1]
  congr 2
  funext lab j0
  congr 1
  funext lab i
  by_cases h1 : Gen.pupLevelSrc ((depthFromLeaves V p).toArray.getD i 0) ((j0 + 1 : Nat) : Int) = true
  · simp only [h1, if_true]
    generalize dedup (List.map (fun c => lab.getD c 0) (((List.range V).map (children V p)).toArray.getD i [])) = u
    rcases u with _ | ⟨a, _ | ⟨b, t⟩⟩ <;> simp [Gen.pupSingleSrc]
  · simp only [h1]; rfl

/-- **reorder_from_leaves_to_roots**: the inverse permutation is filled slot by slot as written, the new parent
    of position `i` is `iorder[parents[order[i]]]`; the cached children are dropped after the renumbering -/
theorem reorder_as_modelled (V : Nat) (p order : Nat → Nat) :
    inverseOrder V order =
      (List.range V).foldl (fun io i => upd io (Gen.reorderSlotSrc order i) (Gen.reorderValSrc i)) id ∧
    reorder V p order = (List.range V).map (fun i => Gen.reorderParentSrc (inverseOrder V order) p order i) ∧
    Gen.reorderStmtsSrc = ["depth = self.depth_from_leaves()", "order = np.argsort(depth)",
      "iorder = np.arange(self.V)", "for i in range(self.V):", "parents = iorder[self.parents[order]]",
      "self.parents = parents", "self.define_graph_attributes()", "self.children = []", "return order"] :=
  ⟨rfl, rfl, rfl⟩

/-- **all_distances**: the value that marks unreachable pairs is never a genuine path length (a path length is at
    most the sum of the absolute weights) -/
theorem distance_sentinel_as_modelled (s d : Rat) (h : d ≤ s) : d ≠ Gen.distSentinelSrc s := by
  unfold Gen.distSentinelSrc
  intro he
  rw [he] at h
  linarith

theorem forest_statements_as_modelled :
    Gen.ctorCheckSrc = "self.check() == 0" ∧
    Gen.ctorOrderSrc = ["self.define_graph_attributes()", "if self.check() == 0:", "self.children = []"] ∧
    Gen.checkStartSrc = ["w = v", "q = 0"] ∧
    Gen.edgeCountSrc = "np.size(self.weights)" ∧
    Gen.childRowsSrc = "K.to_coo_matrix().tolil().rows.tolist()" ∧
    Gen.leafStartSrc = "np.ones(self.V).astype('bool')" ∧
    Gen.descSrc = ["return [] if exclude_self else [v]", "return desc", "self.compute_children()",
      "desc.extend(self.get_descendants(w))", "desc.sort()"] ∧
    Gen.subStmtsSrc = ["self.parents.copy()", "parents[valid.astype(bool)]", "renumb[parents]",
      "np.hstack((0, np.cumsum(valid)))", "Forest(np.sum(valid), parents)"] ∧
    Gen.mergeSrc = ["np.ones(self.V).astype('bool')", "self.get_children()", "return self.subforest(valid)"] ∧
    Gen.pupSrc = ["self.get_children()", "self.depth_from_leaves()", "label[i] = np.unique(label[ch[i]])[0]"] ∧
    Gen.distSrc = ["np.absolute(self.weights)", "w", "self.floyd(seed)", "dg",
      "np.inf * np.ones((self.V, self.V))"] ∧
    (∀ v : Int, Gen.childAllSrc v = decide (v = -1)) :=
  ⟨rfl, rfl, rfl, rfl, rfl, rfl, rfl, rfl, rfl, rfl, rfl, fun _ => rfl⟩

end NipyVerif.C12
