/-
C19 (wave 5) — `*_as_modelled` theorems: the function bodies regenerated from the current source text
(`Gen/C19Expr.lean`, by harness/props/c19_expr.py) are the model's definitions.  An edit of a source expression
(a comparison flipped, an index shifted, `0.5` changed, a roll start moved) changes the generated term and the
theorem about it stops building.
-/
import NipyVerif.Props.C19D
import NipyVerif.Gen.C19Expr

namespace NipyVerif.C19

/-! ## numpy leaves -/

theorem maskSel_map_eq_filter (p : Rat → Bool) : ∀ l : List Rat, Np.maskSel l (l.map p) = l.filter p
  | [] => rfl
  | x :: xs => by
    simp only [List.map_cons, Np.maskSel, List.filter_cons, maskSel_map_eq_filter p xs]

theorem zipWith_swap {α β γ : Type} (f : α → β → γ) (g : β → α → γ) (h : ∀ x y, f x y = g y x) :
    ∀ (a : List α) (b : List β), List.zipWith f a b = List.zipWith g b a
  | [], [] => rfl
  | [], _ :: _ => rfl
  | _ :: _, [] => rfl
  | x :: xs, y :: ys => by simp only [List.zipWith_cons_cons, h x y, zipWith_swap f g h xs ys]

theorem zipIdx_map_pos (xs : List Nat) : ∀ k : Nat, 0 < k →
    (xs.zipIdx k).map (fun ci => if ci.2 = 0 then (0 : Rat) else (ci.1 : Rat)) = xs.map (fun (c : Nat) => (c : Rat)) := by
  induction xs with
  | nil => intro k _; rfl
  | cons x xs ih =>
    intro k hk
    simp only [List.zipIdx_cons, List.map_cons, ih (k + 1) (Nat.succ_pos k)]
    have : k ≠ 0 := Nat.pos_iff_ne_zero.mp hk
    simp [this]

theorem set0_counts (l : List Nat) :
    (Np.setAt l 0 0).map (fun (c : Nat) => (c : Rat)) =
      l.zipIdx.map (fun ci => if ci.2 = 0 then (0 : Rat) else (ci.1 : Rat)) := by
  cases l with
  | nil => rfl
  | cons x xs =>
    simp only [Np.setAt, List.set_cons_zero, List.map_cons, List.zipIdx_cons, Nat.zero_add,
      zipIdx_map_pos xs 1 Nat.one_pos]
    simp

/-! ## `compute_mask` -/

/-- `reference_volume=None` means the mean volume itself. -/
theorem compute_mask_default_reference (lcc : List Bool → Except String (List Bool)) (bo : List Bool → Int → List Bool)
    (vals : List Rat) (m M : Rat) (cc : Bool) (op : Int) (ez : Bool) :
    Ex.computeMask lcc bo vals none m M cc op ez = Ex.computeMask lcc bo vals (some vals) m M cc op ez := rfl

/-- **the regenerated body of `compute_mask` is the model's**: sort, optional removal of zeros, the two cut
    indices `floor(m·n)`, `floor(M·n)`, the gap vector between them, its first argmax, the midpoint threshold and
    the `>=` comparison; then the `cc` / `opening` dispatch on the named leaves. -/
theorem compute_mask_as_modelled (lcc : List Bool → Except String (List Bool)) (bo : List Bool → Int → List Bool)
    (vals ref : List Rat) (m M : Rat) (cc : Bool) (op : Int) (ez : Bool) :
    Ex.computeMask lcc bo vals (some ref) m M cc op ez =
      (computeMask vals ref m M ez >>= fun tm =>
        (if cc then lcc tm.2 else .ok tm.2) >>= fun mask =>
          .ok (tm.1, if 0 < op then bo mask op else mask)) := by
  unfold Ex.computeMask computeMask histThreshold Np.sub Np.argmax Np.slice Np.floorNat Np.sort Np.neS Np.geS Np.getF
  simp only [maskSel_map_eq_filter, Nat.add_sub_add_right]
  generalize (if ez = true then List.filter (fun x => decide (x ≠ 0)) (vals.mergeSort fun a b => decide (a ≤ b))
      else vals.mergeSort fun a b => decide (a ≤ b)) = s
  generalize ((m * ((s.length : Nat) : Rat)).floor.toNat) = lo
  generalize ((M * ((s.length : Nat) : Rat)).floor.toNat) = hi
  generalize hA : List.take (hi - lo) (List.drop (lo + 1) s) = A
  generalize hB : List.take (hi - lo) (List.drop lo s) = B
  by_cases hlen : A.length ≠ B.length
  · simp [hlen, bind, Except.bind]
  · have hlen' : A.length = B.length := not_not.mp hlen
    by_cases hA0 : A = []
    · subst hA0
      have : B = [] := List.length_eq_zero_iff.mp hlen'.symm
      subst this
      simp [bind, Except.bind]
    · have hz : List.zipWith (fun x1 x2 => x1 - x2) A B ≠ [] := by
        intro h
        rcases List.zipWith_eq_nil_iff.mp h with h | h
        · exact hA0 h
        · subst h; exact hA0 (List.length_eq_zero_iff.mp hlen')
      simp [hlen', hA0, hz, bind, Except.bind, pure, Except.pure, Nat.add_assoc]
      simp only [show ∀ z : Rat, 2⁻¹ * z = z / 2 from fun z => by ring]

/-- `cc=False, opening=0`: the model's `computeMask` alone. -/
theorem compute_mask_plain_as_modelled (lcc : List Bool → Except String (List Bool)) (bo : List Bool → Int → List Bool)
    (vals ref : List Rat) (m M : Rat) (ez : Bool) :
    Ex.computeMask lcc bo vals (some ref) m M false 0 ez = computeMask vals ref m M ez := by
  rw [compute_mask_as_modelled]
  cases computeMask vals ref m M ez <;> simp [bind, Except.bind]

/-! ## `largest_cc` -/

/-- **the regenerated body of `largest_cc` is the model's**, given the contract of `ndimage.label` that the
    largest label is `label_nb` (so that `np.bincount` has `label_nb + 1` entries): refusal on no component, the
    mask itself (as booleans) for one component, else the *first* label of maximal voxel count, label 0 excluded. -/
theorem largest_cc_as_modelled (mask : List Rat) (labels : List Nat) (nb : Nat) (h : labels.foldl max 0 = nb) :
    Ex.largestCC mask labels nb = largestCC mask labels nb := by
  unfold Ex.largestCC largestCC Np.bincount Np.argmaxN Np.eqN Np.astypeBool
  simp only [h, set0_counts]

/-- the hypothesis of `largest_cc_as_modelled` is satisfiable -/
example : ([0, 1, 2, 2, 0] : List Nat).foldl max 0 = 2 := by decide

/-! ## `time_slice_diffs` -/

theorem rollaxis_chain (n : Nat) (a b : Int) :
    (Np.rollaxis n none a 0 >>= fun arr => Np.rollaxis n arr b 1 >>= fun arr =>
      (Except.ok (arr.getD (List.range n), b) : Except String (List Nat × Int))) =
    (rollaxisPerm n a 0 >>= fun p1 => rollaxisPerm n b 1 >>= fun p2 => pure (composePerm p1 p2, b)) := by
  unfold Np.rollaxis
  cases rollaxisPerm n a 0 with
  | error e => rfl
  | ok p1 =>
    cases rollaxisPerm n b 1 with
    | error e => rfl
    | ok p2 => rfl

/-- **the regenerated axis prologue of `time_slice_diffs` is the model's `tsdAxes`** (negative axes, the
    default slice axis, the refusal of equal axes, the shift of the slice axis after the first roll, both rolls). -/
theorem tsd_axes_as_modelled (n : Nat) (ta : Int) (sa : Option Int) : Ex.tsdAxes n ta sa = tsdAxes n ta sa := by
  unfold Ex.tsdAxes tsdAxes
  cases sa <;> simp only [] <;> split_ifs <;> first | rfl | exact rollaxis_chain _ _ _

/-- `time_slice_diffs` is the regenerated prologue, the regenerated back-roll and the loop. -/
theorem tsd_as_modelled (v : View) (ta : Int) (sa : Option Int) :
    tsd v ta sa = (Ex.tsdAxes v.shape.length ta sa >>= fun ps =>
      Ex.tsdBackRoll v.shape.length ps.2 >>= fun q => tsdOn v ps.1 q) := by
  rw [tsd_axes_as_modelled]
  unfold tsd Ex.tsdBackRoll
  simp only []

/-- the regenerated `np.subtract(tp, last_tp, dtype=np.float64)**2` is the model's `d2` -/
theorem tsd_diff2_as_modelled (last tp : Vol) : Ex.dtpDiff2 last tp = d2 last tp := by
  unfold Ex.dtpDiff2 d2 Np.map2
  apply zipWith_swap
  intro x y
  apply zipWith_swap
  intro a b
  rfl

/-- the regenerated `sliceds[dtpi] > slice_diff_maxes` is the (strict) test of the model's `maxUpd`: ties keep the
    earlier difference volume. -/
theorem tsd_max_rule_as_modelled (st : Rat × List Rat) (d : List Rat) :
    maxUpd st d = if Ex.sdmxHigher (mean d) st.1 then (mean d, d) else st := by
  unfold maxUpd Ex.sdmxHigher
  by_cases h : st.1 < mean d <;> simp [h]

/-- slice means and the `T - 1` divisor of the mean difference volume, as regenerated -/
theorem tsd_core_as_modelled (S V : Nat) (x : List Vol) (hx : 1 ≤ x.length) :
    (tsdCore S V x).sliceds = (diffs x).map Ex.sliceMeans ∧
    (tsdCore S V x).diffMean = ((diffs x).foldl vadd (zeroVol S V)).map
        (fun r => r.map (fun y => y / Ex.diffMeanDivisor (x.length : Int))) := by
  refine ⟨rfl, ?_⟩
  unfold tsdCore Ex.diffMeanDivisor
  have : (((x.length - 1 : Nat)) : Rat) = ((x.length : Int) : Rat) - ((1 : Int) : Rat) := by
    push_cast [Nat.cast_sub hx]
    ring
  simp only [this]

example : 1 ≤ ([[[1]], [[2]]] : List Vol).length := by decide

/-! ## `pca` -/

/-- **the three regenerated `project_resid` bodies are the model's `residVec`** (`'mean'`: subtract the column
    mean; `None`: identity; matrix: `Y - (R · pinv R) Y` with the certified pseudo-inverse). -/
theorem pca_project_resid_as_modelled (t : Nat) (spec : ResidSpec) (y : List Rat) :
    Ex.projectResid t spec y = residVec t (residOp t spec) y := by
  cases spec with
  | mean => rfl
  | none => rfl
  | mat R P =>
    unfold Ex.projectResid residVec residOp Np.subV Np.matvec Np.dot
    simp only []
    apply List.map_congr_left
    intro i hi
    have hi' : i < t := List.mem_range.mp hi
    simp [List.getD_eq_getElem?_getD, hi']

/-- the regenerated `X` is the model's `designX` -/
theorem pca_designX_as_modelled (t : Nat) (keep : Option (Mat × Mat)) : Ex.designX t keep = designX t keep := by
  cases keep with
  | none => rfl
  | some kp => rfl

/-- `XZ = project_resid(X)` of the model's `pcaFull` is the regenerated `project_resid` applied, column by column,
    to the regenerated `X` -/
theorem pca_xz_as_modelled (t : Nat) (spec : ResidSpec) (keep : Option (Mat × Mat)) :
    designXZ t (residOp t spec) (designX t keep) =
      tab t t (fun i j => (((List.range t).map (fun j =>
        Ex.projectResid t spec ((List.range t).map (fun i => ent (Ex.designX t keep) i j)))).getD j []).getD i 0) := by
  unfold designXZ
  simp only [pca_project_resid_as_modelled, pca_designX_as_modelled]

/-- `ncomp=None` keeps `rank` rows; otherwise Python's `[:ncomp]` -/
theorem pca_ncomp_as_modelled (r : Nat) (nc : Option Int) :
    Ex.ncompRows r nc = (match nc with | none => r | some n => pySliceTo r n) := by
  cases nc with
  | none => simp [Ex.ncompRows, pySliceTo]
  | some n => rfl

/-- the regenerated axis normalisation and back-roll of `pca` are those of the model's `pcaFull` -/
theorem pca_out_axes_as_modelled (nd : Nat) (axis : Int) :
    Ex.pcaOutAxes nd axis =
      (let ax : Int := if axis < 0 then axis + (nd : Int) else axis
       rollaxisPerm nd 0 (ax + 1) >>= fun q => .ok (ax, q)) := rfl

end NipyVerif.C19
