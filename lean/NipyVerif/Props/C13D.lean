/-
C13 — clause "the component likelihoods (gamma-Gaussian mixtures) equal the mathematical density of their
current parameters, so each density integrates to one": the expressions of `_gaus_dens` and `_gam_dens`
of `ggmixture.py` (regenerated from the source into `Gen/C13Dens.lean` as terms over Mathlib's reals, with
`np.log`, `np.exp`, `np.sqrt`, `np.pi`, `gammaln = log ∘ Γ` read as the mathematical functions) ARE the normal
density with variance `var` and the gamma density with shape `shape` and rate `1 / scale` of Mathlib, hence
integrate to one, for every mean, every positive variance, shape and scale.  Floating-point evaluation of
these functions stays a parameter (numeric oracle of the check).
-/
import Mathlib.Probability.Distributions.Gaussian.Real
import Mathlib.Probability.Distributions.Gamma
import NipyVerif.Gen.C13Dens

open MeasureTheory ProbabilityTheory Real
open scoped NNReal ENNReal

namespace NipyVerif.C13
open NipyVerif.Gen.C13

/-- `_gaus_dens(mean, var, x)` is the normal density with mean `mean` and variance `var` -/
theorem gaus_dens_from_source (m v x : ℝ) (hv : 0 ≤ v) :
    gausDensS m v x = gaussianPDFReal m (Real.toNNReal v) x := by
  rw [gaussianPDFReal_def]
  simp only [Real.coe_toNNReal v hv]
  unfold gausDensS
  rw [one_div, mul_assoc 2 π v]

/-- **`_gaus_dens` integrates to one** for every mean and positive variance -/
theorem gaus_dens_integrates_to_one (m v : ℝ) (hv : 0 < v) : ∫ x, gausDensS m v x = 1 := by
  simp_rw [gaus_dens_from_source m v _ hv.le]
  apply integral_gaussianPDFReal_eq_one
  intro h
  exact absurd (Real.toNNReal_eq_zero.1 h) (not_le.2 hv)

/-- `_gam_dens(shape, scale, x)` at a positive sample is the gamma density with rate `1 / scale` -/
theorem gam_dens_from_source_pos (a s x : ℝ) (ha : 0 < a) (hs : 0 < s) (hx : 0 < x) :
    gamDensS a s x = gammaPDFReal a s⁻¹ x := by
  unfold gamDensS gammaPDFReal gamLogDensS lgamma
  rw [if_pos hx, if_pos hx.le]
  have hG : 0 < Real.Gamma a := Real.Gamma_pos_of_pos ha
  rw [Real.inv_rpow hs.le, Real.rpow_def_of_pos hs, Real.rpow_def_of_pos hx]
  rw [Real.exp_sub, Real.exp_add, Real.exp_sub, Real.exp_log hG]
  rw [show -a * Real.log s = -(Real.log s * a) by ring, Real.exp_neg]
  rw [show Real.exp (x / s) = (Real.exp (-(s⁻¹ * x)))⁻¹ by rw [Real.exp_neg, inv_inv]; congr 1; field_simp]
  rw [show (a - 1) * Real.log x = Real.log x * (a - 1) by ring]
  field_simp

/-- … and zero on the negative half line, as the gamma density is -/
theorem gam_dens_from_source_neg (a s x : ℝ) (hx : x < 0) : gamDensS a s x = gammaPDFReal a s⁻¹ x := by
  unfold gamDensS gammaPDFReal
  rw [if_neg (not_lt.2 hx.le), if_neg (not_le.2 hx)]

/-- **`_gam_dens` integrates to one** for every positive shape and scale (Lebesgue integral of the
    non-negative density; the value at the single point `x = 0`, where the code returns 0, is immaterial) -/
theorem gam_dens_integrates_to_one (a s : ℝ) (ha : 0 < a) (hs : 0 < s) :
    ∫⁻ x, ENNReal.ofReal (gamDensS a s x) = 1 := by
  rw [← lintegral_gammaPDF_eq_one ha (inv_pos.2 hs)]
  apply lintegral_congr_ae
  have h0 : ∀ᵐ x : ℝ, x ≠ 0 := by
    rw [ae_iff]
    simp
  filter_upwards [h0] with x hx
  unfold gammaPDF
  rcases lt_or_gt_of_ne hx with h | h
  · rw [gam_dens_from_source_neg a s x h]
  · rw [gam_dens_from_source_pos a s x ha hs h]

/-- the density is non-negative everywhere and positive on the positive half line -/
theorem gam_dens_nonneg (a s x : ℝ) : 0 ≤ gamDensS a s x := by
  unfold gamDensS
  split_ifs
  · exact (Real.exp_pos _).le
  · exact le_rfl

/-! ### `GGM.posterior`: the two-class mixture -/

/-- `total` is the mixture likelihood `y + pg` plus the regulariser -/
theorem ggm_total_from_source (p a s m v tiny x : ℝ) :
    ggmTotalS p a s m v tiny x = ggmYS p m v x + ggmPgS p a s x + tiny := rfl

/-- **the two posterior memberships `GGM.posterior` returns sum to one** wherever the regularised mixture
    likelihood is not zero (always, for `0 ≤ mixt ≤ 1` and `tiny > 0`: next theorem) -/
theorem ggm_posterior_sums_to_one (p a s m v tiny x : ℝ) (h : ggmTotalS p a s m v tiny x ≠ 0) :
    ggmPostGausS p a s m v tiny x + ggmPostGamS p a s m v tiny x = 1 := by
  unfold ggmPostGausS ggmPostGamS
  unfold ggmTotalS at h
  rw [← add_div]
  rw [div_eq_one_iff_eq h]
  ring

theorem ggm_total_pos (p a s m v tiny x : ℝ) (hp0 : 0 ≤ p) (hp1 : p ≤ 1) (hv : 0 ≤ v) (ht : 0 < tiny) :
    0 < ggmTotalS p a s m v tiny x := by
  unfold ggmTotalS
  have h1 : 0 ≤ gausDensS m v x := by rw [gaus_dens_from_source m v x hv]; exact gaussianPDFReal_nonneg _ _ _
  have h2 := gam_dens_nonneg a s x
  have h3 : 0 ≤ (1 - p) * gausDensS m v x := mul_nonneg (by linarith) h1
  have h4 : 0 ≤ p * gamDensS a s x := mul_nonneg hp0 h2
  linarith

/-- **the mixture density of `GGM` (`y + pg` of `posterior`, the row sums of `Estep`) integrates to one**
    for every mixing proportion in `[0, 1]`, mean, positive variance, shape and scale -/
theorem ggm_mixture_integrates_to_one (p a s m v : ℝ) (hp0 : 0 ≤ p) (hp1 : p ≤ 1) (ha : 0 < a) (hs : 0 < s)
    (hv : 0 < v) : ∫⁻ x, ENNReal.ofReal (ggmYS p m v x + ggmPgS p a s x) = 1 := by
  have hq : 0 ≤ 1 - p := by linarith
  have hg : ∀ x, 0 ≤ gausDensS m v x := fun x => by
    rw [gaus_dens_from_source m v x hv.le]; exact gaussianPDFReal_nonneg _ _ _
  have hfun : ∀ x, ENNReal.ofReal (ggmYS p m v x + ggmPgS p a s x)
      = ENNReal.ofReal p * ENNReal.ofReal (gamDensS a s x)
        + ENNReal.ofReal (1 - p) * ENNReal.ofReal (gaussianPDFReal m (Real.toNNReal v) x) := fun x => by
    unfold ggmYS ggmPgS
    rw [ENNReal.ofReal_add (mul_nonneg hq (hg x)) (mul_nonneg hp0 (gam_dens_nonneg a s x)),
      ENNReal.ofReal_mul hq, ENNReal.ofReal_mul hp0, gaus_dens_from_source m v x hv.le, add_comm]
  simp_rw [hfun]
  have hmeas : Measurable (fun x => ENNReal.ofReal (1 - p) * ENNReal.ofReal (gaussianPDFReal m (Real.toNNReal v) x)) :=
    (measurable_gaussianPDFReal m _).ennreal_ofReal.const_mul _
  rw [lintegral_add_right _ hmeas, lintegral_const_mul' _ _ ENNReal.ofReal_ne_top,
    lintegral_const_mul' _ _ ENNReal.ofReal_ne_top, gam_dens_integrates_to_one a s ha hs,
    lintegral_gaussianPDFReal_eq_one m (by
      intro h; exact absurd (Real.toNNReal_eq_zero.1 h) (not_le.2 hv)),
    mul_one, mul_one, ← ENNReal.ofReal_add hp0 hq]
  simp

end NipyVerif.C13
