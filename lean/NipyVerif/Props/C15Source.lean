/-
C15 — the source tie: `Gen/C15Source.lean` is regenerated from the text of `intvol.pyx` (the scalar
`mu*` routines, statement by statement) and `rft.py` (`ECquasi` methods, `IntrinsicVolumes.__mul__`,
`ECcone` weights / tests, `Q`, the cone of every statistic).  Every theorem here says that a regenerated
term is what the model (Model/C15, C15Lips, C15Rft) computes: an edit of a source expression changes
the term and the theorem stops building.
-/
import NipyVerif.Gen.C15Source
import NipyVerif.Lemmas.C15Rft
import NipyVerif.Lemmas.C15Lips

namespace NipyVerif.C15
open NipyVerif.Gen

/-! ### intvol.pyx -/

/-- `mu1_edge` as written is the model's `mu1Edge` -/
theorem mu1_edge_from_source (P : Num) (D00 D01 D11 : Rat) :
    C15Source.mu1_edge P D00 D01 D11 = mu1Edge P D00 D01 D11 := by
  simp only [C15Source.mu1_edge, mu1Edge, edgeSq]

/-- `mu2_tri` as written (`L`, the guard `L < 0`, `sqrt(L) * 0.5`) is the model's `mu2Tri` -/
theorem mu2_tri_from_source (P : Num) (D00 D01 D02 D11 D12 D22 : Rat) :
    C15Source.mu2_tri P D00 D01 D02 D11 D12 D22 = mu2Tri P D00 D01 D02 D11 D12 D22 := by
  rfl

/-- `mu1_tri` as written: the three edges, their argument order, the factor one half -/
theorem mu1_tri_from_source (P : Num) (D00 D01 D02 D11 D12 D22 : Rat) :
    C15Source.mu1_tri P D00 D01 D02 D11 D12 D22 = mu1Tri P D00 D01 D02 D11 D12 D22 := by
  simp only [C15Source.mu1_tri, mu1Tri, mu1_edge_from_source, zero_add]

/-- `mu3_tet` as written (Cayley–Menger style `v2`, the guard `v2 <= 0`, `sqrt(v2) / 6`) -/
theorem mu3_tet_from_source (P : Num) (D00 D01 D02 D03 D11 D12 D13 D22 D23 D33 : Rat) :
    C15Source.mu3_tet P D00 D01 D02 D03 D11 D12 D13 D22 D23 D33
      = mu3Tet P D00 D01 D02 D03 D11 D12 D13 D22 D23 D33 := by
  rfl

/-- `mu2_tet` as written: the four faces with the Gram entries in the order of the source -/
theorem mu2_tet_from_source (P : Num) (D00 D01 D02 D03 D11 D12 D13 D22 D23 D33 : Rat) :
    C15Source.mu2_tet P D00 D01 D02 D03 D11 D12 D13 D22 D23 D33
      = mu2Tet P D00 D01 D02 D03 D11 D12 D13 D22 D23 D33 := by
  simp only [C15Source.mu2_tet, mu2Tet, mu2_tri_from_source, zero_add]

/-- `limited_acos` as written: the clamps at `1` and `-1` -/
theorem limited_acos_from_source (P : Num) (v : Rat) : C15Source.limited_acos P v = limitedAcos P v := by
  simp only [C15Source.limited_acos, limitedAcos]

/-- `_mu1_tetface` as written: projections, both guards, `(PI - acos) * length / (2 PI)` -/
theorem mu1_tetface_from_source (P : Num) (a b c d e f g h i j : Rat) :
    C15Source.mu1_tetface P a b c d e f g h i j = mu1Tetface P a b c d e f g h i j := by
  simp only [C15Source.mu1_tetface, mu1Tetface, limited_acos_from_source]

/-- `mu1_tet` as written: the six edges with the ten Gram entries in the order of the source -/
theorem mu1_tet_from_source (P : Num) (D00 D01 D02 D03 D11 D12 D13 D22 D23 D33 : Rat) :
    C15Source.mu1_tet P D00 D01 D02 D03 D11 D12 D13 D22 D23 D33
      = mu1Tet P D00 D01 D02 D03 D11 D12 D13 D22 D23 D33 := by
  simp only [C15Source.mu1_tet, mu1Tet, mu1_tetface_from_source, zero_add]

/-! ### rft.py: `ECquasi` -/

/-- `denom_poly` as written (`np.poly1d([1/m, 0, 1])`, highest degree first) is the model's `1 + x²/m` -/
theorem denom_poly_from_source (m : Rat) : C15Source.denom_poly m = denomPoly m := by
  simp [C15Source.denom_poly, denomPoly, poly1d]

/-- the value of the denominator polynomial -/
theorem denom_poly_eval (m x : Rat) : peval (C15Source.denom_poly m) x = 1 + x ^ 2 / m := by
  simp only [denom_poly_from_source, denomPoly, peval, List.foldr]; ring

/-- `compatible` as written is the model's test on `m` -/
theorem compatible_as_modelled (a b : EQ) : C15Source.compatible a.toSQ b.toSQ = a.compatible b := by
  simp only [C15Source.compatible, EQ.toSQ, EQ.compatible]
  by_cases h : a.m = b.m <;> simp [h]

/-- the scalar branch of `__mul__` as written is the model's `smul` -/
theorem mul_scalar_as_modelled (a : EQ) (c : Rat) : C15Source.mul_scalar a.toSQ c = (a.smul c).toSQ := by
  cases a <;> simp [C15Source.mul_scalar, EQ.toSQ, EQ.smul, mkSQ, EQ.num, EQ.expo2, EQ.m]

/-- the instance branch of `__mul__` as written (product of numerators, sum of exponents, `None` when
    not compatible) is the model's `mul` -/
theorem mul_quasi_as_modelled (a b : EQ) : C15Source.mul_quasi a.toSQ b.toSQ = (a.mul b).map EQ.toSQ := by
  rw [C15Source.mul_quasi, compatible_as_modelled]
  cases a with
  | fin p =>
      cases b with
      | fin q =>
          by_cases h : p.m = q.m
          · simp [EQ.compatible, EQ.m, EQ.mul, Quasi.mul, h, EQ.toSQ, mkSQ, EQ.num, EQ.expo2]; ring
          · simp [EQ.compatible, EQ.m, EQ.mul, Quasi.mul, h]
      | inf q => simp [EQ.compatible, EQ.m, EQ.mul]
  | inf p =>
      cases b with
      | fin q => simp [EQ.compatible, EQ.m, EQ.mul]
      | inf q => simp [EQ.compatible, EQ.m, EQ.mul, EQ.toSQ, mkSQ, EQ.num, EQ.expo2]

/-- `__call__` as written, finite `m`: with `np.power(1 + x²/m, e/2) = r^e` (`r` the certified square root the
    model is given) the value is the model's `call` -/
theorem call_as_modelled (pw : Rat → Rat → Rat) (q : Quasi) (x r : Rat)
    (hpw : pw (1 + x ^ 2 / q.m) ((q.expo2 : Rat) / 2) = r ^ q.expo2) :
    C15Source.call pw (EQ.fin q).toSQ q.m x = (EQ.fin q).call x r := by
  simp only [C15Source.call, EQ.toSQ, EQ.call, EQ.num, EQ.expo2, denom_poly_eval, hpw]

/-- the hypothesis of `call_as_modelled` is satisfiable -/
example (q : Quasi) (x r : Rat) : ∃ pw : Rat → Rat → Rat, pw (1 + x ^ 2 / q.m) ((q.expo2 : Rat) / 2) = r ^ q.expo2 :=
  ⟨fun _ _ => r ^ q.expo2, rfl⟩

/-- `__pow__` as written is the model's `pow` -/
theorem pow_as_modelled (a : EQ) (n : Nat) : C15Source.pow a.toSQ n = (a.pow n).toSQ := by
  cases a with
  | fin q => simp [C15Source.pow, EQ.toSQ, EQ.pow, mkSQ, EQ.num, EQ.expo2, EQ.m]; ring
  | inf p => simp [C15Source.pow, EQ.toSQ, EQ.pow, mkSQ, EQ.num, EQ.expo2, EQ.m]

/-- `int(x) != x` is the model's "not an integer" -/
theorem pyInt_ne_iff (x : Rat) : ((pyInt x : Int) : Rat) ≠ x ↔ x.den ≠ 1 := by
  constructor
  · intro h hd
    apply h
    have hx : x = (x.num : Rat) := (Rat.den_eq_one_iff x).mp hd |>.symm
    rw [hx]
    unfold pyInt
    split
    · simp
    · have e : (-(x.num : Rat)) = ((-x.num : Int) : Rat) := by push_cast; rfl
      rw [e, Rat.floor_intCast]; simp
  · intro h he
    apply h
    rw [← he]
    simp

/-- on a non-negative integer `int(x)` is its numerator -/
theorem pyInt_of_int (x : Rat) (hd : x.den = 1) (h0 : ¬ x < 0) : (pyInt x).toNat = x.num.toNat := by
  have hx : x = (x.num : Rat) := (Rat.den_eq_one_iff x).mp hd |>.symm
  have : 0 ≤ x := not_lt.mp h0
  unfold pyInt
  rw [if_pos this]
  conv_lhs => rw [hx]
  simp

/-- `change_exponent` as written (finite `m`): the refusal test `int(_pow) != _pow or _pow < 0`, the
    power of the denominator polynomial, the new exponent — the model's `changeExponent` -/
theorem change_exponent_as_modelled (q : Quasi) (pw : Rat) :
    C15Source.change_exponent (EQ.fin q).toSQ q.m pw
      = match (EQ.fin q).changeExponent pw with
        | .ok r => some r.toSQ
        | .error _ => none := by
  simp only [C15Source.change_exponent, EQ.changeExponent, pyInt_ne_iff]
  by_cases h : pw.den ≠ 1 ∨ pw < 0
  · rw [if_pos h, if_pos h]
  · rw [if_neg h, if_neg h]
    have hd : pw.den = 1 := by by_contra hh; exact h (Or.inl hh)
    have h0 : ¬ pw < 0 := fun hh => h (Or.inr hh)
    have hx : pw = (pw.num : Rat) := ((Rat.den_eq_one_iff pw).mp hd).symm
    have hn : 0 ≤ pw.num := Rat.num_nonneg.mpr (not_lt.mp h0)
    obtain ⟨n, hn'⟩ := Int.eq_ofNat_of_zero_le hn
    have hxn : pw = (n : Rat) := by rw [hx, hn']; simp
    simp only [EQ.toSQ, mkSQ, Quasi.changeExponent, EQ.num, EQ.expo2, EQ.m, denom_poly_from_source,
      pyInt_of_int pw hd h0, hn', Int.toNat_natCast, Option.isSome_some, if_true]
    rw [hxn]
    congr 2
    push_cast; ring

/-- `pderiv` of the denominator polynomial is `2x/m` -/
theorem denom_poly_deriv (m : Rat) : pderiv (C15Source.denom_poly m) = [0, 2 / m] := by
  simp only [denom_poly_from_source, denomPoly, pderiv, pderivFrom]
  congr 1
  · simp
  · congr 1; push_cast; ring

/-- `deriv`, finite `m`: the first term `q1` as written is `num'` with the same exponent -/
theorem deriv_q1_from_source (q : Quasi) :
    C15Source.deriv_q1 (EQ.fin q).toSQ q.m = (EQ.fin { q with num := pderiv q.num }).toSQ := by
  simp [C15Source.deriv_q1, EQ.toSQ, mkSQ, EQ.num, EQ.expo2, EQ.m]

/-- `deriv`, finite `m`: the second term `q2` as written is `num · 2x/m` with the exponent raised by one — the
    two polynomials `Quasi.deriv` combines as `q1 - exponent · q2` -/
theorem deriv_q2_from_source (q : Quasi) :
    C15Source.deriv_q2 (EQ.fin q).toSQ q.m = (EQ.fin ⟨pmul q.num [0, 2 / q.m], q.m, q.expo2 + 2⟩).toSQ := by
  simp only [C15Source.deriv_q2, EQ.toSQ, mkSQ, EQ.num, EQ.expo2, EQ.m, denom_poly_deriv, Option.isSome_some, if_true]
  congr 1
  push_cast; ring

/-! ### rft.py: `IntrinsicVolumes.__mul__`, `ECcone`, `Q` -/

/-- `IntrinsicVolumes.__mul__` as written (`order`, both ranges, the index `i - j`, skipped terms) is `ivMul` -/
theorem iv_mul_from_source (a b : List Rat) (ha : a ≠ []) (hb : b ≠ []) : C15Source.iv_mul a b = ivMul a b := by
  have ha' : 1 ≤ a.length := List.length_pos_iff.mpr ha
  have hb' : 1 ≤ b.length := List.length_pos_iff.mpr hb
  simp only [C15Source.iv_mul, ivMul, tryGet]
  have e : a.length - 1 + (b.length - 1) + 1 = a.length + b.length - 1 := by omega
  rw [e]
  apply List.map_congr_left
  intro i _
  congr 1
  apply List.map_congr_left
  intro j _
  split_ifs with h
  · rfl
  · rcases not_and_or.mp h with h | h
    · have e0 : a[j]? = none := List.getElem?_eq_none (by omega)
      simp [List.getD_eq_getElem?_getD, e0]
    · have e0 : b[i - j]? = none := List.getElem?_eq_none (by omega)
      simp [List.getD_eq_getElem?_getD, e0]

/-- the weight of `quasi(k)` in `ECcone.__call__` as written, `float(search.mu[k]) * np.power(2π, -(k+1)/2)`, is
    the model's `s[k] * tp[k]` when the supplied powers are those of the source's exponent -/
theorem cone_c_as_modelled (pw : Rat → Rat → Rat) (twoPi : Rat) (s tp : List Rat) (k : Nat)
    (htp : tp.getD k 0 = pw twoPi (-((k : Rat) + 1) / 2)) :
    C15Source.cone_c pw twoPi (s.getD k 0) k = s.getD k 0 * tp.getD k 0 := by
  simp only [C15Source.cone_c, htp]

/-- the hypothesis of `cone_c_as_modelled` is satisfiable -/
example (pw : Rat → Rat → Rat) (twoPi : Rat) : ∃ tp : List Rat, tp.getD 0 0 = pw twoPi (-((0 : Nat) + 1 : Rat) / 2) :=
  ⟨[pw twoPi (-((0 : Nat) + 1 : Rat) / 2)], rfl⟩

/-- the end of `ECcone.__call__` as written (`_rho = q_even(x) + q_odd(x)`, times the kernel, the test
    `search.mu[0] * self.mu[0] != 0` and the tail term) is the end of the model's `ecconeCall` -/
theorem cone_tail_as_modelled (qe qo kern tail s0 mu0 : Rat) :
    (let rho := (qe + qo) * kern
     if s0 * mu0 ≠ 0 then rho + tail * s0 * mu0 else rho)
      = (if s0 * mu0 ≠ 0 then C15Source.cone_rho0 qe qo * kern + C15Source.cone_tail tail s0 mu0
         else C15Source.cone_rho0 qe qo * kern)
    ∧ (C15Source.cone_tail_test s0 mu0 ↔ s0 * mu0 ≠ 0) := by
  constructor
  · simp only [C15Source.cone_rho0, C15Source.cone_tail]
  · simp only [C15Source.cone_tail_test]

/-- the kernels of `ECcone.__call__` as written: `(1 + x²/m)^(-(m-1)/2)` and `exp(-x²/2)` (arguments of the
    named leaves the harness evaluates) -/
theorem cone_kernel_from_source (pw : Rat → Rat → Rat) (ex : Rat → Rat) (m x : Rat) :
    C15Source.cone_kernel_fin pw m x = pw (1 + x ^ 2 / m) (-(m - 1) / 2)
    ∧ C15Source.cone_kernel_inf ex x = ex (-(x ^ 2) / 2) := ⟨rfl, rfl⟩

instance (k : Nat) (dim : Int) : Decidable (C15Source.qp_test k dim) := by
  unfold C15Source.qp_test; infer_instance

/-- `_quasi_polynomials` as written — the test `k + dim > 0`, `ECquasi(Q(k + dim), m, exponent = k/2)` scaled by
    `c[k]` — is the model's `quasiPolys` -/
theorem quasi_polys_from_source (m : Option Rat) (dim : Int) (c : List Rat) (qs : List Poly) :
    (quasiPolys m dim c qs).map EQ.toSQ
      = (List.range c.length).filterMap (fun (k : Nat) =>
          if C15Source.qp_test k dim then
            some (C15Source.mul_scalar (mkSQ (qs.getD k []) (C15Source.qp_exponent k) m) (c.getD k 0))
          else none) := by
  simp only [quasiPolys, List.map_filterMap]
  apply List.filterMap_congr
  intro k _
  have hq : C15Source.qp_test k dim ↔ (k : Int) + dim > 0 := Iff.rfl
  by_cases h : (k : Int) + dim > 0
  · rw [if_pos h, if_pos (hq.mpr h)]
    cases m <;>
      simp [EQ.mk', EQ.smul, EQ.toSQ, C15Source.mul_scalar, mkSQ, C15Source.qp_exponent, EQ.num, EQ.expo2, EQ.m]
  · rw [if_neg h, if_neg (fun hh => h (hq.mp hh))]; rfl

/-- `quasi` as written sends `_q` to `q_even` when `_q.exponent % 1 == 0`: on the model's half-integer
    exponents this is `expo2 % 2 = 0` -/
theorem quasi_is_even_as_modelled (e2 : Nat) : C15Source.quasi_is_even ((e2 : Rat) / 2) ↔ e2 % 2 = 0 := by
  unfold C15Source.quasi_is_even
  constructor
  · intro h
    have h1 : ((e2 : Rat) / 2) = ((Rat.floor ((e2 : Rat) / 2) : Int) : Rat) := by linarith
    generalize Rat.floor ((e2 : Rat) / 2) = n at h1
    have h2 : (e2 : Rat) = 2 * (n : Rat) := by linarith
    have h3 : (e2 : Int) = 2 * n := by exact_mod_cast h2
    omega
  · intro h
    obtain ⟨n, hn⟩ : ∃ n, e2 = 2 * n := ⟨e2 / 2, by omega⟩
    have : ((e2 : Rat) / 2) = ((n : Int) : Rat) := by rw [hn]; push_cast; ring
    rw [this, Rat.floor_intCast]; simp

/-- `Q`, finite `dfd`: `for L in range((j-1)//2 + 1)` scales `coeffs[2 L]` — exactly the coefficients of numpy
    index `≤ j - 1` of the same parity as the degree, which is what `scaleHermite` rescales -/
theorem q_loop_from_source (j L : Nat) : L < C15Source.q_loop_count j ↔ C15Source.q_index L ≤ j - 1 := by
  unfold C15Source.q_loop_count C15Source.q_index; omega

/-- `scaleHermite` rescales the coefficient of numpy index `q_index L` by the `L`-th factor -/
theorem scale_hermite_at_q_index (p : Poly) (fs : List Rat) (L : Nat) (h : C15Source.q_index L ≤ p.length - 1)
    (hp : p ≠ []) :
    (scaleHermite p fs).getD (p.length - 1 - C15Source.q_index L) 0
      = p.getD (p.length - 1 - C15Source.q_index L) 0 * fs.getD L 1 := by
  have hl : 1 ≤ p.length := List.length_pos_iff.mpr hp
  unfold C15Source.q_index at *
  have hi : p.length - 1 - 2 * L < p.length := by omega
  have e1 : (p.length - 1 - (p.length - 1 - 2 * L)) = 2 * L := by omega
  simp only [scaleHermite, List.getD_eq_getElem?_getD, List.getElem?_map, List.getElem?_range hi, Option.map_some,
    Option.getD_some]
  rw [e1, if_pos ⟨by omega, by omega⟩, Nat.mul_div_cancel_left L (by norm_num : 0 < 2)]

/-- the Gamma argument of `Q` as written: `b = (m + 2 - j + 2L) / 2` -/
theorem q_b_from_source (m : Rat) (j L : Nat) : C15Source.q_b m j L = (m + 2 - j + 2 * L) / 2 := rfl

/-- the cone every statistic class hands to `ECcone.__init__` and what its `__call__` evaluates, as the harness's
    published-density oracle assumes them (`mu`, `dfd`, `product`, argument transform) -/
theorem stat_cones_from_source : C15Source.statCones = [
  ("ChiSquared", "spherical_search(self.dfn)", "dfd", "[1]", "return ECcone.__call__(self, np.sqrt(x), search=search)"),
  ("TStat", "[1]", "dfd", "[1]", "x"),
  ("FStat", "spherical_search(self.dfn)", "dfd", "[1]", "return ECcone.__call__(self, np.sqrt(x * self.dfn), search=search)"),
  ("Roy", "spherical_search(self.dfn)", "dfd", "product = spherical_search(k)", "return ECcone.__call__(self, np.sqrt(x * self.dfn), search=search)"),
  ("MultilinearForm", "[1]", "np.inf", "product = IntrinsicVolumes([1]); for d in dims: product *= spherical_search(d); product.mu /= 2.0 ** (len(dims) - 1)", "x"),
  ("Hotelling", "[1]", "dfd", "product = spherical_search(k)", "return ECcone.__call__(self, np.sqrt(x), search=search)"),
  ("OneSidedF", "spherical_search(self.dfn)", "dfd", "[1]", "IntrinsicVolumes.__init__(self, self.regions[0]); d1 = ECcone.__call__(self, np.sqrt(x * self.dfn), search=search); IntrinsicVolumes.__init__(self, self.regions[1]); d2 = ECcone.__call__(self, np.sqrt(x * (self.dfn - 1)), search=search); return (d1 - d2) * 0.5")] := by
  rfl

/-! ### `__add__` -/

/-- `change_exponent` by half the difference of two exponents: an integer (and accepted) exactly when the
    difference of the doubled exponents is even -/
theorem change_exponent_half (q : Quasi) (M : Nat) (hM : q.expo2 ≤ M) :
    C15Source.change_exponent (EQ.fin q).toSQ q.m ((M : Rat) / 2 - (q.expo2 : Rat) / 2)
      = if (M - q.expo2) % 2 = 0 then some (EQ.fin (q.changeExponent ((M - q.expo2) / 2))).toSQ else none := by
  rw [change_exponent_as_modelled]
  obtain ⟨d, hd⟩ : ∃ d, M = q.expo2 + d := ⟨M - q.expo2, by omega⟩
  have e : ((M : Rat) / 2 - (q.expo2 : Rat) / 2) = (d : Rat) / 2 := by rw [hd]; push_cast; ring
  have e2 : M - q.expo2 = d := by omega
  rw [e, e2]
  by_cases hp : d % 2 = 0
  · obtain ⟨t, ht⟩ : ∃ t, d = 2 * t := ⟨d / 2, by omega⟩
    have e3 : ((d : Rat) / 2) = ((t : Nat) : Rat) := by rw [ht]; push_cast; ring
    have e4 : d / 2 = t := by omega
    rw [if_pos hp, e3, e4]
    have hneg : ¬ ((t : Nat) : Rat) < 0 := not_lt.mpr (by positivity)
    simp [EQ.changeExponent, hneg]
  · rw [if_neg hp]
    have hden : ((d : Rat) / 2).den ≠ 1 := by
      intro h1
      have hx := (Rat.den_eq_one_iff _).mp h1
      have h2 : (d : Rat) = 2 * ((((d : Rat) / 2).num : Int) : Rat) := by linarith
      have h3 : (d : Int) = 2 * ((d : Rat) / 2).num := by exact_mod_cast h2
      omega
    simp [EQ.changeExponent, hden]

/-- **`__add__` as written** (finite `m`, compatible instances): `M = max` of the exponents, both operands raised
    to `M` by `change_exponent`, numerators added — the model's `Quasi.add`, including the `ValueError` when the
    exponents differ by a half -/
theorem add_fin_as_modelled (a b : Quasi) (hm : a.m = b.m) :
    C15Source.add_fin (EQ.fin a).toSQ (EQ.fin b).toSQ a.m = (a.add b).map (fun r => (EQ.fin r).toSQ) := by
  have hmax : max ((a.expo2 : Rat) / 2) ((b.expo2 : Rat) / 2) = ((max a.expo2 b.expo2 : Nat) : Rat) / 2 := by
    rcases le_total a.expo2 b.expo2 with h | h
    · have h' : (a.expo2 : Rat) / 2 ≤ (b.expo2 : Rat) / 2 := by
        have : (a.expo2 : Rat) ≤ b.expo2 := by exact_mod_cast h
        linarith
      rw [max_eq_right h, max_eq_right h']
    · have h' : (b.expo2 : Rat) / 2 ≤ (a.expo2 : Rat) / 2 := by
        have : (b.expo2 : Rat) ≤ a.expo2 := by exact_mod_cast h
        linarith
      rw [max_eq_left h, max_eq_left h']
  have ha := change_exponent_half a (max a.expo2 b.expo2) (le_max_left _ _)
  have hb := change_exponent_half b (max a.expo2 b.expo2) (le_max_right _ _)
  simp only [C15Source.add_fin]
  have ea : (EQ.fin a).toSQ.exponent = (a.expo2 : Rat) / 2 := rfl
  have eb : (EQ.fin b).toSQ.exponent = (b.expo2 : Rat) / 2 := rfl
  rw [ea, eb, hmax, ha, hm, hb]
  simp only [Quasi.add]
  by_cases hp : a.expo2 % 2 = b.expo2 % 2
  · have h1 : (max a.expo2 b.expo2 - a.expo2) % 2 = 0 := by omega
    have h2 : (max a.expo2 b.expo2 - b.expo2) % 2 = 0 := by omega
    rw [if_pos h1, if_pos h2, if_neg (by simp [hm, hp])]
    simp [EQ.toSQ, mkSQ, EQ.num, EQ.expo2, EQ.m, hm]
  · have h12 : ¬ ((max a.expo2 b.expo2 - a.expo2) % 2 = 0 ∧ (max a.expo2 b.expo2 - b.expo2) % 2 = 0) := by omega
    rw [if_pos (Or.inr hp)]
    by_cases h1 : (max a.expo2 b.expo2 - a.expo2) % 2 = 0
    · have h2 : ¬ (max a.expo2 b.expo2 - b.expo2) % 2 = 0 := fun h => h12 ⟨h1, h⟩
      rw [if_pos h1, if_neg h2]; rfl
    · rw [if_neg h1]; rfl

end NipyVerif.C15
