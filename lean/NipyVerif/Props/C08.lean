/-
C08 — property theorems about the model in `NipyVerif.Model.C08`
(spatial transforms compose, invert and parametrise consistently).
Only property statements and their non-vacuity examples live here.
-/
import NipyVerif.Lemmas.C08

namespace NipyVerif.C08
set_option linter.unusedSimpArgs false

/-! ## Composition and inversion of affine maps -/

/-- *Applying the composition equals applying the second transform then the first*:
    the 4×4 product used by `Affine.compose` maps every point like the nested application. -/
theorem apply_mul (a b : Aff) (p : V3) : (a.mul b).apply p = a.apply (b.apply p) :=
  Aff.apply_mul a b p

/-- The structured product is `np.dot` of the two 4×4 matrices (generic list `matMul`),
    and the product keeps the last row `0 0 0 1`. -/
theorem mul_eq_matMul (a b : Aff) : (a.mul b).toM44 = matMul a.toM44 b.toM44 := by
  simp only [Aff.toM44, matMul, transpose, dot, Aff.mul, M3.mul, M3.mulVec, V3.add, List.length_cons,
    List.length_nil, List.range, List.range.loop, List.map_cons, List.map_nil, List.getD_cons_zero,
    List.getD_cons_succ, List.zipWith_cons_cons, List.zipWith_nil_right, List.sum_cons, List.sum_nil,
    List.cons.injEq, and_true]
  refine ⟨⟨?_, ?_, ?_, ?_⟩, ⟨?_, ?_, ?_, ?_⟩, ⟨?_, ?_, ?_, ?_⟩, ⟨?_, ?_, ?_, ?_⟩⟩ <;> ring

/-- Bracketing of a chain of compositions does not matter. -/
theorem mul_assoc (a b c : Aff) : (a.mul b).mul c = a.mul (b.mul c) := Aff.mul_assoc a b c

/-- `inv` never refuses a non-singular matrix. -/
theorem inv_total (a : Aff) (h : a.det ≠ 0) : ∃ b, a.inv = some b := by
  unfold Aff.inv; unfold Aff.det at h; simp [h]

/-- *The inverse transform maps transformed points back* (and forth). -/
theorem apply_inv (a b : Aff) (h : a.inv = some b) (p : V3) :
    b.apply (a.apply p) = p ∧ a.apply (b.apply p) = p := by
  constructor
  · rw [← Aff.apply_mul, Aff.inv_mul_cancel h, Aff.apply_one]
  · rw [← Aff.apply_mul, Aff.mul_inv_cancel h, Aff.apply_one]

/-- the inverse is again invertible (so compose / inv chains never get stuck) -/
theorem inv_det_ne_zero (a b : Aff) (h : a.inv = some b) : b.det ≠ 0 := by
  have h1 := Aff.inv_mul_cancel h
  have h2 : (b.mul a).det = 1 := by rw [h1]; exact M3.det_one
  rw [Aff.det_mul] at h2
  intro h0; rw [h0] at h2; simp at h2

/-! ## Class dispatch of `Affine.compose` -/

/-- *Composing never fails for supported combinations*: for each of the 36 ordered class
    pairs the selected class exists and contains both parameter sets. -/
theorem dispatch_total_monotone (a b : Cls) :
    subset (paramInds a) (paramInds (dispatch a b)) = true ∧
    subset (paramInds b) (paramInds (dispatch a b)) = true := by
  cases a <;> cases b <;> decide

/-- the selected class is the smaller-or-equal of the two when they are comparable, otherwise
    the full `Affine` -/
theorem dispatch_least (a b : Cls) :
    (subset (paramInds a) (paramInds b) = true → dispatch a b = b) ∧
    (subset (paramInds b) (paramInds a) = true → dispatch a b = a) ∧
    (subset (paramInds a) (paramInds b) = false → subset (paramInds b) (paramInds a) = false →
      dispatch a b = .affine) := by
  cases a <;> cases b <;> decide

/-- the output class does not depend on the order of the operands -/
theorem dispatch_comm (a b : Cls) : dispatch a b = dispatch b a := by
  cases a <;> cases b <;> decide

/-! ## Generic transforms, finite compose / inv programs, registration chain -/

/-- every ordered pair of transform kinds (affine family or generic `Transform`):
    the composed object maps points as *second, then first*. -/
theorem compose_app (x y : Xf) (p : V3) : (x.compose y).app p = x.app (y.app p) := by
  cases x <;> cases y <;> simp [Xf.compose, Xf.app, Aff.apply_mul]

/-- input/output relation denoted by a program: `comp` is relational composition
    (right operand first), `inv` is the converse relation. -/
def Prog.rel (env : List Xf) : Prog → V3 → V3 → Prop
  | .leaf k => fun p q => ∃ x, env[k]? = some x ∧ x.app p = q
  | .comp a b => fun p q => ∃ m, Prog.rel env b p m ∧ Prog.rel env a m q
  | .inv a => fun p q => Prog.rel env a q p

/-- *All finite compose / inv chains*: whatever object the library builds for a program,
    it maps each point to a point related to it by the program's meaning. -/
theorem prog_sound (env : List Xf) (e : Prog) :
    ∀ x, e.eval env = .ok x → ∀ p, Prog.rel env e p (x.app p) := by
  induction e with
  | leaf k =>
      intro x h p
      simp only [Prog.eval] at h
      cases hk : env[k]? with
      | none => simp [hk] at h
      | some y =>
          simp only [hk, Except.ok.injEq] at h
          exact ⟨y, hk, by rw [h]⟩
  | comp a b iha ihb =>
      intro x h p
      simp only [Prog.eval, bind, Except.bind] at h
      cases ha : Prog.eval env a with
      | error m => simp [ha] at h
      | ok xa =>
          cases hb : Prog.eval env b with
          | error m => simp [ha, hb] at h
          | ok xb =>
              simp only [ha, hb, pure, Except.pure, Except.ok.injEq] at h
              subst h
              exact ⟨xb.app p, ihb xb hb p, by rw [compose_app]; exact iha xa ha _⟩
  | inv a iha =>
      intro x h p
      simp only [Prog.eval, bind, Except.bind] at h
      cases ha : Prog.eval env a with
      | error m => simp [ha] at h
      | ok xa =>
          simp only [ha] at h
          cases xa with
          | gen f => simp [Xf.inv] at h
          | aff c m =>
              simp only [Xf.inv] at h
              cases hm : m.inv with
              | none => simp [hm] at h
              | some mi =>
                  simp only [hm, Except.ok.injEq] at h
                  subst h
                  have := iha (.aff c m) ha ((Xf.aff c mi).app p)
                  simp only [Xf.app] at this ⊢
                  rw [(apply_inv m mi hm p).2] at this
                  exact this

/-- every leaf index of the program is bound in an environment of size `n` -/
def Prog.leavesIn (n : Nat) : Prog → Prop
  | .leaf k => k < n
  | .comp a b => Prog.leavesIn n a ∧ Prog.leavesIn n b
  | .inv a => Prog.leavesIn n a

/-- *Composing never fails*: a program over invertible affine leaves always evaluates, to an
    invertible member of the affine family. -/
theorem prog_total (env : List Xf) (henv : ∀ x ∈ env, ∃ c a, x = .aff c a ∧ a.det ≠ 0)
    (e : Prog) (hl : e.leavesIn env.length) :
    ∃ c a, e.eval env = .ok (.aff c a) ∧ a.det ≠ 0 := by
  induction e with
  | leaf k =>
      simp only [Prog.leavesIn] at hl
      have hx : env[k]? = some env[k] := List.getElem?_eq_getElem hl
      obtain ⟨c, a, hca, hd⟩ := henv env[k] (List.getElem_mem hl)
      exact ⟨c, a, by simp [Prog.eval, hx, hca], hd⟩
  | comp a b iha ihb =>
      obtain ⟨ca, ma, ha, hda⟩ := iha hl.1
      obtain ⟨cb, mb, hb, hdb⟩ := ihb hl.2
      refine ⟨dispatch ca cb, ma.mul mb, ?_, ?_⟩
      · simp [Prog.eval, ha, hb, bind, Except.bind, pure, Except.pure, Xf.compose]
      · rw [Aff.det_mul]; exact mul_ne_zero hda hdb
  | inv a iha =>
      obtain ⟨ca, ma, ha, hda⟩ := iha hl
      obtain ⟨mi, hmi⟩ := inv_total ma hda
      exact ⟨ca, mi, by simp [Prog.eval, ha, bind, Except.bind, Xf.inv, hmi],
        inv_det_ne_zero ma mi hmi⟩

/-- `ChainTransform.apply`: *the pre / optimisable / post chain maps points exactly as the
    product of its three parts*. -/
theorem chain_apply (pre opt post : Xf) (p : V3) :
    chainApply pre opt post p = post.app (opt.app (pre.app p)) := by
  unfold chainApply; rw [compose_app, compose_app]

/-! ## Rotation vectors -/

/-- *Every rotation vector yields a proper rotation matrix* (Rodrigues branch): for a unit
    axis and `sin² + cos² = 1` the matrix is orthogonal with determinant one. -/
theorem rodrigues_proper (n : V3) (s c : Rat) (hn : n.dot n = 1) (hsc : s * s + c * c = 1) :
    M3.IsRotation (rodrigues n s c) := by
  have hq : rodrigues n s c = quadRot n s (1 - c) := rfl
  constructor
  · rw [hq, quadRot_gram, hn]
    have : 2 * (1 - c) - 1 * (1 - c) ^ 2 - s ^ 2 = 0 := by linear_combination -hsc
    rw [this, smul_zero_add]
  · rw [hq, quadRot_det, hn]; linear_combination hsc

/-- the axis is fixed by the rotation it parametrises -/
theorem rodrigues_axis_fixed (n : V3) (s c : Rat) : (rodrigues n s c).mulVec n = n := by
  unfold rodrigues
  apply V3.ext <;> m3_simp <;> ring

/-- negating the rotation vector (same axis, `sin ↦ −sin`) gives the transpose, i.e. the
    inverse rotation -/
theorem rodrigues_neg (n : V3) (s c : Rat) :
    rodrigues n (-s) c = (rodrigues n s c).transpose := by
  unfold rodrigues
  apply M3.ext <;> m3_simp <;> ring

/-- `rotation_vec2mat` with all its branch thresholds: whenever the angle data are
    consistent (`θ² = r·r`, `sin² + cos² = 1`) and the angle is above `SMALL_ANGLE`, the
    result is a proper rotation (identity above `MAX_ANGLE`). -/
theorem rotationVec2Mat_proper (r : V3) (g : Trig) (hθ : g.theta * g.theta = r.dot r)
    (hsc : g.s * g.s + g.c * g.c = 1) (hbig : smallAngle < g.theta) :
    M3.IsRotation (rotationVec2Mat r g) := by
  unfold rotationVec2Mat
  split_ifs with h1
  · exact M3.isRotation_one
  · have hpos : g.theta ≠ 0 := ne_of_gt (lt_trans smallAngle_pos hbig)
    apply rodrigues_proper _ _ _ _ hsc
    simp only [V3.dot, V3.sdiv] at hθ ⊢
    field_simp
    linear_combination -hθ

/-- small-angle (Taylor) branch: exactly orthogonal up to the explicit sixth-order term
    `(θ⁴/72 − θ⁶/576)·Sr²` (at most ~1e-120 below `SMALL_ANGLE = 1e-30`). -/
theorem taylorRot_gram (r : V3) (theta : Rat) (hθ : theta * theta = r.dot r) :
    (taylorRot r theta).transpose.mul (taylorRot r theta)
      = M3.one.add (M3.smul (theta ^ 4 / 72 - theta ^ 6 / 576) ((M3.skew r).mul (M3.skew r))) := by
  have hq : taylorRot r theta = quadRot r (1 - theta * theta / 6) (1 / 2 - theta * theta / 24) := rfl
  rw [hq, quadRot_gram, ← hθ]
  congr 2
  ring

/-! ## `to_matrix44` / `as_affine`: the reflection flag is the sign of the determinant -/

/-- determinant of `as_affine()`: `± s₁ s₂ s₃` with the sign given by the `_direct` flag -/
theorem asAffine_det (v : Vec12) (direct : Bool) (e : Ext)
    (hR : M3.IsRotation (rotationVec2Mat v.rotation e.rot))
    (hQ : M3.IsRotation (rotationVec2Mat v.preRotation e.pre)) :
    (asAffine v direct e).m.det
      = (if direct then 1 else -1) * (e.scales.x * e.scales.y * e.scales.z) := by
  unfold asAffine toMatrix44
  cases direct <;>
    simp only [if_true, if_false, Bool.false_eq_true, M3.det_neg, M3.det_mul, hR.2, hQ.2, M3.det_diag] <;>
    ring

/-- with positive scalings, `as_affine()` preserves orientation iff the transform is direct
    (*including reflections*) -/
theorem asAffine_direct_iff (v : Vec12) (direct : Bool) (e : Ext)
    (hR : M3.IsRotation (rotationVec2Mat v.rotation e.rot))
    (hQ : M3.IsRotation (rotationVec2Mat v.preRotation e.pre))
    (hx : 0 < e.scales.x) (hy : 0 < e.scales.y) (hz : 0 < e.scales.z) :
    0 < (asAffine v direct e).m.det ↔ direct = true := by
  rw [asAffine_det v direct e hR hQ]
  have hp : 0 < e.scales.x * e.scales.y * e.scales.z := by positivity
  cases direct
  · simp only [Bool.false_eq_true, if_false, iff_false, not_lt]; nlinarith
  · simp only [if_true, iff_true]; linarith

/-! ## `from_matrix44`: the sign fixes are sound for either determinant sign -/

/-- `Affine.from_matrix44`: given *any* factorisation `A = U·diag(s)·Vt`, the factors kept after
    the two sign fixes, recombined with the `_direct` flag as `as_affine` does, give `A` back. -/
theorem svdFix_sound (U Vt : M3) (s : V3) :
    (if (svdFix true U Vt).direct then (svdFix true U Vt).R.mul ((M3.diag s).mul (svdFix true U Vt).Q)
     else ((svdFix true U Vt).R.mul ((M3.diag s).mul (svdFix true U Vt).Q)).neg)
      = U.mul ((M3.diag s).mul Vt) := by
  unfold svdFix
  by_cases hU : U.det < 0
  · by_cases hV : Vt.neg.det < 0
    · simp [hU, hV, M3.neg_neg, M3.neg_mul]
    · simp [hU, hV, M3.neg_mul, M3.mul_neg, M3.neg_neg]
  · by_cases hV : Vt.det < 0
    · simp [hU, hV, M3.mul_neg, M3.neg_neg]
    · simp [hU, hV]

/-- for orthogonal SVD factors both kept factors are proper rotations (so they have rotation
    vectors) whatever the signs of `det U`, `det Vt` -/
theorem svdFix_proper (U Vt : M3) (d0 : Bool) (hU : U.transpose.mul U = M3.one)
    (hV : Vt.transpose.mul Vt = M3.one) :
    M3.IsRotation (svdFix d0 U Vt).R ∧ M3.IsRotation (svdFix d0 U Vt).Q := by
  have hdU := orth_det U hU
  have hdV := orth_det Vt hV
  unfold svdFix
  by_cases h1 : U.det < 0
  · have hu : U.det = -1 := by rcases hdU with h | h <;> [(rw [h] at h1; norm_num at h1); exact h]
    by_cases h2 : Vt.neg.det < 0
    · have hv : Vt.det = 1 := by
        rw [M3.det_neg] at h2; rcases hdV with h | h <;> [exact h; (rw [h] at h2; norm_num at h2)]
      simp only [h1, h2, if_true]
      exact ⟨⟨orth_neg U hU, by rw [M3.det_neg, hu]; norm_num⟩,
             ⟨by rw [M3.neg_neg]; exact hV, by rw [M3.neg_neg]; exact hv⟩⟩
    · have hv : Vt.det = -1 := by
        rw [M3.det_neg] at h2; rcases hdV with h | h <;> [(rw [h] at h2; norm_num at h2); exact h]
      simp only [h1, h2, if_true, if_false]
      exact ⟨⟨orth_neg U hU, by rw [M3.det_neg, hu]; norm_num⟩,
             ⟨orth_neg Vt hV, by rw [M3.det_neg, hv]; norm_num⟩⟩
  · have hu : U.det = 1 := by rcases hdU with h | h <;> [exact h; (rw [h] at h1; norm_num at h1)]
    by_cases h2 : Vt.det < 0
    · have hv : Vt.det = -1 := by rcases hdV with h | h <;> [(rw [h] at h2; norm_num at h2); exact h]
      simp only [h1, h2, if_true, if_false]
      exact ⟨⟨hU, hu⟩, ⟨orth_neg Vt hV, by rw [M3.det_neg, hv]; norm_num⟩⟩
    · have hv : Vt.det = 1 := by rcases hdV with h | h <;> [exact h; (rw [h] at h2; norm_num at h2)]
      simp only [h1, h2, if_false]
      exact ⟨⟨hU, hu⟩, ⟨hV, hv⟩⟩

/-- `Rigid.from_matrix44`: rotation block and flag recombine to the input; the kept block is a
    proper rotation for an orthogonal input of either determinant sign. -/
theorem rigidFix_sound (A : M3) :
    (if (rigidFix true A).2 then (rigidFix true A).1 else (rigidFix true A).1.neg) = A ∧
    (A.transpose.mul A = M3.one → M3.IsRotation (rigidFix true A).1) := by
  unfold rigidFix
  by_cases h : A.det < 0
  · simp only [h, if_true, Bool.false_eq_true, if_false, M3.neg_neg, true_and]
    intro ho
    refine ⟨orth_neg A ho, ?_⟩
    rw [M3.det_neg]
    rcases orth_det A ho with h1 | h1 <;> rw [h1] at h ⊢ <;> linarith
  · simp only [h, if_false, if_true, true_and]
    intro ho
    refine ⟨ho, ?_⟩
    rcases orth_det A ho with h1 | h1
    · exact h1
    · rw [h1] at h; norm_num at h

/-- `Similarity.from_matrix44`: for any non-zero scale `s`, `±s·(A'/s)` gives `A` back. -/
theorem simFix_sound (A : M3) (s : Rat) (hs : s ≠ 0) :
    (if (simFix true A s).2 then M3.smul s (simFix true A s).1
     else (M3.smul s (simFix true A s).1).neg) = A := by
  unfold simFix
  by_cases h : A.det < 0
  · simp only [h, if_true, Bool.false_eq_true, if_false]
    apply M3.ext <;> m3_simp <;> field_simp
  · simp only [h, if_false, if_true]
    apply M3.ext <;> m3_simp <;> field_simp

/-- *Converting a transform to a 4×4 matrix and back reproduces the same mapping* — relative to
    the numerical externals: **if** `svd` returned a factorisation of the linear part, the stored
    rotation vectors reproduce the kept factors (`rotation_mat2vec` right-inverse to
    `rotation_vec2mat`), `exp ∘ log` reproduces the singular values and the translation is below
    `MAX_DIST`, **then** `as_affine()` of the re-built transform is the input matrix, reflections
    included.  (Partial: the quaternion / `acos` / `log` step itself is checked numerically.) -/
theorem from_to_matrix44_partial (A : Aff) (U Vt : M3) (s : V3)
    (hsvd : A.m = U.mul ((M3.diag s).mul Vt)) (v : Vec12) (e : Ext)
    (ht : v.translation = A.t)
    (hbx : -maxDist ≤ A.t.x ∧ A.t.x ≤ maxDist) (hby : -maxDist ≤ A.t.y ∧ A.t.y ≤ maxDist)
    (hbz : -maxDist ≤ A.t.z ∧ A.t.z ≤ maxDist)
    (hR : rotationVec2Mat v.rotation e.rot = (svdFix true U Vt).R)
    (hQ : rotationVec2Mat v.preRotation e.pre = (svdFix true U Vt).Q)
    (hs : e.scales = s) :
    asAffine v (svdFix true U Vt).direct e = A := by
  have key := svdFix_sound U Vt s
  have htr : thresholdV v.translation maxDist = A.t := by
    rw [ht]; unfold thresholdV
    rw [threshold_id _ _ hbx.1 hbx.2, threshold_id _ _ hby.1 hby.2, threshold_id _ _ hbz.1 hbz.2]
  unfold asAffine toMatrix44
  simp only [hR, hQ, hs, htr]
  cases hd : (svdFix true U Vt).direct
  · simp only [hd, Bool.false_eq_true, if_false] at key ⊢
    rw [key, ← hsvd]
  · simp only [hd, if_true] at key ⊢
    rw [key, ← hsvd]

/-! ## Parameter vectors -/

/-- non-zero preconditioner entries (`preconditioner(radius)` has them for every radius) -/
def Vec12.AllNonzero (pc : Vec12) : Prop :=
  pc.p0 ≠ 0 ∧ pc.p1 ≠ 0 ∧ pc.p2 ≠ 0 ∧ pc.p3 ≠ 0 ∧ pc.p4 ≠ 0 ∧ pc.p5 ≠ 0 ∧ pc.p6 ≠ 0 ∧ pc.p7 ≠ 0 ∧
  pc.p8 ≠ 0 ∧ pc.p9 ≠ 0 ∧ pc.p10 ≠ 0 ∧ pc.p11 ≠ 0

/-- *Assigning then reading the parameter vector returns it*, for every class, every 12-vector,
    every preconditioner, every parameter vector of the class's length. -/
theorem get_set_param (c : Cls) (v pc : Vec12) (p : List Rat)
    (hp : p.length = (paramInds c).length) (hpc : pc.AllNonzero) :
    ∃ w, setParam c v pc p = .ok w ∧ getParam c w pc = p := by
  obtain ⟨h0, h1, h2, h3, h4, h5, h6, h7, h8, h9, h10, h11⟩ := hpc
  have hl := list_eq_map_getD p
  refine ⟨assign v pc p (setPairs c), ?_, ?_⟩
  · cases c <;> simp [paramInds, Gen.C08.indsAffine, Gen.C08.indsAffine2D, Gen.C08.indsRigid, Gen.C08.indsRigid2D, Gen.C08.indsSimilarity, Gen.C08.indsSimilarity2D, Gen.C08.simTargets, Gen.C08.simSources, Gen.C08.sim2dTargets, Gen.C08.sim2dSources] at hp <;> simp [setParam, fancySet, paramInds, setPairs, hp, Gen.C08.indsAffine, Gen.C08.indsAffine2D, Gen.C08.indsRigid, Gen.C08.indsRigid2D, Gen.C08.indsSimilarity, Gen.C08.indsSimilarity2D, Gen.C08.simTargets, Gen.C08.simSources, Gen.C08.sim2dTargets, Gen.C08.sim2dSources]
  · cases c <;>
      (simp only [paramInds, Gen.C08.indsAffine, Gen.C08.indsAffine2D, Gen.C08.indsRigid, Gen.C08.indsRigid2D, Gen.C08.indsSimilarity, Gen.C08.indsSimilarity2D, Gen.C08.simTargets, Gen.C08.simSources, Gen.C08.sim2dTargets, Gen.C08.sim2dSources, List.length_cons, List.length_nil] at hp
       rw [hp] at hl
       simp only [List.range, List.range.loop, List.map_cons, List.map_nil] at hl
       conv_rhs => rw [hl]
       clear hl
       simp [getParam, paramInds, Gen.C08.indsAffine, Gen.C08.indsAffine2D, Gen.C08.indsRigid, Gen.C08.indsRigid2D, Gen.C08.indsSimilarity, Gen.C08.indsSimilarity2D, Gen.C08.simTargets, Gen.C08.simSources, Gen.C08.sim2dTargets, Gen.C08.sim2dSources, assign, setPairs, List.zip, List.range, List.range.loop, Vec12.set,
         Vec12.get, h0, h1, h2, h3, h4, h5, h6, h7, h8, h9, h10, h11])

/-- *Reading and re-assigning the parameter vector reproduces the same transform*: the
    12-vector (hence `as_affine()` and the point mapping) is unchanged.  For the two similarity
    classes this needs the replicated scale slots equal, which every similarity built by
    `from_matrix44` / `param` has. -/
theorem set_get_param (c : Cls) (v pc : Vec12) (hpc : pc.AllNonzero)
    (hsim : c = .similarity ∨ c = .similarity2d →
      v.p6 = v.p7 ∧ v.p7 = v.p8 ∧ pc.p6 = pc.p7 ∧ pc.p7 = pc.p8) :
    setParam c v pc (getParam c v pc) = .ok v := by
  obtain ⟨h0, h1, h2, h3, h4, h5, h6, h7, h8, h9, h10, h11⟩ := hpc
  cases c
  case similarity =>
    obtain ⟨e1, e2, e3, e4⟩ := hsim (Or.inl rfl)
    simp only [setParam, fancySet, getParam, paramInds, Gen.C08.indsAffine, Gen.C08.indsAffine2D, Gen.C08.indsRigid, Gen.C08.indsRigid2D, Gen.C08.indsSimilarity, Gen.C08.indsSimilarity2D, Gen.C08.simTargets, Gen.C08.simSources, Gen.C08.sim2dTargets, Gen.C08.sim2dSources, setPairs, assign, List.zip_cons_cons, List.zip_nil_right, List.zip_nil_left, List.map_cons, List.map_nil,
      List.all_cons, List.all_nil, List.length_cons, List.length_nil, List.foldl_cons, List.foldl_nil,
      Vec12.set, Vec12.get, List.getD_cons_zero, List.getD_cons_succ]
    simp only [if_true, Bool.and_true, decide_true, Nat.reduceAdd, Nat.reduceLT, Except.ok.injEq]
    apply Vec12.ext <;> simp only [] <;> first | rfl | (field_simp)
    all_goals first | (rw [← e3, ← e1]; field_simp) | (rw [← e4, ← e3, ← e2, ← e1]; field_simp)
  case similarity2d =>
    obtain ⟨e1, e2, e3, e4⟩ := hsim (Or.inr rfl)
    simp only [setParam, fancySet, getParam, paramInds, Gen.C08.indsAffine, Gen.C08.indsAffine2D, Gen.C08.indsRigid, Gen.C08.indsRigid2D, Gen.C08.indsSimilarity, Gen.C08.indsSimilarity2D, Gen.C08.simTargets, Gen.C08.simSources, Gen.C08.sim2dTargets, Gen.C08.sim2dSources, setPairs, assign, List.zip_cons_cons, List.zip_nil_right, List.zip_nil_left, List.map_cons, List.map_nil,
      List.all_cons, List.all_nil, List.length_cons, List.length_nil, List.foldl_cons, List.foldl_nil,
      Vec12.set, Vec12.get, List.getD_cons_zero, List.getD_cons_succ]
    simp only [if_true, Bool.and_true, decide_true, Nat.reduceAdd, Nat.reduceLT, Except.ok.injEq]
    apply Vec12.ext <;> simp only [] <;> first | rfl | (field_simp)
    all_goals first | (rw [← e3, ← e1]; field_simp) | (rw [← e4, ← e3, ← e2, ← e1]; field_simp)
  all_goals
    (simp only [setParam, fancySet, getParam, paramInds, Gen.C08.indsAffine, Gen.C08.indsAffine2D, Gen.C08.indsRigid, Gen.C08.indsRigid2D, Gen.C08.indsSimilarity, Gen.C08.indsSimilarity2D, Gen.C08.simTargets, Gen.C08.simSources, Gen.C08.sim2dTargets, Gen.C08.sim2dSources, setPairs, assign, List.map_cons, List.map_nil,
      List.length_cons, List.length_nil, List.zip, List.zipWith, List.range, List.range.loop,
      List.foldl_cons, List.foldl_nil, Vec12.set, Vec12.get, List.getD_cons_zero, List.getD_cons_succ]
     simp only [Bool.false_eq_true, if_false, if_true, Nat.reduceAdd, Except.ok.injEq]
     apply Vec12.ext <;> simp only [] <;> first | rfl | field_simp)

/-! ## PolyAffine -/

/-- `PolyAffine.compose(affine)`: the new global affine is the product, so the composed
    polyaffine maps `x` as the polyaffine maps `other(x)` (with or without a global affine). -/
theorem poly_compose (g : Option Aff) (o : Aff) (l : List (Rat × Aff)) (w : Rat) (x : V3) :
    polyApply (some (match g with | some g => g.mul o | none => o)) l w x
      = polyApply g l w (o.apply x) := by
  cases g <;> simp [polyApply, Aff.apply_mul]

/-- `PolyAffine.left_compose(affine)` (what `Affine.compose(polyaffine)` dispatches to):
    multiplying every local affine on the left by `o` composes `o` after the polyaffine —
    provided the weights are normalised by their true (non-underflowed) total. -/
theorem poly_left_compose (o : Aff) (l : List (Rat × Aff)) (hw : wtotal l ≠ 0) (y : V3) :
    polyPoint (l.map (fun wa => (wa.1, o.mul wa.2))) (wtotal l) y
      = o.apply (polyPoint l (wtotal l) y) := by
  unfold polyPoint
  rw [wsum_map_mul]
  apply V3.ext <;> m3_simp <;> field_simp <;> ring

/-! ## Non-vacuity: concrete objects meeting the hypotheses -/

/-- a 3-4-5 rotation about `z`: unit axis, `sin² + cos² = 1`, and the theorem's conclusion -/
example : (⟨0, 0, 1⟩ : V3).dot ⟨0, 0, 1⟩ = 1 ∧ ((3 : Rat) / 5) * (3 / 5) + (4 / 5) * (4 / 5) = 1 := by
  constructor <;> norm_num [V3.dot]
example : rodrigues ⟨0, 0, 1⟩ (3 / 5) (4 / 5) = ⟨4 / 5, -3 / 5, 0, 3 / 5, 4 / 5, 0, 0, 0, 1⟩ := by
  decide +kernel
/-- consistent angle data above `SMALL_ANGLE`: `r = (0, 0, 5)`, `θ = 5` (rational stand-ins for sin, cos) -/
example : (5 : Rat) * 5 = (⟨0, 0, 5⟩ : V3).dot ⟨0, 0, 5⟩ ∧ smallAngle < 5 := by
  constructor
  · norm_num [V3.dot]
  · decide +kernel
/-- a reflection: `Vt` with determinant −1 is flipped and the flag cleared -/
example : svdFix true M3.one ⟨1, 0, 0, 0, 1, 0, 0, 0, -1⟩ = ⟨M3.one, ⟨-1, 0, 0, 0, -1, 0, 0, 0, 1⟩, false⟩ := by
  decide +kernel
example : (⟨1, 0, 0, 0, 1, 0, 0, 0, -1⟩ : M3).transpose.mul ⟨1, 0, 0, 0, 1, 0, 0, 0, -1⟩ = M3.one := by
  decide +kernel
/-- `preconditioner(100)` has no zero entry and equal scale slots -/
example : (preconditioner 100).AllNonzero ∧ (preconditioner 100).p6 = (preconditioner 100).p7 := by
  unfold Vec12.AllNonzero; decide +kernel
/-- an invertible affine and its inverse -/
example : (⟨⟨2, 0, 0, 0, 1, 1, 0, 0, 1⟩, ⟨1, 2, 3⟩⟩ : Aff).inv
    = some ⟨⟨1 / 2, 0, 0, 0, 1, -1, 0, 0, 1⟩, ⟨-1 / 2, 1, -3⟩⟩ := by decide +kernel
/-- the class pair that the unchanged library refuses: the model selects `Affine` -/
example : dispatch .affine .rigid = .affine ∧ dispatch .rigid .affine2d = .affine ∧
    dispatch .similarity2d .rigid2d = .similarity2d := by decide
/-- a program with an inverse over a two-leaf environment evaluates -/
example : Prog.leavesIn 2 (.comp (.leaf 0) (.inv (.leaf 1))) := by simp [Prog.leavesIn]
/-- normalised polyaffine weights -/
example : wtotal [(1 / 2, Aff.one), (1 / 4, Aff.one)] ≠ 0 := by decide +kernel

end NipyVerif.C08
