/-
C14 (wave 3) — the public `kmeans` for every `Labels` / `maxiter` / `delta` / `ninit` the caller may
pass (what is returned, what is refused), the early stop of `_kmeans`, and the invariances of the
nearest-centre assignment that make `voronoi` independent of a common offset or unit of the data.
Only property statements and non-vacuity examples live here.
-/
import NipyVerif.Props.C14E
import NipyVerif.Model.C14W

namespace NipyVerif.C14

/-! ## `_kmeans`: the early stop -/

theorem moved_nonneg (p k : Nat) (A B : Nat → Vec) : 0 ≤ moved p k A B :=
  sumTo_nonneg (fun _ _ => sqDist_nonneg p _ _)

theorem runFrom_succ (p k : Nat) (X : List Vec) (thr : Rat) (f : Nat) (C : List (List Rat)) :
    runFrom p k X thr (f + 1) C =
      if moved p k (centresOf C) (centresOf (kmStep p k X C).2) < thr then kmStep p k X C
      else runFrom p k X thr f (kmStep p k X C).2 := rfl

/-- **The early stop is a truncation**: whatever the threshold `delta * vdata`, what `_kmeans`
    returns with a budget of `f + 1` iterations is what the loop *without* a stopping rule returns
    after `f' + 1 ≤ f + 1` iterations.  The stopping rule chooses how many loop bodies run; it never
    produces a solution the plain Lloyd iteration does not pass through. -/
theorem runFrom_early_stop_is_truncation (p k : Nat) (X : List Vec) (thr : Rat) (f : Nat)
    (C : List (List Rat)) :
    ∃ f', f' ≤ f ∧ runFrom p k X thr f C = runFrom p k X 0 f' C := by
  induction f generalizing C with
  | zero => exact ⟨0, le_refl 0, rfl⟩
  | succ f ih =>
      by_cases h : moved p k (centresOf C) (centresOf (kmStep p k X C).2) < thr
      · refine ⟨0, Nat.zero_le _, ?_⟩
        rw [runFrom_succ, if_pos h]; rfl
      · obtain ⟨f', hf', e⟩ := ih (kmStep p k X C).2
        refine ⟨f' + 1, Nat.succ_le_succ hf', ?_⟩
        rw [runFrom_succ, if_neg h, e, kmeans_no_early_stop p k X 0 (le_refl 0) f' C]

/-- a larger budget never increases the WCSS of the returned solution (any threshold) -/
theorem runFrom_wcss_antitone (p k : Nat) (hk : 0 < k) (X : List Vec) (thr : Rat) (f f' : Nat)
    (hff : f' ≤ f) (C : List (List Rat)) :
    solWcss p X (runFrom p k X thr f C) ≤ solWcss p X (runFrom p k X thr f' C) := by
  obtain ⟨t, rfl⟩ := Nat.exists_eq_add_of_le hff
  induction t with
  | zero => exact le_refl _
  | succ t ih =>
      exact le_trans (runFrom_succ_le p k hk X thr (f' + t) C) (ih (Nat.le_add_right _ _))

/-- "running more iterations never increases the within-cluster sum of squares" across stopping
    rules: stopping early (any `delta`) can only leave the solution at a WCSS that the run without
    a stopping rule and the same budget has reached or improved. -/
theorem kmeans_early_stop_costs_at_most_progress (p k : Nat) (hk : 0 < k) (X : List Vec) (thr : Rat)
    (f : Nat) (C : List (List Rat)) :
    solWcss p X (runFrom p k X 0 f C) ≤ solWcss p X (runFrom p k X thr f C) := by
  obtain ⟨f', hf', e⟩ := runFrom_early_stop_is_truncation p k X thr f C
  rw [e]
  exact runFrom_wcss_antitone p k hk X 0 f f' hf' C

/-! ## the returned `J` over restarts -/

theorem minOpt_none_right (a : Option Rat) : minOpt a none = a := by
  cases a <;> rfl

theorem minOpt_self (a : Option Rat) : minOpt a a = a := by
  cases a with
  | none => rfl
  | some x => simp [minOpt]

theorem minOpt_assoc (a b c : Option Rat) : minOpt (minOpt a b) c = minOpt a (minOpt b c) := by
  cases a with
  | none => cases b <;> cases c <;> rfl
  | some x =>
      cases b with
      | none => cases c <;> rfl
      | some y =>
          cases c with
          | none => simp [minOpt]
          | some z =>
              simp only [minOpt]
              congr 1
              split_ifs <;> linarith

/-- the update `if J < bJ: bJ = J` of the loop is `minOpt` -/
theorem runJ_eq_minOpt (p k : Nat) (X : List Vec) (thr : Rat) (f : Nat) (C : List (List Rat))
    (bJ : Option Rat) :
    runJ p k X thr f C bJ = minOpt bJ (runJ p k X thr f C none) := by
  induction f generalizing C bJ with
  | zero => simp [runJ, minOpt_none_right]
  | succ f ih =>
      simp only [runJ]
      split_ifs with h
      · exact (minOpt_none_right bJ).symm
      · cases bJ with
        | none => rfl
        | some b =>
            show runJ p k X thr f (kmStep p k X C).2
                (if wcss p X (kmStep p k X C).1 (centresOf C) < b
                  then some (wcss p X (kmStep p k X C).1 (centresOf C)) else some b)
              = minOpt (some b)
                (runJ p k X thr f (kmStep p k X C).2 (some (wcss p X (kmStep p k X C).1 (centresOf C))))
            rw [ih _ (if wcss p X (kmStep p k X C).1 (centresOf C) < b
                  then some (wcss p X (kmStep p k X C).1 (centresOf C)) else some b),
              ih _ (some (wcss p X (kmStep p k X C).1 (centresOf C))), ← minOpt_assoc]
            congr 1
            simp only [minOpt]
            split_ifs <;> rfl

/-- restarts that all begin at the same centres give the `J` of one of them -/
theorem runJ_fold_replicate (p k : Nat) (X : List Vec) (thr : Rat) (mi : Nat) (C : List (List Rat))
    (m : Nat) (hm : 0 < m) :
    (List.replicate m C).foldl (fun bJ C' => runJ p k X thr mi C' bJ) none
      = runJ p k X thr mi C none := by
  have hfix : ∀ m', (List.replicate m' C).foldl (fun bJ C' => runJ p k X thr mi C' bJ)
      (runJ p k X thr mi C none) = runJ p k X thr mi C none := by
    intro m'
    induction m' with
    | zero => rfl
    | succ m' ih =>
        rw [List.replicate_succ, List.foldl_cons, runJ_eq_minOpt, minOpt_self]
        exact ih
  obtain ⟨m', rfl⟩ := Nat.exists_eq_succ_of_ne_zero (Nat.pos_iff_ne_zero.mp hm)
  rw [List.replicate_succ, List.foldl_cons]
  exact hfix m'

/-! ## the public `kmeans` -/

theorem labNat_cast (k l : Nat) : labNat k (l : Int) = l := by
  simp [labNat]

/-- **An acceptable labelling** (one label per item, entries in `0..k` — the wrapper admits `k`
    itself): the public `kmeans` is the model `kmeansW` the other theorems are about, whatever
    `ninit ≥ 1` is — with `Labels` given every restart begins at the same centres, so `ninit` does
    not matter, neither for the solution nor for the returned `J`. -/
theorem kmeansPub_accepted (p : Nat) (X : List Vec) (k0 : Int) (z0 : List Nat) (maxiter : Int)
    (delta : Rat) (ninit : Int) (inits : List (List (List Rat))) (hn : 0 < ninit)
    (hlen : z0.length = X.length) (hz : ∀ l ∈ z0, l ≤ min (max k0.toNat 1) X.length) :
    kmeansPub p X k0 (some (z0.map (fun (l : Nat) => (l : Int)))) inits maxiter delta ninit
      = .ok (kmeansW p X k0 z0 maxiter delta) := by
  have hOK : labelsOK (z0.map (fun (l : Nat) => (l : Int))) (min (max k0.toNat 1) X.length) = true := by
    simp only [labelsOK, Bool.and_eq_true, List.all_eq_true, List.mem_map, decide_eq_true_eq]
    constructor
    · rintro x ⟨l, _, rfl⟩; omega
    · rintro x ⟨l, hl, rfl⟩; have := hz l hl; omega
  have hmap : (z0.map (fun (l : Nat) => (l : Int))).map (labNat (min (max k0.toNat 1) X.length)) = z0 := by
    rw [List.map_map]
    conv_rhs => rw [← List.map_id z0]
    apply List.map_congr_left
    intro l _
    simp [labNat_cast]
  have hrep : 0 < ninit.toNat := by omega
  have hlast : (List.replicate ninit.toNat
      (mstepL p X z0 (min (max k0.toNat 1) X.length))).getLast?
      = some (mstepL p X z0 (min (max k0.toNat 1) X.length)) := by
    obtain ⟨m, hm⟩ := Nat.exists_eq_succ_of_ne_zero (Nat.pos_iff_ne_zero.mp hrep)
    rw [hm, List.getLast?_replicate]; simp
  have hms : mstepAny p X (z0.map (fun (l : Nat) => (l : Int))) (min (max k0.toNat 1) X.length)
      = .ok (mstepL p X z0 (min (max k0.toNat 1) X.length)) := by
    unfold mstepAny
    rw [if_neg (by simp [hlen]), hmap]
  by_cases hm : maxiter > 0
  · have hmd : wrapArgs X.length (min (max k0.toNat 1) X.length)
        (some (z0.map (fun (l : Nat) => (l : Int)))) maxiter delta
        = (maxiter, if delta < 0 then deltaDefault else delta) := by
      simp [wrapArgs, hlen, hOK, hm]
    simp only [kmeansPub, hmd, hms, if_neg (not_le.mpr hn), Except.map, if_neg (not_le.mpr hm), hlast,
      runRestart, runJ_fold_replicate _ _ _ _ _ _ _ hrep, kmeansW, kmeans, if_pos hm]
  · have hmd : wrapArgs X.length (min (max k0.toNat 1) X.length)
        (some (z0.map (fun (l : Nat) => (l : Int)))) maxiter delta = (300, delta) := by
      simp [wrapArgs, hlen, hOK, hm]
    have e2 : Int.toNat 300 = 300 := rfl
    simp only [kmeansPub, hmd, hms, if_neg (not_le.mpr hn), Except.map, hlast,
      runRestart, runJ_fold_replicate _ _ _ _ _ _ _ hrep, kmeansW, kmeans, if_neg hm, e2]
    norm_num

/-- what a successful call returns is always the result of the loop from some initial centres,
    with a budget of at least one iteration -/
theorem kmeansPub_ok_is_run (p : Nat) (X : List Vec) (k0 : Int) (L : Option (List Int))
    (inits : List (List (List Rat))) (maxiter : Int) (delta : Rat) (ninit : Int)
    (r : List Nat × List (List Rat) × Option Rat)
    (h : kmeansPub p X k0 L inits maxiter delta ninit = .ok r) :
    ∃ C0 thr f, (r.1, r.2.1) = runFrom p (min (max k0.toNat 1) X.length) X thr f C0 := by
  unfold kmeansPub at h
  simp only at h
  repeat' split at h
  all_goals cases h
  all_goals exact ⟨_, _, _, rfl⟩

/-- "K-means returns labels within range and centres that are exactly the means of their members
    (the global mean for an empty cluster)" — for the public `kmeans` **whenever it returns**:
    random initialisation with any number of restarts, an acceptable labelling, a labelling with
    entries out of range, a vector of another length that selects no cluster. -/
theorem kmeansPub_returns_valid (p : Nat) (X : List Vec) (hX : X ≠ []) (k0 : Int)
    (L : Option (List Int)) (inits : List (List (List Rat))) (maxiter : Int) (delta : Rat)
    (ninit : Int) (r : List Nat × List (List Rat) × Option Rat)
    (h : kmeansPub p X k0 L inits maxiter delta ninit = .ok r) :
    r.1.length = X.length ∧ (∀ l ∈ r.1, l < min (max k0.toNat 1) X.length) ∧
      ∀ q, q < min (max k0.toNat 1) X.length → ∀ d, d < p →
        centresOf r.2.1 q d = mstep X r.1 q d := by
  have hk : 0 < min (max k0.toNat 1) X.length := by
    have : 0 < X.length := List.length_pos_iff.mpr hX
    omega
  obtain ⟨C0, thr, f, e⟩ := kmeansPub_ok_is_run p X k0 L inits maxiter delta ninit r h
  have hr := runFrom_returns_means p _ hk X thr f C0
  rw [← e] at hr
  refine ⟨hr.2.1, hr.2.2, ?_⟩
  intro q hq d hd
  have h1 : r.2.1 = mstepL p X r.1 (min (max k0.toNat 1) X.length) := hr.1
  rw [h1]
  exact centresOf_mstepL p X _ _ q d hq hd

/-- **What the public `kmeans` refuses** (the loops that never run leave a local name unbound;
    `x[z == q]` fails on a vector of another length): no restart (`ninit ≤ 0`); `Labels` of another
    length with an entry that selects a cluster; no labelling and `maxiter ≤ 0` (the wrapper rewrites
    the budget only next to an acceptable labelling). -/
theorem kmeansPub_refusals (p : Nat) (X : List Vec) (k0 : Int) (L : Option (List Int))
    (inits : List (List (List Rat))) (maxiter : Int) (delta : Rat) (ninit : Int) :
    (ninit ≤ 0 → kmeansPub p X k0 L inits maxiter delta ninit = .error "error:UnboundLocalError") ∧
    (0 < ninit → ∀ l, L = some l → l.length ≠ X.length →
        (∃ x ∈ l, 0 ≤ x ∧ x < ((min (max k0.toNat 1) X.length : Nat) : Int)) →
        kmeansPub p X k0 L inits maxiter delta ninit = .error "error:indexError") ∧
    (0 < ninit → L = none → maxiter ≤ 0 →
        kmeansPub p X k0 L inits maxiter delta ninit = .error "error:UnboundLocalError") := by
  refine ⟨fun h => ?_, fun h l hL hlen hex => ?_, fun h hL hm => ?_⟩
  · simp [kmeansPub, h]
  · subst hL
    have hany : (l.any fun x => decide (0 ≤ x ∧ x < ((min (max k0.toNat 1) X.length : Nat) : Int))) = true := by
      rw [List.any_eq_true]
      obtain ⟨x, hx, hx2⟩ := hex
      exact ⟨x, hx, by simpa using hx2⟩
    have hms : mstepAny p X l (min (max k0.toNat 1) X.length) = .error "error:indexError" := by
      unfold mstepAny
      rw [if_pos ⟨hlen, hany⟩]
    simp only [kmeansPub, if_neg (not_le.mpr h), hms, Except.map]
  · subst hL
    have hw : wrapArgs X.length (min (max k0.toNat 1) X.length) none maxiter delta = (maxiter, delta) := rfl
    simp only [kmeansPub, hw, if_neg (not_le.mpr h), if_pos hm]

/-- random initialisation: "which run is returned" — the solution of the **last** restart (the
    `else` of the outer `for`), whatever the earlier restarts found -/
theorem kmeansPub_returns_last_restart (p : Nat) (X : List Vec) (k0 : Int)
    (I : List (List (List Rat))) (C0 : List (List Rat)) (maxiter : Int) (delta : Rat) (ninit : Int)
    (hn : 0 < ninit) (hm : 0 < maxiter) :
    ∃ J, kmeansPub p X k0 none (I ++ [C0]) maxiter delta ninit
      = .ok ((runFrom p (min (max k0.toNat 1) X.length) X (delta * vdata p X) (maxiter.toNat - 1) C0).1,
             (runFrom p (min (max k0.toNat 1) X.length) X (delta * vdata p X) (maxiter.toNat - 1) C0).2, J) := by
  refine ⟨List.foldl (fun bJ C => runJ p (min (max k0.toNat 1) X.length) X (delta * vdata p X)
    maxiter.toNat C bJ) none (I ++ [C0]), ?_⟩
  have hw : wrapArgs X.length (min (max k0.toNat 1) X.length) none maxiter delta = (maxiter, delta) := rfl
  simp only [kmeansPub, hw, if_neg (not_le.mpr hn), if_neg (not_le.mpr hm), List.getLast?_append,
    List.getLast?_singleton, Option.some_or, runRestart]

/-! ## `voronoi`: no dependence on a common offset or unit -/

/-- add the same vector `t` to a point -/
def shiftV (t x : Vec) : Vec := fun d => x d + t d
/-- multiply a point by `s` -/
def scaleV (s : Rat) (x : Vec) : Vec := fun d => s * x d

theorem sqDist_shift (p : Nat) (t x c : Vec) : sqDist p (shiftV t x) (shiftV t c) = sqDist p x c := by
  unfold sqDist shiftV
  apply sumTo_congr
  intro d _
  ring

theorem sqDist_scale (p : Nat) (s : Rat) (x c : Vec) :
    sqDist p (scaleV s x) (scaleV s c) = s ^ 2 * sqDist p x c := by
  unfold sqDist scaleV
  rw [← sumTo_smul]
  apply sumTo_congr
  intro d _
  ring

theorem argminFirst_pos_mul (cost : Nat → Rat) (c : Rat) (hc : 0 < c) (k : Nat) :
    argminFirst (fun q => c * cost q) k = argminFirst cost k := by
  induction k with
  | zero => rfl
  | succ k ih =>
      simp only [argminFirst, ih]
      by_cases h : cost k < cost (argminFirst cost k)
      · rw [if_pos h, if_pos (mul_lt_mul_of_pos_left h hc)]
      · rw [if_neg h, if_neg (fun h' => h (lt_of_mul_lt_mul_left h' (le_of_lt hc)))]

/-- "the stand-alone nearest-centre assignment labels every point with a closest centre" does not
    depend on where the origin is: data and centres moved by the same offset (time stamps, scanner
    coordinates) get the same labels, ties included.  The squared distances are those of the
    differences as written (`(x - c) ** 2`, no `x² - 2xc + c²` expansion), which is what makes this
    exact and not only true up to cancellation. -/
theorem estep_shift_invariant (p : Nat) (X : List Vec) (C : Nat → Vec) (k : Nat) (t : Vec) :
    estep p (X.map (shiftV t)) (fun q => shiftV t (C q)) k = estep p X C k := by
  unfold estep
  rw [List.map_map]
  apply List.map_congr_left
  intro x _
  exact argminFirst_congr k (fun q _ => sqDist_shift p t x (C q))

/-- … nor on the unit: data and centres multiplied by the same `s ≠ 0` get the same labels. -/
theorem estep_scale_invariant (p : Nat) (X : List Vec) (C : Nat → Vec) (k : Nat) (s : Rat)
    (hs : s ≠ 0) :
    estep p (X.map (scaleV s)) (fun q => scaleV s (C q)) k = estep p X C k := by
  unfold estep
  rw [List.map_map]
  apply List.map_congr_left
  intro x _
  have h1 : (fun q => sqDist p ((scaleV s) x) (scaleV s (C q))) = fun q => s ^ 2 * sqDist p x (C q) := by
    funext q; exact sqDist_scale p s x (C q)
  show argminFirst (fun q => sqDist p (scaleV s x) (scaleV s (C q))) k = _
  rw [h1]
  exact argminFirst_pos_mul _ _ (by positivity) k

/-! ## Non-vacuity -/

/-- an acceptable labelling (hypotheses of `kmeansPub_accepted`), `ninit = 3` -/
example : kmeansPub 1 [vecOf [0], vecOf [1], vecOf [5]] 2 (some [0, 1, 2]) [] 3 0 3
    = .ok (kmeansW 1 [vecOf [0], vecOf [1], vecOf [5]] 2 [0, 1, 2] 3 0) :=
  kmeansPub_accepted 1 _ 2 [0, 1, 2] 3 0 3 [] (by decide) rfl (by decide)
/-- a labelling out of range is run as it is: the call returns (hypothesis of `kmeansPub_returns_valid`) -/
example : ∃ r, kmeansPub 1 [vecOf [0], vecOf [1], vecOf [5]] 2 (some [0, 7, -1]) [] 2 0 1 = .ok r ∧
    r.1 = [0, 0, 1] := ⟨_, rfl, by decide +kernel⟩
/-- the three refusals -/
example : kmeansPub 1 [vecOf [0], vecOf [1], vecOf [5]] 2 (some [0, 1]) [] 2 0 1 = .error "error:indexError" := by
  decide +kernel
example : kmeansPub 1 [vecOf [0], vecOf [1], vecOf [5]] 2 none [[[0], [1]]] 0 0 1
    = .error "error:UnboundLocalError" := by decide +kernel
example : kmeansPub 1 [vecOf [0], vecOf [1], vecOf [5]] 2 (some [0, 1, 1]) [] 2 0 0
    = .error "error:UnboundLocalError" := by decide +kernel
/-- a vector of another length that selects no cluster is not refused -/
example : ∃ r, kmeansPub 1 [vecOf [0], vecOf [1], vecOf [5]] 2 (some [7, 7]) [] 2 0 1 = .ok r :=
  ⟨_, rfl⟩
/-- an early stop that is a strict truncation: with threshold 100 one loop body runs, without a
    stopping rule the same budget moves the boundary further -/
example : runFrom 1 2 [vecOf [0], vecOf [1], vecOf [2], vecOf [9]] 100 3 [[0], [1]]
      = runFrom 1 2 [vecOf [0], vecOf [1], vecOf [2], vecOf [9]] 0 0 [[0], [1]] ∧
    runFrom 1 2 [vecOf [0], vecOf [1], vecOf [2], vecOf [9]] 0 3 [[0], [1]]
      ≠ runFrom 1 2 [vecOf [0], vecOf [1], vecOf [2], vecOf [9]] 0 0 [[0], [1]] := by
  decide +kernel
example : estep 1 ([vecOf [0], vecOf [3]].map (shiftV (vecOf [65536]))) (fun q => shiftV (vecOf [65536]) (centresOf [[1], [2]] q)) 2
    = [0, 1] := by decide +kernel

end NipyVerif.C14
