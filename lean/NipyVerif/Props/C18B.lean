/-
C18 (extension) — property theorems about `NipyVerif.Model.C18B` and further theorems about the
kernel geometry of `NipyVerif.Model.C18`: one filter object used for a history of calls (the caller's
images are never changed, answers do not depend on the history, `is_fft=True` agrees with the plain
call), `nan_to_num`, the kernel as a function of the world displacement for every invertible affine,
the crop box (contains the support, tight, symmetric on odd grids), the margins of the "away from the
borders" clauses, and the conversions of fwhm.py.
-/
import NipyVerif.Props.C18
import NipyVerif.Lemmas.C18B
import Mathlib.Algebra.Order.GroupWithZero.Basic

namespace NipyVerif.C18

/-! ## One filter object, many calls: the caller's data and the history -/

/-- `smooth` changes nothing: neither the filter object nor any of the caller's images
    (spatial or pre-transformed, whatever `clean` / `is_fft`). -/
theorem smooth_op_pure (s : FState) (i : Nat) (c f : Bool) : (step s (.smooth i c f)).1 = s := rfl

/-- no operation on the filter object touches the caller's images or the kernel built by `__init__` -/
theorem step_preserves_caller_data (s : FState) (op : Op) :
    (step s op).1.imgs = s.imgs ∧ (step s op).1.ker = s.ker ∧ (step s op).1.kshape = s.kshape ∧
    (step s op).1.off = s.off ∧ (step s op).1.bshape = s.bshape ∧ (step s op).1.l2 = s.l2 := by
  cases op <;> simp [step]

/-- … hence no history of operations does -/
theorem history_preserves_caller_data (s : FState) (h : List Op) :
    (runOps s h).1.imgs = s.imgs ∧ (runOps s h).1.ker = s.ker ∧ (runOps s h).1.kshape = s.kshape ∧
    (runOps s h).1.off = s.off ∧ (runOps s h).1.bshape = s.bshape ∧ (runOps s h).1.l2 = s.l2 := by
  induction h generalizing s with
  | nil => simp [runOps]
  | cons op rest ih =>
    obtain ⟨a1, a2, a3, a4, a5, a6⟩ := step_preserves_caller_data s op
    obtain ⟨b1, b2, b3, b4, b5, b6⟩ := ih (step s op).1
    simp only [runOps]
    exact ⟨b1.trans a1, b2.trans a2, b3.trans a3, b4.trans a4, b5.trans a5, b6.trans a6⟩

/-- the answer of `smooth` is a function of the image, the kernel and the three settings only
    (in particular the `fwhm` attribute is inert after construction) -/
theorem smoothOut_congr (s t : FState) (i : Nat) (c f : Bool)
    (h1 : t.imgs = s.imgs) (h2 : t.ker = s.ker) (h3 : t.kshape = s.kshape) (h4 : t.off = s.off)
    (h5 : t.bshape = s.bshape) (h6 : t.l2 = s.l2) (h7 : t.normKey = s.normKey) (h8 : t.scale = s.scale)
    (h9 : t.loc = s.loc) : smoothOut t i c f = smoothOut s i c f := by
  cases s; cases t
  simp only at h1 h2 h3 h4 h5 h6 h7 h8 h9
  subst h1 h2 h3 h4 h5 h6 h7 h8 h9
  rfl

/-- **history independence**: after any history of operations on the filter object (smoothing other
    images, smoothing this one, pre-transformed or not, re-assigning attributes) a `smooth` request
    made under the same normalisation/scale/location settings gets the answer it would have got first. -/
theorem smooth_history_independent (s : FState) (h : List Op) (i : Nat) (c f : Bool)
    (hk : (runOps s h).1.normKey = s.normKey) (hs : (runOps s h).1.scale = s.scale)
    (hl : (runOps s h).1.loc = s.loc) :
    smoothOut (runOps s h).1 i c f = smoothOut s i c f := by
  obtain ⟨a1, a2, a3, a4, a5, a6⟩ := history_preserves_caller_data s h
  exact smoothOut_congr s _ i c f a1 a2 a3 a4 a5 a6 hk hs hl

/-- a history made of `smooth` calls only leaves the whole state as it was (A, B, A again …) -/
theorem smooth_only_history_pure (s : FState) (h : List Op)
    (hs : ∀ op ∈ h, ∃ i c f, op = .smooth i c f) : (runOps s h).1 = s := by
  induction h generalizing s with
  | nil => rfl
  | cons op rest ih =>
    obtain ⟨i, c, f, rfl⟩ := hs op (List.mem_cons_self ..)
    simp only [runOps]
    exact ih s fun o ho => hs o (List.mem_cons_of_mem _ ho)

/-- re-assigning `fwhm` after construction has no effect on any answer -/
theorem setFwhm_inert (s : FState) (r : Rat) (i : Nat) (c f : Bool) :
    smoothOut (step s (.setFwhm r)).1 i c f = smoothOut s i c f := rfl

/-- the pre-transformed path is the plain path without the padding step -/
theorem smoothBuf_pad (F : Filter) (x : Img) : smoothBuf F (pad F.bshape x) = smoothCirc F x := rfl

/-- **`is_fft=True` agrees with the plain call**: if the stored pre-transformed image `j` is the transform
    of the zero-padded image `i` (finite values), `smooth(j, is_fft=True)` answers what `smooth(i)` answers,
    with or without `clean`. -/
theorem isfft_agrees_with_plain (s : FState) (i j : Nat) (v : Array Ext) (b : Array Rat) (cl : Bool)
    (hi : s.imgs[i]? = some (.spatial v)) (hj : s.imgs[j]? = some (.pre b))
    (htame : ∀ e ∈ v.toList, e.tame = true)
    (hbuf : ∀ x y z, x < (padShape s.bshape s.kshape).n0 → y < (padShape s.bshape s.kshape).n1 →
      z < (padShape s.bshape s.kshape).n2 →
      imgOfArr (padShape s.bshape s.kshape) b x y z = pad s.bshape (extImg s.bshape v) x y z)
    (ho : s.off.n0 ≤ s.kshape.n0 ∧ s.off.n1 ≤ s.kshape.n1 ∧ s.off.n2 ≤ s.kshape.n2) :
    smoothOut s j cl true = smoothOut s i false false := by
  have hfin : v.toList.all Ext.finite = true := by
    rw [List.all_eq_true]; intro e he
    have := htame e he
    cases e <;> simp_all [Ext.tame, Ext.finite]
  have htame' : v.toList.all Ext.tame = true := by
    rw [List.all_eq_true]; exact htame
  unfold smoothOut
  rw [hi, hj]
  simp only [Bool.not_true, Bool.false_eq_true, if_false]
  cases hn : s.norm? with
  | none => rfl
  | some nv =>
    simp only [hfin, htame', if_true]
    congr 1
    apply toList_congr
    intro a0 a1 a2 h0 h1 h2
    have e1 : smoothBuf (s.filter nv) (imgOfArr (padShape s.bshape s.kshape) b) a0 a1 a2 =
        smoothCirc (s.filter nv) (extImg s.bshape v) a0 a1 a2 := by
      unfold smoothBuf smoothCirc circConv
      congr 3
      apply sum3_congr
      intro x y z hx hy hz
      show imgOfArr (padShape s.bshape s.kshape) b x y z * _ = pad s.bshape (extImg s.bshape v) x y z * _
      rw [hbuf x y z hx hy hz]
    rw [e1]
    exact smooth_is_convolution (s.filter nv) (extImg s.bshape v) a0 a1 a2 h0 h1 h2 ho.1 ho.2.1 ho.2.2

/-! ### `clean` -/

/-- `nan_to_num` leaves finite values alone, always returns a finite value, and is idempotent -/
theorem clean_spec (e : Ext) :
    (e.finite = true → e.clean = e) ∧ e.clean.finite = true ∧ e.clean.clean = e.clean := by
  cases e <;> simp [Ext.clean, Ext.finite]

/-- on an image without NaN/inf, `clean=True` and `clean=False` give the same answer -/
theorem clean_irrelevant_on_finite (s : FState) (i : Nat) (v : Array Ext) (f : Bool)
    (hi : s.imgs[i]? = some (.spatial v)) (hfin : ∀ e ∈ v.toList, e.finite = true) :
    smoothOut s i true f = smoothOut s i false f := by
  have : v.map Ext.clean = v := by
    apply Array.ext'
    rw [Array.toList_map]
    conv_rhs => rw [← List.map_id v.toList]
    exact List.map_congr_left fun e he => (clean_spec e).1 (hfin e he)
  unfold smoothOut
  rw [hi]
  simp only [this, if_true, Bool.false_eq_true, if_false]

/-! ## The kernel is the world-unit Gaussian for every invertible affine -/

/-- the exponent at a voxel is a function of the *world* displacement `A·(voxel − centre voxel)` alone
    (any affine: anisotropic, flipped, permuted, oblique; the translation does not enter) -/
theorem exponent_is_world_function (g : Geom) (a b c : Nat) :
    g.e a b c = worldExp g.sig g.wh (g.lin.mulVec
      ((vox a b c).sub (vox (centre g.sh.n0) (centre g.sh.n1) (centre g.sh.n2)))) := by
  unfold Geom.e worldExp
  rw [world_offset_translation_free]

/-- without whitening that function is `½ Σ (wᵢ/σᵢ)²` of the world displacement `w`, and for an
    invertible linear part (`A·B = 1`) every world displacement `w` is reached by the (rational) voxel
    displacement `B·w`: the voxel-space kernel is the pull-back of the axis-aligned world Gaussian. -/
theorem exponent_world_units_invertible (sig : V3) (A B : M3) (hAB : A.mul B = M3.one) (w : V3) :
    worldExp sig M3.one (A.mulVec (B.mulVec w)) =
      ((w.x / sig.x) ^ 2 + (w.y / sig.y) ^ 2 + (w.z / sig.z) ^ 2) / 2 := by
  rw [← M3.mulVec_mul, hAB, M3.one_mulVec]
  simp only [worldExp, halfNormSq, M3.one, M3.mulVec, V3.dot]
  ring

/-- the requested width is a full width at half maximum in world units along each world axis: at the
    world displacement `fwhm/2` along one axis, with `σ = fwhm / c`, the exponent is `c²/8`
    (`= log 2` for `c = sqrt(8 log 2)`, i.e. the kernel value is `½`). -/
theorem half_maximum_at_half_fwhm (c f0 f1 f2 : Rat) (hc : c ≠ 0) (h0 : f0 ≠ 0) (h1 : f1 ≠ 0) (h2 : f2 ≠ 0) :
    worldExp ⟨f0 / c, f1 / c, f2 / c⟩ M3.one ⟨f0 / 2, 0, 0⟩ = c ^ 2 / 8 ∧
    worldExp ⟨f0 / c, f1 / c, f2 / c⟩ M3.one ⟨0, f1 / 2, 0⟩ = c ^ 2 / 8 ∧
    worldExp ⟨f0 / c, f1 / c, f2 / c⟩ M3.one ⟨0, 0, f2 / 2⟩ = c ^ 2 / 8 := by
  simp only [worldExp, halfNormSq, M3.one, M3.mulVec, V3.dot]
  refine ⟨?_, ?_, ?_⟩ <;> field_simp <;> ring

/-! ## `_crop` -/

/-- the crop box contains every voxel of the support -/
theorem crop_box_contains_support (s : Sh) (p : Nat → Nat → Nat → Bool) (bx : Box)
    (h : cropBox s p = some bx) (a b c : Nat) (ha : a < s.n0) (hb : b < s.n1) (hc : c < s.n2)
    (hp : p a b c = true) :
    (bx.lo.n0 ≤ a ∧ a < bx.lo.n0 + bx.k.n0) ∧ (bx.lo.n1 ≤ b ∧ b < bx.lo.n1 + bx.k.n1) ∧
    (bx.lo.n2 ≤ c ∧ c < bx.lo.n2 + bx.k.n2) := by
  obtain ⟨m0, M0, m1, M1, m2, M2, e0, e1, e2, e3, e4, e5, rfl⟩ := cropBox_some s p bx h
  have l0 := loHit_le _ _ _ a e0 ha (hit0_of s p a b c hb hc hp)
  have u0 := le_hiHit _ _ _ a e1 ha (hit0_of s p a b c hb hc hp)
  have l1 := loHit_le _ _ _ b e2 hb (hit1_of s p a b c ha hc hp)
  have u1 := le_hiHit _ _ _ b e3 hb (hit1_of s p a b c ha hc hp)
  have l2 := loHit_le _ _ _ c e4 hc (hit2_of s p a b c ha hb hp)
  have u2 := le_hiHit _ _ _ c e5 hc (hit2_of s p a b c ha hb hp)
  simp only
  omega

/-- the crop box lies inside the grid and is tight: each of its six faces holds a support voxel -/
theorem crop_box_tight (s : Sh) (p : Nat → Nat → Nat → Bool) (bx : Box) (h : cropBox s p = some bx) :
    (bx.lo.n0 + bx.k.n0 ≤ s.n0 ∧ bx.lo.n1 + bx.k.n1 ≤ s.n1 ∧ bx.lo.n2 + bx.k.n2 ≤ s.n2) ∧
    (∃ b c, b < s.n1 ∧ c < s.n2 ∧ p bx.lo.n0 b c = true) ∧
    (∃ b c, b < s.n1 ∧ c < s.n2 ∧ p (bx.lo.n0 + bx.k.n0 - 1) b c = true) ∧
    (∃ a c, a < s.n0 ∧ c < s.n2 ∧ p a bx.lo.n1 c = true) ∧
    (∃ a c, a < s.n0 ∧ c < s.n2 ∧ p a (bx.lo.n1 + bx.k.n1 - 1) c = true) ∧
    (∃ a b, a < s.n0 ∧ b < s.n1 ∧ p a b bx.lo.n2 = true) ∧
    (∃ a b, a < s.n0 ∧ b < s.n1 ∧ p a b (bx.lo.n2 + bx.k.n2 - 1) = true) := by
  obtain ⟨m0, M0, m1, M1, m2, M2, e0, e1, e2, e3, e4, e5, rfl⟩ := cropBox_some s p bx h
  obtain ⟨a0, b0, _⟩ := loHit_spec _ _ _ e0
  obtain ⟨c0, d0, _⟩ := hiHit_spec _ _ _ e1
  obtain ⟨a1, b1, _⟩ := loHit_spec _ _ _ e2
  obtain ⟨c1, d1, _⟩ := hiHit_spec _ _ _ e3
  obtain ⟨a2, b2, _⟩ := loHit_spec _ _ _ e4
  obtain ⟨c2, d2, _⟩ := hiHit_spec _ _ _ e5
  have o0 := le_hiHit _ _ _ m0 e1 a0 b0
  have o1 := le_hiHit _ _ _ m1 e3 a1 b1
  have o2 := le_hiHit _ _ _ m2 e5 a2 b2
  have f0 : m0 + (M0 - m0 + 1) - 1 = M0 := by omega
  have f1 : m1 + (M1 - m1 + 1) - 1 = M1 := by omega
  have f2 : m2 + (M2 - m2 + 1) - 1 = M2 := by omega
  simp only [f0, f1, f2]
  refine ⟨by omega, (hit0_iff s p m0).mp b0, (hit0_iff s p M0).mp d0, (hit1_iff s p m1).mp b1,
    (hit1_iff s p M1).mp d1, (hit2_iff s p m2).mp b2, (hit2_iff s p M2).mp d2⟩

/-- mirror voxels about the centre voxel are both inside or both outside the support -/
theorem supp_mirror (g : Geom) (a b c a' b' c' : Nat)
    (ha : a + a' = 2 * centre g.sh.n0) (hb : b + b' = 2 * centre g.sh.n1)
    (hc : c + c' = 2 * centre g.sh.n2) : g.supp a b c = g.supp a' b' c' := by
  unfold Geom.supp
  rw [kernel_symmetric g a b c a' b' c' ha hb hc]

/-- **on a grid with three odd axes the crop box is symmetric about the centre voxel**, so the index of
    the kernel centre inside the cropped kernel is `kernel.shape // 2` on every axis (this completes
    `crop_axis_symmetric_partial`: the symmetric-hit hypothesis is derived from the 3D support). -/
theorem crop_symmetric_odd_grid (g : Geom) (c0 c1 c2 : Nat)
    (h0 : g.sh.n0 = 2 * c0 + 1) (h1 : g.sh.n1 = 2 * c1 + 1) (h2 : g.sh.n2 = 2 * c2 + 1)
    (bx : Box) (h : cropBox g.sh g.supp = some bx) : foundOff bx.k = centreOff g.sh bx := by
  have hc0 : centre g.sh.n0 = c0 := by unfold centre; omega
  have hc1 : centre g.sh.n1 = c1 := by unfold centre; omega
  have hc2 : centre g.sh.n2 = c2 := by unfold centre; omega
  obtain ⟨m0, M0, m1, M1, m2, M2, e0, e1, e2, e3, e4, e5, rfl⟩ := cropBox_some g.sh g.supp bx h
  have s0 : ∀ a, a ≤ 2 * c0 → hit0 g.sh g.supp a = hit0 g.sh g.supp (2 * c0 - a) := by
    intro a ha
    rw [Bool.eq_iff_iff, hit0_iff, hit0_iff]
    constructor
    · rintro ⟨b, c, hb, hc, hp⟩
      refine ⟨2 * c1 - b, 2 * c2 - c, by omega, by omega, ?_⟩
      rw [← supp_mirror g a b c _ _ _ (by omega) (by omega) (by omega)]; exact hp
    · rintro ⟨b, c, hb, hc, hp⟩
      refine ⟨2 * c1 - b, 2 * c2 - c, by omega, by omega, ?_⟩
      rw [supp_mirror g a (2 * c1 - b) (2 * c2 - c) (2 * c0 - a) b c (by omega) (by omega) (by omega)]
      exact hp
  have s1 : ∀ b, b ≤ 2 * c1 → hit1 g.sh g.supp b = hit1 g.sh g.supp (2 * c1 - b) := by
    intro b hb
    rw [Bool.eq_iff_iff, hit1_iff, hit1_iff]
    constructor
    · rintro ⟨a, c, ha, hc, hp⟩
      refine ⟨2 * c0 - a, 2 * c2 - c, by omega, by omega, ?_⟩
      rw [← supp_mirror g a b c _ _ _ (by omega) (by omega) (by omega)]; exact hp
    · rintro ⟨a, c, ha, hc, hp⟩
      refine ⟨2 * c0 - a, 2 * c2 - c, by omega, by omega, ?_⟩
      rw [supp_mirror g (2 * c0 - a) b (2 * c2 - c) a (2 * c1 - b) c (by omega) (by omega) (by omega)]
      exact hp
  have s2 : ∀ c, c ≤ 2 * c2 → hit2 g.sh g.supp c = hit2 g.sh g.supp (2 * c2 - c) := by
    intro c hc
    rw [Bool.eq_iff_iff, hit2_iff, hit2_iff]
    constructor
    · rintro ⟨a, b, ha, hb, hp⟩
      refine ⟨2 * c0 - a, 2 * c1 - b, by omega, by omega, ?_⟩
      rw [← supp_mirror g a b c _ _ _ (by omega) (by omega) (by omega)]; exact hp
    · rintro ⟨a, b, ha, hb, hp⟩
      refine ⟨2 * c0 - a, 2 * c1 - b, by omega, by omega, ?_⟩
      rw [supp_mirror g (2 * c0 - a) (2 * c1 - b) c a b (2 * c2 - c) (by omega) (by omega) (by omega)]
      exact hp
  rw [h0] at e0 e1; rw [h1] at e2 e3; rw [h2] at e4 e5
  have r0 := crop_axis_symmetric_partial _ c0 m0 M0 s0 e0 e1
  have r1 := crop_axis_symmetric_partial _ c1 m1 M1 s1 e2 e3
  have r2 := crop_axis_symmetric_partial _ c2 m2 M2 s2 e4 e5
  simp only [foundOff, centreOff, hc0, hc1, hc2, r0.2, r1.2, r2.2]

/-- `_crop(X, tol)`: every entry with `|X| > tol` is inside the returned box -/
theorem cropAbs_contains (s : Sh) (X : Img) (tol : Rat) (a b c : Nat) (ha : a < s.n0) (hb : b < s.n1)
    (hc : c < s.n2) (hx : tol < absR (X a b c)) :
    (cropAbs s X tol).2 = true ∧
    ((cropAbs s X tol).1.lo.n0 ≤ a ∧ a < (cropAbs s X tol).1.lo.n0 + (cropAbs s X tol).1.k.n0) ∧
    ((cropAbs s X tol).1.lo.n1 ≤ b ∧ b < (cropAbs s X tol).1.lo.n1 + (cropAbs s X tol).1.k.n1) ∧
    ((cropAbs s X tol).1.lo.n2 ≤ c ∧ c < (cropAbs s X tol).1.lo.n2 + (cropAbs s X tol).1.k.n2) := by
  have hp : (fun a b c => decide (tol < absR (X a b c))) a b c = true := by simpa using hx
  unfold cropAbs
  cases e : cropBox s (fun a b c => decide (tol < absR (X a b c))) with
  | some bx =>
    exact ⟨rfl, crop_box_contains_support s _ bx e a b c ha hb hc hp⟩
  | none =>
    exfalso
    unfold cropBox at e
    obtain ⟨m, em, _⟩ := loHit_isSome _ _ _ ha (hit0_of s (fun a b c => decide (tol < absR (X a b c))) a b c hb hc hp)
    obtain ⟨M, eM, _⟩ := hiHit_isSome _ _ _ ha (hit0_of s (fun a b c => decide (tol < absR (X a b c))) a b c hb hc hp)
    obtain ⟨m', em', _⟩ := loHit_isSome _ _ _ hb (hit1_of s (fun a b c => decide (tol < absR (X a b c))) a b c ha hc hp)
    obtain ⟨M', eM', _⟩ := hiHit_isSome _ _ _ hb (hit1_of s (fun a b c => decide (tol < absR (X a b c))) a b c ha hc hp)
    obtain ⟨m'', em'', _⟩ := loHit_isSome _ _ _ hc (hit2_of s (fun a b c => decide (tol < absR (X a b c))) a b c ha hb hp)
    obtain ⟨M'', eM'', _⟩ := hiHit_isSome _ _ _ hc (hit2_of s (fun a b c => decide (tol < absR (X a b c))) a b c ha hb hp)
    rw [em, eM, em', eM', em'', eM''] at e
    cases e

/-! ## "Away from the borders", as computed margins -/

/-- constants stay constant at every voxel at least `marginLo` from the low border and `marginHi` from
    the high border (`marginLo` / `marginHi` = extent of the cropped kernel above / below its centre) -/
theorem smooth_constant_at_margin (F : Filter) (v : Rat)
    (hS : F.norm = kerSum F.kshape F.ker) (hS0 : F.norm ≠ 0) (i0 i1 i2 : Nat)
    (hin : interior F i0 i1 i2) :
    smoothLin F (fun _ _ _ => v) i0 i1 i2 = F.scale * v + F.loc := by
  obtain ⟨⟨a0, b0⟩, ⟨a1, b1⟩, ⟨a2, b2⟩⟩ := hin
  simp only [marginLo, marginHi] at a0 b0 a1 b1 a2 b2
  exact smooth_constant_interior F v hS hS0 i0 i1 i2 ⟨by omega, by omega⟩ ⟨by omega, by omega⟩
    ⟨by omega, by omega⟩

/-- total intensity is preserved when every non-zero voxel is at least `marginHi` from the low border and
    `marginLo` from the high border -/
theorem smooth_mass_at_margin (F : Filter) (x : Img)
    (hS : F.norm = kerSum F.kshape F.ker) (hS0 : F.norm ≠ 0) (hsc : F.scale = 1) (hloc : F.loc = 0)
    (hint : ∀ j0 j1 j2, j0 < F.bshape.n0 → j1 < F.bshape.n1 → j2 < F.bshape.n2 → x j0 j1 j2 ≠ 0 →
      contentInterior F j0 j1 j2) :
    sum3 F.bshape (smoothLin F x) = sum3 F.bshape x := by
  apply smooth_mass_preserved F x hS hS0 hsc hloc
  intro j0 j1 j2 h0 h1 h2 hx
  obtain ⟨⟨a0, b0⟩, ⟨a1, b1⟩, ⟨a2, b2⟩⟩ := hint j0 j1 j2 h0 h1 h2 hx
  simp only [marginLo, marginHi] at a0 b0 a1 b1 a2 b2
  exact ⟨⟨by omega, by omega⟩, ⟨by omega, by omega⟩, ⟨by omega, by omega⟩⟩

/-- there is a voxel that far from the borders exactly when the cropped kernel is no longer than the grid -/
theorem interior_nonempty_iff (F : Filter)
    (ho : F.off.n0 < F.kshape.n0 ∧ F.off.n1 < F.kshape.n1 ∧ F.off.n2 < F.kshape.n2) :
    (∃ i0 i1 i2, interior F i0 i1 i2) ↔
      F.kshape.n0 ≤ F.bshape.n0 ∧ F.kshape.n1 ≤ F.bshape.n1 ∧ F.kshape.n2 ≤ F.bshape.n2 := by
  constructor
  · rintro ⟨i0, i1, i2, ⟨a0, b0⟩, ⟨a1, b1⟩, ⟨a2, b2⟩⟩
    simp only [marginLo, marginHi] at a0 b0 a1 b1 a2 b2
    omega
  · rintro ⟨a, b, c⟩
    refine ⟨F.kshape.n0 - 1 - F.off.n0, F.kshape.n1 - 1 - F.off.n1, F.kshape.n2 - 1 - F.off.n2, ?_⟩
    simp only [interior, marginLo, marginHi]
    omega

/-- the response to the constant image 1 at voxel `i` is the sum of the kernel entries the grid covers:
    entry `b` is covered on an axis iff `b ≤ i + off < b + n` -/
theorem linConv_one_masked (F : Filter) (i0 i1 i2 : Nat) :
    linConv F (fun _ _ _ => 1) i0 i1 i2 = sum3 F.kshape (fun b0 b1 b2 =>
      if covered F.bshape.n0 (i0 + F.off.n0) b0 ∧ covered F.bshape.n1 (i1 + F.off.n1) b1 ∧
        covered F.bshape.n2 (i2 + F.off.n2) b2 then F.ker b0 b1 b2 else 0) := by
  have := sum3_kerZ_masked F.bshape F.kshape F.ker (i0 + F.off.n0) (i1 + F.off.n1) (i2 + F.off.n2)
  simp only [Nat.cast_add] at this
  unfold linConv
  simp only [one_mul]
  exact this

/-- **the margins are sharp**: for a non-negative kernel whose crop box is tight (a positive entry on each
    of its six faces — `crop_box_tight` for the Gaussian support), at *every* voxel of the grid that is not
    at least the margins away from the borders a positive constant image comes out strictly smaller
    (positive scale): there the "constants stay constant" clause does not apply, and that is no violation. -/
theorem constant_margin_sharp (F : Filter) (v : Rat) (hv : 0 < v) (hs : 0 < F.scale)
    (hS : F.norm = kerSum F.kshape F.ker) (hS0 : 0 < F.norm)
    (hK : ∀ a b c, a < F.kshape.n0 → b < F.kshape.n1 → c < F.kshape.n2 → 0 ≤ F.ker a b c)
    (ho : F.off.n0 < F.kshape.n0 ∧ F.off.n1 < F.kshape.n1 ∧ F.off.n2 < F.kshape.n2)
    (f0 : ∃ b c, b < F.kshape.n1 ∧ c < F.kshape.n2 ∧ 0 < F.ker 0 b c)
    (g0 : ∃ b c, b < F.kshape.n1 ∧ c < F.kshape.n2 ∧ 0 < F.ker (F.kshape.n0 - 1) b c)
    (f1 : ∃ a c, a < F.kshape.n0 ∧ c < F.kshape.n2 ∧ 0 < F.ker a 0 c)
    (g1 : ∃ a c, a < F.kshape.n0 ∧ c < F.kshape.n2 ∧ 0 < F.ker a (F.kshape.n1 - 1) c)
    (f2 : ∃ a b, a < F.kshape.n0 ∧ b < F.kshape.n1 ∧ 0 < F.ker a b 0)
    (g2 : ∃ a b, a < F.kshape.n0 ∧ b < F.kshape.n1 ∧ 0 < F.ker a b (F.kshape.n2 - 1))
    (i0 i1 i2 : Nat) (hnot : ¬ interior F i0 i1 i2) :
    smoothLin F (fun _ _ _ => v) i0 i1 i2 < F.scale * v + F.loc := by
  -- some kernel entry with a positive value is not covered
  have key : linConv F (fun _ _ _ => 1) i0 i1 i2 < F.norm := by
    rw [linConv_one_masked, hS]
    unfold kerSum
    simp only [interior, marginLo, marginHi, not_and_or, not_le, not_lt] at hnot
    rcases hnot with (h | h) | (h | h) | (h | h)
    · obtain ⟨b, c, hb, hc, hp⟩ := g0
      exact sum3_masked_lt _ _ _ hK (F.kshape.n0 - 1) b c (by omega) hb hc
        (fun hc' => by have := hc'.1; unfold covered at this; omega) hp
    · obtain ⟨b, c, hb, hc, hp⟩ := f0
      exact sum3_masked_lt _ _ _ hK 0 b c (by omega) hb hc
        (fun hc' => by have := hc'.1; unfold covered at this; omega) hp
    · obtain ⟨a, c, ha, hc, hp⟩ := g1
      exact sum3_masked_lt _ _ _ hK a (F.kshape.n1 - 1) c ha (by omega) hc
        (fun hc' => by have := hc'.2.1; unfold covered at this; omega) hp
    · obtain ⟨a, c, ha, hc, hp⟩ := f1
      exact sum3_masked_lt _ _ _ hK a 0 c ha (by omega) hc
        (fun hc' => by have := hc'.2.1; unfold covered at this; omega) hp
    · obtain ⟨a, b, ha, hb, hp⟩ := g2
      exact sum3_masked_lt _ _ _ hK a b (F.kshape.n2 - 1) ha hb (by omega)
        (fun hc' => by have := hc'.2.2; unfold covered at this; omega) hp
    · obtain ⟨a, b, ha, hb, hp⟩ := f2
      exact sum3_masked_lt _ _ _ hK a b 0 ha hb (by omega)
        (fun hc' => by have := hc'.2.2; unfold covered at this; omega) hp
  have e : linConv F (fun _ _ _ => v) i0 i1 i2 = v * linConv F (fun _ _ _ => 1) i0 i1 i2 := by
    unfold linConv
    rw [← sum3_smul]
    apply sum3_congr; intro a b c _ _ _; ring
  unfold smoothLin
  rw [e]
  have h1 : v * linConv F (fun _ _ _ => 1) i0 i1 i2 / F.norm < v := by
    rw [div_lt_iff₀ hS0]
    exact mul_lt_mul_of_pos_left key hv
  have := mul_lt_mul_of_pos_left h1 hs
  linarith

/-! ## fwhm.py -/

/-- `fwhm2resel` followed by `resel2fwhm` multiplies the width by `wedge²` (as built; `root` is the
    positive D-th root NumPy returns) -/
theorem resel_roundtrip (c4 w f root : Rat) (D : Nat) (hc : 0 < c4) (hw : 0 < w) (hf : 0 < f) (hD : D ≠ 0)
    (hr : 0 ≤ root) (hroot : ratPow root D = fwhm2resel c4 w D f) :
    resel2fwhm c4 w root = w * w * f := by
  have hy : 0 < f / c4 * w := by positivity
  have hyD : 0 < (f / c4 * w) ^ D := pow_pos hy D
  unfold fwhm2resel posRecipr at hroot
  rw [ratPow_eq, ratPow_eq, if_pos hyD, one_div, ← inv_pow] at hroot
  have hroot' : root = (f / c4 * w)⁻¹ := (pow_left_inj₀ hr (le_of_lt (inv_pos.mpr hy)) hD).mp hroot
  have hrp : 0 < root := by rw [hroot']; exact inv_pos.mpr hy
  unfold resel2fwhm posRecipr
  rw [if_pos hrp, hroot']
  field_simp

/-- so the two `Resels` conversions are mutually inverse exactly for unit-volume voxels (`wedge = 1`);
    the property's "width/standard-deviation conversions" clause names `fwhm2sigma`/`sigma2fwhm`, for
    which `fwhm_sigma_inverse` holds unconditionally -/
theorem resel_inverse_iff_unit_wedge (c4 w : Rat) (D : Nat) (hc : 0 < c4) (hw : 0 < w) (hD : D ≠ 0) :
    (∀ f root, 0 < f → 0 ≤ root → ratPow root D = fwhm2resel c4 w D f → resel2fwhm c4 w root = f) ↔ w = 1 := by
  constructor
  · intro h
    -- take f = c4 / w: then f / c4 * w = 1, root = 1
    have hf : 0 < c4 / w := by positivity
    have e : fwhm2resel c4 w D (c4 / w) = 1 := by
      unfold fwhm2resel posRecipr
      have : c4 / w / c4 * w = 1 := by field_simp
      rw [this, ratPow_eq, one_pow, if_pos one_pos, div_one]
    have h1 := h (c4 / w) 1 hf zero_le_one (by rw [e, ratPow_eq, one_pow])
    have h2 := resel_roundtrip c4 w (c4 / w) 1 D hc hw hf hD zero_le_one (by rw [e, ratPow_eq, one_pow])
    rw [h1] at h2
    have h3 : w * w = 1 := by
      have hne : c4 / w ≠ 0 := ne_of_gt hf
      have : (c4 / w) * 1 = (c4 / w) * (w * w) := by
        rw [mul_one]
        calc c4 / w = w * w * (c4 / w) := h2
          _ = c4 / w * (w * w) := by ring
      exact (mul_left_cancel₀ hne this).symm
    nlinarith [sq_nonneg (w - 1), sq_nonneg (w + 1)]
  · rintro rfl f root hf hr hroot
    rw [resel_roundtrip c4 1 f root D hc one_pos hf hD hr hroot]; ring

/-- `_calc_detlam` is the determinant of the symmetric matrix of its docstring -/
theorem calcDetlam_eq_det (xx yy zz yx zx zy : Rat) :
    calcDetlam xx yy zz yx zx zy = det3 ⟨⟨xx, yx, zx⟩, ⟨yx, yy, zy⟩, ⟨zx, zy, zz⟩⟩ := by
  unfold calcDetlam det3; ring

/-- `wedge ** D` for an axis-aligned affine is the voxel volume `|s₀ s₁ s₂|` (flips do not matter) -/
theorem wedgePow_diag (s0 s1 s2 : Rat) :
    wedgePow ⟨⟨s0, 0, 0⟩, ⟨0, s1, 0⟩, ⟨0, 0, s2⟩⟩ = absR (s0 * s1 * s2) := by
  unfold wedgePow det3; congr 1; ring

/-- `integrate` with a mask of ones counts and adds as without a mask -/
theorem integrate_mask_ones (rs : List Rat) :
    integrate rs (some (rs.map fun _ => 1)) = integrate rs none := by
  unfold integrate
  have t : truncInt 1 = 1 := by decide
  induction rs with
  | nil => simp
  | cons r rest ih =>
    simp only [List.map_cons, List.map_map, List.zipWith_cons_cons, List.sum_cons, List.length_cons,
      Prod.mk.injEq] at ih ⊢
    obtain ⟨i1, i2⟩ := ih
    constructor
    · rw [i1]; simp [t]
    · simp only [t] at i2 ⊢; push_cast; omega

/-- array arguments of the width conversions: element-wise mutually inverse -/
theorem widths_array_inverse (c : Rat) (hc : c ≠ 0) (xs : List Rat) :
    (xs.map (fwhm2sigma c)).map (sigma2fwhm c) = xs ∧ (xs.map (sigma2fwhm c)).map (fwhm2sigma c) = xs := by
  constructor <;>
  · rw [List.map_map]
    conv_rhs => rw [← List.map_id xs]
    apply List.map_congr_left
    intro x _
    simp only [Function.comp, id]
    first | exact (fwhm_sigma_inverse c x hc).1 | exact (fwhm_sigma_inverse c x hc).2

/-! ## Non-vacuity, counter-examples -/

/-- a one-axis filter state: grid 2×1×1, kernel `[1, 1/2]` with centre index 0, one pre-transformed image
    (buffer of the padded shape 6×4×4 with a single 1) -/
def exState : FState :=
  ⟨⟨2, 1, 1⟩, ⟨2, 1, 1⟩, fun a _ _ => [1, 1/2].getD a 0, ⟨0, 0, 0⟩, 1, "l1sum", 1, 0, 2,
    [.pre ((List.replicate 96 (0 : Rat)).set 0 1).toArray, .spatial #[.fin 1, .fin 0]]⟩

-- the pre-transformed image is the transform of the zero-padded spatial image, and both calls agree
example : smoothOut exState 0 false true = smoothOut exState 1 false false := by decide +kernel
example : smoothOut exState 0 false true = .vals [2/3, 1/3] := by decide +kernel

/-- the variant found before the fix (product written into the caller's data) answers differently when
    asked twice — the behaviour `smooth_op_pure` / `smooth_history_independent` exclude -/
theorem inplace_variant_not_repeatable :
    (stepInPlace exState (.smooth 0 false true)).2 ≠
      (stepInPlace (stepInPlace exState (.smooth 0 false true)).1 (.smooth 0 false true)).2 := by
  decide +kernel

-- margins of the one-axis example of Props/C18 (kernel of 8 on a grid of 8, centre index 3): exactly one
-- interior voxel; the constant clause holds there and fails one voxel to either side (not a violation)
example : marginLo exFixed = ⟨4, 0, 0⟩ ∧ marginHi exFixed = ⟨3, 0, 0⟩ := by decide
example : smoothLin exFixed (fun _ _ _ => 1) 4 0 0 = 1 ∧ smoothLin exFixed (fun _ _ _ => 1) 3 0 0 ≠ 1 ∧
    smoothLin exFixed (fun _ _ _ => 1) 5 0 0 ≠ 1 := by decide +kernel
-- hypotheses of `constant_margin_sharp` for that filter: non-negative entries, positive entries on the faces
example : 0 < exK 0 0 0 ∧ 0 < exK 7 0 0 ∧ exFixed.off.n0 < exFixed.kshape.n0 ∧ ¬ interior exFixed 3 0 0 := by
  refine ⟨by decide +kernel, by decide +kernel, by decide, ?_⟩
  simp [interior, marginLo, marginHi, exFixed, exFound, centre]
-- hypotheses of `resel_roundtrip`: c4 = 2, wedge = 3, D = 2, f = 4: resel = 1/36, root = 1/6, back: 36 = 3²·4
example : ratPow (1/6) 2 = fwhm2resel 2 3 2 4 ∧ resel2fwhm 2 3 (1/6) = 36 := by decide +kernel
-- an oblique invertible linear part and its inverse (hypothesis of `exponent_world_units_invertible`)
example : M3.mul ⟨⟨1, 1, 0⟩, ⟨0, 1, 1⟩, ⟨0, 0, 1⟩⟩ ⟨⟨1, -1, 1⟩, ⟨0, 1, -1⟩, ⟨0, 0, 1⟩⟩ = M3.one := by
  unfold M3.mul M3.one; norm_num
-- the `cov` branch as built is not a whitening: with the identity matrix it does not give back the plain kernel
example : (Geom.mk ⟨3, 3, 3⟩ M3.one ⟨0, 0, 0⟩ ⟨1, 1, 1⟩ M3.one).eCov 0 2 1 = 3/2 ∧
    (Geom.mk ⟨3, 3, 3⟩ M3.one ⟨0, 0, 0⟩ ⟨1, 1, 1⟩ M3.one).e 0 2 1 = 1 := by decide +kernel
example : Ext.nan.clean = .fin 0 ∧ Ext.pinf.clean = .fin maxFloat ∧ (Ext.fin 3).clean = .fin 3 := ⟨rfl, rfl, rfl⟩

end NipyVerif.C18
